"""C10: where parse errors take their position from -> lean/ShVerif/Gen/C10.lean"""
GROUP = "C10"

def render(d, h):
    c = d.get("c10")
    if not c:
        return ["C10: extractor produced no c10 facts"]
    L = h.lstr
    def origin(o):
        return "(%s, %s, %s)" % (L(o["shape"]), L(o.get("recv", "")), L(o.get("name", "")))
    lines = ["namespace ShVerif.Gen.C10", ""]
    lines.append("/-- (shape, receiver / result index, name) of an expression that yields an error position -/")
    lines.append("abbrev Origin := String × String × String\n")
    lines.append("/-- every call of a function that creates or forwards a parse error:")
    lines.append("    (enclosing function, callee, position argument as written, its origins) -/")
    sl = []
    for s in c["sites"]:
        sl.append("  (%s, %s, %s, %s)" % (L(s["func"]), L(s["callee"]), L(s["pos_expr"]), h.llist(origin(o) for o in s["origins"])))
    lines.append("def sites : List (String × String × String × List Origin) := [\n" + ",\n".join(sl) + "\n]\n")
    lines.append("/-- functions holding a ParseError{…}/LangError{…} literal: (function, type, index of the parameter given to Pos; 99 = not a parameter) -/")
    lines.append("def creators : List (String × String × Nat) := " + h.llist(
        "(%s, %s, %d)" % (L(x["func"]), L(x["type"]), x["param"] if x["param"] >= 0 else 99) for x in c["creators"]))
    lines.append("\n/-- Parser methods that hand one of their own Pos parameters on to a creator/forwarder: (name, parameter name) -/")
    lines.append("def forwarders : List (String × String) := " + h.llist("(%s, %s)" % (L(x["func"]), L(x["name"])) for x in c["forwarders"]))
    lines.append("\n/-- what the Pos-returning Parser methods return: (name, result index, origins of every return) -/")
    lines.append("def returns : List (String × Nat × List Origin) := " + h.llist(
        "(%s, %d, %s)" % (L(x["func"]), x["index"], h.llist(origin(o) for o in (x["origins"] or []))) for x in c["returns"]))
    lines.append("\ndef errPassCallers : List String := " + h.llist(L(x) for x in c["errpass"] or []))
    lines.append("def errAssigns : List String := " + h.llist(L(x) for x in c["err_assigns"] or []))
    lines.append("def posFields : List String := " + h.llist(L(x) for x in c["pos_fields"] or []))
    lines.append("\nend ShVerif.Gen.C10")
    h.put("C10", "\n".join(lines) + "\n")
    return []
