#!/usr/bin/env python3
"""Regenerates MANIFEST.json from props/*.json (claimed checks) and props/not_applicable.json."""
import os, json, glob, subprocess
V = os.path.dirname(os.path.dirname(os.path.abspath(__file__)))
ids = [json.loads(l)["id"] for l in open(os.path.join(V, "properties.jsonl")) if l.strip()]
na = json.load(open(os.path.join(V, "props", "not_applicable.json")))
checks = []
claimed = set()
for p in sorted(glob.glob(os.path.join(V, "props", "C*.json"))):
    c = json.load(open(p))
    if c.get("disabled"): continue
    pid = c["id"]; claimed.add(pid)
    checks.append({
        "property_id": pid,
        "quick_cmd": "./check %s quick" % pid,
        "thorough_cmd": "./check %s thorough" % pid,
        "evidence_file": "/verif/evidence/%s.json" % pid,
        "replay_cmd_template": "./check %s quick --replay {path}" % pid,
        "engine": "lean4-model+correspondence",
        "level_claimed": {"category": c.get("level", "proof"), "text": c["level_text"], "design_ref": c.get("design_ref", "DESIGN.md §5 " + pid)},
        "level_note": c["level_note"],
        "technique": c["technique"],
    })
try:
    hooks = subprocess.run(["git", "-C", "/repo", "log", "--format=%h %s", "--grep=^verif-hook"], capture_output=True, text=True).stdout.strip().split("\n")
    hooks = [h for h in hooks if h]
except Exception:
    hooks = []
man = {
    "version": 1,
    "setup_cmd": "./setup.sh",
    "hooks": {
        "guard": "verif",
        "enable": "go build -tags verif (the harness in /verif/harness is built with -tags verif against /repo via a replace directive)",
        "baseline_off_cmd": "cd /repo && export GOFLAGS=-mod=mod GOPROXY=off && go test -vet=off -count=1 ./... && cd moreinterp && go test -vet=off -count=1 ./...",
        "source_commits": hooks,
        "add_only": True,
    },
    "engines": [{"name": "lean4-model+correspondence", "path": "/verif/check",
                 "serves_properties": sorted(claimed),
                 "kind_free_text": "Lean 4 theorems about executable models (lean/ShVerif), regenerated fact tables (extract/), differential correspondence between the models' compiled driver and the real Go code (harness/), failing-input search"}],
    "checks": checks,
    "not_applicable": [{"property_id": i, "reason": na.get(i, "not claimed in this round: no check built yet (see DESIGN.md §8 build order); no theorem is presented for it")} for i in ids if i not in claimed],
    "notes": "All claimed checks are level 'proof' (Lean 4); see DESIGN.md. known-findings.jsonl lists recorded/fixed defects.",
}
json.dump(man, open(os.path.join(V, "MANIFEST.json"), "w"), indent=1)
print("MANIFEST.json: %d checks, %d not_applicable" % (len(checks), len(man["not_applicable"])))
