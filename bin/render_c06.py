"""C06: type-switch exhaustiveness and index-site tables -> lean/ShVerif/Gen/C06.lean"""
GROUP = "C06"
MARKERS = {"Command": "commandNode", "WordPart": "wordPartNode", "ArithmExpr": "arithmExprNode", "TestExpr": "testExprNode", "Loop": "loopNode"}

def render(d, h):
    syn = d["syntax"]
    L = h.lstr
    problems = []
    impl = {}
    for iface, marker in MARKERS.items():
        impl[iface] = sorted(t for t, ms in syn["methods"].items() if marker in ms)
    impl["Node"] = h.node_types(syn)
    lines = ["namespace ShVerif.Gen.C06", ""]
    lines.append("/-- interface → struct types implementing it (by marker method) -/")
    lines.append("def implementers : List (String × List String) := " + h.llist("(%s, %s)" % (L(k), h.llist(L(x) for x in v)) for k, v in sorted(impl.items())))
    lines.append("")
    lines.append("/-- every type switch of package syntax: (file, function, switched expression, cases, default kind) -/")
    sw = []
    for s in syn["type_switches"]:
        sw.append("  (%s, %s, %s, %s, %s)" % (L(s["file"]), L(s["func"]), L(s["on"]), h.llist(L(c) for c in (s["cases"] or [])), L(s["default"])))
    lines.append("def switches : List (String × String × String × List String × String) := [\n" + ",\n".join(sw) + "\n]")
    lines.append("")
    lines.append("/-- every type switch of package typedjson (they range over decoded JSON values, not over syntax nodes) -/")
    sw = []
    for s in d.get("typedjson", {}).get("type_switches", []):
        sw.append("  (%s, %s, %s, %s, %s)" % (L("typedjson/" + s["file"]), L(s["func"]), L(s["on"]), h.llist(L(c) for c in (s["cases"] or [])), L(s["default"])))
    lines.append("def tjSwitches : List (String × String × String × List String × String) := [\n" + ",\n".join(sw) + "\n]")
    c = d.get("c06")
    if not c:
        problems.append("C06: extractor produced no c06 facts")
        c = {"index_sites": []}
    lines.append("")
    lines.append("/-- every index / slice expression of nodes.go, printer.go, simplify.go, walk.go, typedjson/json.go:")
    lines.append("    (file, function, indexed expression, index, kind, guard, the syntactic evidence dominating it) -/")
    sl = []
    for s in c["index_sites"]:
        sl.append("  (%s, %s, %s, %s, %s, %s, %s)" % (L(s["file"]), L(s["func"]), L(s["base"]), L(s["index"]), L(s["kind"]), L(s["guard"]), L(" ; ".join(s.get("evidence") or []))))
    lines.append("def indexSites : List (String × String × String × String × String × String × String) := [\n" + ",\n".join(sl) + "\n]")
    lines.append("\nend ShVerif.Gen.C06")
    h.put("C06", "\n".join(lines) + "\n")
    return problems
