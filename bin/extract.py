#!/usr/bin/env python3
"""bin/extract.py <group>… | all
Re-reads /repo's working tree (Go extractor in /verif/extract, go/ast only) and regenerates
lean/ShVerif/Gen/<group>.lean.  Files are deleted first and written fresh (content-compared to keep
lake's cache warm).  A source shape the extractor cannot read is a failure (exit 3)."""
import os, sys, json, subprocess, glob
V = os.path.dirname(os.path.dirname(os.path.abspath(__file__)))
REPO = os.environ.get("VERIF_REPO", "/repo")
GEN = os.path.join(V, "lean", "ShVerif", "Gen")
WORK = os.path.join(V, ".work")

def put(name, src):
    os.makedirs(GEN, exist_ok=True)
    path = os.path.join(GEN, name + ".lean")
    src = "-- GENERATED from %s by bin/extract.py on every run; never edit, never commit.\n" % REPO + src
    old = open(path).read() if os.path.exists(path) else None
    if old != src:
        open(path, "w").write(src)

def lstr(s):
    return json.dumps(s, ensure_ascii=False)

def llist(xs):
    return "[" + ", ".join(xs) + "]"

def facts():
    env = dict(os.environ); env["GOFLAGS"] = "-mod=mod"; env["GOPROXY"] = "off"
    env.pop("GOSUMDB", None)
    if env.get("GOTOOLCHAIN") == "local": env.pop("GOTOOLCHAIN")
    os.makedirs(os.path.join(WORK, "bin"), exist_ok=True)
    exe = os.path.join(WORK, "bin", "extract")
    r = subprocess.run(["go", "build", "-o", exe, "."], cwd=os.path.join(V, "extract"), env=env, capture_output=True, text=True)
    if r.returncode != 0:
        print("extractor build failed:\n" + r.stdout + r.stderr); sys.exit(3)
    r = subprocess.run([exe, REPO], capture_output=True, text=True)
    if r.returncode not in (0, 3):
        print("extractor failed:\n" + r.stderr); sys.exit(3)
    d = json.loads(r.stdout)
    json.dump(d, open(os.path.join(WORK, "facts.json"), "w"), indent=1)
    return d

# ---------------------------------------------------------------------------------------------
IFACES_NODE = None

def node_types(syn):
    return sorted(t for t, ms in syn["methods"].items() if "Pos" in ms and "End" in ms and t in syn["structs"])

def node_ifaces(syn):
    out = {"Node"}
    changed = True
    while changed:
        changed = False
        for name, ms in syn["interfaces"].items():
            if name not in out and any(m in out for m in ms):
                out.add(name); changed = True
    return out

def slots_of(syn, tname, nts, ifs, prefix="", seen=()):
    """exported Node-holding fields of struct tname as (path, isList); non-node helper structs are flattened"""
    out = []
    for f in syn["structs"].get(tname, []):
        if not f["exported"]: continue
        t = f["type"]; path = prefix + f["name"]
        islist = False
        if t.startswith("[]"):
            islist = True; t = t[2:]
        base = t[1:] if t.startswith("*") else t
        if base in nts or base in ifs:
            out.append((path, islist))
        elif base in syn["structs"] and base not in seen and not islist and base not in ("Pos",):
            out += slots_of(syn, base, nts, ifs, path + ".", seen + (tname,))
    return out

def flatten_instrs(instrs, guard=""):
    """-> list of (op, field, guard) or raises on unknown shapes"""
    out = []
    for i in instrs:
        op = i["op"]
        if op == "unknown":
            raise ValueError("Walk: statement shape not understood: " + i.get("text", ""))
        if op == "ifnonnil":
            if guard:
                raise ValueError("Walk: nested guards")
            out += flatten_instrs(i.get("body") or [], i["field"])
        elif op == "split":
            # "split" needs the remembered comment to be walked after the switch, before f(nil)
            out.append(("split-defer" if i.get("defer") else "split:" + i.get("text", ""), i["field"], guard))
        else:
            out.append((op, i["field"], guard))
    return out

def gen_C14(d):
    syn = d["syntax"]; w = syn["walk"]
    nts = node_types(syn); ifs = node_ifaces(syn)
    problems = []
    lines = ["import ShVerif.Model.C14", "namespace ShVerif.Gen.C14", "open ShVerif.C14", ""]
    infos = []
    split_conds = []
    for t in nts:
        fields = slots_of(syn, t, set(nts), ifs)
        if t in w["cases"]:
            try:
                ins = flatten_instrs(w["cases"][t] or [])
            except ValueError as e:
                problems.append(str(e)); ins = [("unknown", "", "")]
            for i in (w["cases"][t] or []):
                if i["op"] == "split": split_conds.append((t, i["field"], i.get("cond", "")))
            fixed = []
            for a, b, c in ins:
                if a.startswith("split:"):
                    var = a[6:]
                    if not (w.get("trail_walked") and var == w.get("trail_var")):
                        problems.append("Walk: %s.%s remembers its trailing comment in %r but the frame does not walk it before f(nil)" % (t, b, var))
                        a = "split-lost"
                    else:
                        a = "split"
                fixed.append((a, b, c))
            ins = fixed
            instrs = "some " + llist("(%s, %s, %s)" % (lstr(a), lstr(b), lstr(c)) for a, b, c in ins)
        else:
            instrs = "none"
        infos.append("  { name := %s,\n    fields := %s,\n    instrs := %s }" % (
            lstr(t), llist("(%s, %s)" % (lstr(p), "true" if l else "false") for p, l in fields), instrs))
    lines.append("/-- every struct of package syntax with Pos() and End() methods, sorted by name -/")
    lines.append("def schema : List TypeInfo := [\n" + ",\n".join(infos) + "\n]\n")
    lines.append("/-- Walk cases for types that are not node structs of nodes.go (must be empty) -/")
    lines.append("def extraCases : List String := " + llist(lstr(t) for t in w["order"] if t not in nts) + "\n")
    lines.append("def walkDefault : String := " + lstr(w["default"]))
    lines.append("/-- frame of Walk: `if !f(node) { return }` first, exactly one `f(nil)` as the last statement, nothing else unexpected -/")
    lines.append("def walkEntryCheck : Bool := " + ("true" if w.get("entry_check") else "false"))
    lines.append("def walkNilCalls : Nat := %d" % w.get("nil_calls", 0))
    lines.append("def walkFrameOther : List String := " + llist(lstr(x) for x in (w.get("frame_other") or [])))
    lines.append("def preorderSrc : String := " + lstr(w.get("preorder_src", "")))
    lines.append("def splitConds : List (String × String × String) := " + llist("(%s, %s, %s)" % (lstr(a), lstr(b), lstr(c)) for a, b, c in split_conds))
    lines.append("\nend ShVerif.Gen.C14")
    put("C14", "\n".join(lines) + "\n")
    return problems

RENDER = {"C14": gen_C14}

# plug-ins: bin/render_<group>.py defines GROUP = "Cxx" and render(d, h) -> list of problems,
# where d is the facts document and h this module (h.put, h.lstr, h.llist, h.node_types, …).
import importlib.util
for _p in sorted(glob.glob(os.path.join(V, "bin", "render_*.py"))):
    _spec = importlib.util.spec_from_file_location(os.path.basename(_p)[:-3], _p)
    _m = importlib.util.module_from_spec(_spec); _spec.loader.exec_module(_m)
    RENDER[_m.GROUP] = (lambda m: (lambda d: m.render(d, sys.modules[__name__])))(_m)

def main():
    groups = sys.argv[1:]
    if not groups: print(__doc__); sys.exit(2)
    if groups == ["all"]:
        groups = list(RENDER) + sorted(set(os.path.basename(p)[4:-3].upper() for p in glob.glob(os.path.join(V, "bin", "gen_c*.py"))))
    d = None
    problems = []
    for g in groups:
        if g in RENDER:
            if d is None:
                d = facts()
                # extractor problems prefixed "Cxx" belong to that group only; unprefixed ones to everyone
                import re as _re
                for pr in d.get("problems") or []:
                    m = _re.match(r"(C\d+)", pr)
                    if not m or m.group(1) in groups:
                        problems.append(pr)
            problems += RENDER[g](d) or []
        else:
            script = os.path.join(V, "bin", "gen_%s.py" % g.lower())
            if os.path.exists(script):
                r = subprocess.run([sys.executable, script], cwd=V)
                if r.returncode != 0: problems.append("%s failed (rc=%d)" % (script, r.returncode))
            else:
                problems.append("unknown group " + g)
    if problems:
        print("extractor problems:\n  " + "\n  ".join(problems)); sys.exit(3)
    print("extracted:", " ".join(groups))

if __name__ == "__main__":
    main()
