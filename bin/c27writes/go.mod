module verif/c27writes

go 1.23
