"""plug-in of bin/extract.py: renders lean/ShVerif/Gen/C32.lean from facts["c32"] (extract/c32.go):
what Runner.subshell does with every Runner field, the write/read sites of Runner.bgProcs, the
goroutine start sites with their uses of the parent Runner, the writes of Runner.Params, and the
four steps of the wait protocol."""
GROUP = "C32"


def render(d, h):
    c = d.get("c32")
    if not c:
        return ["C32: extractor produced no c32 facts"]
    L = h.lstr
    B = lambda b: "true" if b else "false"
    problems = []
    def site(s):
        return "{ func := %s, kind := %s, expr := %s, inGo := %s }" % (L(s["func"]), L(s["kind"]), L(s["expr"]), B(s["in_go"]))
    lines = ["import ShVerif.Model.C32", "namespace ShVerif.Gen.C32", "open ShVerif.C32", ""]
    lines.append("/-- every field of interp.Runner (declaration order), its type, and its treatment in Runner.subshell -/")
    lines.append("def fields : List FieldFact := [\n  " + ",\n  ".join(
        "{ name := %s, type := %s, how := %s }" % (L(f["name"]), L(f["type"]), L(f["how"])) for f in c["fields"]) + "]\n")
    lines.append("/-- statements of Runner.subshell that are neither the literal, an `r2.F = …`, the fillExpandConfig call nor the return -/")
    lines.append("def subshellOther : List String := " + h.llist(L(x) for x in (c["subshell_other"] or [])) + "\n")
    lines.append("/-- Runner fields assigned by the top-level statements of Runner.fillExpandConfig -/")
    lines.append("def fillAssigns : List String := " + h.llist(L(x) for x in (c["fill_assigns"] or [])) + "\n")
    writes = [s for s in c["bgprocs"] if s["kind"] != "read"]
    reads = []
    for s in c["bgprocs"]:
        if s["kind"] == "read":
            key = (s["func"], s["in_go"])
            if key not in reads: reads.append(key)
    lines.append("/-- every write of a .bgProcs selector -/")
    lines.append("def bgProcsWrites : List Site := [\n  " + ",\n  ".join(site(s) for s in writes) + "]\n")
    lines.append("/-- functions that read .bgProcs, and whether from inside a goroutine body -/")
    lines.append("def bgProcsReaders : List (String × Bool) := " + h.llist("(%s, %s)" % (L(f), B(g)) for f, g in reads) + "\n")
    lines.append("/-- every `go` statement and `.Go(` call of package interp -/")
    lines.append("def spawns : List Spawn := [\n  " + ",\n  ".join(
        "{ func := %s, form := %s, parentUses := %s, captures := %s }" % (
            L(s["func"]), L(s["form"]), h.llist(L(x) for x in (s["parent_uses"] or [])), h.llist(L(x) for x in (s["captures"] or [])))
        for s in c["spawns"]) + "]\n")
    lines.append("/-- every write whose target mentions a .Params selector -/")
    lines.append("def paramsWrites : List Site := [\n  " + ",\n  ".join(site(s) for s in c["params_writes"]) + "]\n")
    lines.append("/-- close(….done), <-….done, writes and reads of *….exit, in source order per function -/")
    lines.append("def chanOps : List Site := [\n  " + ",\n  ".join(site(s) for s in c["chan_ops"]) + "]\n")
    lines.append("end ShVerif.Gen.C32")
    h.put("C32", "\n".join(lines) + "\n")
    return problems
