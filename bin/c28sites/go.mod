module verif/c28sites

go 1.23
