"""Renders the extractor's `syntax.byte_access` facts (for each byte-source field of syntax.Parser:
the methods of Parser whose body mentions it) into lean/ShVerif/Gen/C07.lean.  The expectation
they are compared with is hand-written in lean/ShVerif/Props/C07.lean (`parser_is_client`)."""
GROUP = "C07"
import os, re

def _stop_block(path):
    """the stop-word test: from `var enc [utf8.UTFMax]byte` to the `p.tok = _EOF` that follows it,
    with all whitespace removed"""
    try:
        src = open(path).read()
    except OSError:
        return None
    i = src.find("var enc [utf8.UTFMax]byte")
    if i < 0:
        return None
    j = src.find("p.tok = _EOF", i)
    if j < 0:
        return None
    return re.sub(r"\s+", "", src[i:j])

def render(d, h):
    problems = []
    acc = d.get("syntax", {}).get("byte_access")
    if not isinstance(acc, dict) or not acc:
        return ["C07: extractor produced no syntax.byte_access facts"]
    lines = ["namespace ShVerif.Gen.C07", "",
             "/-- field of syntax.Parser ↦ methods of Parser that mention it (sorted) -/",
             "def byteAccess : List (String × List String) := ["]
    rows = []
    for field in sorted(acc):
        fns = sorted(acc[field] or [])
        rows.append("  (%s, %s)" % (h.lstr(field), h.llist(h.lstr(f) for f in fns)))
    lines.append(",\n".join(rows))
    lines.append("]")
    for want in ("bs", "bsp", "src", "readBuf", "readErr", "readEOF", "litBs", "offs"):
        if want not in acc:
            problems.append("C07: no access facts for Parser.%s (field renamed or removed?)" % want)
    cnt = d.get("syntax", {}).get("byte_access_counts") or {}
    lines.append("")
    lines.append("/-- how often Parser.next (the only function that is not wholly a modelled primitive) mentions p.bs / p.bsp -/")
    lines.append("def nextMentions : List (String × Nat) := " + h.llist(
        "(%s, %d)" % (h.lstr(f), int((cnt.get(f) or {}).get("next", 0))) for f in ("bs", "bsp")))
    if not cnt:
        problems.append("C07: extractor produced no syntax.byte_access_counts facts")
    # the hook's StopAtHere is a transcription of the stop-word test of Parser.next (it cannot be
    # reached in isolation): keep it identical, mechanically
    repo = os.environ.get("VERIF_REPO", "/repo")
    a = _stop_block(os.path.join(repo, "syntax", "lexer.go"))
    b = _stop_block(os.path.join(repo, "syntax", "verif_c07.go"))
    if a is None or b is None:
        problems.append("C07: cannot locate the stop-word test in syntax/lexer.go or syntax/verif_c07.go")
    elif a != b:
        problems.append("C07: hook VerifLexer.StopAtHere is no longer a copy of the stop-word test in Parser.next (syntax/lexer.go); re-transcribe it")
    lines.append("\nend ShVerif.Gen.C07")
    h.put("C07", "\n".join(lines) + "\n")
    return problems
