"""Renders the extractor's `syntax.byte_access` facts (for each byte-source field of syntax.Parser:
the methods of Parser whose body mentions it) into lean/ShVerif/Gen/C07.lean.  The expectation
they are compared with is hand-written in lean/ShVerif/Props/C07.lean (`parser_is_client`)."""
GROUP = "C07"

def render(d, h):
    problems = []
    acc = d.get("syntax", {}).get("byte_access")
    if not isinstance(acc, dict) or not acc:
        return ["C07: extractor produced no syntax.byte_access facts"]
    lines = ["namespace ShVerif.Gen.C07", "",
             "/-- field of syntax.Parser ↦ methods of Parser that mention it (sorted) -/",
             "def byteAccess : List (String × List String) := ["]
    rows = []
    for field in sorted(acc):
        fns = sorted(acc[field] or [])
        rows.append("  (%s, %s)" % (h.lstr(field), h.llist(h.lstr(f) for f in fns)))
    lines.append(",\n".join(rows))
    lines.append("]")
    for want in ("bs", "bsp", "src", "readBuf", "readErr", "readEOF", "litBs", "offs"):
        if want not in acc:
            problems.append("C07: no access facts for Parser.%s (field renamed or removed?)" % want)
    cnt = d.get("syntax", {}).get("byte_access_counts") or {}
    lines.append("")
    lines.append("/-- how often Parser.next (the only function that is not wholly a modelled primitive) mentions p.bs / p.bsp -/")
    lines.append("def nextMentions : List (String × Nat) := " + h.llist(
        "(%s, %d)" % (h.lstr(f), int((cnt.get(f) or {}).get("next", 0))) for f in ("bs", "bsp")))
    if not cnt:
        problems.append("C07: extractor produced no syntax.byte_access_counts facts")
    lines.append("\nend ShVerif.Gen.C07")
    h.put("C07", "\n".join(lines) + "\n")
    return problems
