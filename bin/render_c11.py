"""C11: language guards of the parser/lexer -> lean/ShVerif/Gen/C11.lean"""
GROUP = "C11"

def render(d, h):
    c = d.get("c11")
    if not c:
        return ["C11: extractor produced no c11 facts"]
    problems = []
    L = h.lstr
    def lset(s): return h.llist(L(x) for x in s)
    lines = ["import ShVerif.Model.C11", "namespace ShVerif.Gen.C11", "open ShVerif.C11", ""]
    lines.append("def guards : List Guard := [")
    gl = []
    for g in c["guards"]:
        gl.append("  { kind := %s, file := %s, func := %s, set := %s, negated := %s, feature := %s }" % (
            L(g["kind"]), L(g["file"]), L(g["func"]), lset(g["set"] or []), "true" if g["negated"] else "false", L(g.get("feature", ""))))
    lines.append(",\n".join(gl) + "\n]\n")
    # effective guards of construction sites: own scope, else every caller's scope (≤ 3 levels)
    calls = {}
    for k in c["calls"]:
        calls.setdefault(k["callee"], []).append(k)
    def excl_posix(sets):
        return [s for s in sets if s and "?" not in s and "LangPOSIX" not in s]
    def func_guarded(fn, depth, seen):
        """list of guard sets (one per call path) that exclude POSIX, or None when some path is unguarded"""
        cs = calls.get(fn, [])
        if not cs or depth > 3 or fn in seen:
            return None
        out = []
        for k in cs:
            own = excl_posix(k["guards"] or [])
            if own:
                out.append(own[0])
            else:
                up = func_guarded(k["caller"], depth + 1, seen | {fn})
                if up is None:
                    return None
                out += up
        return out
    sl = []
    for s in c["sites"]:
        own = excl_posix(s["guards"] or [])
        via = "own"
        eff = [own[0]] if own else None
        if eff is None:
            eff = func_guarded(s["func"], 0, frozenset())
            via = "callers"
        if eff is None:
            eff = []
            via = "none"
        sl.append("  { type := %s, func := %s, flags := %s, via := %s, effective := %s }" % (
            L(s["type"]), L(s["func"]), lset(s["flags"] or []), L(via), h.llist(lset(e) for e in eff)))
    lines.append("def sites : List Site := [\n" + ",\n".join(sl) + "\n]\n")
    rl = ["  { func := %s, shape := %s, orElse := %s }" % (L(r["func"]), L(r["shape"]), L(r["else"])) for r in c["recover"]]
    lines.append("def recoverSites : List RecoverSite := [\n" + ",\n".join(rl) + "\n]\n")
    lines.append("def langSets : List (String × List String) := " + h.llist("(%s, %s)" % (L(k), lset(v)) for k, v in sorted(c["sets"].items())))
    lines.append("\nend ShVerif.Gen.C11")
    h.put("C11", "\n".join(lines) + "\n")
    return problems
