#!/usr/bin/env python3
"""Regenerates lean/ShVerif/Gen/C27Writes.lean (every syntactic write site of the shell state in
package interp: writeEnv.Set / setVar* / delVar / unsetElem / setFunc calls and writes to the Runner
fields Params, Dir, opts, alias, Funcs, dirStack, writeEnv, Vars, inFunc) from the repository's
working tree.  Called by ./check (group "C27") before `lake build`; written only when it changes."""
import os, subprocess, sys
V = os.path.dirname(os.path.dirname(os.path.abspath(__file__)))
REPO = os.environ.get("VERIF_REPO", "/repo")
env = dict(os.environ); env["GOFLAGS"] = "-mod=mod"; env["GOPROXY"] = "off"; env.pop("GOSUMDB", None)
if env.get("GOTOOLCHAIN") == "local": env.pop("GOTOOLCHAIN")
p = subprocess.run(["go", "run", ".", REPO], cwd=os.path.join(V, "bin", "c27writes"), env=env,
                   stdout=subprocess.PIPE, stderr=subprocess.PIPE, text=True)
if p.returncode != 0:
    sys.stderr.write(p.stderr); sys.exit(1)
out = os.path.join(V, "lean", "ShVerif", "Gen", "C27Writes.lean")
old = open(out).read() if os.path.exists(out) else None
if old != p.stdout:
    os.makedirs(os.path.dirname(out), exist_ok=True)
    open(out, "w").write(p.stdout)
    print("regenerated lean/ShVerif/Gen/C27Writes.lean (%d sites)" % p.stdout.count("⟨"))
else:
    print("lean/ShVerif/Gen/C27Writes.lean up to date")
