#!/bin/bash
# bin/sweep.sh [tier] [ids…] — runs the checks one after another on the unchanged tree; prints one line each
tier=${1:-quick}; shift
ids=${@:-$(ls /verif/props/C*.json | xargs -n1 basename | sed 's/.json//')}
cd /verif
for id in $ids; do
  out=$(./check $id $tier 2>&1); rc=$?
  echo "$id rc=$rc known=$(echo "$out" | grep -c '^KNOWN-FINDING') $(echo "$out" | grep -E '^(OK|VIOLATION)' | tail -1)"
  if [ $rc -ne 0 ]; then echo "$out" | grep -v '^KNOWN-FINDING' | head -12 | sed 's/^/    /' | cut -c1-400; fi
done
