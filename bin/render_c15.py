"""Renderer plug-in for bin/extract.py: lean/ShVerif/Gen/C15.lean (typed JSON, C15).

Everything below is re-read from /repo on every run:
  * struct schemas reachable from the node types (nodes.go), as `GoType` terms,
  * interface -> implementing struct types (method sets),
  * keys/values of typedjson.nodeByName, the Kind switch of encodeValue,
  * token constants (tokens.go, iota evaluated here and cross-checked against the stringer's own
    compile-time checks `_ = x[name-N]`), `_token_name`/`_token_index` (token_string.go),
    operator constants with their values, the `UnmarshalText` switch tables (tokens_parse.go),
    the String() bodies of the operator types, the Pos constants and accessor bodies (nodes.go).
"""
import re

GROUP = "C15"


def bytes_lit(s):
    return "[" + ", ".join(str(b) for b in s.encode("utf-8")) + "]"


def render(d, h):
    syn = d["syntax"]; tj = d["typedjson"]
    problems = []
    structs = syn["structs"]; ifaces = syn["interfaces"]; named = syn["named_types"]
    methods = syn["methods"]
    nts = h.node_types(syn)

    # ---- named non-struct types -> (bits, name) ----
    def underlying(t, seen=()):
        if t in ("uint8", "uint32", "uint16", "uint64", "uint", "int", "string", "bool"):
            return t
        if t in named and t not in seen and not named[t].startswith("= "):
            return underlying(named[t], seen + (t,))
        return None

    used_ops = []

    def gotype(t, stack=()):
        if t == "Pos": return ".pos"
        if t == "bool": return ".bool"
        if t == "string": return ".str"
        if t.startswith("[]"):
            return "(.slice %s)" % gotype(t[2:], stack)
        if t.startswith("*"):
            b = t[1:]
            if b in structs and b != "Pos":
                need.append(b)
                return "(.ptr %s)" % h.lstr(b)
            return "(.other %s)" % h.lstr(t)
        if t in ifaces:
            return "(.iface %s)" % h.lstr(t)
        if t in structs:
            if t in stack:
                return "(.other %s)" % h.lstr("recursive " + t)
            return "(.struct %s %s)" % (h.lstr(t), fields_lit(t, stack + (t,)))
        u = underlying(t)
        if u in ("uint8", "uint32"):
            bits = 8 if u == "uint8" else 32
            ms = methods.get(t, [])
            if t in named and ("String" in ms or "UnmarshalText" in ms):
                if t not in used_ops: used_ops.append(t)
                return "(.uint %d (some %s))" % (bits, h.lstr(t))
            return "(.uint %d none)" % bits
        return "(.other %s)" % h.lstr(t)

    def fields_lit(t, stack=()):
        return h.llist("(%s, %s)" % (h.lstr(f["name"]), gotype(f["type"], stack)) for f in structs[t])

    need = list(nts)
    done = {}
    while need:
        t = need.pop(0)
        if t in done: continue
        done[t] = fields_lit(t)
    order = sorted(done)

    L = ["import ShVerif.Model.C15", "namespace ShVerif.Gen.C15", "open ShVerif.C15", ""]
    L.append("/-- every struct of package syntax reachable from a node type through field types, sorted by name -/")
    L.append("def structs : List (String × List (String × GoType)) := [\n" +
             ",\n".join("  (%s, %s)" % (h.lstr(t), done[t]) for t in order) + "\n]\n")
    L.append("/-- structs with Pos() and End() methods (the syntax.Node implementations) -/")
    L.append("def nodeTypes : List String := " + h.llist(h.lstr(t) for t in nts) + "\n")

    # ---- interfaces: method sets and implementers ----
    def iface_methods(i, seen=()):
        out = set()
        for m in ifaces.get(i, []):
            if m.endswith("()"):
                out.add(m[:-2])
            elif m in ifaces and m not in seen:
                out |= iface_methods(m, seen + (i,))
            else:
                out.add("?" + m)   # constraint such as `comparable`: nothing implements it as a value type
        return out
    used_ifaces = sorted(set(re.findall(r'\.iface "([^"]+)"', "".join(done.values()))) | {"Node"})
    impl_rows = []
    for i in used_ifaces:
        ms = iface_methods(i)
        impl = [t for t in sorted(structs) if ms and ms <= set(methods.get(t, []))]
        impl_rows.append("  (%s, %s)" % (h.lstr(i), h.llist(h.lstr(t) for t in impl)))
    L.append("/-- interface type -> struct types T such that *T has every method of the interface -/")
    L.append("def impls : List (String × List String) := [\n" + ",\n".join(impl_rows) + "\n]\n")

    # ---- typedjson facts ----
    nbn = []
    for e in tj["node_by_name"]:
        m = re.fullmatch(r"reflect\.TypeFor\[syntax\.(\w+)\]\(\)", e["const"])
        if not m:
            problems.append("nodeByName[%r]: value shape not understood: %s" % (e["str"], e["const"]))
            nbn.append((e["str"], "?" + e["const"]))
        else:
            nbn.append((e["str"], m.group(1)))
    L.append("/-- typedjson.nodeByName: key -> the syntax struct type it maps to -/")
    L.append("def nodeByName : List (String × String) := " + h.llist("(%s, %s)" % (h.lstr(a), h.lstr(b)) for a, b in nbn) + "\n")
    enc = [k for k in tj["kind_switches"] if k["func"] == "encodeValue"]
    dec = [k for k in tj["kind_switches"] if k["func"] == "decodeValue"]
    if len(enc) != 1: problems.append("encodeValue: expected exactly one `switch val.Kind()`")
    if len(dec) != 1: problems.append("decodeValue: expected exactly one `switch val.Kind()`")
    L.append("/-- the cases of `switch val.Kind()` in encodeValue, and what its default does -/")
    L.append("def encodeKinds : List String := " + h.llist(h.lstr(c) for c in (enc[0]["cases"] if enc else [])))
    L.append("def encodeDefault : String := " + h.lstr(enc[0]["default"] if enc else "?"))
    L.append("/-- the cases of the number branch's `switch val.Kind()` in decodeValue -/")
    L.append("def decodeNumKinds : List String := " + h.llist(h.lstr(c) for c in (dec[0]["cases"] if dec else [])))
    ep = (tj.get("structs") or {}).get("exportedPos") or []
    L.append("def exportedPosFields : List (String × String) := " + h.llist("(%s, %s)" % (h.lstr(f["name"]), h.lstr(f["type"])) for f in ep) + "\n")

    # ---- tokens ----
    toks = syn["tokens"]
    base = {}
    for c in toks:
        if c["group"] == 1:
            base[c["name"]] = c["index"]
    g1 = [c for c in toks if c["group"] == 1]
    if not g1 or g1[0]["value"] != "iota" or g1[0]["type"] != "token" or any(c["value"] not in ("", "iota") for c in g1):
        problems.append("tokens.go: the first const group is not `X token = iota` followed by implicit repeats")
    st = syn["stringer_token"] or {"name": "", "index": [], "checks": []}
    L.append("/-- constants of the base `token` type with their iota values -/")
    L.append("def tokenConsts : List (String × Nat) := " + h.llist("(%s, %d)" % (h.lstr(c["name"]), c["index"]) for c in g1))
    L.append("/-- the stringer's own compile-time checks `_ = x[name-N]` -/")
    L.append("def stringerChecks : List (String × Nat) := " + h.llist("(%s, %s)" % (h.lstr(c["const"]), c["str"]) for c in st["checks"]))
    L.append("def tokenName : List Nat := " + bytes_lit(st["name"]))
    L.append("def tokenIndex : List Nat := " + h.llist(str(i) for i in st["index"]))
    L.append("def tokenStringSrc : String := " + h.lstr(syn.get("token_string", "")) + "\n")

    # operator constants: evaluate `T(base) + iota`, `T(base)`, alias, implicit repeat
    opconsts = {}   # type -> [(name, value, deprecated-alias?)]
    byname = {}
    groups = {}
    for c in toks:
        if c["group"] != 1:
            groups.setdefault(c["group"], []).append(c)
    for g, cs in sorted(groups.items()):
        last = None
        for c in cs:
            v = c["value"]
            if v == "":
                if last is None:
                    problems.append("tokens.go: %s repeats nothing" % c["name"]); continue
                T, b, plus = last
                if not plus:
                    problems.append("tokens.go: %s implicitly repeats a non-iota expression" % c["name"])
                val = base.get(b, -1) + (c["index"] if plus else 0)
            else:
                m = re.fullmatch(r"(\w+)\((\w+)\)( \+ iota)?", v)
                if m:
                    T, b, plus = m.group(1), m.group(2), bool(m.group(3))
                    if b not in base:
                        problems.append("tokens.go: %s converts unknown token %s" % (c["name"], b)); continue
                    val = base[b] + (c["index"] if plus else 0)
                    last = (T, b, plus)
                elif re.fullmatch(r"\w+", v) and v in byname:
                    T, val = byname[v]
                    last = None
                else:
                    problems.append("tokens.go: constant %s = %s not understood" % (c["name"], v)); continue
            byname[c["name"]] = (T, val)
            opconsts.setdefault(T, []).append((c["name"], val))
    optypes = sorted(t for t, u in named.items() if u == "token")
    L.append("/-- operator types (`type T token`) with all their constants (name, value) -/")
    L.append("def opConsts : List (String × List (String × Nat)) := [\n" + ",\n".join(
        "  (%s, %s)" % (h.lstr(t), h.llist("(%s, %d)" % (h.lstr(n), v) for n, v in opconsts.get(t, []))) for t in optypes) + "\n]\n")
    um = {u["type"]: u for u in syn["unmarshal_text"]}
    L.append("/-- tokens_parse.go: for each type, `case \"s\": *o = Const` as (bytes of s, Const) -/")
    L.append("def unmarshalTables : List (String × List (List Nat × String)) := [\n" + ",\n".join(
        "  (%s, %s)" % (h.lstr(t), h.llist("(%s, %s)" % (bytes_lit(c["str"]), h.lstr(c["const"])) for c in um[t]["cases"])) for t in sorted(um)) + "\n]\n")
    L.append("/-- shape of each UnmarshalText: (type, switch tag, default, tail) -/")
    L.append("def unmarshalShapes : List (String × String × String × String) := " + h.llist(
        "(%s, %s, %s, %s)" % (h.lstr(t), h.lstr(um[t]["on"]), h.lstr(um[t]["default"]), h.lstr(um[t]["tail"])) for t in sorted(um)) + "\n")
    mb = syn["method_bodies"]
    L.append("/-- String()/UnmarshalText presence and String() body of every named uint type used in a field:\n    (type, underlying, hasString, hasUnmarshalText, String body) -/")
    rows = []
    fieldnamed = sorted(set(used_ops) | set(t for t in named if underlying(t) in ("uint8", "uint32") and any(
        f["type"].lstrip("[]*") == t for s in order for f in structs[s])))
    for t in fieldnamed:
        ms = methods.get(t, [])
        rows.append("(%s, %s, %s, %s, %s)" % (h.lstr(t), h.lstr(named.get(t, "")), "true" if "String" in ms else "false",
                                              "true" if "UnmarshalText" in ms else "false", h.lstr((mb.get(t) or {}).get("String", ""))))
    L.append("def uintFieldTypes : List (String × String × Bool × Bool × String) := " + h.llist(rows) + "\n")
    L.append("/-- every type with an UnmarshalText method -/")
    L.append("def unmarshalerTypes : List String := " + h.llist(h.lstr(t) for t in sorted(t for t, ms in methods.items() if "UnmarshalText" in ms)) + "\n")

    # ---- Pos ----
    nc = {c["name"]: c["value"] for c in syn["node_consts"]}
    L.append("/-- the position constants of nodes.go (source text) and the accessor bodies -/")
    L.append("def posConsts : List (String × String) := " + h.llist("(%s, %s)" % (h.lstr(k), h.lstr(nc.get(k, "?"))) for k in
             ["offsetRecovered", "offsetMax", "lineBitSize", "lineMax", "colBitSize", "colMax", "colBitMask"]))
    pf = syn["pos_funcs"]
    L.append("def posFuncs : List (String × String) := " + h.llist("(%s, %s)" % (h.lstr(k), h.lstr(pf.get(k, "?"))) for k in
             ["NewPos", "Offset", "Line", "Col", "IsValid"]))
    L.append("def posStruct : List (String × String) := " + h.llist("(%s, %s)" % (h.lstr(f["name"]), h.lstr(f["type"])) for f in structs.get("Pos", [])))
    L.append("\nend ShVerif.Gen.C15")
    h.put("C15", "\n".join(L) + "\n")
    return problems
