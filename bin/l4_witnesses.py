#!/usr/bin/env python3
# Builds corpus/C0x-known.txt candidate lines from a table; prints them.
import sys, binascii
def hx(s): return binascii.hexlify(s.encode()).decode() if s else "-"
def W(mode, lang, opts, src, s=0, c=0): return "%s l=%s o=%s s=%d c=%d src=%s" % (mode, lang, opts, s, c, hx(src))
T = [
 ("C01-single-missing-semicolon", W("file","bash","i0,sl","case x in a) b ;; esac\nc\n")),
 ("C01-stale-wrotesemi-keyword", W("file","bash","i0","for i in $(a &); do b; done\n")),
 ("C01-single-heredoc-buried", W("file","bash","i0,sl","cat <<EOF\nbody\nEOF\n[[ a ]]\n")),
 ("C01-single-heredoc-nested", W("file","bash","i0,sl","a <<EOF\nEOF\n(while b; do c; done)\n")),
 ("C01-heredoc-pipe-test-let", W("file","bash","i0,bn","cat <<EOF |\nbody\nEOF\n[[ a ]]\n")),
 ("C01-binnext-heredoc-nested", W("file","bash","i0,bn","cat <<EOF |\nbody\nEOF\n(t\n)\n")),
 ("C01-single-heredoc-in-heredoc", W("file","bash","i0,sl","cat <<A\n$(cat <<B\nr\nB\n)\nA\n")),
 ("C01-quoted-heredoc-backslash-newline", W("file","bash","i0","cat <<'EOF' \\\n\nx\nEOF\n")),
 ("C01-heredoc-then-multiline-subst", W("file","bash","i0","cat <<EOF | b $(\n)\nbody\nEOF\n")),
 ("C01-dashhdoc-inner-tab", W("file","bash","i0","cat <<-EOF\n\ta\tb\n\tEOF\n")),
 ("C01-dashhdoc-escaped-newline", W("file","bash","i0","if e; then\n\tcat <<-EOF\n\ta \\\n\tb\n\tEOF\nfi\n")),
 ("C01-minify-last-case-op", W("file","bash","i0,mn","case x in a) b ;& esac\n")),
 ("C01-mksh-case-braces", W("file","mksh","i0","case x { a) b ;; }\n")),
 ("C01-procsubst-word-split", W("file","bash","i0","echo $(a)<(b)\n")),
 ("C01-dollar-backquote", W("file","bash","i0","echo $`a`\n")),
 ("C01-funcdecl-leading-redirect", W("file","zsh","i0",">f g() { a }\n")),
 ("C01-coproc-name-assign", W("file","bash","i0","coproc a b=c\n")),
 ("C01-comment-backslash-newline", W("file","bash","i0","a #\\\nb\nc\n", c=1)),
 ("C01-tabwriter-vt-ff", W("file","bash","i0","echo a\vb\n")),
 ("C01-arith-sign-glue", W("file","bash","i0","echo $((- -a))\n")),
 ("C01-arith-sign-glue-minify", W("file","bash","i0,mn","echo $((a - -b))\n")),
 ("C01-escaped-cr-before-newline", W("file","bash","i0","echo \\\r \nfoo\n")),
 ("C01-zsh-minify-short-subscript", W("file","zsh","i0,mn","echo ${x}[b]\n")),
 ("C01-zsh-redirect-paren-word", W("file","zsh","i0","a > (0)\n")),
 ("C01-zsh-redirect-bang-word", W("file","zsh","i0","> !1\n")),
 ("C01-zsh-dollar-hash-backquote-escape", W("file","zsh","i0","`\"$#\\$\"`")),
 ("C01-zsh-paren-arg-after-redirect", W("file","zsh","i0","$ <<E (f)\nE\n")),
 ("C01-zsh-special-param-subscript", W("word#2","zsh","i0","rad 1 $?[ab]\n")),
 ("C01-dashhdoc-vt-ff", W("file","bash","i0","cat <<-EOF\n\ta\fb\n\tEOF\n")),
 ("C01-paramexp-word-escaped-newline", W("file","bash","i0","{\n\techo ${a:-\\\nb}\n}\n")),
 ("C01-slice-offset-incdec", W("file","bash","i0","echo ${a: ++x}\n")),
 ("C01-let-escaped-newline", W("file","bash","i0","let a=1+\\\n2\n")),
 ("C01-zsh-simplify-slice-modifier", W("file","zsh","i0","echo ${x:$a}\n", s=1)),
 ("C01-zsh-subshell-anon-func", W("file","zsh","i0","( () { a; } )\n")),
 ("C01-dashhdoc-nested-string-indent", W("file","bash","i0","cat <<-E\n\t$(echo 'a\nb')\n\tE\n")),
 ("C01-hdoc-delim-tab", W("file","bash","i0","cat <<E\\\tF\nx\nE\tF\n")),
 ("C01-function-word-body", W("file","bash","i0","function f\nb\n")),
 ("C01-zsh-modifier-tab", W("file","zsh","i0","${:x\t}\n")),
 ("C01-minify-empty-block", W("file","mksh","i0,mn","{ }\n")),
 ("C01-command-first-newline", W("cmd#0","bash","i0","case x in\nesac\n")),
 ("C01-zsh-dollar-hash-eof", W("word#1","zsh","i0","echo $#\n")),
 ("C02-subshell-trailing-blank", W("file","bash","i0","( (( x++ ))\n)\n", c=1)),
 ("C02-closing-paren-space", W("file","posix","i0","((a;b))\n", c=1)),
 ("C02-minify-closing-paren-space", W("file","posix","i0,mn","((a &&\nb))\n", c=1)),
 ("C02-dashhdoc-reindent", W("file","bash","i0","if f; then\n\tcat <<-EOF\n\ta\nb\n\tEOF\nfi\n", c=1)),
 ("C02-minify-stale-wantnewline", W("file","bash","i0,mn","for i in $(c\n); do d; done\n", c=1)),
 ("C02-single-heredoc-comment", W("file","bash","i0,sl","cat <<EOF\nx\nEOF\nfor i; do\n#c\nt\ndone\n", c=1)),
 ("C02-binnext-heredoc-comment", W("file","posix","i0,bn","((f))|\n\"\"$(\n)\"\"<<'EOF1'#\nEOF1\n", c=1)),
 ("C02-binnext-heredoc-indent", W("file","bash","i0,bn","<<E|\nE\nselect b do while t;do\nt\ndone\ndone", c=1)),
 ("C02-test-close-line", W("file","bash","i0","case a in b) [[ y\n]] ;; esac\n", c=1)),
 ("C02-heredoc-comment-into-body", W("file","bash","i0","<<EOF x #c\n$(a)\nEOF\n", c=1)),
 ("C02-backquote-comment-close", W("file","bash","i0","`a #c`\n", c=1)),
 ("C02-backquote-heredoc-close", W("file","bash","i0","`cat <<EOF\nx\nEOF`\n", c=1)),
 ("C02-select-header-comment", W("file","bash","i0","select i in 1 2 # c\ndo foo; done\n", c=1)),
 ("C02-semi-far-continuation", W("file","bash","i0","{ a \\\n\\\n; }\n", c=1)),
 ("C02-single-loop-header-comment", W("file","bash","i0,sl","{\nfor i # c\ndo a; done\n}\n", c=1)),
]
FIXED = ['C01-command-first-newline', 'C01-comment-backslash-newline', 'C01-dashhdoc-inner-tab', 'C01-dashhdoc-vt-ff', 'C01-heredoc-pipe-test-let', 'C01-minify-empty-block', 'C01-minify-last-case-op', 'C01-single-heredoc-buried', 'C01-single-missing-semicolon', 'C01-slice-offset-incdec', 'C01-stale-wrotesemi-keyword', 'C01-tabwriter-vt-ff', 'C01-zsh-minify-short-subscript', 'C01-zsh-modifier-tab', 'C01-zsh-special-param-subscript', 'C01-zsh-subshell-anon-func', 'C02-dashhdoc-reindent']
# usage: l4_witnesses.py C01 known|fixed
pid = sys.argv[1]
which = sys.argv[2] if len(sys.argv) > 2 else "known"
for i, w in T:
    if i.startswith(pid) and ((i in FIXED) == (which == "fixed")):
        print("# " + i); print(w)
