#!/bin/bash
# bin/apply_fix.sh <diff> <commit message>   — applies the non-test hunks of a suggested fix to /repo and commits it
set -u
f=$1; shift
cd /repo
export GOFLAGS=-mod=mod GOPROXY=off
python3 - "$f" > /tmp/fix.diff <<'PY'
import re,sys
d=[l for l in open(sys.argv[1]).read().split('\n') if not l.startswith('#')]
secs=[]; cur=None
for l in d:
    if l.startswith('--- '):
        cur=[l]; secs.append(cur)
    elif cur is not None:
        cur.append(l)
out=[]
for s in secs:
    path=s[0].split()[1]
    if path.endswith('_test.go') or '.txtar' in path: continue
    out+=s
print('\n'.join(out))
PY
if patch -p1 -s --no-backup-if-mismatch -F3 < /tmp/fix.diff 2>/tmp/ap.err >/tmp/ap.out; then
  find . -name '*.orig' -o -name '*.rej' | xargs -r rm -f
  if go build ./... && go build -tags verif ./...; then
    if [ -n "$(git status --short | grep -v '^??')" ]; then git add -u && git commit -qm "$*" && echo "applied $(basename $f) -> $(git log -1 --format=%h)"; else echo "NO CHANGE $(basename $f)"; fi
  else echo "BUILD FAILED $(basename $f)"; git checkout -- .; fi
else echo "FAILED $(basename $f): $(head -5 /tmp/ap.out /tmp/ap.err)"; git checkout -- .; find . -name '*.orig' -o -name '*.rej' | xargs -r rm -f; fi
