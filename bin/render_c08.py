"""plug-in of bin/extract.py: renders lean/ShVerif/Gen/C08.lean from facts["c08"] (extract/c08.go):
fields of syntax.Parser / syntax.Printer, the assignments of their reset(), every other write of a
field, the exported methods (entry points), and the call structure of Parse / StmtsSeq / stmtList."""
GROUP = "C08"


def render(d, h):
    c = d.get("c08")
    if not c:
        return ["C08: extractor produced no c08 facts"]
    problems = []
    L = h.lstr

    def sl(xs):
        return h.llist(L(x) for x in (xs or []))

    def write(w):
        return "{ func := %s, field := %s, kind := %s }" % (L(w["func"]), L(w["field"]), L(w["kind"]))

    def entry(e):
        return ("{ name := %s, resetFirst := %s, assigned := %s, calls := %s, exportedCalls := %s, fieldCalls := %s, writes := %s, reads := %s }"
                % (L(e["name"]), "true" if e["reset_first"] else "false", sl(e.get("assigned")), sl(e.get("calls")),
                   sl(e.get("exported_calls")), sl(e.get("field_calls")), sl(e.get("writes")), sl(e.get("reads"))))

    def table(name, s):
        out = ["def %s : StructTable := {" % name]
        out.append("  type := %s," % L(s["type"]))
        out.append("  fields := [\n    " + ",\n    ".join("(%s, %s)" % (L(f["name"]), L(f["type"])) for f in (s.get("fields") or [])) + "],")
        out.append("  resetFound := %s," % ("true" if s.get("reset_found") else "false"))
        out.append("  reset := [\n    " + ",\n    ".join("{ field := %s, rhs := %s }" % (L(a["field"]), L(a["rhs"])) for a in (s.get("reset") or [])) + "],")
        out.append("  resetOther := %s," % sl(s.get("reset_other")))
        out.append("  optionFuncs := %s," % sl(s.get("option_funcs")))
        out.append("  optionWrites := [\n    " + ",\n    ".join(write(w) for w in (s.get("option_writes") or [])) + "],")
        out.append("  ctorWrites := [\n    " + ",\n    ".join(write(w) for w in (s.get("ctor_writes") or [])) + "],")
        out.append("  otherWrites := [\n    " + ",\n    ".join(write(w) for w in (s.get("other_writes") or [])) + "],")
        out.append("  entries := [\n    " + ",\n    ".join(entry(e) for e in (s.get("entries") or [])) + "],")
        out.append("  ptrUses := [\n    " + ",\n    ".join("{ field := %s, func := %s, events := %s }" % (L(u["field"]), L(u["func"]), sl(u.get("events"))) for u in (s.get("ptr_uses") or [])) + "] }\n")
        return out

    lines = ["import ShVerif.Model.C08", "namespace ShVerif.Gen.C08", "open ShVerif.C08", ""]
    for key, name in (("parser", "parser"), ("printer", "printer")):
        s = c.get(key)
        if not s or not s.get("fields"):
            problems.append("C08: no facts for " + key)
            continue
        lines += table(name, s)
    flows = []
    for f in c.get("flows") or []:
        calls = ",\n      ".join("{ name := %s, guard := %s, args := %s, inClosure := %s }" % (
            L(k["name"]), L(k["guard"]), sl(k.get("args")), "true" if k["in_closure"] else "false") for k in (f.get("calls") or []))
        cls = h.llist("(%s, %s)" % (L(k["name"]), sl(k.get("returns"))) for k in (f.get("closures") or []))
        flows.append("  { func := %s, found := %s,\n    calls := [\n      %s],\n    closures := %s }" % (
            L(f["func"]), "true" if f.get("found") else "false", calls, cls))
    lines.append("/-- receiver-method calls of the statement entry points, in source order -/")
    lines.append("def flows : List Flow := [\n" + ",\n".join(flows) + "\n]\n")
    lines.append("end ShVerif.Gen.C08")
    h.put("C08", "\n".join(lines) + "\n")
    return problems
