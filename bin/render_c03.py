"""C03: reads of cosmetic syntax-node fields in interp/expand -> lean/ShVerif/Gen/C03.lean"""
GROUP = "C03"

def render(d, h):
    c = d.get("c03")
    if not c:
        return ["C03: extractor produced no c03 facts"]
    L = h.lstr
    lines = ["namespace ShVerif.Gen.C03", ""]
    lines.append("/-- (package, function, field, kind, base expression) of every selector in interp/expand whose name is a cosmetic syntax-node field -/")
    lines.append("def uses : List (String × String × String × String × String) := " + h.llist(
        "(%s, %s, %s, %s, %s)" % (L(u["pkg"]), L(u["func"]), L(u["field"]), L(u["kind"]), L(u["ctx"])) for u in c["uses"]))
    lines.append("/-- the field names that were searched for, with their kind -/")
    lines.append("def searched : List String := " + h.llist(L(x) for x in c["fields"]))
    lines.append("\nend ShVerif.Gen.C03")
    h.put("C03", "\n".join(lines) + "\n")
    return []
