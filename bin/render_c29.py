"""plug-in of bin/extract.py: renders lean/ShVerif/Gen/C29.lean from facts["c29"] (extract/c29.go):
the syntactic write sites next to syntax nodes in packages interp and expand, the construction
sites of overlay environments, the assignments to Runner.writeEnv, the uses of Runner.Env and the
places where a Set can be forwarded."""
GROUP = "C29"


def render(d, h):
    c = d.get("c29")
    if not c:
        return ["C29: extractor produced no c29 facts"]
    L = h.lstr
    problems = []
    sites = sorted(c["write_sites"], key=lambda s: (s["pkg"], s["func"], s["target"], s["kind"], s["base"]))
    lines = ["import ShVerif.Model.C29", "namespace ShVerif.Gen.C29", "open ShVerif.C29", ""]
    lines.append("/-- every syntactic write next to a syntax node in packages interp and expand (sorted; no line numbers) -/")
    lines.append("def writeSites : List WriteSite := [\n  " + ",\n  ".join(
        "{ pkg := %s, func := %s, kind := %s, target := %s, base := %s }" % (L(s["pkg"]), L(s["func"]), L(s["kind"]), L(s["target"]), L(s["base"]))
        for s in sites) + "]\n")
    lines.append("/-- every overlayEnviron literal / newOverlayEnviron call / later write of parent or funcScope in package interp -/")
    lines.append("def overlaySites : List OverlaySite := [\n  " + ",\n  ".join(
        "{ func := %s, form := %s, parent := %s, funcScope := %s }" % (L(o["func"]), L(o["form"]), L(o["parent"]), L(o["func_scope"]))
        for o in c["overlay_sites"]) + "]\n")
    lines.append("/-- every assignment to a .writeEnv selector -/")
    lines.append("def writeEnvAssigns : List WriteEnvAssign := [\n  " + ",\n  ".join(
        "{ func := %s, rhs := %s }" % (L(a["func"]), L(a["rhs"])) for a in c["writeenv"]) + "]\n")
    lines.append("/-- every use of a .Env selector or Env: literal key in package interp: (function, expression, context) -/")
    lines.append("def envUses : List (String × String × String) := " + h.llist(
        "(%s, %s, %s)" % (L(u["func"]), L(u["expr"]), L(u["ctx"])) for u in c["env_uses"]) + "\n")
    lines.append("/-- every type assertion to expand.WriteEnviron in package interp: (function, expression) -/")
    lines.append("def forwards : List (String × String) := " + h.llist(
        "(%s, %s)" % (L(u["func"]), L(u["expr"])) for u in c["forwards"]) + "\n")
    lines.append("def nodeFieldCount : Nat := %d\n" % c["node_fields"])
    lines.append("end ShVerif.Gen.C29")
    h.put("C29", "\n".join(lines) + "\n")
    return problems
