"""plug-in of bin/extract.py: renders lean/ShVerif/Gen/C30.lean from facts["c30"] (extract/c30.go):
the fields of interp.Runner, what Runner.Reset does to each of them, and every write site of a
Runner field in package interp."""
GROUP = "C30"


def render(d, h):
    problems = []
    c = d.get("c30")
    if not c:
        return ["C30: extractor produced no c30 facts"]
    r = c["reset"]
    L = h.lstr

    def val(v):
        return "{ kind := %s, field := %s, deps := %s }" % (L(v.get("kind") or ""), L(v.get("field") or ""), h.llist(L(x) for x in (v.get("deps") or [])))

    def write(w):
        return "{ field := %s, op := %s, val := %s, guards := %s }" % (L(w["field"]), L(w["op"]), val(w["val"]), h.llist(L(g) for g in (w.get("guards") or [])))

    def call(x):
        return "{ name := %s, guards := %s }" % (L(x["name"]), h.llist(L(g) for g in (x.get("guards") or [])))

    def site(s):
        return "{ field := %s, func := %s, kind := %s, base := %s, notDidReset := %s, inClosure := %s }" % (
            L(s["field"]), L(s["func"]), L(s["kind"]), L(s["base"]), "true" if s["not_did_reset"] else "false", "true" if s["in_closure"] else "false")

    fields = [f["name"] for f in c["fields"]]
    if not r.get("found"):
        problems.append("C30: Runner.Reset not found")
    lines = ["import ShVerif.Model.C30", "namespace ShVerif.Gen.C30", "open ShVerif.C30", ""]
    lines.append("/-- fields of interp.Runner in declaration order, with their Go types -/")
    lines.append("def runnerFieldTypes : List (String × String) := " + h.llist("(%s, %s)" % (L(f["name"]), L(f["type"])) for f in c["fields"]))
    lines.append("def runnerFields : List String := runnerFieldTypes.map (·.1)\n")
    lines.append("/-- Runner.Reset: the `*r = Runner{…}` literal, the writes before and after it -/")
    lines.append("def reset : ResetTable := {")
    lines.append("  fields := runnerFields,")
    lines.append("  whole := %s," % ("true" if r.get("whole") else "false"))
    lines.append("  nLiterals := %d," % r.get("n_literals", 0))
    lines.append("  literal := [\n    " + ",\n    ".join("(%s, %s)" % (L(k), val(r["literal"][k])) for k in r.get("lit_order", [])) + "],")
    lines.append("  pre := [\n    " + ",\n    ".join(write(w) for w in r.get("pre") or []) + "],")
    lines.append("  post := [\n    " + ",\n    ".join(write(w) for w in r.get("post") or []) + "],")
    lines.append("  preCalls := " + h.llist(call(x) for x in r.get("pre_calls") or []) + ",")
    lines.append("  postCalls := " + h.llist(call(x) for x in r.get("post_calls") or []) + " }\n")
    lines.append("/-- conditions under which Reset panics -/")
    lines.append("def resetPanicGuards : List String := " + h.llist(L(x) for x in r.get("panic_guards") or []) + "\n")
    lines.append("/-- every write of a Runner field in package interp (non-test, non-hook files) -/")
    lines.append("def sites : List Site := [\n  " + ",\n  ".join(site(s) for s in c.get("sites") or []) + "]\n")
    run = c.get("run") or {}
    if not run.get("found"):
        problems.append("C30: Runner.Run not found")
    lines.append("/-- Runner.Run: every receiver-field write (with enclosing conditions) and every method called\n    on the receiver, on each call -/")
    lines.append("def runWrites : List Write := [\n  " + ",\n  ".join(write(w) for w in run.get("writes") or []) + "]\n")
    lines.append("def runCalls : List Call := " + h.llist(call(x) for x in run.get("calls") or []) + "\n")
    lines.append("end ShVerif.Gen.C30")
    h.put("C30", "\n".join(lines) + "\n")
    return problems
