"""plug-in of bin/extract.py: renders lean/ShVerif/Gen/C31.lean from facts["c31"] (extract/c31.go):
every potentially blocking operation of package interp with its enclosing function, and the places
where the package consults the context."""
GROUP = "C31"


def render(d, h):
    c = d.get("c31")
    if not c:
        return ["C31: extractor produced no c31 facts"]
    L = h.lstr
    lines = ["import ShVerif.Model.C31", "namespace ShVerif.Gen.C31", "open ShVerif.C31", ""]
    lines.append("/-- blocking operations of package interp (files that build on linux), deduplicated by\n    (function, kind, operand); `+closure` = inside a func literal, `+go` = inside a `go func(){…}()` -/")
    lines.append("def blocks : List Block := [\n  " + ",\n  ".join(
        "{ file := %s, func := %s, kind := %s, operand := %s }" % (L(b["file"]), L(b["func"]), L(b["kind"]), L(b["operand"]))
        for b in c["blocks"]) + "]\n")
    lines.append("/-- how many syntactic occurrences each entry of `blocks` stands for -/")
    lines.append("def blockCounts : List Nat := " + h.llist(str(b["count"]) for b in c["blocks"]) + "\n")
    cnt = {}
    order = []
    for x in c.get("ctx") or []:
        k = (x["func"], x["kind"])
        if k not in cnt:
            order.append(k)
        cnt[k] = cnt.get(k, 0) + 1
    lines.append("/-- where the package consults the context: (function, kind, occurrences) with kind one of\n    stop-call | ctx.Err | ctx.Done | AfterFunc | CommandContext | SetReadDeadline -/")
    lines.append("def ctxUses : List (String × String × Nat) := " + h.llist("(%s, %s, %d)" % (L(f), L(k), cnt[(f, k)]) for f, k in order) + "\n")
    cap = d.get("c31capture") or {}
    lines.append("/-- calls of fillExpandConfig: (caller, inside an if/loop/closure?, argument: param = a context\n    parameter of the caller | field:<runner field> | other:…) -/")
    lines.append("def fillCalls : List (String × Bool × String) := " + h.llist(
        "(%s, %s, %s)" % (L(x["func"]), "true" if x["conditional"] else "false", L(x["arg"])) for x in cap.get("fill_calls") or []) + "\n")
    lines.append("/-- long-lived callbacks built by a constructor with a context parameter: (constructor, callback,\n    where its body takes the context from: param | field:ectx | both) -/")
    lines.append("def callbackCtx : List (String × String × String) := " + h.llist(
        "(%s, %s, %s)" % (L(x["func"]), L(x["name"]), L(x["source"])) for x in (cap.get("callbacks") or []) if x["source"] != "none") + "\n")
    lines.append("def skippedFiles : List String := " + h.llist(L(x) for x in c.get("skipped_files") or []) + "\n")
    lines.append("end ShVerif.Gen.C31")
    h.put("C31", "\n".join(lines) + "\n")
    return []
