#!/usr/bin/env python3
"""Runs the repository's baseline suite (guard off) and compares with /root/.vp/BASELINE.json stable_pass."""
import json, subprocess, os, sys
env = dict(os.environ); env["GOFLAGS"] = "-mod=mod"; env["GOPROXY"] = "off"
passed = set(); failed = set()
for m in [".", "./moreinterp"]:
    p = subprocess.run(["go", "test", "-json", "-vet=off", "-count=1", "-timeout", "25m", "./..."], cwd=os.path.join("/repo", m), env=env, capture_output=True, text=True)
    for line in p.stdout.split("\n"):
        if not line.startswith("{"): continue
        try: e = json.loads(line)
        except Exception: continue
        if e.get("Test") and e.get("Action") in ("pass", "fail"):
            k = e["Package"] + "::" + e["Test"]
            (passed if e["Action"] == "pass" else failed).add(k)
base = set(json.load(open("/root/.vp/BASELINE.json"))["stable_pass"])
missing = sorted(base - passed)
print("passed %d, failed %d, baseline %d, baseline tests not passing now: %d" % (len(passed), len(failed), len(base), len(missing)))
for k in missing[:30]: print("  MISSING", k)
sys.exit(1 if missing else 0)
