#!/usr/bin/env python3
"""Runs the repository's baseline suite (guard off) and compares with /root/.vp/BASELINE.json
stable_pass.  Timing-sensitive tests flake when the machine is loaded, so packages with missing
tests are re-run (up to 3 more times, low parallelism) and the union of passes is compared."""
import json, subprocess, os, sys
env = dict(os.environ); env["GOFLAGS"] = "-mod=mod"; env["GOPROXY"] = "off"
base = set(json.load(open("/root/.vp/BASELINE.json"))["stable_pass"])
passed = set(); failed = set()
def run(mod, pkgs, extra=()):
    p = subprocess.run(["go", "test", "-json", "-vet=off", "-count=1", "-timeout", "25m", *extra, *pkgs], cwd=os.path.join(os.environ.get("VERIF_REPO", "/repo"), mod), env=env, capture_output=True, text=True)
    for line in p.stdout.split("\n"):
        if not line.startswith("{"): continue
        try: e = json.loads(line)
        except Exception: continue
        if e.get("Test") and e.get("Action") in ("pass", "fail"):
            k = e["Package"] + "::" + e["Test"]
            (passed if e["Action"] == "pass" else failed).add(k)
for m in [".", "./moreinterp"]:
    run(m, ["./..."])
for attempt in range(3):
    missing = sorted(base - passed)
    if not missing: break
    pkgs = sorted(set(k.split("::")[0] for k in missing))
    print("attempt %d: %d missing in %s; re-running those packages" % (attempt + 1, len(missing), pkgs))
    for pk in pkgs:
        mod = "./moreinterp" if "/moreinterp" in pk else "."
        rel = "./" + pk.split("mvdan.cc/sh/moreinterp/")[-1] if mod != "." else "./" + pk.split("mvdan.cc/sh/v3/")[-1] if "/v3/" in pk else "."
        run(mod, [rel], ["-p", "1", "-parallel", "2"])
# a parent test fails when any of its subtests flaked in that run: count it as passing when every
# one of its baseline subtests passed in some run
for k in sorted(base - passed, key=len, reverse=True):
    subs = [b for b in base if b.startswith(k + "/")]
    if subs and all(b in passed for b in subs):
        passed.add(k)
missing = sorted(base - passed)
print("passed %d (union), failed-at-least-once %d, baseline %d, baseline tests never passing: %d" % (len(passed), len(failed), len(base), len(missing)))
for k in missing[:30]: print("  MISSING", k)
sys.exit(1 if missing else 0)
