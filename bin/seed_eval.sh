#!/bin/bash
# bin/seed_eval.sh <seed-id e.g. C27-1> <demo package dir e.g. interp> <check ids…>
# Confirms a seeded change delivered in /tmp/seed/<id>/ (worktree with the change applied,
# out/patch.diff, out/demo_test.go or out/main.go): builds, demo fails with / passes without the
# change, existing tests of the touched packages pass (modulo baseline failures), then runs the named
# checks against the worktree (VERIF_REPO) and records everything in /verif/seeded/<id>/.
set -u
id=$1; pkg=$2; shift 2
W=/tmp/seed/$id; S=/verif/seeded/$id
export GOFLAGS=-mod=mod GOPROXY=off
mkdir -p $S
cp $W/out/patch.diff $S/patch.diff
for f in demo_test.go main.go demo.log meta.json; do [ -f $W/out/$f ] && cp $W/out/$f $S/$f; done
cd $W
git diff -- . ':!out' > /tmp/seed/$id.cur.diff
log=$S/eval.log; : > $log
say() { echo "$@" | tee -a $log; }
say "== $id: worktree diff vs delivered patch: $(diff <(grep '^[+-]' /tmp/seed/$id.cur.diff | grep -v '^[+-][+-]') <(grep '^[+-]' $S/patch.diff | grep -v '^[+-][+-]') >/dev/null && echo identical || echo DIFFERENT)"
go build ./... >> $log 2>&1 && say "build: ok" || say "build: FAILED"
demo() {
  if [ -f $W/out/demo_test.go ]; then cp $W/out/demo_test.go $W/$pkg/zz_demo_test.go; (cd $W && go test -count=1 -vet=off -run 'Demo' ./$pkg/ 2>&1 | tail -15); rc=${PIPESTATUS[0]}; rm -f $W/$pkg/zz_demo_test.go
  else mkdir -p /tmp/seed/$id.demo && cp $W/out/main.go /tmp/seed/$id.demo/ && (cd /tmp/seed/$id.demo && printf 'module demo\ngo 1.26.0\nrequire mvdan.cc/sh/v3 v3.0.0\nreplace mvdan.cc/sh/v3 => %s\n' $W > go.mod && cp $W/go.sum . && go run . 2>&1 | tail -15); rc=$?; fi
  return 0
}
say "-- demo WITH the change:"; out=$(demo); echo "$out" >> $log; echo "$out" | grep -qE "^(FAIL|--- FAIL|panic|exit status)" && say "   demo fails with change: yes" || say "   demo fails with change: NO"
git apply -R $S/patch.diff
say "-- demo WITHOUT the change:"; out=$(demo); echo "$out" >> $log; echo "$out" | grep -qE "^(FAIL|--- FAIL|panic|exit status)" && say "   demo passes without change: NO" || say "   demo passes without change: yes"
git apply $S/patch.diff
say "-- existing tests of touched packages (with the change):"
pk=$(grep '^+++ b/' $S/patch.diff | sed 's#+++ b/##; s#/[^/]*$##' | sort -u | sed 's#^#./#' | tr '\n' ' ')
VERIF_REPO=$W python3 - "$pk" >> $log 2>&1 <<'PY'
import subprocess, sys, os, json
env=dict(os.environ)
pk=sys.argv[1].split()
base=set(json.load(open("/root/.vp/BASELINE.json"))["stable_pass"])
passed=set(); seen=set()
for attempt in range(3):
    p=subprocess.run(["go","test","-json","-vet=off","-count=1","-timeout","20m","-p","1","-parallel","2",*pk],cwd=os.environ["VERIF_REPO"],env=env,capture_output=True,text=True)
    for line in p.stdout.split("\n"):
        if line.startswith("{"):
            try: e=json.loads(line)
            except Exception: continue
            if e.get("Test") and e.get("Action") in ("pass","fail"):
                k=e["Package"]+"::"+e["Test"]; seen.add(e["Package"])
                if e["Action"]=="pass": passed.add(k)
    rel=[b for b in base if b.split("::")[0] in seen]
    for k in sorted(set(rel)-passed,key=len,reverse=True):
        subs=[b for b in rel if b.startswith(k+"/")]
        if subs and all(b in passed for b in subs): passed.add(k)
    missing=sorted(set(rel)-passed)
    if not missing: break
print("touched-package baseline tests: %d, never passing in 3 runs: %d %s"%(len(rel),len(missing),missing[:8]))
PY
tail -1 $log
# evaluate against /repo's CURRENT head + the patch (models follow /repo's head, not the commit the
# seeding agent started from)
E=/tmp/seed/$id.eval
git -C /repo worktree remove --force $E 2>/dev/null
git -C /repo worktree add -q --detach $E HEAD
if (cd $E && git apply $S/patch.diff 2>>$log); then say "patch applies to current /repo head: yes"; else say "patch applies to current /repo head: NO (evaluating on the agent's worktree instead)"; E=$W; fi
for c in "$@"; do
  base=$(cd /verif && ./check $c quick 2>&1 | tail -1)
  say "-- ./check $c quick on unchanged /repo: ${base:0:120}"
  say "-- ./check $c quick against the changed tree:"
  (cd /verif && VERIF_REPO=$E ./check $c quick 2>&1 | grep -E "failing input|no longer checks|VIOLATION|^OK|KNOWN" | grep -v KNOWN-FINDING | cut -c1-400 | tail -6) | tee -a $log
  [ -f /verif/replays/$c-quick.json ] && cp /verif/replays/$c-quick.json $S/replay-$c.json
done
[ "$E" != "$W" ] && git -C /repo worktree remove --force $E
