"""Plug-in of bin/extract.py: renders facts["posend"] (extract/posend.go) into
lean/ShVerif/Gen/C09.lean — every node type's Pos()/End() body and the helper functions as
expression trees of ShVerif.C09.PExpr, plus the source text of the Pos packing constants and
arithmetic functions."""
GROUP = "C09"


def render(d, h):
    pe = d.get("posend")
    problems = []
    if not pe:
        return ["C09: extractor produced no posend facts"]
    S = h.lstr

    def ref(r):
        k = r["k"]
        if k == "self":
            return ".self"
        if k == "param":
            return "(.param %s)" % S(r["name"])
        if k == "fld":
            return "(.fld %s %s)" % (ref(r["r"]), S(r["name"]))
        if k in ("first", "last"):
            return "(.%s %s)" % (k, ref(r["r"]))
        problems.append("C09: unknown ref kind %r" % k)
        return ".self"

    def kexpr(e):
        k = e["k"]
        if k == "const":
            v = e["v"]
            return "(.const %s)" % (("(%d)" % v) if v < 0 else str(v))
        if k == "lentok":
            return "(.lenTok %s)" % S(e["s"])
        if k == "lenfield":
            return "(.lenField %s)" % ref(e["r"])
        if k == "lenop":
            return "(.lenOp %s)" % ref(e["r"])
        if k == "add":
            return "(.add %s %s)" % (kexpr(e["a"]), kexpr(e["b"]))
        problems.append("C09: column expression not understood: %s" % e.get("text", k))
        return "(.const 0)"

    def atom(e, what):
        k = e["k"]
        if k == "ref":
            return "(.ref %s)" % ref(e["r"])
        if k == "pos":
            return "(.pos %s)" % ref(e["r"])
        if k == "end":
            return "(.end_ %s)" % ref(e["r"])
        problems.append("C09 %s: a condition tests a compound position expression" % what)
        return "(.ref .self)"

    def cond(c, what):
        k = c["k"]
        if k == "valid":
            return "(.valid %s)" % atom(c["e"], what)
        if k == "after":
            return "(.after %s %s)" % (atom(c["a"], what), atom(c["b"], what))
        if k in ("nonnil", "isnil", "flag", "nonempty", "empty"):
            nm = {"nonnil": "nonNil", "isnil": "isNil", "flag": "flag", "nonempty": "nonEmpty", "empty": "empty"}[k]
            return "(.%s %s)" % (nm, ref(c["r"]))
        if k == "not":
            return "(.not %s)" % cond(c["c"], what)
        if k in ("or", "and"):
            return "(.%s %s %s)" % (k, cond(c["a"], what), cond(c["b"], what))
        return ".unknown"

    def pexpr(e, what, ind):
        k = e["k"]
        pad = "\n" + " " * ind
        if k in ("ref", "pos", "end"):
            return "(.atom %s)" % atom(e, what)
        if k == "addcol":
            return "(.addCol %s %s)" % (pexpr(e["e"], what, ind), kexpr(e["n"]))
        if k == "ite":
            return "(.ite %s%s%s%s%s)" % (cond(e["c"], what), pad, pexpr(e["a"], what, ind + 2), pad, pexpr(e["b"], what, ind + 2))
        if k == "zero":
            return ".zero"
        if k == "max":
            return "(.max %s %s)" % (pexpr(e["a"], what, ind), pexpr(e["b"], what, ind))
        if k == "call":
            return "(.call %s %s)" % (S(e["fn"]), h.llist(ref(a) for a in e["args"]))
        return ".unknown"

    lines = ["import ShVerif.Model.C09", "namespace ShVerif.Gen.C09", "open ShVerif.C09", ""]
    lines.append("/-- Pos()/End() of every struct of package syntax that has both methods, sorted by name -/")
    ents = []
    for t in sorted(pe["types"]):
        ent = pe["types"][t]
        if "pos" not in ent or "end" not in ent:
            problems.append("C09: %s lacks Pos or End" % t)
            continue
        ents.append("  { name := %s,\n    pos := %s,\n    end_ := %s }" % (S(t), pexpr(ent["pos"], t + ".Pos", 6), pexpr(ent["end"], t + ".End", 6)))
    lines.append("def table : List Entry := [\n" + ",\n".join(ents) + "\n]\n")
    hs = []
    for f in sorted(pe["helpers"]):
        hp = pe["helpers"][f]
        hs.append("  { name := %s, params := %s,\n    body := %s }" % (S(f), h.llist(S(p) for p in hp["params"]), pexpr(hp["body"], f, 6)))
    lines.append("/-- the helper functions those bodies call -/")
    lines.append("def helpers : List Helper := [\n" + ",\n".join(hs) + "\n]\n")
    lines.append("/-- the Pos packing constants (source text of their defining expressions) -/")
    lines.append("def consts : List (String × String) := " + h.llist("(%s, %s)" % (S(k), S(v)) for k, v in sorted(pe["consts"].items())) + "\n")
    lines.append("/-- bodies of NewPos, posAddCol, posMax and the methods of Pos (source text, whitespace-normalised) -/")
    lines.append("def funcs : List (String × String) := [\n" + ",\n".join("  (%s, %s)" % (S(k), S(v)) for k, v in sorted(pe["funcs"].items())) + "\n]\n")
    lines.append("end ShVerif.Gen.C09")
    h.put("C09", "\n".join(lines) + "\n")
    return problems
