package main

// C10 facts (key "c10"): where parse errors get their position from.
//   creators:    functions containing a ParseError{…} / LangError{…} composite literal, with the
//                expression given to the Pos field
//   forwarders:  functions that pass one of their own Pos parameters on to a creator or to another
//                forwarder (posErr ← followErr ← followErrExp …), with the parameter index
//   sites:       every call of a creator/forwarder, with the position argument's source text and its
//                *origins*: the argument itself, or — when it is a local variable — every expression
//                assigned to that variable in the enclosing function (followed through locals)
//   errpass:     callers of errPass;  err_assigns: functions assigning p.err directly
//   pos_fields:  names of struct fields of type Pos in package syntax
//   pos_funcs:   functions/methods of package syntax whose (first) result type is Pos
// Purely syntactic.

import (
	"go/ast"
	"go/token"
	"sort"
	"strings"
)

func init() { extraFacts = append(extraFacts, c10Facts) }

type c10Shape struct {
	Shape string `json:"shape"` // sel | pcall | method | param | result | call | zero | global | other
	Recv  string `json:"recv,omitempty"`
	Name  string `json:"name,omitempty"`
	Text  string `json:"text"`
}

type c10Site struct {
	File    string     `json:"file"`
	Func    string     `json:"func"`
	Line    int        `json:"line"`
	Callee  string     `json:"callee"`
	PosExpr string     `json:"pos_expr"`
	Origins []c10Shape `json:"origins"`
}

type c10Creator struct {
	Func    string `json:"func"`
	Type    string `json:"type"`
	PosExpr string `json:"pos_expr"`
	Param   int    `json:"param"` // index of the parameter used for Pos, -1 when it is not a parameter
}

type c10Fn struct {
	name   string // Recv.Name or Name
	short  string // Name
	file   string
	decl   *ast.FuncDecl
	params []string // flattened parameter names
	ptypes []string
}

func c10Funcs(p *pkgInfo) []*c10Fn {
	var out []*c10Fn
	var names []string
	for n := range p.files {
		names = append(names, n)
	}
	sort.Strings(names)
	for _, fn := range names {
		for _, d := range p.files[fn].Decls {
			fd, ok := d.(*ast.FuncDecl)
			if !ok || fd.Body == nil {
				continue
			}
			f := &c10Fn{short: fd.Name.Name, name: fd.Name.Name, file: fn, decl: fd}
			if fd.Recv != nil && len(fd.Recv.List) > 0 {
				f.name = strings.TrimPrefix(src(fd.Recv.List[0].Type), "*") + "." + fd.Name.Name
			}
			for _, fl := range fd.Type.Params.List {
				t := src(fl.Type)
				if len(fl.Names) == 0 {
					f.params = append(f.params, "_")
					f.ptypes = append(f.ptypes, t)
				}
				for _, n := range fl.Names {
					f.params = append(f.params, n.Name)
					f.ptypes = append(f.ptypes, t)
				}
			}
			out = append(out, f)
		}
	}
	return out
}

var c10PkgVars = map[string]bool{}

func (f *c10Fn) isNamedResult(name string) bool {
	if f.decl.Type.Results == nil {
		return false
	}
	for _, fl := range f.decl.Type.Results.List {
		for _, n := range fl.Names {
			if n.Name == name {
				return true
			}
		}
	}
	return false
}

func (f *c10Fn) paramIndex(name string) int {
	for i, n := range f.params {
		if n == name {
			return i
		}
	}
	return -1
}

// calleeName returns the method/function name of a call (`p.posErr(…)` → posErr).
func c10Callee(c *ast.CallExpr) string {
	switch fn := c.Fun.(type) {
	case *ast.SelectorExpr:
		return fn.Sel.Name
	case *ast.Ident:
		return fn.Name
	}
	return ""
}

// c10Def is what one identifier is bound to at a use site: the right-hand sides of the `:=`/var
// that declares it in the innermost enclosing scope before the use, plus every plain `=`
// assignment to it inside that scope.
func c10Defs(path []ast.Node, name string) ([]ast.Expr, bool) {
	use := path[len(path)-1].Pos()
	rhsOf := func(st ast.Stmt) []ast.Expr {
		var out []ast.Expr
		switch s := st.(type) {
		case *ast.AssignStmt:
			if s.Tok != token.DEFINE {
				return nil
			}
			for i, l := range s.Lhs {
				id, ok := l.(*ast.Ident)
				if !ok || id.Name != name {
					continue
				}
				if len(s.Lhs) == len(s.Rhs) {
					out = append(out, s.Rhs[i])
				} else if len(s.Rhs) == 1 {
					out = append(out, &ast.IndexExpr{X: s.Rhs[0], Index: &ast.BasicLit{Kind: token.INT, Value: itoa(i)}})
				}
			}
		case *ast.DeclStmt:
			if gd, ok := s.Decl.(*ast.GenDecl); ok {
				for _, sp := range gd.Specs {
					if vs, ok := sp.(*ast.ValueSpec); ok {
						for i, id := range vs.Names {
							if id.Name == name {
								if len(vs.Values) > i {
									out = append(out, vs.Values[i])
								} else {
									out = append(out, &ast.BasicLit{Kind: token.STRING, Value: "\"zero value\""})
								}
							}
						}
					}
				}
			}
		}
		return out
	}
	for i := len(path) - 2; i >= 0; i-- {
		var stmts []ast.Stmt
		var scope ast.Node = path[i]
		switch b := path[i].(type) {
		case *ast.BlockStmt:
			stmts = b.List
		case *ast.CaseClause:
			stmts = b.Body
		case *ast.IfStmt:
			if b.Init != nil {
				stmts = []ast.Stmt{b.Init}
			}
		case *ast.ForStmt:
			if b.Init != nil {
				stmts = []ast.Stmt{b.Init}
			}
		case *ast.SwitchStmt:
			if b.Init != nil {
				stmts = []ast.Stmt{b.Init}
			}
		default:
			continue
		}
		var found []ast.Expr
		for _, st := range stmts {
			if st.Pos() >= use {
				break
			}
			found = append(found, rhsOf(st)...)
		}
		if len(found) == 0 {
			continue
		}
		// plain assignments inside the declaring scope
		ast.Inspect(scope, func(n ast.Node) bool {
			if as, ok := n.(*ast.AssignStmt); ok && as.Tok == token.ASSIGN && len(as.Lhs) == len(as.Rhs) {
				for j, l := range as.Lhs {
					if id, ok := l.(*ast.Ident); ok && id.Name == name {
						found = append(found, as.Rhs[j])
					}
				}
			}
			return true
		})
		return found, true
	}
	return nil, false
}

// c10Reassigned reports whether the parameter is assigned anywhere in the function.
func c10Reassigned(f *c10Fn, name string) bool {
	re := false
	ast.Inspect(f.decl.Body, func(n ast.Node) bool {
		if as, ok := n.(*ast.AssignStmt); ok {
			for _, l := range as.Lhs {
				if id, ok := l.(*ast.Ident); ok && id.Name == name {
					re = true
				}
			}
		}
		return true
	})
	return re
}

func itoa(i int) string {
	if i == 0 {
		return "0"
	}
	s := ""
	for i > 0 {
		s = string(rune('0'+i%10)) + s
		i /= 10
	}
	return s
}

func c10ShapeOf(f *c10Fn, path []ast.Node, e ast.Expr, depth int) []c10Shape {
	text := src(e)
	switch x := e.(type) {
	case *ast.ParenExpr:
		return c10ShapeOf(f, path, x.X, depth)
	case *ast.Ident:
		if defs, ok := c10Defs(path, x.Name); ok && depth < 4 {
			var out []c10Shape
			for _, r := range defs {
				out = append(out, c10ShapeOf(f, path, r, depth+1)...)
			}
			return out
		}
		if f.paramIndex(x.Name) >= 0 && !c10Reassigned(f, x.Name) {
			return []c10Shape{{Shape: "param", Name: x.Name, Text: text}}
		}
		if f.isNamedResult(x.Name) && depth < 4 {
			// named result: the zero value plus every assignment in the function
			out := []c10Shape{{Shape: "zero", Text: text}}
			ast.Inspect(f.decl.Body, func(n ast.Node) bool {
				if as, ok := n.(*ast.AssignStmt); ok && len(as.Lhs) == len(as.Rhs) {
					for j, l := range as.Lhs {
						if id, ok := l.(*ast.Ident); ok && id.Name == x.Name {
							out = append(out, c10ShapeOf(f, path, as.Rhs[j], depth+1)...)
						}
					}
				}
				return true
			})
			return out
		}
		if x.Obj == nil || x.Obj.Kind == ast.Var && c10PkgVars[x.Name] {
			if c10PkgVars[x.Name] {
				return []c10Shape{{Shape: "global", Name: x.Name, Text: text}}
			}
		}
		return []c10Shape{{Shape: "other", Text: text}}
	case *ast.CompositeLit:
		if src(x.Type) == "Pos" && len(x.Elts) == 0 {
			return []c10Shape{{Shape: "zero", Text: text}}
		}
	case *ast.SelectorExpr:
		return []c10Shape{{Shape: "sel", Recv: src(x.X), Name: x.Sel.Name, Text: text}}
	case *ast.IndexExpr:
		// synthetic: result #i of a call (see c10Defs)
		if c, ok := x.X.(*ast.CallExpr); ok {
			return []c10Shape{{Shape: "result", Name: c10Callee(c), Recv: src(x.Index), Text: src(c)}}
		}
	case *ast.CallExpr:
		if se, ok := x.Fun.(*ast.SelectorExpr); ok {
			if id, ok := se.X.(*ast.Ident); ok && id.Name == "p" {
				return []c10Shape{{Shape: "pcall", Name: se.Sel.Name, Text: text}}
			}
			if len(x.Args) == 0 {
				return []c10Shape{{Shape: "method", Recv: src(se.X), Name: se.Sel.Name, Text: text}}
			}
		}
		return []c10Shape{{Shape: "call", Name: c10Callee(x), Text: text}}
	}
	return []c10Shape{{Shape: "other", Text: text}}
}

// c10Walk calls fn for every call expression of the body with the path of enclosing nodes.
func c10Walk(body ast.Node, fn func(path []ast.Node, c *ast.CallExpr)) {
	var path []ast.Node
	ast.Inspect(body, func(n ast.Node) bool {
		if n == nil {
			path = path[:len(path)-1]
			return true
		}
		path = append(path, n)
		if c, ok := n.(*ast.CallExpr); ok {
			fn(path, c)
		}
		return true
	})
}

func c10Facts(repo string, facts map[string]any) {
	syn := loadPkg(repo + "/syntax")
	fns := c10Funcs(syn)
	for _, fl := range syn.files {
		for _, d := range fl.Decls {
			if gd, ok := d.(*ast.GenDecl); ok && gd.Tok == token.VAR {
				for _, sp := range gd.Specs {
					for _, n := range sp.(*ast.ValueSpec).Names {
						c10PkgVars[n.Name] = true
					}
				}
			}
		}
	}
	byShort := map[string]*c10Fn{}
	for _, f := range fns {
		if strings.HasPrefix(f.name, "Parser.") {
			byShort[f.short] = f
		}
	}
	// creators
	var creators []c10Creator
	fw := map[string]int{} // short name → index of the forwarded Pos parameter
	for _, f := range fns {
		ast.Inspect(f.decl.Body, func(n ast.Node) bool {
			cl, ok := n.(*ast.CompositeLit)
			if !ok {
				return true
			}
			t := src(cl.Type)
			if t != "ParseError" && t != "LangError" {
				return true
			}
			c := c10Creator{Func: f.name, Type: t, Param: -1}
			for _, el := range cl.Elts {
				if kv, ok := el.(*ast.KeyValueExpr); ok && src(kv.Key) == "Pos" {
					c.PosExpr = src(kv.Value)
					if id, ok := kv.Value.(*ast.Ident); ok {
						c.Param = f.paramIndex(id.Name)
					}
				}
			}
			creators = append(creators, c)
			if c.Param >= 0 && strings.HasPrefix(f.name, "Parser.") {
				fw[f.short] = c.Param
			}
			return true
		})
	}
	// forwarders: fixpoint
	for changed := true; changed; {
		changed = false
		for _, f := range fns {
			if !strings.HasPrefix(f.name, "Parser.") {
				continue
			}
			if _, done := fw[f.short]; done {
				continue
			}
			c10Walk(f.decl.Body, func(path []ast.Node, c *ast.CallExpr) {
				idx, isFw := fw[c10Callee(c)]
				if !isFw || idx >= len(c.Args) {
					return
				}
				if _, ok := c.Fun.(*ast.SelectorExpr); !ok {
					return
				}
				if id, ok := c.Args[idx].(*ast.Ident); ok {
					if pi := f.paramIndex(id.Name); pi >= 0 && f.ptypes[pi] == "Pos" {
						if _, shadow := c10Defs(path, id.Name); !shadow && !c10Reassigned(f, id.Name) {
							if _, done := fw[f.short]; !done {
								fw[f.short] = pi
								changed = true
							}
						}
					}
				}
			})
		}
	}
	// sites
	var sites []c10Site
	for _, f := range fns {
		if !strings.HasPrefix(f.name, "Parser.") {
			continue // creators and forwarders are Parser methods, called on the receiver
		}
		c10Walk(f.decl.Body, func(path []ast.Node, c *ast.CallExpr) {
			callee := c10Callee(c)
			idx, isFw := fw[callee]
			if !isFw {
				return
			}
			if se, ok := c.Fun.(*ast.SelectorExpr); !ok || src(se.X) != "p" {
				return
			}
			if idx >= len(c.Args) {
				fail("C10: call of " + callee + " in " + f.name + " has no position argument")
				return
			}
			s := c10Site{File: f.file, Func: f.short, Line: fset.Position(c.Pos()).Line, Callee: callee, PosExpr: src(c.Args[idx])}
			s.Origins = c10ShapeOf(f, path, c.Args[idx], 0)
			sites = append(sites, s)
		})
	}
	// what the Pos-returning Parser methods return
	type ret struct {
		Func    string     `json:"func"`
		Index   int        `json:"index"`
		Origins []c10Shape `json:"origins"`
	}
	var returns []ret
	for _, f := range fns {
		if !strings.HasPrefix(f.name, "Parser.") || f.decl.Type.Results == nil {
			continue
		}
		var rtypes []string
		var rnames []string
		for _, fl := range f.decl.Type.Results.List {
			t := src(fl.Type)
			if len(fl.Names) == 0 {
				rtypes = append(rtypes, t)
				rnames = append(rnames, "")
			}
			for _, n := range fl.Names {
				rtypes = append(rtypes, t)
				rnames = append(rnames, n.Name)
			}
		}
		for i, t := range rtypes {
			if t != "Pos" {
				continue
			}
			r := ret{Func: f.short, Index: i}
			var path []ast.Node
			ast.Inspect(f.decl.Body, func(n ast.Node) bool {
				if n == nil {
					path = path[:len(path)-1]
					return true
				}
				path = append(path, n)
				if _, ok := n.(*ast.FuncLit); ok {
					path = path[:len(path)-1]
					return false
				}
				if rs, ok := n.(*ast.ReturnStmt); ok {
					if len(rs.Results) == len(rtypes) {
						r.Origins = append(r.Origins, c10ShapeOf(f, path, rs.Results[i], 0)...)
					} else if len(rs.Results) == 0 && rnames[i] != "" {
						r.Origins = append(r.Origins, c10ShapeOf(f, path, ast.NewIdent(rnames[i]), 0)...)
					} else {
						r.Origins = append(r.Origins, c10Shape{Shape: "other", Text: src(rs)})
					}
				}
				return true
			})
			returns = append(returns, r)
		}
	}
	// errPass callers and direct p.err assignments
	var errpass, errAssigns []string
	for _, f := range fns {
		if !strings.HasPrefix(f.name, "Parser.") {
			continue
		}
		ast.Inspect(f.decl.Body, func(n ast.Node) bool {
			switch x := n.(type) {
			case *ast.CallExpr:
				if c10Callee(x) == "errPass" {
					errpass = append(errpass, f.name)
				}
			case *ast.AssignStmt:
				for _, l := range x.Lhs {
					if se, ok := l.(*ast.SelectorExpr); ok && se.Sel.Name == "err" {
						if id, ok := se.X.(*ast.Ident); ok && id.Name == "p" {
							errAssigns = append(errAssigns, f.name)
						}
					}
				}
			}
			return true
		})
	}
	// Pos-typed fields and Pos-returning functions
	posFields := map[string]bool{}
	for _, fs := range syn.structs() {
		for _, fl := range fs {
			if fl.Type == "Pos" {
				posFields[fl.Name] = true
			}
		}
	}
	var pf []string
	for n := range posFields {
		pf = append(pf, n)
	}
	sort.Strings(pf)
	var posFuncs []string
	seenPF := map[string]bool{}
	for _, f := range fns {
		if f.decl.Type.Results == nil || len(f.decl.Type.Results.List) == 0 {
			continue
		}
		if src(f.decl.Type.Results.List[0].Type) == "Pos" && !seenPF[f.short] {
			seenPF[f.short] = true
			posFuncs = append(posFuncs, f.short)
		}
	}
	sort.Strings(posFuncs)
	type fwd struct {
		Func  string `json:"func"`
		Param int    `json:"param"`
		Name  string `json:"name"`
	}
	var fwds []fwd
	for n, i := range fw {
		fwds = append(fwds, fwd{Func: n, Param: i, Name: byShort[n].params[i]})
	}
	sort.Slice(fwds, func(i, j int) bool { return fwds[i].Func < fwds[j].Func })
	if len(sites) < 50 {
		fail("C10: fewer than 50 error sites found (scan broken?)")
	}
	if len(creators) == 0 {
		fail("C10: no ParseError/LangError composite literal found")
	}
	facts["c10"] = map[string]any{
		"creators": creators, "forwarders": fwds, "sites": sites,
		"returns": returns, "errpass": errpass, "err_assigns": errAssigns, "pos_fields": pf, "pos_funcs": posFuncs,
	}
}
