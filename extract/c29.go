package main

// C29 facts (key "c29"), purely syntactic, packages interp and expand (non-test, non-hook files):
//
//   write_sites   every assignment / op-assignment / inc-dec through a selector, index or star, and
//                 every call of append, copy, clear, slices.Insert|Delete|Sort*|Reverse, sort.* whose
//                 target (left-hand side, or first argument) either mentions a selector named like an
//                 exported field of a struct of package syntax, or is rooted at an identifier that is
//                 "node-ish": declared with a type mentioning `syntax.`, initialised from a syntax
//                 composite literal, from a copy `*x` of a node-ish x, from an expression derived
//                 from a node-ish identifier or from a node field, or bound by ranging over one.
//                 Over-approximate by design; the expectation classifies each site.
//                 Identifiers are told apart by go/ast's object resolution (shadowing is respected).
//   overlay_sites every `overlayEnviron{…}` literal and `newOverlayEnviron(…)` call: the parent
//                 expression and the funcScope flag.
//   writeenv      every assignment to a `.writeEnv` selector with the shape of its right-hand side.
//   env_uses      every use of a `.Env` selector in package interp with its immediate context.
//   forwards      every type assertion to expand.WriteEnviron (where a Set can be forwarded).

import (
	"go/ast"
	"go/token"
	"path/filepath"
	"sort"
	"strings"
)

func init() { extraFacts = append(extraFacts, c29Facts) }

type c29Site struct {
	Pkg    string `json:"pkg"`
	File   string `json:"file"`
	Func   string `json:"func"`
	Kind   string `json:"kind"`
	Target string `json:"target"`
	Base   string `json:"base"`
	Line   int    `json:"line"`
}

type c29Overlay struct {
	Func      string `json:"func"`
	Form      string `json:"form"`
	Parent    string `json:"parent"`
	FuncScope string `json:"func_scope"`
}

type c29Assign struct {
	Func string `json:"func"`
	Rhs  string `json:"rhs"`
}

type c29Use struct {
	Func string `json:"func"`
	Expr string `json:"expr"`
	Ctx  string `json:"ctx"`
}

func c29FuncName(fd *ast.FuncDecl) string {
	if fd.Recv != nil && len(fd.Recv.List) > 0 {
		t := src(fd.Recv.List[0].Type)
		return strings.TrimPrefix(t, "*") + "." + fd.Name.Name
	}
	return fd.Name.Name
}

// c29Root strips selectors, indexes, slices, stars, parens and type assertions down to the root
// identifier; ok is false when the root is something else (a call, a literal …).
func c29Root(e ast.Expr) (*ast.Ident, bool) {
	for {
		switch x := e.(type) {
		case *ast.Ident:
			return x, true
		case *ast.SelectorExpr:
			e = x.X
		case *ast.IndexExpr:
			e = x.X
		case *ast.SliceExpr:
			e = x.X
		case *ast.StarExpr:
			e = x.X
		case *ast.ParenExpr:
			e = x.X
		case *ast.TypeAssertExpr:
			e = x.X
		case *ast.UnaryExpr:
			if x.Op == token.AND {
				e = x.X
				continue
			}
			return nil, false
		default:
			return nil, false
		}
	}
}

func c29MentionsField(e ast.Expr, fields map[string]bool) bool {
	found := false
	ast.Inspect(e, func(n ast.Node) bool {
		if se, ok := n.(*ast.SelectorExpr); ok && fields[se.Sel.Name] {
			// a qualified identifier such as syntax.Word is not a field access
			if id, ok := se.X.(*ast.Ident); ok && id.Obj == nil && (id.Name == "syntax" || id.Name == "expand" || id.Name == "interp") {
				return true
			}
			found = true
		}
		return !found
	})
	return found
}

func c29IsSyntaxType(t ast.Expr) bool {
	return t != nil && strings.Contains(src(t), "syntax.")
}

type c29Prov struct {
	kind map[*ast.Object]string // param | var-decl | fresh-literal | local-copy | derived | range | nonnode
}

func (p *c29Prov) set(o *ast.Object, k string) {
	if o == nil {
		return
	}
	// the strongest claim wins: derived/range (aliases the tree) over everything else
	rank := map[string]int{"nonnode": 0, "fresh-literal": 1, "var-decl": 2, "local-copy": 3, "param": 4, "derived": 5, "range": 5}
	if old, ok := p.kind[o]; ok && rank[old] >= rank[k] {
		return
	}
	p.kind[o] = k
}

func (p *c29Prov) nodeish(o *ast.Object) bool {
	k, ok := p.kind[o]
	return ok && k != "nonnode"
}

func c29IsSyntaxLit(e ast.Expr) bool {
	if u, ok := e.(*ast.UnaryExpr); ok && u.Op == token.AND {
		e = u.X
	}
	cl, ok := e.(*ast.CompositeLit)
	return ok && c29IsSyntaxType(cl.Type)
}

// c29Classify gives the provenance of a value expression assigned to a new identifier.
func (p *c29Prov) classify(e ast.Expr, fields map[string]bool) string {
	if c29IsSyntaxLit(e) {
		return "fresh-literal"
	}
	if st, ok := e.(*ast.StarExpr); ok {
		if id, ok := c29Root(st.X); ok && (p.nodeish(id.Obj) || c29MentionsField(st.X, fields)) {
			return "local-copy"
		}
	}
	switch e.(type) {
	case *ast.CallExpr, *ast.BasicLit, *ast.FuncLit, *ast.BinaryExpr:
		return ""
	}
	if id, ok := c29Root(e); ok {
		if c29MentionsField(e, fields) && p.kind[id.Obj] != "nonnode" {
			// a field of a node, even of a copy or of a fresh object, aliases what the field points to
			return "derived"
		}
		if p.nodeish(id.Obj) {
			switch k := p.kind[id.Obj]; k {
			case "var-decl", "fresh-literal", "local-copy":
				return k // x[:0], x[i:], (x): the same storage as x
			default:
				return "derived"
			}
		}
	}
	return ""
}

func c29ScanFunc(pkg, file string, fd *ast.FuncDecl, fields map[string]bool, out *[]c29Site) {
	prov := &c29Prov{kind: map[*ast.Object]string{}}
	declare := func(fl *ast.FieldList) {
		if fl == nil {
			return
		}
		for _, f := range fl.List {
			k := "nonnode"
			if c29IsSyntaxType(f.Type) {
				k = "param"
			}
			for _, n := range f.Names {
				prov.set(n.Obj, k)
			}
		}
	}
	declare(fd.Recv)
	declare(fd.Type.Params)
	declare(fd.Type.Results)
	// two passes so that aliases of aliases settle (flow-insensitive)
	for pass := 0; pass < 3; pass++ {
		ast.Inspect(fd.Body, func(n ast.Node) bool {
			switch n := n.(type) {
			case *ast.FuncLit:
				declare(n.Type.Params)
			case *ast.DeclStmt:
				if gd, ok := n.Decl.(*ast.GenDecl); ok && gd.Tok == token.VAR {
					for _, s := range gd.Specs {
						vs := s.(*ast.ValueSpec)
						for i, nm := range vs.Names {
							if vs.Type != nil {
								if c29IsSyntaxType(vs.Type) {
									prov.set(nm.Obj, "var-decl")
								} else {
									prov.set(nm.Obj, "nonnode")
								}
							}
							if i < len(vs.Values) {
								if k := prov.classify(vs.Values[i], fields); k != "" {
									prov.set(nm.Obj, k)
								}
							}
						}
					}
				}
			case *ast.AssignStmt:
				for i, l := range n.Lhs {
					id, ok := l.(*ast.Ident)
					if !ok || id.Obj == nil {
						continue
					}
					var rhs ast.Expr
					if len(n.Rhs) == len(n.Lhs) {
						rhs = n.Rhs[i]
					} else if len(n.Rhs) == 1 {
						rhs = n.Rhs[0] // v, ok := x.(T) and friends
					}
					if rhs == nil {
						continue
					}
					if ta, ok := rhs.(*ast.TypeAssertExpr); ok && i == 0 {
						rhs = ta.X
					}
					if k := prov.classify(rhs, fields); k != "" {
						prov.set(id.Obj, k)
					}
				}
			case *ast.RangeStmt:
				if rid, ok := c29Root(n.X); ok && (prov.nodeish(rid.Obj) || c29MentionsField(n.X, fields)) && prov.kind[rid.Obj] != "nonnode" {
					if v, ok := n.Value.(*ast.Ident); ok && v.Obj != nil {
						prov.set(v.Obj, "range")
					}
				} else if c29MentionsField(n.X, fields) {
					if v, ok := n.Value.(*ast.Ident); ok && v.Obj != nil {
						prov.set(v.Obj, "range")
					}
				}
			case *ast.TypeSwitchStmt:
				// switch x := y.(type): x aliases y
				if as, ok := n.Assign.(*ast.AssignStmt); ok && len(as.Lhs) == 1 && len(as.Rhs) == 1 {
					if ta, ok := as.Rhs[0].(*ast.TypeAssertExpr); ok {
						if k := prov.classify(ta.X, fields); k != "" {
							// the binding is re-declared per clause: implicit objects live in the case
							// clauses' scopes, which go/ast does not resolve; mark by name below
							_ = k
						}
					}
				}
			}
			return true
		})
	}
	fname := c29FuncName(fd)
	baseOf := func(e ast.Expr) (string, bool) {
		id, ok := c29Root(e)
		if !ok {
			switch x := e.(type) {
			case *ast.CompositeLit:
				return "fresh-literal", false
			case *ast.CallExpr:
				return "call:" + src(x.Fun), false
			}
			return "other", false
		}
		if id.Obj == nil {
			return "unresolved:" + id.Name, false
		}
		k, ok := prov.kind[id.Obj]
		if !ok {
			// `switch x := y.(type)`: the per-clause object's declaration is the switch's assignment
			if as, isAs := id.Obj.Decl.(*ast.AssignStmt); isAs && len(as.Rhs) == 1 {
				if ta, isTa := as.Rhs[0].(*ast.TypeAssertExpr); isTa && ta.Type == nil {
					if k2 := prov.classify(ta.X, fields); k2 != "" {
						k, ok = k2, true
					}
				}
			}
		}
		if !ok {
			return "local", false
		}
		return k, k != "nonnode"
	}
	add := func(kind string, target ast.Expr, pos token.Pos) {
		base, nodeish := baseOf(target)
		mention := c29MentionsField(target, fields)
		if !nodeish && !(mention && base != "nonnode") {
			return
		}
		*out = append(*out, c29Site{Pkg: pkg, File: file, Func: fname, Kind: kind, Target: src(target), Base: base, Line: fset.Position(pos).Line})
	}
	ast.Inspect(fd.Body, func(n ast.Node) bool {
		switch n := n.(type) {
		case *ast.AssignStmt:
			if n.Tok == token.DEFINE {
				return true
			}
			for _, l := range n.Lhs {
				if _, plain := l.(*ast.Ident); plain {
					continue // rebinding a local writes no shared memory
				}
				kind := "assign"
				if n.Tok != token.ASSIGN {
					kind = "op-assign"
				}
				add(kind, l, n.Pos())
			}
		case *ast.IncDecStmt:
			if _, plain := n.X.(*ast.Ident); !plain {
				add("incdec", n.X, n.Pos())
			}
		case *ast.CallExpr:
			fn := src(n.Fun)
			switch {
			case fn == "append" || fn == "copy" || fn == "clear":
				if len(n.Args) > 0 {
					add(fn, n.Args[0], n.Pos())
				}
			case fn == "syntax.SplitBraces":
				// the one function of package syntax called from here that rewrites the Word it is given
				if len(n.Args) == 1 {
					base, _ := baseOf(n.Args[0])
					*out = append(*out, c29Site{Pkg: pkg, File: file, Func: fname, Kind: "call-SplitBraces", Target: src(n.Args[0]), Base: base, Line: fset.Position(n.Pos()).Line})
				}
			case fn == "slices.Insert" || fn == "slices.Delete" || fn == "slices.Reverse" || strings.HasPrefix(fn, "slices.Sort") ||
				fn == "sort.Slice" || fn == "sort.SliceStable" || fn == "sort.Strings" || fn == "sort.Sort" || fn == "sort.Stable":
				if len(n.Args) > 0 {
					add(strings.ToLower(strings.NewReplacer("slices.", "", "sort.", "sort").Replace(fn)), n.Args[0], n.Pos())
				}
			}
		}
		return true
	})
}

func c29Facts(repo string, facts map[string]any) {
	syn := loadPkg(filepath.Join(repo, "syntax"))
	fields := map[string]bool{}
	for name, fs := range syn.structs() {
		if name == "Parser" || name == "Printer" {
			continue
		}
		for _, f := range fs {
			if f.Exported {
				fields[f.Name] = true
			}
		}
	}
	var sites []c29Site
	var overlays []c29Overlay
	var assigns []c29Assign
	var uses []c29Use
	var forwards []c29Use
	for _, pkg := range []string{"interp", "expand"} {
		p := loadPkg(filepath.Join(repo, pkg))
		var names []string
		for n := range p.files {
			names = append(names, n)
		}
		sort.Strings(names)
		for _, fn := range names {
			for _, d := range p.files[fn].Decls {
				fd, ok := d.(*ast.FuncDecl)
				if !ok || fd.Body == nil {
					continue
				}
				c29ScanFunc(pkg, fn, fd, fields, &sites)
				if pkg != "interp" {
					continue
				}
				fname := c29FuncName(fd)
				parents := map[ast.Node]ast.Node{}
				var stack []ast.Node
				ast.Inspect(fd, func(n ast.Node) bool {
					if n == nil {
						stack = stack[:len(stack)-1]
						return true
					}
					if len(stack) > 0 {
						parents[n] = stack[len(stack)-1]
					}
					stack = append(stack, n)
					return true
				})
				ast.Inspect(fd.Body, func(n ast.Node) bool {
					switch n := n.(type) {
					case *ast.CompositeLit:
						if src(n.Type) == "overlayEnviron" {
							o := c29Overlay{Func: fname, Form: "literal", Parent: "", FuncScope: "false"}
							for _, el := range n.Elts {
								if kv, ok := el.(*ast.KeyValueExpr); ok {
									switch src(kv.Key) {
									case "parent":
										o.Parent = src(kv.Value)
									case "funcScope":
										o.FuncScope = src(kv.Value)
									}
								} else {
									o.Parent = "positional:" + src(el)
								}
							}
							overlays = append(overlays, o)
						}
					case *ast.CallExpr:
						if src(n.Fun) == "newOverlayEnviron" && len(n.Args) == 2 {
							overlays = append(overlays, c29Overlay{Func: fname, Form: "newOverlayEnviron", Parent: src(n.Args[0]), FuncScope: "false"})
						}
					case *ast.AssignStmt:
						for i, l := range n.Lhs {
							se, ok := l.(*ast.SelectorExpr)
							if !ok {
								continue
							}
							if se.Sel.Name == "funcScope" || se.Sel.Name == "parent" {
								// a later write of an overlay's parent/funcScope would change the chain shape
								overlays = append(overlays, c29Overlay{Func: fname, Form: "field-write:" + se.Sel.Name, Parent: src(l), FuncScope: src(n.Rhs[min(i, len(n.Rhs)-1)])})
							}
							if se.Sel.Name != "writeEnv" {
								continue
							}
							rhs := n.Rhs[min(i, len(n.Rhs)-1)]
							shape := "other:" + src(rhs)
							r2 := rhs
							if u, ok := r2.(*ast.UnaryExpr); ok && u.Op == token.AND {
								r2 = u.X
							}
							if cl, ok := r2.(*ast.CompositeLit); ok && src(cl.Type) == "overlayEnviron" {
								shape = "overlay-literal"
							} else if call, ok := r2.(*ast.CallExpr); ok && src(call.Fun) == "newOverlayEnviron" {
								shape = "newOverlayEnviron"
							} else if id, ok := r2.(*ast.Ident); ok && id.Obj != nil {
								// a local that was itself read from a .writeEnv selector
								if as, ok := id.Obj.Decl.(*ast.AssignStmt); ok && len(as.Rhs) == 1 {
									if s2, ok := as.Rhs[0].(*ast.SelectorExpr); ok && s2.Sel.Name == "writeEnv" {
										shape = "saved-writeEnv"
									}
								}
							}
							assigns = append(assigns, c29Assign{Func: fname, Rhs: shape})
						}
					case *ast.TypeAssertExpr:
						if n.Type != nil && strings.HasSuffix(src(n.Type), "WriteEnviron") {
							forwards = append(forwards, c29Use{Func: fname, Expr: src(n), Ctx: "type-assert"})
						}
					case *ast.SelectorExpr:
						if n.Sel.Name != "Env" {
							return true
						}
						if id, ok := n.X.(*ast.Ident); ok && id.Obj == nil {
							return true // package-qualified
						}
						ctx := "value"
						switch par := parents[n].(type) {
						case *ast.SelectorExpr:
							ctx = "method:" + par.Sel.Name
						case *ast.AssignStmt:
							for _, l := range par.Lhs {
								if l == ast.Expr(n) {
									ctx = "assigned"
								}
							}
						case *ast.KeyValueExpr:
							ctx = "literal-value:" + src(par.Key)
							if par.Key == ast.Expr(n) {
								ctx = "literal-key"
							}
						case *ast.BinaryExpr:
							ctx = "compare:" + par.Op.String()
						case *ast.CallExpr:
							ctx = "arg-of:" + src(par.Fun)
						}
						uses = append(uses, c29Use{Func: fname, Expr: src(n), Ctx: ctx})
					case *ast.KeyValueExpr:
						if id, ok := n.Key.(*ast.Ident); ok && id.Name == "Env" {
							uses = append(uses, c29Use{Func: fname, Expr: "Env:", Ctx: "literal-key=" + src(n.Value)})
						}
					}
					return true
				})
			}
		}
	}
	if len(sites) == 0 {
		fail("C29: no write site found in interp/expand — extractor out of date")
	}
	facts["c29"] = map[string]any{
		"node_fields":   len(fields),
		"write_sites":   sites,
		"overlay_sites": overlays,
		"writeenv":      assigns,
		"env_uses":      uses,
		"forwards":      forwards,
	}
}
