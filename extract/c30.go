package main

// C30 facts (key "c30"): what Runner.Reset does to every field of Runner, and every place in
// package interp where a Runner field is written (assignment, composite literal, whole-struct
// overwrite, address taken).  Purely syntactic; values are classified by *shape* (receiver field,
// receiver field sliced to length 0, constant, fresh value …), never compared as source text.

import (
	"go/ast"
	"go/token"
	"path/filepath"
	"sort"
	"strings"
)

func init() { extraFacts = append(extraFacts, c30Facts) }

type c30Val struct {
	Kind  string   `json:"kind"`  // self | self0 | const | make | fresh | appendSelf | other
	Field string   `json:"field"` // self/self0/appendSelf: the receiver field read
	Deps  []string `json:"deps"`  // other receiver fields mentioned
	Text  string   `json:"text"`
}

type c30Write struct {
	Field  string   `json:"field"`
	Op     string   `json:"op"` // assign | clear | incdec
	Val    c30Val   `json:"val"`
	Guards []string `json:"guards"` // enclosing conditions: notDidReset | isNil:F | notNil:F | cond:<text> | else:<text>
}

type c30Call struct {
	Name   string   `json:"name"`
	Guards []string `json:"guards"`
}

type c30Reset struct {
	Found     bool              `json:"found"`
	Whole     bool              `json:"whole"` // the literal is assigned to *recv
	NLiterals int               `json:"n_literals"`
	Literal   map[string]c30Val `json:"literal"`
	LitOrder  []string          `json:"lit_order"`
	Pre       []c30Write        `json:"pre"`
	Post      []c30Write        `json:"post"`
	PreCalls  []c30Call         `json:"pre_calls"`
	PostCalls []c30Call         `json:"post_calls"`
	Panics    []string          `json:"panic_guards"` // conditions under which Reset panics
}

type c30Site struct {
	Field       string `json:"field"` // "*" for a whole-struct overwrite
	Func        string `json:"func"`  // Recv.Name or Name
	File        string `json:"file"`
	Kind        string `json:"kind"` // assign | clear | incdec | literal-new | literal-overwrite | whole | addr
	Base        string `json:"base"` // runner | unknown
	NotDidReset bool   `json:"not_did_reset"`
	InClosure   bool   `json:"in_closure"`
}

func isRunnerType(e ast.Expr) bool {
	if s, ok := e.(*ast.StarExpr); ok {
		e = s.X
	}
	id, ok := e.(*ast.Ident)
	return ok && id.Name == "Runner"
}

// recvFields lists receiver fields mentioned in e.
func recvFields(e ast.Node, recv string) []string {
	seen := map[string]bool{}
	out := []string{}
	ast.Inspect(e, func(n ast.Node) bool {
		if se, ok := n.(*ast.SelectorExpr); ok {
			if id, ok := se.X.(*ast.Ident); ok && id.Name == recv && !seen[se.Sel.Name] {
				seen[se.Sel.Name] = true
				out = append(out, se.Sel.Name)
			}
		}
		return true
	})
	sort.Strings(out)
	return out
}

func recvField(e ast.Expr, recv string) (string, bool) {
	se, ok := e.(*ast.SelectorExpr)
	if !ok {
		return "", false
	}
	id, ok := se.X.(*ast.Ident)
	if !ok || id.Name != recv {
		return "", false
	}
	return se.Sel.Name, true
}

func c30Value(e ast.Expr, recv, target string) c30Val {
	v := c30Val{Text: src(e), Deps: []string{}}
	if f, ok := recvField(e, recv); ok {
		v.Kind, v.Field = "self", f
		return v
	}
	if sl, ok := e.(*ast.SliceExpr); ok && sl.Low == nil && sl.Max == nil && sl.High != nil {
		if bl, ok := sl.High.(*ast.BasicLit); ok && bl.Value == "0" {
			if f, ok := recvField(sl.X, recv); ok {
				v.Kind, v.Field = "self0", f
				return v
			}
		}
	}
	switch x := e.(type) {
	case *ast.Ident:
		if x.Name == "true" || x.Name == "false" || x.Name == "nil" {
			v.Kind, v.Field = "const", x.Name
			return v
		}
	case *ast.BasicLit:
		v.Kind, v.Field = "const", x.Value
		return v
	case *ast.CallExpr:
		if id, ok := x.Fun.(*ast.Ident); ok {
			switch id.Name {
			case "make":
				v.Kind = "make"
				return v
			case "append":
				if len(x.Args) > 0 {
					if f, ok := recvField(x.Args[0], recv); ok {
						v.Kind, v.Field = "appendSelf", f
						for _, a := range x.Args[1:] {
							v.Deps = append(v.Deps, recvFields(a, recv)...)
						}
						return v
					}
				}
			}
		}
	case *ast.UnaryExpr:
		if x.Op == token.AND {
			if _, ok := x.X.(*ast.CompositeLit); ok {
				v.Kind = "fresh"
				v.Deps = recvFields(x.X, recv)
				return v
			}
		}
	case *ast.CompositeLit:
		v.Kind = "fresh"
		v.Deps = recvFields(x, recv)
		return v
	}
	v.Kind = "other"
	v.Deps = recvFields(e, recv)
	return v
}

func c30Guard(cond ast.Expr, recv string, neg bool) string {
	if u, ok := cond.(*ast.UnaryExpr); ok && u.Op == token.NOT {
		if f, ok := recvField(u.X, recv); ok && f == "didReset" && !neg {
			return "notDidReset"
		}
	}
	if b, ok := cond.(*ast.BinaryExpr); ok && (b.Op == token.EQL || b.Op == token.NEQ) {
		if id, ok := b.Y.(*ast.Ident); ok && id.Name == "nil" {
			if f, ok := recvField(b.X, recv); ok {
				isNil := b.Op == token.EQL
				if neg {
					isNil = !isNil
				}
				if isNil {
					return "isNil:" + f
				}
				return "notNil:" + f
			}
		}
	}
	if neg {
		return "else:" + src(cond)
	}
	return "cond:" + src(cond)
}

func stripLHS(e ast.Expr) ast.Expr {
	for {
		switch x := e.(type) {
		case *ast.IndexExpr:
			e = x.X
		case *ast.SliceExpr:
			e = x.X
		case *ast.StarExpr:
			e = x.X
		case *ast.ParenExpr:
			e = x.X
		default:
			return e
		}
	}
}

// c30Scan walks stmts (with guards) and records receiver-field writes and receiver method calls.
func c30Scan(stmts []ast.Stmt, recv string, guards []string, ws *[]c30Write, cs *[]c30Call, panics *[]string) {
	g := func() []string { return append([]string{}, guards...) }
	var expr func(e ast.Node)
	expr = func(e ast.Node) {
		if e == nil {
			return
		}
		ast.Inspect(e, func(n ast.Node) bool {
			switch n := n.(type) {
			case *ast.FuncLit:
				c30Scan(n.Body.List, recv, append(g(), "closure"), ws, cs, panics)
				return false
			case *ast.CallExpr:
				if se, ok := n.Fun.(*ast.SelectorExpr); ok {
					if id, ok := se.X.(*ast.Ident); ok && id.Name == recv {
						*cs = append(*cs, c30Call{se.Sel.Name, g()})
					}
				}
				if id, ok := n.Fun.(*ast.Ident); ok {
					if id.Name == "clear" && len(n.Args) == 1 {
						if f, ok := recvField(stripLHS(n.Args[0]), recv); ok {
							*ws = append(*ws, c30Write{f, "clear", c30Val{Kind: "clear", Deps: []string{}}, g()})
						}
					}
					if id.Name == "panic" {
						*panics = append(*panics, strings.Join(guards, " && "))
					}
				}
			}
			return true
		})
	}
	for _, s := range stmts {
		switch s := s.(type) {
		case *ast.AssignStmt:
			for i, l := range s.Lhs {
				base := stripLHS(l)
				// *recv = … is handled by the caller (the literal); other star writes are "whole"
				if f, ok := recvField(base, recv); ok {
					var v c30Val
					if len(s.Rhs) == len(s.Lhs) {
						v = c30Value(s.Rhs[i], recv, f)
					} else {
						v = c30Val{Kind: "other", Text: src(s), Deps: []string{}}
					}
					if base != l || s.Tok != token.ASSIGN {
						v.Kind = "other" // element/compound assignment
					}
					*ws = append(*ws, c30Write{f, "assign", v, g()})
				}
			}
			for _, r := range s.Rhs {
				expr(r)
			}
		case *ast.IncDecStmt:
			if f, ok := recvField(stripLHS(s.X), recv); ok {
				*ws = append(*ws, c30Write{f, "incdec", c30Val{Kind: "other", Deps: []string{}}, g()})
			}
		case *ast.ExprStmt:
			expr(s.X)
		case *ast.IfStmt:
			if s.Init != nil {
				c30Scan([]ast.Stmt{s.Init}, recv, guards, ws, cs, panics)
			}
			expr(s.Cond)
			c30Scan(s.Body.List, recv, append(g(), c30Guard(s.Cond, recv, false)), ws, cs, panics)
			if s.Else != nil {
				eg := append(g(), c30Guard(s.Cond, recv, true))
				switch e := s.Else.(type) {
				case *ast.BlockStmt:
					c30Scan(e.List, recv, eg, ws, cs, panics)
				default:
					c30Scan([]ast.Stmt{e}, recv, eg, ws, cs, panics)
				}
			}
		case *ast.BlockStmt:
			c30Scan(s.List, recv, guards, ws, cs, panics)
		case *ast.ForStmt:
			expr(s.Cond)
			c30Scan(s.Body.List, recv, append(g(), "loop"), ws, cs, panics)
		case *ast.RangeStmt:
			expr(s.X)
			c30Scan(s.Body.List, recv, append(g(), "loop"), ws, cs, panics)
		case *ast.ReturnStmt:
			for _, r := range s.Results {
				expr(r)
			}
		case *ast.DeclStmt, *ast.EmptyStmt:
		default:
			// any other statement shape: scan it generically for calls, and flag it
			expr(s)
			*ws = append(*ws, c30Write{"?", "unknown-stmt", c30Val{Kind: "other", Text: src(s), Deps: []string{}}, g()})
		}
	}
}

func c30ResetFacts(p *pkgInfo) *c30Reset {
	out := &c30Reset{Literal: map[string]c30Val{}, Pre: []c30Write{}, Post: []c30Write{}, PreCalls: []c30Call{}, PostCalls: []c30Call{}, Panics: []string{}, LitOrder: []string{}}
	fd := p.funcDecl("Runner", "Reset")
	if fd == nil || fd.Recv == nil || len(fd.Recv.List[0].Names) == 0 {
		fail("C30: func (r *Runner) Reset not found")
		return out
	}
	out.Found = true
	recv := fd.Recv.List[0].Names[0].Name
	idx := -1
	for i, s := range fd.Body.List {
		as, ok := s.(*ast.AssignStmt)
		if !ok || len(as.Lhs) != 1 || len(as.Rhs) != 1 {
			continue
		}
		cl, ok := as.Rhs[0].(*ast.CompositeLit)
		if !ok || !isRunnerType(cl.Type) {
			continue
		}
		out.NLiterals++
		if idx >= 0 {
			continue
		}
		idx = i
		if st, ok := as.Lhs[0].(*ast.StarExpr); ok {
			if id, ok := st.X.(*ast.Ident); ok && id.Name == recv {
				out.Whole = true
			}
		}
		for _, el := range cl.Elts {
			kv, ok := el.(*ast.KeyValueExpr)
			if !ok {
				fail("C30: positional element in the Runner literal of Reset")
				continue
			}
			k := src(kv.Key)
			out.Literal[k] = c30Value(kv.Value, recv, k)
			out.LitOrder = append(out.LitOrder, k)
		}
	}
	// Runner literals anywhere deeper in Reset (not top level) would escape the split
	n := 0
	ast.Inspect(fd.Body, func(x ast.Node) bool {
		if cl, ok := x.(*ast.CompositeLit); ok && isRunnerType(cl.Type) {
			n++
		}
		return true
	})
	if n != out.NLiterals {
		out.NLiterals = n
	}
	if idx < 0 {
		fail("C30: Reset has no top-level `*r = Runner{…}` statement")
		return out
	}
	c30Scan(fd.Body.List[:idx], recv, nil, &out.Pre, &out.PreCalls, &out.Panics)
	var ignore []string
	c30Scan(fd.Body.List[idx+1:], recv, nil, &out.Post, &out.PostCalls, &ignore)
	if len(ignore) > 0 {
		out.Panics = append(out.Panics, "post-literal")
	}
	return out
}

// ---- every write site of a Runner field in package interp --------------------------------

type c30Scope struct {
	runner map[string]bool   // identifiers known to hold a *Runner / Runner
	other  map[string]string // identifiers with another known type
}

func (s *c30Scope) clone() *c30Scope {
	n := &c30Scope{map[string]bool{}, map[string]string{}}
	for k, v := range s.runner {
		n.runner[k] = v
	}
	for k, v := range s.other {
		n.other[k] = v
	}
	return n
}

func (s *c30Scope) addParams(fl *ast.FieldList) {
	if fl == nil {
		return
	}
	for _, f := range fl.List {
		for _, nm := range f.Names {
			if isRunnerType(f.Type) {
				s.runner[nm.Name] = true
				delete(s.other, nm.Name)
			} else {
				s.other[nm.Name] = src(f.Type)
				delete(s.runner, nm.Name)
			}
		}
	}
}

// runnerProducer: expressions that yield a Runner
func (s *c30Scope) isRunnerExpr(e ast.Expr) bool {
	switch x := e.(type) {
	case *ast.Ident:
		return s.runner[x.Name]
	case *ast.ParenExpr:
		return s.isRunnerExpr(x.X)
	case *ast.StarExpr:
		return s.isRunnerExpr(x.X)
	case *ast.UnaryExpr:
		if x.Op == token.AND {
			if cl, ok := x.X.(*ast.CompositeLit); ok {
				return isRunnerType(cl.Type)
			}
		}
	case *ast.CompositeLit:
		return isRunnerType(x.Type)
	case *ast.SelectorExpr:
		// hc.runner (HandlerContext), e.r (expandEnv)
		if x.Sel.Name == "runner" {
			return true
		}
		if id, ok := x.X.(*ast.Ident); ok && x.Sel.Name == "r" && s.other[id.Name] == "expandEnv" {
			return true
		}
	case *ast.CallExpr:
		if se, ok := x.Fun.(*ast.SelectorExpr); ok && (se.Sel.Name == "subshell" || se.Sel.Name == "Subshell") {
			return s.isRunnerExpr(se.X)
		}
		if id, ok := x.Fun.(*ast.Ident); ok && id.Name == "New" {
			return true
		}
	}
	return false
}

func (s *c30Scope) knownOther(e ast.Expr) bool {
	switch x := e.(type) {
	case *ast.Ident:
		_, ok := s.other[x.Name]
		return ok
	case *ast.SelectorExpr:
		// a field of something that is not a Runner: only `.runner`/`.r` are Runner-valued
		return !s.isRunnerExpr(x) && false
	}
	return false
}

func c30Sites(p *pkgInfo, fields map[string]bool) []c30Site {
	var out []c30Site
	var names []string
	for n := range p.files {
		names = append(names, n)
	}
	sort.Strings(names)
	for _, fn := range names {
		f := p.files[fn]
		for _, d := range f.Decls {
			fd, ok := d.(*ast.FuncDecl)
			if !ok || fd.Body == nil {
				continue
			}
			fname := fd.Name.Name
			sc := &c30Scope{map[string]bool{}, map[string]string{}}
			recvName := ""
			if fd.Recv != nil && len(fd.Recv.List) > 0 {
				fname = strings.TrimPrefix(src(fd.Recv.List[0].Type), "*") + "." + fname
				sc.addParams(fd.Recv)
				if len(fd.Recv.List[0].Names) > 0 && isRunnerType(fd.Recv.List[0].Type) {
					recvName = fd.Recv.List[0].Names[0].Name
				}
			}
			sc.addParams(fd.Type.Params)
			sc.addParams(fd.Type.Results)
			c30SiteWalk(fd.Body, sc, recvName, fname, filepath.Base(fn), false, false, fields, &out)
		}
	}
	return out
}

func c30SiteWalk(n ast.Node, sc *c30Scope, recv, fname, file string, notDid, inClosure bool, fields map[string]bool, out *[]c30Site) {
	if n == nil {
		return
	}
	add := func(field, kind, base string) {
		*out = append(*out, c30Site{Field: field, Func: fname, File: file, Kind: kind, Base: base, NotDidReset: notDid, InClosure: inClosure})
	}
	write := func(l ast.Expr, kind string) {
		if st, ok := l.(*ast.StarExpr); ok && sc.isRunnerExpr(st.X) {
			add("*", "whole", "runner")
			return
		}
		b := stripLHS(l)
		se, ok := b.(*ast.SelectorExpr)
		if !ok {
			return
		}
		if b != l && kind == "assign" {
			if _, isParen := l.(*ast.ParenExpr); !isParen {
				kind = "assign-elem" // r.F[i] = …, r.F[a:b] …, *r.F = …
			}
		}
		// only the top-level field of the Runner matters: walk down to X.F where X is the base
		for {
			inner, ok := se.X.(*ast.SelectorExpr)
			if !ok || sc.isRunnerExpr(se.X) {
				break
			}
			se = inner
		}
		if !fields[se.Sel.Name] {
			return
		}
		switch {
		case sc.isRunnerExpr(se.X):
			add(se.Sel.Name, kind, "runner")
		case sc.knownOther(se.X):
		default:
			add(se.Sel.Name, kind, "unknown")
		}
	}
	ast.Inspect(n, func(x ast.Node) bool {
		switch x := x.(type) {
		case *ast.FuncLit:
			s2 := sc.clone()
			s2.addParams(x.Type.Params)
			c30SiteWalk(x.Body, s2, recv, fname, file, notDid, true, fields, out)
			return false
		case *ast.IfStmt:
			if x.Init != nil {
				c30SiteWalk(x.Init, sc, recv, fname, file, notDid, inClosure, fields, out)
			}
			c30SiteWalk(x.Cond, sc, recv, fname, file, notDid, inClosure, fields, out)
			g := notDid
			if recv != "" && c30Guard(x.Cond, recv, false) == "notDidReset" {
				g = true
			}
			c30SiteWalk(x.Body, sc, recv, fname, file, g, inClosure, fields, out)
			if x.Else != nil {
				c30SiteWalk(x.Else, sc, recv, fname, file, notDid, inClosure, fields, out)
			}
			return false
		case *ast.AssignStmt:
			for i, l := range x.Lhs {
				if x.Tok == token.DEFINE {
					if id, ok := l.(*ast.Ident); ok && len(x.Rhs) >= 1 {
						var rhs ast.Expr
						if len(x.Rhs) == len(x.Lhs) {
							rhs = x.Rhs[i]
						} else if i == 0 {
							rhs = x.Rhs[0]
						}
						if rhs != nil && sc.isRunnerExpr(rhs) {
							sc.runner[id.Name] = true
							delete(sc.other, id.Name)
						} else if id.Name != "_" {
							delete(sc.runner, id.Name)
							if cl, ok := rhs.(*ast.CompositeLit); ok {
								sc.other[id.Name] = src(cl.Type)
							} else {
								delete(sc.other, id.Name)
							}
						}
					}
					continue
				}
				write(l, "assign")
			}
		case *ast.IncDecStmt:
			write(x.X, "incdec")
		case *ast.CallExpr:
			if id, ok := x.Fun.(*ast.Ident); ok && id.Name == "clear" && len(x.Args) == 1 {
				write(x.Args[0], "clear")
			}
		case *ast.UnaryExpr:
			if x.Op == token.AND {
				if _, ok := x.X.(*ast.CompositeLit); !ok {
					write(x.X, "addr")
				}
			}
		case *ast.CompositeLit:
			if isRunnerType(x.Type) {
				for _, el := range x.Elts {
					if kv, ok := el.(*ast.KeyValueExpr); ok {
						add(src(kv.Key), "literal", "runner")
					}
				}
			}
		case *ast.DeclStmt:
			if gd, ok := x.Decl.(*ast.GenDecl); ok {
				for _, sp := range gd.Specs {
					if vs, ok := sp.(*ast.ValueSpec); ok && vs.Type != nil {
						for _, nm := range vs.Names {
							if isRunnerType(vs.Type) {
								sc.runner[nm.Name] = true
							} else {
								sc.other[nm.Name] = src(vs.Type)
								delete(sc.runner, nm.Name)
							}
						}
					}
				}
			}
		}
		return true
	})
}

func c30Facts(repo string, facts map[string]any) {
	p := loadPkg(filepath.Join(repo, "interp"))
	fields := map[string]bool{}
	var order []string
	for _, f := range p.structs()["Runner"] {
		fields[f.Name] = true
		order = append(order, f.Name)
	}
	if len(order) == 0 {
		fail("C30: struct Runner not found in package interp")
	}
	facts["c30"] = map[string]any{
		"fields": p.structs()["Runner"],
		"reset":  c30ResetFacts(p),
		"sites":  c30Sites(p, fields),
		"run":    c30RunFacts(p),
	}
}

// ---- what Runner.Run itself writes and calls on every call ------------------------------------

type c30Run struct {
	Found  bool       `json:"found"`
	Writes []c30Write `json:"writes"` // receiver-field writes anywhere in Run (with guards)
	Calls  []c30Call  `json:"calls"`  // methods called on the receiver
}

func c30RunFacts(p *pkgInfo) *c30Run {
	out := &c30Run{Writes: []c30Write{}, Calls: []c30Call{}}
	fd := p.funcDecl("Runner", "Run")
	if fd == nil || fd.Recv == nil || len(fd.Recv.List[0].Names) == 0 {
		fail("C30: func (r *Runner) Run not found")
		return out
	}
	out.Found = true
	recv := fd.Recv.List[0].Names[0].Name
	var panics []string
	var scan func(stmts []ast.Stmt, guards []string)
	scan = func(stmts []ast.Stmt, guards []string) {
		// c30Scan does not descend into switch statements: unfold them here
		for _, st := range stmts {
			switch x := st.(type) {
			case *ast.TypeSwitchStmt:
				for _, cc := range x.Body.List {
					scan(cc.(*ast.CaseClause).Body, append(append([]string{}, guards...), "switch"))
				}
			case *ast.SwitchStmt:
				for _, cc := range x.Body.List {
					scan(cc.(*ast.CaseClause).Body, append(append([]string{}, guards...), "switch"))
				}
			default:
				c30Scan([]ast.Stmt{st}, recv, guards, &out.Writes, &out.Calls, &panics)
			}
		}
	}
	scan(fd.Body.List, nil)
	return out
}
