package main

// C06 facts (key "c06"): every index and slice expression of the code that consumes syntax trees
// (syntax/nodes.go, printer.go, simplify.go, walk.go, typedjson/json.go), with the syntactic
// evidence that dominates it:
//   base, index:  source text of the indexed expression and of the index
//   kind:         first (X[0]) | last (X[len(X)-1]) | const (X[3]) | var (anything else) | slice
//   evidence:     conditions known to hold at the site — conditions of enclosing if/for/case in
//                 positive position, negated conditions of else branches and of earlier
//                 `if cond { return|continue|break|panic }` statements of enclosing blocks, left
//                 operands of && (positive) and || (negated) the site is the right operand of,
//                 and `range X` of enclosing range loops
//   guard:        range  — the index is the key variable of an enclosing `for i := range <base>`
//                 len    — some evidence mentions len(<base>) (the length of that very slice was
//                          tested on every path to the site)
//                 trivial — x[:0];  map — string-literal key;  generic — reflect.TypeAssert[T]
//                 none   — none of these
// Purely syntactic; no attempt is made to evaluate the conditions.

import (
	"go/ast"
	"go/token"
	"sort"
	"strings"
)

func init() { extraFacts = append(extraFacts, c06Facts) }

type c06Site struct {
	File     string   `json:"file"`
	Func     string   `json:"func"`
	Line     int      `json:"line"`
	Base     string   `json:"base"`
	Index    string   `json:"index"`
	Kind     string   `json:"kind"`
	Guard    string   `json:"guard"`
	Evidence []string `json:"evidence"`
}

func c06Terminates(b *ast.BlockStmt) bool {
	if b == nil || len(b.List) == 0 {
		return false
	}
	switch s := b.List[len(b.List)-1].(type) {
	case *ast.ReturnStmt:
		return true
	case *ast.BranchStmt:
		return s.Tok == token.CONTINUE || s.Tok == token.BREAK || s.Tok == token.GOTO
	case *ast.ExprStmt:
		if c, ok := s.X.(*ast.CallExpr); ok {
			if id, ok := c.Fun.(*ast.Ident); ok && id.Name == "panic" {
				return true
			}
		}
	}
	return false
}

func c06Contains(n ast.Node, pos token.Pos) bool {
	return n != nil && n.Pos() <= pos && pos < n.End()
}

// c06Evidence collects the conditions dominating the node at the end of path.
func c06Evidence(path []ast.Node) (ev []string, ranges map[string]string) {
	ranges = map[string]string{} // key variable → ranged expression
	site := path[len(path)-1]
	sp := site.Pos()
	for i := 0; i < len(path)-1; i++ {
		switch n := path[i].(type) {
		case *ast.IfStmt:
			if c06Contains(n.Body, sp) {
				ev = append(ev, src(n.Cond))
			} else if n.Else != nil && c06Contains(n.Else, sp) {
				ev = append(ev, "!("+src(n.Cond)+")")
			}
		case *ast.ForStmt:
			if n.Cond != nil && (c06Contains(n.Body, sp) || (n.Post != nil && c06Contains(n.Post, sp))) {
				ev = append(ev, src(n.Cond))
			}
		case *ast.RangeStmt:
			if c06Contains(n.Body, sp) {
				ev = append(ev, "range "+src(n.X))
				if id, ok := n.Key.(*ast.Ident); ok {
					ranges[id.Name] = src(n.X)
				}
			}
		case *ast.BinaryExpr:
			if c06Contains(n.Y, sp) {
				if n.Op == token.LAND {
					ev = append(ev, src(n.X))
				} else if n.Op == token.LOR {
					ev = append(ev, "!("+src(n.X)+")")
				}
			}
		case *ast.CaseClause:
			// tagless switch: the case conditions
			if i > 1 {
				if sw, ok := path[i-2].(*ast.SwitchStmt); ok && sw.Tag == nil && len(n.List) == 1 {
					inBody := false
					for _, st := range n.Body {
						if c06Contains(st, sp) {
							inBody = true
						}
					}
					if inBody {
						ev = append(ev, src(n.List[0]))
					}
				}
			}
		}
		// earlier terminating ifs of enclosing statement lists
		var stmts []ast.Stmt
		switch b := path[i].(type) {
		case *ast.BlockStmt:
			stmts = b.List
		case *ast.CaseClause:
			stmts = b.Body
		}
		for _, st := range stmts {
			if st.End() > sp {
				break
			}
			if is, ok := st.(*ast.IfStmt); ok && is.Else == nil && c06Terminates(is.Body) {
				ev = append(ev, "!("+src(is.Cond)+")")
			}
		}
	}
	return ev, ranges
}

func c06IsString(e ast.Expr) bool {
	bl, ok := e.(*ast.BasicLit)
	return ok && bl.Kind == token.STRING
}

func c06Facts(repo string, facts map[string]any) {
	type target struct {
		pkg   *pkgInfo
		files []string
		pre   string
	}
	syn := loadPkg(repo + "/syntax")
	tj := loadPkg(repo + "/syntax/typedjson")
	targets := []target{{syn, []string{"nodes.go", "printer.go", "simplify.go", "walk.go"}, ""}, {tj, []string{"json.go"}, "typedjson/"}}
	var sites []c06Site
	for _, tg := range targets {
		for _, fn := range tg.files {
			f := tg.pkg.files[fn]
			if f == nil {
				fail("C06: file " + tg.pre + fn + " not found")
				continue
			}
			for _, d := range f.Decls {
				fd, ok := d.(*ast.FuncDecl)
				if !ok || fd.Body == nil {
					continue
				}
				fname := fd.Name.Name
				if fd.Recv != nil && len(fd.Recv.List) > 0 {
					fname = strings.TrimPrefix(src(fd.Recv.List[0].Type), "*") + "." + fname
				}
				var path []ast.Node
				ast.Inspect(fd.Body, func(n ast.Node) bool {
					if n == nil {
						path = path[:len(path)-1]
						return true
					}
					path = append(path, n)
					var base, index ast.Expr
					kind := ""
					switch x := n.(type) {
					case *ast.IndexExpr:
						base, index = x.X, x.Index
					case *ast.SliceExpr:
						if x.Low == nil && x.High == nil {
							return true
						}
						base = x.X
						kind = "slice"
					default:
						return true
					}
					s := c06Site{File: tg.pre + fn, Func: fname, Line: fset.Position(n.Pos()).Line, Base: src(base)}
					if kind == "slice" {
						x := n.(*ast.SliceExpr)
						lo, hi := "", ""
						if x.Low != nil {
							lo = src(x.Low)
						}
						if x.High != nil {
							hi = src(x.High)
						}
						s.Index = lo + ":" + hi
						s.Kind = "slice"
					} else {
						s.Index = src(index)
						switch {
						case s.Index == "0":
							s.Kind = "first"
						case s.Index == "len("+s.Base+")-1" || s.Index == "len("+s.Base+") - 1":
							s.Kind = "last"
						default:
							if bl, ok := index.(*ast.BasicLit); ok && bl.Kind == token.INT {
								s.Kind = "const"
							} else {
								s.Kind = "var"
							}
						}
					}
					ev, ranges := c06Evidence(path)
					s.Evidence = ev
					s.Guard = "none"
					keyOf := func(e ast.Expr) bool {
						id, ok := e.(*ast.Ident)
						return ok && ranges[id.Name] == s.Base
					}
					switch {
					case s.Base == "reflect.TypeAssert":
						s.Guard = "generic" // explicit type instantiation, not an index
					case s.Kind == "slice" && s.Index == ":0":
						s.Guard = "trivial" // x[:0] is in range for every slice
					case s.Kind != "slice" && index != nil && c06IsString(index):
						s.Guard = "map" // a string-literal key: a map lookup never panics
					case s.Kind != "slice" && index != nil && keyOf(index):
						s.Guard = "range"
					case s.Kind == "slice" && n.(*ast.SliceExpr).High == nil && n.(*ast.SliceExpr).Low != nil && keyOf(n.(*ast.SliceExpr).Low):
						s.Guard = "range"
					default:
						for _, e := range ev {
							if strings.Contains(e, "len("+s.Base+")") || strings.Contains(e, s.Base+" != \"\"") {
								s.Guard = "len"
							}
						}
					}
					sites = append(sites, s)
					return true
				})
			}
		}
	}
	sort.SliceStable(sites, func(i, j int) bool {
		if sites[i].File != sites[j].File {
			return sites[i].File < sites[j].File
		}
		return sites[i].Line < sites[j].Line
	})
	if len(sites) < 20 {
		fail("C06: fewer than 20 index sites found (scan broken?)")
	}
	facts["c06"] = map[string]any{"index_sites": sites}
}
