package main

// C03 facts (key "c03"): every selector expression in packages interp and expand whose field name
// is one of the *cosmetic* fields of syntax nodes — the fields that formatting is allowed to
// change (Backquotes, Bracket, Braces, Short, TempFile/ReplyVar stay semantic and are NOT here),
// every comment field, and every Pos-typed field.  Purely syntactic (match by field name), so it
// over-approximates; the Lean side compares with an allow-list.

import (
	"go/ast"
	"path/filepath"
	"sort"
	"strings"
)

func init() { extraFacts = append(extraFacts, c03Facts) }

type c03Use struct {
	Pkg   string `json:"pkg"`
	File  string `json:"file"`
	Func  string `json:"func"`
	Field string `json:"field"`
	Kind  string `json:"kind"` // flag | comment | pos
	Line  int    `json:"line"`
	Ctx   string `json:"ctx"` // source text of the selector's base
}

func c03Facts(repo string, facts map[string]any) {
	syn := loadPkg(filepath.Join(repo, "syntax"))
	kinds := map[string]string{}
	for _, f := range []string{"Backquotes", "Bracket", "Braces", "Short"} {
		kinds[f] = "flag"
	}
	nodeStructs := syn.structs()
	meth := syn.methods()
	for t, fields := range nodeStructs {
		isNode := false
		for _, m := range meth[t] {
			if m == "Pos" {
				isNode = true
			}
		}
		if !isNode && t != "Slice" && t != "Replace" && t != "Expansion" {
			continue
		}
		for _, f := range fields {
			if !f.Exported {
				continue
			}
			if f.Type == "[]Comment" {
				kinds[f.Name] = "comment"
			}
			if f.Type == "Pos" {
				if _, ok := kinds[f.Name]; !ok {
					kinds[f.Name] = "pos"
				}
			}
		}
	}
	var uses []c03Use
	for _, pk := range []string{"interp", "expand"} {
		p := loadPkg(filepath.Join(repo, pk))
		names := []string{}
		for n := range p.files {
			names = append(names, n)
		}
		sort.Strings(names)
		for _, fn := range names {
			for _, d := range p.files[fn].Decls {
				fd, ok := d.(*ast.FuncDecl)
				if !ok || fd.Body == nil {
					continue
				}
				fname := fd.Name.Name
				if fd.Recv != nil && len(fd.Recv.List) > 0 {
					fname = strings.TrimPrefix(src(fd.Recv.List[0].Type), "*") + "." + fname
				}
				ast.Inspect(fd.Body, func(n ast.Node) bool {
					se, ok := n.(*ast.SelectorExpr)
					if !ok {
						return true
					}
					k, ok := kinds[se.Sel.Name]
					if !ok {
						return true
					}
					uses = append(uses, c03Use{Pkg: pk, File: fn, Func: fname, Field: se.Sel.Name, Kind: k, Line: fset.Position(se.Pos()).Line, Ctx: src(se.X)})
					return true
				})
			}
		}
	}
	var ks []string
	for k, v := range kinds {
		ks = append(ks, k+":"+v)
	}
	sort.Strings(ks)
	facts["c03"] = map[string]any{"uses": uses, "fields": ks}
}
