package main

// C31 facts (key "c31"): every potentially blocking operation in package interp (files that build on
// linux), with its enclosing function: channel receives, select, .Wait(), io.Copy, .Read(),
// os.OpenFile, bufio.Scanner.Scan, term.ReadPassword, Parse on a file, writes to a writer
// (io.WriteString, fmt.Fprint*, .Write) — and where package interp consults the context
// (stop() call sites, ctx.Err/ctx.Done, context.AfterFunc, exec.CommandContext).

import (
	"go/ast"
	"go/build/constraint"
	"go/token"
	"path/filepath"
	"sort"
	"strings"
)

func init() { extraFacts = append(extraFacts, c31Facts) }

type c31Block struct {
	File    string `json:"file"`
	Func    string `json:"func"`
	Kind    string `json:"kind"`
	Operand string `json:"operand"`
	Count   int    `json:"count"`
	Line    int    `json:"line"`
}

type c31Ctx struct {
	File string `json:"file"`
	Func string `json:"func"`
	Kind string `json:"kind"` // stop-call | ctx.Err | ctx.Done | AfterFunc | CommandContext | SetReadDeadline
}

func c31BuildsOnLinux(f *ast.File, name string) bool {
	for _, suf := range []string{"_windows.go", "_darwin.go", "_js.go", "_plan9.go", "_wasm.go"} {
		if strings.HasSuffix(name, suf) {
			return false
		}
	}
	tags := map[string]bool{"linux": true, "unix": true, "amd64": true, "gc": true, "cgo": true}
	for _, cg := range f.Comments {
		if cg.Pos() > f.Package {
			break
		}
		for _, c := range cg.List {
			if !constraint.IsGoBuild(c.Text) {
				continue
			}
			x, err := constraint.Parse(c.Text)
			if err != nil {
				continue
			}
			if !x.Eval(func(tag string) bool { return tags[tag] || strings.HasPrefix(tag, "go1.") }) {
				return false
			}
		}
	}
	return true
}

func c31IsReaderCtor(e ast.Expr) bool {
	call, ok := e.(*ast.CallExpr)
	if !ok {
		return false
	}
	s := src(call.Fun)
	return s == "strings.NewReader" || s == "bytes.NewReader"
}

func c31Facts(repo string, facts map[string]any) {
	p := loadPkg(filepath.Join(repo, "interp"))
	var names []string
	for n := range p.files {
		names = append(names, n)
	}
	sort.Strings(names)
	agg := map[string]*c31Block{}
	var order []string
	var ctxs []c31Ctx
	var skipped []string
	add := func(file, fn, kind, operand string, pos token.Pos) {
		key := fn + "|" + kind + "|" + operand
		if b, ok := agg[key]; ok {
			b.Count++
			return
		}
		agg[key] = &c31Block{File: file, Func: fn, Kind: kind, Operand: operand, Count: 1, Line: fset.Position(pos).Line}
		order = append(order, key)
	}
	for _, fn := range names {
		f := p.files[fn]
		if !c31BuildsOnLinux(f, fn) {
			skipped = append(skipped, fn)
			continue
		}
		for _, d := range f.Decls {
			fd, ok := d.(*ast.FuncDecl)
			if !ok || fd.Body == nil {
				continue
			}
			fname := fd.Name.Name
			if fd.Recv != nil && len(fd.Recv.List) > 0 {
				fname = strings.TrimPrefix(src(fd.Recv.List[0].Type), "*") + "." + fname
			}
			var walk func(n ast.Node, where string)
			walk = func(n ast.Node, where string) {
				ast.Inspect(n, func(x ast.Node) bool {
					switch x := x.(type) {
					case *ast.GoStmt:
						if fl, ok := x.Call.Fun.(*ast.FuncLit); ok {
							walk(fl.Body, fname+"+go")
							for _, a := range x.Call.Args {
								walk(a, where)
							}
							return false
						}
					case *ast.FuncLit:
						w := where
						if !strings.Contains(w, "+") {
							w = fname + "+closure"
						}
						walk(x.Body, w)
						return false
					case *ast.SelectStmt:
						add(fn, where, "select", "", x.Pos())
					case *ast.UnaryExpr:
						if x.Op == token.ARROW {
							add(fn, where, "chan-recv", src(x.X), x.Pos())
						}
					case *ast.RangeStmt:
						// `for range ch` cannot be told from a slice syntactically; ignored
					case *ast.CallExpr:
						fun := src(x.Fun)
						switch fun {
						case "io.Copy":
							if len(x.Args) == 2 {
								add(fn, where, "copy", src(x.Args[0])+"<-"+src(x.Args[1]), x.Pos())
							}
						case "os.OpenFile":
							op := ""
							if len(x.Args) >= 2 {
								op = src(x.Args[0]) + "," + src(x.Args[1])
							}
							add(fn, where, "openfile", op, x.Pos())
						case "os.Open", "os.Create", "os.ReadFile", "io.ReadAll", "io.ReadFull":
							op := ""
							if len(x.Args) >= 1 {
								op = src(x.Args[0])
							}
							add(fn, where, "read", fun+":"+op, x.Pos())
						case "term.ReadPassword":
							add(fn, where, "readpassword", "", x.Pos())
						case "io.WriteString", "fmt.Fprintf", "fmt.Fprintln", "fmt.Fprint":
							if len(x.Args) >= 1 {
								add(fn, where, "write", src(x.Args[0]), x.Pos())
							}
						case "time.Sleep":
							add(fn, where, "sleep", "", x.Pos())
						case "context.AfterFunc":
							ctxs = append(ctxs, c31Ctx{fn, where, "AfterFunc"})
						case "exec.CommandContext":
							ctxs = append(ctxs, c31Ctx{fn, where, "CommandContext"})
						}
						if se, ok := x.Fun.(*ast.SelectorExpr); ok {
							recv := src(se.X)
							switch se.Sel.Name {
							case "Wait":
								add(fn, where, "wait", recv, x.Pos())
							case "Read":
								if len(x.Args) == 1 {
									add(fn, where, "read", recv, x.Pos())
								}
							case "Write":
								if len(x.Args) == 1 {
									add(fn, where, "write", recv, x.Pos())
								}
							case "Scan":
								if len(x.Args) == 0 {
									add(fn, where, "scan", recv, x.Pos())
								}
							case "Parse":
								if len(x.Args) == 2 && !c31IsReaderCtor(x.Args[0]) {
									add(fn, where, "parse", src(x.Args[0]), x.Pos())
								}
							case "Accept", "ReadString", "ReadLine", "ReadBytes", "Lock", "RLock", "Acquire":
								add(fn, where, "other:"+se.Sel.Name, recv, x.Pos())
							case "stop":
								ctxs = append(ctxs, c31Ctx{fn, where, "stop-call"})
							case "Err", "Done":
								if id, ok := se.X.(*ast.Ident); ok && id.Name == "ctx" {
									ctxs = append(ctxs, c31Ctx{fn, where, "ctx." + se.Sel.Name})
								}
							case "SetReadDeadline":
								ctxs = append(ctxs, c31Ctx{fn, where, "SetReadDeadline"})
							}
						}
					}
					return true
				})
			}
			walk(fd.Body, fname)
		}
	}
	blocks := make([]c31Block, 0, len(order))
	for _, k := range order {
		blocks = append(blocks, *agg[k])
	}
	if len(blocks) == 0 {
		fail("C31: no blocking operation found in package interp (scan broken?)")
	}
	facts["c31"] = map[string]any{"blocks": blocks, "ctx": ctxs, "skipped_files": skipped}
}
