package main

// C31 facts (key "c31"): every potentially blocking operation in package interp (files that build on
// linux), with its enclosing function: channel receives, select, .Wait(), io.Copy, .Read(),
// os.OpenFile, bufio.Scanner.Scan, term.ReadPassword, Parse on a file, writes to a writer
// (io.WriteString, fmt.Fprint*, .Write) — and where package interp consults the context
// (stop() call sites, ctx.Err/ctx.Done, context.AfterFunc, exec.CommandContext).

import (
	"go/ast"
	"go/build/constraint"
	"go/token"
	"path/filepath"
	"sort"
	"strings"
)

func init() { extraFacts = append(extraFacts, c31Facts) }

type c31Block struct {
	File    string `json:"file"`
	Func    string `json:"func"`
	Kind    string `json:"kind"`
	Operand string `json:"operand"`
	Count   int    `json:"count"`
	Line    int    `json:"line"`
}

type c31Ctx struct {
	File string `json:"file"`
	Func string `json:"func"`
	Kind string `json:"kind"` // stop-call | ctx.Err | ctx.Done | AfterFunc | CommandContext | SetReadDeadline
}

func c31BuildsOnLinux(f *ast.File, name string) bool {
	for _, suf := range []string{"_windows.go", "_darwin.go", "_js.go", "_plan9.go", "_wasm.go"} {
		if strings.HasSuffix(name, suf) {
			return false
		}
	}
	tags := map[string]bool{"linux": true, "unix": true, "amd64": true, "gc": true, "cgo": true}
	for _, cg := range f.Comments {
		if cg.Pos() > f.Package {
			break
		}
		for _, c := range cg.List {
			if !constraint.IsGoBuild(c.Text) {
				continue
			}
			x, err := constraint.Parse(c.Text)
			if err != nil {
				continue
			}
			if !x.Eval(func(tag string) bool { return tags[tag] || strings.HasPrefix(tag, "go1.") }) {
				return false
			}
		}
	}
	return true
}

func c31IsReaderCtor(e ast.Expr) bool {
	call, ok := e.(*ast.CallExpr)
	if !ok {
		return false
	}
	s := src(call.Fun)
	return s == "strings.NewReader" || s == "bytes.NewReader"
}

func c31Facts(repo string, facts map[string]any) {
	p := loadPkg(filepath.Join(repo, "interp"))
	var names []string
	for n := range p.files {
		names = append(names, n)
	}
	sort.Strings(names)
	agg := map[string]*c31Block{}
	var order []string
	var ctxs []c31Ctx
	var skipped []string
	add := func(file, fn, kind, operand string, pos token.Pos) {
		key := fn + "|" + kind + "|" + operand
		if b, ok := agg[key]; ok {
			b.Count++
			return
		}
		agg[key] = &c31Block{File: file, Func: fn, Kind: kind, Operand: operand, Count: 1, Line: fset.Position(pos).Line}
		order = append(order, key)
	}
	for _, fn := range names {
		f := p.files[fn]
		if !c31BuildsOnLinux(f, fn) {
			skipped = append(skipped, fn)
			continue
		}
		for _, d := range f.Decls {
			fd, ok := d.(*ast.FuncDecl)
			if !ok || fd.Body == nil {
				continue
			}
			fname := fd.Name.Name
			if fd.Recv != nil && len(fd.Recv.List) > 0 {
				fname = strings.TrimPrefix(src(fd.Recv.List[0].Type), "*") + "." + fname
			}
			var walk func(n ast.Node, where string)
			walk = func(n ast.Node, where string) {
				ast.Inspect(n, func(x ast.Node) bool {
					switch x := x.(type) {
					case *ast.GoStmt:
						if fl, ok := x.Call.Fun.(*ast.FuncLit); ok {
							walk(fl.Body, fname+"+go")
							for _, a := range x.Call.Args {
								walk(a, where)
							}
							return false
						}
					case *ast.FuncLit:
						w := where
						if !strings.Contains(w, "+") {
							w = fname + "+closure"
						}
						walk(x.Body, w)
						return false
					case *ast.SelectStmt:
						add(fn, where, "select", "", x.Pos())
					case *ast.UnaryExpr:
						if x.Op == token.ARROW {
							add(fn, where, "chan-recv", src(x.X), x.Pos())
						}
					case *ast.AssignStmt:
						// cmd.Stdin = <file>: os/exec calls Fd() on an *os.File it hands to a child
						for _, l := range x.Lhs {
							if se, ok := l.(*ast.SelectorExpr); ok && se.Sel.Name == "Stdin" {
								if id, ok := se.X.(*ast.Ident); ok && id.Name == "cmd" {
									ctxs = append(ctxs, c31Ctx{fn, where, "exec-stdin"})
								}
							}
						}
					case *ast.RangeStmt:
						// `for range ch` cannot be told from a slice syntactically; ignored
					case *ast.CallExpr:
						fun := src(x.Fun)
						switch fun {
						case "io.Copy":
							if len(x.Args) == 2 {
								add(fn, where, "copy", src(x.Args[0])+"<-"+src(x.Args[1]), x.Pos())
							}
						case "os.OpenFile":
							op := ""
							if len(x.Args) >= 2 {
								op = src(x.Args[0]) + "," + src(x.Args[1])
							}
							add(fn, where, "openfile", op, x.Pos())
						case "os.Open", "os.Create", "os.ReadFile", "io.ReadAll", "io.ReadFull":
							op := ""
							if len(x.Args) >= 1 {
								op = src(x.Args[0])
							}
							add(fn, where, "read", fun+":"+op, x.Pos())
						case "term.ReadPassword":
							add(fn, where, "readpassword", "", x.Pos())
						case "io.WriteString", "fmt.Fprintf", "fmt.Fprintln", "fmt.Fprint":
							if len(x.Args) >= 1 {
								add(fn, where, "write", src(x.Args[0]), x.Pos())
							}
						case "time.Sleep":
							add(fn, where, "sleep", "", x.Pos())
						case "context.AfterFunc":
							ctxs = append(ctxs, c31Ctx{fn, where, "AfterFunc"})
						case "exec.CommandContext":
							ctxs = append(ctxs, c31Ctx{fn, where, "CommandContext"})
						}
						if se, ok := x.Fun.(*ast.SelectorExpr); ok {
							recv := src(se.X)
							switch se.Sel.Name {
							case "Wait":
								add(fn, where, "wait", recv, x.Pos())
							case "Read":
								if len(x.Args) == 1 {
									add(fn, where, "read", recv, x.Pos())
								}
							case "Write":
								if len(x.Args) == 1 {
									add(fn, where, "write", recv, x.Pos())
								}
							case "Scan":
								if len(x.Args) == 0 {
									add(fn, where, "scan", recv, x.Pos())
								}
							case "Parse":
								if len(x.Args) == 2 && !c31IsReaderCtor(x.Args[0]) {
									add(fn, where, "parse", src(x.Args[0]), x.Pos())
								}
							case "Accept", "ReadString", "ReadLine", "ReadBytes", "Lock", "RLock", "Acquire":
								add(fn, where, "other:"+se.Sel.Name, recv, x.Pos())
							case "stop":
								ctxs = append(ctxs, c31Ctx{fn, where, "stop-call"})
							case "Err", "Done":
								if id, ok := se.X.(*ast.Ident); ok && id.Name == "ctx" {
									ctxs = append(ctxs, c31Ctx{fn, where, "ctx." + se.Sel.Name})
								}
							case "SetReadDeadline":
								ctxs = append(ctxs, c31Ctx{fn, where, "SetReadDeadline"})
						case "Fd":
							// os.File.Fd puts the file into blocking mode: read deadlines stop working
							if len(x.Args) == 0 {
								kind := "Fd-call" // ":chardev-only" = the function tests ModeCharDevice before this call
								ast.Inspect(fd.Body, func(y ast.Node) bool {
									if se2, ok := y.(*ast.SelectorExpr); ok && se2.Sel.Name == "ModeCharDevice" && se2.Pos() < x.Pos() {
										kind = "Fd-call:chardev-only"
									}
									return true
								})
								ctxs = append(ctxs, c31Ctx{fn, where, kind})
							}
							}
						}
					}
					return true
				})
			}
			walk(fd.Body, fname)
		}
	}
	blocks := make([]c31Block, 0, len(order))
	for _, k := range order {
		blocks = append(blocks, *agg[k])
	}
	if len(blocks) == 0 {
		fail("C31: no blocking operation found in package interp (scan broken?)")
	}
	facts["c31"] = map[string]any{"blocks": blocks, "ctx": ctxs, "skipped_files": skipped}
}

// ---- context capture of the long-lived expansion callbacks ------------------------------------
//
// fillExpandConfig builds closures (CmdSubst, ProcSubst, …) that live in r.ecfg.  Which context do
// they use: the `ctx` parameter of the fillExpandConfig call that built them ("param"), or a Runner
// field that Run refreshes ("field:ectx")?  And who calls fillExpandConfig, conditionally or not,
// with which argument?  (C31 obligation `ctx_capture`.)

type c31FillCall struct {
	Func        string `json:"func"`
	Conditional bool   `json:"conditional"` // inside an if/for/switch/select/closure of the caller
	Arg         string `json:"arg"`         // param (a context parameter of the caller) | field:<name> | other:<src>
}

type c31Callback struct {
	Func   string `json:"func"`   // constructor
	Name   string `json:"name"`   // key in the composite literal / assigned field
	Source string `json:"source"` // param | field:ectx | both | none
}

func c31CtxParams(fd *ast.FuncDecl) map[string]bool {
	out := map[string]bool{}
	if fd.Type.Params == nil {
		return out
	}
	for _, f := range fd.Type.Params.List {
		if src(f.Type) == "context.Context" {
			for _, n := range f.Names {
				out[n.Name] = true
			}
		}
	}
	return out
}

func c31CaptureFacts(p *pkgInfo) ([]c31FillCall, []c31Callback) {
	var calls []c31FillCall
	var cbs []c31Callback
	var names []string
	for n := range p.files {
		names = append(names, n)
	}
	sort.Strings(names)
	for _, fn := range names {
		f := p.files[fn]
		if !c31BuildsOnLinux(f, fn) {
			continue
		}
		for _, d := range f.Decls {
			fd, ok := d.(*ast.FuncDecl)
			if !ok || fd.Body == nil {
				continue
			}
			fname := fd.Name.Name
			recv := ""
			if fd.Recv != nil && len(fd.Recv.List) > 0 {
				fname = strings.TrimPrefix(src(fd.Recv.List[0].Type), "*") + "." + fname
				if len(fd.Recv.List[0].Names) > 0 {
					recv = fd.Recv.List[0].Names[0].Name
				}
			}
			params := c31CtxParams(fd)
			// calls of fillExpandConfig, with nesting
			var walk func(n ast.Node, cond bool)
			walk = func(n ast.Node, cond bool) {
				ast.Inspect(n, func(x ast.Node) bool {
					switch x := x.(type) {
					case *ast.IfStmt:
						if x.Init != nil {
							walk(x.Init, cond)
						}
						walk(x.Cond, cond)
						walk(x.Body, true)
						if x.Else != nil {
							walk(x.Else, true)
						}
						return false
					case *ast.ForStmt, *ast.RangeStmt, *ast.SwitchStmt, *ast.TypeSwitchStmt, *ast.SelectStmt, *ast.FuncLit:
						if x != n {
							walk2 := x
							ast.Inspect(walk2, func(y ast.Node) bool {
								if y == walk2 {
									return true
								}
								if y != nil {
									walk(y, true)
								}
								return false
							})
							return false
						}
					case *ast.CallExpr:
						if se, ok := x.Fun.(*ast.SelectorExpr); ok && se.Sel.Name == "fillExpandConfig" && len(x.Args) == 1 {
							arg := "other:" + src(x.Args[0])
							switch a := x.Args[0].(type) {
							case *ast.Ident:
								if params[a.Name] {
									arg = "param"
								}
							case *ast.SelectorExpr:
								arg = "field:" + a.Sel.Name
							}
							calls = append(calls, c31FillCall{fname, cond, arg})
						}
					}
					return true
				})
			}
			walk(fd.Body, false)
			// callbacks built by a constructor that takes a context parameter and stores closures
			if len(params) == 0 || recv == "" {
				continue
			}
			classify := func(fl *ast.FuncLit) string {
				usesParam, usesField := false, false
				shadow := map[string]bool{}
				if fl.Type.Params != nil {
					for _, pf := range fl.Type.Params.List {
						for _, n := range pf.Names {
							shadow[n.Name] = true
						}
					}
				}
				ast.Inspect(fl.Body, func(y ast.Node) bool {
					switch y := y.(type) {
					case *ast.Ident:
						if params[y.Name] && !shadow[y.Name] {
							usesParam = true
						}
					case *ast.SelectorExpr:
						if id, ok := y.X.(*ast.Ident); ok && id.Name == recv && y.Sel.Name == "ectx" {
							usesField = true
						}
					}
					return true
				})
				switch {
				case usesParam && usesField:
					return "both"
				case usesParam:
					return "param"
				case usesField:
					return "field:ectx"
				}
				return "none"
			}
			ast.Inspect(fd.Body, func(x ast.Node) bool {
				switch x := x.(type) {
				case *ast.KeyValueExpr:
					if fl, ok := x.Value.(*ast.FuncLit); ok {
						cbs = append(cbs, c31Callback{fname, src(x.Key), classify(fl)})
						return false
					}
				case *ast.AssignStmt:
					for i, r := range x.Rhs {
						if fl, ok := r.(*ast.FuncLit); ok && i < len(x.Lhs) {
							if _, isSel := x.Lhs[i].(*ast.SelectorExpr); isSel {
								cbs = append(cbs, c31Callback{fname, src(x.Lhs[i]), classify(fl)})
							}
						}
					}
				}
				return true
			})
		}
	}
	return calls, cbs
}

func init() {
	extraFacts = append(extraFacts, func(repo string, facts map[string]any) {
		p := loadPkg(filepath.Join(repo, "interp"))
		calls, cbs := c31CaptureFacts(p)
		if len(calls) == 0 {
			fail("C31: no call of fillExpandConfig found")
		}
		facts["c31capture"] = map[string]any{"fill_calls": calls, "callbacks": cbs}
	})
}
