package main

// C11 facts (key "c11"): language-variant guards of the parser and lexer.
//   sets:       named LangVariant set constants resolved to explicit variant lists
//   guards:     every checkLang(pos, S, …) call and every <x>.lang.in(S) test, with S resolved
//   sites:      every composite literal of a syntax node struct, with the guard sets in scope:
//               lang.in conditions of enclosing if/case in positive position, and checkLang calls
//               earlier in the same function
//   recover:    every recoverError() call and the shape of its context
// Purely syntactic.

import (
	"go/ast"
	"go/token"
	"path/filepath"
	"sort"
	"strings"
)

func init() { extraFacts = append(extraFacts, c11Facts) }

type c11Guard struct {
	Kind    string   `json:"kind"` // checkLang | in
	File    string   `json:"file"`
	Func    string   `json:"func"`
	Line    int      `json:"line"`
	SetText string   `json:"set_text"`
	Set     []string `json:"set"`     // resolved variants, sorted; ["?"] when unresolved
	Feature string   `json:"feature"` // checkLang format string
	Negated bool     `json:"negated"` // `!p.lang.in(S)`
}

type c11Site struct {
	Type    string     `json:"type"`
	File    string     `json:"file"`
	Func    string     `json:"func"`
	Line    int        `json:"line"`
	Flags   []string   `json:"flags"`  // keyed fields set in the literal
	Guards  [][]string `json:"guards"` // resolved sets in scope (positive position)
	GuardTx []string   `json:"guard_text"`
}

type c11Call struct {
	Caller  string     `json:"caller"`
	Callee  string     `json:"callee"`
	File    string     `json:"file"`
	Line    int        `json:"line"`
	Guards  [][]string `json:"guards"`
	GuardTx []string   `json:"guard_text"`
}

type c11Recover struct {
	File  string `json:"file"`
	Func  string `json:"func"`
	Line  int    `json:"line"`
	Shape string `json:"shape"` // if-cond | if-cond-and | other
	Else  string `json:"else"`  // what follows when recovery is not possible: "error" when the if has an else/fallthrough that raises an error
}

func c11ResolveSets(p *pkgInfo) map[string][]string {
	base := map[string]bool{}
	exprs := map[string]ast.Expr{}
	for _, f := range p.files {
		for _, d := range f.Decls {
			gd, ok := d.(*ast.GenDecl)
			if !ok || gd.Tok != token.CONST {
				continue
			}
			typed := false
			for _, s := range gd.Specs {
				vs := s.(*ast.ValueSpec)
				if vs.Type != nil {
					typed = src(vs.Type) == "LangVariant"
				}
				for i, n := range vs.Names {
					if !strings.HasPrefix(n.Name, "Lang") && !strings.HasPrefix(n.Name, "lang") {
						continue
					}
					if len(vs.Values) > i {
						v := src(vs.Values[i])
						if strings.Contains(v, "iota") && typed {
							base[n.Name] = true
						} else {
							exprs[n.Name] = vs.Values[i]
						}
					} else if typed {
						base[n.Name] = true // implicit repetition of `1 << iota`
					}
				}
			}
		}
	}
	out := map[string][]string{}
	var eval func(e ast.Expr, depth int) ([]string, bool)
	eval = func(e ast.Expr, depth int) ([]string, bool) {
		if depth > 8 {
			return nil, false
		}
		switch e := e.(type) {
		case *ast.Ident:
			if base[e.Name] && e.Name != "LangAuto" && !strings.HasSuffix(e.Name, "Count") {
				return []string{e.Name}, true
			}
			if x, ok := exprs[e.Name]; ok {
				return eval(x, depth+1)
			}
			return nil, false
		case *ast.ParenExpr:
			return eval(e.X, depth)
		case *ast.BinaryExpr:
			if e.Op != token.OR {
				return nil, false
			}
			a, ok1 := eval(e.X, depth)
			b, ok2 := eval(e.Y, depth)
			if !ok1 || !ok2 {
				return nil, false
			}
			m := map[string]bool{}
			for _, x := range append(a, b...) {
				m[x] = true
			}
			var r []string
			for x := range m {
				r = append(r, x)
			}
			sort.Strings(r)
			return r, true
		}
		return nil, false
	}
	for n := range base {
		if n != "LangAuto" && !strings.HasSuffix(n, "Count") {
			out[n] = []string{n}
		}
	}
	for n, e := range exprs {
		if r, ok := eval(e, 0); ok {
			out[n] = r
		}
	}
	c11eval = func(e ast.Expr) []string {
		if r, ok := eval(e, 0); ok {
			return r
		}
		return []string{"?"}
	}
	return out
}

var c11eval func(e ast.Expr) []string

// langInCall returns the set argument when e is `<x>.lang.in(S)` (or `lang.in(S)`).
func langInCall(e ast.Expr) (ast.Expr, bool) {
	call, ok := e.(*ast.CallExpr)
	if !ok || len(call.Args) != 1 {
		return nil, false
	}
	se, ok := call.Fun.(*ast.SelectorExpr)
	if !ok || se.Sel.Name != "in" {
		return nil, false
	}
	x := src(se.X)
	if x == "lang" || strings.HasSuffix(x, ".lang") {
		return call.Args[0], true
	}
	return nil, false
}

// positiveSets collects the sets of lang.in tests that must hold when cond is true.
func positiveSets(cond ast.Expr) (sets [][]string, texts []string) {
	switch e := cond.(type) {
	case *ast.ParenExpr:
		return positiveSets(e.X)
	case *ast.BinaryExpr:
		if e.Op == token.LAND {
			a, at := positiveSets(e.X)
			b, bt := positiveSets(e.Y)
			return append(a, b...), append(at, bt...)
		}
	case *ast.CallExpr:
		if s, ok := langInCall(e); ok {
			return [][]string{c11eval(s)}, []string{src(s)}
		}
	}
	return nil, nil
}

func c11Facts(repo string, facts map[string]any) {
	p := loadPkg(filepath.Join(repo, "syntax"))
	sets := c11ResolveSets(p)
	nodeTypes := map[string]bool{}
	meth := p.methods()
	for t := range p.structs() {
		hasPos, hasEnd := false, false
		for _, m := range meth[t] {
			if m == "Pos" {
				hasPos = true
			}
			if m == "End" {
				hasEnd = true
			}
		}
		if hasPos && hasEnd {
			nodeTypes[t] = true
		}
	}
	for _, helper := range []string{"Slice", "Replace", "Expansion"} {
		nodeTypes[helper] = true
	}
	var guards []c11Guard
	var sites []c11Site
	var recs []c11Recover
	var calls []c11Call
	names := []string{}
	for n := range p.files {
		names = append(names, n)
	}
	sort.Strings(names)
	for _, fn := range names {
		f := p.files[fn]
		for _, d := range f.Decls {
			fd, ok := d.(*ast.FuncDecl)
			if !ok || fd.Body == nil {
				continue
			}
			fname := fd.Name.Name
			// checkLang calls of this function, by position
			type cl struct {
				pos token.Pos
				set []string
				txt string
			}
			var cls []cl
			_ = cls
			// parent links for enclosing conditions
			var stack []ast.Node
			type scope struct {
				sets  [][]string
				texts []string
			}
			var scopes []scope
			var visit func(n ast.Node, sc scope)
			var visitList func(list []ast.Stmt, sc scope)
			// a checkLang(…) statement dominates the statements after it in the same list
			visitList = func(list []ast.Stmt, sc scope) {
				cur := sc
				for _, st := range list {
					visit(st, cur)
					if es, ok := st.(*ast.ExprStmt); ok {
						if call, ok := es.X.(*ast.CallExpr); ok {
							if se, ok := call.Fun.(*ast.SelectorExpr); ok && se.Sel.Name == "checkLang" && len(call.Args) >= 3 {
								cur = scope{append(append([][]string{}, cur.sets...), c11eval(call.Args[1])), append(append([]string{}, cur.texts...), "checkLang:"+src(call.Args[1]))}
							}
						}
					}
				}
			}
			visit = func(n ast.Node, sc scope) {
				if n == nil {
					return
				}
				switch x := n.(type) {
				case *ast.IfStmt:
					if x.Init != nil {
						visit(x.Init, sc)
					}
					visit(x.Cond, sc)
					ps, pt := positiveSets(x.Cond)
					inner := scope{append(append([][]string{}, sc.sets...), ps...), append(append([]string{}, sc.texts...), pt...)}
					visit(x.Body, inner)
					if x.Else != nil {
						visit(x.Else, sc)
					}
					return
				case *ast.CaseClause:
					inner := sc
					if len(x.List) == 1 {
						ps, pt := positiveSets(x.List[0])
						inner = scope{append(append([][]string{}, sc.sets...), ps...), append(append([]string{}, sc.texts...), pt...)}
					}
					for _, e := range x.List {
						visit(e, sc)
					}
					visitList(x.Body, inner)
					return
				case *ast.BlockStmt:
					visitList(x.List, sc)
					return
				case *ast.BinaryExpr:
					if x.Op == token.LAND {
						// a && b : b is evaluated under a
						visit(x.X, sc)
						ps, pt := positiveSets(x.X)
						inner := scope{append(append([][]string{}, sc.sets...), ps...), append(append([]string{}, sc.texts...), pt...)}
						visit(x.Y, inner)
						return
					}
				case *ast.UnaryExpr:
					if x.Op == token.NOT {
						if s, ok := langInCall(x.X); ok {
							guards = append(guards, c11Guard{Kind: "in", File: fn, Func: fname, Line: fset.Position(x.Pos()).Line, SetText: src(s), Set: c11eval(s), Negated: true})
							return
						}
					}
				case *ast.CallExpr:
					if s, ok := langInCall(x); ok {
						guards = append(guards, c11Guard{Kind: "in", File: fn, Func: fname, Line: fset.Position(x.Pos()).Line, SetText: src(s), Set: c11eval(s)})
						return
					}
					if se, ok := x.Fun.(*ast.SelectorExpr); ok && src(se.X) == "p" {
						calls = append(calls, c11Call{Caller: fname, Callee: se.Sel.Name, File: fn, Line: fset.Position(x.Pos()).Line, Guards: append([][]string{}, sc.sets...), GuardTx: append([]string{}, sc.texts...)})
					}
					if se, ok := x.Fun.(*ast.SelectorExpr); ok && se.Sel.Name == "checkLang" && len(x.Args) >= 3 {
						feat := src(x.Args[2])
						guards = append(guards, c11Guard{Kind: "checkLang", File: fn, Func: fname, Line: fset.Position(x.Pos()).Line, SetText: src(x.Args[1]), Set: c11eval(x.Args[1]), Feature: feat})
						cls = append(cls, cl{x.Pos(), c11eval(x.Args[1]), src(x.Args[1])})
					}
				case *ast.CompositeLit:
					t := strings.TrimPrefix(src(x.Type), "*")
					if x.Type != nil && nodeTypes[t] {
						s := c11Site{Type: t, File: fn, Func: fname, Line: fset.Position(x.Pos()).Line}
						for _, el := range x.Elts {
							if kv, ok := el.(*ast.KeyValueExpr); ok {
								s.Flags = append(s.Flags, src(kv.Key))
							}
						}
						s.Guards = append(s.Guards, sc.sets...)
						s.GuardTx = append(s.GuardTx, sc.texts...)
						sites = append(sites, s)
					}
				}
				stack = append(stack, n)
				scopes = append(scopes, sc)
				// generic children
				ast.Inspect(n, func(c ast.Node) bool {
					if c == nil || c == n {
						return c == n
					}
					visit(c, sc)
					return false
				})
				stack = stack[:len(stack)-1]
				scopes = scopes[:len(scopes)-1]
			}
			visit(fd.Body, scope{})
		}
	}
	// recoverError(): `if p.recoverError() { … }` must have an else branch starting with an error
	// call, or be directly followed by one, so that recovery only ever replaces an error.
	isErrCall := func(st ast.Stmt) bool {
		es, ok := st.(*ast.ExprStmt)
		if !ok {
			return false
		}
		call, ok := es.X.(*ast.CallExpr)
		if !ok {
			return false
		}
		se, ok := call.Fun.(*ast.SelectorExpr)
		if !ok {
			return false
		}
		n := se.Sel.Name
		return strings.HasSuffix(n, "Err") || n == "errPass" || strings.HasPrefix(n, "followErr")
	}
	for _, fn := range names {
		f := p.files[fn]
		for _, d := range f.Decls {
			fd, ok := d.(*ast.FuncDecl)
			if !ok || fd.Body == nil || fd.Name.Name == "recoverError" {
				continue
			}
			matched := map[token.Pos]bool{}
			ast.Inspect(fd.Body, func(n ast.Node) bool {
				var list []ast.Stmt
				switch b := n.(type) {
				case *ast.BlockStmt:
					list = b.List
				case *ast.CaseClause:
					list = b.Body
				default:
					return true
				}
				for i, st := range list {
					is, ok := st.(*ast.IfStmt)
					if !ok || src(is.Cond) != "p.recoverError()" {
						continue
					}
					r := c11Recover{File: fn, Func: fd.Name.Name, Line: fset.Position(is.Pos()).Line, Shape: "if-cond", Else: "none"}
					if is.Else != nil {
						if eb, ok := is.Else.(*ast.BlockStmt); ok && len(eb.List) > 0 && isErrCall(eb.List[0]) {
							r.Else = "error"
						}
					} else if i+1 < len(list) && isErrCall(list[i+1]) {
						r.Else = "error"
					}
					matched[is.Cond.Pos()] = true
					recs = append(recs, r)
				}
				return true
			})
			// `… else if p.recoverError() { … } else { <error> }`
			ast.Inspect(fd.Body, func(n ast.Node) bool {
				is, ok := n.(*ast.IfStmt)
				if !ok || src(is.Cond) != "p.recoverError()" || matched[is.Cond.Pos()] || is.Else == nil {
					return true
				}
				if eb, ok := is.Else.(*ast.BlockStmt); ok && len(eb.List) > 0 && isErrCall(eb.List[0]) {
					matched[is.Cond.Pos()] = true
					recs = append(recs, c11Recover{File: fn, Func: fd.Name.Name, Line: fset.Position(is.Pos()).Line, Shape: "if-cond", Else: "error"})
				}
				return true
			})
			ast.Inspect(fd.Body, func(n ast.Node) bool {
				if call, ok := n.(*ast.CallExpr); ok && src(call) == "p.recoverError()" && !matched[call.Pos()] {
					recs = append(recs, c11Recover{File: fn, Func: fd.Name.Name, Line: fset.Position(call.Pos()).Line, Shape: "other", Else: "none"})
				}
				return true
			})
		}
	}
	facts["c11"] = map[string]any{"sets": sets, "guards": guards, "sites": sites, "recover": recs, "calls": calls}
}
