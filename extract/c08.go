package main

// C08 facts (key "c08"): for syntax.Parser and syntax.Printer
//   fields        the struct's fields in declaration order
//   reset         every assignment of reset(): (field, right-hand side text), multi-assignments
//                 expanded pairwise; reset_other: any statement of reset() that is not such an assignment
//   option_writes fields assigned inside `func(p *T) {…}` literals of functions returning <T>Option
//   ctor_writes   keys of composite literals `T{…}` / `&T{…}` anywhere in the package (with the function)
//   other_writes  every other write (assign, op-assign, ++/--, address taken) to a field of a
//                 receiver or parameter of type *T, outside reset() and the option literals
//   entries       every exported method of T: whether its first statement is `recv.reset()`, the
//                 fields its top-level statements assign, the unexported/exported receiver methods it
//                 calls (closures included), method calls on receiver fields (`p.w.Reset`), all writes
// and the call structure of the statement entry points (Parse, StmtsSeq, stmtList): receiver-method
// calls in source order with their enclosing if-condition and argument texts, and the return
// expressions of the function literals they define.
// Purely syntactic.  Writes through aliases other than receivers/parameters are not seen.

import (
	"go/ast"
	"go/token"
	"sort"
	"strings"
)

func init() { extraFacts = append(extraFacts, c08Facts) }

type c08Assign struct {
	Field string `json:"field"`
	Rhs   string `json:"rhs"`
}

type c08W struct {
	Func  string `json:"func"`
	Field string `json:"field"`
	Kind  string `json:"kind"` // assign | incdec | addr | literal
}

type c08Entry struct {
	Name          string   `json:"name"`
	ResetFirst    bool     `json:"reset_first"`
	Assigned      []string `json:"assigned"`
	Calls         []string `json:"calls"`
	ExportedCalls []string `json:"exported_calls"`
	FieldCalls    []string `json:"field_calls"`
	Writes        []string `json:"writes"`
	Reads         []string `json:"reads"` // fields mentioned as recv.F anywhere in the body
}

// c08PtrUse: what one function does with a pointer-typed field of the struct, in source order
// (right-hand sides before the assignment they belong to): "read", or "write-literal" (`&T{…}` /
// `T{…}`), "write-new" (`new(T)`), "write-nil", "write-addr" (`&recv.x`), "write-other".
type c08PtrUse struct {
	Field  string   `json:"field"`
	Func   string   `json:"func"`
	Events []string `json:"events"`
}

type c08Struct struct {
	Type         string      `json:"type"`
	Fields       []Field     `json:"fields"`
	ResetFound   bool        `json:"reset_found"`
	Reset        []c08Assign `json:"reset"`
	ResetOther   []string    `json:"reset_other"`
	OptionWrites []c08W      `json:"option_writes"`
	OptionFuncs  []string    `json:"option_funcs"`
	CtorWrites   []c08W      `json:"ctor_writes"`
	OtherWrites  []c08W      `json:"other_writes"`
	Entries      []c08Entry  `json:"entries"`
	PtrUses      []c08PtrUse `json:"ptr_uses"`
}

type c08Call struct {
	Name      string   `json:"name"`
	Guard     string   `json:"guard"`
	Args      []string `json:"args"`
	InClosure bool     `json:"in_closure"`
}

type c08Closure struct {
	Name    string   `json:"name"`
	Returns []string `json:"returns"`
}

type c08Flow struct {
	Func     string       `json:"func"`
	Found    bool         `json:"found"`
	Calls    []c08Call    `json:"calls"`
	Closures []c08Closure `json:"closures"`
}

func c08IsType(e ast.Expr, t string) bool {
	if s, ok := e.(*ast.StarExpr); ok {
		e = s.X
	}
	id, ok := e.(*ast.Ident)
	return ok && id.Name == t
}

// c08Roots returns the names of the receiver and parameters of type T / *T.
func c08Roots(recv *ast.FieldList, typ *ast.FuncType, t string) []string {
	var out []string
	add := func(fl *ast.FieldList) {
		if fl == nil {
			return
		}
		for _, f := range fl.List {
			if c08IsType(f.Type, t) {
				for _, n := range f.Names {
					out = append(out, n.Name)
				}
			}
		}
	}
	add(recv)
	if typ != nil {
		add(typ.Params)
	}
	return out
}

func c08StripLhs(e ast.Expr) ast.Expr {
	for {
		switch x := e.(type) {
		case *ast.IndexExpr:
			e = x.X
		case *ast.SliceExpr:
			e = x.X
		case *ast.StarExpr:
			e = x.X
		case *ast.ParenExpr:
			e = x.X
		default:
			return e
		}
	}
}

// c08TopField returns the first selector under one of roots ("p.f.Stmts" -> "f").
func c08TopField(e ast.Expr, roots []string) (string, bool) {
	e = c08StripLhs(e)
	for _, r := range roots {
		if path, ok := selPath(e, r); ok && path != "" {
			return strings.SplitN(path, ".", 2)[0], true
		}
	}
	return "", false
}

// c08Writes collects the writes to fields of roots inside n (closures with their own *T
// parameter are handled by the caller; nested literals without one are included).
func c08Writes(n ast.Node, roots []string, fn string, skip map[ast.Node]bool) []c08W {
	var out []c08W
	ast.Inspect(n, func(x ast.Node) bool {
		if x == nil || skip[x] {
			return false
		}
		switch x := x.(type) {
		case *ast.AssignStmt:
			for _, l := range x.Lhs {
				if f, ok := c08TopField(l, roots); ok {
					// `p.f.Stmts = …` writes through the pointer p.f, not the field f itself
					if se, isSel := c08StripLhs(l).(*ast.SelectorExpr); isSel {
						if _, direct := se.X.(*ast.Ident); direct {
							out = append(out, c08W{fn, f, "assign"})
						}
					}
				}
			}
		case *ast.IncDecStmt:
			if f, ok := c08TopField(x.X, roots); ok {
				if se, isSel := c08StripLhs(x.X).(*ast.SelectorExpr); isSel {
					if _, direct := se.X.(*ast.Ident); direct {
						out = append(out, c08W{fn, f, "incdec"})
					}
				}
			}
		case *ast.UnaryExpr:
			if x.Op == token.AND {
				if f, ok := c08TopField(x.X, roots); ok {
					if se, isSel := c08StripLhs(x.X).(*ast.SelectorExpr); isSel {
						if _, direct := se.X.(*ast.Ident); direct {
							out = append(out, c08W{fn, f, "addr"})
						}
					}
				}
			}
		}
		return true
	})
	return out
}

func c08RhsKind(e ast.Expr) string {
	switch x := e.(type) {
	case *ast.CompositeLit:
		return "write-literal"
	case *ast.UnaryExpr:
		if x.Op == token.AND {
			if _, ok := x.X.(*ast.CompositeLit); ok {
				return "write-literal"
			}
			return "write-addr"
		}
	case *ast.CallExpr:
		if id, ok := x.Fun.(*ast.Ident); ok && id.Name == "new" {
			return "write-new"
		}
	case *ast.Ident:
		if x.Name == "nil" {
			return "write-nil"
		}
	}
	return "write-other"
}

// c08PtrEvents lists the reads and writes of root.field inside body, in source order.
func c08PtrEvents(body ast.Node, roots []string, field string) []string {
	var evs []string
	isField := func(e ast.Expr) bool {
		se, ok := e.(*ast.SelectorExpr)
		if !ok || se.Sel.Name != field {
			return false
		}
		id, ok := se.X.(*ast.Ident)
		if !ok {
			return false
		}
		for _, r := range roots {
			if id.Name == r {
				return true
			}
		}
		return false
	}
	var visit func(n ast.Node)
	visit = func(n ast.Node) {
		ast.Inspect(n, func(x ast.Node) bool {
			switch x := x.(type) {
			case nil:
				return false
			case *ast.AssignStmt:
				for _, r := range x.Rhs {
					visit(r)
				}
				for i, l := range x.Lhs {
					if isField(l) {
						k := "write-other"
						if len(x.Lhs) == len(x.Rhs) && x.Tok == token.ASSIGN {
							k = c08RhsKind(x.Rhs[i])
						}
						evs = append(evs, k)
					} else {
						visit(l)
					}
				}
				return false
			case *ast.SelectorExpr:
				if isField(x) {
					evs = append(evs, "read")
					return false
				}
			}
			return true
		})
	}
	visit(body)
	return evs
}

func c08FuncName(fd *ast.FuncDecl) string {
	if fd.Recv != nil && len(fd.Recv.List) > 0 {
		return strings.TrimPrefix(src(fd.Recv.List[0].Type), "*") + "." + fd.Name.Name
	}
	return fd.Name.Name
}

func c08StructFacts(p *pkgInfo, t string) c08Struct {
	out := c08Struct{Type: t, Fields: p.structs()[t]}
	if out.Fields == nil {
		fail("C08: struct " + t + " not found")
	}
	optType := t + "Option"
	// reset()
	if fd := p.funcDecl(t, "reset"); fd != nil && fd.Body != nil && fd.Recv != nil && len(fd.Recv.List[0].Names) > 0 {
		out.ResetFound = true
		rv := fd.Recv.List[0].Names[0].Name
		for _, s := range fd.Body.List {
			as, ok := s.(*ast.AssignStmt)
			if !ok || as.Tok != token.ASSIGN || len(as.Lhs) != len(as.Rhs) {
				out.ResetOther = append(out.ResetOther, src(s))
				continue
			}
			for i, l := range as.Lhs {
				se, ok := l.(*ast.SelectorExpr)
				if !ok {
					out.ResetOther = append(out.ResetOther, src(s))
					continue
				}
				if ident, isId := se.X.(*ast.Ident); !isId || ident.Name != rv {
					out.ResetOther = append(out.ResetOther, src(s))
					continue
				}
				out.Reset = append(out.Reset, c08Assign{se.Sel.Name, src(as.Rhs[i])})
			}
		}
	} else {
		fail("C08: " + t + ".reset not found")
	}
	files := make([]string, 0, len(p.files))
	for n := range p.files {
		files = append(files, n)
	}
	sort.Strings(files)
	for _, fnm := range files {
		f := p.files[fnm]
		for _, d := range f.Decls {
			fd, ok := d.(*ast.FuncDecl)
			if !ok || fd.Body == nil {
				continue
			}
			name := c08FuncName(fd)
			isOptionCtor := fd.Recv == nil && fd.Type.Results != nil && len(fd.Type.Results.List) == 1 && src(fd.Type.Results.List[0].Type) == optType
			skip := map[ast.Node]bool{}
			// function literals with their own *T parameter
			ast.Inspect(fd.Body, func(x ast.Node) bool {
				fl, ok := x.(*ast.FuncLit)
				if !ok {
					return true
				}
				roots := c08Roots(nil, fl.Type, t)
				if len(roots) == 0 {
					return true
				}
				skip[fl] = true
				ws := c08Writes(fl.Body, roots, name, nil)
				if isOptionCtor {
					out.OptionWrites = append(out.OptionWrites, ws...)
				} else {
					out.OtherWrites = append(out.OtherWrites, ws...)
				}
				return false
			})
			if isOptionCtor {
				out.OptionFuncs = append(out.OptionFuncs, name)
			}
			// composite literals of T
			ast.Inspect(fd.Body, func(x ast.Node) bool {
				cl, ok := x.(*ast.CompositeLit)
				if !ok || cl.Type == nil || !c08IsType(cl.Type, t) {
					return true
				}
				for _, e := range cl.Elts {
					if kv, ok := e.(*ast.KeyValueExpr); ok {
						out.CtorWrites = append(out.CtorWrites, c08W{name, src(kv.Key), "literal"})
					} else {
						fail("C08: positional composite literal of " + t + " in " + name)
					}
				}
				return true
			})
			roots := c08Roots(fd.Recv, fd.Type, t)
			// function literals with their own *T parameter (option closures) use that name
			ast.Inspect(fd.Body, func(x ast.Node) bool {
				if fl, ok := x.(*ast.FuncLit); ok {
					roots = append(roots, c08Roots(nil, fl.Type, t)...)
				}
				return true
			})
			if len(roots) == 0 {
				continue
			}
			for _, fld := range out.Fields {
				if !strings.HasPrefix(fld.Type, "*") {
					continue
				}
				if evs := c08PtrEvents(fd.Body, roots, fld.Name); len(evs) > 0 {
					out.PtrUses = append(out.PtrUses, c08PtrUse{fld.Name, name, evs})
				}
			}
			roots = c08Roots(fd.Recv, fd.Type, t)
			if len(roots) == 0 {
				continue
			}
			if name == t+".reset" {
				continue
			}
			out.OtherWrites = append(out.OtherWrites, c08Writes(fd.Body, roots, name, skip)...)
			// exported methods
			if fd.Recv != nil && ast.IsExported(fd.Name.Name) && c08IsType(fd.Recv.List[0].Type, t) && len(fd.Recv.List[0].Names) > 0 {
				rv := fd.Recv.List[0].Names[0].Name
				en := c08Entry{Name: fd.Name.Name}
				if len(fd.Body.List) > 0 {
					if es, ok := fd.Body.List[0].(*ast.ExprStmt); ok {
						en.ResetFirst = src(es.X) == rv+".reset()"
					}
				}
				seenA := map[string]bool{}
				for _, s := range fd.Body.List {
					if as, ok := s.(*ast.AssignStmt); ok {
						for _, l := range as.Lhs {
							if se, ok := l.(*ast.SelectorExpr); ok {
								if id, ok := se.X.(*ast.Ident); ok && id.Name == rv && !seenA[se.Sel.Name] {
									seenA[se.Sel.Name] = true
									en.Assigned = append(en.Assigned, se.Sel.Name)
								}
							}
						}
					}
				}
				seenC := map[string]bool{}
				ast.Inspect(fd.Body, func(x ast.Node) bool {
					ce, ok := x.(*ast.CallExpr)
					if !ok {
						return true
					}
					se, ok := ce.Fun.(*ast.SelectorExpr)
					if !ok {
						return true
					}
					if id, ok := se.X.(*ast.Ident); ok && id.Name == rv {
						key := "m:" + se.Sel.Name
						if !seenC[key] {
							seenC[key] = true
							if ast.IsExported(se.Sel.Name) {
								en.ExportedCalls = append(en.ExportedCalls, se.Sel.Name)
							} else {
								en.Calls = append(en.Calls, se.Sel.Name)
							}
						}
						return true
					}
					if inner, ok := se.X.(*ast.SelectorExpr); ok {
						if id, ok := inner.X.(*ast.Ident); ok && id.Name == rv {
							key := "f:" + inner.Sel.Name + "." + se.Sel.Name
							if !seenC[key] {
								seenC[key] = true
								en.FieldCalls = append(en.FieldCalls, inner.Sel.Name+"."+se.Sel.Name)
							}
						}
					}
					return true
				})
				seenW := map[string]bool{}
				for _, w := range c08Writes(fd.Body, []string{rv}, name, nil) {
					if !seenW[w.Field] {
						seenW[w.Field] = true
						en.Writes = append(en.Writes, w.Field)
					}
				}
				isF := map[string]bool{}
				for _, f := range out.Fields {
					isF[f.Name] = true
				}
				seenR := map[string]bool{}
				ast.Inspect(fd.Body, func(x ast.Node) bool {
					if se, ok := x.(*ast.SelectorExpr); ok {
						if id, ok := se.X.(*ast.Ident); ok && id.Name == rv && isF[se.Sel.Name] && !seenR[se.Sel.Name] {
							seenR[se.Sel.Name] = true
							en.Reads = append(en.Reads, se.Sel.Name)
						}
					}
					return true
				})
				out.Entries = append(out.Entries, en)
			}
		}
	}
	sort.Slice(out.Entries, func(i, j int) bool { return out.Entries[i].Name < out.Entries[j].Name })
	sort.Strings(out.OptionFuncs)
	return out
}

func c08FlowFacts(p *pkgInfo, recvT, name string) c08Flow {
	out := c08Flow{Func: name}
	fd := p.funcDecl(recvT, name)
	if fd == nil || fd.Body == nil || fd.Recv == nil || len(fd.Recv.List[0].Names) == 0 {
		fail("C08: " + recvT + "." + name + " not found")
		return out
	}
	out.Found = true
	rv := fd.Recv.List[0].Names[0].Name
	// walk with a stack of enclosing if-conditions and closure depth
	var walk func(n ast.Node, guard string, inClosure bool)
	walkList := func(l []ast.Stmt, guard string, inClosure bool) {
		for _, s := range l {
			walk(s, guard, inClosure)
		}
	}
	walk = func(n ast.Node, guard string, inClosure bool) {
		switch x := n.(type) {
		case nil:
			return
		case *ast.IfStmt:
			if x.Init != nil {
				walk(x.Init, guard, inClosure)
			}
			walk(x.Cond, guard, inClosure)
			walkList(x.Body.List, src(x.Cond), inClosure)
			if x.Else != nil {
				walk(x.Else, "!("+src(x.Cond)+")", inClosure)
			}
			return
		case *ast.BlockStmt:
			walkList(x.List, guard, inClosure)
			return
		case *ast.FuncLit:
			walkList(x.Body.List, guard, true)
			return
		case *ast.AssignStmt:
			// named closures: `fn := func(…) … { … }`
			if len(x.Lhs) == 1 && len(x.Rhs) == 1 {
				if fl, ok := x.Rhs[0].(*ast.FuncLit); ok {
					cl := c08Closure{Name: src(x.Lhs[0])}
					ast.Inspect(fl.Body, func(y ast.Node) bool {
						if _, nested := y.(*ast.FuncLit); nested {
							return false
						}
						if r, ok := y.(*ast.ReturnStmt); ok {
							var parts []string
							for _, e := range r.Results {
								parts = append(parts, src(e))
							}
							cl.Returns = append(cl.Returns, strings.Join(parts, ", "))
						}
						return true
					})
					out.Closures = append(out.Closures, cl)
				}
			}
		}
		// generic: visit children in source order, recording receiver calls
		ast.Inspect(n, func(y ast.Node) bool {
			if y == n {
				if ce, ok := y.(*ast.CallExpr); ok {
					if se, ok := ce.Fun.(*ast.SelectorExpr); ok {
						if id, ok := se.X.(*ast.Ident); ok && id.Name == rv {
							c := c08Call{Name: se.Sel.Name, Guard: guard, InClosure: inClosure, Args: []string{}}
							for _, a := range ce.Args {
								c.Args = append(c.Args, src(a))
							}
							if ce.Ellipsis.IsValid() && len(c.Args) > 0 {
								c.Args[len(c.Args)-1] += "..."
							}
							out.Calls = append(out.Calls, c)
						}
					}
				}
				return true
			}
			switch y.(type) {
			case nil:
				return false
			default:
				walk(y, guard, inClosure)
				return false
			}
		})
	}
	walkList(fd.Body.List, "", false)
	return out
}

func c08Facts(repo string, facts map[string]any) {
	syn := loadPkg(repo + "/syntax")
	facts["c08"] = map[string]any{
		"parser":  c08StructFacts(syn, "Parser"),
		"printer": c08StructFacts(syn, "Printer"),
		"flows": []c08Flow{
			c08FlowFacts(syn, "Parser", "Parse"),
			c08FlowFacts(syn, "Parser", "StmtsSeq"),
			c08FlowFacts(syn, "Parser", "stmtList"),
		},
	}
}
