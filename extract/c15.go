package main

// Facts for C15 (typed JSON): stringer tables of token_string.go, the UnmarshalText switch tables
// of tokens_parse.go, named non-struct types, String() bodies of the operator types, the keys of
// typedjson.nodeByName, the Kind switches of encodeValue/decodeValue and the Pos constants.
// Add-only: new keys under facts["syntax"] and facts["typedjson"].

import (
	"go/ast"
	"go/token"
	"sort"
	"strconv"
	"strings"
)

type unmarshalCase struct {
	Str   string `json:"str"`
	Const string `json:"const"`
}

type unmarshalFacts struct {
	Type    string          `json:"type"`
	On      string          `json:"on"`      // switch tag source, expected "string(text)"
	Cases   []unmarshalCase `json:"cases"`   // case "…": *o = Const
	Default string          `json:"default"` // "error" when the default returns fmt.Errorf(...)
	Tail    string          `json:"tail"`    // statements after the switch, expected "return nil"
}

func unmarshalTextFacts(p *pkgInfo) []unmarshalFacts {
	var out []unmarshalFacts
	var names []string
	for n := range p.files {
		names = append(names, n)
	}
	sort.Strings(names)
	for _, fn := range names {
		for _, d := range p.files[fn].Decls {
			fd, ok := d.(*ast.FuncDecl)
			if !ok || fd.Name.Name != "UnmarshalText" || fd.Recv == nil || len(fd.Recv.List) != 1 || fd.Body == nil {
				continue
			}
			recvT := src(fd.Recv.List[0].Type)
			uf := unmarshalFacts{Type: strings.TrimPrefix(recvT, "*")}
			if !strings.HasPrefix(recvT, "*") || len(fd.Recv.List[0].Names) != 1 {
				fail("UnmarshalText of " + recvT + ": receiver is not a named pointer")
				continue
			}
			rv := fd.Recv.List[0].Names[0].Name
			if len(fd.Body.List) != 2 {
				fail("UnmarshalText of " + uf.Type + ": body shape not understood")
				continue
			}
			sw, ok := fd.Body.List[0].(*ast.SwitchStmt)
			if !ok || sw.Init != nil || sw.Tag == nil {
				fail("UnmarshalText of " + uf.Type + ": first statement is not a plain switch")
				continue
			}
			uf.On = src(sw.Tag)
			uf.Tail = src(fd.Body.List[1])
			for _, c := range sw.Body.List {
				cc := c.(*ast.CaseClause)
				if cc.List == nil {
					uf.Default = "other"
					if len(cc.Body) == 1 {
						if rs, ok := cc.Body[0].(*ast.ReturnStmt); ok && len(rs.Results) == 1 && strings.HasPrefix(src(rs.Results[0]), "fmt.Errorf(") {
							uf.Default = "error"
						}
					}
					continue
				}
				if len(cc.Body) != 1 {
					fail("UnmarshalText of " + uf.Type + ": case body shape not understood")
					continue
				}
				as, ok := cc.Body[0].(*ast.AssignStmt)
				if !ok || as.Tok != token.ASSIGN || len(as.Lhs) != 1 || len(as.Rhs) != 1 || src(as.Lhs[0]) != "*"+rv {
					fail("UnmarshalText of " + uf.Type + ": case is not `*o = Const`: " + src(cc.Body[0]))
					continue
				}
				id, ok := as.Rhs[0].(*ast.Ident)
				if !ok {
					fail("UnmarshalText of " + uf.Type + ": assigned value is not a constant name: " + src(as.Rhs[0]))
					continue
				}
				for _, e := range cc.List {
					bl, ok := e.(*ast.BasicLit)
					if !ok || bl.Kind != token.STRING {
						fail("UnmarshalText of " + uf.Type + ": case label is not a string literal")
						continue
					}
					s, err := strconv.Unquote(bl.Value)
					if err != nil {
						fail("UnmarshalText of " + uf.Type + ": bad string literal " + bl.Value)
						continue
					}
					uf.Cases = append(uf.Cases, unmarshalCase{Str: s, Const: id.Name})
				}
			}
			out = append(out, uf)
		}
	}
	return out
}

// namedTypes: `type T U` declarations whose U is neither a struct nor an interface.
func namedTypes(p *pkgInfo) map[string]string {
	out := map[string]string{}
	for _, f := range p.files {
		for _, d := range f.Decls {
			gd, ok := d.(*ast.GenDecl)
			if !ok || gd.Tok != token.TYPE {
				continue
			}
			for _, s := range gd.Specs {
				ts := s.(*ast.TypeSpec)
				switch ts.Type.(type) {
				case *ast.StructType, *ast.InterfaceType:
				default:
					u := src(ts.Type)
					if ts.Assign.IsValid() {
						u = "= " + u
					}
					out[ts.Name.Name] = u
				}
			}
		}
	}
	return out
}

// methodBodies: receiver type -> method -> "ptr|val : body source" for the given method names.
func methodBodies(p *pkgInfo, names ...string) map[string]map[string]string {
	want := map[string]bool{}
	for _, n := range names {
		want[n] = true
	}
	out := map[string]map[string]string{}
	for _, f := range p.files {
		for _, d := range f.Decls {
			fd, ok := d.(*ast.FuncDecl)
			if !ok || fd.Recv == nil || len(fd.Recv.List) == 0 || !want[fd.Name.Name] || fd.Body == nil {
				continue
			}
			t := src(fd.Recv.List[0].Type)
			kind := "val"
			if strings.HasPrefix(t, "*") {
				kind = "ptr"
				t = t[1:]
			}
			rv := "_"
			if len(fd.Recv.List[0].Names) == 1 {
				rv = fd.Recv.List[0].Names[0].Name
			}
			if out[t] == nil {
				out[t] = map[string]string{}
			}
			out[t][fd.Name.Name] = kind + " " + rv + " : " + src(fd.Body)
		}
	}
	return out
}

type stringerFacts struct {
	Name   string           `json:"name"`   // the _token_name constant
	Index  []int            `json:"index"`  // the _token_index table
	Checks []unmarshalCase  `json:"checks"` // `_ = x[name-N]`: Str = N, Const = name
}

func stringerTables(p *pkgInfo, file, typ string) *stringerFacts {
	f := p.files[file]
	if f == nil {
		fail("file not found: " + file)
		return nil
	}
	sf := &stringerFacts{}
	foundName, foundIdx := false, false
	for _, d := range f.Decls {
		switch d := d.(type) {
		case *ast.GenDecl:
			for _, s := range d.Specs {
				vs, ok := s.(*ast.ValueSpec)
				if !ok || len(vs.Names) != 1 || len(vs.Values) != 1 {
					continue
				}
				switch vs.Names[0].Name {
				case "_" + typ + "_name":
					bl, ok := vs.Values[0].(*ast.BasicLit)
					if !ok || bl.Kind != token.STRING {
						fail(file + ": _" + typ + "_name is not a string literal")
						continue
					}
					s, err := strconv.Unquote(bl.Value)
					if err != nil {
						fail(file + ": cannot unquote _" + typ + "_name")
						continue
					}
					sf.Name = s
					foundName = true
				case "_" + typ + "_index":
					cl, ok := vs.Values[0].(*ast.CompositeLit)
					if !ok {
						fail(file + ": _" + typ + "_index is not a composite literal")
						continue
					}
					for _, e := range cl.Elts {
						bl, ok := e.(*ast.BasicLit)
						if !ok || bl.Kind != token.INT {
							fail(file + ": _" + typ + "_index element is not an integer literal")
							continue
						}
						n, err := strconv.Atoi(bl.Value)
						if err != nil {
							fail(file + ": bad integer " + bl.Value)
						}
						sf.Index = append(sf.Index, n)
					}
					foundIdx = true
				}
			}
		case *ast.FuncDecl:
			if d.Name.Name != "_" || d.Body == nil {
				continue
			}
			for _, st := range d.Body.List {
				as, ok := st.(*ast.AssignStmt)
				if !ok || len(as.Rhs) != 1 {
					continue
				}
				ix, ok := as.Rhs[0].(*ast.IndexExpr)
				if !ok {
					continue
				}
				be, ok := ix.Index.(*ast.BinaryExpr)
				if !ok || be.Op != token.SUB {
					fail(file + ": stringer check not of the form x[name-N]: " + src(as))
					continue
				}
				sf.Checks = append(sf.Checks, unmarshalCase{Str: src(be.Y), Const: src(be.X)})
			}
		}
	}
	if !foundName || !foundIdx {
		fail(file + ": stringer tables for " + typ + " not found (multiple-run stringer output is not supported)")
	}
	return sf
}

type kindSwitch struct {
	Func    string   `json:"func"`
	On      string   `json:"on"`
	Cases   []string `json:"cases"`
	Default string   `json:"default"` // none | panic | other
	Line    int      `json:"line"`
}

// kindSwitches: every `switch X.Kind()` statement of the package.
func kindSwitches(p *pkgInfo) []kindSwitch {
	var out []kindSwitch
	var names []string
	for n := range p.files {
		names = append(names, n)
	}
	sort.Strings(names)
	for _, fn := range names {
		for _, d := range p.files[fn].Decls {
			fd, ok := d.(*ast.FuncDecl)
			if !ok || fd.Body == nil {
				continue
			}
			ast.Inspect(fd.Body, func(n ast.Node) bool {
				sw, ok := n.(*ast.SwitchStmt)
				if !ok || sw.Tag == nil || !strings.HasSuffix(src(sw.Tag), ".Kind()") {
					return true
				}
				ks := kindSwitch{Func: fd.Name.Name, On: src(sw.Tag), Default: "none", Line: fset.Position(sw.Pos()).Line}
				for _, c := range sw.Body.List {
					cc := c.(*ast.CaseClause)
					if cc.List == nil {
						ks.Default = "other"
						for _, b := range cc.Body {
							if strings.HasPrefix(src(b), "panic(") {
								ks.Default = "panic"
							}
						}
						continue
					}
					for _, e := range cc.List {
						ks.Cases = append(ks.Cases, strings.TrimPrefix(src(e), "reflect."))
					}
				}
				out = append(out, ks)
				return true
			})
		}
	}
	return out
}

// mapLiteral: entries of the package-level `var name = map[…]…{ "k": reflect.TypeFor[pkg.T](), … }`.
func mapLiteral(p *pkgInfo, name string) []unmarshalCase {
	var out []unmarshalCase
	found := false
	for _, f := range p.files {
		for _, d := range f.Decls {
			gd, ok := d.(*ast.GenDecl)
			if !ok || gd.Tok != token.VAR {
				continue
			}
			for _, s := range gd.Specs {
				vs := s.(*ast.ValueSpec)
				if len(vs.Names) != 1 || vs.Names[0].Name != name || len(vs.Values) != 1 {
					continue
				}
				cl, ok := vs.Values[0].(*ast.CompositeLit)
				if !ok {
					fail(name + " is not a composite literal")
					continue
				}
				found = true
				for _, e := range cl.Elts {
					kv, ok := e.(*ast.KeyValueExpr)
					if !ok {
						fail(name + ": element is not key: value")
						continue
					}
					bl, ok := kv.Key.(*ast.BasicLit)
					if !ok || bl.Kind != token.STRING {
						fail(name + ": key is not a string literal")
						continue
					}
					k, _ := strconv.Unquote(bl.Value)
					out = append(out, unmarshalCase{Str: k, Const: src(kv.Value)})
				}
			}
		}
	}
	if !found {
		fail("variable " + name + " not found")
	}
	return out
}

// funcBody: source text of the body only (no doc comment), comments stripped by go/printer of the block.
func funcBody(p *pkgInfo, recv, name string) string {
	fd := p.funcDecl(recv, name)
	if fd == nil || fd.Body == nil {
		fail("function not found: " + recv + "." + name)
		return ""
	}
	return src(fd.Body)
}

func addC15Facts(facts map[string]any, syn, tj *pkgInfo) {
	s := facts["syntax"].(map[string]any)
	s["unmarshal_text"] = unmarshalTextFacts(syn)
	s["named_types"] = namedTypes(syn)
	s["method_bodies"] = methodBodies(syn, "String", "UnmarshalText")
	s["stringer_token"] = stringerTables(syn, "token_string.go", "token")
	s["node_consts"] = constFacts(syn, "nodes.go")
	s["pos_funcs"] = map[string]string{
		"NewPos":  funcBody(syn, "", "NewPos"),
		"Offset":  funcBody(syn, "Pos", "Offset"),
		"Line":    funcBody(syn, "Pos", "Line"),
		"Col":     funcBody(syn, "Pos", "Col"),
		"IsValid": funcBody(syn, "Pos", "IsValid"),
	}
	t := facts["typedjson"].(map[string]any)
	t["node_by_name"] = mapLiteral(tj, "nodeByName")
	t["kind_switches"] = kindSwitches(tj)
	t["structs"] = tj.structs()
}
