// Command extract re-reads /repo's working tree with go/ast and prints a JSON document of facts
// (struct schemas, Walk case bodies, reset()/Reset()/subshell() field coverage, type switches,
// operator tables …) that bin/extract.py renders into lean/ShVerif/Gen/*.lean on every run.
// It is purely syntactic (go/parser, no type checking) so it cannot be disturbed by build tags.
package main

import (
	"bytes"
	"encoding/json"
	"fmt"
	"go/ast"
	"go/parser"
	"go/printer"
	"go/token"
	"os"
	"path/filepath"
	"sort"
	"strings"
)

var fset = token.NewFileSet()

func src(n ast.Node) string {
	var b bytes.Buffer
	printer.Fprint(&b, fset, n)
	return strings.Join(strings.Fields(b.String()), " ")
}

type pkgInfo struct {
	files map[string]*ast.File
}

func loadPkg(dir string) *pkgInfo {
	p := &pkgInfo{files: map[string]*ast.File{}}
	ents, err := os.ReadDir(dir)
	if err != nil {
		fail("cannot read " + dir + ": " + err.Error())
	}
	for _, e := range ents {
		n := e.Name()
		if !strings.HasSuffix(n, ".go") || strings.HasSuffix(n, "_test.go") || strings.HasPrefix(n, "verif_") {
			continue
		}
		f, err := parser.ParseFile(fset, filepath.Join(dir, n), nil, parser.ParseComments)
		if err != nil {
			fail("parse error: " + err.Error())
		}
		if f.Name.Name == "main" && filepath.Base(dir) != "shfmt" && filepath.Base(dir) != "gosh" {
			continue // generators such as gen_token_parse.go (//go:build ignore)
		}
		p.files[n] = f
	}
	return p
}

var problems []string

func fail(s string) { problems = append(problems, s) }

type Field struct {
	Name     string `json:"name"`
	Type     string `json:"type"`
	Exported bool   `json:"exported"`
}

func structFields(st *ast.StructType) []Field {
	var out []Field
	for _, f := range st.Fields.List {
		t := src(f.Type)
		if len(f.Names) == 0 { // embedded
			nm := t
			nm = strings.TrimPrefix(nm, "*")
			if i := strings.LastIndex(nm, "."); i >= 0 {
				nm = nm[i+1:]
			}
			out = append(out, Field{nm, t, ast.IsExported(nm)})
			continue
		}
		for _, n := range f.Names {
			out = append(out, Field{n.Name, t, n.IsExported()})
		}
	}
	return out
}

func (p *pkgInfo) structs() map[string][]Field {
	out := map[string][]Field{}
	for _, f := range p.files {
		for _, d := range f.Decls {
			gd, ok := d.(*ast.GenDecl)
			if !ok || gd.Tok != token.TYPE {
				continue
			}
			for _, s := range gd.Specs {
				ts := s.(*ast.TypeSpec)
				if st, ok := ts.Type.(*ast.StructType); ok {
					out[ts.Name.Name] = structFields(st)
				}
			}
		}
	}
	return out
}

func (p *pkgInfo) interfaces() map[string][]string {
	out := map[string][]string{}
	for _, f := range p.files {
		for _, d := range f.Decls {
			gd, ok := d.(*ast.GenDecl)
			if !ok || gd.Tok != token.TYPE {
				continue
			}
			for _, s := range gd.Specs {
				ts := s.(*ast.TypeSpec)
				if it, ok := ts.Type.(*ast.InterfaceType); ok {
					var ms []string
					for _, m := range it.Methods.List {
						if len(m.Names) == 0 {
							ms = append(ms, src(m.Type))
						} else {
							ms = append(ms, m.Names[0].Name+"()")
						}
					}
					out[ts.Name.Name] = ms
				}
			}
		}
	}
	return out
}

// methods returns receiver type name -> method names.
func (p *pkgInfo) methods() map[string][]string {
	out := map[string][]string{}
	for _, f := range p.files {
		for _, d := range f.Decls {
			fd, ok := d.(*ast.FuncDecl)
			if !ok || fd.Recv == nil || len(fd.Recv.List) == 0 {
				continue
			}
			t := src(fd.Recv.List[0].Type)
			t = strings.TrimPrefix(t, "*")
			out[t] = append(out[t], fd.Name.Name)
		}
	}
	for k := range out {
		sort.Strings(out[k])
	}
	return out
}

func (p *pkgInfo) funcDecl(recv, name string) *ast.FuncDecl {
	for _, f := range p.files {
		for _, d := range f.Decls {
			fd, ok := d.(*ast.FuncDecl)
			if !ok || fd.Name.Name != name {
				continue
			}
			r := ""
			if fd.Recv != nil && len(fd.Recv.List) > 0 {
				r = strings.TrimPrefix(src(fd.Recv.List[0].Type), "*")
			}
			if r == recv {
				return fd
			}
		}
	}
	return nil
}

// ---- Walk table -------------------------------------------------------------------------

type Instr struct {
	Op    string  `json:"op"`              // walk | nilable | list | comments | split | ifnonnil | unknown
	Field string  `json:"field,omitempty"` // selector path relative to node, e.g. "Slice.Offset"
	Cond  string  `json:"cond,omitempty"`  // for split: the predicate text that sends a comment to the deferred slot
	Defer bool    `json:"defer,omitempty"` // split: the first matching element is walked by a defer (after f(nil))
	Body  []Instr `json:"body,omitempty"`
	Text  string  `json:"text,omitempty"`
}

func selPath(e ast.Expr, root string) (string, bool) {
	switch e := e.(type) {
	case *ast.Ident:
		if e.Name == root {
			return "", true
		}
	case *ast.SelectorExpr:
		p, ok := selPath(e.X, root)
		if !ok {
			return "", false
		}
		if p == "" {
			return e.Sel.Name, true
		}
		return p + "." + e.Sel.Name, true
	}
	return "", false
}

func walkInstrs(stmts []ast.Stmt, root string) []Instr {
	var out []Instr
	for _, s := range stmts {
		out = append(out, walkInstr(s, root))
	}
	return out
}

func walkInstr(s ast.Stmt, root string) Instr {
	unknown := Instr{Op: "unknown", Text: src(s)}
	switch s := s.(type) {
	case *ast.ExprStmt:
		call, ok := s.X.(*ast.CallExpr)
		if !ok || len(call.Args) != 2 {
			return unknown
		}
		fn, ok := call.Fun.(*ast.Ident)
		if !ok || src(call.Args[1]) != "f" {
			return unknown
		}
		path, ok := selPath(call.Args[0], root)
		if !ok || path == "" {
			return unknown
		}
		switch fn.Name {
		case "Walk":
			return Instr{Op: "walk", Field: path}
		case "walkNilable":
			return Instr{Op: "nilable", Field: path}
		case "walkList":
			return Instr{Op: "list", Field: path}
		case "walkComments":
			return Instr{Op: "comments", Field: path}
		}
		return unknown
	case *ast.IfStmt:
		// if node.F != nil { ... }
		be, ok := s.Cond.(*ast.BinaryExpr)
		if !ok || be.Op != token.NEQ || src(be.Y) != "nil" || s.Else != nil || s.Init != nil {
			return unknown
		}
		path, ok := selPath(be.X, root)
		if !ok {
			return unknown
		}
		return Instr{Op: "ifnonnil", Field: path, Body: walkInstrs(s.Body.List, root)}
	case *ast.RangeStmt:
		// for _, c := range node.F { if COND { defer Walk(&c, f); break }; Walk(&c, f) }
		path, ok := selPath(s.X, root)
		if !ok || s.Value == nil || len(s.Body.List) != 2 {
			return unknown
		}
		v := src(s.Value)
		ifs, ok := s.Body.List[0].(*ast.IfStmt)
		if !ok || len(ifs.Body.List) != 2 || ifs.Else != nil {
			return unknown
		}
		deferred := false
		trailVar := ""
		switch d := ifs.Body.List[0].(type) {
		case *ast.DeferStmt:
			if src(d.Call) != "Walk(&"+v+", f)" {
				return unknown
			}
			deferred = true
		case *ast.AssignStmt:
			// trailing = node.F[i:] : this comment and all later ones are remembered and
			// walked after the switch, before f(nil)
			if len(d.Lhs) != 1 || len(d.Rhs) != 1 || d.Tok != token.ASSIGN || s.Key == nil ||
				src(d.Rhs[0]) != src(s.X)+"["+src(s.Key)+":]" {
				return unknown
			}
			trailVar = src(d.Lhs[0])
		default:
			return unknown
		}
		if br, ok := ifs.Body.List[1].(*ast.BranchStmt); !ok || br.Tok != token.BREAK {
			return unknown
		}
		if src(s.Body.List[1]) != "Walk(&"+v+", f)" {
			return unknown
		}
		return Instr{Op: "split", Field: path, Cond: src(ifs.Cond), Defer: deferred, Text: trailVar}
	}
	return unknown
}

type WalkFacts struct {
	Cases       map[string][]Instr `json:"cases"`
	Order       []string           `json:"order"`
	Default     string             `json:"default"`
	PreCheck    string             `json:"pre"`  // statements before the switch
	PostCheck   string             `json:"post"` // statements after the switch
	PreorderSrc string             `json:"preorder_src"`
	TrailVar    string             `json:"trail_var"`
	TrailWalked bool               `json:"trail_walked"`
	EntryCheck  bool               `json:"entry_check"`
	NilCall     int                `json:"nil_calls"`
	FrameOther  []string           `json:"frame_other"`
}

func walkFacts(p *pkgInfo) *WalkFacts {
	fd := p.funcDecl("", "Walk")
	if fd == nil {
		fail("syntax.Walk not found")
		return nil
	}
	wf := &WalkFacts{Cases: map[string][]Instr{}}
	var pre, post []string
	seenSwitch := false
	for _, s := range fd.Body.List {
		ts, ok := s.(*ast.TypeSwitchStmt)
		if !ok {
			if seenSwitch {
				post = append(post, src(s))
			} else {
				pre = append(pre, src(s))
			}
			continue
		}
		seenSwitch = true
		root := "node"
		if as, ok := ts.Assign.(*ast.AssignStmt); ok {
			root = src(as.Lhs[0])
		}
		for _, c := range ts.Body.List {
			cc := c.(*ast.CaseClause)
			if cc.List == nil {
				d := "other"
				if len(cc.Body) == 1 && strings.HasPrefix(src(cc.Body[0]), "panic(") {
					d = "panic"
				}
				wf.Default = d
				continue
			}
			for _, t := range cc.List {
				name := strings.TrimPrefix(src(t), "*")
				wf.Cases[name] = walkInstrs(cc.Body, root)
				if wf.Cases[name] == nil {
					wf.Cases[name] = []Instr{}
				}
				wf.Order = append(wf.Order, name)
			}
		}
	}
	wf.PreCheck = strings.Join(pre, " ; ")
	wf.PostCheck = strings.Join(post, " ; ")
	// structured view of the frame: `if !f(node) { return }` [var X *Comment] switch … [if X != nil { Walk(X, f) }] f(nil)
	for _, s := range fd.Body.List {
		switch s := s.(type) {
		case *ast.DeclStmt:
			if gd, ok := s.Decl.(*ast.GenDecl); ok && gd.Tok == token.VAR && len(gd.Specs) == 1 {
				vs := gd.Specs[0].(*ast.ValueSpec)
				if len(vs.Names) == 1 && len(vs.Values) == 0 {
					wf.TrailVar = vs.Names[0].Name
				}
			}
		case *ast.IfStmt:
			if src(s.Cond) == "!f(node)" && len(s.Body.List) == 1 && src(s.Body.List[0]) == "return" {
				wf.EntryCheck = true
			} else {
				wf.FrameOther = append(wf.FrameOther, src(s))
			}
		case *ast.ExprStmt:
			if wf.TrailVar != "" && src(s) == "walkComments("+wf.TrailVar+", f)" && wf.NilCall == 0 {
				wf.TrailWalked = true
			} else if src(s) == "f(nil)" {
				if s != fd.Body.List[len(fd.Body.List)-1] {
					wf.FrameOther = append(wf.FrameOther, "f(nil) is not the last statement")
				}
				wf.NilCall++
			} else {
				wf.FrameOther = append(wf.FrameOther, src(s))
			}
		case *ast.TypeSwitchStmt:
		default:
			wf.FrameOther = append(wf.FrameOther, src(s))
		}
	}
	if pf := p.funcDecl("", "Preorder"); pf != nil {
		wf.PreorderSrc = src(pf.Body)
	}
	return wf
}

// ---- assignments inside a function: which fields of recv are assigned ---------------------

type AssignFacts struct {
	Assigned   []string          `json:"assigned"` // recv.F = …  (top-level selector under the receiver)
	Literal    map[string]string `json:"literal"`  // fields of the first composite literal of type lit (value source text)
	LiteralTyp string            `json:"literal_type"`
	Calls      []string          `json:"calls"` // method calls on the receiver
}

func assignFacts(fd *ast.FuncDecl, litType string) *AssignFacts {
	if fd == nil {
		return nil
	}
	recv := ""
	if fd.Recv != nil && len(fd.Recv.List) > 0 && len(fd.Recv.List[0].Names) > 0 {
		recv = fd.Recv.List[0].Names[0].Name
	}
	af := &AssignFacts{Literal: map[string]string{}, LiteralTyp: litType}
	seen := map[string]bool{}
	litVar := ""
	add := func(root string, e ast.Expr) {
		// strip index/slice/star
		for {
			switch x := e.(type) {
			case *ast.IndexExpr:
				e = x.X
				continue
			case *ast.SliceExpr:
				e = x.X
				continue
			case *ast.StarExpr:
				e = x.X
				continue
			case *ast.ParenExpr:
				e = x.X
				continue
			}
			break
		}
		if path, ok := selPath(e, root); ok && path != "" {
			top := strings.SplitN(path, ".", 2)[0]
			if !seen[root+"."+top] {
				seen[root+"."+top] = true
				if root == recv {
					af.Assigned = append(af.Assigned, top)
				} else {
					af.Assigned = append(af.Assigned, root+"."+top)
				}
			}
		}
	}
	ast.Inspect(fd.Body, func(n ast.Node) bool {
		switch n := n.(type) {
		case *ast.AssignStmt:
			for i, l := range n.Lhs {
				if recv != "" {
					add(recv, l)
				}
				if litVar != "" {
					add(litVar, l)
				}
				// *p = Parser{...} style or r2 := &Runner{...}
				if i < len(n.Rhs) {
					rhs := n.Rhs[i]
					if u, ok := rhs.(*ast.UnaryExpr); ok && u.Op == token.AND {
						rhs = u.X
					}
					if cl, ok := rhs.(*ast.CompositeLit); ok && litType != "" && src(cl.Type) == litType && len(af.Literal) == 0 {
						if id, ok := l.(*ast.Ident); ok {
							litVar = id.Name
						}
						if st, ok := l.(*ast.StarExpr); ok {
							if id, ok := st.X.(*ast.Ident); ok && id.Name == recv {
								af.Literal["*"] = "whole-struct"
							}
						}
						for _, el := range cl.Elts {
							if kv, ok := el.(*ast.KeyValueExpr); ok {
								af.Literal[src(kv.Key)] = src(kv.Value)
							}
						}
					}
				}
			}
		case *ast.IncDecStmt:
			if recv != "" {
				add(recv, n.X)
			}
		case *ast.CallExpr:
			if se, ok := n.Fun.(*ast.SelectorExpr); ok {
				if id, ok := se.X.(*ast.Ident); ok && id.Name == recv {
					af.Calls = append(af.Calls, se.Sel.Name)
				}
				// clear(r.X) etc handled below
			}
			if id, ok := n.Fun.(*ast.Ident); ok && (id.Name == "clear") && len(n.Args) == 1 && recv != "" {
				add(recv, n.Args[0])
			}
		}
		return true
	})
	return af
}

// ---- type switches ---------------------------------------------------------------------

type SwitchFacts struct {
	File    string   `json:"file"`
	Func    string   `json:"func"`
	On      string   `json:"on"`
	Cases   []string `json:"cases"`
	Default string   `json:"default"` // none | panic | other
	Line    int      `json:"line"`
}

func typeSwitches(p *pkgInfo) []SwitchFacts {
	var out []SwitchFacts
	names := []string{}
	for n := range p.files {
		names = append(names, n)
	}
	sort.Strings(names)
	for _, fn := range names {
		f := p.files[fn]
		for _, d := range f.Decls {
			fd, ok := d.(*ast.FuncDecl)
			if !ok || fd.Body == nil {
				continue
			}
			fname := fd.Name.Name
			if fd.Recv != nil && len(fd.Recv.List) > 0 {
				fname = strings.TrimPrefix(src(fd.Recv.List[0].Type), "*") + "." + fname
			}
			ast.Inspect(fd.Body, func(n ast.Node) bool {
				ts, ok := n.(*ast.TypeSwitchStmt)
				if !ok {
					return true
				}
				sf := SwitchFacts{File: fn, Func: fname, Default: "none", Line: fset.Position(ts.Pos()).Line}
				switch a := ts.Assign.(type) {
				case *ast.AssignStmt:
					sf.On = src(a.Rhs[0])
				case *ast.ExprStmt:
					sf.On = src(a.X)
				}
				for _, c := range ts.Body.List {
					cc := c.(*ast.CaseClause)
					if cc.List == nil {
						sf.Default = "other"
						for _, b := range cc.Body {
							if strings.HasPrefix(src(b), "panic(") {
								sf.Default = "panic"
							}
						}
						continue
					}
					for _, t := range cc.List {
						sf.Cases = append(sf.Cases, strings.TrimPrefix(src(t), "*"))
					}
				}
				out = append(out, sf)
				return true
			})
		}
	}
	return out
}

// ---- constants with iota (token tables) ------------------------------------------------------

type ConstFacts struct {
	Name    string `json:"name"`
	Type    string `json:"type"`
	Value   string `json:"value"`   // source text of the value expression ("" when implicit iota repeat)
	Comment string `json:"comment"` // trailing line comment
	Group   int    `json:"group"`
	Index   int    `json:"index"` // iota within the group
}

func constFacts(p *pkgInfo, file string) []ConstFacts {
	f := p.files[file]
	if f == nil {
		fail("file not found: " + file)
		return nil
	}
	var out []ConstFacts
	g := 0
	for _, d := range f.Decls {
		gd, ok := d.(*ast.GenDecl)
		if !ok || gd.Tok != token.CONST {
			continue
		}
		g++
		lastType, lastVal := "", ""
		for i, s := range gd.Specs {
			vs := s.(*ast.ValueSpec)
			if vs.Type != nil {
				lastType = src(vs.Type)
			}
			val := ""
			if len(vs.Values) > 0 {
				val = src(vs.Values[0])
				lastVal = val
				if vs.Type == nil {
					// typed via conversion e.g. RedirOperator(rdrOut) — keep lastType only if implicit repeat
					lastType = ""
				}
			} else {
				val = lastVal
			}
			_ = val
			cm := ""
			if vs.Comment != nil {
				cm = strings.TrimSpace(vs.Comment.Text())
			}
			for _, n := range vs.Names {
				v := ""
				if len(vs.Values) > 0 {
					v = src(vs.Values[0])
				}
				out = append(out, ConstFacts{Name: n.Name, Type: lastType, Value: v, Comment: cm, Group: g, Index: i})
			}
		}
	}
	return out
}

// selector uses of given receiver fields across a package: field -> functions that mention it
func selectorUses(p *pkgInfo, recvType string, fields []string) map[string][]string {
	want := map[string]bool{}
	for _, f := range fields {
		want[f] = true
	}
	out := map[string]map[string]bool{}
	for _, f := range p.files {
		for _, d := range f.Decls {
			fd, ok := d.(*ast.FuncDecl)
			if !ok || fd.Body == nil || fd.Recv == nil || len(fd.Recv.List) == 0 || len(fd.Recv.List[0].Names) == 0 {
				continue
			}
			if strings.TrimPrefix(src(fd.Recv.List[0].Type), "*") != recvType {
				continue
			}
			rv := fd.Recv.List[0].Names[0].Name
			ast.Inspect(fd.Body, func(n ast.Node) bool {
				se, ok := n.(*ast.SelectorExpr)
				if !ok {
					return true
				}
				if id, ok := se.X.(*ast.Ident); ok && id.Name == rv && want[se.Sel.Name] {
					if out[se.Sel.Name] == nil {
						out[se.Sel.Name] = map[string]bool{}
					}
					out[se.Sel.Name][fd.Name.Name] = true
				}
				return true
			})
		}
	}
	res := map[string][]string{}
	for k, v := range out {
		for fn := range v {
			res[k] = append(res[k], fn)
		}
		sort.Strings(res[k])
	}
	return res
}

// selectorUseCounts: like selectorUses, with the number of mentions per function
// (field -> function -> count), so that a table obligation can pin down how often a function that is
// only partly a primitive (Parser.next: the stop-word test) touches the buffer fields.
func selectorUseCounts(p *pkgInfo, recvType string, fields []string) map[string]map[string]int {
	want := map[string]bool{}
	for _, f := range fields {
		want[f] = true
	}
	out := map[string]map[string]int{}
	for _, f := range p.files {
		for _, d := range f.Decls {
			fd, ok := d.(*ast.FuncDecl)
			if !ok || fd.Body == nil || fd.Recv == nil || len(fd.Recv.List) == 0 || len(fd.Recv.List[0].Names) == 0 {
				continue
			}
			if strings.TrimPrefix(src(fd.Recv.List[0].Type), "*") != recvType {
				continue
			}
			rv := fd.Recv.List[0].Names[0].Name
			ast.Inspect(fd.Body, func(n ast.Node) bool {
				se, ok := n.(*ast.SelectorExpr)
				if !ok {
					return true
				}
				if id, ok := se.X.(*ast.Ident); ok && id.Name == rv && want[se.Sel.Name] {
					if out[se.Sel.Name] == nil {
						out[se.Sel.Name] = map[string]int{}
					}
					out[se.Sel.Name][fd.Name.Name]++
				}
				return true
			})
		}
	}
	return out
}

func funcSrc(p *pkgInfo, recv, name string) string {
	fd := p.funcDecl(recv, name)
	if fd == nil {
		return ""
	}
	return src(fd)
}

func main() {
	repo := "/repo"
	if len(os.Args) > 1 {
		repo = os.Args[1]
	}
	syn := loadPkg(filepath.Join(repo, "syntax"))
	tj := loadPkg(filepath.Join(repo, "syntax", "typedjson"))
	itp := loadPkg(filepath.Join(repo, "interp"))
	exp := loadPkg(filepath.Join(repo, "expand"))

	facts := map[string]any{}
	facts["syntax"] = map[string]any{
		"structs":            syn.structs(),
		"interfaces":         syn.interfaces(),
		"methods":            syn.methods(),
		"walk":               walkFacts(syn),
		"parser_reset":       assignFacts(syn.funcDecl("Parser", "reset"), "Parser"),
		"printer_reset":      assignFacts(syn.funcDecl("Printer", "reset"), "Printer"),
		"type_switches":      typeSwitches(syn),
		"tokens":             constFacts(syn, "tokens.go"),
		"byte_access":        selectorUses(syn, "Parser", []string{"bs", "bsp", "src", "readBuf", "readErr", "readEOF", "litBs", "offs"}),
		"byte_access_counts": selectorUseCounts(syn, "Parser", []string{"bs", "bsp"}),
		"token_string":       funcSrc(syn, "token", "String"),
	}
	facts["typedjson"] = map[string]any{
		"type_switches": typeSwitches(tj),
	}
	facts["interp"] = map[string]any{
		"structs":       itp.structs(),
		"reset":         assignFacts(itp.funcDecl("Runner", "Reset"), "Runner"),
		"subshell":      assignFacts(itp.funcDecl("Runner", "subshell"), "Runner"),
		"type_switches": typeSwitches(itp),
	}
	facts["expand"] = map[string]any{
		"structs":       exp.structs(),
		"type_switches": typeSwitches(exp),
	}
	// plug-ins: other files of this package register `func(repo string, facts map[string]any)`
	// in extraFacts from an init(); they add NEW top-level keys only.
	for _, f := range extraFacts {
		f(repo, facts)
	}
	addC15Facts(facts, syn, tj)        // extract/c15.go: add-only keys for C15
	facts["posend"] = posEndFacts(syn) // C09 (posend.go)
	facts["problems"] = problems
	enc := json.NewEncoder(os.Stdout)
	enc.SetIndent("", " ")
	if err := enc.Encode(facts); err != nil {
		fmt.Fprintln(os.Stderr, err)
		os.Exit(1)
	}
	if len(problems) > 0 {
		os.Exit(3)
	}
}
