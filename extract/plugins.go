package main

// extraFacts is the plug-in registry of the extractor: a file of this package adds
// `func(repo string, facts map[string]any)` from an init() and writes NEW top-level keys only.
var extraFacts []func(repo string, facts map[string]any)
