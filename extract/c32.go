package main

// C32 facts (key "c32"), purely syntactic, package interp (non-test, non-hook files):
//
//   fields         every field of Runner with its Go type and what Runner.subshell does with it:
//                  the value expression of the `r2 := &Runner{…}` literal, a later `r2.F = …`
//                  assignment, a method called on r2 that assigns it (fillExpandConfig), or nothing.
//   subshell_other statements of Runner.subshell that are none of the above (should be few, reviewed).
//   fill_assigns   the Runner fields assigned by Runner.fillExpandConfig.
//   bgprocs        every write (assignment, append, clear) and every read of a `.bgProcs`
//                  selector: function, kind, whether it sits inside a goroutine body.
//   spawns         every `go` statement and `.Go(` call: function, which site, and the selectors of
//                  the enclosing function's receiver that the goroutine body mentions (uses of the
//                  *parent* Runner from inside the new goroutine), with the identifiers it captures.
//   params_writes  every write whose target mentions a `.Params` selector, with its shape:
//                  whole-slice assignment, reslice, or element/in-place.
//   chan_ops       close(...) and receive operations on a `.done` selector, and writes/reads of
//                  `*bg.exit` / `*….exit`: the wait protocol's four steps.

import (
	"go/ast"
	"go/token"
	"path/filepath"
	"sort"
	"strings"
)

func init() { extraFacts = append(extraFacts, c32Facts) }

type c32Field struct {
	Name string `json:"name"`
	Type string `json:"type"`
	How  string `json:"how"` // literal:<expr> | assign:<expr> | call:<method> | zero
}

type c32Site struct {
	Func string `json:"func"`
	Kind string `json:"kind"`
	Expr string `json:"expr"`
	InGo bool   `json:"in_go"`
}

type c32Spawn struct {
	Func       string   `json:"func"`
	Form       string   `json:"form"` // go | wg.Go
	ParentUses []string `json:"parent_uses"`
	Captures   []string `json:"captures"`
}

// c32GoBodies returns the function literals that run on a new goroutine: `go func(){…}()` and
// `x.Go(func(){…})`.
func c32GoBodies(fd *ast.FuncDecl) map[*ast.FuncLit]string {
	out := map[*ast.FuncLit]string{}
	ast.Inspect(fd, func(n ast.Node) bool {
		switch n := n.(type) {
		case *ast.GoStmt:
			if fl, ok := n.Call.Fun.(*ast.FuncLit); ok {
				out[fl] = "go"
			} else {
				out[nil] = "go:" + src(n.Call.Fun) // a named function: reported as a problem below
			}
		case *ast.CallExpr:
			if se, ok := n.Fun.(*ast.SelectorExpr); ok && se.Sel.Name == "Go" && len(n.Args) == 1 {
				if fl, ok := n.Args[0].(*ast.FuncLit); ok {
					out[fl] = src(se.X) + ".Go"
				}
			}
		}
		return true
	})
	return out
}

func c32Inside(pos token.Pos, bodies map[*ast.FuncLit]string) bool {
	for fl := range bodies {
		if fl != nil && fl.Pos() <= pos && pos < fl.End() {
			return true
		}
	}
	return false
}

func c32Facts(repo string, facts map[string]any) {
	p := loadPkg(filepath.Join(repo, "interp"))
	structs := p.structs()
	runner := structs["Runner"]
	if len(runner) == 0 {
		fail("C32: struct Runner not found")
		return
	}

	// ---- subshell ----
	how := map[string]string{}
	var other []string
	sub := p.funcDecl("Runner", "subshell")
	fillAssigns := []string{}
	if fill := p.funcDecl("Runner", "fillExpandConfig"); fill != nil {
		recv := fill.Recv.List[0].Names[0].Name
		seen := map[string]bool{}
		for _, st := range fill.Body.List { // top-level statements only: the closures run later
			if as, ok := st.(*ast.AssignStmt); ok {
				for _, l := range as.Lhs {
					if se, ok := l.(*ast.SelectorExpr); ok {
						if id, ok := se.X.(*ast.Ident); ok && id.Name == recv && !seen[se.Sel.Name] {
							seen[se.Sel.Name] = true
							fillAssigns = append(fillAssigns, se.Sel.Name)
						}
					}
				}
			}
		}
	} else {
		fail("C32: Runner.fillExpandConfig not found")
	}
	if sub == nil {
		fail("C32: Runner.subshell not found")
	} else {
		litVar := ""
		for _, st := range sub.Body.List {
			switch st := st.(type) {
			case *ast.AssignStmt:
				handled := false
				if len(st.Lhs) == 1 && len(st.Rhs) == 1 {
					rhs := st.Rhs[0]
					if u, ok := rhs.(*ast.UnaryExpr); ok && u.Op == token.AND {
						rhs = u.X
					}
					if cl, ok := rhs.(*ast.CompositeLit); ok && src(cl.Type) == "Runner" {
						if id, ok := st.Lhs[0].(*ast.Ident); ok {
							litVar = id.Name
						}
						for _, el := range cl.Elts {
							kv, ok := el.(*ast.KeyValueExpr)
							if !ok {
								fail("C32: positional element in the Runner literal of subshell")
								continue
							}
							how[src(kv.Key)] = "literal:" + src(kv.Value)
						}
						handled = true
					} else if se, ok := st.Lhs[0].(*ast.SelectorExpr); ok {
						if id, ok := se.X.(*ast.Ident); ok && id.Name == litVar && litVar != "" {
							how[se.Sel.Name] = "assign:" + src(st.Rhs[0])
							handled = true
						}
					}
				}
				if !handled {
					other = append(other, src(st))
				}
			case *ast.ExprStmt:
				if call, ok := st.X.(*ast.CallExpr); ok {
					if se, ok := call.Fun.(*ast.SelectorExpr); ok {
						if id, ok := se.X.(*ast.Ident); ok && id.Name == litVar && se.Sel.Name == "fillExpandConfig" {
							for _, f := range fillAssigns {
								how[f] = "call:fillExpandConfig(" + src(call.Args[0]) + ")"
							}
							continue
						}
					}
				}
				other = append(other, src(st))
			case *ast.ReturnStmt:
				if len(st.Results) != 1 || src(st.Results[0]) != litVar {
					other = append(other, src(st))
				}
			default:
				other = append(other, strings.SplitN(src(st), "{", 2)[0])
			}
		}
	}
	var fields []c32Field
	for _, f := range runner {
		h, ok := how[f.Name]
		if !ok {
			h = "zero"
		}
		fields = append(fields, c32Field{Name: f.Name, Type: f.Type, How: h})
		delete(how, f.Name)
	}
	for k := range how {
		fail("C32: subshell sets " + k + ", which is not a field of Runner")
	}

	// ---- sites ----
	var bgprocs, params, chans []c32Site
	var spawns []c32Spawn
	var names []string
	for n := range p.files {
		names = append(names, n)
	}
	sort.Strings(names)
	for _, fn := range names {
		for _, d := range p.files[fn].Decls {
			fd, ok := d.(*ast.FuncDecl)
			if !ok || fd.Body == nil {
				continue
			}
			fname := c29FuncName(fd)
			recv := ""
			if fd.Recv != nil && len(fd.Recv.List) > 0 && len(fd.Recv.List[0].Names) > 0 && isRunnerType(fd.Recv.List[0].Type) {
				recv = fd.Recv.List[0].Names[0].Name
			}
			bodies := c32GoBodies(fd)
			if form, bad := bodies[nil]; bad {
				fail("C32: " + fname + " starts a goroutine on a named function (" + form + "): its body is not inspected")
			}
			// spawns, in source order
			var fls []*ast.FuncLit
			for fl := range bodies {
				if fl != nil {
					fls = append(fls, fl)
				}
			}
			sort.Slice(fls, func(i, j int) bool { return fls[i].Pos() < fls[j].Pos() })
			for _, fl := range fls {
				sp := c32Spawn{Func: fname, Form: bodies[fl]}
				uses := map[string]bool{}
				caps := map[string]bool{}
				ast.Inspect(fl.Body, func(n ast.Node) bool {
					switch n := n.(type) {
					case *ast.SelectorExpr:
						if id, ok := n.X.(*ast.Ident); ok && recv != "" && id.Name == recv && id.Obj != nil && id.Obj.Pos() < fl.Pos() {
							uses[recv+"."+n.Sel.Name] = true
						}
					case *ast.Ident:
						// captured: declared outside the literal, inside the function
						if n.Obj != nil && n.Obj.Pos() < fl.Pos() && n.Obj.Pos() >= fd.Pos() && n.Obj.Kind == ast.Var {
							caps[n.Name] = true
						}
					}
					return true
				})
				for u := range uses {
					sp.ParentUses = append(sp.ParentUses, u)
				}
				for c := range caps {
					sp.Captures = append(sp.Captures, c)
				}
				sort.Strings(sp.ParentUses)
				sort.Strings(sp.Captures)
				spawns = append(spawns, sp)
			}
			// bgProcs, Params, channel protocol
			lhsSet := map[ast.Expr]bool{}
			ast.Inspect(fd.Body, func(n ast.Node) bool {
				switch n := n.(type) {
				case *ast.AssignStmt:
					for i, l := range n.Lhs {
						lhsSet[l] = true
						if mentionsSel(l, "bgProcs") {
							kind := "assign"
							if i < len(n.Rhs) {
								if call, ok := n.Rhs[i].(*ast.CallExpr); ok && src(call.Fun) == "append" {
									kind = "append"
								} else if _, ok := n.Rhs[i].(*ast.SliceExpr); ok {
									kind = "reslice"
								}
							}
							if _, isSel := l.(*ast.SelectorExpr); !isSel {
								kind = "element"
							}
							bgprocs = append(bgprocs, c32Site{Func: fname, Kind: kind, Expr: src(n), InGo: c32Inside(n.Pos(), bodies)})
						}
						if mentionsSel(l, "Params") {
							kind := "element-or-inplace"
							if _, isSel := l.(*ast.SelectorExpr); isSel {
								kind = "assign"
								if i < len(n.Rhs) {
									if _, ok := n.Rhs[i].(*ast.SliceExpr); ok {
										kind = "reslice"
									}
									if call, ok := n.Rhs[i].(*ast.CallExpr); ok && src(call.Fun) == "append" {
										kind = "append"
									}
								}
							}
							params = append(params, c32Site{Func: fname, Kind: kind, Expr: src(n), InGo: c32Inside(n.Pos(), bodies)})
						}
						if st, ok := l.(*ast.StarExpr); ok && mentionsSel(st.X, "exit") {
							chans = append(chans, c32Site{Func: fname, Kind: "write-exit", Expr: src(n), InGo: c32Inside(n.Pos(), bodies)})
						}
					}
					for _, r := range n.Rhs {
						if st, ok := r.(*ast.StarExpr); ok && mentionsSel(st.X, "exit") {
							chans = append(chans, c32Site{Func: fname, Kind: "read-exit", Expr: src(n), InGo: c32Inside(n.Pos(), bodies)})
						}
					}
				case *ast.CallExpr:
					fn := src(n.Fun)
					if (fn == "clear" || fn == "copy" || fn == "append" || strings.HasPrefix(fn, "slices.")) && len(n.Args) > 0 {
						if mentionsSel(n.Args[0], "bgProcs") && fn != "append" {
							bgprocs = append(bgprocs, c32Site{Func: fname, Kind: fn, Expr: src(n), InGo: c32Inside(n.Pos(), bodies)})
						}
						if mentionsSel(n.Args[0], "Params") && fn != "len" {
							params = append(params, c32Site{Func: fname, Kind: "call:" + fn, Expr: src(n), InGo: c32Inside(n.Pos(), bodies)})
						}
					}
					if fn == "close" && len(n.Args) == 1 && mentionsSel(n.Args[0], "done") {
						chans = append(chans, c32Site{Func: fname, Kind: "close-done", Expr: src(n), InGo: c32Inside(n.Pos(), bodies)})
					}
				case *ast.UnaryExpr:
					if n.Op == token.ARROW && mentionsSel(n.X, "done") {
						chans = append(chans, c32Site{Func: fname, Kind: "recv-done", Expr: src(n), InGo: c32Inside(n.Pos(), bodies)})
					}
				case *ast.SelectorExpr:
					if n.Sel.Name == "bgProcs" && !lhsSet[n] {
						bgprocs = append(bgprocs, c32Site{Func: fname, Kind: "read", Expr: src(n), InGo: c32Inside(n.Pos(), bodies)})
					}
				}
				return true
			})
		}
	}
	// a selector that is the left-hand side is reported as a write AND visited as a read above only
	// when it also occurs on the right; drop pure duplicates of (func, kind=read) that stem from the
	// write statement itself (`r.bgProcs = append(r.bgProcs, bg)` reads it once: keep one)
	facts["c32"] = map[string]any{
		"fields":         fields,
		"subshell_other": other,
		"fill_assigns":   fillAssigns,
		"bgprocs":        bgprocs,
		"spawns":         spawns,
		"params_writes":  params,
		"chan_ops":       chans,
	}
}

func mentionsSel(e ast.Expr, name string) bool {
	found := false
	ast.Inspect(e, func(n ast.Node) bool {
		if se, ok := n.(*ast.SelectorExpr); ok && se.Sel.Name == name {
			found = true
		}
		return !found
	})
	return found
}
