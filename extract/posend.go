package main

// C09: every node type's Pos() and End() body (and the helper functions they call) as an
// expression tree.  The bodies are straight-line code over `return`, `if`, `:=`/`=`; the
// extractor executes them symbolically (local variables are substituted, `if c { x = e }` becomes a
// conditional expression) so that the result is one expression per method.  Anything it cannot
// read becomes {"k":"unknown"} and a problem (exit 3).

import (
	"go/ast"
	"go/token"
	"sort"
	"strconv"
	"strings"
)

type J = map[string]any

type peCtx struct {
	p       *pkgInfo
	structs map[string][]Field
	helpers map[string]bool // package-level functions returning Pos that bodies may call
	used    map[string]bool
	what    string
}

type peVal struct {
	expr J      // Pos-typed expression, or nil
	ref  J      // reference to a node / list / scalar field, or nil
	typ  string // Go type text of ref ("*Stmt", "[]*Word", "Pos", "bool", "string", "Command" …)
}

type peEnv map[string]peVal

func (e peEnv) clone() peEnv {
	o := peEnv{}
	for k, v := range e {
		o[k] = v
	}
	return o
}

func (c *peCtx) unknown(n ast.Node) J {
	fail("C09 " + c.what + ": expression shape not understood: " + src(n))
	return J{"k": "unknown", "text": src(n)}
}

func (c *peCtx) fieldType(recvType, name string) string {
	t := strings.TrimPrefix(strings.TrimPrefix(recvType, "[]"), "*")
	for _, f := range c.structs[t] {
		if f.Name == name {
			return f.Type
		}
	}
	return ""
}

// ref translates an expression denoting a node, a list of nodes or a scalar field.
func (c *peCtx) ref(e ast.Expr, env peEnv) (J, string, bool) {
	switch e := e.(type) {
	case *ast.ParenExpr:
		return c.ref(e.X, env)
	case *ast.Ident:
		if v, ok := env[e.Name]; ok && v.ref != nil {
			return v.ref, v.typ, true
		}
	case *ast.SelectorExpr:
		r, t, ok := c.ref(e.X, env)
		if !ok {
			return nil, "", false
		}
		ft := c.fieldType(t, e.Sel.Name)
		if ft == "" {
			return nil, "", false
		}
		return J{"k": "fld", "r": r, "name": e.Sel.Name}, ft, true
	case *ast.IndexExpr:
		r, t, ok := c.ref(e.X, env)
		if !ok || !strings.HasPrefix(t, "[]") {
			return nil, "", false
		}
		idx := src(e.Index)
		if idx == "0" {
			return J{"k": "first", "r": r}, t[2:], true
		}
		if idx == "len("+src(e.X)+")-1" || idx == "len("+src(e.X)+") - 1" {
			return J{"k": "last", "r": r}, t[2:], true
		}
	}
	return nil, "", false
}

func (c *peCtx) kexpr(e ast.Expr, env peEnv) J {
	switch e := e.(type) {
	case *ast.ParenExpr:
		return c.kexpr(e.X, env)
	case *ast.BasicLit:
		if e.Kind == token.INT {
			n, err := strconv.Atoi(e.Value)
			if err == nil {
				return J{"k": "const", "v": n}
			}
		}
	case *ast.UnaryExpr:
		if e.Op == token.SUB {
			if bl, ok := e.X.(*ast.BasicLit); ok && bl.Kind == token.INT {
				n, err := strconv.Atoi(bl.Value)
				if err == nil {
					return J{"k": "const", "v": -n}
				}
			}
		}
	case *ast.BinaryExpr:
		if e.Op == token.ADD {
			return J{"k": "add", "a": c.kexpr(e.X, env), "b": c.kexpr(e.Y, env)}
		}
	case *ast.CallExpr:
		if id, ok := e.Fun.(*ast.Ident); ok && id.Name == "len" && len(e.Args) == 1 {
			arg := e.Args[0]
			if bl, ok := arg.(*ast.BasicLit); ok && bl.Kind == token.STRING {
				s, err := strconv.Unquote(bl.Value)
				if err == nil {
					// the token text is kept so that the expectation can name it
					return J{"k": "lentok", "s": s}
				}
			}
			// len(x.Op.String())
			if ce, ok := arg.(*ast.CallExpr); ok && len(ce.Args) == 0 {
				if se, ok := ce.Fun.(*ast.SelectorExpr); ok && se.Sel.Name == "String" {
					if r, _, ok := c.ref(se.X, env); ok {
						return J{"k": "lenop", "r": r}
					}
				}
			}
			if r, t, ok := c.ref(arg, env); ok && t == "string" {
				return J{"k": "lenfield", "r": r}
			}
		}
	}
	return c.unknown(e)
}

// pexpr translates a Pos-typed expression.
func (c *peCtx) pexpr(e ast.Expr, env peEnv) J {
	switch e := e.(type) {
	case *ast.ParenExpr:
		return c.pexpr(e.X, env)
	case *ast.Ident:
		if v, ok := env[e.Name]; ok && v.expr != nil {
			return v.expr
		}
	case *ast.CompositeLit:
		if src(e.Type) == "Pos" && len(e.Elts) == 0 {
			return J{"k": "zero"}
		}
	case *ast.SelectorExpr:
		if r, t, ok := c.ref(e, env); ok && t == "Pos" {
			return J{"k": "ref", "r": r}
		}
	case *ast.CallExpr:
		switch fn := e.Fun.(type) {
		case *ast.Ident:
			switch {
			case fn.Name == "posAddCol" && len(e.Args) == 2:
				return J{"k": "addcol", "e": c.pexpr(e.Args[0], env), "n": c.kexpr(e.Args[1], env)}
			case fn.Name == "posMax" && len(e.Args) == 2:
				return J{"k": "max", "a": c.pexpr(e.Args[0], env), "b": c.pexpr(e.Args[1], env)}
			case c.helpers[fn.Name]:
				var args []any
				for _, a := range e.Args {
					r, _, ok := c.ref(a, env)
					if !ok {
						return c.unknown(e)
					}
					args = append(args, r)
				}
				c.used[fn.Name] = true
				return J{"k": "call", "fn": fn.Name, "args": args}
			}
		case *ast.SelectorExpr:
			if len(e.Args) == 0 && (fn.Sel.Name == "Pos" || fn.Sel.Name == "End") {
				if r, t, ok := c.ref(fn.X, env); ok && t != "Pos" {
					return J{"k": strings.ToLower(fn.Sel.Name), "r": r}
				}
			}
		}
	}
	return c.unknown(e)
}

func (c *peCtx) cond(e ast.Expr, env peEnv) J {
	switch e := e.(type) {
	case *ast.ParenExpr:
		return c.cond(e.X, env)
	case *ast.UnaryExpr:
		if e.Op == token.NOT {
			return J{"k": "not", "c": c.cond(e.X, env)}
		}
	case *ast.BinaryExpr:
		switch e.Op {
		case token.LOR:
			return J{"k": "or", "a": c.cond(e.X, env), "b": c.cond(e.Y, env)}
		case token.LAND:
			return J{"k": "and", "a": c.cond(e.X, env), "b": c.cond(e.Y, env)}
		case token.NEQ, token.EQL:
			if src(e.Y) == "nil" {
				if r, t, ok := c.ref(e.X, env); ok && t != "Pos" && t != "bool" && t != "string" && !strings.HasPrefix(t, "[]") {
					if e.Op == token.NEQ {
						return J{"k": "nonnil", "r": r}
					}
					return J{"k": "isnil", "r": r}
				}
			}
			fallthrough
		case token.GTR:
			// len(x) > 0, len(x) == 0, len(x) != 0
			if ce, ok := e.X.(*ast.CallExpr); ok && src(ce.Fun) == "len" && len(ce.Args) == 1 && src(e.Y) == "0" {
				if r, t, ok := c.ref(ce.Args[0], env); ok && strings.HasPrefix(t, "[]") {
					if e.Op == token.EQL {
						return J{"k": "empty", "r": r}
					}
					return J{"k": "nonempty", "r": r}
				}
			}
		}
	case *ast.SelectorExpr:
		if r, t, ok := c.ref(e, env); ok && t == "bool" {
			return J{"k": "flag", "r": r}
		}
	case *ast.CallExpr:
		if se, ok := e.Fun.(*ast.SelectorExpr); ok {
			switch {
			case se.Sel.Name == "IsValid" && len(e.Args) == 0:
				return J{"k": "valid", "e": c.pexpr(se.X, env)}
			case se.Sel.Name == "After" && len(e.Args) == 1:
				return J{"k": "after", "a": c.pexpr(se.X, env), "b": c.pexpr(e.Args[0], env)}
			}
		}
	}
	fail("C09 " + c.what + ": condition shape not understood: " + src(e))
	return J{"k": "unknownc", "text": src(e)}
}

// assign executes `x := e` / `x = e`.
func (c *peCtx) assign(s *ast.AssignStmt, env peEnv) bool {
	if len(s.Lhs) != 1 || len(s.Rhs) != 1 || (s.Tok != token.DEFINE && s.Tok != token.ASSIGN) {
		return false
	}
	id, ok := s.Lhs[0].(*ast.Ident)
	if !ok {
		return false
	}
	if r, t, ok := c.ref(s.Rhs[0], env); ok && t != "Pos" {
		env[id.Name] = peVal{ref: r, typ: t}
		return true
	}
	env[id.Name] = peVal{expr: c.pexpr(s.Rhs[0], env)}
	return true
}

func returns(stmts []ast.Stmt) bool {
	if len(stmts) == 0 {
		return false
	}
	switch s := stmts[len(stmts)-1].(type) {
	case *ast.ReturnStmt:
		return true
	case *ast.IfStmt:
		if s.Else == nil {
			return false
		}
		eb, ok := s.Else.(*ast.BlockStmt)
		return ok && returns(s.Body.List) && returns(eb.List)
	}
	return false
}

func containsReturn(stmts []ast.Stmt) bool {
	found := false
	for _, s := range stmts {
		ast.Inspect(s, func(n ast.Node) bool {
			if _, ok := n.(*ast.ReturnStmt); ok {
				found = true
			}
			return true
		})
	}
	return found
}

// run executes a statement list symbolically; the result is the returned expression.
func (c *peCtx) run(stmts []ast.Stmt, env peEnv) J {
	for i, s := range stmts {
		switch s := s.(type) {
		case *ast.ReturnStmt:
			if len(s.Results) != 1 {
				return c.unknown(s)
			}
			return c.pexpr(s.Results[0], env)
		case *ast.AssignStmt:
			if !c.assign(s, env) {
				return c.unknown(s)
			}
		case *ast.IfStmt:
			inner := env.clone()
			if s.Init != nil {
				as, ok := s.Init.(*ast.AssignStmt)
				if !ok || !c.assign(as, inner) {
					return c.unknown(s)
				}
			}
			cd := c.cond(s.Cond, inner)
			rest := stmts[i+1:]
			if s.Else != nil {
				eb, ok := s.Else.(*ast.BlockStmt)
				if !ok || !returns(s.Body.List) || !returns(eb.List) {
					return c.unknown(s)
				}
				return J{"k": "ite", "c": cd, "a": c.run(s.Body.List, inner.clone()), "b": c.run(eb.List, env.clone())}
			}
			if returns(s.Body.List) {
				return J{"k": "ite", "c": cd, "a": c.run(s.Body.List, inner.clone()), "b": c.run(rest, env)}
			}
			if containsReturn(s.Body.List) {
				// the body returns on some paths only: continue with the rest on the others
				seq := append(append([]ast.Stmt{}, s.Body.List...), rest...)
				return J{"k": "ite", "c": cd, "a": c.run(seq, inner.clone()), "b": c.run(rest, env)}
			}
			// a body of plain assignments to existing Pos variables
			body := inner.clone()
			for _, b := range s.Body.List {
				as, ok := b.(*ast.AssignStmt)
				if !ok || as.Tok != token.ASSIGN || !c.assign(as, body) {
					return c.unknown(s)
				}
			}
			var names []string
			for k := range env {
				names = append(names, k)
			}
			sort.Strings(names)
			for _, k := range names {
				old, nw := env[k], body[k]
				if old.expr != nil && nw.expr != nil && src2(old.expr) != src2(nw.expr) {
					env[k] = peVal{expr: J{"k": "ite", "c": cd, "a": nw.expr, "b": old.expr}}
				}
			}
		default:
			return c.unknown(s)
		}
	}
	fail("C09 " + c.what + ": body does not end in return")
	return J{"k": "unknown", "text": "no return"}
}

func src2(j J) string {
	var sb strings.Builder
	var w func(v any)
	w = func(v any) {
		switch v := v.(type) {
		case J:
			keys := make([]string, 0, len(v))
			for k := range v {
				keys = append(keys, k)
			}
			sort.Strings(keys)
			sb.WriteByte('{')
			for _, k := range keys {
				sb.WriteString(k + ":")
				w(v[k])
				sb.WriteByte(',')
			}
			sb.WriteByte('}')
		case []any:
			sb.WriteByte('[')
			for _, x := range v {
				w(x)
				sb.WriteByte(',')
			}
			sb.WriteByte(']')
		default:
			sb.WriteString(strings.TrimSpace(strings.ReplaceAll(strings.ReplaceAll(src3(v), "\n", " "), "\t", " ")))
		}
	}
	w(j)
	return sb.String()
}

func src3(v any) string {
	switch v := v.(type) {
	case string:
		return strconv.Quote(v)
	case int:
		return strconv.Itoa(v)
	}
	return "?"
}

type PosEndFacts struct {
	Types   map[string]J `json:"types"`   // T -> {"pos": expr, "end": expr}
	Helpers map[string]J `json:"helpers"` // f -> {"params": [names], "body": expr}
	Consts  map[string]string `json:"consts"` // the Pos packing constants, source text
	Funcs   map[string]string `json:"funcs"`  // source text of the Pos arithmetic functions (for change detection)
}

func posEndFacts(p *pkgInfo) *PosEndFacts {
	out := &PosEndFacts{Types: map[string]J{}, Helpers: map[string]J{}, Consts: map[string]string{}, Funcs: map[string]string{}}
	c := &peCtx{p: p, structs: p.structs(), helpers: map[string]bool{}, used: map[string]bool{}}
	// package-level functions (no receiver) returning Pos, other than the arithmetic primitives
	for _, f := range p.files {
		for _, d := range f.Decls {
			fd, ok := d.(*ast.FuncDecl)
			if !ok || fd.Recv != nil || fd.Type.Results == nil || len(fd.Type.Results.List) != 1 || src(fd.Type.Results.List[0].Type) != "Pos" {
				continue
			}
			switch fd.Name.Name {
			case "posAddCol", "posMax", "NewPos":
				continue
			}
			c.helpers[fd.Name.Name] = true
		}
	}
	meths := p.methods()
	var names []string
	for t, ms := range meths {
		hasPos, hasEnd := false, false
		for _, m := range ms {
			hasPos = hasPos || m == "Pos"
			hasEnd = hasEnd || m == "End"
		}
		if hasPos && hasEnd && c.structs[t] != nil {
			names = append(names, t)
		}
	}
	sort.Strings(names)
	for _, t := range names {
		ent := J{}
		for _, m := range []string{"Pos", "End"} {
			fd := p.funcDecl(t, m)
			c.what = t + "." + m
			if fd == nil || fd.Body == nil || len(fd.Recv.List[0].Names) != 1 {
				fail("C09: method not found: " + c.what)
				continue
			}
			rv := fd.Recv.List[0].Names[0].Name
			env := peEnv{rv: peVal{ref: J{"k": "self"}, typ: "*" + t}}
			ent[strings.ToLower(m)] = c.run(fd.Body.List, env)
		}
		out.Types[t] = ent
	}
	// helpers actually used (transitively)
	for changed := true; changed; {
		changed = false
		var hs []string
		for h := range c.used {
			hs = append(hs, h)
		}
		sort.Strings(hs)
		for _, h := range hs {
			if _, done := out.Helpers[h]; done {
				continue
			}
			changed = true
			fd := p.funcDecl("", h)
			c.what = h
			env := peEnv{}
			var params []any
			for _, f := range fd.Type.Params.List {
				for _, n := range f.Names {
					env[n.Name] = peVal{ref: J{"k": "param", "name": n.Name}, typ: src(f.Type)}
					params = append(params, n.Name)
				}
			}
			out.Helpers[h] = J{"params": params, "body": c.run(fd.Body.List, env)}
		}
	}
	// Pos packing constants and arithmetic, as source text: the Lean model of Pos is hand-written,
	// so a change of these texts must break an obligation (the expectation quotes them).
	for _, f := range p.files {
		for _, d := range f.Decls {
			switch d := d.(type) {
			case *ast.GenDecl:
				if d.Tok != token.CONST {
					continue
				}
				for _, s := range d.Specs {
					vs := s.(*ast.ValueSpec)
					for i, n := range vs.Names {
						switch n.Name {
						case "offsetRecovered", "offsetMax", "lineBitSize", "lineMax", "colBitSize", "colMax", "colBitMask":
							if i < len(vs.Values) {
								out.Consts[n.Name] = src(vs.Values[i])
							}
						}
					}
				}
			case *ast.FuncDecl:
				name := d.Name.Name
				if d.Recv != nil {
					if strings.TrimPrefix(src(d.Recv.List[0].Type), "*") != "Pos" {
						continue
					}
					name = "Pos." + name
				} else if name != "NewPos" && name != "posAddCol" && name != "posMax" {
					continue
				}
				if d.Body != nil {
					out.Funcs[name] = src(d.Body)
				}
			}
		}
	}
	if v := p.funcDecl("", "NewPos"); v == nil {
		fail("C09: NewPos not found")
	}
	return out
}
