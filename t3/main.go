package main

import (
	"context"
	"fmt"
	"io"
	"os"
	"strings"
	"time"

	"mvdan.cc/sh/v3/interp"
	"mvdan.cc/sh/v3/syntax"
)

func try(src string) {
	f, err := syntax.NewParser().Parse(strings.NewReader(src), "")
	if err != nil {
		fmt.Println(err)
		return
	}
	pr, pw, _ := os.Pipe()
	defer pw.Close()
	r, _ := interp.New(interp.StdIO(pr, io.Discard, io.Discard))
	ctx, cancel := context.WithCancel(context.Background())
	done := make(chan error, 1)
	go func() { done <- r.Run(ctx, f) }()
	time.Sleep(300 * time.Millisecond)
	t0 := time.Now()
	cancel()
	select {
	case err := <-done:
		fmt.Printf("%-45q returned after %v err=%v\n", src, time.Since(t0).Round(time.Millisecond), err)
	case <-time.After(4 * time.Second):
		fmt.Printf("%-45q HANG >4s after cancel\n", src)
	}
}

func main() {
	for _, s := range os.Args[1:] {
		try(s)
	}
}
