#!/bin/sh
# Builds the framework offline from files on disk: Lean library + driver, Go harness, extractor.
set -e
cd "$(dirname "$0")"
export GOFLAGS=-mod=mod GOPROXY=off
mkdir -p .work/bin evidence replays
cmp -s /repo/go.sum harness/go.sum || { cp /repo/go.sum harness/go.sum.tmp && mv harness/go.sum.tmp harness/go.sum; }
python3 bin/gen_dispatch.py
if [ -f bin/extract.py ]; then python3 bin/extract.py all || echo "setup: extractor reported a problem (checks will report it per property)"; fi
mods=$(python3 - <<'PY'
import json,glob
ms=[]
for p in sorted(glob.glob("props/C*.json")):
    c=json.load(open(p))
    if c.get("disabled"): continue
    ms+=c.get("lean_props",["ShVerif.Props."+c["id"]])
print(" ".join(ms))
PY
)
drvs=$(ls lean/ShVerif/Driver/ | sed -n "s/^\(C[0-9]*\)\.lean$/drv_\1/p" | tr "\n" " ")
(cd lean && lake build $mods $drvs) || echo "setup: lake build reported errors (checks will report them per property)"
# one harness binary per property (files are isolated by build tags; a broken one does not stop the others)
for j in props/C*.json; do
  id=$(basename "$j" .json); tag=$(echo "$id" | tr 'A-Z' 'a-z')
  [ -f "harness/$tag.go" ] || continue
  (cd harness && go build -tags "verif,$tag" -o "../.work/bin/vh-$id" . ) || echo "setup: harness build for $id failed (its check will report it)"
done
echo "setup done"
