-- Root of the ShVerif library; the per-property modules are listed in ShVerif/All.lean (generated).
import ShVerif.Base.Hex
