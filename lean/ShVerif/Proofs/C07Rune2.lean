/-
  C07 — `rune` refinement, continued: the ASCII branch, the decode branch, EOF, the retry loop.
-/
import ShVerif.Proofs.C07Rune
namespace ShVerif.C07
open ShVerif ShVerif.L2
set_option linter.unusedSimpArgs false

theorem R.r_ne_of_front {s a b f} (h : R s a) (hf : s.front = b :: f) (hh : a.halted = false) :
    a.r ≠ runeEOF := by
  obtain ⟨hal, _⟩ := h.head hf
  intro hr
  have := (h.eofR hal (by rw [← h.f_r]; exact hr) hh).2.1
  simp [hf] at this

theorem runeAscii_refines {s a} (b : Byte) (f : List Byte) (bq : Nat) (h : R s a)
    (hb : a.behind = none) (hf : s.front = b :: f) (hb7 : b.toNat < 0x80)
    (hh : a.halted = false) :
    ∃ st, St.runeAscii b bq s = .ok st ∧ StepR st (LSt.runeAscii b bq a) := by
  have hr := h.r_ne_of_front hf hh
  obtain ⟨hRa, hcur, hala⟩ := advance_refines h hb hf
  have hra : a.consume.r ≠ runeEOF := by simpa using hr
  have hba : a.consume.behind = none := by simpa using hb
  have hha : a.consume.halted = false := by simpa using hh
  unfold LSt.runeAscii
  unfold St.runeAscii
  simp only
  generalize a.consume = a' at hRa hala hra hba hha ⊢
  generalize s.advance = s' at hRa hcur ⊢
  by_cases h0 : b = 0
  · simp only [h0, beq_self_eq_true, if_true]
    exact ⟨_, rfl, rfl, hRa.setCol 1⟩
  · have e0 : (b == 0) = false := by simp [h0]
    simp only [e0, Bool.false_eq_true, if_false]
    by_cases h13 : b = 13
    · simp only [h13, beq_self_eq_true, if_true]
      obtain ⟨s1, hp1, hR1⟩ := peek_step hRa hha
      rw [peek_eq]
      simp only [hp1, bind_ok]
      by_cases h10 : pk1 a'.rest = 10
      · simp only [h10, beq_self_eq_true, if_true]
        exact ⟨_, rfl, rfl, hR1.setCol 1⟩
      · have e3 : (pk1 a'.rest == 10) = false := by simp [h10]
        simp only [e3, Bool.false_eq_true, if_false]
        have hal1 : a'.forget.peekEff0.err = none := by simpa using hala
        have hr1 : a'.forget.peekEff0.r ≠ runeEOF := by simpa using hra
        have := runeTail_refines 13 bq hR1 hal1 (hR1.cursor_of_ne hr1) (by decide)
        exact ⟨_, rfl, by simpa [StepR] using this⟩
    · have e13 : (b == 13) = false := by simp [h13]
      simp only [e13, Bool.false_eq_true, if_false]
      by_cases h92 : b = 92
      · simp only [h92, beq_self_eq_true, if_true]
        exact runeBackslash_refines 92 bq hRa hala hra (by decide) hha
      · have e92 : (b == 92) = false := by simp [h92]
        simp only [e92, Bool.false_eq_true, if_false]
        have := runeTail_refines b bq hRa hala hcur hb7
        exact ⟨_, rfl, by simpa [StepR] using this⟩

theorem R.setR {s a} (h : R s a) (hal : a.err = none) (hcur : s.bsp = s.back.length)
    (r : Nat) (hr : r ≠ runeEOF) : R { s with r := r } { a with r := r } := by
  have ha := h.alive hal
  have hl := h.look hal
  destruct_R h
  constructor <;> simp_all <;> (try assumption) <;> (try omega)

/-- the spec-side effect of the `decodeRune:` loop -/
def decodeSpec (a : LSt) : LSt := { a with r := (decodeRune a.rest).1 }

theorem decodeSpec_setR (a : LSt) (x : Nat) : decodeSpec { a with r := x } = decodeSpec a := rfl

theorem decodeLoop_refines (fuel : Nat) : ∀ {s a}, R s a → a.err = none → a.behind = none →
    a.halted = false →
    s.front ≠ [] → a.r ≠ runeEOF → 5 ≤ s.front.length + fuel → 1 ≤ fuel →
    ∃ s', St.decodeLoop fuel s = .ok ((decodeRune a.rest).2, s') ∧ R s' (decodeSpec a) ∧
      (decodeRune a.rest).2 ≤ s'.front.length := by
  induction fuel with
  | zero =>
    intro s a h hal hb hh hne hr hlen h1
    omega
  | succ fuel ih =>
    intro s a h hal hb hh hne hr hlen _
    unfold St.decodeLoop
    have hcur := h.cursor_of_ne hr
    have hle : ¬ s.bsp > s.blen := by rw [hcur, h.blen_eq]; omega
    simp only [hle, if_false]
    have hrest := (h.alive hal).1
    have hdl : (decodeRune s.front).1 ≠ runeEOF := Nat.ne_of_lt (decode_lt _)
    by_cases hnm : needMore s.front = true
    · have hlen3 := needMore_length _ hnm
      have hcond : ((decodeRune s.front).1 == runeError && !fullRune s.front) = true := hnm
      simp only [hcond, if_true]
      have hR1 := h.setR hal hcur (decodeRune s.front).1 hdl
      by_cases hp : s.pending = []
      · obtain ⟨s', h1, h2, h3, _⟩ := fill_eof hR1 hb (Or.inl hp)
        have hrf : a.rest = s.front := by rw [hrest, hp]; simp
        refine ⟨s', by simp [h1, hrf], ?_, ?_⟩
        · have heq : (decodeRune a.rest).1 = (decodeRune s.front).1 := by rw [hrf]
          simp only [decodeSpec, heq]
          exact h2
        · rw [hrf]
          have : s'.front = s.front := h3
          rw [this]
          exact (decode_width _ hne).2
      · obtain ⟨n, s', h1, hn, h2, chunk, hcne, hfr, happ⟩ :=
          fill_data hR1 hb hal hh hp (by simp [bufSize]; omega)
        have hfr' : s'.front = s.front ++ chunk := hfr
        have hlen' : s.front.length + 1 ≤ s'.front.length := by
          rw [hfr']; cases chunk with
          | nil => exact absurd rfl hcne
          | cons c t => simp
        obtain ⟨s'', h3, h4, h5⟩ := ih h2 hal hb hh (by intro hx; rw [hx] at hlen'; simp at hlen')
          (by simpa using hdl) (by omega) (by omega)
        refine ⟨s'', ?_, ?_, h5⟩
        · simp only [h1, bind_ok]
          have : (n > 0) = True := by simp; omega
          simp only [this, if_true]
          exact h3
        · rw [decodeSpec_setR] at h4; exact h4
    · have hnm' : needMore s.front = false := by simpa using hnm
      have hcond : ((decodeRune s.front).1 == runeError && !fullRune s.front) = false := hnm'
      simp only [hcond, Bool.false_eq_true, if_false]
      obtain ⟨hd1, hd2⟩ := decode_append s.front s.pending hne hnm'
      rw [← hrest] at hd1 hd2
      refine ⟨_, by rw [hd1]; rfl, ?_, ?_⟩
      · unfold decodeSpec
        rw [hd1]
        exact h.setR hal hcur _ hdl
      · rw [hd1]; exact (decode_width _ hne).2

end ShVerif.C07
