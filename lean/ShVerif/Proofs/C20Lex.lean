import ShVerif.Proofs.C20Misc
/-
  C20 helper lemmas: the text of a variable that holds a name or an integer literal lexes and
  parses to the expected leaf expression.
-/
namespace ShVerif.C20

theorem parseArith_word (w : Bytes) : parseArith [.word w] = some (.word w) := by rfl
theorem parseArith_minus_word (w : Bytes) :
    parseArith [.sym .minus, .word w] = some (.unary .minus false (.word w)) := by rfl
theorem parseArith_plus_word (w : Bytes) :
    parseArith [.sym .plus, .word w] = some (.unary .plus false (.word w)) := by rfl

/-- byte classes used by the tokeniser -/
def chkLex (c : UInt8) : Bool :=
  (!isBlankB c || (!isWordB c && c != 40 && c != 41)) &&
  (!isWordB c || (c != 40 && c != 41 && !isBlankB c && c != 43 && c != 45)) &&
  (!isNameChar c || (isWordB c && c != 35))

theorem chkLex_all (c : UInt8) : chkLex c = true := by
  revert c; apply forall_uint8; decide +kernel

theorem blank_not_word {c : UInt8} (h : isBlankB c = true) : isWordB c = false := by
  have := chkLex_all c
  simp [chkLex, h] at this
  exact this.1.1.1.1

theorem word_facts {c : UInt8} (h : isWordB c = true) :
    c ≠ 40 ∧ c ≠ 41 ∧ isBlankB c = false ∧ c ≠ 43 ∧ c ≠ 45 := by
  have := chkLex_all c
  simp [chkLex, h] at this
  exact ⟨this.1.2.1.1.1.1, this.1.2.1.1.1.2, this.1.2.1.1.2, this.1.2.1.2, this.1.2.2⟩

theorem nameChar_word {c : UInt8} (h : isNameChar c = true) : isWordB c = true ∧ c ≠ 35 := by
  have := chkLex_all c
  simp [chkLex, h] at this
  exact this.2

theorem lexArith_blanks : ∀ (pre rest : Bytes) (fuel : Nat), IsBlanks pre →
    lexArith (fuel + pre.length) (pre ++ rest) = lexArith fuel rest
  | [], rest, fuel, _ => rfl
  | b :: pre, rest, fuel, h => by
    have hb : isBlankB b = true := h b (List.mem_cons_self ..)
    show lexArith (fuel + pre.length + 1) (b :: (pre ++ rest)) = _
    rw [lexArith]
    simp only [hb, if_true]
    exact lexArith_blanks pre rest fuel (fun c hc => h c (List.mem_cons_of_mem _ hc))

theorem lexArith_only_blanks (post : Bytes) (fuel : Nat) (h : IsBlanks post) :
    lexArith (fuel + 1 + post.length) post = some [] := by
  have := lexArith_blanks post [] (fuel + 1) h
  rw [List.append_nil] at this
  rw [this]
  rfl

theorem takeWhile_word_append (w post : Bytes) (hw : ∀ b ∈ w, isWordB b = true)
    (hp : IsBlanks post) : (w ++ post).takeWhile isWordB = w ∧ (w ++ post).dropWhile isWordB = post := by
  induction w with
  | nil =>
    cases post with
    | nil => simp
    | cons p ps =>
      have : isWordB p = false := blank_not_word (hp p (List.mem_cons_self ..))
      simp [this]
  | cons c w ih =>
    have hc : isWordB c = true := hw c (List.mem_cons_self ..)
    obtain ⟨i1, i2⟩ := ih (fun b hb => hw b (List.mem_cons_of_mem _ hb))
    simp [hc, i1, i2]

/-- a word followed by blanks lexes to the single word token -/
theorem lexArith_word (c : UInt8) (w post : Bytes) (fuel : Nat)
    (hc : isWordB c = true) (h35 : c ≠ 35) (hw : ∀ b ∈ w, isWordB b = true) (hp : IsBlanks post) :
    lexArith (fuel + 2 + post.length) (c :: w ++ post) = some [.word (c :: w)] := by
  obtain ⟨h40, h41, hbl, _, _⟩ := word_facts hc
  obtain ⟨t1, t2⟩ := takeWhile_word_append w post hw hp
  have ef : fuel + 2 + post.length = (fuel + 1 + post.length) + 1 := by omega
  rw [ef, List.cons_append, lexArith]
  simp only [hbl, Bool.false_eq_true, if_false, h40, h41, hc, true_and, ne_eq, h35,
    not_false_eq_true, if_true, t1, t2]
  rw [lexArith_only_blanks post fuel hp]
  rfl

theorem lexSym_minus {c : UInt8} {r : Bytes} (h45 : c ≠ 45) (h61 : c ≠ 61) :
    lexSym (45 :: c :: r) = some (.minus, c :: r) := by
  unfold lexSym
  split <;> first
    | rfl
    | (rename_i heq; simp at heq; done)
    | (rename_i heq; simp at heq; exact absurd heq.1 h45)
    | (rename_i heq; simp at heq; exact absurd heq.1 h61)
    | (rename_i heq; simp at heq; rw [heq]; done)
    | (exfalso; simp_all; done)

theorem lexSym_plus {c : UInt8} {r : Bytes} (h43 : c ≠ 43) (h61 : c ≠ 61) :
    lexSym (43 :: c :: r) = some (.plus, c :: r) := by
  unfold lexSym
  split <;> first
    | rfl
    | (rename_i heq; simp at heq; done)
    | (rename_i heq; simp at heq; exact absurd heq.1 h43)
    | (rename_i heq; simp at heq; exact absurd heq.1 h61)
    | (rename_i heq; simp at heq; rw [heq]; done)
    | (exfalso; simp_all; done)

theorem lexArith_sym (fuel : Nat) (b : UInt8) (rest r : Bytes) (s : Sym)
    (hb : isBlankB b = false) (h40 : b ≠ 40) (h41 : b ≠ 41) (hw : isWordB b = false)
    (hs : lexSym (b :: rest) = some (s, r)) :
    lexArith (fuel + 1) (b :: rest) = (lexArith fuel r).map (Tok.sym s :: ·) := by
  rw [lexArith]
  simp only [hb, Bool.false_eq_true, if_false, h40, h41, hw, false_and, hs]

theorem parseText_name {v : Bytes} (h : validName v = true) :
    parseText v = some (some (.word v)) := by
  cases v with
  | nil => simp [validName] at h
  | cons c w =>
    simp only [validName, Bool.and_eq_true, List.all_eq_true] at h
    obtain ⟨hc, hw⟩ := h
    have hcw : isWordB c = true ∧ c ≠ 35 := nameChar_word (by simp [isNameChar, hc])
    have := lexArith_word c w [] w.length hcw.1 hcw.2 (fun b hb => (nameChar_word (hw b hb)).1)
      (by intro b hb; cases hb)
    simp only [List.append_nil, List.length_nil, Nat.add_zero] at this
    unfold parseText
    have ef : (c :: w).length + 1 = w.length + 2 := by simp
    rw [ef, this]
    simp only []
    rw [parseArith_word]
    rfl

/-- the leaf expression an integer-literal text parses to -/
inductive LitExpr : Expr → Bool → Nat → Prop
  | pos (lit : Bytes) (n : Nat) : specNumber lit = some n → LitExpr (.word lit) false n
  | plus (lit : Bytes) (n : Nat) : specNumber lit = some n →
      LitExpr (.unary .plus false (.word lit)) false n
  | minus (lit : Bytes) (n : Nat) : specNumber lit = some n →
      LitExpr (.unary .minus false (.word lit)) true n

theorem lit_word_shape {lit : Bytes} {n : Nat} (h : specNumber lit = some n) :
    ∃ c w, lit = c :: w ∧ isWordB c = true ∧ c ≠ 35 ∧ (∀ b ∈ w, isWordB b = true) ∧
      c ≠ 43 ∧ c ≠ 45 ∧ c ≠ 61 := by
  obtain ⟨c, w, rfl, h1, h2⟩ := specNumber_starts_digit h
  have hw := specNumber_wordChars h
  have hc := hw c (List.mem_cons_self ..)
  have : ∀ d : UInt8, 48 ≤ d → d ≤ 57 → d ≠ 35 ∧ d ≠ 43 ∧ d ≠ 45 ∧ d ≠ 61 := by
    intro d; revert d; apply forall_uint8; decide +kernel
  obtain ⟨a1, a2, a3, a4⟩ := this c h1 h2
  exact ⟨c, w, rfl, hc, a1, fun b hb => hw b (List.mem_cons_of_mem _ hb), a2, a3, a4⟩

theorem parseText_intLit {v : Bytes} {neg : Bool} {n : Nat} (h : IntLit v neg n) :
    ∃ e', parseText v = some (some e') ∧ LitExpr e' neg n := by
  cases h with
  | pos pre lit post n hpre hpost hl =>
    obtain ⟨c, w, rfl, hc, h35, hw, _, _, _⟩ := lit_word_shape hl
    refine ⟨.word (c :: w), ?_, LitExpr.pos _ _ hl⟩
    unfold parseText
    have ef : (pre ++ (c :: w) ++ post).length + 1 = (w.length + 2 + post.length) + pre.length := by
      simp; omega
    rw [ef, List.append_assoc, lexArith_blanks pre _ _ hpre, lexArith_word c w post w.length hc h35 hw hpost]
    simp only []
    rw [parseArith_word]
    rfl
  | plus pre lit post n hpre hpost hl =>
    obtain ⟨c, w, rfl, hc, h35, hw, h43, _, h61⟩ := lit_word_shape hl
    refine ⟨.unary .plus false (.word (c :: w)), ?_, LitExpr.plus _ _ hl⟩
    unfold parseText
    have ef : (pre ++ 43 :: (c :: w) ++ post).length + 1 =
        ((w.length + 2 + post.length) + 1) + pre.length := by
      simp; omega
    have e2 : pre ++ 43 :: (c :: w) ++ post = pre ++ (43 :: (c :: w ++ post)) := by simp
    rw [ef, e2, lexArith_blanks pre _ _ hpre, List.cons_append,
      lexArith_sym _ 43 _ _ .plus (by decide) (by decide) (by decide) (by decide) (lexSym_plus h43 h61),
      ← List.cons_append, lexArith_word c w post w.length hc h35 hw hpost]
    simp only [Option.map]
    rw [parseArith_plus_word]
  | minus pre lit post n hpre hpost hl =>
    obtain ⟨c, w, rfl, hc, h35, hw, _, h45, h61⟩ := lit_word_shape hl
    refine ⟨.unary .minus false (.word (c :: w)), ?_, LitExpr.minus _ _ hl⟩
    unfold parseText
    have ef : (pre ++ 45 :: (c :: w) ++ post).length + 1 =
        ((w.length + 2 + post.length) + 1) + pre.length := by
      simp; omega
    have e2 : pre ++ 45 :: (c :: w) ++ post = pre ++ (45 :: (c :: w ++ post)) := by simp
    rw [ef, e2, lexArith_blanks pre _ _ hpre, List.cons_append,
      lexArith_sym _ 45 _ _ .minus (by decide) (by decide) (by decide) (by decide) (lexSym_minus h45 h61),
      ← List.cons_append, lexArith_word c w post w.length hc h35 hw hpost]
    simp only [Option.map]
    rw [parseArith_minus_word]

end ShVerif.C20
