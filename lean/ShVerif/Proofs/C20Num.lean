import ShVerif.Proofs.C20Bin
/-
  C20 helper lemmas: `atoi` on valid bash constants is the mathematical value (atoi_spec),
  names are not numbers, `strconv.FormatInt` output is a literal.
-/
namespace ShVerif.C20

/-! ### exhaustive byte facts -/

theorem forall_uint8 {P : UInt8 → Prop} (h : ∀ n, n < 256 → P (UInt8.ofNat n)) (c : UInt8) : P c := by
  have := h c.toNat (UInt8.toNat_lt c)
  simpa using this

def chkDigitLow (c : UInt8) : Bool :=
  match specDigit 36 c with
  | some d => !(decide (d < 36)) || (digitVal c == some d)
  | none => true

theorem chkDigitLow_all (c : UInt8) : chkDigitLow c = true := by
  revert c; apply forall_uint8; decide +kernel

theorem digitVal_of_specDigit36 {c : UInt8} {d : Nat} (h : specDigit 36 c = some d) (hd : d < 36) :
    digitVal c = some d := by
  have := chkDigitLow_all c
  simp only [chkDigitLow, h] at this
  simpa [hd] using this

theorem specDigit37_eq_large (c : UInt8) : specDigit 37 c = largeDigit c := by
  revert c; apply forall_uint8; decide +kernel

theorem specDigit_low {base : Nat} (h : base ≤ 36) (c : UInt8) : specDigit base c = specDigit 36 c := by
  simp [specDigit, h]

theorem specDigit_high {base : Nat} (h : 36 < base) (c : UInt8) : specDigit base c = specDigit 37 c := by
  have : ¬ base ≤ 36 := by omega
  simp [specDigit, this]

/-- a byte with a digit value (in either alphabet) is a word character, not a sign, blank, `#`. -/
def chkDigitByte (c : UInt8) : Bool :=
  !((specDigit 36 c).isSome || (specDigit 37 c).isSome) ||
    (isWordB c && !isSpaceB c && c != 43 && c != 45 && c != 35 && !isBlankB c)

theorem chkDigitByte_all (c : UInt8) : chkDigitByte c = true := by
  revert c; apply forall_uint8; decide +kernel

theorem digit_byte {base : Nat} {c : UInt8} {d : Nat} (h : specDigit base c = some d) :
    isWordB c = true ∧ isSpaceB c = false ∧ c ≠ 43 ∧ c ≠ 45 ∧ c ≠ 35 ∧ isBlankB c = false := by
  have h2 : (specDigit 36 c).isSome = true ∨ (specDigit 37 c).isSome = true := by
    by_cases hb : base ≤ 36
    · left; rw [← specDigit_low hb, h]; rfl
    · right; rw [← specDigit_high (show 36 < base by omega), h]; rfl
  have := chkDigitByte_all c
  unfold chkDigitByte at this
  rcases h2 with h2 | h2 <;> simp [h2] at this <;> simp [this]

/-- decimal digits: value below 10 means the byte is '0'..'9' -/
def chkDec (c : UInt8) : Bool :=
  match specDigit 10 c with
  | some d => !(decide (d < 10)) || (decide (48 ≤ c) && decide (c ≤ 57) && d == c.toNat - 48)
  | none => true

theorem chkDec_all (c : UInt8) : chkDec c = true := by
  revert c; apply forall_uint8; decide +kernel

theorem dec_digit {c : UInt8} {d : Nat} (h : specDigit 10 c = some d) (hd : d < 10) :
    48 ≤ c ∧ c ≤ 57 ∧ d = c.toNat - 48 := by
  have := chkDec_all c
  simp only [chkDec, h] at this
  have h3 : (48 ≤ c ∧ c ≤ 57) ∧ d = c.toNat - 48 := by simpa [hd] using this
  exact ⟨h3.1.1, h3.1.2, h3.2⟩

/-! ### digit loops -/

theorem specDigits_ge {base : Nat} (hb : 1 ≤ base) : ∀ (ds : Bytes) (acc n : Nat),
    specDigits base acc ds = some n → acc ≤ n
  | [], acc, n, h => by simp [specDigits] at h; omega
  | c :: cs, acc, n, h => by
    unfold specDigits at h
    split at h
    · rename_i d hd
      split at h
      · have := specDigits_ge hb cs _ n h
        have : acc ≤ acc * base := Nat.le_mul_of_pos_right acc hb
        omega
      · cases h
    · cases h

theorem parseUintLoop_spec {base maxVal : Nat} (hb2 : 2 ≤ base) (hb : base ≤ 36)
    (hmax : maxVal ≤ maxU64) : ∀ (ds : Bytes) (acc n : Nat),
    specDigits base acc ds = some n → n ≤ maxVal →
    parseUintLoop base maxVal (maxU64 / base + 1) acc ds = .ok n
  | [], acc, n, h, _ => by simp [specDigits] at h; simp [parseUintLoop, h]
  | c :: cs, acc, n, h, hn => by
    unfold specDigits at h
    split at h
    · rename_i d hd
      split at h
      · rename_i hdb
        have hge := specDigits_ge (by omega) cs _ n h
        rw [specDigit_low hb] at hd
        have hdv := digitVal_of_specDigit36 hd (by omega)
        unfold parseUintLoop
        simp only [hdv]
        have h1 : ¬ d ≥ base := by omega
        have h2 : ¬ acc ≥ maxU64 / base + 1 := by
          have : acc * base ≤ maxU64 := by omega
          have : acc ≤ maxU64 / base := (Nat.le_div_iff_mul_le (by omega)).2 this
          omega
        have h3 : ¬ acc * base + d > maxVal := by omega
        simp only [h1, h2, h3, if_false]
        exact parseUintLoop_spec hb2 hb hmax cs _ n h hn
      · cases h
    · cases h

theorem atoiLargeLoop_spec {base : Nat} (hb : 36 < base) : ∀ (ds : Bytes) (acc n : Nat),
    specDigits base acc ds = some n → n < 2 ^ 63 →
    atoiLargeLoop base (Int.ofNat acc) ds = Int.ofNat n
  | [], acc, n, h, _ => by simp [specDigits] at h; simp [atoiLargeLoop, h]
  | c :: cs, acc, n, h, hn => by
    unfold specDigits at h
    split at h
    · rename_i d hd
      split at h
      · rename_i hdb
        have hge := specDigits_ge (by omega) cs _ n h
        rw [specDigit_high hb, specDigit37_eq_large] at hd
        unfold atoiLargeLoop
        simp only [hd]
        have h1 : ¬ d ≥ base := by omega
        simp only [h1, if_false]
        have hw : wrap64 (Int.ofNat acc * (base : Int) + (d : Int)) = Int.ofNat (acc * base + d) := by
          have e : Int.ofNat acc * (base : Int) + (d : Int) = ((acc * base + d : Nat) : Int) := by
            simp [Int.natCast_add, Int.natCast_mul]
          rw [e, Int.ofNat_eq_natCast]
          apply wrap64_eq
          rw [inI64_iff]
          have : (acc * base + d : Nat) < 2 ^ 63 := by omega
          constructor <;> omega
        rw [hw]
        exact atoiLargeLoop_spec hb cs _ n h hn
      · cases h
    · cases h

theorem specDigits_head {base : Nat} {c : UInt8} {cs : Bytes} {acc n : Nat}
    (h : specDigits base acc (c :: cs) = some n) : ∃ d, specDigit base c = some d ∧ d < base := by
  unfold specDigits at h
  split at h
  · rename_i d hd
    split at h
    · exact ⟨d, hd, ‹_›⟩
    · cases h
  · cases h

/-- `strconv.ParseInt` on digits of value `n` below `2^(bits-1)`: `(n, nil)`. -/
theorem parseInt_spec {base bits : Nat} (hb2 : 2 ≤ base) (hb : base ≤ 36) (hbits : 1 ≤ bits)
    (hbits64 : bits ≤ 64) {c : UInt8} {cs : Bytes} {n : Nat}
    (h : specDigits base 0 (c :: cs) = some n) (hn : n < 2 ^ (bits - 1)) :
    parseInt (c :: cs) base bits = (Int.ofNat n, false) := by
  obtain ⟨d, hd, _⟩ := specDigits_head h
  obtain ⟨_, _, h43, h45, _, _⟩ := digit_byte hd
  have hpow : 2 ^ (bits - 1) < 2 ^ bits := Nat.pow_lt_pow_right (by omega) (by omega)
  have hpow64 : 2 ^ bits ≤ 2 ^ 64 := Nat.pow_le_pow_right (by omega) hbits64
  have hmax : 2 ^ bits - 1 ≤ maxU64 := by unfold maxU64; omega
  have hloop := parseUintLoop_spec hb2 hb hmax (c :: cs) 0 n h (by omega)
  have h1 : ¬ n ≥ 2 ^ (bits - 1) := by omega
  have e43 : (c == 43) = false := by simpa using h43
  have e45 : (c == 45) = false := by simpa using h45
  have hpu : parseUint (c :: cs) base bits = .ok n := by
    unfold parseUint
    rw [if_neg (by simp)]
    exact hloop
  unfold parseInt
  simp only [e43, e45, Bool.or_self, Bool.false_eq_true, if_false, hpu]
  simp [h1]

theorem atoiDigits_spec {base : Nat} (hb2 : 2 ≤ base) (hb64 : base ≤ 64) {ds : Bytes} {n : Nat}
    (h : specDigits base 0 ds = some n) (hn : n < 2 ^ 63) : atoiDigits base ds = Int.ofNat n := by
  unfold atoiDigits
  by_cases hb : base > 36
  · rw [if_pos hb]
    exact atoiLargeLoop_spec hb ds 0 n h hn
  · rw [if_neg hb]
    cases ds with
    | nil => simp [specDigits] at h; subst h; simp [parseInt]
    | cons c cs => rw [parseInt_spec hb2 (by omega) (by omega) (by omega) h hn]

theorem specNumber_oct {c2 : UInt8} {r2 : Bytes} (h120 : c2 ≠ 120) (h88 : c2 ≠ 88) :
    specNumber (48 :: c2 :: r2) = specDigits 8 0 (c2 :: r2) := by
  unfold specNumber
  split
  · rename_i heq; cases heq
  · rename_i heq; simp at heq; exact absurd heq.1 h120
  · rename_i heq; simp at heq; exact absurd heq.1 h88
  · rename_i heq; simp at heq; rw [heq]
  · rename_i h1 h2 h3 h4; exact absurd rfl (h4 (c2 :: r2))

theorem specNumber_other {c : UInt8} {r : Bytes} (h48 : c ≠ 48) :
    specNumber (c :: r) =
      match cutHash (c :: r) with
      | some (b, ds) =>
        match specDigits 10 0 b with
        | some base => if 2 ≤ base ∧ base ≤ 64 ∧ ds ≠ [] then specDigits base 0 ds else none
        | none => none
      | none => specDigits 10 0 (c :: r) := by
  unfold specNumber
  split
  · rename_i heq; cases heq
  · rename_i heq; simp at heq; exact absurd heq.1 h48
  · rename_i heq; simp at heq; exact absurd heq.1 h48
  · rename_i heq; simp at heq; exact absurd heq.1 h48
  · rfl

theorem hasPrefix0x_false_of_ne {c : UInt8} {r : Bytes} (h48 : c ≠ 48) : hasPrefix0x (c :: r) = false := by
  unfold hasPrefix0x
  split
  · rename_i heq; simp at heq; exact absurd heq.1 h48
  · rename_i heq; simp at heq; exact absurd heq.1 h48
  · rfl

theorem hasPrefix0x_oct {c2 : UInt8} {r2 : Bytes} (h120 : c2 ≠ 120) (h88 : c2 ≠ 88) :
    hasPrefix0x (48 :: c2 :: r2) = false := by
  unfold hasPrefix0x
  split
  · rename_i heq; simp at heq; exact absurd heq.1 h120
  · rename_i heq; simp at heq; exact absurd heq.1 h88
  · rfl

theorem cutHash_parts : ∀ (s b ds : Bytes), cutHash s = some (b, ds) → s = b ++ 35 :: ds
  | [], b, ds, h => by simp [cutHash] at h
  | c :: rest, b, ds, h => by
    unfold cutHash at h
    split at h
    · rename_i hc; cases h; simp [hc]
    · split at h
      · cases h
      · rename_i a c' heq
        cases h
        have := cutHash_parts rest a ds heq
        simp [this]

theorem atoiMag_lit {lit : Bytes} {n : Nat} (h : specNumber lit = some n) (hn : n < 2 ^ 63) :
    atoiMag lit = Int.ofNat n := by
  cases lit with
  | nil => simp [specNumber] at h
  | cons c rest =>
    by_cases hc : c = 48
    · subst hc
      cases rest with
      | nil =>
        have : specNumber [48] = specDigits 8 0 [] := by simp [specNumber]
        rw [this] at h
        show atoiDigits 8 [] = _
        exact atoiDigits_spec (by omega) (by omega) h hn
      | cons c2 r2 =>
        by_cases h120 : c2 = 120
        · subst h120
          have : specNumber (48 :: 120 :: r2) = specDigits 16 0 r2 := by simp [specNumber]
          rw [this] at h
          show atoiDigits 16 r2 = _
          exact atoiDigits_spec (by omega) (by omega) h hn
        · by_cases h88 : c2 = 88
          · subst h88
            have : specNumber (48 :: 88 :: r2) = specDigits 16 0 r2 := by simp [specNumber]
            rw [this] at h
            show atoiDigits 16 r2 = _
            exact atoiDigits_spec (by omega) (by omega) h hn
          · rw [specNumber_oct h120 h88] at h
            unfold atoiMag
            rw [hasPrefix0x_oct h120 h88]
            show atoiDigits 8 (c2 :: r2) = _
            exact atoiDigits_spec (by omega) (by omega) h hn
    · rw [specNumber_other hc] at h
      unfold atoiMag
      rw [hasPrefix0x_false_of_ne hc]
      simp only [Bool.false_eq_true, if_false]
      split
      · rename_i heq; simp at heq; exact absurd heq.1 hc
      · cases hcut : cutHash (c :: rest) with
        | none =>
          rw [hcut] at h
          simp only [] at h ⊢
          exact atoiDigits_spec (by omega) (by omega) h hn
        | some p =>
          obtain ⟨b, ds⟩ := p
          rw [hcut] at h
          simp only [] at h ⊢
          cases hbase : specDigits 10 0 b with
          | none => rw [hbase] at h; cases h
          | some base =>
            rw [hbase] at h
            simp only [] at h
            split at h
            · rename_i hcond
              obtain ⟨hb2, hb64, _⟩ := hcond
              cases b with
              | nil => simp [specDigits] at hbase; omega
              | cons bc bcs =>
                rw [parseInt_spec (by omega) (by omega) (by omega) (by omega) hbase (by omega)]
                have e1 : ¬ (Int.ofNat base < 2) := by simp [Int.ofNat_eq_natCast]; omega
                have e2 : ¬ (Int.ofNat base > 64) := by simp [Int.ofNat_eq_natCast]; omega
                simp only [Bool.false_or, Bool.or_eq_true, decide_eq_true_eq, e1, e2, or_self,
                  if_false]
                exact atoiDigits_spec hb2 hb64 h hn
            · cases h

theorem specDigits_all {base : Nat} : ∀ (ds : Bytes) (acc n : Nat),
    specDigits base acc ds = some n → ∀ b ∈ ds, ∃ d, specDigit base b = some d
  | [], _, _, _, b, hb => by cases hb
  | c :: cs, acc, n, h, b, hb => by
    unfold specDigits at h
    split at h
    · rename_i d hd
      split at h
      · rcases List.mem_cons.1 hb with rfl | hb'
        · exact ⟨d, hd⟩
        · exact specDigits_all cs _ n h b hb'
      · cases h
    · cases h

theorem specDigits_wordChars {base : Nat} {ds : Bytes} {acc n : Nat}
    (h : specDigits base acc ds = some n) : ∀ b ∈ ds, isWordB b = true := by
  intro b hb
  obtain ⟨d, hd⟩ := specDigits_all ds acc n h b hb
  exact (digit_byte hd).1

/-- the shapes of a valid constant -/
theorem specNumber_cases {lit : Bytes} {n : Nat} (h : specNumber lit = some n) :
    (∃ ds, (lit = 48 :: 120 :: ds ∨ lit = 48 :: 88 :: ds) ∧ specDigits 16 0 ds = some n) ∨
    (∃ ds, lit = 48 :: ds ∧ specDigits 8 0 ds = some n) ∨
    (∃ c r b ds base, lit = c :: r ∧ c ≠ 48 ∧ c :: r = b ++ 35 :: ds ∧
      specDigits 10 0 b = some base ∧ 2 ≤ base ∧ base ≤ 64 ∧ specDigits base 0 ds = some n) ∨
    (∃ c r, lit = c :: r ∧ c ≠ 48 ∧ specDigits 10 0 (c :: r) = some n) := by
  cases lit with
  | nil => simp [specNumber] at h
  | cons c rest =>
    by_cases hc : c = 48
    · subst hc
      cases rest with
      | nil =>
        right; left
        exact ⟨[], rfl, by simpa [specNumber] using h⟩
      | cons c2 r2 =>
        by_cases h120 : c2 = 120
        · subst h120; left; exact ⟨r2, Or.inl rfl, by simpa [specNumber] using h⟩
        · by_cases h88 : c2 = 88
          · subst h88; left; exact ⟨r2, Or.inr rfl, by simpa [specNumber] using h⟩
          · right; left
            rw [specNumber_oct h120 h88] at h
            exact ⟨c2 :: r2, rfl, h⟩
    · rw [specNumber_other hc] at h
      cases hcut : cutHash (c :: rest) with
      | none =>
        rw [hcut] at h
        right; right; right
        exact ⟨c, rest, rfl, hc, h⟩
      | some p =>
        obtain ⟨b, ds⟩ := p
        rw [hcut] at h
        simp only [] at h
        cases hbase : specDigits 10 0 b with
        | none => rw [hbase] at h; cases h
        | some base =>
          rw [hbase] at h
          simp only [] at h
          split at h
          · rename_i hcond
            right; right; left
            exact ⟨c, rest, b, ds, base, rfl, hc, cutHash_parts _ _ _ hcut, hbase, hcond.1,
              hcond.2.1, h⟩
          · cases h

theorem specNumber_wordChars {lit : Bytes} {n : Nat} (h : specNumber lit = some n) :
    ∀ b ∈ lit, isWordB b = true := by
  rcases specNumber_cases h with ⟨ds, hl, hd⟩ | ⟨ds, hl, hd⟩ | ⟨c, r, b, ds, base, hl, _, hp, hb, _, _, hd⟩ |
    ⟨c, r, hl, _, hd⟩
  · intro x hx
    rcases hl with rfl | rfl
    · rcases List.mem_cons.1 hx with rfl | hx
      · decide
      · rcases List.mem_cons.1 hx with rfl | hx
        · decide
        · exact specDigits_wordChars hd x hx
    · rcases List.mem_cons.1 hx with rfl | hx
      · decide
      · rcases List.mem_cons.1 hx with rfl | hx
        · decide
        · exact specDigits_wordChars hd x hx
  · subst hl
    intro x hx
    rcases List.mem_cons.1 hx with rfl | hx
    · decide
    · exact specDigits_wordChars hd x hx
  · subst hl
    rw [hp]
    intro x hx
    rcases List.mem_append.1 hx with hx | hx
    · exact specDigits_wordChars hb x hx
    · rcases List.mem_cons.1 hx with rfl | hx
      · decide
      · exact specDigits_wordChars hd x hx
  · subst hl
    exact specDigits_wordChars hd

theorem specNumber_starts_digit {lit : Bytes} {n : Nat} (h : specNumber lit = some n) :
    ∃ c rest, lit = c :: rest ∧ 48 ≤ c ∧ c ≤ 57 := by
  rcases specNumber_cases h with ⟨ds, hl, _⟩ | ⟨ds, hl, _⟩ | ⟨c, r, b, ds, base, hl, _, hp, hb, hb2, _, _⟩ |
    ⟨c, r, hl, _, hd⟩
  · rcases hl with rfl | rfl <;> exact ⟨48, _, rfl, by decide, by decide⟩
  · subst hl; exact ⟨48, _, rfl, by decide, by decide⟩
  · subst hl
    cases b with
    | nil => simp [specDigits] at hb; omega
    | cons bc bcs =>
      obtain ⟨d, hd, hlt⟩ := specDigits_head hb
      obtain ⟨h1, h2, _⟩ := dec_digit hd hlt
      simp at hp
      exact ⟨c, r, rfl, by rw [hp.1]; exact h1, by rw [hp.1]; exact h2⟩
  · subst hl
    obtain ⟨d, hd', hlt⟩ := specDigits_head hd
    obtain ⟨h1, h2, _⟩ := dec_digit hd' hlt
    exact ⟨c, r, rfl, h1, h2⟩

/-! ### trimming, signs, names -/

theorem dropWhile_all_append {p : UInt8 → Bool} : ∀ (pre : Bytes) (rest : Bytes),
    (∀ b ∈ pre, p b = true) → (pre ++ rest).dropWhile p = rest.dropWhile p
  | [], _, _ => rfl
  | a :: pre, rest, h => by
    have ha : p a = true := h a (List.mem_cons_self ..)
    simp only [List.cons_append, List.dropWhile_cons, ha, if_true]
    exact dropWhile_all_append pre rest (fun b hb => h b (List.mem_cons_of_mem _ hb))

theorem dropWhile_head_false {p : UInt8 → Bool} {c : UInt8} {rest : Bytes} (h : p c = false) :
    (c :: rest).dropWhile p = c :: rest := by
  simp [h]

theorem trimSpace_mid {pre mid post : Bytes} (hpre : ∀ b ∈ pre, isSpaceB b = true)
    (hpost : ∀ b ∈ post, isSpaceB b = true) (hne : mid ≠ [])
    (hmid : ∀ b ∈ mid, isSpaceB b = false) : trimSpace (pre ++ mid ++ post) = mid := by
  unfold trimSpace
  rw [List.append_assoc, dropWhile_all_append pre _ hpre]
  cases mid with
  | nil => exact absurd rfl hne
  | cons c m =>
    rw [List.cons_append, dropWhile_head_false (hmid c (List.mem_cons_self ..))]
    rw [← List.cons_append, List.reverse_append]
    rw [dropWhile_all_append post.reverse _ (fun b hb => hpost b (List.mem_reverse.1 hb))]
    have hrev : (c :: m).reverse ≠ [] := by simp
    cases hr : (c :: m).reverse with
    | nil => exact absurd hr hrev
    | cons l ls =>
      have hl : l ∈ (c :: m) := List.mem_reverse.1 (by rw [hr]; exact List.mem_cons_self ..)
      rw [dropWhile_head_false (hmid l hl), ← hr, List.reverse_reverse]

def chkBlank (c : UInt8) : Bool :=
  (!isBlankB c || (isSpaceB c && !isNameStart c)) &&
  (!(decide (48 ≤ c) && decide (c ≤ 57)) || (!isNameStart c && c != 43 && c != 45)) &&
  (!isNameChar c || (c != 35 && !isSpaceB c)) &&
  (!isNameStart c || (c != 43 && c != 45 && c != 48 &&
    (match digitVal c with | some d => decide (10 ≤ d) | none => true)))

theorem chkBlank_all (c : UInt8) : chkBlank c = true := by
  revert c; apply forall_uint8; decide +kernel

theorem blank_space {c : UInt8} (h : isBlankB c = true) : isSpaceB c = true ∧ isNameStart c = false := by
  have := chkBlank_all c
  simp [chkBlank, h] at this
  exact ⟨this.1.1.1.1, this.1.1.1.2⟩

theorem digit_not_start {c : UInt8} (h1 : 48 ≤ c) (h2 : c ≤ 57) :
    isNameStart c = false ∧ c ≠ 43 ∧ c ≠ 45 := by
  have := chkBlank_all c
  simp [chkBlank, h1, h2] at this
  exact ⟨this.1.1.2.1.1, this.1.1.2.1.2, this.1.1.2.2⟩

theorem nameChar_facts {c : UInt8} (h : isNameChar c = true) : c ≠ 35 ∧ isSpaceB c = false := by
  have := chkBlank_all c
  simp [chkBlank, h] at this
  exact ⟨this.1.2.1, this.1.2.2⟩

theorem nameStart_facts {c : UInt8} (h : isNameStart c = true) :
    c ≠ 43 ∧ c ≠ 45 ∧ c ≠ 48 ∧ (match digitVal c with | some d => 10 ≤ d | none => True) := by
  have := chkBlank_all c
  simp [chkBlank, h] at this
  refine ⟨this.2.1.1.1, this.2.1.1.2, this.2.1.2, ?_⟩
  have h4 := this.2.2
  split <;> simp_all

theorem lit_no_space {lit : Bytes} {n : Nat} (h : specNumber lit = some n) :
    ∀ b ∈ lit, isSpaceB b = false := by
  intro b hb
  have hw := specNumber_wordChars h b hb
  have : ∀ c : UInt8, isWordB c = true → isSpaceB c = false := by
    intro c; revert c; apply forall_uint8; decide +kernel
  exact this b hw

theorem atoiSigned_unsigned {c : UInt8} {r : Bytes} (h43 : c ≠ 43) (h45 : c ≠ 45) :
    atoiSigned (c :: r) = atoiMag (c :: r) := by
  unfold atoiSigned
  split
  · rename_i heq; simp at heq; exact absurd heq.1 h43
  · rename_i heq; simp at heq; exact absurd heq.1 h45
  · rfl

/-- atoi_spec, core: on a valid constant whose value fits int64, atoi returns the value. -/
theorem atoi_lit {lit : Bytes} {n : Nat} (h : specNumber lit = some n) (hn : n < 2 ^ 63) :
    atoi lit = Int.ofNat n := by
  obtain ⟨c, rest, rfl, h1, h2⟩ := specNumber_starts_digit h
  obtain ⟨_, h43, h45⟩ := digit_not_start h1 h2
  unfold atoi
  have ht : trimSpace (c :: rest) = c :: rest := by
    have := trimSpace_mid (pre := []) (post := []) (mid := c :: rest) (by simp) (by simp) (by simp)
      (lit_no_space h)
    simpa using this
  rw [ht, atoiSigned_unsigned h43 h45]
  exact atoiMag_lit h hn

theorem isBlanks_space {s : Bytes} (h : IsBlanks s) : ∀ b ∈ s, isSpaceB b = true :=
  fun b hb => (blank_space (h b hb)).1

theorem atoi_intLit {v : Bytes} {neg : Bool} {n : Nat} (h : IntLit v neg n) (hn : n < 2 ^ 63) :
    atoi v = if neg then -(Int.ofNat n) else Int.ofNat n := by
  cases h with
  | pos pre lit post n hpre hpost hl =>
    obtain ⟨c, rest, rfl, h1, h2⟩ := specNumber_starts_digit hl
    obtain ⟨_, h43, h45⟩ := digit_not_start h1 h2
    unfold atoi
    rw [trimSpace_mid (isBlanks_space hpre) (isBlanks_space hpost) (by simp) (lit_no_space hl),
      atoiSigned_unsigned h43 h45]
    simpa using atoiMag_lit hl hn
  | plus pre lit post n hpre hpost hl =>
    unfold atoi
    have e : pre ++ 43 :: lit ++ post = pre ++ (43 :: lit) ++ post := by simp
    have hmid : ∀ b ∈ (43 : UInt8) :: lit, isSpaceB b = false := by
      intro b hb
      rcases List.mem_cons.1 hb with rfl | hb
      · decide
      · exact lit_no_space hl b hb
    rw [e, trimSpace_mid (isBlanks_space hpre) (isBlanks_space hpost) (by simp) hmid]
    show atoiMag lit = _
    simpa using atoiMag_lit hl hn
  | minus pre lit post n hpre hpost hl =>
    unfold atoi
    have e : pre ++ 45 :: lit ++ post = pre ++ (45 :: lit) ++ post := by simp
    have hmid : ∀ b ∈ (45 : UInt8) :: lit, isSpaceB b = false := by
      intro b hb
      rcases List.mem_cons.1 hb with rfl | hb
      · decide
      · exact lit_no_space hl b hb
    rw [e, trimSpace_mid (isBlanks_space hpre) (isBlanks_space hpost) (by simp) hmid]
    show wrap64 (-(atoiMag lit)) = _
    rw [atoiMag_lit hl hn]
    simp only [if_true]
    apply wrap64_eq
    rw [inI64_iff, Int.ofNat_eq_natCast]
    constructor <;> omega

theorem cutHash_none_of_no_hash : ∀ (s : Bytes), (∀ b ∈ s, b ≠ 35) → cutHash s = none
  | [], _ => rfl
  | c :: rest, h => by
    unfold cutHash
    rw [if_neg (h c (List.mem_cons_self ..))]
    rw [cutHash_none_of_no_hash rest (fun b hb => h b (List.mem_cons_of_mem _ hb))]

theorem atoi_name {s : Bytes} (h : validName s = true) : atoi s = 0 := by
  cases s with
  | nil => simp [validName] at h
  | cons c rest =>
    simp only [validName, Bool.and_eq_true, List.all_eq_true] at h
    obtain ⟨hc, hrest⟩ := h
    obtain ⟨h43, h45, h48, hdig⟩ := nameStart_facts hc
    have hchar : ∀ b ∈ c :: rest, isNameChar b = true := by
      intro b hb
      rcases List.mem_cons.1 hb with rfl | hb
      · simp [isNameChar, hc]
      · exact hrest b hb
    unfold atoi
    have ht : trimSpace (c :: rest) = c :: rest := by
      have := trimSpace_mid (pre := []) (post := []) (mid := c :: rest) (by simp) (by simp) (by simp)
        (fun b hb => (nameChar_facts (hchar b hb)).2)
      simpa using this
    rw [ht, atoiSigned_unsigned h43 h45]
    unfold atoiMag
    rw [hasPrefix0x_false_of_ne h48]
    simp only [Bool.false_eq_true, if_false]
    split
    · rename_i heq; simp at heq; exact absurd heq.1 h48
    · rw [cutHash_none_of_no_hash _ (fun b hb => (nameChar_facts (hchar b hb)).1)]
      simp only []
      unfold atoiDigits
      rw [if_neg (by omega)]
      have e43 : (c == 43) = false := by simpa using h43
      have e45 : (c == 45) = false := by simpa using h45
      have hpu : parseUint (c :: rest) 10 64 = .syntaxErr := by
        unfold parseUint
        rw [if_neg (by simp)]
        unfold parseUintLoop
        split
        · rfl
        · rename_i d hd
          rw [hd] at hdig
          simp only [] at hdig
          rw [if_pos hdig]
      unfold parseInt
      simp only [e43, e45, Bool.or_self, Bool.false_eq_true, if_false, hpu]

theorem intLit_not_name {v : Bytes} {neg : Bool} {n : Nat} (h : IntLit v neg n) :
    validName v = false := by
  have hstart : ∀ (c : UInt8) (r : Bytes), isNameStart c = false → validName (c :: r) = false := by
    intro c r hc; simp [validName, hc]
  have hpre : ∀ (pre tail : Bytes), IsBlanks pre → (∀ c r, tail = c :: r → isNameStart c = false) →
      tail ≠ [] → validName (pre ++ tail) = false := by
    intro pre tail hb ht hne
    cases pre with
    | nil =>
      cases tail with
      | nil => exact absurd rfl hne
      | cons c r => exact hstart c r (ht c r rfl)
    | cons b bs => exact hstart b _ (blank_space (hb b (List.mem_cons_self ..))).2
  cases h with
  | pos pre lit post n hp _ hl =>
    obtain ⟨c, rest, rfl, h1, h2⟩ := specNumber_starts_digit hl
    rw [List.append_assoc]
    exact hpre pre _ hp (fun c' r' he => by
      simp at he; rw [← he.1]; exact (digit_not_start h1 h2).1) (by simp)
  | plus pre lit post n hp _ hl =>
    rw [List.append_assoc]
    exact hpre pre _ hp (fun c' r' he => by simp at he; rw [← he.1]; decide) (by simp)
  | minus pre lit post n hp _ hl =>
    rw [List.append_assoc]
    exact hpre pre _ hp (fun c' r' he => by simp at he; rw [← he.1]; decide) (by simp)

/-! ### strconv.FormatInt -/

theorem specDigits_cons (base acc : Nat) (c : UInt8) (cs : Bytes) :
    specDigits base acc (c :: cs) =
      match specDigit base c with
      | some d => if d < base then specDigits base (acc * base + d) cs else none
      | none => none := by
  rw [specDigits]
  rfl

theorem specDigits_append {base : Nat} : ∀ (a b : Bytes) (acc : Nat),
    specDigits base acc (a ++ b) = (specDigits base acc a).bind (fun m => specDigits base m b)
  | [], b, acc => by simp [specDigits]
  | c :: cs, b, acc => by
    rw [List.cons_append, specDigits_cons, specDigits_cons]
    cases specDigit base c with
    | none => rfl
    | some d =>
      simp only []
      by_cases hd : d < base
      · rw [if_pos hd, if_pos hd]; exact specDigits_append cs b _
      · rw [if_neg hd, if_neg hd]; rfl

theorem specDigits_single {base acc d : Nat} {c : UInt8} (h : specDigit base c = some d)
    (hd : d < base) : specDigits base acc [c] = some (acc * base + d) := by
  rw [specDigits_cons, h]
  simp only [hd, if_true]
  rfl

theorem decDigit_facts : ∀ n, n < 10 →
    specDigit 10 (UInt8.ofNat (48 + n)) = some n ∧ UInt8.ofNat (48 + n) ≠ 35 ∧
      (1 ≤ n → UInt8.ofNat (48 + n) ≠ 48) := by decide

theorem fmtNatGo_spec : ∀ (fuel n : Nat), n < fuel →
    specDigits 10 0 (fmtNatGo fuel n) = some n ∧ (∀ b ∈ fmtNatGo fuel n, b ≠ 35) ∧
      ∃ c r, fmtNatGo fuel n = c :: r ∧ (1 ≤ n → c ≠ 48)
  | 0, n, h => by omega
  | fuel + 1, n, h => by
    unfold fmtNatGo
    by_cases hn : n < 10
    · rw [if_pos hn]
      obtain ⟨h1, h2, h3⟩ := decDigit_facts n hn
      refine ⟨?_, ?_, _, _, rfl, h3⟩
      · rw [specDigits_single h1 hn]; simp
      · intro b hb; rw [List.mem_singleton] at hb; rw [hb]; exact h2
    · rw [if_neg hn]
      have hlt : n / 10 < fuel := by omega
      obtain ⟨ih1, ih2, c, r, ih3, ih4⟩ := fmtNatGo_spec fuel (n / 10) hlt
      obtain ⟨h1, h2, _⟩ := decDigit_facts (n % 10) (by omega)
      refine ⟨?_, ?_, c, r ++ [UInt8.ofNat (48 + n % 10)], ?_, ?_⟩
      · rw [specDigits_append, ih1]
        have hm : n % 10 < 10 := by omega
        show specDigits 10 (n / 10) [UInt8.ofNat (48 + n % 10)] = some n
        rw [specDigits_single h1 hm]
        congr 1; omega
      · intro b hb
        rcases List.mem_append.1 hb with hb | hb
        · exact ih2 b hb
        · rw [List.mem_singleton] at hb; rw [hb]; exact h2
      · rw [ih3]; rfl
      · intro _; exact ih4 (by omega)

theorem specNumber_fmtNat (n : Nat) : specNumber (fmtNat n) = some n := by
  unfold fmtNat
  obtain ⟨h1, h2, c, r, h3, h4⟩ := fmtNatGo_spec (n + 1) n (by omega)
  by_cases hn : n = 0
  · subst hn; decide
  · rw [h3] at h1 h2 ⊢
    rw [specNumber_other (h4 (by omega)), cutHash_none_of_no_hash _ h2]
    exact h1

theorem fmtInt_intLit (v : Int) : IntLit (fmtInt v) (decide (v < 0)) v.natAbs := by
  unfold fmtInt
  by_cases hv : v < 0
  · rw [if_pos hv]
    have := IntLit.minus [] (fmtNat v.natAbs) [] v.natAbs (by intro b hb; cases hb)
      (by intro b hb; cases hb) (specNumber_fmtNat _)
    simpa [hv] using this
  · rw [if_neg hv]
    have := IntLit.pos [] (fmtNat v.natAbs) [] v.natAbs (by intro b hb; cases hb)
      (by intro b hb; cases hb) (specNumber_fmtNat _)
    simpa [hv] using this

/-- `atoi` reads back what `FormatInt` wrote — except for the most negative int64, whose
    magnitude `strconv.ParseInt` clamps (an overflow case, outside the property's domain). -/
theorem atoi_fmtInt {v : Int} (h : inI64 v = true) (hmin : v ≠ -9223372036854775808) :
    atoi (fmtInt v) = v := by
  rw [inI64_iff] at h
  by_cases hv : v < 0
  · rw [atoi_intLit (fmtInt_intLit v) (by omega)]
    simp only [hv, decide_true, if_true, Int.ofNat_eq_natCast]
    omega
  · rw [atoi_intLit (fmtInt_intLit v) (by omega)]
    simp only [hv, decide_false, Bool.false_eq_true, if_false, Int.ofNat_eq_natCast]
    omega

theorem atoi_fmtInt_min : atoi (fmtInt (-9223372036854775808)) = -9223372036854775807 := by decide

end ShVerif.C20
