import ShVerif.Model.C33
/-
  C33 — helper lemmas.  Core Lean only.
  A. sorted association lists (the map specification)      B. abstraction of dense / sparse lists
  C. Go's binary search = first position with an element ≥ k on increasing lists
  D. SetIndexedElem / DeleteIndexedElem refine insert / erase  E. reads  F. operations
-/
namespace ShVerif.C33

/-! ## A. sorted association lists -/
namespace SMap

theorem lookup_insert (m : SMap) (k : Int) (v : Str) (j : Int) :
    lookup (insert m k v) j = if j = k then some v else lookup m j := by
  induction m with
  | nil => simp [insert, lookup]
  | cons p m ih =>
    obtain ⟨k', v'⟩ := p
    simp only [insert]
    split
    · simp only [lookup]
    · split
      · next h => subst h; by_cases e : j = k <;> simp [lookup, e]
      · next h1 h2 =>
        simp only [lookup, ih]
        by_cases e : j = k'
        · subst e
          have : ¬ j = k := by omega
          simp [this]
        · simp [e]

theorem mem_insert {m : SMap} {k : Int} {v : Str} {p : Int × Str} (h : p ∈ insert m k v) :
    p = (k, v) ∨ p ∈ m := by
  induction m with
  | nil => simp [insert] at h; exact Or.inl h
  | cons q m ih =>
    obtain ⟨k', v'⟩ := q
    simp only [insert] at h
    split at h
    · simp only [List.mem_cons] at h ⊢; exact h
    · split at h
      · simp only [List.mem_cons] at h ⊢
        rcases h with h | h
        · exact Or.inl h
        · exact Or.inr (Or.inr h)
      · simp only [List.mem_cons] at h ⊢
        rcases h with h | h
        · exact Or.inr (Or.inl h)
        · rcases ih h with h | h
          · exact Or.inl h
          · exact Or.inr (Or.inr h)

theorem insert_sorted {m : SMap} (hs : m.Sorted) (k : Int) (v : Str) : (insert m k v).Sorted := by
  induction m with
  | nil => simp [insert, Sorted]
  | cons q m ih =>
    obtain ⟨k', v'⟩ := q
    unfold Sorted at hs ih ⊢
    rw [List.pairwise_cons] at hs
    simp only [insert]
    split
    · next h =>
      rw [List.pairwise_cons]
      refine ⟨?_, List.pairwise_cons.mpr hs⟩
      intro p hp
      simp only [List.mem_cons] at hp
      rcases hp with hp | hp
      · subst hp; exact h
      · have := hs.1 p hp; simp only at this ⊢; omega
    · split
      · next h1 h2 =>
        subst h2
        rw [List.pairwise_cons]
        exact hs
      · next h1 h2 =>
        rw [List.pairwise_cons]
        refine ⟨?_, ih hs.2⟩
        intro p hp
        rcases mem_insert hp with hp | hp
        · subst hp; simp only; omega
        · exact hs.1 p hp

theorem lookup_none_of_lt {m : SMap} {j : Int} (h : ∀ p ∈ m, j < p.1) : lookup m j = none := by
  induction m with
  | nil => rfl
  | cons q m ih =>
    obtain ⟨k', v'⟩ := q
    have h1 := h (k', v') (List.mem_cons_self ..)
    simp only at h1
    simp only [lookup]
    rw [if_neg (by omega)]
    exact ih fun p hp => h p (List.mem_cons_of_mem _ hp)

theorem erase_sublist (m : SMap) (k : Int) : (erase m k).Sublist m := by
  induction m with
  | nil => exact List.Sublist.refl _
  | cons q m ih =>
    obtain ⟨k', v'⟩ := q
    simp only [erase]
    split
    · exact List.sublist_cons_self ..
    · exact List.Sublist.cons_cons _ ih

theorem erase_sorted {m : SMap} (hs : m.Sorted) (k : Int) : (erase m k).Sorted :=
  List.Pairwise.sublist (erase_sublist m k) hs

theorem lookup_erase {m : SMap} (hs : m.Sorted) (k j : Int) :
    lookup (erase m k) j = if j = k then none else lookup m j := by
  induction m with
  | nil => simp [erase, lookup]
  | cons q m ih =>
    obtain ⟨k', v'⟩ := q
    unfold Sorted at hs ih
    rw [List.pairwise_cons] at hs
    simp only [erase]
    split
    · next h =>
      subst h
      simp only [lookup]
      by_cases e : j = k
      · subst e
        simp only [if_true]
        exact lookup_none_of_lt fun p hp => hs.1 p hp
      · simp [e]
    · next h =>
      simp only [lookup, ih hs.2]
      by_cases e : j = k'
      · subst e
        have : ¬ j = k := by omega
        simp [this]
      · simp [e]

theorem erase_of_not_mem {m : SMap} {k : Int} (h : ∀ p ∈ m, p.1 ≠ k) : erase m k = m := by
  induction m with
  | nil => rfl
  | cons q m ih =>
    obtain ⟨k', v'⟩ := q
    have h1 := h (k', v') (List.mem_cons_self ..)
    simp only [ne_eq] at h1
    simp only [erase]
    rw [if_neg (fun e => h1 e.symm)]
    rw [ih fun p hp => h p (List.mem_cons_of_mem _ hp)]

theorem lookup_isSome_iff_mem_keys (m : SMap) (k : Int) : lookup m k ≠ none ↔ k ∈ m.keys := by
  induction m with
  | nil => simp [lookup, keys]
  | cons q m ih =>
    obtain ⟨k', v'⟩ := q
    simp only [lookup, keys, List.map_cons, List.mem_cons]
    by_cases e : k = k'
    · simp [e]
    · simp only [e, if_false, false_or]
      exact ih

/-- Sorted association lists are canonical: equal lookups, equal lists. -/
theorem ext {m₁ m₂ : SMap} (h₁ : m₁.Sorted) (h₂ : m₂.Sorted)
    (h : ∀ k, lookup m₁ k = lookup m₂ k) : m₁ = m₂ := by
  induction m₁ generalizing m₂ with
  | nil =>
    cases m₂ with
    | nil => rfl
    | cons q m₂ =>
      have := h q.1
      simp [lookup] at this
  | cons p m₁ ih =>
    obtain ⟨k₁, v₁⟩ := p
    cases m₂ with
    | nil =>
      have := h k₁
      simp [lookup] at this
    | cons q m₂ =>
      obtain ⟨k₂, v₂⟩ := q
      unfold Sorted at h₁ h₂ ih
      rw [List.pairwise_cons] at h₁ h₂
      have hk : k₁ = k₂ := by
        have a := h k₁
        have b := h k₂
        simp only [lookup, if_true] at a b
        by_cases e : k₁ = k₂
        · exact e
        · exfalso
          rw [if_neg e] at a
          rw [if_neg (fun x => e x.symm)] at b
          by_cases lt : k₁ < k₂
          · rw [lookup_none_of_lt (fun p hp => by have := h₂.1 p hp; simp only at this; omega)] at a
            cases a
          · rw [lookup_none_of_lt (fun p hp => by have := h₁.1 p hp; simp only at this; omega)] at b
            cases b
      subst hk
      have hv : v₁ = v₂ := by
        have a := h k₁
        simp only [lookup, if_true] at a
        exact Option.some.inj a
      subst hv
      congr 1
      apply ih h₁.2 h₂.2
      intro k
      by_cases e : k = k₁
      · subst e
        rw [lookup_none_of_lt (fun p hp => h₁.1 p hp), lookup_none_of_lt (fun p hp => h₂.1 p hp)]
      · have a := h k
        simp only [lookup, if_neg e] at a
        exact a

theorem maxKey_cons_cons (p q : Int × Str) (m : SMap) : maxKey (p :: q :: m) = maxKey (q :: m) := by
  obtain ⟨k, v⟩ := p
  rfl

theorem maxKey_eq_getLastD (m : SMap) : maxKey m = m.keys.getLastD (-1) := by
  induction m with
  | nil => rfl
  | cons p m ih =>
    cases m with
    | nil => obtain ⟨k, v⟩ := p; rfl
    | cons q m =>
      rw [maxKey_cons_cons, ih]
      simp [keys, List.getLastD]

theorem maxKey_mem {m : SMap} (h : m ≠ []) : maxKey m ∈ m.keys := by
  induction m with
  | nil => exact absurd rfl h
  | cons p m ih =>
    cases m with
    | nil => obtain ⟨k, v⟩ := p; simp [maxKey, keys]
    | cons q m =>
      rw [maxKey_cons_cons]
      have := ih (by simp)
      simp only [keys, List.map_cons, List.mem_cons] at this ⊢
      exact Or.inr this

theorem le_maxKey {m : SMap} (hs : m.Sorted) {k : Int} (hk : k ∈ m.keys) : k ≤ maxKey m := by
  induction m with
  | nil => simp [keys] at hk
  | cons p m ih =>
    unfold Sorted at hs ih
    rw [List.pairwise_cons] at hs
    cases m with
    | nil =>
      obtain ⟨k', v⟩ := p
      simp [keys] at hk
      simp [maxKey, hk]
    | cons q m =>
      rw [maxKey_cons_cons]
      simp only [keys, List.map_cons, List.mem_cons] at hk
      rcases hk with hk | hk
      · have h1 : p.1 < (maxKey (q :: m)) := by
          have hm : maxKey (q :: m) ∈ keys (q :: m) := maxKey_mem (by simp)
          simp only [keys, List.mem_map] at hm
          obtain ⟨r, hr, e⟩ := hm
          have := hs.1 r hr
          omega
        omega
      · exact ih hs.2 (by simpa [keys] using hk)

theorem maxKey_ge_neg_one {m : SMap} (h : ∀ p ∈ m, 0 ≤ p.1) : -1 ≤ maxKey m := by
  by_cases e : m = []
  · subst e; simp [maxKey]
  · have := maxKey_mem e
    simp only [keys, List.mem_map] at this
    obtain ⟨r, hr, er⟩ := this
    have := h r hr
    omega

end SMap

/-! ## B. abstraction of dense and sparse representations -/

theorem length_iotaFrom (s : Int) (n : Nat) : (iotaFrom s n).length = n := by
  induction n generalizing s with
  | zero => rfl
  | succ n ih => simp [iotaFrom, ih]

theorem zip_iotaFrom (s : Int) (l : List Str) : (iotaFrom s l.length).zip l = enumFrom s l := by
  induction l generalizing s with
  | nil => rfl
  | cons x xs ih => simp [iotaFrom, enumFrom, ih]

theorem isIotaFrom_iotaFrom (s : Int) (n : Nat) : isIotaFrom s (iotaFrom s n) = true := by
  induction n generalizing s with
  | zero => rfl
  | succ n ih => simp [iotaFrom, isIotaFrom, ih]

theorem eq_iotaFrom_of_isIotaFrom {s : Int} {ix : List Int} (h : isIotaFrom s ix = true) :
    ix = iotaFrom s ix.length := by
  induction ix generalizing s with
  | nil => rfl
  | cons k ks ih =>
    simp only [isIotaFrom, Bool.and_eq_true, beq_iff_eq] at h
    simp only [List.length_cons, iotaFrom]
    rw [← ih h.2, h.1]

theorem keys_zip {ix : List Int} {list : List Str} (h : ix.length = list.length) :
    SMap.keys (ix.zip list) = ix := by
  induction ix generalizing list with
  | nil => rfl
  | cons k ks ih =>
    cases list with
    | nil => simp at h
    | cons x xs =>
      simp only [List.length_cons, Nat.add_right_cancel_iff] at h
      have := ih h
      simp only [SMap.keys] at this ⊢
      simp [this]

theorem vals_zip {ix : List Int} {list : List Str} (h : ix.length = list.length) :
    SMap.vals (ix.zip list) = list := by
  induction ix generalizing list with
  | nil => cases list with
    | nil => rfl
    | cons x xs => simp at h
  | cons k ks ih =>
    cases list with
    | nil => simp at h
    | cons x xs =>
      simp only [List.length_cons, Nat.add_right_cancel_iff] at h
      have := ih h
      simp only [SMap.vals] at this ⊢
      simp [this]

theorem length_enumFrom (s : Int) (l : List Str) : (enumFrom s l).length = l.length := by
  induction l generalizing s with
  | nil => rfl
  | cons x xs ih => simp [enumFrom, ih]

theorem keys_enumFrom (s : Int) (l : List Str) : SMap.keys (enumFrom s l) = iotaFrom s l.length := by
  rw [← zip_iotaFrom, keys_zip (length_iotaFrom ..)]

theorem vals_enumFrom (s : Int) (l : List Str) : SMap.vals (enumFrom s l) = l := by
  rw [← zip_iotaFrom, vals_zip (length_iotaFrom ..)]

theorem mem_iotaFrom {s : Int} {n : Nat} {k : Int} : k ∈ iotaFrom s n ↔ s ≤ k ∧ k < s + n := by
  induction n generalizing s with
  | zero => simp [iotaFrom]
  | succ n ih =>
    simp only [iotaFrom, List.mem_cons, ih]
    omega

theorem increasing_iotaFrom (s : Int) (n : Nat) : Increasing (iotaFrom s n) := by
  unfold Increasing
  induction n generalizing s with
  | zero => exact List.Pairwise.nil
  | succ n ih =>
    simp only [iotaFrom]
    rw [List.pairwise_cons]
    refine ⟨?_, ih _⟩
    intro k hk
    have := mem_iotaFrom.mp hk
    omega

theorem sorted_iff_keys (m : SMap) : m.Sorted ↔ Increasing m.keys := by
  unfold SMap.Sorted Increasing SMap.keys
  rw [List.pairwise_map]

/-- The invariant of `Variable.Indexes` before canonicalisation. -/
structure PreWF (list : List Str) (ix : List Int) : Prop where
  len : ix.length = list.length
  inc : Increasing ix
  nonneg : ∀ k ∈ ix, 0 ≤ k

theorem PreWF.iota (list : List Str) : PreWF list (iotaFrom 0 list.length) :=
  ⟨length_iotaFrom .., increasing_iotaFrom .., fun _ hk => (mem_iotaFrom.mp hk).1⟩

theorem Arr.WF.dense (list : List Str) : (Arr.mk list none).WF :=
  ⟨fun ix h => by cases h⟩

theorem Arr.WF.pre {a : Arr} (h : a.WF) {ix : List Int} (e : a.idx = some ix) : PreWF a.list ix :=
  let ⟨h1, h2, h3, _⟩ := h.shape ix e
  ⟨h1, h2, h3⟩

theorem canonical_spec {list : List Str} {ix : List Int} (h : PreWF list ix) :
    (Arr.mk list (canonical (some ix))).WF ∧ (Arr.mk list (canonical (some ix))).abs = ix.zip list := by
  simp only [canonical]
  split
  · next hi =>
    refine ⟨Arr.WF.dense _, ?_⟩
    simp only [Arr.abs]
    rw [eq_iotaFrom_of_isIotaFrom hi, h.len, zip_iotaFrom]
  · next hi =>
    refine ⟨⟨?_⟩, rfl⟩
    intro ix' e
    cases e
    exact ⟨h.len, h.inc, h.nonneg, by simpa using hi⟩

theorem abs_sorted {a : Arr} (h : a.WF) : a.abs.Sorted := by
  rw [sorted_iff_keys]
  unfold Arr.abs
  split
  · rw [keys_enumFrom]; exact increasing_iotaFrom ..
  · next ix e =>
    have p := h.pre e
    rw [keys_zip p.len]; exact p.inc

theorem abs_keys_nonneg {a : Arr} (h : a.WF) : ∀ k ∈ a.abs.keys, 0 ≤ k := by
  unfold Arr.abs
  split
  · rw [keys_enumFrom]; intro k hk; exact (mem_iotaFrom.mp hk).1
  · next ix e =>
    have p := h.pre e
    rw [keys_zip p.len]; exact p.nonneg

/-! ## C. binary search -/

/-- First position holding an element that is not `< k` (a linear scan). -/
def lb : List Int → Int → Nat
  | [], _ => 0
  | x :: xs, k => if x < k then lb xs k + 1 else 0

theorem lb_le_length (xs : List Int) (k : Int) : lb xs k ≤ xs.length := by
  induction xs with
  | nil => simp [lb]
  | cons x xs ih => simp only [lb]; split <;> simp <;> omega

theorem increasing_getD {xs : List Int} (h : Increasing xs) {a b : Nat} (hab : a < b)
    (hb : b < xs.length) : xs.getD a 0 < xs.getD b 0 := by
  unfold Increasing at h
  rw [List.pairwise_iff_getElem] at h
  have := h a b (by omega) hb hab
  simpa [List.getD, List.getElem?_eq_getElem, hb, (show a < xs.length by omega)] using this

theorem bsearch_spec (xs : List Int) (k : Int) (inc : Increasing xs) :
    ∀ fuel i j, j - i < fuel → i ≤ j → j ≤ xs.length →
      (∀ p, p < i → xs.getD p 0 < k) →
      (∀ p, j ≤ p → p < xs.length → ¬ xs.getD p 0 < k) →
      (∀ p, p < bsearch xs k fuel i j → xs.getD p 0 < k) ∧
      (∀ p, bsearch xs k fuel i j ≤ p → p < xs.length → ¬ xs.getD p 0 < k) ∧
      bsearch xs k fuel i j ≤ xs.length := by
  intro fuel
  induction fuel with
  | zero => intro i j h; omega
  | succ fuel ih =>
    intro i j hf hle hj hlo hhi
    simp only [bsearch]
    split
    · next hij =>
      have h1 : i ≤ (i + j) / 2 := by omega
      have h2 : (i + j) / 2 < j := by omega
      split
      · next hneg =>
        apply ih _ _ (by omega) (by omega) hj
        · intro p hp
          by_cases e : p = (i + j) / 2
          · subst e; exact hneg
          · have := increasing_getD inc (show p < (i + j) / 2 by omega) (by omega)
            omega
        · exact hhi
      · next hneg =>
        apply ih _ _ (by omega) (by omega) (by omega) hlo
        intro p hp hpn
        by_cases e : p = (i + j) / 2
        · subst e; exact hneg
        · have := increasing_getD inc (show (i + j) / 2 < p by omega) hpn
          omega
    · next hij =>
      exact ⟨hlo, fun p hp hpn => hhi p (by omega) hpn, by omega⟩

theorem lb_spec (xs : List Int) (k : Int) (inc : Increasing xs) :
    (∀ p, p < lb xs k → xs.getD p 0 < k) ∧
    (∀ p, lb xs k ≤ p → p < xs.length → ¬ xs.getD p 0 < k) := by
  induction xs with
  | nil => simp [lb]
  | cons x xs ih =>
    unfold Increasing at inc ih
    rw [List.pairwise_cons] at inc
    obtain ⟨ih1, ih2⟩ := ih inc.2
    simp only [lb]
    split
    · next hx =>
      refine ⟨?_, ?_⟩
      · intro p hp
        cases p with
        | zero => simpa using hx
        | succ p => simpa using ih1 p (by omega)
      · intro p hp hpn
        cases p with
        | zero => omega
        | succ p => simpa using ih2 p (by omega) (by simpa using hpn)
    · next hx =>
      refine ⟨fun p hp => by omega, ?_⟩
      intro p _ hpn
      cases p with
      | zero => simpa using hx
      | succ p =>
        have hm : xs.getD p 0 ∈ xs := by
          have : p < xs.length := by simpa using hpn
          simp [List.getD, this]
        have := inc.1 _ hm
        simp only [List.getD_cons_succ]
        omega

theorem bsearch_eq_lb (xs : List Int) (k : Int) (inc : Increasing xs) :
    bsearch xs k (xs.length + 1) 0 xs.length = lb xs k := by
  obtain ⟨b1, b2, b3⟩ := bsearch_spec xs k inc (xs.length + 1) 0 xs.length (by omega) (by omega) (Nat.le_refl _)
    (fun p hp => by omega) (fun p hp hpn => by omega)
  obtain ⟨l1, l2⟩ := lb_spec xs k inc
  have l3 := lb_le_length xs k
  generalize bsearch xs k (xs.length + 1) 0 xs.length = r at b1 b2 b3
  by_cases h : r < lb xs k
  · exact absurd (l1 r h) (b2 r (Nat.le_refl _) (by omega))
  · by_cases h' : lb xs k < r
    · exact absurd (b1 _ h') (l2 _ (Nat.le_refl _) (by omega))
    · omega

/-- Whether the scan stops at an element equal to `k`. -/
def foundAt : List Int → Int → Bool
  | [], _ => false
  | x :: xs, k => if x < k then foundAt xs k else x == k

theorem foundAt_eq (xs : List Int) (k : Int) :
    foundAt xs k = (decide (lb xs k < xs.length) && xs.getD (lb xs k) 0 == k) := by
  induction xs with
  | nil => simp [foundAt, lb]
  | cons x xs ih =>
    simp only [foundAt, lb]
    split
    · simp [ih]
    · simp

theorem search_eq (xs : List Int) (k : Int) (inc : Increasing xs) :
    search xs k = (lb xs k, foundAt xs k) := by
  simp only [search, bsearch_eq_lb xs k inc, foundAt_eq]

/-! ## D. SetIndexedElem / DeleteIndexedElem refine insert / erase -/

theorem length_insertAt {α : Type} (l : List α) (n : Nat) (a : α) (h : n ≤ l.length) :
    (insertAt l n a).length = l.length + 1 := by
  induction l generalizing n with
  | nil => cases n <;> simp [insertAt]
  | cons x xs ih =>
    cases n with
    | zero => simp [insertAt]
    | succ n => simp [insertAt, ih n (by simpa using h)]

theorem mem_insertAt {α : Type} {l : List α} {n : Nat} {a x : α} (h : x ∈ insertAt l n a) :
    x = a ∨ x ∈ l := by
  induction l generalizing n with
  | nil => cases n <;> simp [insertAt] at h <;> exact Or.inl h
  | cons y ys ih =>
    cases n with
    | zero => simpa [insertAt] using h
    | succ n =>
      simp only [insertAt, List.mem_cons] at h ⊢
      rcases h with h | h
      · exact Or.inr (Or.inl h)
      · rcases ih h with h | h
        · exact Or.inl h
        · exact Or.inr (Or.inr h)

theorem length_removeAt {α : Type} (l : List α) (n : Nat) (h : n < l.length) :
    (removeAt l n).length + 1 = l.length := by
  induction l generalizing n with
  | nil => simp at h
  | cons x xs ih =>
    cases n with
    | zero => simp [removeAt]
    | succ n => simp [removeAt, ih n (by simpa using h)]

theorem removeAt_sublist {α : Type} (l : List α) (n : Nat) : (removeAt l n).Sublist l := by
  induction l generalizing n with
  | nil => simp [removeAt]
  | cons x xs ih =>
    cases n with
    | zero => exact List.sublist_cons_self ..
    | succ n => exact List.Sublist.cons_cons _ (ih n)

theorem foundAt_mem {xs : List Int} {k : Int} (h : foundAt xs k = true) : k ∈ xs := by
  induction xs with
  | nil => simp [foundAt] at h
  | cons x xs ih =>
    simp only [foundAt] at h
    split at h
    · exact List.mem_cons_of_mem _ (ih h)
    · simp only [beq_iff_eq] at h; subst h; exact List.mem_cons_self ..

theorem not_mem_of_foundAt_false {xs : List Int} {k : Int} (inc : Increasing xs)
    (h : foundAt xs k = false) : k ∉ xs := by
  induction xs with
  | nil => simp
  | cons x xs ih =>
    unfold Increasing at inc ih
    rw [List.pairwise_cons] at inc
    simp only [foundAt] at h
    split at h
    · next hx =>
      simp only [List.mem_cons, not_or]
      exact ⟨by omega, ih inc.2 h⟩
    · next hx =>
      simp only [beq_eq_false_iff_ne, ne_eq] at h
      simp only [List.mem_cons, not_or]
      refine ⟨fun e => h e.symm, fun hk => ?_⟩
      have := inc.1 k hk
      omega

theorem lb_lt_of_foundAt {xs : List Int} {k : Int} (h : foundAt xs k = true) : lb xs k < xs.length := by
  rw [foundAt_eq] at h
  simp only [Bool.and_eq_true, decide_eq_true_eq] at h
  exact h.1

theorem zip_set_found (ix : List Int) (list : List Str) (k : Int) (v : Str)
    (hl : ix.length = list.length) (hf : foundAt ix k = true) :
    ix.zip (list.set (lb ix k) v) = SMap.insert (ix.zip list) k v := by
  induction ix generalizing list with
  | nil => simp [foundAt] at hf
  | cons x xs ih =>
    cases list with
    | nil => simp at hl
    | cons y ys =>
      simp only [List.length_cons, Nat.add_right_cancel_iff] at hl
      simp only [foundAt] at hf
      simp only [lb]
      split
      · next hx =>
        rw [if_pos hx] at hf
        simp only [List.set_cons_succ, List.zip_cons_cons, SMap.insert]
        rw [if_neg (by omega), if_neg (by omega), ih ys hl hf]
      · next hx =>
        rw [if_neg hx] at hf
        simp only [beq_iff_eq] at hf
        subst hf
        simp [SMap.insert]

theorem zip_insert_notfound (ix : List Int) (list : List Str) (k : Int) (v : Str)
    (hl : ix.length = list.length) (hf : foundAt ix k = false) :
    (insertAt ix (lb ix k) k).zip (insertAt list (lb ix k) v) = SMap.insert (ix.zip list) k v := by
  induction ix generalizing list with
  | nil =>
    cases list with
    | nil => simp [lb, insertAt, SMap.insert]
    | cons y ys => simp at hl
  | cons x xs ih =>
    cases list with
    | nil => simp at hl
    | cons y ys =>
      simp only [List.length_cons, Nat.add_right_cancel_iff] at hl
      simp only [foundAt] at hf
      simp only [lb]
      split
      · next hx =>
        rw [if_pos hx] at hf
        simp only [insertAt, List.zip_cons_cons, SMap.insert]
        rw [if_neg (by omega), if_neg (by omega), ih ys hl hf]
      · next hx =>
        rw [if_neg hx] at hf
        simp only [beq_eq_false_iff_ne, ne_eq] at hf
        simp only [insertAt, List.zip_cons_cons, SMap.insert]
        rw [if_pos (by omega)]

theorem zip_remove_found (ix : List Int) (list : List Str) (k : Int)
    (hl : ix.length = list.length) (hf : foundAt ix k = true) :
    (removeAt ix (lb ix k)).zip (removeAt list (lb ix k)) = SMap.erase (ix.zip list) k := by
  induction ix generalizing list with
  | nil => simp [foundAt] at hf
  | cons x xs ih =>
    cases list with
    | nil => simp at hl
    | cons y ys =>
      simp only [List.length_cons, Nat.add_right_cancel_iff] at hl
      simp only [foundAt] at hf
      simp only [lb]
      split
      · next hx =>
        rw [if_pos hx] at hf
        simp only [removeAt, List.zip_cons_cons, SMap.erase]
        rw [if_neg (by omega), ih ys hl hf]
      · next hx =>
        rw [if_neg hx] at hf
        simp only [beq_iff_eq] at hf
        subst hf
        simp [removeAt, SMap.erase]

theorem zip_sorted {list : List Str} {ix : List Int} (h : PreWF list ix) : SMap.Sorted (ix.zip list) := by
  rw [sorted_iff_keys, keys_zip h.len]; exact h.inc

theorem mem_zip_key {list : List Str} {ix : List Int} {p : Int × Str} (hp : p ∈ ix.zip list) : p.1 ∈ ix :=
  (List.of_mem_zip hp).1

theorem sparseSet_spec {list : List Str} {ix : List Int} (h : PreWF list ix) (k : Int) (v : Str)
    (hk : 0 ≤ k) (hni : foundAt ix k = true → isIotaFrom 0 ix = false) :
    ∃ a', sparseSet list ix k v = .ok a' ∧ a'.WF ∧ a'.abs = SMap.insert (ix.zip list) k v := by
  simp only [sparseSet, search_eq ix k h.inc]
  cases hf : foundAt ix k with
  | true =>
    have hlt := lb_lt_of_foundAt hf
    simp only [if_true]
    rw [if_pos (by rw [← h.len]; exact hlt)]
    refine ⟨_, rfl, ⟨?_⟩, ?_⟩
    · intro ix' e
      cases e
      exact ⟨by simp [h.len], h.inc, h.nonneg, hni hf⟩
    · simp only [Arr.abs]
      exact zip_set_found ix list k v h.len hf
  | false =>
    have hle := lb_le_length ix k
    simp only [Bool.false_eq_true, if_false]
    rw [if_pos (by rw [← h.len]; exact hle)]
    have hz := zip_insert_notfound ix list k v h.len hf
    have hlen : (insertAt ix (lb ix k) k).length = (insertAt list (lb ix k) v).length := by
      rw [length_insertAt _ _ _ hle, length_insertAt _ _ _ (by rw [← h.len]; exact hle), h.len]
    have pre : PreWF (insertAt list (lb ix k) v) (insertAt ix (lb ix k) k) := by
      refine ⟨hlen, ?_, ?_⟩
      · have := SMap.insert_sorted (zip_sorted h) k v
        rw [← hz, sorted_iff_keys, keys_zip hlen] at this
        exact this
      · intro j hj
        rcases mem_insertAt hj with e | e
        · omega
        · exact h.nonneg j e
    obtain ⟨w, ab⟩ := canonical_spec pre
    exact ⟨_, rfl, w, by rw [ab, hz]⟩

theorem enumFrom_set (s : Int) (l : List Str) (n : Nat) (v : Str) (h : n < l.length) :
    enumFrom s (l.set n v) = SMap.insert (enumFrom s l) (s + n) v := by
  induction l generalizing s n with
  | nil => simp at h
  | cons y ys ih =>
    cases n with
    | zero =>
      simp only [List.set_cons_zero, enumFrom, SMap.insert]
      rw [if_neg (by omega), if_pos (by omega)]
      simp
    | succ n =>
      simp only [List.set_cons_succ, enumFrom, SMap.insert]
      rw [if_neg (by omega), if_neg (by omega), ih (s + 1) n (by simpa using h)]
      congr 2
      omega

theorem enumFrom_append (s : Int) (l : List Str) (v : Str) :
    enumFrom s (l ++ [v]) = SMap.insert (enumFrom s l) (s + l.length) v := by
  induction l generalizing s with
  | nil => simp [enumFrom, SMap.insert]
  | cons y ys ih =>
    simp only [List.cons_append, enumFrom, SMap.insert, List.length_cons]
    rw [if_neg (by omega), if_neg (by omega), ih (s + 1)]
    congr 2
    omega

theorem mem_enumFrom_key {s : Int} {l : List Str} {p : Int × Str} (hp : p ∈ enumFrom s l) :
    s ≤ p.1 ∧ p.1 < s + l.length := by
  have : p.1 ∈ SMap.keys (enumFrom s l) := List.mem_map_of_mem hp
  rw [keys_enumFrom] at this
  exact mem_iotaFrom.mp this

theorem setElem_spec {a : Arr} (h : a.WF) (k : Int) (v : Str) (hk : 0 ≤ k) :
    ∃ a', setElem a k v = .ok a' ∧ a'.WF ∧ a'.abs = a.abs.insert k v := by
  unfold setElem
  split
  · next e =>
    simp only [Arr.abs, e]
    split
    · next hlt =>
      rw [if_neg (by omega)]
      refine ⟨_, rfl, Arr.WF.dense _, ?_⟩
      dsimp only
      have := enumFrom_set 0 a.list k.toNat v (by omega)
      rw [this]
      congr 1
      omega
    · next hge =>
      split
      · next heq =>
        refine ⟨_, rfl, Arr.WF.dense _, ?_⟩
        dsimp only
        rw [enumFrom_append, heq]
        simp
      · next hne =>
        have nf : foundAt (iotaFrom 0 a.list.length) k = false := by
          cases hf : foundAt (iotaFrom 0 a.list.length) k with
          | false => rfl
          | true =>
            have := mem_iotaFrom.mp (foundAt_mem hf)
            omega
        have := sparseSet_spec (PreWF.iota a.list) k v hk (by rw [nf]; intro c; cases c)
        rw [zip_iotaFrom] at this
        exact this
  · next ix e =>
    have := sparseSet_spec (h.pre e) k v hk (fun _ => (h.shape ix e).2.2.2)
    simp only [Arr.abs, e]
    exact this

theorem sparseDel_spec {list : List Str} {ix : List Int} (h : PreWF list ix) (k : Int)
    (hni : foundAt ix k = false → isIotaFrom 0 ix = false) :
    ∃ a', sparseDel list ix k = .ok a' ∧ a'.WF ∧ a'.abs = SMap.erase (ix.zip list) k := by
  simp only [sparseDel, search_eq ix k h.inc]
  cases hf : foundAt ix k with
  | false =>
    simp only [Bool.not_false, if_true]
    refine ⟨_, rfl, ⟨?_⟩, ?_⟩
    · intro ix' e
      cases e
      exact ⟨h.len, h.inc, h.nonneg, hni hf⟩
    · simp only [Arr.abs]
      rw [SMap.erase_of_not_mem]
      intro p hp e
      exact not_mem_of_foundAt_false h.inc hf (e ▸ mem_zip_key hp)
  | true =>
    have hlt := lb_lt_of_foundAt hf
    simp only [Bool.not_true, Bool.false_eq_true, if_false]
    rw [if_pos (by rw [← h.len]; omega)]
    have hz := zip_remove_found ix list k h.len hf
    have l1 := length_removeAt ix _ hlt
    have l2 := length_removeAt list (lb ix k) (by rw [← h.len]; exact hlt)
    have hlen : (removeAt ix (lb ix k)).length = (removeAt list (lb ix k)).length := by
      have := h.len
      omega
    have pre : PreWF (removeAt list (lb ix k)) (removeAt ix (lb ix k)) := by
      refine ⟨hlen, ?_, ?_⟩
      · exact List.Pairwise.sublist (removeAt_sublist ..) h.inc
      · intro j hj
        exact h.nonneg j ((removeAt_sublist ..).subset hj)
    obtain ⟨w, ab⟩ := canonical_spec pre
    exact ⟨_, rfl, w, by rw [ab, hz]⟩

theorem enumFrom_take_last (s : Int) (l : List Str) (n : Nat) (h : n + 1 = l.length) :
    enumFrom s (l.take n) = SMap.erase (enumFrom s l) (s + n) := by
  induction l generalizing s n with
  | nil => simp at h
  | cons y ys ih =>
    cases n with
    | zero =>
      have : ys = [] := by
        cases ys with
        | nil => rfl
        | cons _ _ => simp at h
      subst this
      simp [enumFrom, SMap.erase]
    | succ n =>
      simp only [List.take_succ_cons, enumFrom, SMap.erase]
      rw [if_neg (by omega), ih (s + 1) n (by simpa using h)]
      congr 2
      omega

theorem deleteElem_spec {a : Arr} (h : a.WF) (k : Int) :
    ∃ a', deleteElem a k = .ok a' ∧ a'.WF ∧ a'.abs = a.abs.erase k := by
  unfold deleteElem
  split
  · next e =>
    simp only [Arr.abs, e]
    split
    · next hout =>
      refine ⟨_, rfl, Arr.WF.dense _, ?_⟩
      dsimp only
      rw [SMap.erase_of_not_mem]
      intro p hp
      have := mem_enumFrom_key hp
      omega
    · next hin =>
      split
      · next hlast =>
        refine ⟨_, rfl, Arr.WF.dense _, ?_⟩
        dsimp only
        have := enumFrom_take_last 0 a.list k.toNat (by omega)
        rw [this]
        congr 1
        omega
      · next hmid =>
        have yf : foundAt (iotaFrom 0 a.list.length) k = true := by
          cases hf : foundAt (iotaFrom 0 a.list.length) k with
          | true => rfl
          | false =>
            have := not_mem_of_foundAt_false (increasing_iotaFrom ..) hf
            exact absurd (mem_iotaFrom.mpr (by omega)) this
        have := sparseDel_spec (PreWF.iota a.list) k (by rw [yf]; intro c; cases c)
        rw [zip_iotaFrom] at this
        exact this
  · next ix e =>
    have := sparseDel_spec (h.pre e) k (fun _ => (h.shape ix e).2.2.2)
    simp only [Arr.abs, e]
    exact this

/-! ## F. operations on variables -/

theorem getLastD_iotaFrom (s : Int) (n : Nat) (d : Int) :
    (iotaFrom s n).getLastD d = if n = 0 then d else s + n - 1 := by
  induction n generalizing s d with
  | zero => rfl
  | succ n ih =>
    simp only [iotaFrom, List.getLastD_cons, ih]
    split
    · next h => subst h; simp
    · simp; omega

theorem wf_idx_ne_nil {a : Arr} (h : a.WF) (e : a.idx = some []) : False := by
  have := (h.shape [] e).2.2.2
  simp [isIotaFrom] at this

theorem indexedMax_spec {a : Arr} (h : a.WF) : indexedMax a = a.abs.maxKey := by
  rw [SMap.maxKey_eq_getLastD]
  unfold indexedMax Arr.abs
  split
  · next x xs e =>
    simp only [e]
    rw [keys_zip (h.pre e).len, List.getLastD_cons, List.getLastD_cons]
  · next hno =>
    cases e : a.idx with
    | none =>
      simp only
      rw [keys_enumFrom, getLastD_iotaFrom]
      split <;> omega
    | some ix =>
      cases ix with
      | nil => exact (wf_idx_ne_nil h e).elim
      | cons x xs => exact (hno x xs e).elim

theorem indexedMax_ge {a : Arr} (h : a.WF) : -1 ≤ indexedMax a := by
  rw [indexedMax_spec h]
  apply SMap.maxKey_ge_neg_one
  intro p hp
  exact abs_keys_nonneg h p.1 (List.mem_map_of_mem hp)

theorem resolve_model {a : Arr} (h : a.WF) (i : Int) :
    (if i < 0 then i + (indexedMax a + 1) else i) = resolve a.abs i := by
  simp only [resolve, indexedMax_spec h]

theorem litLoop_spec (es : List Elem) : ∀ (a : Arr) (index : Int), a.WF → 0 ≤ index →
    ∃ a', litLoop a index es = .ok a' ∧ a'.WF ∧ a'.abs = specLit a.abs index es := by
  induction es with
  | nil => intro a index h _; exact ⟨a, rfl, h, rfl⟩
  | cons e es ih =>
    intro a index h hi
    cases e with
    | plain v =>
      obtain ⟨a1, e1, w1, ab1⟩ := setElem_spec h index v hi
      obtain ⟨a2, e2, w2, ab2⟩ := ih a1 (index + 1) w1 (by omega)
      refine ⟨a2, ?_, w2, ?_⟩
      · simp only [litLoop, e1, e2]
      · simp only [specLit]
        rw [← ab1]
        exact ab2
    | «at» i v =>
      simp only [litLoop, resolve_model h, specLit]
      by_cases hj : resolve a.abs i < 0
      · rw [if_pos hj, if_pos hj]
        exact ih a index h hi
      · rw [if_neg hj, if_neg hj]
        obtain ⟨a1, e1, w1, ab1⟩ := setElem_spec h (resolve a.abs i) v (by omega)
        obtain ⟨a2, e2, w2, ab2⟩ := ih a1 (resolve a.abs i + 1) w1 (by omega)
        refine ⟨a2, ?_, w2, ?_⟩
        · simp only [e1, e2]
        · rw [← ab1]
          exact ab2

theorem baseArr_spec {v : Var} (h : v.WF) : (baseArr v).WF ∧ (baseArr v).abs = v.absMap := by
  unfold baseArr Var.absMap
  cases v.kind with
  | unknown => exact ⟨Arr.WF.dense _, rfl⟩
  | str => exact ⟨Arr.WF.dense _, rfl⟩
  | indexed => exact ⟨h.arr, rfl⟩

theorem wf_indexed {a : Arr} (w : a.WF) (set : Bool) (str : Str) (nl : Bool) :
    (Var.mk .indexed set str a nl).WF :=
  ⟨w, (fun c => by cases c)⟩

theorem setWithIndex_spec (v : Var) {base : Arr} (hb : base.WF) (i : Int) (s : Str) :
    ∃ v', setWithIndex v base i s = .ok v' ∧
      (resolve base.abs i < 0 → v' = v) ∧
      (¬ resolve base.abs i < 0 → v'.WF ∧ v'.kind = .indexed ∧
        v'.arr.abs = base.abs.insert (resolve base.abs i) s) := by
  simp only [setWithIndex, resolve_model hb]
  by_cases hj : resolve base.abs i < 0
  · rw [if_pos hj]; exact ⟨v, rfl, fun _ => rfl, fun c => absurd hj c⟩
  · rw [if_neg hj]
    obtain ⟨a1, e1, w1, ab1⟩ := setElem_spec hb (resolve base.abs i) s (by omega)
    rw [e1]
    exact ⟨_, rfl, fun c => absurd c hj, fun _ => ⟨wf_indexed w1 _ _ _, rfl, ab1⟩⟩

theorem abs_nil_of_list_nil {a : Arr} (e : a.list = []) : a.abs = [] := by
  unfold Arr.abs
  split
  · rw [e]; rfl
  · rw [e]; simp

theorem appendZero_spec {a : Arr} (h : a.WF) (s : Str) :
    ∃ a', appendZero a s = .ok a' ∧ a'.WF ∧
      a'.abs = a.abs.insert 0 (optStr (a.abs.lookup 0) ++ s) := by
  unfold appendZero
  split
  · next x xs el =>
    split
    · next ei =>
      refine ⟨_, rfl, Arr.WF.dense _, ?_⟩
      simp [Arr.abs, ei, el, enumFrom, SMap.insert, SMap.lookup, optStr]
    · next ei =>
      have := (h.pre ei).len
      rw [el] at this
      simp at this
    · next i0 is ei =>
      have pre := h.pre ei
      split
      · next h0 =>
        subst h0
        refine ⟨_, rfl, ⟨?_⟩, ?_⟩
        · intro ix' e
          cases e
          have := h.shape _ ei
          rw [el] at this
          exact ⟨by simpa using this.1, this.2.1, this.2.2.1, this.2.2.2⟩
        · simp [Arr.abs, ei, el, SMap.insert, SMap.lookup, optStr]
      · next h0 =>
        obtain ⟨a1, e1, w1, ab1⟩ := setElem_spec h 0 s (Int.le_refl _)
        refine ⟨a1, e1, w1, ?_⟩
        rw [ab1]
        have : a.abs.lookup 0 = none := by
          apply SMap.lookup_none_of_lt
          intro p hp
          have hk : p.1 ∈ a.abs.keys := List.mem_map_of_mem hp
          simp only [Arr.abs, ei] at hk
          rw [keys_zip pre.len] at hk
          have i0pos : 0 ≤ i0 := pre.nonneg i0 (List.mem_cons_self ..)
          simp only [List.mem_cons] at hk
          rcases hk with hk | hk
          · omega
          · have inc := pre.inc
            unfold Increasing at inc
            rw [List.pairwise_cons] at inc
            have := inc.1 _ hk
            omega
        rw [this]
        simp [optStr]
  · next el =>
    obtain ⟨a1, e1, w1, ab1⟩ := setElem_spec h 0 s (Int.le_refl _)
    refine ⟨a1, e1, w1, ?_⟩
    rw [ab1, abs_nil_of_list_nil el]
    simp [SMap.lookup, optStr]

theorem Var.WF.zero_var : Var.zero.WF := ⟨Arr.WF.dense _, fun _ => rfl⟩

/-! ## E. reads -/

theorem indexedKeys_spec {a : Arr} (h : a.WF) : indexedKeys a = .ok a.abs.keys := by
  unfold indexedKeys Arr.abs
  split
  · rw [keys_enumFrom]
  · next ix e =>
    have pre := h.pre e
    rw [if_pos (by rw [pre.len]; exact Nat.le_refl _), keys_zip pre.len, ← pre.len, List.take_length]

theorem count_spec {a : Arr} (h : a.WF) : a.list.length = a.abs.length := by
  unfold Arr.abs
  split
  · rw [length_enumFrom]
  · next ix e => rw [List.length_zip, (h.pre e).len, Nat.min_self]

theorem lookup_zip (ix : List Int) (list : List Str) (k : Int) (hl : ix.length = list.length)
    (inc : Increasing ix) :
    SMap.lookup (ix.zip list) k = if foundAt ix k = true then list[lb ix k]? else none := by
  induction ix generalizing list with
  | nil => simp [SMap.lookup, foundAt]
  | cons x xs ih =>
    cases list with
    | nil => simp at hl
    | cons y ys =>
      simp only [List.length_cons, Nat.add_right_cancel_iff] at hl
      unfold Increasing at inc ih
      rw [List.pairwise_cons] at inc
      simp only [List.zip_cons_cons, SMap.lookup, foundAt, lb]
      by_cases hx : x < k
      · simp only [hx, ↓reduceIte]
        rw [if_neg (by omega), ih ys hl inc.2]
        simp
      · simp only [hx, ↓reduceIte]
        by_cases e : k = x
        · subst e; simp
        · rw [if_neg e]
          have : (x == k) = false := by simp; omega
          rw [this]
          simp only [Bool.false_eq_true, if_false]
          apply SMap.lookup_none_of_lt
          intro p hp
          have := inc.1 _ (mem_zip_key hp)
          omega

theorem lookup_enumFrom (s : Int) (l : List Str) (k : Int) :
    SMap.lookup (enumFrom s l) k = if s ≤ k ∧ k < s + l.length then l[(k - s).toNat]? else none := by
  induction l generalizing s with
  | nil =>
    simp only [enumFrom, SMap.lookup, List.length_nil]
    split <;> simp
  | cons y ys ih =>
    simp only [enumFrom, SMap.lookup, List.length_cons, ih]
    by_cases e : k = s
    · subst e
      simp
      omega
    · rw [if_neg e]
      by_cases c : s + 1 ≤ k ∧ k < s + 1 + ↑ys.length
      · rw [if_pos c, if_pos (by omega)]
        have : (k - s).toNat = (k - (s + 1)).toNat + 1 := by omega
        rw [this]
        simp
      · rw [if_neg c, if_neg (by omega)]

theorem indexedVal_spec {a : Arr} (h : a.WF) (i : Int) (hi : 0 ≤ i) :
    indexedVal a i = .ok (a.abs.lookup i) := by
  unfold indexedVal Arr.abs
  split
  · next ix e =>
    have pre := h.pre e
    simp only [e, search_eq ix i pre.inc, lookup_zip ix a.list i pre.len pre.inc]
    cases hf : foundAt ix i with
    | false => simp
    | true =>
      have hlt := lb_lt_of_foundAt hf
      rw [pre.len] at hlt
      simp only [if_true]
      rw [List.getElem?_eq_getElem hlt]
  · next e =>
    simp only [e]
    rw [lookup_enumFrom]
    split
    · next hlt =>
      rw [if_neg (by omega), if_pos (by omega)]
      have : i.toNat < a.list.length := by omega
      simp only [Int.sub_zero]
      rw [List.getElem?_eq_getElem this]
    · next hge =>
      rw [if_neg (by omega)]

theorem elemRead_spec {a : Arr} (h : a.WF) (i : Int) : elemRead a i = specRead a.abs i := by
  simp only [elemRead, specRead, resolve_model h]
  by_cases hj : resolve a.abs i < 0
  · rw [if_pos hj, if_pos hj]
  · rw [if_neg hj, if_neg hj, indexedVal_spec h _ (by omega)]
    cases SMap.lookup a.abs (resolve a.abs i) <;> rfl

/-- Dropping up to the first element ≥ o = keeping the elements with key ≥ o. -/
theorem drop_lb_zip (ix : List Int) (list : List Str) (o : Int) (hl : ix.length = list.length)
    (inc : Increasing ix) :
    list.drop (lb ix o) = SMap.vals ((ix.zip list).filter (fun p => decide (o ≤ p.1))) := by
  induction ix generalizing list with
  | nil =>
    cases list with
    | nil => rfl
    | cons y ys => simp at hl
  | cons x xs ih =>
    cases list with
    | nil => simp at hl
    | cons y ys =>
      simp only [List.length_cons, Nat.add_right_cancel_iff] at hl
      unfold Increasing at inc ih
      rw [List.pairwise_cons] at inc
      simp only [lb, List.zip_cons_cons]
      split
      · next hx =>
        rw [List.filter_cons_of_neg (by simp; omega)]
        simpa using ih ys hl inc.2
      · next hx =>
        have : ((x, y) :: xs.zip ys).filter (fun p => decide (o ≤ p.1)) = (x, y) :: xs.zip ys := by
          rw [List.filter_eq_self]
          intro p hp
          simp only [List.mem_cons] at hp
          rcases hp with hp | hp
          · subst hp; simp; omega
          · have := inc.1 _ (mem_zip_key hp)
            simp; omega
        rw [this]
        simp only [List.drop_zero, SMap.vals, List.map_cons]
        have := vals_zip hl
        simp only [SMap.vals] at this
        rw [this]

theorem filter_enumFrom (s : Int) (l : List Str) (o : Int) :
    SMap.vals ((enumFrom s l).filter (fun p => decide (o ≤ p.1))) = l.drop (o - s).toNat := by
  induction l generalizing s with
  | nil => simp [enumFrom, SMap.vals]
  | cons y ys ih =>
    simp only [enumFrom]
    by_cases c : o ≤ s
    · have all : ((s, y) :: enumFrom (s + 1) ys).filter (fun p => decide (o ≤ p.1))
          = (s, y) :: enumFrom (s + 1) ys := by
        rw [List.filter_eq_self]
        intro p hp
        simp only [List.mem_cons] at hp
        rcases hp with hp | hp
        · subst hp; simpa using c
        · have := mem_enumFrom_key hp
          simp; omega
      rw [all]
      have : (o - s).toNat = 0 := by omega
      rw [this]
      simp only [List.drop_zero, SMap.vals, List.map_cons]
      have := vals_enumFrom (s + 1) ys
      simp only [SMap.vals] at this
      rw [this]
    · rw [List.filter_cons_of_neg (by simpa using c), ih (s + 1)]
      have : (o - s).toNat = (o - (s + 1)).toNat + 1 := by omega
      rw [this]
      simp

theorem slicePos_nonneg (len : Nat) (n : Int) (h : 0 ≤ n) : slicePos len n = min n.toNat len := by
  unfold slicePos
  rw [if_neg (by omega)]
  split <;> omega

theorem take_min_length {α : Type} (l : List α) (n : Nat) : l.take (min n l.length) = l.take n := by
  by_cases h : n ≤ l.length
  · rw [Nat.min_eq_left h]
  · rw [Nat.min_eq_right (by omega), List.take_length, List.take_of_length_le (by omega)]

theorem sliceOffset_spec {a : Arr} (h : a.WF) (offset : Option Int) :
    sliceOffset a offset = .ok (specOffset a.abs offset).vals := by
  cases offset with
  | none =>
    simp only [sliceOffset, specOffset, Arr.abs]
    split
    · rw [vals_enumFrom]
    · next ix e => rw [vals_zip (h.pre e).len]
  | some off =>
    have hmax := indexedMax_spec h
    simp only [sliceOffset, specOffset]
    split
    · next x xs e =>
      have pre := h.pre e
      have hm : (x :: xs).getLastD 0 = a.abs.maxKey := by
        rw [← hmax]; simp only [indexedMax, e]
      rw [hm]
      simp only [search_eq _ _ pre.inc]
      rw [if_pos (by rw [← pre.len]; exact lb_le_length ..)]
      rw [drop_lb_zip _ _ _ pre.len pre.inc]
      simp only [Arr.abs, e]
    · next hno =>
      have e : a.idx = none := by
        cases e : a.idx with
        | none => rfl
        | some ix =>
          cases ix with
          | nil => exact (wf_idx_ne_nil h e).elim
          | cons x xs => exact (hno x xs e).elim
      have hm : a.abs.maxKey + 1 = a.list.length := by
        rw [← hmax]; simp only [indexedMax, e]; omega
      rw [hm]
      simp only [Arr.abs, e]
      rw [filter_enumFrom]
      by_cases hneg : off < 0
      · have : slicePos a.list.length off =
            ((if off + (a.list.length : Int) < 0 then (a.list.length : Int)
              else off + (a.list.length : Int)) - 0).toNat := by
          unfold slicePos
          rw [if_pos hneg]
          simp only []
          split <;> split <;> omega
        rw [if_pos hneg, this]
      · rw [if_neg hneg]
        unfold slicePos
        rw [if_neg hneg]
        split
        · rw [List.drop_of_length_le (Nat.le_refl _), List.drop_of_length_le (by omega)]
        · simp

/-- `${a[@]:off:len}`: for a non-negative (or absent) length the code computes the map
    definition. -/
theorem sliceElems_spec {a : Arr} (h : a.WF) (offset length : Option Int)
    (hl : ∀ l, length = some l → 0 ≤ l) :
    ∃ r, sliceElems a offset length = .ok r ∧ specSlice a.abs offset length = some r := by
  simp only [sliceElems, specSlice, sliceOffset_spec h]
  cases length with
  | none => exact ⟨_, rfl, rfl⟩
  | some l =>
    have hl0 := hl l rfl
    simp only
    rw [if_neg (by omega)]
    refine ⟨_, rfl, ?_⟩
    rw [slicePos_nonneg _ _ hl0, take_min_length]

/-! ## G. every operation, every sequence -/

theorem appendWithIndex_spec (v : Var) {base : Arr} (hb : base.WF) (i : Int) (s : Str) :
    ∃ v', appendWithIndex v base i s = .ok v' ∧
      (resolve base.abs i < 0 → v' = v) ∧
      (¬ resolve base.abs i < 0 → v'.WF ∧ v'.kind = .indexed ∧
        v'.arr.abs = base.abs.insert (resolve base.abs i)
          (optStr (base.abs.lookup (resolve base.abs i)) ++ s)) := by
  simp only [appendWithIndex, resolve_model hb]
  by_cases hj : resolve base.abs i < 0
  · rw [if_pos hj]; exact ⟨v, rfl, fun _ => rfl, fun c => absurd hj c⟩
  · rw [if_neg hj, indexedVal_spec hb _ (by omega)]
    simp only
    obtain ⟨a1, e1, w1, ab1⟩ := setElem_spec hb (resolve base.abs i)
      (optStr (base.abs.lookup (resolve base.abs i)) ++ s) (by omega)
    rw [e1]
    exact ⟨_, rfl, fun c => absurd c hj, fun _ => ⟨wf_indexed w1 _ _ _, rfl, ab1⟩⟩

theorem abs_of_indexed {v : Var} (hk : v.kind = .indexed) : v.abs = ⟨.indexed, v.arr.abs⟩ := by
  simp [Var.abs, Var.absMap, hk]

/-- Every operation preserves the invariant and never panics; under `opOK`
    (`unset a` meets a variable that `IsSet()`, which `runOK_always` shows is always the case) it is the bash operation on the
    abstract variable. -/
theorem applyOp_spec (v : Var) (op : Op) (h : v.WF) :
    ∃ v', applyOp v op = .ok v' ∧ v'.WF ∧ (opOK v op = true → v'.abs = specOp v.abs op) := by
  obtain ⟨bw, bab⟩ := baseArr_spec h
  cases op with
  | assign es =>
    obtain ⟨a', e, w, ab⟩ := litLoop_spec es ⟨[], none⟩ 0 (Arr.WF.dense _) (Int.le_refl _)
    refine ⟨⟨.indexed, true, v.str, a', false⟩, by simp only [applyOp, e, liftArr], wf_indexed w _ _ _, fun _ => ?_⟩
    rw [abs_of_indexed rfl]
    simp only [specOp, ab]
    rfl
  | append es =>
    obtain ⟨a', e, w, ab⟩ := litLoop_spec es (baseArr v) (indexedMax (baseArr v) + 1) bw
      (by have := indexedMax_ge bw; omega)
    refine ⟨⟨.indexed, true, v.str, a', false⟩, by simp only [applyOp, e, liftArr], wf_indexed w _ _ _, fun _ => ?_⟩
    rw [indexedMax_spec bw, bab] at ab
    rw [abs_of_indexed rfl]
    simp only [specOp, ab]
    rfl
  | setElem i s =>
    obtain ⟨v', e, hneg, hpos⟩ := setWithIndex_spec v bw i s
    rw [bab] at hneg hpos
    refine ⟨v', e, ?_, fun _ => ?_⟩
    · by_cases hj : resolve v.absMap i < 0
      · rw [hneg hj]; exact h
      · exact (hpos hj).1
    · by_cases hj : resolve v.absMap i < 0
      · rw [hneg hj]
        simp [specOp, Var.abs, hj]
      · obtain ⟨_, k, ab⟩ := hpos hj
        rw [abs_of_indexed k, ab]
        simp [specOp, Var.abs, hj]
  | appElem i s =>
    obtain ⟨v', e, hneg, hpos⟩ := appendWithIndex_spec v bw i s
    rw [bab] at hneg hpos
    refine ⟨v', e, ?_, fun _ => ?_⟩
    · by_cases hj : resolve v.absMap i < 0
      · rw [hneg hj]; exact h
      · exact (hpos hj).1
    · by_cases hj : resolve v.absMap i < 0
      · rw [hneg hj]
        simp [specOp, Var.abs, hj]
      · obtain ⟨_, k, ab⟩ := hpos hj
        rw [abs_of_indexed k, ab]
        simp [specOp, Var.abs, hj]
  | setStr s =>
    simp only [applyOp]
    cases hk : v.kind with
    | indexed =>
      obtain ⟨v', e, _, hpos⟩ := setWithIndex_spec v h.arr 0 s
      have hj : ¬ resolve v.arr.abs 0 < 0 := by simp [resolve]
      obtain ⟨w, k, ab⟩ := hpos hj
      refine ⟨v', e, w, fun _ => ?_⟩
      rw [abs_of_indexed k, ab, abs_of_indexed hk]
      simp [specOp, resolve]
    | unknown =>
      refine ⟨_, rfl, ⟨h.arr, (fun c => by cases c)⟩, fun _ => ?_⟩
      simp [Var.abs, Var.absMap, hk, specOp]
    | str =>
      refine ⟨_, rfl, ⟨h.arr, (fun c => by cases c)⟩, fun _ => ?_⟩
      simp [Var.abs, Var.absMap, hk, specOp]
  | appStr s =>
    simp only [applyOp]
    cases hk : v.kind with
    | indexed =>
      obtain ⟨a', e, w, ab⟩ := appendZero_spec h.arr s
      refine ⟨⟨.indexed, true, v.str, a', false⟩, by simp only [e, liftArr], wf_indexed w _ _ _, fun _ => ?_⟩
      rw [abs_of_indexed rfl, abs_of_indexed hk]
      simp only [specOp, ab]
    | unknown =>
      refine ⟨_, rfl, ⟨h.arr, (fun c => by cases c)⟩, fun _ => ?_⟩
      simp [Var.abs, Var.absMap, hk, specOp, SMap.lookup, optStr, h.zero hk]
    | str =>
      refine ⟨_, rfl, ⟨h.arr, (fun c => by cases c)⟩, fun _ => ?_⟩
      simp [Var.abs, Var.absMap, hk, specOp, SMap.lookup, optStr]
  | unsetElem i =>
    simp only [applyOp]
    cases hk : v.kind with
    | indexed =>
      simp only [resolve_model h.arr]
      by_cases hj : resolve v.arr.abs i < 0
      · rw [if_pos hj]
        refine ⟨v, rfl, h, fun _ => ?_⟩
        rw [abs_of_indexed hk]
        simp [specOp, hj]
      · rw [if_neg hj]
        obtain ⟨a', e, w, ab⟩ := deleteElem_spec h.arr (resolve v.arr.abs i)
        rw [e]
        refine ⟨_, rfl, wf_indexed w _ _ _, fun _ => ?_⟩
        rw [abs_of_indexed rfl, abs_of_indexed hk]
        simp [specOp, hj, ab]
    | unknown =>
      refine ⟨v, rfl, h, fun _ => ?_⟩
      simp [specOp, Var.abs, hk]
    | str =>
      simp only
      split
      · next h0 =>
        subst h0
        refine ⟨_, rfl, Var.WF.zero_var, fun _ => ?_⟩
        simp [specOp, Var.abs, Var.absMap, hk, Var.zero, SVar.unset]
      · next h0 =>
        refine ⟨v, rfl, h, fun _ => ?_⟩
        simp [specOp, Var.abs, hk, h0]
  | unsetAll =>
    simp only [applyOp]
    split
    · exact ⟨_, rfl, Var.WF.zero_var, fun _ => by simp [specOp, Var.abs, Var.absMap, Var.zero, SVar.unset]⟩
    · next hs =>
      refine ⟨v, rfl, h, fun ok => ?_⟩
      simp only [opOK, Bool.or_eq_true, beq_iff_eq] at ok
      rcases ok with ok | hk
      · exact absurd ok hs
      · simp [specOp, Var.abs, Var.absMap, hk, SVar.unset]
  | readArr vs =>
    refine ⟨_, rfl, wf_indexed (Arr.WF.dense _) _ _ _, fun _ => ?_⟩
    rw [abs_of_indexed rfl]
    rfl
  | mapfile vs =>
    refine ⟨_, rfl, wf_indexed (Arr.WF.dense _) _ _ _, fun _ => ?_⟩
    rw [abs_of_indexed rfl]
    rfl

theorem runOps_spec (ops : List Op) : ∀ (v : Var), v.WF →
    ∃ v', runOps v ops = .ok v' ∧ v'.WF ∧ (runOK v ops = true → v'.abs = specRun v.abs ops) := by
  induction ops with
  | nil => intro v h; exact ⟨v, rfl, h, fun _ => rfl⟩
  | cons op ops ih =>
    intro v h
    obtain ⟨v1, e1, w1, ab1⟩ := applyOp_spec v op h
    obtain ⟨v2, e2, w2, ab2⟩ := ih v1 w1
    refine ⟨v2, by simp only [runOps, e1, e2], w2, ?_⟩
    intro ok
    simp only [runOK, e1, Bool.and_eq_true] at ok
    simp only [specRun, List.foldl_cons]
    rw [← ab1 ok.1]
    exact ab2 ok.2

/-- Every operation leaves a scalar or array `IsSet()`. -/
theorem applyOp_setOK {v v' : Var} {op : Op} (hs : v.SetOK)
    (e : applyOp v op = .ok v') : v'.SetOK := by
  have keep : ∀ {base : Arr} {i : Int} {s : Str} {w : Var},
      setWithIndex v base i s = .ok w → w.SetOK := by
    intro base i s w e
    simp only [setWithIndex] at e
    generalize (if i < 0 then i + (indexedMax base + 1) else i) = k at e
    by_cases hk : k < 0
    · rw [if_pos hk] at e; cases e; exact hs
    · rw [if_neg hk] at e
      cases hse : setElem base k s with
      | ok a' => rw [hse] at e; cases e; intro _; rfl
      | panic => rw [hse] at e; cases e
  have keepA : ∀ {base : Arr} {i : Int} {s : Str} {w : Var},
      appendWithIndex v base i s = .ok w → w.SetOK := by
    intro base i s w e
    simp only [appendWithIndex] at e
    generalize (if i < 0 then i + (indexedMax base + 1) else i) = k at e
    by_cases hk : k < 0
    · rw [if_pos hk] at e; cases e; exact hs
    · rw [if_neg hk] at e
      cases hv : indexedVal base k with
      | panic => rw [hv] at e; cases e
      | ok cur =>
        rw [hv] at e
        simp only at e
        cases hse : setElem base k (optStr cur ++ s) with
        | ok a' => rw [hse] at e; cases e; intro _; rfl
        | panic => rw [hse] at e; cases e
  have lift : ∀ {r : Res Arr} {w : Var}, liftArr v r = .ok w → w.SetOK := by
    intro r w e
    cases r with
    | ok a => simp only [liftArr] at e; cases e; intro _; rfl
    | panic => simp only [liftArr] at e; cases e
  cases op with
  | assign es => exact lift e
  | append es => exact lift e
  | setElem i s => exact keep e
  | appElem i s => exact keepA e
  | setStr s =>
    simp only [applyOp] at e
    split at e
    · exact keep e
    · cases e; intro _; rfl
  | appStr s =>
    simp only [applyOp] at e
    split at e
    · exact lift e
    · cases e; intro _; rfl
  | unsetElem i =>
    simp only [applyOp] at e
    split at e
    · next hk =>
      generalize (if i < 0 then i + (indexedMax v.arr + 1) else i) = k at e
      by_cases hk0 : k < 0
      · rw [if_pos hk0] at e; cases e; exact hs
      · rw [if_neg hk0] at e
        cases hd : deleteElem v.arr k with
        | ok a' =>
          rw [hd] at e; cases e
          intro _; exact hs (by rw [hk]; intro c; cases c)
        | panic => rw [hd] at e; cases e
    · split at e
      · cases e; intro c; exact (c rfl).elim
      · cases e; exact hs
    · cases e; exact hs
  | unsetAll =>
    simp only [applyOp] at e
    split at e
    · cases e; intro c; exact (c rfl).elim
    · cases e; exact hs
  | readArr vs => simp only [applyOp] at e; cases e; intro _; rfl
  | mapfile vs => simp only [applyOp] at e; cases e; intro _; rfl

theorem opOK_of_setOK {v : Var} (hs : v.SetOK) (op : Op) : opOK v op = true := by
  cases op <;> simp only [opOK]
  cases hk : v.kind with
  | unknown => simp
  | str => simp [hs (by rw [hk]; intro c; cases c)]
  | indexed => simp [hs (by rw [hk]; intro c; cases c)]

theorem runOK_always (ops : List Op) : ∀ v, v.WF → v.SetOK → runOK v ops = true := by
  induction ops with
  | nil => intro v _ _; rfl
  | cons op ops ih =>
    intro v h hs
    obtain ⟨v', e, w, _⟩ := applyOp_spec v op h
    simp only [runOK, e, Bool.and_eq_true]
    exact ⟨opOK_of_setOK hs op, ih v' w (applyOp_setOK hs e)⟩

end ShVerif.C33
