import ShVerif.Model.C33
/-
  C33 — helper lemmas.  Core Lean only.
  A. sorted association lists (the map specification)      B. abstraction of dense / sparse lists
  C. Go's binary search = first position with an element ≥ k on increasing lists
  D. SetIndexedElem / DeleteIndexedElem refine insert / erase  E. reads  F. operations
-/
namespace ShVerif.C33

/-! ## A. sorted association lists -/
namespace SMap

theorem lookup_insert (m : SMap) (k : Int) (v : Str) (j : Int) :
    lookup (insert m k v) j = if j = k then some v else lookup m j := by
  induction m with
  | nil => simp [insert, lookup]
  | cons p m ih =>
    obtain ⟨k', v'⟩ := p
    simp only [insert]
    split
    · simp only [lookup]
    · split
      · next h => subst h; by_cases e : j = k <;> simp [lookup, e]
      · next h1 h2 =>
        simp only [lookup, ih]
        by_cases e : j = k'
        · subst e
          have : ¬ j = k := by omega
          simp [this]
        · simp [e]

theorem mem_insert {m : SMap} {k : Int} {v : Str} {p : Int × Str} (h : p ∈ insert m k v) :
    p = (k, v) ∨ p ∈ m := by
  induction m with
  | nil => simp [insert] at h; exact Or.inl h
  | cons q m ih =>
    obtain ⟨k', v'⟩ := q
    simp only [insert] at h
    split at h
    · simp only [List.mem_cons] at h ⊢; exact h
    · split at h
      · simp only [List.mem_cons] at h ⊢
        rcases h with h | h
        · exact Or.inl h
        · exact Or.inr (Or.inr h)
      · simp only [List.mem_cons] at h ⊢
        rcases h with h | h
        · exact Or.inr (Or.inl h)
        · rcases ih h with h | h
          · exact Or.inl h
          · exact Or.inr (Or.inr h)

theorem insert_sorted {m : SMap} (hs : m.Sorted) (k : Int) (v : Str) : (insert m k v).Sorted := by
  induction m with
  | nil => simp [insert, Sorted]
  | cons q m ih =>
    obtain ⟨k', v'⟩ := q
    unfold Sorted at hs ih ⊢
    rw [List.pairwise_cons] at hs
    simp only [insert]
    split
    · next h =>
      rw [List.pairwise_cons]
      refine ⟨?_, List.pairwise_cons.mpr hs⟩
      intro p hp
      simp only [List.mem_cons] at hp
      rcases hp with hp | hp
      · subst hp; exact h
      · have := hs.1 p hp; simp only at this ⊢; omega
    · split
      · next h1 h2 =>
        subst h2
        rw [List.pairwise_cons]
        exact hs
      · next h1 h2 =>
        rw [List.pairwise_cons]
        refine ⟨?_, ih hs.2⟩
        intro p hp
        rcases mem_insert hp with hp | hp
        · subst hp; simp only; omega
        · exact hs.1 p hp

theorem lookup_none_of_lt {m : SMap} {j : Int} (h : ∀ p ∈ m, j < p.1) : lookup m j = none := by
  induction m with
  | nil => rfl
  | cons q m ih =>
    obtain ⟨k', v'⟩ := q
    have h1 := h (k', v') (List.mem_cons_self ..)
    simp only at h1
    simp only [lookup]
    rw [if_neg (by omega)]
    exact ih fun p hp => h p (List.mem_cons_of_mem _ hp)

theorem erase_sublist (m : SMap) (k : Int) : (erase m k).Sublist m := by
  induction m with
  | nil => exact List.Sublist.refl _
  | cons q m ih =>
    obtain ⟨k', v'⟩ := q
    simp only [erase]
    split
    · exact List.sublist_cons_self ..
    · exact List.Sublist.cons_cons _ ih

theorem erase_sorted {m : SMap} (hs : m.Sorted) (k : Int) : (erase m k).Sorted :=
  List.Pairwise.sublist (erase_sublist m k) hs

theorem lookup_erase {m : SMap} (hs : m.Sorted) (k j : Int) :
    lookup (erase m k) j = if j = k then none else lookup m j := by
  induction m with
  | nil => simp [erase, lookup]
  | cons q m ih =>
    obtain ⟨k', v'⟩ := q
    unfold Sorted at hs ih
    rw [List.pairwise_cons] at hs
    simp only [erase]
    split
    · next h =>
      subst h
      simp only [lookup]
      by_cases e : j = k
      · subst e
        simp only [if_true]
        exact lookup_none_of_lt fun p hp => hs.1 p hp
      · simp [e]
    · next h =>
      simp only [lookup, ih hs.2]
      by_cases e : j = k'
      · subst e
        have : ¬ j = k := by omega
        simp [this]
      · simp [e]

theorem erase_of_not_mem {m : SMap} {k : Int} (h : ∀ p ∈ m, p.1 ≠ k) : erase m k = m := by
  induction m with
  | nil => rfl
  | cons q m ih =>
    obtain ⟨k', v'⟩ := q
    have h1 := h (k', v') (List.mem_cons_self ..)
    simp only [ne_eq] at h1
    simp only [erase]
    rw [if_neg (fun e => h1 e.symm)]
    rw [ih fun p hp => h p (List.mem_cons_of_mem _ hp)]

theorem lookup_isSome_iff_mem_keys (m : SMap) (k : Int) : lookup m k ≠ none ↔ k ∈ m.keys := by
  induction m with
  | nil => simp [lookup, keys]
  | cons q m ih =>
    obtain ⟨k', v'⟩ := q
    simp only [lookup, keys, List.map_cons, List.mem_cons]
    by_cases e : k = k'
    · simp [e]
    · simp only [e, if_false, false_or]
      exact ih

/-- Sorted association lists are canonical: equal lookups, equal lists. -/
theorem ext {m₁ m₂ : SMap} (h₁ : m₁.Sorted) (h₂ : m₂.Sorted)
    (h : ∀ k, lookup m₁ k = lookup m₂ k) : m₁ = m₂ := by
  induction m₁ generalizing m₂ with
  | nil =>
    cases m₂ with
    | nil => rfl
    | cons q m₂ =>
      have := h q.1
      simp [lookup] at this
  | cons p m₁ ih =>
    obtain ⟨k₁, v₁⟩ := p
    cases m₂ with
    | nil =>
      have := h k₁
      simp [lookup] at this
    | cons q m₂ =>
      obtain ⟨k₂, v₂⟩ := q
      unfold Sorted at h₁ h₂ ih
      rw [List.pairwise_cons] at h₁ h₂
      have hk : k₁ = k₂ := by
        have a := h k₁
        have b := h k₂
        simp only [lookup, if_true] at a b
        by_cases e : k₁ = k₂
        · exact e
        · exfalso
          rw [if_neg e] at a
          rw [if_neg (fun x => e x.symm)] at b
          by_cases lt : k₁ < k₂
          · rw [lookup_none_of_lt (fun p hp => by have := h₂.1 p hp; simp only at this; omega)] at a
            cases a
          · rw [lookup_none_of_lt (fun p hp => by have := h₁.1 p hp; simp only at this; omega)] at b
            cases b
      subst hk
      have hv : v₁ = v₂ := by
        have a := h k₁
        simp only [lookup, if_true] at a
        exact Option.some.inj a
      subst hv
      congr 1
      apply ih h₁.2 h₂.2
      intro k
      by_cases e : k = k₁
      · subst e
        rw [lookup_none_of_lt (fun p hp => h₁.1 p hp), lookup_none_of_lt (fun p hp => h₂.1 p hp)]
      · have a := h k
        simp only [lookup, if_neg e] at a
        exact a

theorem maxKey_cons_cons (p q : Int × Str) (m : SMap) : maxKey (p :: q :: m) = maxKey (q :: m) := by
  obtain ⟨k, v⟩ := p
  rfl

theorem maxKey_eq_getLastD (m : SMap) : maxKey m = m.keys.getLastD (-1) := by
  induction m with
  | nil => rfl
  | cons p m ih =>
    cases m with
    | nil => obtain ⟨k, v⟩ := p; rfl
    | cons q m =>
      rw [maxKey_cons_cons, ih]
      simp [keys, List.getLastD]

theorem maxKey_mem {m : SMap} (h : m ≠ []) : maxKey m ∈ m.keys := by
  induction m with
  | nil => exact absurd rfl h
  | cons p m ih =>
    cases m with
    | nil => obtain ⟨k, v⟩ := p; simp [maxKey, keys]
    | cons q m =>
      rw [maxKey_cons_cons]
      have := ih (by simp)
      simp only [keys, List.map_cons, List.mem_cons] at this ⊢
      exact Or.inr this

theorem le_maxKey {m : SMap} (hs : m.Sorted) {k : Int} (hk : k ∈ m.keys) : k ≤ maxKey m := by
  induction m with
  | nil => simp [keys] at hk
  | cons p m ih =>
    unfold Sorted at hs ih
    rw [List.pairwise_cons] at hs
    cases m with
    | nil =>
      obtain ⟨k', v⟩ := p
      simp [keys] at hk
      simp [maxKey, hk]
    | cons q m =>
      rw [maxKey_cons_cons]
      simp only [keys, List.map_cons, List.mem_cons] at hk
      rcases hk with hk | hk
      · have h1 : p.1 < (maxKey (q :: m)) := by
          have hm : maxKey (q :: m) ∈ keys (q :: m) := maxKey_mem (by simp)
          simp only [keys, List.mem_map] at hm
          obtain ⟨r, hr, e⟩ := hm
          have := hs.1 r hr
          omega
        omega
      · exact ih hs.2 (by simpa [keys] using hk)

theorem maxKey_ge_neg_one {m : SMap} (h : ∀ p ∈ m, 0 ≤ p.1) : -1 ≤ maxKey m := by
  by_cases e : m = []
  · subst e; simp [maxKey]
  · have := maxKey_mem e
    simp only [keys, List.mem_map] at this
    obtain ⟨r, hr, er⟩ := this
    have := h r hr
    omega

end SMap

/-! ## B. abstraction of dense and sparse representations -/

theorem length_iotaFrom (s : Int) (n : Nat) : (iotaFrom s n).length = n := by
  induction n generalizing s with
  | zero => rfl
  | succ n ih => simp [iotaFrom, ih]

theorem zip_iotaFrom (s : Int) (l : List Str) : (iotaFrom s l.length).zip l = enumFrom s l := by
  induction l generalizing s with
  | nil => rfl
  | cons x xs ih => simp [iotaFrom, enumFrom, ih]

theorem isIotaFrom_iotaFrom (s : Int) (n : Nat) : isIotaFrom s (iotaFrom s n) = true := by
  induction n generalizing s with
  | zero => rfl
  | succ n ih => simp [iotaFrom, isIotaFrom, ih]

theorem eq_iotaFrom_of_isIotaFrom {s : Int} {ix : List Int} (h : isIotaFrom s ix = true) :
    ix = iotaFrom s ix.length := by
  induction ix generalizing s with
  | nil => rfl
  | cons k ks ih =>
    simp only [isIotaFrom, Bool.and_eq_true, beq_iff_eq] at h
    simp only [List.length_cons, iotaFrom]
    rw [← ih h.2, h.1]

theorem keys_zip {ix : List Int} {list : List Str} (h : ix.length = list.length) :
    SMap.keys (ix.zip list) = ix := by
  induction ix generalizing list with
  | nil => rfl
  | cons k ks ih =>
    cases list with
    | nil => simp at h
    | cons x xs =>
      simp only [List.length_cons, Nat.add_right_cancel_iff] at h
      have := ih h
      simp only [SMap.keys] at this ⊢
      simp [this]

theorem vals_zip {ix : List Int} {list : List Str} (h : ix.length = list.length) :
    SMap.vals (ix.zip list) = list := by
  induction ix generalizing list with
  | nil => cases list with
    | nil => rfl
    | cons x xs => simp at h
  | cons k ks ih =>
    cases list with
    | nil => simp at h
    | cons x xs =>
      simp only [List.length_cons, Nat.add_right_cancel_iff] at h
      have := ih h
      simp only [SMap.vals] at this ⊢
      simp [this]

theorem length_enumFrom (s : Int) (l : List Str) : (enumFrom s l).length = l.length := by
  induction l generalizing s with
  | nil => rfl
  | cons x xs ih => simp [enumFrom, ih]

theorem keys_enumFrom (s : Int) (l : List Str) : SMap.keys (enumFrom s l) = iotaFrom s l.length := by
  rw [← zip_iotaFrom, keys_zip (length_iotaFrom ..)]

theorem vals_enumFrom (s : Int) (l : List Str) : SMap.vals (enumFrom s l) = l := by
  rw [← zip_iotaFrom, vals_zip (length_iotaFrom ..)]

theorem mem_iotaFrom {s : Int} {n : Nat} {k : Int} : k ∈ iotaFrom s n ↔ s ≤ k ∧ k < s + n := by
  induction n generalizing s with
  | zero => simp [iotaFrom]
  | succ n ih =>
    simp only [iotaFrom, List.mem_cons, ih]
    omega

theorem increasing_iotaFrom (s : Int) (n : Nat) : Increasing (iotaFrom s n) := by
  unfold Increasing
  induction n generalizing s with
  | zero => exact List.Pairwise.nil
  | succ n ih =>
    simp only [iotaFrom]
    rw [List.pairwise_cons]
    refine ⟨?_, ih _⟩
    intro k hk
    have := mem_iotaFrom.mp hk
    omega

theorem sorted_iff_keys (m : SMap) : m.Sorted ↔ Increasing m.keys := by
  unfold SMap.Sorted Increasing SMap.keys
  rw [List.pairwise_map]

/-- The invariant of `Variable.Indexes` before canonicalisation. -/
structure PreWF (list : List Str) (ix : List Int) : Prop where
  len : ix.length = list.length
  inc : Increasing ix
  nonneg : ∀ k ∈ ix, 0 ≤ k

theorem PreWF.iota (list : List Str) : PreWF list (iotaFrom 0 list.length) :=
  ⟨length_iotaFrom .., increasing_iotaFrom .., fun _ hk => (mem_iotaFrom.mp hk).1⟩

theorem Arr.WF.dense (list : List Str) : (Arr.mk list none).WF :=
  ⟨fun ix h => by cases h⟩

theorem Arr.WF.pre {a : Arr} (h : a.WF) {ix : List Int} (e : a.idx = some ix) : PreWF a.list ix :=
  let ⟨h1, h2, h3, _⟩ := h.shape ix e
  ⟨h1, h2, h3⟩

theorem canonical_spec {list : List Str} {ix : List Int} (h : PreWF list ix) :
    (Arr.mk list (canonical (some ix))).WF ∧ (Arr.mk list (canonical (some ix))).abs = ix.zip list := by
  simp only [canonical]
  split
  · next hi =>
    refine ⟨Arr.WF.dense _, ?_⟩
    simp only [Arr.abs]
    rw [eq_iotaFrom_of_isIotaFrom hi, h.len, zip_iotaFrom]
  · next hi =>
    refine ⟨⟨?_⟩, rfl⟩
    intro ix' e
    cases e
    exact ⟨h.len, h.inc, h.nonneg, by simpa using hi⟩

theorem abs_sorted {a : Arr} (h : a.WF) : a.abs.Sorted := by
  rw [sorted_iff_keys]
  unfold Arr.abs
  split
  · rw [keys_enumFrom]; exact increasing_iotaFrom ..
  · next ix e =>
    have p := h.pre e
    rw [keys_zip p.len]; exact p.inc

theorem abs_keys_nonneg {a : Arr} (h : a.WF) : ∀ k ∈ a.abs.keys, 0 ≤ k := by
  unfold Arr.abs
  split
  · rw [keys_enumFrom]; intro k hk; exact (mem_iotaFrom.mp hk).1
  · next ix e =>
    have p := h.pre e
    rw [keys_zip p.len]; exact p.nonneg

/-! ## C. binary search -/

/-- First position holding an element that is not `< k` (a linear scan). -/
def lb : List Int → Int → Nat
  | [], _ => 0
  | x :: xs, k => if x < k then lb xs k + 1 else 0

theorem lb_le_length (xs : List Int) (k : Int) : lb xs k ≤ xs.length := by
  induction xs with
  | nil => simp [lb]
  | cons x xs ih => simp only [lb]; split <;> simp <;> omega

theorem increasing_getD {xs : List Int} (h : Increasing xs) {a b : Nat} (hab : a < b)
    (hb : b < xs.length) : xs.getD a 0 < xs.getD b 0 := by
  unfold Increasing at h
  rw [List.pairwise_iff_getElem] at h
  have := h a b (by omega) hb hab
  simpa [List.getD, List.getElem?_eq_getElem, hb, (show a < xs.length by omega)] using this

theorem bsearch_spec (xs : List Int) (k : Int) (inc : Increasing xs) :
    ∀ fuel i j, j - i < fuel → i ≤ j → j ≤ xs.length →
      (∀ p, p < i → xs.getD p 0 < k) →
      (∀ p, j ≤ p → p < xs.length → ¬ xs.getD p 0 < k) →
      (∀ p, p < bsearch xs k fuel i j → xs.getD p 0 < k) ∧
      (∀ p, bsearch xs k fuel i j ≤ p → p < xs.length → ¬ xs.getD p 0 < k) ∧
      bsearch xs k fuel i j ≤ xs.length := by
  intro fuel
  induction fuel with
  | zero => intro i j h; omega
  | succ fuel ih =>
    intro i j hf hle hj hlo hhi
    simp only [bsearch]
    split
    · next hij =>
      have h1 : i ≤ (i + j) / 2 := by omega
      have h2 : (i + j) / 2 < j := by omega
      split
      · next hneg =>
        apply ih _ _ (by omega) (by omega) hj
        · intro p hp
          by_cases e : p = (i + j) / 2
          · subst e; exact hneg
          · have := increasing_getD inc (show p < (i + j) / 2 by omega) (by omega)
            omega
        · exact hhi
      · next hneg =>
        apply ih _ _ (by omega) (by omega) (by omega) hlo
        intro p hp hpn
        by_cases e : p = (i + j) / 2
        · subst e; exact hneg
        · have := increasing_getD inc (show (i + j) / 2 < p by omega) hpn
          omega
    · next hij =>
      exact ⟨hlo, fun p hp hpn => hhi p (by omega) hpn, by omega⟩

theorem lb_spec (xs : List Int) (k : Int) (inc : Increasing xs) :
    (∀ p, p < lb xs k → xs.getD p 0 < k) ∧
    (∀ p, lb xs k ≤ p → p < xs.length → ¬ xs.getD p 0 < k) := by
  induction xs with
  | nil => simp [lb]
  | cons x xs ih =>
    unfold Increasing at inc ih
    rw [List.pairwise_cons] at inc
    obtain ⟨ih1, ih2⟩ := ih inc.2
    simp only [lb]
    split
    · next hx =>
      refine ⟨?_, ?_⟩
      · intro p hp
        cases p with
        | zero => simpa using hx
        | succ p => simpa using ih1 p (by omega)
      · intro p hp hpn
        cases p with
        | zero => omega
        | succ p => simpa using ih2 p (by omega) (by simpa using hpn)
    · next hx =>
      refine ⟨fun p hp => by omega, ?_⟩
      intro p _ hpn
      cases p with
      | zero => simpa using hx
      | succ p =>
        have hm : xs.getD p 0 ∈ xs := by
          have : p < xs.length := by simpa using hpn
          simp [List.getD, this]
        have := inc.1 _ hm
        simp only [List.getD_cons_succ]
        omega

theorem bsearch_eq_lb (xs : List Int) (k : Int) (inc : Increasing xs) :
    bsearch xs k (xs.length + 1) 0 xs.length = lb xs k := by
  obtain ⟨b1, b2, b3⟩ := bsearch_spec xs k inc (xs.length + 1) 0 xs.length (by omega) (by omega) (Nat.le_refl _)
    (fun p hp => by omega) (fun p hp hpn => by omega)
  obtain ⟨l1, l2⟩ := lb_spec xs k inc
  have l3 := lb_le_length xs k
  generalize bsearch xs k (xs.length + 1) 0 xs.length = r at b1 b2 b3
  by_cases h : r < lb xs k
  · exact absurd (l1 r h) (b2 r (Nat.le_refl _) (by omega))
  · by_cases h' : lb xs k < r
    · exact absurd (b1 _ h') (l2 _ (Nat.le_refl _) (by omega))
    · omega

/-- Whether the scan stops at an element equal to `k`. -/
def foundAt : List Int → Int → Bool
  | [], _ => false
  | x :: xs, k => if x < k then foundAt xs k else x == k

theorem foundAt_eq (xs : List Int) (k : Int) :
    foundAt xs k = (decide (lb xs k < xs.length) && xs.getD (lb xs k) 0 == k) := by
  induction xs with
  | nil => simp [foundAt, lb]
  | cons x xs ih =>
    simp only [foundAt, lb]
    split
    · simp [ih]
    · simp

theorem search_eq (xs : List Int) (k : Int) (inc : Increasing xs) :
    search xs k = (lb xs k, foundAt xs k) := by
  simp only [search, bsearch_eq_lb xs k inc, foundAt_eq]

end ShVerif.C33
