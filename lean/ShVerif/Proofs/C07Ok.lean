/-
  C07 — what the protocol flag `ok` really excludes: exact formulas per primitive.
  `rune`, `peek`, `peekTwo` and the stop-word test leave the protocol only when the stop word has
  fired before (`halted`); `newLit` never does.
-/
import ShVerif.Proofs.C07Pos
namespace ShVerif.C07
open ShVerif ShVerif.L2
set_option linter.unusedSimpArgs false

/-- normal form of the two ghosts: once the stop word has fired and a reading primitive was
    called, `ok` is gone -/
def Norm (a : LSt) : Prop := a.halted = true → a.ok = false

/-- "`f` leaves `ok` and `halted` alone and keeps the normal form" -/
def Keeps (a b : LSt) : Prop := b.ok = a.ok ∧ b.halted = a.halted

theorem Keeps.refl (a : LSt) : Keeps a a := ⟨rfl, rfl⟩
theorem Keeps.trans {a b c : LSt} (h1 : Keeps a b) (h2 : Keeps b c) : Keeps a c :=
  ⟨h2.1.trans h1.1, h2.2.trans h1.2⟩
theorem Keeps.norm {a b : LSt} (h : Keeps a b) (hn : Norm a) : Norm b := by
  intro hb; rw [h.1]; exact hn (by rw [← h.2]; exact hb)

theorem keeps_forget {a : LSt} (hn : Norm a) : Keeps a a.forget := by
  refine ⟨?_, rfl⟩
  simp only [forget_ok]
  cases hh : a.halted with
  | false => simp
  | true => simp [hn hh]

theorem keeps_consume (a : LSt) : Keeps a a.consume := by
  unfold LSt.consume; split <;> exact ⟨rfl, rfl⟩

theorem keeps_consumeN (n : Nat) : ∀ (a : LSt), Keeps a (LSt.consumeN n a) := by
  induction n with
  | zero => intro a; exact Keeps.refl a
  | succ n ih => intro a; exact (keeps_consume a).trans (ih _)

theorem keeps_litPush (a : LSt) (bs : List Byte) : Keeps a (a.litPush bs) := by
  unfold LSt.litPush; split <;> exact ⟨rfl, rfl⟩

theorem keeps_peek {a : LSt} (hn : Norm a) : Keeps a a.peek.2 := by
  rw [peek_eq]; exact keeps_forget hn
theorem keeps_peekTwo {a : LSt} (hn : Norm a) : Keeps a a.peekTwo.2.2 := by
  rw [peekTwo_eq]; exact keeps_forget hn

theorem keeps_tail (b : Byte) (bq : Nat) (a : LSt) : Keeps a (LSt.runeTail b bq a) := by
  unfold LSt.runeTail LSt.litPush
  by_cases h96 : b = 96 <;> cases hl : a.lit <;> simp [Keeps, h96, hl]

theorem keeps_afterEsc (b : Byte) (bq : Nat) (a : LSt) : Keeps a (LSt.runeAfterEsc b bq a).st := by
  unfold LSt.runeAfterEsc
  cases hr : a.rest with
  | nil => simpa [LSt.Step.st] using keeps_tail b bq a
  | cons c t =>
    simp only
    split
    · exact ⟨rfl, rfl⟩
    · simpa [LSt.Step.st] using keeps_tail b bq a

theorem keeps_backslash (b : Byte) (bq : Nat) {a : LSt} (hn : Norm a) :
    Keeps a (LSt.runeBackslash b bq a).st := by
  unfold LSt.runeBackslash
  have h1 := keeps_peek hn
  rcases hpk : a.peek with ⟨pk, a1⟩
  rw [hpk] at h1
  simp only at h1 ⊢
  split
  · exact h1.trans (keeps_afterEsc b bq a1)
  · split
    · exact h1.trans (keeps_consume a1)
    · have h2 := keeps_peekTwo (h1.norm hn)
      rcases hpk2 : a1.peekTwo with ⟨p1, p2, a2⟩
      rw [hpk2] at h2
      simp only at h2 ⊢
      split
      · exact h1.trans (h2.trans (keeps_consumeN 2 a2))
      · exact h1.trans (h2.trans (keeps_afterEsc b bq a2))

theorem keeps_ascii (b : Byte) (bq : Nat) {a : LSt} (hn : Norm a) : Keeps a (LSt.runeAscii b bq a).st := by
  unfold LSt.runeAscii
  have hc := keeps_consume a
  have hnc := hc.norm hn
  simp only
  generalize a.consume = a' at hc hnc ⊢
  split
  · exact hc
  · split
    · have h1 := keeps_peek hnc
      rcases hpk : a'.peek with ⟨pk, a1⟩
      rw [hpk] at h1
      simp only at h1 ⊢
      split
      · exact hc.trans h1
      · exact hc.trans (h1.trans (keeps_tail b bq a1))
    · split
      · exact hc.trans (keeps_backslash b bq hnc)
      · exact hc.trans (keeps_tail b bq a')

theorem keeps_errPass (a : LSt) (e : Err) : Keeps a (a.errPass e) := by
  unfold LSt.errPass; split <;> exact ⟨rfl, rfl⟩

theorem keeps_decode (a : LSt) : Keeps a (LSt.runeDecode a) := by
  unfold LSt.runeDecode
  rcases hd : decodeRune a.rest with ⟨r, w⟩
  simp only
  have h1 : Keeps a (LSt.consumeN w (({ a with r := r } : LSt).litPush (a.rest.take w))) :=
    (show Keeps a ({ a with r := r } : LSt) from ⟨rfl, rfl⟩).trans
      ((keeps_litPush _ _).trans (keeps_consumeN w _))
  split
  · exact h1.trans (keeps_errPass _ _)
  · exact h1

theorem keeps_atEOF (a : LSt) : Keeps a (LSt.runeAtEOF a) := by
  unfold LSt.runeAtEOF; split <;> exact ⟨rfl, rfl⟩

theorem keeps_step (bq : Nat) {a : LSt} (hn : Norm a) : Keeps a (LSt.runeStep bq a).st := by
  unfold LSt.runeStep
  simp only
  have h0 := keeps_forget hn
  have hn0 := h0.norm hn
  generalize a.forget = a0 at h0 hn0 ⊢
  cases hr : a0.rest with
  | nil => exact h0.trans (keeps_atEOF a0)
  | cons b t =>
    simp only
    unfold LSt.runeBody
    simp only
    have hl : Keeps a0 { a0 with look := max a0.look 1 } := ⟨rfl, rfl⟩
    split
    · exact h0.trans (hl.trans (keeps_ascii b bq (hl.norm hn0)))
    · exact h0.trans (hl.trans (keeps_decode _))

theorem keeps_loop (fuel : Nat) : ∀ (bq : Nat) {a : LSt}, Norm a → Keeps a (LSt.runeLoop fuel bq a) := by
  induction fuel with
  | zero => intro bq a _; exact Keeps.refl a
  | succ fuel ih =>
    intro bq a hn
    unfold LSt.runeLoop
    have hs := keeps_step bq hn
    cases hst : LSt.runeStep bq a with
    | done a' => rw [hst] at hs; exact hs
    | retry bq' a' => rw [hst] at hs; exact hs.trans (ih bq' (hs.norm hn))

theorem keeps_runePre (a : LSt) : Keeps a a.runePre := by
  unfold LSt.runePre; simp only; split <;> exact ⟨rfl, rfl⟩

theorem keeps_rune {a : LSt} (hn : Norm a) : Keeps a a.rune.2 := by
  unfold LSt.rune
  exact (keeps_runePre a).trans (keeps_loop _ 0 ((keeps_runePre a).norm hn))

/-- `rune` leaves the protocol exactly when the stop word has fired before -/
theorem rune_ok_of_live {a : LSt} (hk : a.ok = true) (hh : a.halted = false) : a.rune.2.ok = true := by
  have := keeps_rune (a := a) (by intro h; rw [hh] at h; cases h)
  rw [this.1]; exact hk

theorem peek_ok_of_live {a : LSt} (hk : a.ok = true) (hh : a.halted = false) : a.peek.2.ok = true := by
  rw [peek_eq]; simp [LSt.peekEff0, hk, hh]

theorem peekTwo_ok_of_live {a : LSt} (hk : a.ok = true) (hh : a.halted = false) :
    a.peekTwo.2.2.ok = true := by
  rw [peekTwo_eq]; simp [LSt.peekTwoEff0, hk, hh]

theorem stopAt_ok_of_live {a : LSt} (r : Nat) (hk : a.ok = true) (hh : a.halted = false) :
    (a.stopAt r).2.ok = true := by
  unfold LSt.stopAt
  simp only
  generalize (if r ≤ 0x10FFFF then encodeRune r else []) = enc
  split <;> simp [hk, hh]

end ShVerif.C07
