import ShVerif.Model.C09
/-
  C09 — helper lemmas: the bit-level facts behind `pos_pack`, and the inductions behind
  `local_to_global`.
-/
namespace ShVerif.C09

/-! ### constants -/

theorem colMax_eq : colMax = 16383 := by decide
theorem colBitMask_eq : colBitMask = 16383 := by decide
theorem lineMax_eq : lineMax = 262143 := by decide
theorem colBitSize_eq : colBitSize = 14 := by decide
theorem offsetMax_eq : offsetMax = 4294967284 := by decide
theorem offsetRecovered_eq : offsetRecovered = 4294967285 := by decide

/-! ### packing -/

theorem pack_line (l c : Nat) (hc : c < 16384) : (l <<< 14 ||| c) >>> 14 = l := by
  rw [← Nat.shiftLeft_add_eq_or_of_lt (by simpa using hc), Nat.shiftRight_eq_div_pow, Nat.shiftLeft_eq]
  omega

theorem pack_col (l c : Nat) (hc : c < 16384) : (l <<< 14 ||| c) &&& 16383 = c := by
  rw [← Nat.shiftLeft_add_eq_or_of_lt (by simpa using hc), Nat.shiftLeft_eq]
  have : (16383 : Nat) = 2 ^ 14 - 1 := by decide
  rw [this, Nat.and_two_pow_sub_one_eq_mod]
  omega

theorem pack_lt (l c : Nat) (hl : l < 262144) (hc : c < 16384) : l <<< 14 ||| c < 4294967296 := by
  rw [← Nat.shiftLeft_add_eq_or_of_lt (by simpa using hc), Nat.shiftLeft_eq]
  omega

theorem pack_eq_zero (l c : Nat) (hc : c < 16384) : (l <<< 14 ||| c = 0) ↔ (l = 0 ∧ c = 0) := by
  rw [← Nat.shiftLeft_add_eq_or_of_lt (by simpa using hc), Nat.shiftLeft_eq]
  omega

theorem mask_eq : (4294967295 ^^^ 16383 : Nat) = (2 ^ 18 - 1) <<< 14 := by decide

theorem clear_low (lc : Nat) (h : lc < 4294967296) :
    lc &&& ((2 ^ 18 - 1) <<< 14) = (lc >>> 14) <<< 14 := by
  apply Nat.eq_of_testBit_eq
  intro i
  simp only [Nat.testBit_and, Nat.testBit_shiftLeft, Nat.testBit_two_pow_sub_one, Nat.testBit_shiftRight]
  by_cases h1 : 14 ≤ i
  · simp only [ge_iff_le, h1, decide_true, Bool.true_and]
    have e : 14 + (i - 14) = i := by omega
    rw [e]
    by_cases h2 : i - 14 < 18
    · simp [h2]
    · have : lc.testBit i = false := by
        apply Nat.testBit_lt_two_pow
        calc lc < 2 ^ 32 := h
          _ ≤ 2 ^ i := Nat.pow_le_pow_right (by decide) (by omega)
      simp [this]
  · simp [h1]

theorem clearCol_eq (lc : Nat) (h : lc < 4294967296) : clearCol lc = (lc >>> 14) <<< 14 := by
  unfold clearCol
  rw [colBitMask_eq, mask_eq]
  exact clear_low lc h

theorem line_lt (lc : Nat) (h : lc < 4294967296) : lc >>> 14 < 262144 := by
  rw [Nat.shiftRight_eq_div_pow]; omega

/-! ### NewPos -/

theorem u32_of_lt {n : Nat} (h : n < 4294967296) : u32 n = n := by
  unfold u32; omega

/-- the two words of `NewPos(o, l, c)` -/
theorem newPos_words (o l c : Nat) :
    newPos o l c =
      { offs := min o offsetMax,
        lineCol := (if l > lineMax then 0 else l) <<< 14 ||| (if c > colMax then 0 else c) } := by
  unfold newPos
  have ho : min o offsetMax < 4294967296 := by rw [offsetMax_eq]; omega
  have hl : (if l > lineMax then 0 else l) < 262144 := by
    rw [lineMax_eq]; split <;> omega
  have hc : (if c > colMax then 0 else c) < 16384 := by
    rw [colMax_eq]; split <;> omega
  simp only [colBitSize_eq]
  rw [u32_of_lt ho, u32_of_lt (by omega : (if l > lineMax then 0 else l) < 4294967296),
    u32_of_lt (by omega : (if c > colMax then 0 else c) < 4294967296)]
  have h2 : (if l > lineMax then 0 else l) <<< 14 < 4294967296 := by
    rw [Nat.shiftLeft_eq]; omega
  rw [u32_of_lt h2]

theorem newPos_wf (o l c : Nat) : (newPos o l c).wf := by
  rw [newPos_words]
  have hl : (if l > lineMax then 0 else l) < 262144 := by
    rw [lineMax_eq]; split <;> omega
  have hc : (if c > colMax then 0 else c) < 16384 := by
    rw [colMax_eq]; split <;> omega
  refine ⟨?_, pack_lt _ _ hl hc⟩
  show min o offsetMax < 4294967296
  rw [offsetMax_eq]; omega

theorem newPos_offset (o l c : Nat) : (newPos o l c).offset = min o offsetMax := by
  rw [newPos_words]
  unfold Pos.offset
  have : ¬ (min o offsetMax > offsetMax) := by omega
  simp [this]

theorem newPos_line (o l c : Nat) : (newPos o l c).line = if l > lineMax then 0 else l := by
  rw [newPos_words]
  unfold Pos.line
  rw [colBitSize_eq]
  apply pack_line
  rw [colMax_eq]; split <;> omega

theorem newPos_col (o l c : Nat) : (newPos o l c).col = if c > colMax then 0 else c := by
  rw [newPos_words]
  unfold Pos.col
  rw [colBitMask_eq]
  apply pack_col
  rw [colMax_eq]; split <;> omega

theorem newPos_isValid (o l c : Nat) :
    (newPos o l c).isValid = true ↔ ((l ≤ lineMax ∧ l ≠ 0) ∨ (c ≤ colMax ∧ c ≠ 0)) := by
  rw [newPos_words]
  unfold Pos.isValid
  have hc : (if c > colMax then 0 else c) < 16384 := by
    rw [colMax_eq]; split <;> omega
  have ho : min o offsetMax ≤ offsetMax := by omega
  simp only [Bool.and_eq_true, decide_eq_true_eq, bne_iff_ne, ne_eq, ho, true_and]
  rw [pack_eq_zero _ _ hc]
  rw [lineMax_eq, colMax_eq] at *
  constructor
  · intro h
    by_cases h1 : l > 262143 <;> by_cases h2 : c > 16383 <;> simp [h1, h2] at h <;> omega
  · intro h
    by_cases h1 : l > 262143 <;> by_cases h2 : c > 16383 <;> simp [h1, h2] <;> omega

/-! ### accessors of a well-formed Pos -/

theorem isValid_iff (p : Pos) : p.isValid = true ↔ (p.offs ≤ offsetMax ∧ p.lineCol ≠ 0) := by
  unfold Pos.isValid
  simp

theorem offset_of_valid {p : Pos} (h : p.isValid = true) : p.offset = p.offs := by
  unfold Pos.offset
  have := ((isValid_iff p).1 h).1
  have : ¬ (p.offs > offsetMax) := by omega
  simp [this]

theorem col_lt (p : Pos) : p.col < 16384 := by
  unfold Pos.col
  rw [colBitMask_eq]
  have : (16383 : Nat) = 2 ^ 14 - 1 := by decide
  rw [this, Nat.and_two_pow_sub_one_eq_mod]
  omega

/-- a well-formed word is its line and column packed -/
theorem lineCol_split (p : Pos) : p.lineCol = p.line <<< 14 ||| p.col := by
  unfold Pos.line Pos.col
  rw [colBitSize_eq, colBitMask_eq]
  have e : (16383 : Nat) = 2 ^ 14 - 1 := by decide
  rw [e, Nat.and_two_pow_sub_one_eq_mod]
  rw [← Nat.shiftLeft_add_eq_or_of_lt (Nat.mod_lt _ (by decide)), Nat.shiftLeft_eq, Nat.shiftRight_eq_div_pow]
  omega

/-! ### posAddCol -/

/-- no int64 wrap-around for these `n` (far more than any token length) -/
def smallInt (n : Int) : Prop := -4611686018427387904 ≤ n ∧ n ≤ 4611686018427387904

theorem wrap64_small {x : Int} (h : -9223372036854775808 ≤ x ∧ x < 9223372036854775808) : wrap64 x = x := by
  unfold wrap64
  omega

/-- the column after `posAddCol(p, n)` -/
def newCol (col : Nat) (n : Int) : Nat :=
  if col = 0 then 0 else if 1 ≤ (col : Int) + n ∧ (col : Int) + n ≤ 16383 then ((col : Int) + n).toNat else 0

/-- the offset word after `posAddCol(p, n)` -/
def newOffs (offs : Nat) (n : Int) : Nat :=
  (min (max ((offs : Int) + n) 0) 4294967284).toNat

theorem newCol_lt (col : Nat) (n : Int) : newCol col n < 16384 := by
  unfold newCol
  split
  · omega
  · split <;> omega

theorem newCol_mono (c : Nat) (n m : Int) (h : n ≤ m) (h1 : newCol c n ≠ 0) (h2 : newCol c m ≠ 0) :
    newCol c n ≤ newCol c m := by
  unfold newCol at *
  by_cases h0 : c = 0
  · simp [h0] at h1
  · by_cases a : 1 ≤ (c : Int) + n ∧ (c : Int) + n ≤ 16383
    · by_cases b : 1 ≤ (c : Int) + m ∧ (c : Int) + m ≤ 16383
      · simp only [if_neg h0, if_pos a, if_pos b]
        omega
      · simp [h0, b] at h2
    · simp [h0, a] at h1

theorem newOffs_le (offs : Nat) (n : Int) : newOffs offs n ≤ 4294967284 := by
  unfold newOffs; omega

/-- `posAddCol` on a valid, well-formed position, for `n` without int64 wrap-around -/
theorem posAddCol_words (p : Pos) (n : Int) (hw : p.wf) (hv : p.isValid = true) (hn : smallInt n) :
    posAddCol p n = { offs := newOffs p.offs n, lineCol := p.line <<< 14 ||| newCol p.col n } := by
  unfold posAddCol
  simp only [hv, Bool.not_true, Bool.false_eq_true, ↓reduceIte]
  obtain ⟨ho, hlc⟩ := hw
  obtain ⟨hn1, hn2⟩ := hn
  have hcol := col_lt p
  rw [wrap64_small (by omega : -9223372036854775808 ≤ (p.offs : Int) + n ∧ (p.offs : Int) + n < 9223372036854775808)]
  rw [wrap64_small (by omega : -9223372036854775808 ≤ (p.col : Int) + n ∧ (p.col : Int) + n < 9223372036854775808)]
  rw [clearCol_eq _ hlc, offsetMax_eq, colMax_eq]
  have e1 : u32 (min (max ((p.offs : Int) + n) 0) ((4294967284 : Nat) : Int)).toNat = newOffs p.offs n := by
    unfold newOffs
    apply u32_of_lt
    omega
  rw [e1]
  have e2 : u32 (if (p.col : Int) > 0 then
        (if (p.col : Int) + n < 1 ∨ (p.col : Int) + n > ((16383 : Nat) : Int) then 0 else (p.col : Int) + n)
      else (p.col : Int)).toNat = newCol p.col n := by
    unfold newCol
    have hk : ((16383 : Nat) : Int) = 16383 := rfl
    rw [hk]
    by_cases h0 : p.col = 0
    · simp [h0, u32]
    · have hp : (p.col : Int) > 0 := by omega
      rw [if_pos hp, if_neg h0]
      by_cases h1 : (p.col : Int) + n < 1 ∨ (p.col : Int) + n > 16383
      · rw [if_pos h1, if_neg (by omega)]
        rfl
      · rw [if_neg h1, if_pos (by omega)]
        apply u32_of_lt
        omega
  rw [e2]
  rfl

theorem posAddCol_invalid (p : Pos) (n : Int) (h : p.isValid = false) : posAddCol p n = p := by
  unfold posAddCol
  simp [h]

theorem posAddCol_offs (p : Pos) (n : Int) (hw : p.wf) (hv : p.isValid = true) (hn : smallInt n) :
    (posAddCol p n).offs = newOffs p.offs n := by
  rw [posAddCol_words p n hw hv hn]

theorem posAddCol_line (p : Pos) (n : Int) (hw : p.wf) (hv : p.isValid = true) (hn : smallInt n) :
    (posAddCol p n).line = p.line := by
  rw [posAddCol_words p n hw hv hn]
  show (p.line <<< 14 ||| newCol p.col n) >>> colBitSize = p.line
  rw [colBitSize_eq]
  exact pack_line _ _ (newCol_lt _ _)

theorem posAddCol_col (p : Pos) (n : Int) (hw : p.wf) (hv : p.isValid = true) (hn : smallInt n) :
    (posAddCol p n).col = newCol p.col n := by
  rw [posAddCol_words p n hw hv hn]
  show (p.line <<< 14 ||| newCol p.col n) &&& colBitMask = newCol p.col n
  rw [colBitMask_eq]
  exact pack_col _ _ (newCol_lt _ _)

theorem posAddCol_wf (p : Pos) (n : Int) (hw : p.wf) (hv : p.isValid = true) (hn : smallInt n) :
    (posAddCol p n).wf := by
  rw [posAddCol_words p n hw hv hn]
  refine ⟨?_, pack_lt _ _ (line_lt _ hw.2) (newCol_lt _ _)⟩
  have := newOffs_le p.offs n
  show newOffs p.offs n < 4294967296
  omega

/-! ### line / column -/

theorem lineColFrom_zero (src : List UInt8) (line col : Nat) : lineColFrom line col src 0 = (line, col) := by
  cases src <;> rfl

theorem lineColFrom_succ : ∀ (src : List UInt8) (off line col : Nat) (b : UInt8), src[off]? = some b →
    lineColFrom line col src (off + 1) =
      (if b = 10 then ((lineColFrom line col src off).1 + 1, 1)
       else ((lineColFrom line col src off).1, (lineColFrom line col src off).2 + 1))
  | [], off, _, _, b, h => by simp at h
  | x :: rest, 0, line, col, b, h => by
    simp only [List.getElem?_cons_zero, Option.some.injEq] at h
    subst h
    simp only [lineColFrom]
  | x :: rest, off + 1, line, col, b, h => by
    simp only [List.getElem?_cons_succ] at h
    simp only [lineColFrom]
    split
    · exact lineColFrom_succ rest off _ _ b h
    · exact lineColFrom_succ rest off _ _ b h

/-! ### position trees -/

/-- `d` is a node of the subtree rooted at `t` (`t` itself included) -/
def Sub (t d : PTree) : Prop := d ∈ t.nodes

theorem pairwiseB_pairwise {r : PTree → PTree → Bool} :
    ∀ {l : List PTree}, pairwiseB r l = true → List.Pairwise (fun a b => r a b = true) l
  | [], _ => List.Pairwise.nil
  | a :: rest, h => by
    simp only [pairwiseB, Bool.and_eq_true, List.all_eq_true] at h
    exact List.Pairwise.cons h.1 (pairwiseB_pairwise h.2)

theorem pairwise_pairwiseB {r : PTree → PTree → Bool} :
    ∀ {l : List PTree}, List.Pairwise (fun a b => r a b = true) l → pairwiseB r l = true
  | [], _ => rfl
  | a :: rest, h => by
    cases h with
    | cons h1 h2 =>
      simp only [pairwiseB, Bool.and_eq_true, List.all_eq_true]
      exact ⟨h1, pairwise_pairwiseB h2⟩

theorem sub_refl (t : PTree) : Sub t t := by
  cases t with
  | node id s p e toks kids => simp [Sub, PTree.nodes]

theorem localOk_node {t : PTree} (h : localOk t = true) : localNode t = true := by
  cases t with
  | node id s p e toks kids =>
    simp only [localOk, Bool.and_eq_true] at h
    exact h.1

theorem localNode_pos_le {t : PTree} (h : localNode t = true) : t.pos ≤ t.end_ := by
  simp only [localNode, Bool.and_eq_true, decide_eq_true_eq] at h
  exact h.1.1.1

theorem localOkList_mem : ∀ {l : List PTree}, localOkList l = true → ∀ k ∈ l, localOk k = true
  | [], _, k, hk => by cases hk
  | a :: as, h, k, hk => by
    simp only [localOkList, Bool.and_eq_true] at h
    cases hk with
    | head => exact h.1
    | tail _ hk => exact localOkList_mem h.2 k hk

theorem mem_nodesList : ∀ {l : List PTree} {d : PTree}, d ∈ PTree.nodesList l ↔ ∃ k ∈ l, d ∈ k.nodes
  | [], d => by simp [PTree.nodesList]
  | a :: as, d => by
    simp only [PTree.nodesList, List.mem_append, List.mem_cons, exists_eq_or_imp]
    rw [mem_nodesList (l := as)]

theorem kids_sub {t k d : PTree} (hk : k ∈ t.kids) (hd : Sub k d) : Sub t d := by
  cases t with
  | node id s p e toks kids =>
    simp only [Sub, PTree.nodes, List.mem_cons]
    right
    exact mem_nodesList.2 ⟨k, hk, hd⟩

theorem sub_cases {t d : PTree} (h : Sub t d) : d = t ∨ ∃ k ∈ t.kids, Sub k d := by
  cases t with
  | node id s p e toks kids =>
    simp only [Sub, PTree.nodes, List.mem_cons] at h
    rcases h with h | h
    · exact Or.inl h
    · exact Or.inr (mem_nodesList.1 h)

mutual
  /-- the local facts propagate: every node of a locally-ok tree lies within the root and is
      itself locally ok -/
  theorem local_sub : ∀ (t : PTree), localOk t = true → ∀ d, d ∈ t.nodes →
      t.pos ≤ d.pos ∧ d.end_ ≤ t.end_ ∧ localOk d = true
    | .node id s p e toks kids, h, d, hd => by
      have hn := localOk_node h
      simp only [PTree.nodes, List.mem_cons] at hd
      simp only [localOk, Bool.and_eq_true] at h
      rcases hd with rfl | hd
      · refine ⟨Nat.le_refl _, Nat.le_refl _, ?_⟩
        simp only [localOk, Bool.and_eq_true]
        exact h
      · obtain ⟨k, hk, h1, h2, h3⟩ := local_subList kids h.2 d hd
        simp only [localNode, Bool.and_eq_true, List.all_eq_true] at hn
        have hkw := hn.1.2 k hk
        simp only [kidWithin, Bool.and_eq_true, decide_eq_true_eq] at hkw
        exact ⟨Nat.le_trans hkw.1 h1, Nat.le_trans h2 hkw.2, h3⟩
  theorem local_subList : ∀ (l : List PTree), localOkList l = true → ∀ d, d ∈ PTree.nodesList l →
      ∃ k, k ∈ l ∧ k.pos ≤ d.pos ∧ d.end_ ≤ k.end_ ∧ localOk d = true
    | [], _, d, hd => by simp [PTree.nodesList] at hd
    | k :: ks, h, d, hd => by
      simp only [PTree.nodesList, List.mem_append] at hd
      simp only [localOkList, Bool.and_eq_true] at h
      rcases hd with hd | hd
      · exact ⟨k, List.mem_cons_self, local_sub k h.1 d hd⟩
      · obtain ⟨k', hk', r⟩ := local_subList ks h.2 d hd
        exact ⟨k', List.mem_cons_of_mem _ hk', r⟩
end

theorem sub_trans {t a d : PTree} (h1 : Sub t a) (h2 : Sub a d) : Sub t d := by
  -- by induction on the size of t, through sub_cases
  suffices ∀ n (t : PTree), sizeOf t ≤ n → Sub t a → Sub t d from this _ t (Nat.le_refl _) h1
  intro n
  induction n with
  | zero =>
    intro t ht
    cases t with
    | node id s p e toks kids => simp at ht
  | succ n ih =>
    intro t ht hta
    rcases sub_cases hta with rfl | ⟨k, hk, hka⟩
    · exact h2
    · cases t with
      | node id s p e toks kids =>
        have hlt : sizeOf k < sizeOf (PTree.node id s p e toks kids) := by
          have := List.sizeOf_lt_of_mem hk
          simp only [PTree.kids] at this
          simp only [PTree.node.sizeOf_spec]
          omega
        exact kids_sub hk (ih k (by omega) hka)

theorem disjoint_sub : ∀ n (t : PTree), sizeOf t ≤ n → localDisjoint t = true → ∀ a, Sub t a →
    pairwiseB endsBefore a.kids = true := by
  intro n
  induction n with
  | zero =>
    intro t ht
    cases t with
    | node id s p e toks kids => simp at ht
  | succ n ih =>
    intro t ht hd a hta
    cases t with
    | node id s p e toks kids =>
      simp only [localDisjoint, Bool.and_eq_true] at hd
      rcases sub_cases hta with rfl | ⟨k, hk, hka⟩
      · exact hd.1
      · have hlt : sizeOf k < sizeOf (PTree.node id s p e toks kids) := by
          have := List.sizeOf_lt_of_mem hk
          simp only [PTree.kids] at this
          simp only [PTree.node.sizeOf_spec]
          omega
        have hdk : localDisjoint k = true := by
          have : ∀ {l : List PTree}, localDisjointList l = true → ∀ k ∈ l, localDisjoint k = true := by
            intro l
            induction l with
            | nil => intro _ k hk; cases hk
            | cons a as iha =>
              intro h k hk
              simp only [localDisjointList, Bool.and_eq_true] at h
              cases hk with
              | head => exact h.1
              | tail _ hk => exact iha h.2 k hk
          exact this hd.2 k hk
        exact ih k (by omega) hdk a hka

end ShVerif.C09
