import ShVerif.Model.C20
/-
  C20 helper lemmas: 64-bit wrap-around, intPow, binArit versus the mathematical operators.
-/
namespace ShVerif.C20

theorem inI64_iff {v : Int} : inI64 v = true ↔ (-9223372036854775808 ≤ v ∧ v < 9223372036854775808) := by
  unfold inI64 two63
  rw [Bool.and_eq_true, decide_eq_true_iff, decide_eq_true_iff]

theorem wrap64_eq {v : Int} (h : inI64 v = true) : wrap64 v = v := by
  rw [inI64_iff] at h
  unfold wrap64 two63 two64
  omega

theorem wrap64_inI64 (v : Int) : inI64 (wrap64 v) = true := by
  rw [inI64_iff]
  unfold wrap64 two63 two64
  omega

theorem wrap64_emod (v : Int) : wrap64 v % two64 = v % two64 := by
  unfold wrap64 two63 two64
  omega

theorem wrap64_congr {a b : Int} (h : a % two64 = b % two64) : wrap64 a = wrap64 b := by
  unfold wrap64 two63 two64 at *
  omega

theorem wrap64_mul_left (a b : Int) : wrap64 (wrap64 a * b) = wrap64 (a * b) := by
  apply wrap64_congr
  rw [Int.mul_emod, wrap64_emod, ← Int.mul_emod]

theorem wrap64_mul_right (a b : Int) : wrap64 (a * wrap64 b) = wrap64 (a * b) := by
  apply wrap64_congr
  rw [Int.mul_emod, wrap64_emod, ← Int.mul_emod]

theorem wrap64_idem (a : Int) : wrap64 (wrap64 a) = wrap64 a :=
  wrap64_eq (wrap64_inI64 a)

theorem wrap64_pow (a : Int) (n : Nat) : wrap64 ((wrap64 a) ^ n) = wrap64 (a ^ n) := by
  induction n with
  | zero => simp
  | succ k ih =>
    rw [Int.pow_succ, Int.pow_succ, ← wrap64_mul_left, ih, wrap64_mul_left, wrap64_mul_right]

theorem wrap64_mul_pow (p a : Int) (k : Nat) :
    wrap64 (p * (wrap64 (a * a)) ^ k) = wrap64 (p * (a ^ k * a ^ k)) := by
  rw [← wrap64_mul_right, wrap64_pow, wrap64_mul_right, Int.mul_pow]

theorem intPowLoop_eq : ∀ (fuel : Nat) (a b p : Int), b < (2 : Int) ^ fuel →
    intPowLoop fuel a b p = if b ≤ 0 then p else wrap64 (p * a ^ b.toNat)
  | 0, a, b, p, h => by
    have : b ≤ 0 := by simp at h; omega
    simp [intPowLoop, this]
  | fuel + 1, a, b, p, h => by
    unfold intPowLoop
    by_cases hb : b > 0
    · have hlt : b / 2 < (2 : Int) ^ fuel := by
        rw [Int.pow_succ] at h; omega
      have hnb : ¬ b ≤ 0 := by omega
      simp only [hb, if_true, hnb, if_false]
      rw [intPowLoop_eq fuel _ _ _ hlt]
      by_cases hh : b / 2 ≤ 0
      · have hb1 : b = 1 := by omega
        subst hb1
        simp [Int.pow_succ]
      · simp only [hh, if_false]
        by_cases hodd : b % 2 ≠ 0
        · rw [if_pos hodd]
          have e : b.toNat = (b / 2).toNat + (b / 2).toNat + 1 := by omega
          rw [wrap64_mul_pow, wrap64_mul_left, e, Int.pow_succ, Int.pow_add]
          congr 1
          rw [Int.mul_assoc, Int.mul_comm a]
        · rw [if_neg hodd]
          have e : b.toNat = (b / 2).toNat + (b / 2).toNat := by omega
          rw [wrap64_mul_pow, e, Int.pow_add]
    · have hnb : b ≤ 0 := by omega
      simp [hb, hnb]

/-- `intPow` is exponentiation modulo 2^64. -/
theorem intPow_eq (a b : Int) (h0 : 0 ≤ b) (h : inI64 b = true) :
    intPow a b = wrap64 (a ^ b.toNat) := by
  unfold intPow
  rw [inI64_iff] at h
  rw [intPowLoop_eq 64 a b 1 (by omega)]
  by_cases hb : b ≤ 0
  · have : b = 0 := by omega
    subst this
    simp [wrap64, two63, two64]
  · simp [hb]

theorem chk_ok {v : Int} {r : Res} (h : chk v = r) (hd : r.inDomain) :
    inI64 v = true ∧ r = .ok v := by
  unfold chk at h
  split at h
  · subst h; exact ⟨‹_›, rfl⟩
  · subst h; exact absurd hd (by simp [Res.inDomain])

theorem neg_one_pow (n : Nat) : (-1 : Int) ^ n = if n % 2 = 0 then 1 else -1 := by
  induction n with
  | zero => simp
  | succ k ih =>
    rw [Int.pow_succ, ih]
    by_cases h : k % 2 = 0
    · have : (k + 1) % 2 ≠ 0 := by omega
      simp [h, this]
    · have : (k + 1) % 2 = 0 := by omega
      simp [h, this]

theorem specPow_eq {x y : Int} {r : Res} (h0 : 0 ≤ y) (hy : inI64 y = true)
    (h : specPow x y = r) (hd : r.inDomain) : Res.ok (intPow x y) = r := by
  rw [intPow_eq x y h0 hy]
  unfold specPow at h
  split at h
  · obtain ⟨hv, rfl⟩ := chk_ok h hd
    rw [wrap64_eq hv]
  · have hpos : y.toNat ≠ 0 := by omega
    split at h
    · subst h; rename_i hx; subst hx
      rw [Int.zero_pow hpos]; rfl
    · split at h
      · subst h; rename_i hx; subst hx
        rw [Int.one_pow]; rfl
      · split at h
        · subst h; rename_i hx; subst hx
          rw [neg_one_pow]
          by_cases hp : y % 2 = 0
          · have : y.toNat % 2 = 0 := by omega
            simp [hp, this]; rfl
          · have : ¬ y.toNat % 2 = 0 := by omega
            simp [hp, this]; rfl
        · subst h; exact absurd hd (by simp [Res.inDomain])

/-- On the property's domain `binArit` computes the mathematical operator. -/
theorem binArit_eq_spec {op : BinOp} {x y : Int} {r : Res} (hy : inI64 y = true)
    (h : specBin op x y = r) (hd : r.inDomain) (hs : r ≠ .err .syntaxErr) :
    binArit op x y = r := by
  cases op <;> simp only [specBin, binArit] at h ⊢ <;>
    first
    | exact h
    | (exfalso; exact hs h.symm)
    | (obtain ⟨hv, rfl⟩ := chk_ok h hd; rw [wrap64_eq hv])
    | skip
  · -- quo
    split at h
    · rw [if_pos ‹_›]; exact h
    · rw [if_neg ‹_›]; obtain ⟨hv, rfl⟩ := chk_ok h hd; rw [wrap64_eq hv]
  · -- pow
    split at h
    · rw [if_pos ‹_›]; exact h
    · rw [if_neg ‹_›]; exact specPow_eq (by omega) hy h hd
  · -- shr
    unfold shr64
    split at h
    · rw [if_pos ‹_›]; exact h
    · subst h; exact absurd hd (by simp [Res.inDomain])
  · -- shl
    unfold shl64
    split at h
    · rw [if_pos ‹_›]; obtain ⟨hv, rfl⟩ := chk_ok h hd; rw [wrap64_eq hv]
    · subst h; exact absurd hd (by simp [Res.inDomain])

theorem chk_ok_inI64 {v w : Int} (h : chk v = .ok w) : inI64 w = true := by
  unfold chk at h
  split at h
  · cases h; assumption
  · cases h

theorem oneIf_inI64 (b : Bool) : inI64 (oneIf b) = true := by
  cases b <;> (rw [inI64_iff]; simp [oneIf])

theorem tmod_inI64 {x y : Int} (hx : inI64 x = true) : inI64 (Int.tmod x y) = true := by
  rw [inI64_iff] at *
  have h1 := Int.natAbs_tmod x y
  have h2 : x.natAbs % y.natAbs ≤ x.natAbs := Nat.mod_le _ _
  by_cases hx0 : 0 ≤ x
  · have := Int.tmod_nonneg y hx0
    omega
  · have h3 : 0 ≤ (-x).tmod y := Int.tmod_nonneg y (by omega)
    rw [Int.neg_tmod] at h3
    omega

theorem shr_inI64 {x : Int} (k : Nat) (hx : inI64 x = true) : inI64 (x / (2 : Int) ^ k) = true := by
  rw [inI64_iff] at *
  have hd : (0 : Int) < 2 ^ k := Int.pow_pos (by decide)
  have h1 := Int.natAbs_ediv_le_natAbs x ((2 : Int) ^ k)
  by_cases hx0 : 0 ≤ x
  · have := Int.ediv_le_self ((2 : Int) ^ k) hx0
    have := Int.ediv_nonneg hx0 (Int.le_of_lt hd)
    omega
  · have : x / (2 : Int) ^ k < 0 := (Int.ediv_lt_iff_lt_mul hd).2 (by omega)
    omega

theorem ok_inj {a b : Int} (h : Res.ok a = Res.ok b) : a = b := Res.ok.inj h

/-- Every value the specification's operators return fits int64. -/
theorem specBin_inI64 {op : BinOp} {x y v : Int} (hx : inI64 x = true) (hy : inI64 y = true)
    (h : specBin op x y = .ok v) : inI64 v = true := by
  cases op <;> simp only [specBin] at h
  case add => exact chk_ok_inI64 h
  case sub => exact chk_ok_inI64 h
  case mul => exact chk_ok_inI64 h
  case quo =>
    split at h
    · exact Res.noConfusion h
    · exact chk_ok_inI64 h
  case rem =>
    split at h
    · exact Res.noConfusion h
    · rw [← ok_inj h]; exact tmod_inI64 hx
  case pow =>
    split at h
    · exact Res.noConfusion h
    · unfold specPow at h
      split at h
      · exact chk_ok_inI64 h
      · split at h
        · rw [← ok_inj h]; rfl
        · split at h
          · rw [← ok_inj h]; rfl
          · split at h
            · rw [← ok_inj h]; split <;> rfl
            · exact Res.noConfusion h
  case eql => rw [← ok_inj h]; exact oneIf_inI64 _
  case gtr => rw [← ok_inj h]; exact oneIf_inI64 _
  case lss => rw [← ok_inj h]; exact oneIf_inI64 _
  case neq => rw [← ok_inj h]; exact oneIf_inI64 _
  case leq => rw [← ok_inj h]; exact oneIf_inI64 _
  case geq => rw [← ok_inj h]; exact oneIf_inI64 _
  case and => rw [← ok_inj h]; exact wrap64_inI64 _
  case or => rw [← ok_inj h]; exact wrap64_inI64 _
  case xor => rw [← ok_inj h]; exact wrap64_inI64 _
  case shr =>
    split at h
    · rw [← ok_inj h]; exact shr_inI64 _ hx
    · exact Res.noConfusion h
  case shl =>
    split at h
    · exact chk_ok_inI64 h
    · exact Res.noConfusion h
  case comma => rw [← ok_inj h]; exact hy
  all_goals exact Res.noConfusion h

theorem validName_ne_nil {n : Bytes} (h : validName n = true) : n ≠ [] := by
  intro he; rw [he] at h; simp [validName] at h

theorem wordOf_name {n : Bytes} (h : validName n = true) : wordOf (.word n) = some n := by
  simp [wordOf, validName_ne_nil h]

end ShVerif.C20
