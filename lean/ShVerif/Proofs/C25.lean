import ShVerif.Model.C25
/-
  C25 — helper lemmas: the two-stage reading of here-document text (Lit parts with their source
  text, unescaped later) against the one-pass specification; the field machine of wordFields
  against splitting atoms at separators.
-/
namespace ShVerif.C25
open ShVerif

/-! ## here-documents -/

/-- The literal text consists of complete escape pairs and plain characters (no pending backslash). -/
def cleanLit : Bytes → Bool
  | [] => true
  | [b] => b != bBS
  | b :: c :: rest => if b == bBS then cleanLit rest else cleanLit (c :: rest)

theorem unescQ_append (dq : Bool) (a x : Bytes) (hc : cleanLit a = true) :
    unescQ dq (a ++ x) = unescQ dq a ++ unescQ dq x := by
  induction a using cleanLit.induct with
  | case1 => simp [unescQ]
  | case2 b =>
    have hb : (b == bBS) = false := by simpa [cleanLit] using hc
    cases x with
    | nil => simp [unescQ]
    | cons y ys =>
      simp only [List.cons_append, List.nil_append]
      rw [unescQ]
      simp [hb, unescQ]
  | case3 b c rest hb ih =>
    simp only [cleanLit, hb, if_true] at hc
    simp only [List.cons_append]
    rw [unescQ, unescQ]
    simp only [hb, if_true, ih hc, List.append_assoc]
  | case4 b c rest hb ih =>
    have hb' : (b == bBS) = false := by simpa using hb
    simp only [cleanLit, hb', Bool.false_eq_true, if_false] at hc
    simp only [List.cons_append]
    rw [unescQ, unescQ]
    simp only [hb', Bool.false_eq_true, if_false]
    have := ih hc
    simp only [List.cons_append] at this
    rw [this]
    rfl

theorem cleanLit_append (a x : Bytes) (hc : cleanLit a = true) : cleanLit (a ++ x) = cleanLit x := by
  induction a using cleanLit.induct with
  | case1 => simp
  | case2 b =>
    have hb : (b == bBS) = false := by simpa [cleanLit] using hc
    cases x with
    | nil => simp only [List.append_nil]; rw [hc]; rfl
    | cons y ys =>
      simp only [List.cons_append, List.nil_append]
      rw [cleanLit]
      simp [hb]
  | case3 b c rest hb ih =>
    simp only [cleanLit, hb, if_true] at hc
    simp only [List.cons_append]
    rw [cleanLit]
    simp only [hb, if_true, ih hc]
  | case4 b c rest hb ih =>
    have hb' : (b == bBS) = false := by simpa using hb
    simp only [cleanLit, hb', Bool.false_eq_true, if_false] at hc
    simp only [List.cons_append]
    rw [cleanLit]
    simp only [hb', Bool.false_eq_true, if_false]
    have := ih hc
    simp only [List.cons_append] at this
    exact this

theorem expandPartsQ_append (env : Env) (dq : Bool) (acc : List Part) (p : Part) :
    expandPartsQ env dq (acc ++ [p]) =
      (match expandPartsQ env dq acc, expandPartQ env dq p with
       | some a, some b => some (a ++ b)
       | _, _ => none) := by
  induction acc with
  | nil =>
    simp only [List.nil_append, expandPartsQ]
    cases expandPartQ env dq p <;> simp
  | cons q rest ih =>
    simp only [List.cons_append, expandPartsQ, ih]
    cases expandPartQ env dq q <;> cases expandPartsQ env dq rest <;> cases expandPartQ env dq p <;> simp

/-- What `shellExpand` makes of a parse result. -/
def finishDoc (env : Env) : PRes (List Part) → Res Bytes
  | .err => .err
  | .outside => .outside
  | .ok parts =>
    match expandPartsQ env false parts with
    | some v => .ok v
    | none => .outside

theorem res_map_ne_outside {α β} {f : α → β} {r : Res α} (h : r.map f ≠ .outside) : r ≠ .outside := by
  intro h'; subst h'; exact h rfl

theorem res_map_map {α β γ} (f : α → β) (g : β → γ) (r : Res α) : (r.map f).map g = r.map (g ∘ f) := by
  cases r <;> rfl

/-- A non-literal part expands the same way whatever the quote level. -/
theorem expandPartQ_lit_free (env : Env) (p : Part) (h : ∀ raw, p ≠ .lit raw) :
    expandPartQ env true p = expandPartQ env false p := by
  cases p with
  | lit raw => exact absurd rfl (h raw)
  | param n => rfl
  | paramOp n o w => rfl
  | arith e => rfl

theorem flush_expand (env : Env) (acc : List Part) (cur a : Bytes)
    (ha : expandPartsQ env false acc = some a) :
    expandPartsQ env false (if cur.isEmpty then acc else acc ++ [.lit cur]) = some (a ++ unescQ false cur) := by
  by_cases hc : cur.isEmpty = true
  · have : cur = [] := List.isEmpty_iff.mp hc
    subst this
    simp [ha, unescQ]
  · simp only [hc, Bool.false_eq_true, if_false]
    rw [expandPartsQ_append]
    simp [ha, expandPartQ]

theorem parseDoc_hdocText (env : Env) : ∀ (fuel : Nat) (input cur : Bytes) (acc : List Part) (a : Bytes),
    cleanLit cur = true → expandPartsQ env false acc = some a →
    hdocText env fuel input ≠ .outside →
    finishDoc env (parseDoc fuel input cur acc) = (hdocText env fuel input).map (a ++ unescQ false cur ++ ·) := by
  intro fuel
  induction fuel with
  | zero => intro input cur acc a _ _ h; simp [hdocText] at h
  | succ fuel ih =>
    intro input cur acc a hcl ha hne
    cases input with
    | nil =>
      simp only [parseDoc, hdocText, finishDoc, Res.map]
      rw [flush_expand env acc cur a ha]
      simp
    | cons b rest =>
      simp only [parseDoc, hdocText] at hne ⊢
      by_cases h1 : (b == 0 || b == 13 || b == bBQ) = true
      · simp [h1] at hne
      · simp only [h1, Bool.false_eq_true, if_false] at hne ⊢
        by_cases h2 : (b == bBS) = true
        · simp only [h2, if_true] at hne ⊢
          cases rest with
          | nil =>
            simp only at hne ⊢
            -- the lone final backslash
            simp only [finishDoc, Res.map]
            rw [expandPartsQ_append]
            simp only [ha, expandPartQ]
            rw [unescQ_append false cur [b] hcl]
            simp [unescQ]
          | cons c rest' =>
            simp only at hne ⊢
            by_cases h3 : (c == 0 || c == 13) = true
            · simp [h3] at hne
            · simp only [h3, Bool.false_eq_true, if_false] at hne ⊢
              have hsub := res_map_ne_outside hne
              have hcl' : cleanLit (cur ++ [b, c]) = true := by
                rw [cleanLit_append cur [b, c] hcl]
                simp [cleanLit, h2]
              rw [ih rest' (cur ++ [b, c]) acc a hcl' ha hsub, res_map_map]
              congr 1
              funext t
              simp only [Function.comp]
              rw [unescQ_append false cur [b, c] hcl]
              simp [unescQ, h2, List.append_assoc]
        · simp only [h2, Bool.false_eq_true, if_false] at hne ⊢
          have hb2 : (b == bBS) = false := by simpa using h2
          have hclb : cleanLit (cur ++ [b]) = true := by
            rw [cleanLit_append cur [b] hcl]; simp only [cleanLit]; simpa using hb2
          have hunb : unescQ false (cur ++ [b]) = unescQ false cur ++ [b] := by
            rw [unescQ_append false cur [b] hcl]; simp [unescQ]
          by_cases h4 : (b == bDollar) = true
          · simp only [h4, if_true] at hne ⊢
            cases hpd : parseDollar rest with
            | err => simp [finishDoc, Res.map]
            | outside => simp [hpd] at hne
            | ok o =>
              simp only [hpd] at hne ⊢
              cases o with
              | none =>
                simp only at hne ⊢
                have hsub := res_map_ne_outside hne
                rw [ih rest (cur ++ [b]) acc a hclb ha hsub, res_map_map]
                congr 1
                funext t
                simp [Function.comp, hunb, List.append_assoc]
              | some pr =>
                obtain ⟨p, r⟩ := pr
                simp only at hne ⊢
                cases hev : expandPartQ env false p with
                | none => simp [hev] at hne
                | some v =>
                  simp only [hev] at hne ⊢
                  have hsub := res_map_ne_outside hne
                  have hacc : expandPartsQ env false ((if cur.isEmpty then acc else acc ++ [.lit cur]) ++ [p])
                      = some (a ++ unescQ false cur ++ v) := by
                    rw [expandPartsQ_append, flush_expand env acc cur a ha, hev]
                  rw [ih r [] _ _ (by simp [cleanLit]) hacc hsub, res_map_map]
                  congr 1
                  funext t
                  simp [Function.comp, unescQ, List.append_assoc]
          · simp only [h4, Bool.false_eq_true, if_false] at hne ⊢
            have hsub := res_map_ne_outside hne
            rw [ih rest (cur ++ [b]) acc a hclb ha hsub, res_map_map]
            congr 1
            funext t
            simp [Function.comp, hunb, List.append_assoc]

end ShVerif.C25

namespace ShVerif.C25
open ShVerif

/-! ## arguments: the field machine of wordFields against atoms split at separators -/

def fieldsText (fs : List (List FPart)) : List Bytes := fs.map fieldText

/-- The pending field of the machine, as the splitter's state. -/
def stOf (s : WF) : Option Bytes := if s.cur.isEmpty then none else some (fieldText s.cur)

def getT (o : Option Bytes) : Bytes := o.getD []

/-- Everything the machine will have produced once the remaining atoms are processed. -/
def out (s : WF) (rest : List Atom) : List Bytes := fieldsText s.fields ++ splitAtoms rest (stOf s)

theorem fieldText_append (a b : List FPart) : fieldText (a ++ b) = fieldText a ++ fieldText b := by
  simp [fieldText]

theorem getT_stOf (s : WF) : getT (stOf s) = fieldText s.cur := by
  unfold stOf getT
  by_cases h : s.cur.isEmpty = true
  · have : s.cur = [] := List.isEmpty_iff.mp h
    simp [h, this, fieldText]
  · simp [h]

theorem stOf_add (s : WF) (p : FPart) : stOf (s.add p) = some (getT (stOf s) ++ p.val) := by
  rw [getT_stOf]
  unfold stOf WF.add
  simp [fieldText_append, fieldText]

theorem splitAtoms_text_some (t : Bytes) (rest : List Atom) : ∀ c : Bytes,
    splitAtoms (textAtoms t ++ rest) (some c) = splitAtoms rest (some (c ++ t)) := by
  induction t with
  | nil => intro c; simp [textAtoms]
  | cons b t ih =>
    intro c
    simp only [textAtoms, List.map_cons, List.cons_append, splitAtoms]
    have := ih (c ++ [b])
    simp only [textAtoms] at this
    rw [this]
    simp

theorem splitAtoms_text (t : Bytes) (rest : List Atom) (st : Option Bytes) (h : t ≠ [] ∨ st.isSome = true) :
    splitAtoms (textAtoms t ++ rest) st = splitAtoms rest (some (getT st ++ t)) := by
  cases st with
  | some c => simpa [getT] using splitAtoms_text_some t rest c
  | none =>
    cases t with
    | nil => simp at h
    | cons b t =>
      simp only [textAtoms, List.map_cons, List.cons_append, splitAtoms, getT, Option.getD_none, List.nil_append]
      have := splitAtoms_text_some t rest [b]
      simp only [textAtoms] at this
      rw [this]
      simp

theorem splitAtoms_mark (rest : List Atom) (st : Option Bytes) :
    splitAtoms (.mark :: rest) st = splitAtoms rest (some (getT st)) := by
  cases st <;> simp [splitAtoms, getT]

theorem out_add_text (s : WF) (t : Bytes) (q : Bool) (rest : List Atom)
    (h : t ≠ [] ∨ (stOf s).isSome = true) :
    out (s.add ⟨t, q⟩) rest = out s (textAtoms t ++ rest) := by
  unfold out
  rw [stOf_add, splitAtoms_text t rest (stOf s) h]
  rfl

theorem out_add_mark_text (s : WF) (t : Bytes) (q : Bool) (rest : List Atom) :
    out (s.add ⟨t, q⟩) rest = out s (.mark :: textAtoms t ++ rest) := by
  unfold out
  rw [stOf_add]
  simp only [List.cons_append]
  rw [splitAtoms_mark, splitAtoms_text_some]
  rfl

/-- State of the splitter when the machine still holds the unquoted run `run`. -/
def stRun (s : WF) : Option Bytes → Option Bytes
  | none => stOf s
  | some r => some (getT (stOf s) ++ r)

theorem stOf_flush (s : WF) : stOf s.flush = none := by
  unfold WF.flush stOf
  by_cases h : s.cur.isEmpty = true
  · simp [h]
  · simp [h]

theorem fields_flush (s : WF) :
    fieldsText s.flush.fields = fieldsText s.fields ++ (match stOf s with | none => [] | some c => [c]) := by
  unfold WF.flush stOf fieldsText
  by_cases h : s.cur.isEmpty = true
  · simp [h]
  · simp [h]

theorem splitAdd_out (rest : List Atom) : ∀ (v : Bytes) (s : WF) (run : Option Bytes),
    out (splitAddAux s run v) rest = fieldsText s.fields ++ splitAtoms (valueAtoms v ++ rest) (stRun s run) := by
  intro v
  induction v with
  | nil =>
    intro s run
    cases run with
    | none => simp [splitAddAux, out, valueAtoms, stRun]
    | some r =>
      simp only [splitAddAux, valueAtoms, List.map_nil, List.nil_append, stRun]
      unfold out
      rw [stOf_add]
      rfl
  | cons c v ih =>
    intro s run
    by_cases hc : isIfs c = true
    · cases run with
      | none =>
        simp only [splitAddAux, hc, if_true, valueAtoms, List.map_cons, List.cons_append, stRun]
        rw [ih s.flush none]
        simp only [stRun, stOf_flush, fields_flush, valueAtoms]
        cases hs : stOf s <;> simp [splitAtoms]
      | some r =>
        simp only [splitAddAux, hc, if_true, valueAtoms, List.map_cons, List.cons_append, stRun]
        rw [ih (s.add ⟨r, false⟩).flush none]
        simp only [stRun, stOf_flush, fields_flush, stOf_add, valueAtoms, splitAtoms]
        simp [WF.add, List.append_assoc]
    · have hc' : isIfs c = false := by simpa using hc
      cases run with
      | none =>
        simp only [splitAddAux, hc', Bool.false_eq_true, if_false, valueAtoms, List.map_cons, List.cons_append, stRun]
        rw [ih s (some [c])]
        simp only [stRun, valueAtoms]
        cases hs : stOf s <;> simp [splitAtoms, getT]
      | some r =>
        simp only [splitAddAux, hc', Bool.false_eq_true, if_false, valueAtoms, List.map_cons, List.cons_append, stRun]
        rw [ih s (some (r ++ [c]))]
        simp [stRun, valueAtoms, splitAtoms, List.append_assoc]

theorem splitAdd_sim (s : WF) (v : Bytes) (rest : List Atom) :
    out (splitAdd s v) rest = out s (valueAtoms v ++ rest) := by
  unfold splitAdd
  rw [splitAdd_out]
  rfl

/-! ### the "a quote was seen, so there is a field" invariant -/

def Live (s : WF) : Prop := s.fields ≠ [] ∨ s.cur ≠ []
def Inv (s : WF) : Prop := s.allowEmpty = true → Live s

theorem live_add (s : WF) (p : FPart) : Live (s.add p) := by
  right; simp [WF.add]

theorem live_flush {s : WF} (h : Live s) : Live s.flush := by
  unfold WF.flush
  by_cases hc : s.cur.isEmpty = true
  · simpa [hc] using h
  · left; simp [hc]

theorem allow_flush (s : WF) : s.flush.allowEmpty = s.allowEmpty := by
  unfold WF.flush; split <;> rfl

theorem allow_add (s : WF) (p : FPart) : (s.add p).allowEmpty = s.allowEmpty := rfl

theorem splitAddAux_inv : ∀ (v : Bytes) (s : WF) (run : Option Bytes),
    (splitAddAux s run v).allowEmpty = s.allowEmpty ∧ (Live s → Live (splitAddAux s run v)) := by
  intro v
  induction v with
  | nil =>
    intro s run
    cases run with
    | none => simp [splitAddAux]
    | some r => exact ⟨rfl, fun _ => live_add s _⟩
  | cons c v ih =>
    intro s run
    by_cases hc : isIfs c = true
    · cases run with
      | none =>
        simp only [splitAddAux, hc, if_true]
        obtain ⟨h1, h2⟩ := ih s.flush none
        exact ⟨by rw [h1, allow_flush], fun hl => h2 (live_flush hl)⟩
      | some r =>
        simp only [splitAddAux, hc, if_true]
        obtain ⟨h1, h2⟩ := ih (s.add ⟨r, false⟩).flush none
        exact ⟨by rw [h1, allow_flush, allow_add], fun _ => h2 (live_flush (live_add s _))⟩
    · have hc' : isIfs c = false := by simpa using hc
      cases run with
      | none =>
        simp only [splitAddAux, hc', Bool.false_eq_true, if_false]
        exact ih s (some [c])
      | some r =>
        simp only [splitAddAux, hc', Bool.false_eq_true, if_false]
        exact ih s (some (r ++ [c]))

theorem splitAdd_inv {s : WF} (v : Bytes) (h : Inv s) : Inv (splitAdd s v) := by
  unfold splitAdd
  obtain ⟨h1, h2⟩ := splitAddAux_inv v s none
  intro ha
  rw [h1] at ha
  exact h2 (h ha)

end ShVerif.C25

namespace ShVerif.C25
open ShVerif

/-- The parts of "…" go into the current field one by one. -/
theorem dq_fold (env : Env) : ∀ (ps : List Part) (s : WF),
    match ps.foldlM (fun (s : WF) p => (expandPartQ env true p).map fun v => s.add ⟨v, true⟩) s,
          expandPartsQ env true ps with
    | some s', some v =>
        s'.fields = s.fields ∧ s'.allowEmpty = s.allowEmpty ∧ fieldText s'.cur = fieldText s.cur ++ v ∧
        (ps ≠ [] → s'.cur ≠ []) ∧ (s.cur ≠ [] → s'.cur ≠ [])
    | none, none => True
    | _, _ => False := by
  intro ps
  induction ps with
  | nil => intro s; simp [List.foldlM, expandPartsQ]
  | cons p ps ih =>
    intro s
    simp only [List.foldlM, expandPartsQ]
    cases hp : expandPartQ env true p with
    | none => simp
    | some v =>
      simp only [Option.map_some, Option.bind_eq_bind, Option.bind_some]
      have := ih (s.add ⟨v, true⟩)
      cases hf : ps.foldlM (fun (s : WF) p => (expandPartQ env true p).map fun v => s.add ⟨v, true⟩) (s.add ⟨v, true⟩) with
      | none =>
        cases he : expandPartsQ env true ps with
        | none => simp
        | some w => simp [hf, he] at this
      | some s' =>
        cases he : expandPartsQ env true ps with
        | none => simp [hf, he] at this
        | some w =>
          simp only [hf, he] at this
          obtain ⟨h1, h2, h3, _, h5⟩ := this
          simp only [Option.bind_some, Option.pure_def]
          refine ⟨by rw [h1]; rfl, by rw [h2]; rfl, ?_, ?_, ?_⟩
          · rw [h3]; simp [WF.add, fieldText_append, fieldText]
          · intro _; exact h5 (by simp [WF.add])
          · intro _; exact h5 (by simp [WF.add])

theorem unbackslash_ne_nil {raw : Bytes} (h : raw ≠ []) : unbackslash raw ≠ [] := by
  cases raw with
  | nil => exact absurd rfl h
  | cons c rest =>
    rw [unbackslash.eq_def]
    simp only
    split
    · cases rest <;> simp
    · simp

theorem natDigits_ne_nil (f n : Nat) : natDigits (f + 1) n ≠ [] := by
  rw [natDigits]
  split <;> simp

theorem showInt_ne_nil (i : Int) : showInt i ≠ [] := by
  unfold showInt
  split
  · simp
  · exact natDigits_ne_nil _ _

def Sim (s : WF) (r : Option WF) (a : Option (List Atom)) : Prop :=
  match r, a with
  | some s', some as => (∀ rest, out s' rest = out s (as ++ rest)) ∧ (Inv s → Inv s')
  | none, none => True
  | _, _ => False

theorem unbackslash_nil : unbackslash [] = [] := by rw [unbackslash.eq_def]

theorem out_addIf (s : WF) (t : Bytes) (q : Bool) (rest : List Atom) :
    out (if t.isEmpty then s else s.add ⟨t, q⟩) rest = out s (textAtoms t ++ rest) := by
  by_cases ht : t.isEmpty = true
  · have : t = [] := List.isEmpty_iff.mp ht
    subst this; simp [textAtoms]
  · simp only [ht, Bool.false_eq_true, if_false]
    exact out_add_text s t q rest (Or.inl (by intro h; simp [h] at ht))

theorem inv_addIf {s : WF} (c : Bool) (p : FPart) (h : Inv s) : Inv (if c then s else s.add p) := by
  by_cases hc : c = true
  · simpa [hc] using h
  · simp only [hc, Bool.false_eq_true, if_false]
    intro _; exact live_add s p

theorem seg_sim (env : Env) (first more : Bool) (s : WF) (seg : Seg) :
    Sim s (segStep env first more s seg) (segAtoms env first more seg) := by
  cases seg with
  | sq v =>
    simp only [segStep, segAtoms, Sim]
    refine ⟨fun rest => ?_, fun _ _ => live_add _ _⟩
    have := out_add_mark_text { s with allowEmpty := true } v true rest
    simpa [out, stOf] using this
  | dq ps =>
    simp only [segStep, segAtoms]
    have hd := dq_fold env ps { s with allowEmpty := true }
    cases he : expandPartsQ env true ps with
    | none =>
      simp only [he] at hd ⊢
      simp [Sim]
    | some v =>
      simp only [he, Option.map_some] at hd ⊢
      by_cases hps : ps.isEmpty = true
      · have hnil : ps = [] := List.isEmpty_iff.mp hps
        subst hnil
        simp only [expandPartsQ, Option.some.injEq] at he
        subst he
        simp only [List.isEmpty_nil, if_true, Sim]
        refine ⟨fun rest => ?_, fun _ _ => live_add _ _⟩
        have := out_add_mark_text { s with allowEmpty := true } [] true rest
        simpa [out, stOf] using this
      · simp only [hps, Bool.false_eq_true, if_false]
        have hps' : ps ≠ [] := by intro h; simp [h] at hps
        cases hf : ps.foldlM (fun (s : WF) p => (expandPartQ env true p).map fun v => s.add ⟨v, true⟩)
            { s with allowEmpty := true } with
        | none => simp [hf] at hd
        | some s' =>
          simp only [hf] at hd
          obtain ⟨h1, _, h3, h4, _⟩ := hd
          simp only [Sim]
          refine ⟨fun rest => ?_, fun _ _ => Or.inr (h4 hps')⟩
          unfold out
          have hne : s'.cur ≠ [] := h4 hps'
          have hst : stOf s' = some (fieldText s.cur ++ v) := by
            unfold stOf
            have : s'.cur.isEmpty = false := by
              cases hc : s'.cur with
              | nil => exact absurd hc hne
              | cons _ _ => rfl
            simp [this, h3]
          rw [hst, h1]
          simp only [List.cons_append]
          rw [splitAtoms_mark, splitAtoms_text_some, getT_stOf]
  | unq p =>
    cases p with
    | lit raw =>
      simp only [segStep, segAtoms, Sim]
      generalize (if first = true then expandUser env raw more else ([], raw)) = pr
      refine ⟨fun rest => ?_, fun hi => ?_⟩
      · have h2 : pr.2.isEmpty = (unbackslash pr.2).isEmpty := by
          cases h : pr.2 with
          | nil => simp [unbackslash_nil]
          | cons c r =>
            have := unbackslash_ne_nil (raw := c :: r) (by simp)
            cases hu : unbackslash (c :: r) with
            | nil => exact absurd hu this
            | cons _ _ => simp
        rw [h2, out_addIf, out_addIf, List.append_assoc]
      · rw [show (pr.2.isEmpty) = (pr.2.isEmpty) from rfl]
        exact inv_addIf _ _ (inv_addIf _ _ hi)
    | param n =>
      simp only [segStep, segAtoms, Sim]
      exact ⟨fun rest => splitAdd_sim s _ rest, fun h => splitAdd_inv _ h⟩
    | paramOp n o w =>
      simp only [segStep, segAtoms, Sim]
      exact ⟨fun rest => splitAdd_sim s _ rest, fun h => splitAdd_inv _ h⟩
    | arith e =>
      simp only [segStep, segAtoms]
      cases hev : evalA env e with
      | none => simp [Sim]
      | some v =>
        simp only [Option.map_some, Sim]
        exact ⟨fun rest => out_add_text s _ false rest (Or.inl (showInt_ne_nil v)), fun _ _ => live_add _ _⟩

theorem segLoop_sim (env : Env) : ∀ (segs : List Seg) (first : Bool) (s : WF),
    Sim s (segLoop env first s segs) (wordAtoms env first segs) := by
  intro segs
  induction segs with
  | nil =>
    intro first s
    simp [segLoop, wordAtoms, Sim]
  | cons seg rest ih =>
    intro first s
    have h1 := seg_sim env first (!rest.isEmpty) s seg
    simp only [segLoop, wordAtoms]
    cases hs : segStep env first (!rest.isEmpty) s seg with
    | none =>
      cases ha : segAtoms env first (!rest.isEmpty) seg with
      | none => simp [Sim]
      | some as => simp [hs, ha, Sim] at h1
    | some s' =>
      cases ha : segAtoms env first (!rest.isEmpty) seg with
      | none => simp [hs, ha, Sim] at h1
      | some as =>
        simp only [hs, ha, Sim] at h1
        have h2 := ih false s'
        simp only [Option.bind_eq_bind, Option.bind_some]
        cases hl : segLoop env false s' rest with
        | none =>
          cases hw : wordAtoms env false rest with
          | none => simp [Sim]
          | some bs => simp [hl, hw, Sim] at h2
        | some s'' =>
          cases hw : wordAtoms env false rest with
          | none => simp [hl, hw, Sim] at h2
          | some bs =>
            simp only [hl, hw, Sim] at h2
            simp only [Option.bind_some, Option.pure_def, Sim]
            refine ⟨fun r => ?_, fun hi => h2.2 (h1.2 hi)⟩
            rw [h2.1 r, h1.1 (bs ++ r), List.append_assoc]

/-- One word: the machine of `wordFields` produces the fields the atoms split into. -/
theorem wordFields_eq_wordArgs (env : Env) (segs : List Seg) :
    wordFields env segs = wordArgs env segs := by
  have h := segLoop_sim env segs true ⟨[], [], false⟩
  unfold wordFields wordArgs
  cases hl : segLoop env true ⟨[], [], false⟩ segs with
  | none =>
    cases hw : wordAtoms env true segs with
    | none => rfl
    | some as => simp [hl, hw, Sim] at h
  | some s =>
    cases hw : wordAtoms env true segs with
    | none => simp [hl, hw, Sim] at h
    | some as =>
      simp only [hl, hw, Sim] at h
      obtain ⟨hout, hinv⟩ := h
      have hinv' : Inv s := hinv (by intro h; cases h)
      simp only [Option.map_some]
      congr 1
      -- the allowEmpty rescue never fires
      have hbr : ¬ (s.flush.allowEmpty = true ∧ s.flush.fields.isEmpty = true) := by
        rintro ⟨ha, hf⟩
        rw [allow_flush] at ha
        have hl := live_flush (hinv' ha)
        have hfe : s.flush.fields = [] := List.isEmpty_iff.mp hf
        rcases hl with hl | hl
        · exact hl hfe
        · have : stOf s.flush = none := stOf_flush s
          unfold stOf at this
          cases hc : s.flush.cur with
          | nil => exact hl hc
          | cons _ _ => simp [hc] at this
      simp only [hbr, if_false]
      have := hout []
      simp only [out, List.append_nil, splitAtoms] at this
      have hfl := fields_flush s
      unfold fieldsText at hfl this
      rw [hfl]
      cases hst : stOf s with
      | none => simp [hst, splitAtoms] at this ⊢; simpa [stOf] using this
      | some c => simp [hst, splitAtoms] at this ⊢; simpa [stOf] using this

end ShVerif.C25
