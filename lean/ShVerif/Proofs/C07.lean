/-
  C07 — the chunked byte source refines the unchunked one (helper lemmas).
-/
import ShVerif.Model.C07
import ShVerif.Proofs.L2ByteSrc
namespace ShVerif.C07
open ShVerif ShVerif.L2
set_option linter.unusedSimpArgs false

/-- The refinement relation between a state of the chunked byte source (whatever its schedule,
    with `io.EOF` delivered by a separate read) and a state of the unchunked machine. -/
structure R (s : St) (a : LSt) : Prop where
  blen_eq : s.blen = s.back.length + s.front.length
  cursor : s.bsp = s.back.length ∨ (s.front = [] ∧ s.bsp = s.blen + 1 ∧ s.r = runeEOF)
  eofW : s.eofWith = false
  errP : s.readErr = true → s.pending = []
  eofE : s.readEOF = true → s.readErr = true
  tot : s.front.length + s.pending.length ≤ s.total
  alive : a.err = none → a.rest = s.front ++ s.pending ∧ a.consumed = s.offs + s.bsp
  dead : a.err ≠ none → a.rest = [] ∧ s.front = [] ∧ s.bsp = s.blen + 1 ∧ s.r = runeEOF
  eofR : a.err = none → s.r = runeEOF → s.readErr = true ∧ s.front = []
  f_line : a.line = s.line
  f_col : a.col = s.col
  f_r : a.r = s.r
  f_w : a.w = s.w
  f_readEOF : a.readEOF = s.readEOF
  f_readErr : a.readErr = s.readErr
  f_lit : a.lit = s.lit
  f_openBq : a.openBq = s.openBq
  f_openBqDbl : a.openBqDbl = s.openBqDbl
  f_lastBqEsc : a.lastBqEsc = s.lastBqEsc
  f_err : a.err = s.err
  f_stop : a.stopPat = s.stopPat
  bufS : a.buf.isSome = s.readErr
  bufV : ∀ bl bp, a.buf = some (bl, bp) → s.blen = bl ∧ s.bsp = bp
  look : a.err = none → a.look ≤ s.front.length ∨ s.pending = []
  behind : ∀ l, a.behind = some l → s.bsp = s.back.length ∧ l <+: s.back

set_option hygiene false in
/-- split a hypothesis `h : R s a` into its fields (fixed names) -/
macro "destruct_R " h:ident : tactic =>
  `(tactic| obtain ⟨hblen, hcur, heofW, herrP, heofE, htot, halive, hdead, heofR, fl, fc, fr, fw, fre, frr,
      flit, fob, fobd, flb, ferr, fstop, hbufS, hbufV, hlook, hbehind⟩ := $h)

theorem R.bsp_le {s a} (h : R s a) (hr : s.r ≠ runeEOF) : s.bsp ≤ s.blen := by
  rcases h.cursor with hc | ⟨_, _, hc⟩
  · rw [hc, h.blen_eq]; omega
  · exact absurd hc hr

/-- `fill()` when the reader has nothing more to give (or the lexer has stopped on an error):
    nothing is read; the unchunked machine records that the end of input has been seen. -/
theorem fill_eof {s a} (h : R s a) (hb : a.behind = none)
    (hp : s.pending = [] ∨ a.err ≠ none) :
    ∃ s', s.fill = .ok (0, s') ∧ R s' a.fillE ∧ s'.front = s.front ∧ s'.pending = s.pending := by
  unfold St.fill LSt.fillE
  by_cases h1 : (s.readEOF || s.r == runeEOF) = true
  · have h1' : (a.readEOF || a.r == runeEOF) = true := by rw [h.f_readEOF, h.f_r]; exact h1
    simp only [h1, h1', if_true]
    exact ⟨s, rfl, h, rfl, rfl⟩
  · have h1' : ¬ (a.readEOF || a.r == runeEOF) = true := by rw [h.f_readEOF, h.f_r]; exact h1
    simp only [h1, h1']
    have hr : s.r ≠ runeEOF := by
      intro hh; apply h1; simp [hh]
    have hal : a.err = none := by
      cases he : a.err with
      | none => rfl
      | some e => exact absurd (h.dead (by simp [he])).2.2.2 hr
    have hpend : s.pending = [] := by
      rcases hp with hp | hp
      · exact hp
      · exact absurd hal hp
    have hle := h.bsp_le hr
    have hgt : ¬ s.bsp > s.blen := by omega
    simp only [hgt, if_false]
    by_cases h2 : s.readErr = true
    · have h2' : a.readErr = true := by rw [h.f_readErr]; exact h2
      simp only [h2, h2', if_true]
      refine ⟨_, rfl, ?_, rfl, rfl⟩
      have ha := h.alive hal
      destruct_R h
      constructor <;> simp_all
    · have h2' : ¬ a.readErr = true := by rw [h.f_readErr]; exact h2
      obtain ⟨sc, hsc⟩ := readLoop_nil (bufSize - s.front.length) s.eofWith s.sched
      simp only [h2, h2', if_false, hpend, hsc, bind_ok, pure_eq_ok]
      refine ⟨_, rfl, ?_, by simp, by simp [hpend]⟩
      have ha := h.alive hal
      destruct_R h
      constructor <;> simp_all

/-- `fill()` while the reader still has bytes: at least one byte is appended to the buffer and the
    unchunked state is unaffected. -/
theorem fill_data {s a} (h : R s a) (hb : a.behind = none) (hal : a.err = none)
    (hp : s.pending ≠ []) (hlen : s.front.length < bufSize) :
    ∃ n s', s.fill = .ok (n, s') ∧ 0 < n ∧ R s' a ∧
      ∃ chunk, chunk ≠ [] ∧ s'.front = s.front ++ chunk ∧ chunk ++ s'.pending = s.pending := by
  have hrerr : s.readErr = false := by
    cases hh : s.readErr with
    | false => rfl
    | true => exact absurd (h.errP hh) hp
  have hreof : s.readEOF = false := by
    cases hh : s.readEOF with
    | false => rfl
    | true => have := h.eofE hh; simp [hrerr] at this
  have hr : s.r ≠ runeEOF := by
    intro hh
    have := (h.eofR hal hh).1
    simp [hrerr] at this
  have hle := h.bsp_le hr
  obtain ⟨chunk, rest, sc, hrl, hne, happ, hcl⟩ :=
    readLoop_data (bufSize - s.front.length) (by omega) s.pending hp s.sched
  unfold St.fill
  have h1 : ¬ (s.readEOF || s.r == runeEOF) = true := by simp [hreof, hr]
  have hgt : ¬ s.bsp > s.blen := by omega
  simp only [h1, hgt, if_false, hrerr, h.eofW, hrl, bind_ok, pure_eq_ok]
  refine ⟨_, _, rfl, ?_, ?_, chunk, hne, rfl, happ⟩
  · cases chunk with
    | nil => exact absurd rfl hne
    | cons => simp
  · have ha := h.alive hal
    have hlen2 : s.front.length + s.pending.length = (s.front ++ chunk).length + rest.length := by
      rw [← happ]; simp; omega
    destruct_R h
    constructor <;> simp_all
    left; omega

theorem R.forget {s a} (h : R s a) : R s a.forget := by
  unfold LSt.forget
  destruct_R h
  constructor <;> simp_all <;> assumption

@[simp] theorem forget_behind (a : LSt) : a.forget.behind = none := rfl
@[simp] theorem forget_rest (a : LSt) : a.forget.rest = a.rest := rfl
@[simp] theorem forget_err (a : LSt) : a.forget.err = a.err := rfl
@[simp] theorem forget_look (a : LSt) : a.forget.look = a.look := rfl
@[simp] theorem forget_ok (a : LSt) : a.forget.ok = a.ok := rfl
@[simp] theorem forget_r (a : LSt) : a.forget.r = a.r := rfl

@[simp] theorem fillE_rest (a : LSt) : a.fillE.rest = a.rest := by
  unfold LSt.fillE; (repeat' split) <;> rfl
@[simp] theorem fillE_err (a : LSt) : a.fillE.err = a.err := by
  unfold LSt.fillE; (repeat' split) <;> rfl
@[simp] theorem fillE_look (a : LSt) : a.fillE.look = a.look := by
  unfold LSt.fillE; (repeat' split) <;> rfl
@[simp] theorem fillE_behind (a : LSt) : a.fillE.behind = a.behind := by
  unfold LSt.fillE; (repeat' split) <;> rfl
@[simp] theorem fillE_ok (a : LSt) : a.fillE.ok = a.ok := by
  unfold LSt.fillE; (repeat' split) <;> rfl
@[simp] theorem fillE_r (a : LSt) : a.fillE.r = a.r := by
  unfold LSt.fillE; (repeat' split) <;> rfl
@[simp] theorem fillE_openBq (a : LSt) : a.fillE.openBq = a.openBq := by
  unfold LSt.fillE; (repeat' split) <;> rfl

theorem R.head {s a b f} (h : R s a) (hf : s.front = b :: f) :
    a.err = none ∧ a.rest = b :: (f ++ s.pending) := by
  cases he : a.err with
  | some e => have := (h.dead (by simp [he])).2.1; simp [hf] at this
  | none => exact ⟨rfl, by rw [(h.alive he).1, hf]; rfl⟩

theorem R.front_nil {s a} (h : R s a) (hr : a.rest = []) : s.front = [] := by
  cases he : a.err with
  | some e => exact (h.dead (by simp [he])).2.1
  | none =>
    have := (h.alive he).1
    rw [hr] at this
    cases hf : s.front with
    | nil => rfl
    | cons b f => simp [hf] at this

theorem R.pending_nil {s a} (h : R s a) (hal : a.err = none) (hr : a.rest = []) : s.pending = [] := by
  have := (h.alive hal).1
  rw [hr] at this
  cases hp : s.pending with
  | nil => rfl
  | cons b f => simp [hp] at this

theorem R.setLook {s a} (h : R s a) (k : Nat)
    (hk : a.err = none → k ≤ s.front.length ∨ s.pending = []) : R s { a with look := k } := by
  destruct_R h
  constructor <;> simp_all <;> assumption

/-- the common prologue of `peek`, `zshNumRange` and `rune`: with an empty buffer, `fill()`. -/
theorem ensure1 {s a} (h : R s a) (hb : a.behind = none) (hf : s.front = []) :
    ∃ n s', s.fill = .ok (n, s') ∧ R s' (if a.rest.isEmpty then a.fillE else a) ∧
      (n = 0 ↔ a.rest = []) ∧ (a.rest ≠ [] → s'.front ≠ []) := by
  by_cases hd : a.err ≠ none ∨ s.pending = []
  · have hrest : a.rest = [] := by
      rcases hd with hd | hd
      · exact (h.dead hd).1
      · cases he : a.err with
        | some e => exact (h.dead (by simp [he])).1
        | none => rw [(h.alive he).1, hf, hd]; rfl
    obtain ⟨s', h1, h2, _, _⟩ := fill_eof h hb (by rcases hd with hd | hd; exact Or.inr hd; exact Or.inl hd)
    exact ⟨0, s', h1, by simpa [hrest] using h2, by simp [hrest], fun hh => absurd hrest hh⟩
  · have hal : a.err = none := by
      cases he : a.err with
      | none => rfl
      | some e => exact absurd (Or.inl (by simp [he])) hd
    have hp : s.pending ≠ [] := fun hh => hd (Or.inr hh)
    obtain ⟨n, s', h1, hn, h2, chunk, hne, hfr, happ⟩ := fill_data h hb hal hp (by simp [hf, bufSize])
    have hrest : a.rest ≠ [] := by
      rw [(h.alive hal).1, hf]; simpa using hp
    refine ⟨n, s', h1, ?_, ?_, ?_⟩
    · cases hr : a.rest with
      | nil => exact absurd hr hrest
      | cons x xs => simpa using h2
    · constructor
      · intro h0; omega
      · intro h0; exact absurd h0 hrest
    · intro _
      rw [hfr, hf]
      simpa using hne

/-- `peek` on an `R`-related pair, for a spec state whose `behind` is already forgotten -/
theorem peek_refines0 {s a} (h : R s a) (hb : a.behind = none) :
    ∃ s', s.peek = .ok ((match a.peekEff0.rest with | [] => runeSelf | b :: _ => b.toNat), s')
      ∧ R s' a.peekEff0 := by
  unfold St.peek LSt.peekEff0
  cases hf : s.front with
  | cons b f =>
    obtain ⟨hal, hrest⟩ := h.head hf
    refine ⟨s, by simp [hf, hrest], ?_⟩
    simp only [hrest, List.isEmpty_cons]
    apply h.setLook
    intro _
    rcases h.look hal with hl | hl
    · left; simp [hf] at hl ⊢; omega
    · right; exact hl
  | nil =>
    obtain ⟨n, s', h1, h2, h3, h4⟩ := ensure1 h hb hf
    simp only [List.isEmpty_nil, if_true, h1, map_ok, bind_ok]
    cases hr : a.rest with
    | nil =>
      have he : a.rest.isEmpty = true := by simp [hr]
      simp only [he, if_true] at h2 ⊢
      have hf' : s'.front = [] := h2.front_nil (by simp [hr])
      refine ⟨s', by simp [hf', hr], ?_⟩
      apply h2.setLook
      intro hal
      right
      exact h2.pending_nil hal (by simp [hr])
    | cons x xs =>
      have he : a.rest.isEmpty = false := by simp [hr]
      simp only [he, Bool.false_eq_true, if_false] at h2 ⊢
      have hne : s'.front ≠ [] := h4 (by simp [hr])
      cases hf' : s'.front with
      | nil => exact absurd hf' hne
      | cons b f =>
        obtain ⟨hal, hrest⟩ := h2.head hf'
        rw [hr] at hrest
        injection hrest with hx _
        refine ⟨s', by simp [hr, hx], ?_⟩
        apply h2.setLook
        intro _
        rcases h2.look hal with hl | hl
        · left; simp [hf'] at hl ⊢; omega
        · right; exact hl

theorem peek_eq (a : LSt) :
    a.peek = ((match a.forget.peekEff0.rest with | [] => runeSelf | b :: _ => b.toNat), a.forget.peekEff0) := by
  unfold LSt.peek LSt.peekEff
  cases h : a.forget.peekEff0.rest <;> simp [h]

theorem peek_refines {s a} (h : R s a) :
    ∃ s', s.peek = .ok (a.peek.1, s') ∧ R s' a.peek.2 := by
  obtain ⟨s', h1, h2⟩ := peek_refines0 h.forget (forget_behind a)
  rw [peek_eq]
  exact ⟨s', h1, h2⟩

theorem R.setOk {s a} (h : R s a) (v : Bool) : R s { a with ok := v } := by
  destruct_R h
  constructor <;> simp_all <;> assumption

theorem peekTwo_snd (a : LSt) : a.peekTwo.2.2 = a.forget.peekTwoEff0 := by
  unfold LSt.peekTwo LSt.peekTwoEff
  rcases h : a.forget.peekTwoEff0.rest with _ | ⟨b, _ | ⟨c, f⟩⟩ <;> simp [h]

theorem peekTwoEff0_two {a : LSt} {b c t} (h : a.rest = b :: c :: t) :
    a.peekTwoEff0 = { a with look := max a.look 2, ok := a.ok && (decide (a.look ≥ 1) || a.rest.isEmpty) } := by
  simp [LSt.peekTwoEff0, h]

theorem peekTwoEff0_short {a : LSt} (h : a.rest = [] ∨ ∃ b, a.rest = [b]) :
    a.peekTwoEff0 = { a.fillE with look := max a.look 2, ok := a.ok && (decide (a.look ≥ 1) || a.rest.isEmpty) } := by
  rcases h with h | ⟨b, h⟩ <;> simp [LSt.peekTwoEff0, h]

theorem peekTwoEff0_ok (a : LSt) :
    a.peekTwoEff0.ok = (a.ok && (decide (a.look ≥ 1) || a.rest.isEmpty)) := by
  unfold LSt.peekTwoEff0
  rcases a.rest with _ | ⟨b, _ | ⟨c, f⟩⟩ <;> simp

def pk1 : List Byte → Nat
  | [] => runeSelf
  | b :: _ => b.toNat
def pk2 : List Byte → Nat
  | _ :: c :: _ => c.toNat
  | _ => runeSelf

theorem peekTwoEff0_rest (a : LSt) : a.peekTwoEff0.rest = a.rest := by
  unfold LSt.peekTwoEff0
  rcases h : a.rest with _ | ⟨b, _ | ⟨c, f⟩⟩ <;> simp [h]

theorem peekTwo_1 (a : LSt) : a.peekTwo.1 = pk1 a.rest := by
  have := peekTwoEff0_rest a.forget
  unfold LSt.peekTwo LSt.peekTwoEff
  rcases h : a.rest with _ | ⟨b, _ | ⟨c, f⟩⟩ <;> simp_all [pk1]

theorem peekTwo_2 (a : LSt) : a.peekTwo.2.1 = pk2 a.rest := by
  have := peekTwoEff0_rest a.forget
  unfold LSt.peekTwo LSt.peekTwoEff
  rcases h : a.rest with _ | ⟨b, _ | ⟨c, f⟩⟩ <;> simp_all [pk2]

theorem R.setLookOk {s a} (h : R s a) (k : Nat) (v : Bool)
    (hk : a.err = none → k ≤ s.front.length ∨ s.pending = []) : R s { a with look := k, ok := v } := by
  destruct_R h
  constructor <;> simp_all <;> assumption

theorem peekTwo_refines {s a} (h : R s a) (hok : a.peekTwo.2.2.ok = true) :
    ∃ s', s.peekTwo = .ok (a.peekTwo.1, a.peekTwo.2.1, s') ∧ R s' a.peekTwo.2.2 := by
  have h0 := h.forget
  have hb := forget_behind a
  rw [peekTwo_snd, peekTwoEff0_ok] at hok
  rw [peekTwo_1, peekTwo_2, peekTwo_snd, ← forget_rest a]
  generalize a.forget = a0 at h0 hb hok ⊢
  have hok2 : a0.look ≥ 1 ∨ a0.rest = [] := by
    simp at hok
    rcases hok.2 with h1 | h1
    · left; exact h1
    · right; exact h1
  unfold St.peekTwo
  rcases hf : s.front with _ | ⟨b, _ | ⟨c, f⟩⟩
  · -- empty buffer: inside the protocol only at the end of the input
    have hrest : a0.rest = [] := by
      cases he : a0.err with
      | some e => exact (h0.dead (by simp [he])).1
      | none =>
        rcases hok2 with h1 | h1
        · rcases h0.look he with h2 | h2
          · simp [hf] at h2; omega
          · rw [(h0.alive he).1, hf, h2]; rfl
        · exact h1
    have hp : s.pending = [] ∨ a0.err ≠ none := by
      cases he : a0.err with
      | some e => right; simp
      | none => left; exact h0.pending_nil he hrest
    obtain ⟨s', h1, h2, h3, h4⟩ := fill_eof h0 hb hp
    rw [hf] at h3
    rw [peekTwoEff0_short (Or.inl hrest)]
    refine ⟨s', by simp [h1, h3, hrest, pk1, pk2], ?_⟩
    apply h2.setLookOk
    intro he
    right
    exact h2.pending_nil he (by simpa using hrest)
  · -- one byte buffered
    obtain ⟨hal, hrest⟩ := h0.head hf
    by_cases hp : s.pending = []
    · obtain ⟨s', h1, h2, h3, h4⟩ := fill_eof h0 hb (Or.inl hp)
      rw [hf] at h3
      have hrest' : a0.rest = [b] := by rw [hrest, hp]; rfl
      rw [peekTwoEff0_short (Or.inr ⟨b, hrest'⟩)]
      refine ⟨s', by simp [h1, h3, hrest', pk1, pk2], ?_⟩
      apply h2.setLookOk
      intro he
      right
      rw [h4, hp]
    · obtain ⟨n, s', h1, hn, h2, chunk, hne, hfr, happ⟩ :=
        fill_data h0 hb hal hp (by simp [hf, bufSize])
      rcases chunk with _ | ⟨c, ch⟩
      · exact absurd rfl hne
      · rw [hf] at hfr
        have hrest' : a0.rest = b :: c :: (ch ++ s'.pending) := by
          rw [hrest, ← happ]; rfl
        rw [peekTwoEff0_two hrest']
        refine ⟨s', by simp [h1, hfr, hrest', pk1, pk2], ?_⟩
        apply h2.setLookOk
        intro he
        rcases h2.look he with hl | hl
        · left; simp [hfr] at hl ⊢; omega
        · right; exact hl
  · -- two bytes buffered: no fill
    obtain ⟨hal, hrest⟩ := h0.head hf
    have hrest' : a0.rest = b :: c :: (f ++ s.pending) := hrest
    rw [peekTwoEff0_two hrest']
    refine ⟨s, by simp [hf, hrest', pk1, pk2], ?_⟩
    apply h0.setLookOk
    intro he
    rcases h0.look he with hl | hl
    · left; simp [hf] at hl ⊢; omega
    · right; exact hl

end ShVerif.C07
