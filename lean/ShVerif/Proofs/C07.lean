/-
  C07 — the chunked byte source refines the unchunked one (helper lemmas):
  the refinement relation, `fill`, `peek`, `peekTwo`.
-/
import ShVerif.Model.C07
import ShVerif.Proofs.L2ByteSrc
namespace ShVerif.C07
open ShVerif ShVerif.L2
set_option linter.unusedSimpArgs false

/-- The refinement relation between a state of the chunked byte source (whatever its schedule,
    `io.EOF` with or after the last bytes) and a state of the unchunked machine. -/
structure R (s : St) (a : LSt) : Prop where
  blen_eq : s.blen = s.back.length + s.front.length
  cursor : s.bsp = s.back.length ∨ (s.front = [] ∧ s.bsp = s.blen + 1 ∧ s.r = runeEOF)
  errP : s.readErr = true → s.pending = []
  eofE : s.readEOF = true → s.readErr = true
  tot : s.front.length + s.pending.length ≤ s.total
  stopLen : s.stopPat.length ≤ 4
  alive : a.err = none → a.rest = s.front ++ s.pending ∧ a.consumed = s.offs + s.bsp
  dead : a.err ≠ none → a.rest = [] ∧ s.front = [] ∧ s.bsp = s.blen + 1 ∧ s.r = runeEOF
  eofR : a.err = none → s.r = runeEOF → a.halted = false →
    s.pending = [] ∧ s.front = [] ∧ s.bsp = s.blen + 1
  f_line : a.line = s.line
  f_col : a.col = s.col
  f_r : a.r = s.r
  f_w : a.w = s.w
  f_lit : a.lit = s.lit
  f_openBq : a.openBq = s.openBq
  f_openBqDbl : a.openBqDbl = s.openBqDbl
  f_lastBqEsc : a.lastBqEsc = s.lastBqEsc
  f_err : a.err = s.err
  f_stop : a.stopPat = s.stopPat
  look : a.err = none → a.look ≤ s.front.length ∨ s.pending = []
  behind : ∀ l, a.behind = some l → s.bsp = s.back.length ∧ l <+: s.back

set_option hygiene false in
/-- split a hypothesis `h : R s a` into its fields (fixed names) -/
macro "destruct_R " h:ident : tactic =>
  `(tactic| obtain ⟨hblen, hcur, herrP, heofE, htot, hstopLen, halive, hdead, heofR, fl, fc, fr, fw,
      flit, fob, fobd, flb, ferr, fstop, hlook, hbehind⟩ := $h)

/-- the workhorse for goals `R s' a'` where both sides are field updates -/
macro "r_close" : tactic =>
  `(tactic| (constructor <;> simp_all <;> (try assumption) <;> (try omega)))

theorem R.bsp_le {s a} (h : R s a) (hr : s.r ≠ runeEOF) : s.bsp ≤ s.blen := by
  rcases h.cursor with hc | ⟨_, _, hc⟩
  · rw [hc, h.blen_eq]; omega
  · exact absurd hc hr

/-- `fill()` when the reader has nothing more to give (or the lexer has stopped on an error):
    nothing is read and nothing observable changes. -/
theorem fill_eof {s a} (h : R s a) (hb : a.behind = none)
    (hp : s.pending = [] ∨ a.err ≠ none) :
    ∃ s', s.fill = .ok (0, s') ∧ R s' a ∧ s'.front = s.front ∧ s'.pending = s.pending := by
  unfold St.fill
  by_cases h1 : (s.readEOF || s.r == runeEOF) = true
  · simp only [h1, if_true]
    exact ⟨s, rfl, h, rfl, rfl⟩
  · simp only [h1]
    have hr : s.r ≠ runeEOF := by
      intro hh; apply h1; simp [hh]
    have hal : a.err = none := by
      cases he : a.err with
      | none => rfl
      | some e => exact absurd (h.dead (by simp [he])).2.2.2 hr
    have hpend : s.pending = [] := by
      rcases hp with hp | hp
      · exact hp
      · exact absurd hal hp
    have hle := h.bsp_le hr
    have hgt : ¬ s.bsp > s.blen := by omega
    simp only [hgt, if_false]
    by_cases h2 : s.readErr = true
    · simp only [h2, if_true]
      refine ⟨_, rfl, ?_, rfl, rfl⟩
      have ha := h.alive hal
      destruct_R h
      r_close
    · obtain ⟨sc, hsc⟩ := readLoop_nil (bufSize - s.front.length) s.eofWith s.sched
      simp only [h2, hpend, hsc, bind_ok, pure_eq_ok]
      refine ⟨_, rfl, ?_, by simp, by simp [hpend]⟩
      have ha := h.alive hal
      destruct_R h
      r_close

/-- `fill()` while the reader still has bytes: at least one byte is appended to the buffer and the
    unchunked state is unaffected. -/
theorem fill_data {s a} (h : R s a) (hb : a.behind = none) (hal : a.err = none)
    (hh : a.halted = false) (hp : s.pending ≠ []) (hlen : s.front.length < bufSize) :
    ∃ n s', s.fill = .ok (n, s') ∧ 0 < n ∧ R s' a ∧
      ∃ chunk, chunk ≠ [] ∧ s'.front = s.front ++ chunk ∧ chunk ++ s'.pending = s.pending := by
  have hrerr : s.readErr = false := by
    cases hx : s.readErr with
    | false => rfl
    | true => exact absurd (h.errP hx) hp
  have hreof : s.readEOF = false := by
    cases hx : s.readEOF with
    | false => rfl
    | true => have := h.eofE hx; simp [hrerr] at this
  have hr : s.r ≠ runeEOF := by
    intro hx
    exact hp (h.eofR hal hx hh).1
  have hle := h.bsp_le hr
  obtain ⟨chunk, e, rest, sc, hrl, hne, happ, hcl, he⟩ :=
    readLoop_data (bufSize - s.front.length) (by omega) s.eofWith s.pending hp s.sched
  unfold St.fill
  have h1 : ¬ (s.readEOF || s.r == runeEOF) = true := by simp [hreof, hr]
  have hgt : ¬ s.bsp > s.blen := by omega
  simp only [h1, hgt, if_false, hrerr, hrl, bind_ok, pure_eq_ok]
  refine ⟨_, _, rfl, ?_, ?_, chunk, hne, rfl, happ⟩
  · cases chunk with
    | nil => exact absurd rfl hne
    | cons => simp
  · have ha := h.alive hal
    have hlen2 : s.front.length + s.pending.length = (s.front ++ chunk).length + rest.length := by
      rw [← happ]; simp; omega
    destruct_R h
    constructor <;> simp_all <;> (try assumption) <;> (try omega)

theorem R.forget {s a} (h : R s a) : R s a.forget := by
  unfold LSt.forget
  destruct_R h
  constructor <;> simp_all <;> assumption

@[simp] theorem forget_behind (a : LSt) : a.forget.behind = none := rfl
@[simp] theorem forget_rest (a : LSt) : a.forget.rest = a.rest := rfl
@[simp] theorem forget_err (a : LSt) : a.forget.err = a.err := rfl
@[simp] theorem forget_look (a : LSt) : a.forget.look = a.look := rfl
@[simp] theorem forget_ok (a : LSt) : a.forget.ok = (a.ok && !a.halted) := rfl
@[simp] theorem forget_r (a : LSt) : a.forget.r = a.r := rfl
@[simp] theorem forget_halted (a : LSt) : a.forget.halted = a.halted := rfl

theorem forget_ok_halted {a : LSt} (h : a.forget.ok = true) : a.halted = false := by
  simp at h; exact h.2
theorem forget_ok_le {a : LSt} (h : a.forget.ok = true) : a.ok = true := by
  simp at h; exact h.1

theorem R.head {s a b f} (h : R s a) (hf : s.front = b :: f) :
    a.err = none ∧ a.rest = b :: (f ++ s.pending) := by
  cases he : a.err with
  | some e => have := (h.dead (by simp [he])).2.1; simp [hf] at this
  | none => exact ⟨rfl, by rw [(h.alive he).1, hf]; rfl⟩

theorem R.front_nil {s a} (h : R s a) (hr : a.rest = []) : s.front = [] := by
  cases he : a.err with
  | some e => exact (h.dead (by simp [he])).2.1
  | none =>
    have := (h.alive he).1
    rw [hr] at this
    cases hf : s.front with
    | nil => rfl
    | cons b f => simp [hf] at this

theorem R.pending_nil {s a} (h : R s a) (hal : a.err = none) (hr : a.rest = []) : s.pending = [] := by
  have := (h.alive hal).1
  rw [hr] at this
  cases hp : s.pending with
  | nil => rfl
  | cons b f => simp [hp] at this

theorem R.setLook {s a} (h : R s a) (k : Nat)
    (hk : a.err = none → k ≤ s.front.length ∨ s.pending = []) : R s { a with look := k } := by
  destruct_R h
  constructor <;> simp_all <;> assumption

theorem R.setOk {s a} (h : R s a) (v : Bool) : R s { a with ok := v } := by
  destruct_R h
  constructor <;> simp_all <;> assumption

/-- the common prologue of `peek`, `zshNumRange` and `rune`: with an empty buffer, `fill()`. -/
theorem ensure1 {s a} (h : R s a) (hb : a.behind = none) (hh : a.halted = false) (hf : s.front = []) :
    ∃ n s', s.fill = .ok (n, s') ∧ R s' a ∧
      (n = 0 ↔ a.rest = []) ∧ (a.rest ≠ [] → s'.front ≠ []) ∧ (a.rest = [] → s'.front = []) := by
  by_cases hd : a.err ≠ none ∨ s.pending = []
  · have hrest : a.rest = [] := by
      rcases hd with hd | hd
      · exact (h.dead hd).1
      · cases he : a.err with
        | some e => exact (h.dead (by simp [he])).1
        | none => rw [(h.alive he).1, hf, hd]; rfl
    obtain ⟨s', h1, h2, h3, _⟩ := fill_eof h hb (by rcases hd with hd | hd; exact Or.inr hd; exact Or.inl hd)
    exact ⟨0, s', h1, h2, by simp [hrest], fun hx => absurd hrest hx, fun _ => by rw [h3, hf]⟩
  · have hal : a.err = none := by
      cases he : a.err with
      | none => rfl
      | some e => exact absurd (Or.inl (by simp [he])) hd
    have hp : s.pending ≠ [] := fun hx => hd (Or.inr hx)
    obtain ⟨n, s', h1, hn, h2, chunk, hne, hfr, happ⟩ := fill_data h hb hal hh hp (by simp [hf, bufSize])
    have hrest : a.rest ≠ [] := by
      rw [(h.alive hal).1, hf]; simpa using hp
    refine ⟨n, s', h1, h2, ?_, ?_, fun hx => absurd hx hrest⟩
    · constructor
      · intro h0; omega
      · intro h0; exact absurd h0 hrest
    · intro _
      rw [hfr, hf]
      simpa using hne

def pk1 : List Byte → Nat
  | [] => runeSelf
  | b :: _ => b.toNat
def pk2 : List Byte → Nat
  | _ :: c :: _ => c.toNat
  | _ => runeSelf

theorem peek_eq (a : LSt) : a.peek = (pk1 a.rest, a.forget.peekEff0) := by
  unfold LSt.peek LSt.peekEff LSt.peekEff0
  cases h : a.rest <;> simp [h, pk1]

/-- `peek` on an `R`-related pair, for a spec state whose `behind` is already forgotten -/
theorem peek_refines0 {s a} (h : R s a) (hb : a.behind = none) (hh : a.halted = false) :
    ∃ s', s.peek = .ok (pk1 a.rest, s') ∧ R s' a.peekEff0 := by
  unfold St.peek LSt.peekEff0
  cases hf : s.front with
  | cons b f =>
    obtain ⟨hal, hrest⟩ := h.head hf
    refine ⟨s, by simp [hf, hrest, pk1], ?_⟩
    apply h.setLook
    intro _
    rcases h.look hal with hl | hl
    · left; simp [hf] at hl ⊢; omega
    · right; exact hl
  | nil =>
    obtain ⟨n, s', h1, h2, h3, h4, h5⟩ := ensure1 h hb hh hf
    simp only [List.isEmpty_nil, if_true, h1, map_ok, bind_ok]
    by_cases hr : a.rest = []
    · have hf' : s'.front = [] := h5 hr
      refine ⟨s', by simp [hf', pk1, hr], ?_⟩
      apply h2.setLook
      intro hal
      right
      exact h2.pending_nil hal hr
    · have hne : s'.front ≠ [] := h4 hr
      cases hf' : s'.front with
      | nil => exact absurd hf' hne
      | cons b f =>
        obtain ⟨hal, hrest⟩ := h2.head hf'
        refine ⟨s', by simp [hrest, pk1], ?_⟩
        apply h2.setLook
        intro _
        rcases h2.look hal with hl | hl
        · left; simp [hf'] at hl ⊢; omega
        · right; exact hl

theorem peek_step {s a} (h : R s a) (hh : a.halted = false) :
    ∃ s', s.peek = .ok (pk1 a.rest, s') ∧ R s' a.forget.peekEff0 :=
  peek_refines0 h.forget (forget_behind a) hh

theorem peek_refines {s a} (h : R s a) (hok : a.peek.2.ok = true) :
    ∃ s', s.peek = .ok (a.peek.1, s') ∧ R s' a.peek.2 := by
  rw [peek_eq] at hok ⊢
  have hh : a.halted = false := by
    simp [LSt.peekEff0] at hok; exact hok.2
  exact peek_step h hh

theorem peekTwo_eq (a : LSt) : a.peekTwo = (pk1 a.rest, pk2 a.rest, a.forget.peekTwoEff0) := by
  unfold LSt.peekTwo LSt.peekTwoEff LSt.peekTwoEff0
  rcases h : a.rest with _ | ⟨b, _ | ⟨c, f⟩⟩ <;> simp [h, pk1, pk2]

theorem peekTwoFill_refines (fuel : Nat) : ∀ {s a}, R s a → a.behind = none → a.halted = false →
    3 ≤ s.front.length + fuel → 1 ≤ fuel →
    ∃ s', St.peekTwoFill fuel s = .ok s' ∧ R s' a ∧
      (2 ≤ s'.front.length ∨ s'.pending = [] ∨ a.err ≠ none) := by
  induction fuel with
  | zero => intro s a _ _ _ _ h1; omega
  | succ fuel ih =>
    intro s a h hb hh hlen _
    unfold St.peekTwoFill
    rcases hf : s.front with _ | ⟨b, _ | ⟨c, f⟩⟩
    all_goals simp only
    case cons.cons => exact ⟨s, rfl, h, Or.inl (by simp [hf])⟩
    all_goals
      by_cases hd : s.pending = [] ∨ a.err ≠ none
      · obtain ⟨s', h1, h2, h3, h4⟩ := fill_eof h hb hd
        refine ⟨s', by simp [h1], h2, ?_⟩
        rcases hd with hd | hd
        · right; left; rw [h4]; exact hd
        · right; right; exact hd
      · have hal : a.err = none := by
          cases he : a.err with
          | none => rfl
          | some e => exact absurd (Or.inr (by simp [he])) hd
        have hp : s.pending ≠ [] := fun hx => hd (Or.inl hx)
        obtain ⟨n, s', h1, hn, h2, chunk, hne, hfr, happ⟩ :=
          fill_data h hb hal hh hp (by simp [hf, bufSize])
        have hgrow : s.front.length + 1 ≤ s'.front.length := by
          rw [hfr]; cases chunk with
          | nil => exact absurd rfl hne
          | cons x t => simp
        have hn0 : (n == 0) = false := by simp; omega
        simp only [h1, bind_ok, hn0, Bool.false_eq_true, if_false]
        simp [hf] at hlen hgrow
        exact ih h2 hb hh (by omega) (by omega)

theorem R.front_two {s a} (h : R s a) (hal : a.err = none) (h2 : 2 ≤ s.front.length ∨ s.pending = []) :
    pk1 s.front = pk1 a.rest ∧ pk2 s.front = pk2 a.rest := by
  have hr := (h.alive hal).1
  rcases h2 with h2 | h2
  · rcases hf : s.front with _ | ⟨b, _ | ⟨c, f⟩⟩
    · simp [hf] at h2
    · simp [hf] at h2
    · rw [hr, hf]; simp [pk1, pk2]
  · rw [hr, h2]; simp

theorem peekTwo_step {s a} (h : R s a) (hh : a.halted = false) :
    ∃ s', s.peekTwo = .ok (pk1 a.rest, pk2 a.rest, s') ∧ R s' a.forget.peekTwoEff0 := by
  obtain ⟨s', h1, h2, h3⟩ := peekTwoFill_refines 3 h.forget (forget_behind a) hh (by omega) (by omega)
  unfold St.peekTwo
  simp only [h1, bind_ok]
  have hvals : pk1 s'.front = pk1 a.rest ∧ pk2 s'.front = pk2 a.rest := by
    cases he : a.err with
    | some e =>
      have hd := h2.dead (by simp [he])
      rw [hd.2.1]
      have : a.rest = [] := hd.1
      rw [this]; exact ⟨rfl, rfl⟩
    | none =>
      have := h2.front_two (by simpa using he) (by
        rcases h3 with h3 | h3 | h3
        · exact Or.inl h3
        · exact Or.inr h3
        · exact absurd (by simpa using he) h3)
      simpa using this
  refine ⟨s', ?_, ?_⟩
  · rw [← hvals.1, ← hvals.2]
    rcases hf : s'.front with _ | ⟨b, _ | ⟨c, f⟩⟩ <;> rfl
  unfold LSt.peekTwoEff0
  apply h2.setLook
  intro hal
  rcases h3 with h3 | h3 | h3
  · rcases h2.look hal with hl | hl
    · left; simp at hl ⊢; omega
    · right; exact hl
  · right; exact h3
  · exact absurd (by simpa using hal) h3

theorem peekTwo_refines {s a} (h : R s a) (hok : a.peekTwo.2.2.ok = true) :
    ∃ s', s.peekTwo = .ok (a.peekTwo.1, a.peekTwo.2.1, s') ∧ R s' a.peekTwo.2.2 := by
  rw [peekTwo_eq] at hok ⊢
  have hh : a.halted = false := by
    simp [LSt.peekTwoEff0] at hok; exact hok.2
  exact peekTwo_step h hh

end ShVerif.C07
