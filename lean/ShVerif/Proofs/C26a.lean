import ShVerif.Model.C26
/-
  C26 — simulation between the interpreter model (`L5.run`) and `BashSem` (`L5.Bash.sem`):
  definitions of the simulation relation and basic lemmas.  Core Lean only.
-/
namespace ShVerif.C26
open ShVerif.L5 ShVerif.L5.Bash

/-- The bash environment a runner state stands for (`$?` is `lastExit.code`). -/
def absEnv (s : St) : Env :=
  { vars := s.vars, funcs := s.funcs, errexit := s.errexit, pipefail := s.pipefail,
    trapExit := s.callbackExit, trapErr := .nil, status := s.lastExit.code, out := s.out }

/-- The same with `$?` taken from `exit` (what a command just returned). -/
def absEnvC (s : St) : Env :=
  { vars := s.vars, funcs := s.funcs, errexit := s.errexit, pipefail := s.pipefail,
    trapExit := s.callbackExit, trapErr := .nil, status := s.exit.code, out := s.out }

def fnK (e : Bool) : SCtx := { e := e, unk := true, fn := true, top := false }

theorem fnCtx_eq (K : SCtx) : fnCtx K = fnK K.e := rfl

def subK (e : Bool) : SCtx := { e := e, top := false }

theorem subCtx_eq (K : SCtx) : subCtx K = subK K.e := rfl

/-- Every defined function has a body that is supported as a function body. -/
def FuncsOk (e : Bool) (fs : List (Str × Stmt)) : Prop :=
  ∀ f b, lookupFn fs f = some b → supStmt (fnK e) b = true

/-- Facts relating the static context of a position and the dynamic context of `BashSem`. -/
structure Stat (K : SCtx) (k : Ctx) (sub : Bool) : Prop where
  kt : k.inTrap = false ∧ k.inExit = false
  kign : K.ign = true → k.ign = true
  knign : K.e = true → K.ign = false → K.unk = false → k.ign = false
  kfn : K.fn = true → k.inFunc = true
  depth : K.tl.length ≤ k.depth
  top : K.top = true → sub = false

/-- The EXIT trap: none in a subshell (traps are not inherited and `trap … EXIT` is only supported
    in the main shell), and always a simple action. -/
def CsubOk (sub : Bool) (s : St) : Prop :=
  (sub = true → s.callbackExit = .nil) ∧ simpleTrap s.callbackExit = true

/-- Facts about a runner state at a position. -/
structure Dyn (K : SCtx) (k : Ctx) (sub : Bool) (s : St) : Prop where
  cerr : s.callbackErr = .nil
  csub : CsubOk sub s
  fok : FuncsOk K.e s.funcs
  ht : s.handlingTrap = false
  eign : K.e = true → s.noErrExit = k.ign
  noe : K.e = false → s.errexit = false
  sfn : K.fn = true → s.inFunc = true
  inl : K.tl ≠ [] → s.inLoop = true

/-- What a command leaves untouched. -/
structure Frame (s s' : St) : Prop where
  ne : s'.noErrExit = s.noErrExit
  il : s'.inLoop = s.inLoop
  inf : s'.inFunc = s.inFunc

def NoFlags (s : St) : Prop := s.exit.returning = false ∧ s.exit.exiting = false

/-- `lastExit` carries no `returning`/`exiting` flag (it is copied by a bare `exit`). -/
def LastOk (s : St) : Prop := s.lastExit.returning = false ∧ s.lastExit.exiting = false

theorem LastOk_of_le {s : St} (h1 : s.lastExit = s.exit) (h2 : NoFlags s) : LastOk s := by
  unfold LastOk; rw [h1]; exact h2

def NoPending (s : St) : Prop := s.breakEnclosing = 0 ∧ s.contnEnclosing = 0

/-- The errexit test of `stmtSync` would do nothing. -/
def Quiet (s : St) : Prop := s.exit.code ≠ 0 → s.noErrExit = false → s.errexit = false

/-- `break m`/`continue m` may complete here: the `m` innermost loops are left from tail
    positions. -/
def Levels (K : SCtx) (m : Nat) : Prop :=
  1 ≤ m ∧ m ≤ K.tl.length ∧ (K.tl.take m).all id = true

/-- The relation between what the model returns (`s'`, started from `s`) and the completion
    and environment `BashSem` returns.  `le`: `lastExit = exit` holds afterwards (statements);
    `q`: the status, if non-zero, is one the errexit test would not act on. -/
def Post (K : SCtx) (k : Ctx) (sub : Bool) (le q : Prop) (s s' : St) : Flow → Env → Prop
  | .norm, e' =>
    e' = absEnvC s' ∧ Dyn K k sub s' ∧ Frame s s' ∧ NoFlags s' ∧ NoPending s' ∧
      (le → s'.lastExit = s'.exit) ∧ (q → Quiet s')
  | .brk m, e' =>
    e' = absEnvC s' ∧ Dyn K k sub s' ∧ Frame s s' ∧ NoFlags s' ∧
      s'.breakEnclosing = m ∧ s'.contnEnclosing = 0 ∧ Levels K m ∧ s'.exit.code = 0 ∧
      (le → s'.lastExit = s'.exit)
  | .cont m, e' =>
    e' = absEnvC s' ∧ Dyn K k sub s' ∧ Frame s s' ∧ NoFlags s' ∧
      s'.contnEnclosing = m ∧ s'.breakEnclosing = 0 ∧ Levels K m ∧ s'.exit.code = 0 ∧
      (le → s'.lastExit = s'.exit)
  | .ret, e' =>
    e' = absEnvC s' ∧ Dyn K k sub s' ∧ Frame s s' ∧ NoPending s' ∧
      s'.exit.returning = true ∧ K.fn = true ∧
      (le → s'.lastExit = s'.exit) ∧
      (s'.exit.exiting = true → s'.errexit = true ∧ s'.noErrExit = false ∧ s'.exit.code ≠ 0)
  | .exit, e' =>
    s'.exit.exiting = true ∧ s'.exit.returning = false ∧ e'.status = s'.exit.code ∧
      e'.out = s'.out ∧ e'.trapExit = s'.callbackExit ∧ CsubOk sub s' ∧
      s'.handlingTrap = false ∧ s'.callbackErr = .nil ∧ NoPending s' ∧ e'.vars = s'.vars

/-- Both sides run out of fuel together, or both return related results. -/
def Rel (P : St → Flow → Env → Prop) : Option St → Res → Prop
  | none, none => True
  | some s', some (fl, e') => P s' fl e'
  | _, _ => False

theorem Rel_some {P : St → Flow → Env → Prop} {s' : St} {r : Res} (h : Rel P (some s') r) :
    ∃ fl e', r = some (fl, e') ∧ P s' fl e' := by
  cases r with
  | none => exact absurd h (by simp [Rel])
  | some p => exact ⟨p.1, p.2, rfl, h⟩

theorem Rel_none {P : St → Flow → Env → Prop} {r : Res} (h : Rel P none r) : r = none := by
  cases r with
  | none => rfl
  | some p => exact absurd h (by simp [Rel])

theorem Rel_mono {P Q : St → Flow → Env → Prop} (hpq : ∀ s fl e, P s fl e → Q s fl e)
    {a : Option St} {r : Res} (h : Rel P a r) : Rel Q a r := by
  cases a with
  | none => cases r with
    | none => trivial
    | some p => exact absurd h (by simp [Rel])
  | some s' => cases r with
    | none => exact absurd h (by simp [Rel])
    | some p => exact hpq _ _ _ h

/-! ### Fuel -/

theorem run_pos {n : Nat} {t : L5.Task} {s s' : St} (h : run n t s = some s') : 1 ≤ n := by
  cases n with
  | zero => simp [run] at h
  | succ m => omega

theorem sem_pos {n : Nat} {k : Ctx} {t : Bash.Task} {e : Env} {r : Flow × Env}
    (h : sem n k t e = some r) : 1 ≤ n := by
  cases n with
  | zero => simp [sem] at h
  | succ m => omega

/-- A stopped runner skips statements. -/
theorem run_stmt_stopped {n : Nat} (hn : 1 ≤ n) (st : Stmt) (s : St) (hs : stop s = true) :
    run n (.stmt st) s = some s := by
  cases n with
  | zero => omega
  | succ m => cases st with
    | mk neg c => simp [run, hs]

theorem run_cmd_stopped {n : Nat} (hn : 1 ≤ n) (c : Cmd) (s : St) (hs : stop s = true) :
    run n (.cmd c) s = some s := by
  cases n with
  | zero => omega
  | succ m => simp [run, hs]

theorem foldStmts_fixed (f : Stmt → St → Option St) (s : St) (hf : ∀ st, f st s = some s) :
    ∀ p : Prog, foldStmts f p s = some s
  | .nil => by simp [foldStmts]
  | .cons st rest => by simp [foldStmts, hf, foldStmts_fixed f s hf rest]

theorem foldStmts_stopped {n : Nat} (hn : 1 ≤ n) (p : Prog) (s : St) (hs : stop s = true) :
    foldStmts (fun st => run n (.stmt st)) p s = some s :=
  foldStmts_fixed _ s (fun st => run_stmt_stopped hn st s hs) p

theorem stop_of_exiting {s : St} (h1 : s.exit.exiting = true) (h2 : s.handlingTrap = false) :
    stop s = true := by
  simp [stop, h1, h2]

theorem stop_of_returning {s : St} (h1 : s.exit.returning = true) (h2 : s.handlingTrap = false) :
    stop s = true := by
  simp [stop, h1, h2]

theorem not_stop {s : St} (h : NoFlags s) : stop s = false := by
  simp [stop, h.1, h.2]

/-! ### Static contexts -/

theorem headFalse_length (l : List Bool) : (headFalse l).length = l.length := by
  cases l <;> simp [headFalse]

theorem headFalse_ne_nil (l : List Bool) : headFalse l ≠ [] ↔ l ≠ [] := by
  cases l <;> simp [headFalse]

theorem not_levels_headFalse (K : SCtx) (m : Nat) :
    ¬ Levels { K with tl := headFalse K.tl } m := by
  intro ⟨h1, h2, h3⟩
  cases hk : K.tl with
  | nil => simp [hk, headFalse] at h2; omega
  | cons b r =>
    cases m with
    | zero => omega
    | succ m' => simp [hk, headFalse] at h3

theorem not_levels_nil (K : SCtx) (m : Nat) (h : K.tl = []) : ¬ Levels K m := by
  intro ⟨h1, h2, _⟩
  simp [h] at h2; omega

end ShVerif.C26
