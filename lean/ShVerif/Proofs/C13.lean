import ShVerif.Model.C13
/-
  C13 — helper lemmas for the Quote theorems (Props/C13.lean).
  Sections: UTF-8 (decode/encode), the decode loop `runes`, the two Quote loops, the `$'…'`
  escape reader `fmtEsc`, the lexer on Quote's output shapes.
-/
set_option linter.unusedSimpArgs false

namespace ShVerif.C13

/-! ## Bytes -/

theorem byte_eq_iff (b : UInt8) (n : Nat) (hn : n < 256) : b = UInt8.ofNat n ↔ b.toNat = n := by
  constructor
  · intro h; subst h; simp [UInt8.toNat_ofNat']; omega
  · intro h; subst h; simp

theorem ofNat_toNat (b : UInt8) : UInt8.ofNat b.toNat = b := UInt8.ofNat_toNat

theorem toNat_lt (b : UInt8) : b.toNat < 256 := UInt8.toNat_lt b

/-! ## UTF-8 -/

/-- `p` is the (canonical) UTF-8 encoding of the scalar value `r`. -/
def ValidEnc (p : Bytes) (r : Nat) : Prop :=
  (∃ b0 : UInt8, p = [b0] ∧ b0.toNat < 0x80 ∧ r = b0.toNat) ∨
  (∃ b0 b1 : UInt8, p = [b0, b1] ∧ 0xC2 ≤ b0.toNat ∧ b0.toNat < 0xE0 ∧
      0x80 ≤ b1.toNat ∧ b1.toNat ≤ 0xBF ∧
      r = (b0.toNat - 0xC0) * 64 + (b1.toNat - 0x80)) ∨
  (∃ b0 b1 b2 : UInt8, p = [b0, b1, b2] ∧ 0xE0 ≤ b0.toNat ∧ b0.toNat < 0xF0 ∧
      accLo b0.toNat ≤ b1.toNat ∧ b1.toNat ≤ accHi b0.toNat ∧
      0x80 ≤ b2.toNat ∧ b2.toNat ≤ 0xBF ∧
      r = (b0.toNat - 0xE0) * 4096 + (b1.toNat - 0x80) * 64 + (b2.toNat - 0x80)) ∨
  (∃ b0 b1 b2 b3 : UInt8, p = [b0, b1, b2, b3] ∧ 0xF0 ≤ b0.toNat ∧ b0.toNat < 0xF5 ∧
      accLo b0.toNat ≤ b1.toNat ∧ b1.toNat ≤ accHi b0.toNat ∧
      0x80 ≤ b2.toNat ∧ b2.toNat ≤ 0xBF ∧ 0x80 ≤ b3.toNat ∧ b3.toNat ≤ 0xBF ∧
      r = (b0.toNat - 0xF0) * 262144 + (b1.toNat - 0x80) * 4096 + (b2.toNat - 0x80) * 64 +
        (b3.toNat - 0x80))


theorem ValidEnc.cases {p : Bytes} {r : Nat} (h : ValidEnc p r) {C : Prop}
    (c1 : ∀ b0 : UInt8, p = [b0] → b0.toNat < 0x80 → r = b0.toNat → C)
    (c2 : ∀ b0 b1 : UInt8, p = [b0, b1] → 0xC2 ≤ b0.toNat → b0.toNat < 0xE0 →
      0x80 ≤ b1.toNat → b1.toNat ≤ 0xBF → r = (b0.toNat - 0xC0) * 64 + (b1.toNat - 0x80) → C)
    (c3 : ∀ b0 b1 b2 : UInt8, p = [b0, b1, b2] → 0xE0 ≤ b0.toNat → b0.toNat < 0xF0 →
      accLo b0.toNat ≤ b1.toNat → b1.toNat ≤ accHi b0.toNat →
      0x80 ≤ b2.toNat → b2.toNat ≤ 0xBF →
      r = (b0.toNat - 0xE0) * 4096 + (b1.toNat - 0x80) * 64 + (b2.toNat - 0x80) → C)
    (c4 : ∀ b0 b1 b2 b3 : UInt8, p = [b0, b1, b2, b3] → 0xF0 ≤ b0.toNat → b0.toNat < 0xF5 →
      accLo b0.toNat ≤ b1.toNat → b1.toNat ≤ accHi b0.toNat →
      0x80 ≤ b2.toNat → b2.toNat ≤ 0xBF → 0x80 ≤ b3.toNat → b3.toNat ≤ 0xBF →
      r = (b0.toNat - 0xF0) * 262144 + (b1.toNat - 0x80) * 4096 + (b2.toNat - 0x80) * 64 +
        (b3.toNat - 0x80) → C) : C := by
  unfold ValidEnc at h
  rcases h with h | h | h | h
  · obtain ⟨b0, a, b, c⟩ := h; exact c1 b0 a b c
  · obtain ⟨b0, b1, a, b, c, d, e, f⟩ := h; exact c2 b0 b1 a b c d e f
  · obtain ⟨b0, b1, b2, a, b, c, d, e, f, g, i⟩ := h; exact c3 b0 b1 b2 a b c d e f g i
  · obtain ⟨b0, b1, b2, b3, a, b, c, d, e, f, g, i, j, k⟩ := h
    exact c4 b0 b1 b2 b3 a b c d e f g i j k

/-- Every decode step either reports an invalid byte (≥ 0x80, width 1) or consumes a valid
    encoding of the rune it returns. -/
theorem decode_cases (s0 : UInt8) (rest : Bytes) :
    (decodeRune (s0 :: rest) = (runeError, 1) ∧ 0x80 ≤ s0.toNat) ∨
    ∃ p tl, s0 :: rest = p ++ tl ∧ ValidEnc p (decodeRune (s0 :: rest)).1 ∧
      (decodeRune (s0 :: rest)).2 = p.length := by
  unfold decodeRune
  simp only
  split
  · right; exact ⟨[s0], rest, rfl, Or.inl ⟨s0, rfl, by assumption, rfl⟩, rfl⟩
  · split
    · left; exact ⟨rfl, by omega⟩
    · split
      · split
        · rename_i s1 tl
          split
          · right
            refine ⟨[s0, s1], tl, rfl, Or.inr (Or.inl ⟨s0, s1, rfl, ?_⟩), rfl⟩
            omega
          · left; exact ⟨rfl, by omega⟩
        · left; exact ⟨rfl, by omega⟩
      · split
        · split
          · rename_i s1 s2 tl
            split
            · split
              · right
                refine ⟨[s0, s1, s2], tl, rfl, Or.inr (Or.inr (Or.inl ⟨s0, s1, s2, rfl, ?_⟩)), rfl⟩
                omega
              · left; exact ⟨rfl, by omega⟩
            · left; exact ⟨rfl, by omega⟩
          · left; exact ⟨rfl, by omega⟩
        · split
          · split
            · rename_i s1 s2 s3 tl
              split
              · split
                · split
                  · right
                    refine ⟨[s0, s1, s2, s3], tl, rfl,
                      Or.inr (Or.inr (Or.inr ⟨s0, s1, s2, s3, rfl, ?_⟩)), rfl⟩
                    omega
                  · left; exact ⟨rfl, by omega⟩
                · left; exact ⟨rfl, by omega⟩
              · left; exact ⟨rfl, by omega⟩
            · left; exact ⟨rfl, by omega⟩
          · left; exact ⟨rfl, by omega⟩

/-- Decoding depends only on the bytes of a valid encoding. -/
theorem decode_valid {p : Bytes} {r : Nat} (h : ValidEnc p r) (tl : Bytes) :
    decodeRune (p ++ tl) = (r, p.length) := by
  refine h.cases ?_ ?_ ?_ ?_
  · intro b0 hp h1 er; subst hp
    simp [decodeRune, h1, er]
  · intro b0 b1 hp h1 h2 h3 h4 er; subst hp
    have a1 : ¬ b0.toNat < 0x80 := by omega
    have a2 : ¬ b0.toNat < 0xC2 := by omega
    simp [decodeRune, a1, a2, h2, h3, h4, er]
  · intro b0 b1 b2 hp h1 h2 h3 h4 h5 h6 er; subst hp
    have a1 : ¬ b0.toNat < 0x80 := by omega
    have a2 : ¬ b0.toNat < 0xC2 := by omega
    have a3 : ¬ b0.toNat < 0xE0 := by omega
    simp [decodeRune, a1, a2, a3, h2, h3, h4, h5, h6, er]
  · intro b0 b1 b2 b3 hp h1 h2 h3 h4 h5 h6 h7 h8 er; subst hp
    have a1 : ¬ b0.toNat < 0x80 := by omega
    have a2 : ¬ b0.toNat < 0xC2 := by omega
    have a3 : ¬ b0.toNat < 0xE0 := by omega
    have a4 : ¬ b0.toNat < 0xF0 := by omega
    simp [decodeRune, a1, a2, a3, a4, h2, h3, h4, h5, h6, h7, h8, er]

theorem accLo_ge (b : Nat) : 0x80 ≤ accLo b := by
  unfold accLo; split
  · omega
  · split <;> omega
theorem accHi_le (b : Nat) : accHi b ≤ 0xBF := by
  unfold accHi; split
  · omega
  · split <;> omega

/-- `WriteRune` of a decoded rune gives back the bytes it was decoded from. -/
theorem encode_valid {p : Bytes} {r : Nat} (h : ValidEnc p r) : encodeRune r = p := by
  refine h.cases ?_ ?_ ?_ ?_
  · intro b0 hp h1 er; subst hp
    simp [encodeRune, h1, er]
  · intro b0 b1 hp h1 h2 h3 h4 er; subst hp
    have e1 : ¬ r < 0x80 := by omega
    have e2 : r < 0x800 := by omega
    have e3 : 0xC0 + r / 64 = b0.toNat := by omega
    have e4 : 0x80 + r % 64 = b1.toNat := by omega
    simp only [encodeRune, e1, e2, if_true, if_false, e3, e4, ofNat_toNat]
  · intro b0 b1 b2 hp h1 h2 h3 h4 h5 h6 er; subst hp
    have l1 := accLo_ge b0.toNat
    have l2 := accHi_le b0.toNat
    have l3 : b0.toNat = 0xE0 → 0xA0 ≤ b1.toNat := by intro e; simp [accLo, e] at h3; exact h3
    have l4 : b0.toNat = 0xED → b1.toNat ≤ 0x9F := by intro e; simp [accHi, e] at h4; exact h4
    have e1 : ¬ r < 0x80 := by omega
    have e2 : ¬ r < 0x800 := by omega
    have e3 : ¬ (r > maxRune ∨ (0xD800 ≤ r ∧ r ≤ 0xDFFF)) := by unfold maxRune; omega
    have e4 : r < 0x10000 := by omega
    have e5 : 0xE0 + r / 4096 = b0.toNat := by omega
    have e6 : 0x80 + r / 64 % 64 = b1.toNat := by omega
    have e7 : 0x80 + r % 64 = b2.toNat := by omega
    simp only [encodeRune, e1, e2, e3, e4, if_true, if_false, e5, e6, e7, ofNat_toNat]
  · intro b0 b1 b2 b3 hp h1 h2 h3 h4 h5 h6 h7 h8 er; subst hp
    have l1 := accLo_ge b0.toNat
    have l2 := accHi_le b0.toNat
    have l3 : b0.toNat = 0xF0 → 0x90 ≤ b1.toNat := by intro e; simp [accLo, e] at h3; exact h3
    have l4 : b0.toNat = 0xF4 → b1.toNat ≤ 0x8F := by intro e; simp [accHi, e] at h4; exact h4
    have e1 : ¬ r < 0x80 := by omega
    have e2 : ¬ r < 0x800 := by omega
    have e3 : ¬ (r > maxRune ∨ (0xD800 ≤ r ∧ r ≤ 0xDFFF)) := by unfold maxRune; omega
    have e4 : ¬ r < 0x10000 := by omega
    have e5 : 0xF0 + r / 262144 = b0.toNat := by omega
    have e6 : 0x80 + r / 4096 % 64 = b1.toNat := by omega
    have e7 : 0x80 + r / 64 % 64 = b2.toNat := by omega
    have e8 : 0x80 + r % 64 = b3.toNat := by omega
    simp only [encodeRune, e1, e2, e3, e4, if_false, e5, e6, e7, e8, ofNat_toNat]

theorem valid_le_maxRune {p : Bytes} {r : Nat} (h : ValidEnc p r) : r ≤ maxRune := by
  unfold maxRune
  refine h.cases ?_ ?_ ?_ ?_
  · intro b0 hp h1 er; subst hp
    omega
  · intro b0 b1 hp h1 h2 h3 h4 er; subst hp
    omega
  · intro b0 b1 b2 hp h1 h2 h3 h4 h5 h6 er; subst hp
    have l2 := accHi_le b0.toNat; omega
  · intro b0 b1 b2 b3 hp h1 h2 h3 h4 h5 h6 h7 h8 er; subst hp
    have l2 := accHi_le b0.toNat
    have l4 : b0.toNat = 0xF4 → b1.toNat ≤ 0x8F := by intro e; simp [accHi, e] at h4; exact h4
    omega

/-- ASCII runes are one byte; all bytes of a longer encoding are ≥ 0x80. -/
theorem valid_ascii {p : Bytes} {r : Nat} (h : ValidEnc p r) (hr : r < 0x80) :
    ∃ b : UInt8, p = [b] ∧ b.toNat = r := by
  refine h.cases ?_ ?_ ?_ ?_
  · intro b0 hp h1 er; subst hp
    exact ⟨b0, rfl, er.symm⟩
  · intro b0 b1 hp h1 h2 h3 h4 er; subst hp
    omega
  · intro b0 b1 b2 hp h1 h2 h3 h4 h5 h6 er; subst hp
    have l1 := accLo_ge b0.toNat
    have l3 : b0.toNat = 0xE0 → 0xA0 ≤ b1.toNat := by intro e; simp [accLo, e] at h3; exact h3
    omega
  · intro b0 b1 b2 b3 hp h1 h2 h3 h4 h5 h6 h7 h8 er; subst hp
    have l1 := accLo_ge b0.toNat
    have l3 : b0.toNat = 0xF0 → 0x90 ≤ b1.toNat := by intro e; simp [accLo, e] at h3; exact h3
    omega

theorem valid_high {p : Bytes} {r : Nat} (h : ValidEnc p r) (hr : 0x80 ≤ r) :
    ∀ b ∈ p, 0x80 ≤ b.toNat := by
  have l1 := fun b => accLo_ge b
  refine h.cases ?_ ?_ ?_ ?_
  · intro b0 hp h1 er; subst hp
    omega
  · intro b0 b1 hp h1 h2 h3 h4 er; subst hp
    intro b hb; simp at hb; rcases hb with rfl | rfl <;> omega
  · intro b0 b1 b2 hp h1 h2 h3 h4 h5 h6 er; subst hp
    intro b hb; simp at hb; have := l1 b0.toNat; rcases hb with rfl | rfl | rfl <;> omega
  · intro b0 b1 b2 b3 hp h1 h2 h3 h4 h5 h6 h7 h8 er; subst hp
    intro b hb; simp at hb; have := l1 b0.toNat; rcases hb with rfl | rfl | rfl | rfl <;> omega

theorem valid_ne_nil {p : Bytes} {r : Nat} (h : ValidEnc p r) : p ≠ [] := by
  refine h.cases ?_ ?_ ?_ ?_ <;> (intros; subst_vars; simp)

/-! ## The decode loop -/

theorem decode_size (s0 : UInt8) (rest : Bytes) :
    1 ≤ (decodeRune (s0 :: rest)).2 ∧ (decodeRune (s0 :: rest)).2 ≤ rest.length + 1 := by
  rcases decode_cases s0 rest with ⟨h, _⟩ | ⟨p, tl, hs, hv, hl⟩
  · rw [h]; simp
  · have hne := valid_ne_nil hv
    have : (s0 :: rest).length = p.length + tl.length := by rw [hs]; simp
    simp at this
    rw [hl]
    cases p with
    | nil => exact absurd rfl hne
    | cons a p' => simp at this ⊢; omega

theorem runesF_fuel2 : ∀ (n m : Nat) (s : Bytes), s.length ≤ n → s.length ≤ m →
    runesF n s = runesF m s := by
  intro n
  induction n with
  | zero => intro m s h _; cases s with
    | nil => cases m <;> rfl
    | cons a t => simp at h
  | succ n ih =>
    intro m s h hm
    cases s with
    | nil => cases m <;> rfl
    | cons s0 rest =>
      cases m with
      | zero => simp at hm
      | succ m =>
        have hd := decode_size s0 rest
        have hlen : ((s0 :: rest).drop (decodeRune (s0 :: rest)).2).length ≤ rest.length := by
          simp only [List.length_drop, List.length_cons]; omega
        simp only [runesF]
        simp only [List.length_cons] at h hm
        rw [ih m _ (by omega) (by omega)]

theorem runesF_fuel (n : Nat) (s : Bytes) (h : s.length ≤ n) : runesF n s = runesF s.length s :=
  runesF_fuel2 n s.length s h (Nat.le_refl _)

theorem runes_nil : runes [] = [] := rfl

theorem runes_cons (s0 : UInt8) (rest : Bytes) :
    runes (s0 :: rest) =
      ⟨(decodeRune (s0 :: rest)).1, (decodeRune (s0 :: rest)).2,
        (s0 :: rest).take (decodeRune (s0 :: rest)).2⟩ ::
        runes ((s0 :: rest).drop (decodeRune (s0 :: rest)).2) := by
  have hd := decode_size s0 rest
  have hlen : ((s0 :: rest).drop (decodeRune (s0 :: rest)).2).length ≤ rest.length := by
    simp only [List.length_drop, List.length_cons]; omega
  unfold runes
  simp only [List.length_cons, runesF]
  rw [runesF_fuel _ _ hlen]

/-- What one decode step yields: an invalid byte, or a valid encoding. -/
def TokOK (t : Tok) : Prop :=
  (t.r = runeError ∧ t.size = 1 ∧ ∃ b : UInt8, t.raw = [b] ∧ 0x80 ≤ b.toNat) ∨
  (ValidEnc t.raw t.r ∧ t.size = t.raw.length)

theorem runes_valid_append {p : Bytes} {r : Nat} (h : ValidEnc p r) (tl : Bytes) :
    runes (p ++ tl) = ⟨r, p.length, p⟩ :: runes tl := by
  have hne := valid_ne_nil h
  cases p with
  | nil => exact absurd rfl hne
  | cons a p' =>
    have hd := decode_valid h tl
    rw [List.cons_append] at hd ⊢
    rw [runes_cons, hd]
    simp

theorem runes_invalid {s0 : UInt8} {rest : Bytes}
    (h : decodeRune (s0 :: rest) = (runeError, 1)) :
    runes (s0 :: rest) = ⟨runeError, 1, [s0]⟩ :: runes rest := by
  rw [runes_cons, h]; simp

/-- The decode loop partitions the string into well-formed steps. -/
theorem runes_spec : ∀ (n : Nat) (s : Bytes), s.length ≤ n →
    (∀ t ∈ runes s, TokOK t) ∧ (runes s).flatMap Tok.raw = s := by
  intro n
  induction n with
  | zero => intro s h; cases s with
    | nil => simp [runes_nil]
    | cons a t => simp at h
  | succ n ih =>
    intro s h
    cases s with
    | nil => simp [runes_nil]
    | cons s0 rest =>
      rcases decode_cases s0 rest with ⟨hd, hb⟩ | ⟨p, tl, hs, hv, hl⟩
      · rw [runes_invalid hd]
        obtain ⟨i1, i2⟩ := ih rest (by simp at h; omega)
        refine ⟨?_, ?_⟩
        · intro t ht
          rcases List.mem_cons.mp ht with rfl | ht
          · exact Or.inl ⟨rfl, rfl, s0, rfl, hb⟩
          · exact i1 t ht
        · simp [i2]
      · generalize (decodeRune (s0 :: rest)).1 = r at hv
        have hne := valid_ne_nil hv
        have hlen : tl.length ≤ n := by
          have : (s0 :: rest).length = p.length + tl.length := by rw [hs]; simp
          cases p with
          | nil => exact absurd rfl hne
          | cons a p' => simp at this h; omega
        obtain ⟨i1, i2⟩ := ih tl hlen
        rw [hs, runes_valid_append hv tl]
        refine ⟨?_, ?_⟩
        · intro t ht
          rcases List.mem_cons.mp ht with rfl | ht
          · exact Or.inr ⟨hv, rfl⟩
          · exact i1 t ht
        · simp [i2]

theorem runes_ok (s : Bytes) : ∀ t ∈ runes s, TokOK t := (runes_spec s.length s (Nat.le_refl _)).1
theorem runes_join (s : Bytes) : (runes s).flatMap Tok.raw = s :=
  (runes_spec s.length s (Nat.le_refl _)).2

/-! ## The loops of Quote -/

theorem tok_le_maxRune {t : Tok} (h : TokOK t) : t.r ≤ maxRune := by
  rcases h with ⟨h, _⟩ | ⟨h, _⟩
  · rw [h]; decide
  · exact valid_le_maxRune h

/-- Which arm of the `$'…'` loop body ran, with the conditions that led there. -/
inductive PieceSpec (l : Lang) (last : Bool) (t : Tok) : Except ErrKind (Bytes × Bool) → Prop
  | bsq : (t.r = 0x27 ∨ t.r = 0x5c) → PieceSpec l last t (.ok (0x5c :: encodeRune t.r, false))
  | printable : ¬(t.r = 0x27 ∨ t.r = 0x5c) → isPrint t.r = true → t.r ≠ runeError →
      PieceSpec l last t (.ok ((if last && isHexRune t.r then [0x27, 0x24, 0x27] else []) ++
        encodeRune t.r, false))
  | ctl (c : UInt8) : ¬(isPrint t.r = true ∧ t.r ≠ runeError) → ctlLetter t.r = some c →
      PieceSpec l last t (.ok ([0x5c, c], false))
  | hexByte : ¬(t.r = 0x27 ∨ t.r = 0x5c) → ¬(isPrint t.r = true ∧ t.r ≠ runeError) →
      ctlLetter t.r = none → (t.r < 0x80 ∨ (t.r = runeError ∧ t.size = 1)) →
      PieceSpec l last t (.ok ([0x5c, 0x78] ++ hex2 (t.raw.headD 0).toNat, langIn l langMksh))
  | range : t.r > maxRune → PieceSpec l last t (.error .range)
  | mksh : ¬(isPrint t.r = true ∧ t.r ≠ runeError) → langIn l langMksh = true → t.r > 0xFFFD →
      PieceSpec l last t (.error .mksh)
  | u4 : ¬(isPrint t.r = true ∧ t.r ≠ runeError) → ¬(t.r < 0x80 ∨ (t.r = runeError ∧ t.size = 1)) →
      ¬(langIn l langMksh = true ∧ t.r > 0xFFFD) → t.r < 0x10000 →
      PieceSpec l last t (.ok ([0x5c, 0x75] ++ hex4 t.r, false))
  | u8 : ¬(isPrint t.r = true ∧ t.r ≠ runeError) → ¬ t.r > maxRune →
      ¬(langIn l langMksh = true ∧ t.r > 0xFFFD) → ¬ t.r < 0x10000 →
      PieceSpec l last t (.ok ([0x5c, 0x55] ++ hex8 t.r, false))

theorem piece_spec (l : Lang) (last : Bool) (t : Tok) : PieceSpec l last t (piece l last t) := by
  unfold piece
  split
  · exact .bsq ‹_›
  · split
    · rename_i h; exact .printable ‹_› h.1 h.2
    · split
      · exact .ctl _ ‹_› ‹_›
      · split
        · exact .hexByte ‹_› ‹_› ‹_› ‹_›
        · split
          · exact .range ‹_›
          · split
            · rename_i h; exact .mksh ‹_› h.1 h.2
            · split
              · exact .u4 ‹_› ‹_› ‹_› ‹_›
              · exact .u8 ‹_› ‹_› ‹_› ‹_›

theorem piece_error_iff (l : Lang) (last : Bool) (t : Tok) (k : ErrKind) (h : TokOK t) :
    piece l last t = .error k ↔
      (k = .mksh ∧ langIn l langMksh = true ∧ t.r > 0xFFFD ∧ isPrint t.r = false) := by
  have hm := tok_le_maxRune h
  have hs := piece_spec l last t
  generalize piece l last t = res at hs
  cases hs with
  | bsq c => constructor
             · intro e; cases e
             · rintro ⟨_, _, h3, _⟩; omega
  | printable c1 c2 c3 => constructor
                          · intro e; cases e
                          · rintro ⟨_, _, _, h4⟩; rw [c2] at h4; cases h4
  | ctl c c1 c2 => constructor
                   · intro e; cases e
                   · rintro ⟨_, _, h3, _⟩
                     unfold ctlLetter at c2
                     repeat' (split at c2)
                     all_goals first | omega | cases c2
  | hexByte c1 c2 c3 c4 => constructor
                           · intro e; cases e
                           · rintro ⟨_, _, h3, _⟩; unfold runeError at c4; omega
  | range c => omega
  | mksh c1 c2 c3 =>
    constructor
    · intro e; cases e
      refine ⟨rfl, c2, c3, ?_⟩
      have : t.r ≠ runeError := by unfold runeError; omega
      cases hq : isPrint t.r
      · rfl
      · exact absurd ⟨hq, this⟩ c1
    · rintro ⟨rfl, _⟩; rfl
  | u4 c1 c2 c3 c4 => constructor
                      · intro e; cases e
                      · rintro ⟨_, h2, h3, _⟩; exact absurd ⟨h2, h3⟩ c3
  | u8 c1 c2 c3 c4 => constructor
                      · intro e; cases e
                      · rintro ⟨_, h2, h3, _⟩; exact absurd ⟨h2, h3⟩ c3

theorem scan_ok (l : Lang) : ∀ (ts : List Tok) (offs : Nat) (sc np sc' np' : Bool),
    scan l ts offs sc np = .ok (sc', np') →
    (∀ t ∈ ts, t.r ≠ 0 ∧ (langIn l langPOSIX = true → nonPrint t.r = false)) ∧
    sc' = (sc || ts.any fun t => isShellChar t.r) ∧
    np' = (np || ts.any fun t => nonPrint t.r) := by
  intro ts
  induction ts with
  | nil => intro offs sc np sc' np' h; simp only [scan] at h; cases h; simp
  | cons t ts ih =>
    intro offs sc np sc' np' h
    by_cases c0 : t.r = 0
    · simp only [scan, c0, ↓reduceIte] at h; cases h
    by_cases c1 : nonPrint t.r = true
    · by_cases c2 : langIn l langPOSIX = true
      · simp only [scan, c0, c1, c2, ↓reduceIte] at h; cases h
      · simp only [scan, c0, c1, c2, ↓reduceIte] at h
        obtain ⟨i1, i2, i3⟩ := ih _ _ _ _ _ h
        refine ⟨?_, ?_, ?_⟩
        · intro t' ht'
          rcases List.mem_cons.mp ht' with rfl | ht'
          · exact ⟨c0, fun hp => absurd hp c2⟩
          · exact i1 t' ht'
        · rw [i2]; simp [Bool.or_assoc]
        · rw [i3]; simp [c1]
    · simp only [scan, c0, c1, ↓reduceIte] at h
      obtain ⟨i1, i2, i3⟩ := ih _ _ _ _ _ h
      refine ⟨?_, ?_, ?_⟩
      · intro t' ht'
        rcases List.mem_cons.mp ht' with rfl | ht'
        · exact ⟨c0, fun _ => by simpa using c1⟩
        · exact i1 t' ht'
      · rw [i2]; simp [Bool.or_assoc]
      · rw [i3]; have : nonPrint t.r = false := by simpa using c1
        simp [this]

theorem scan_error (l : Lang) : ∀ (ts : List Tok) (offs : Nat) (sc np : Bool) (e : QErr),
    scan l ts offs sc np = .error e →
    (e.kind = .null ∧ ∃ t ∈ ts, t.r = 0) ∨
    (e.kind = .posix ∧ langIn l langPOSIX = true ∧ ∃ t ∈ ts, nonPrint t.r = true) := by
  intro ts
  induction ts with
  | nil => intro offs sc np e h; simp only [scan] at h; cases h
  | cons t ts ih =>
    intro offs sc np e h
    by_cases c0 : t.r = 0
    · simp only [scan, c0, ↓reduceIte] at h; cases h
      exact Or.inl ⟨rfl, t, List.mem_cons_self .., c0⟩
    have lift : ((e.kind = .null ∧ ∃ t ∈ ts, t.r = 0) ∨
        (e.kind = .posix ∧ langIn l langPOSIX = true ∧ ∃ t ∈ ts, nonPrint t.r = true)) →
        ((e.kind = .null ∧ ∃ t' ∈ t :: ts, t'.r = 0) ∨
        (e.kind = .posix ∧ langIn l langPOSIX = true ∧ ∃ t' ∈ t :: ts, nonPrint t'.r = true)) := by
      rintro (⟨a, t', m, b⟩ | ⟨a, a', t', m, b⟩)
      · exact Or.inl ⟨a, t', List.mem_cons_of_mem _ m, b⟩
      · exact Or.inr ⟨a, a', t', List.mem_cons_of_mem _ m, b⟩
    by_cases c1 : nonPrint t.r = true
    · by_cases c2 : langIn l langPOSIX = true
      · simp only [scan, c0, c1, c2, ↓reduceIte] at h; cases h
        exact Or.inr ⟨rfl, c2, t, List.mem_cons_self .., c1⟩
      · simp only [scan, c0, c1, c2, ↓reduceIte] at h
        exact lift (ih _ _ _ _ h)
    · simp only [scan, c0, c1, ↓reduceIte] at h
      exact lift (ih _ _ _ _ h)

/-- A failing first loop ⇔ some rune is NUL, or (POSIX) non-printable. -/
theorem scan_error_iff (l : Lang) (ts : List Tok) (offs : Nat) (sc np : Bool) :
    (∃ e, scan l ts offs sc np = .error e) ↔
      ∃ t ∈ ts, t.r = 0 ∨ (langIn l langPOSIX = true ∧ nonPrint t.r = true) := by
  constructor
  · rintro ⟨e, h⟩
    rcases scan_error l ts offs sc np e h with ⟨_, t, m, b⟩ | ⟨_, a, t, m, b⟩
    · exact ⟨t, m, Or.inl b⟩
    · exact ⟨t, m, Or.inr ⟨a, b⟩⟩
  · rintro ⟨t, m, ht⟩
    cases hres : scan l ts offs sc np with
    | error e => exact ⟨e, rfl⟩
    | ok r =>
      obtain ⟨sc', np'⟩ := r
      obtain ⟨i1, _, _⟩ := scan_ok l ts offs sc np sc' np' hres
      obtain ⟨j1, j2⟩ := i1 t m
      rcases ht with h0 | ⟨hp, hn⟩
      · exact absurd h0 j1
      · rw [j2 hp] at hn; cases hn

theorem dollar_error (l : Lang) : ∀ (ts : List Tok) (offs : Nat) (last : Bool) (e : QErr),
    (∀ t ∈ ts, TokOK t) → dollarBody l ts offs last = .error e →
    e.kind = .mksh ∧ langIn l langMksh = true ∧ ∃ t ∈ ts, t.r > 0xFFFD ∧ isPrint t.r = false := by
  intro ts
  induction ts with
  | nil => intro offs last e _ h; simp only [dollarBody] at h; cases h
  | cons t ts ih =>
    intro offs last e hok h
    simp only [dollarBody] at h
    cases hp : piece l last t with
    | error k =>
      rw [hp] at h; simp only at h; cases h
      obtain ⟨rfl, a, b, c⟩ := (piece_error_iff l last t k (hok t (List.mem_cons_self ..))).mp hp
      exact ⟨rfl, a, t, List.mem_cons_self .., b, c⟩
    | ok r =>
      obtain ⟨p, nxt⟩ := r
      rw [hp] at h; simp only at h
      cases hd : dollarBody l ts (offs + t.size) nxt with
      | error e' =>
        rw [hd] at h; simp only at h; cases h
        obtain ⟨a, b, t', m, c⟩ := ih _ _ _ (fun t' m => hok t' (List.mem_cons_of_mem _ m)) hd
        exact ⟨a, b, t', List.mem_cons_of_mem _ m, c⟩
      | ok rest => rw [hd] at h; simp only at h; cases h

theorem dollar_ok (l : Lang) : ∀ (ts : List Tok) (offs : Nat) (last : Bool) (body : Bytes),
    (∀ t ∈ ts, TokOK t) → dollarBody l ts offs last = .ok body →
    ∀ t ∈ ts, ¬(langIn l langMksh = true ∧ t.r > 0xFFFD ∧ isPrint t.r = false) := by
  intro ts
  induction ts with
  | nil => intro offs last body _ _ t m; cases m
  | cons t ts ih =>
    intro offs last body hok h
    simp only [dollarBody] at h
    cases hp : piece l last t with
    | error k => rw [hp] at h; simp only at h; cases h
    | ok r =>
      obtain ⟨p, nxt⟩ := r
      rw [hp] at h; simp only at h
      cases hd : dollarBody l ts (offs + t.size) nxt with
      | error e' => rw [hd] at h; simp only at h; cases h
      | ok rest =>
        intro t' m
        rcases List.mem_cons.mp m with rfl | m
        · intro ⟨a, b, c⟩
          have := (piece_error_iff l last t' .mksh (hok t' (List.mem_cons_self ..))).mpr ⟨rfl, a, b, c⟩
          rw [hp] at this; cases this
        · exact ih _ _ _ (fun t' m => hok t' (List.mem_cons_of_mem _ m)) hd t' m

theorem tok_zero_iff {t : Tok} (h : TokOK t) : t.r = 0 ↔ (0 : UInt8) ∈ t.raw := by
  rcases h with ⟨h1, _, b, h3, h4⟩ | ⟨hv, _⟩
  · rw [h1, h3]
    constructor
    · intro e; cases e
    · intro m; simp at m; subst m; simp at h4
  · by_cases hr : t.r < 0x80
    · obtain ⟨b, hb, hbr⟩ := valid_ascii hv hr
      rw [hb]
      constructor
      · intro e; rw [e] at hbr
        have : b = 0 := by apply UInt8.toNat_inj.mp; simpa using hbr
        simp [this]
      · intro m; simp at m; subst m; simpa using hbr.symm
    · constructor
      · intro e; omega
      · intro m; have := valid_high hv (by omega) 0 m; simp at this

theorem contains_zero_iff (s : Bytes) : s.contains 0 = true ↔ ∃ t ∈ runes s, t.r = 0 := by
  have hj := runes_join s
  have hok := runes_ok s
  rw [List.contains_iff_mem]
  constructor
  · intro m
    rw [← hj] at m
    obtain ⟨t, mt, m0⟩ := List.mem_flatMap.mp m
    exact ⟨t, mt, (tok_zero_iff (hok t mt)).mpr m0⟩
  · rintro ⟨t, mt, h0⟩
    rw [← hj]
    exact List.mem_flatMap.mpr ⟨t, mt, (tok_zero_iff (hok t mt)).mp h0⟩

/-- Quote fails exactly on the strings described by `codeFails`. -/
theorem quote_fails_iff_codeFails (l : Lang) (s : Bytes) :
    (∃ e, quoteCore l s = .error e) ↔ codeFails l s = true := by
  have hok := runes_ok s
  have hz := contains_zero_iff s
  simp only [codeFails, Bool.or_eq_true, Bool.and_eq_true, List.any_eq_true, decide_eq_true_eq,
    Bool.not_eq_true', gt_iff_lt]
  by_cases hs : s = []
  · subst hs; simp [quoteCore, runes_nil]
  unfold quoteCore
  simp only [hs, ↓reduceIte]
  cases hsc : scan l (runes s) 0 false false with
  | error e =>
    simp only
    constructor
    · intro _
      rcases scan_error l _ _ _ _ e hsc with ⟨_, t, m, b⟩ | ⟨_, a, t, m, b⟩
      · exact Or.inl (Or.inl (hz.mpr ⟨t, m, b⟩))
      · exact Or.inl (Or.inr ⟨a, t, m, b⟩)
    · intro _; exact ⟨e, rfl⟩
  | ok r =>
    obtain ⟨sc, np⟩ := r
    obtain ⟨i1, i2, i3⟩ := scan_ok l _ _ _ _ _ _ hsc
    simp only [Bool.false_or] at i2 i3
    have nz : ¬ (s.contains 0 = true) := by
      rw [hz]; rintro ⟨t, m, h0⟩; exact (i1 t m).1 h0
    have nposix : ¬ (langIn l langPOSIX = true ∧ ∃ x ∈ runes s, nonPrint x.r = true) := by
      rintro ⟨a, t, m, b⟩; rw [(i1 t m).2 a] at b; cases b
    have npany : np = false → ¬ ∃ x ∈ runes s, 0xFFFD < x.r ∧ isPrint x.r = false := by
      intro hnp
      rintro ⟨t, m, a, b⟩
      have : nonPrint t.r = true := by simp [nonPrint, b]
      have : (runes s).any (fun t => nonPrint t.r) = true := List.any_eq_true.mpr ⟨t, m, this⟩
      rw [← i3, hnp] at this; cases this
    simp only
    by_cases hb : (!sc && !np && !isKeyword s) = true
    · simp only [hb, ↓reduceIte]
      have hnp : np = false := by
        cases np
        · rfl
        · simp at hb
      constructor
      · rintro ⟨e, h⟩; cases h
      · rintro ((h | h) | ⟨_, h⟩)
        · exact absurd h nz
        · exact absurd h nposix
        · exact absurd h (npany hnp)
    · simp only [hb, Bool.false_eq_true, ↓reduceIte]
      cases hnp : np with
      | true =>
        simp only [↓reduceIte]
        cases hd : dollarBody l (runes s) 0 false with
        | error e =>
          simp only
          obtain ⟨_, a, t, m, b, c⟩ := dollar_error l _ _ _ e hok hd
          exact ⟨fun _ => Or.inr ⟨a, t, m, b, c⟩, fun _ => ⟨e, rfl⟩⟩
        | ok body =>
          simp only
          have := dollar_ok l _ _ _ body hok hd
          constructor
          · rintro ⟨e, h⟩; cases h
          · rintro ((h | h) | ⟨a, t, m, b, c⟩)
            · exact absurd h nz
            · exact absurd h nposix
            · exact absurd ⟨a, b, c⟩ (this t m)
      | false =>
        simp only [Bool.false_eq_true, ↓reduceIte]
        constructor
        · intro ⟨e, h⟩; split at h <;> cases h
        · rintro ((h | h) | ⟨_, h⟩)
          · exact absurd h nz
          · exact absurd h nposix
          · exact absurd h (npany hnp)

/-! ## Facts about single bytes, by enumeration -/

theorem byte_forall {P : UInt8 → Prop} (h : ∀ n : Fin 256, P (UInt8.ofNat n.val)) (b : UInt8) :
    P b := by
  have := h ⟨b.toNat, toNat_lt b⟩
  simpa [ofNat_toNat] using this

theorem isPrint_ascii : ∀ r : Fin 128, isPrint r.val = (decide (0x20 ≤ r.val) && decide (r.val ≤ 0x7e)) := by
  decide +kernel

theorem isPrint_ascii' {r : Nat} (h : r < 0x80) (hp : isPrint r = true) : 0x20 ≤ r ∧ r ≤ 0x7e := by
  have := isPrint_ascii ⟨r, h⟩
  simp only [hp] at this
  simpa using this.symm

theorem bare_of_high : ∀ b : UInt8, 0x80 ≤ b.toNat → isBareByte b = true := by
  apply byte_forall; decide +kernel

theorem bare_of_ascii : ∀ b : UInt8, 0x20 ≤ b.toNat → b.toNat ≤ 0x7e → isShellChar b.toNat = false →
    isBareByte b = true ∧ b ≠ 0x23 ∧ b ≠ 0x7e ∧ b ≠ 0x20 ∧ b ≠ 0x09 ∧ b ≠ 0x27 ∧ b ≠ 0x22 ∧ b ≠ 0x24 ∧
      b ≠ 0x3d ∧ b ≠ 0x7b := by
  apply byte_forall; decide +kernel


/-! ## Clean byte strings: what the lexer fragment accepts -/

/-- A concatenation of valid encodings of runes other than NUL, LF, CR. -/
inductive Clean : Bytes → Prop
  | nil : Clean []
  | cons {p : Bytes} {r : Nat} {rest : Bytes} : ValidEnc p r → r ≠ 0 → r ≠ 0x0a → r ≠ 0x0d →
      Clean rest → Clean (p ++ rest)

theorem Clean.append {a b : Bytes} (ha : Clean a) (hb : Clean b) : Clean (a ++ b) := by
  induction ha with
  | nil => simpa using hb
  | cons hv h0 h1 h2 _ ih => rw [List.append_assoc]; exact .cons hv h0 h1 h2 ih

theorem Clean.byte {b : UInt8} {rest : Bytes} (h : b.toNat < 0x80) (h0 : b.toNat ≠ 0)
    (h1 : b.toNat ≠ 0x0a) (h2 : b.toNat ≠ 0x0d) (hr : Clean rest) : Clean (b :: rest) :=
  Clean.cons (p := [b]) (Or.inl ⟨b, rfl, h, rfl⟩) h0 h1 h2 hr

theorem valid_len1 {p : Bytes} {r : Nat} (h : ValidEnc p r) (hl : p.length = 1) : r < 0x80 := by
  refine h.cases ?_ ?_ ?_ ?_
  · intro b0 hp h1 er; omega
  · intro b0 b1 hp; subst hp; simp at hl
  · intro b0 b1 b2 hp; subst hp; simp at hl
  · intro b0 b1 b2 b3 hp; subst hp; simp at hl

theorem valid_bytes_not {p : Bytes} {r : Nat} (h : ValidEnc p r) (c : UInt8) (hc : c.toNat < 0x80)
    (hne : r ≠ c.toNat) : c ∉ p := by
  intro m
  by_cases hr : r < 0x80
  · obtain ⟨b, hb, hbr⟩ := valid_ascii h hr
    rw [hb] at m; simp at m; subst m; exact hne hbr.symm
  · have := valid_high h (by omega) c m; omega

theorem Clean.fragment {q : Bytes} (h : Clean q) : inFragment q = true ∧ validUTF8 q = true := by
  induction h with
  | nil => exact ⟨rfl, rfl⟩
  | @cons p r rest hv h0 h1 h2 _ ih =>
    obtain ⟨i1, i2⟩ := ih
    constructor
    · have n0 := valid_bytes_not hv 0 (by decide) (by simpa using h0)
      have n1 := valid_bytes_not hv 0x0a (by decide) (by simpa using h1)
      have n2 := valid_bytes_not hv 0x0d (by decide) (by simpa using h2)
      simp only [inFragment, Bool.not_eq_true', Bool.or_eq_false_iff, List.contains_eq_mem,
        decide_eq_false_iff_not, List.mem_append, not_or] at i1 ⊢
      exact ⟨⟨⟨n0, i1.1.1⟩, ⟨n1, i1.1.2⟩⟩, ⟨n2, i1.2⟩⟩
    · unfold validUTF8 at i2 ⊢
      rw [runes_valid_append hv, List.all_cons, i2]
      have : ¬ (r = runeError ∧ p.length = 1) := by
        rintro ⟨a, b⟩; have := valid_len1 hv b; rw [a] at this; unfold runeError at this; omega
      simp only [Bool.and_true, Bool.not_eq_true', Bool.and_eq_false_iff, beq_eq_false_iff_ne]
      by_cases hr : r = runeError
      · right; intro hl; exact this ⟨hr, hl⟩
      · left; exact hr


/-! ## `fmtEsc`: fuel and unfolding -/

theorem readDigits_len : ∀ (k : Nat) (hex : Bool) (s : Bytes), (readDigits k hex s).2.length ≤ s.length := by
  intro k
  induction k with
  | zero => intro hex s; simp [readDigits]
  | succ k ih =>
    intro hex s
    cases s with
    | nil => simp [readDigits]
    | cons c rest =>
      simp only [readDigits]
      split
      · have := ih hex rest
        simp only [List.length_cons]
        generalize readDigits k hex rest = dr at this
        obtain ⟨d, r⟩ := dr
        simp at this ⊢; omega
      · simp

theorem fmtEscape_len (e : UInt8) (rest : Bytes) :
    (fmtEscape e rest).2.length ≤ rest.length + 1 := by
  have l3 := readDigits_len 3 false (e :: rest)
  have l2 := fun k => readDigits_len k true rest
  simp only [List.length_cons] at l3
  unfold fmtEscape
  split
  · simp
  · split
    · exact l3
    · split
      · dsimp only
        have l2' := l2 (if e = 117 then 4 else if e = 85 then 8 else 2)
        generalize readDigits (if e = 117 then 4 else if e = 85 then 8 else 2) true rest = dr at l2' ⊢
        split
        · simp
        · split
          · exact Nat.le_succ_of_le l2'
          · exact Nat.le_succ_of_le l2'
      · simp

theorem fmtStep_len (c : UInt8) (rest : Bytes) : (fmtStep c rest).2.length ≤ rest.length := by
  unfold fmtStep
  split
  · split
    · simp
    · exact fmtEscape_len _ _
  · simp

theorem fmtEscF_fuel2 : ∀ (n m : Nat) (s : Bytes), s.length ≤ n → s.length ≤ m →
    fmtEscF n s = fmtEscF m s := by
  intro n
  induction n with
  | zero => intro m s h _; cases s with
    | nil => cases m <;> rfl
    | cons a t => simp at h
  | succ n ih =>
    intro m s h hm
    cases s with
    | nil => cases m <;> rfl
    | cons c rest =>
      cases m with
      | zero => simp at hm
      | succ m =>
        have := fmtStep_len c rest
        simp only [List.length_cons] at h hm
        simp only [fmtEscF]
        rw [ih m _ (by omega) (by omega)]

theorem fmtEsc_nil : fmtEsc [] = [] := rfl

theorem fmtEsc_cons (c : UInt8) (rest : Bytes) :
    fmtEsc (c :: rest) = (fmtStep c rest).1 ++ fmtEsc (fmtStep c rest).2 := by
  have := fmtStep_len c rest
  unfold fmtEsc
  simp only [List.length_cons, fmtEscF]
  rw [fmtEscF_fuel2 rest.length _ _ (by omega) (Nat.le_refl _)]

/-- `e` is a self-delimiting piece of `$'…'` text: wherever it stands, `formatInto` turns it into
    `out`, and the lexer's scan for the closing quote passes over it. -/
structure Closed (e out : Bytes) : Prop where
  fmt : ∀ x, fmtEsc (e ++ x) = out ++ fmtEsc x
  scan : ∀ x, scanDollarSgl (e ++ x) = (scanDollarSgl x).map fun vr => (e ++ vr.1, vr.2)

theorem Closed.nil : Closed [] [] :=
  ⟨fun x => by simp, fun x => by simp only [List.nil_append]; cases scanDollarSgl x <;> rfl⟩

theorem Closed.append {e1 o1 e2 o2 : Bytes} (h1 : Closed e1 o1) (h2 : Closed e2 o2) :
    Closed (e1 ++ e2) (o1 ++ o2) := by
  constructor
  · intro x; rw [List.append_assoc, h1.fmt, h2.fmt, List.append_assoc]
  · intro x; rw [List.append_assoc, h1.scan, h2.scan]
    cases scanDollarSgl x <;> simp [Option.map]

theorem Closed.plain {c : UInt8} (h1 : c ≠ 0x5c) (h2 : c ≠ 0x27) : Closed [c] [c] := by
  constructor
  · intro x
    rw [List.singleton_append, fmtEsc_cons]
    simp [fmtStep, h1]
  · intro x
    rw [List.singleton_append, scanDollarSgl.eq_def]
    simp only [h1, h2, ↓reduceIte]
    cases scanDollarSgl x <;> rfl

theorem Closed.plainList : ∀ (e : Bytes), (∀ c ∈ e, c ≠ 0x5c ∧ c ≠ 0x27) → Closed e e := by
  intro e
  induction e with
  | nil => intro _; exact Closed.nil
  | cons c e ih =>
    intro h
    have hc := h c (List.mem_cons_self ..)
    exact Closed.append (Closed.plain hc.1 hc.2) (ih fun c' m => h c' (List.mem_cons_of_mem _ m))

/-- An escape `\ tail` that `fmtStep` consumes entirely. -/
theorem Closed.esc {d : UInt8} {tail out : Bytes}
    (hf : ∀ x, fmtStep 0x5c (d :: (tail ++ x)) = (out, x))
    (ht : ∀ c ∈ tail, c ≠ 0x5c ∧ c ≠ 0x27) : Closed (0x5c :: d :: tail) out := by
  constructor
  · intro x
    rw [List.cons_append, fmtEsc_cons, List.cons_append, hf]
  · intro x
    have := (Closed.plainList tail ht).scan x
    have e1 : ((0x5c : UInt8) = 0x27) = False := by decide
    rw [List.cons_append, List.cons_append, scanDollarSgl]
    simp only [e1, ↓reduceIte, this]
    cases scanDollarSgl x <;> rfl


/-! ## The pieces written by the `$'…'` loop are self-delimiting -/

theorem hexDigit_facts : ∀ n : Fin 16,
    isHexByte (hexDigitByte n.val) = true ∧ hexValByte (hexDigitByte n.val) = n.val ∧
    hexDigitByte n.val ≠ 0x5c ∧ hexDigitByte n.val ≠ 0x27 ∧ (hexDigitByte n.val).toNat < 0x80 ∧
    (hexDigitByte n.val).toNat ≠ 0 ∧ (hexDigitByte n.val).toNat ≠ 0x0a ∧
    (hexDigitByte n.val).toNat ≠ 0x0d := by decide

theorem hexDigit_facts' (n : Nat) (h : n < 16) :
    isHexByte (hexDigitByte n) = true ∧ hexValByte (hexDigitByte n) = n ∧
    hexDigitByte n ≠ 0x5c ∧ hexDigitByte n ≠ 0x27 ∧ (hexDigitByte n).toNat < 0x80 ∧
    (hexDigitByte n).toNat ≠ 0 ∧ (hexDigitByte n).toNat ≠ 0x0a ∧
    (hexDigitByte n).toNat ≠ 0x0d := hexDigit_facts ⟨n, h⟩

theorem readDigits_hex : ∀ (ds x : Bytes), (∀ d ∈ ds, isHexByte d = true) →
    readDigits ds.length true (ds ++ x) = (ds, x) := by
  intro ds
  induction ds with
  | nil => intro x _; simp [readDigits]
  | cons d ds ih =>
    intro x h
    have hd := h d (List.mem_cons_self ..)
    have := ih x (fun d' m => h d' (List.mem_cons_of_mem _ m))
    simp only [List.length_cons, List.cons_append, readDigits, hd, Bool.and_self, Bool.or_true,
      ↓reduceIte, this]

theorem simpleEscape_x : simpleEscape 0x78 = none ∧ simpleEscape 0x75 = none ∧
    simpleEscape 0x55 = none ∧ simpleEscape 0x27 = some 0x27 ∧ simpleEscape 0x5c = some 0x5c := by
  decide

theorem fmtEscape_hex2 (v : Nat) (hv : v < 256) (x : Bytes) :
    fmtEscape 0x78 (hex2 v ++ x) = ([UInt8.ofNat v], x) := by
  have f1 := hexDigit_facts' (v / 16 % 16) (by omega)
  have f2 := hexDigit_facts' (v % 16) (by omega)
  have hr := readDigits_hex (hex2 v) x (by
    intro d m; simp only [hex2, List.mem_cons, List.not_mem_nil, or_false] at m
    rcases m with rfl | rfl
    · exact f1.1
    · exact f2.1)
  have hval : hexValue (hex2 v) = v := by
    simp only [hexValue, hex2, List.foldl, f1.2.1, f2.2.1]; omega
  have hne : hex2 v ≠ [] := by simp [hex2]
  have e1 : ¬ ((48 : Nat) ≤ (0x78 : UInt8).toNat ∧ (0x78 : UInt8).toNat ≤ 55) := by decide
  have e2 : ((0x78 : UInt8) = 0x78 ∨ (0x78 : UInt8) = 0x75 ∨ (0x78 : UInt8) = 0x55) := Or.inl rfl
  have e3 : ¬ ((0x78 : UInt8) = 0x75) := by decide
  have e4 : ¬ ((0x78 : UInt8) = 0x55) := by decide
  have hl : (hex2 v).length = 2 := rfl
  rw [hl] at hr
  simp only [fmtEscape, simpleEscape_x.1, e1, e2, e3, e4, ↓reduceIte, hr, hne, hval, true_or, or_true, false_or, or_false]

theorem fmtEscape_hex4 (v : Nat) (hv : v < 65536) (x : Bytes) :
    fmtEscape 0x75 (hex4 v ++ x) = (encodeRune v, x) := by
  have f1 := hexDigit_facts' (v / 4096 % 16) (by omega)
  have f2 := hexDigit_facts' (v / 256 % 16) (by omega)
  have f3 := hexDigit_facts' (v / 16 % 16) (by omega)
  have f4 := hexDigit_facts' (v % 16) (by omega)
  have hr := readDigits_hex (hex4 v) x (by
    intro d m; simp only [hex4, List.mem_cons, List.not_mem_nil, or_false] at m
    rcases m with rfl | rfl | rfl | rfl
    · exact f1.1
    · exact f2.1
    · exact f3.1
    · exact f4.1)
  have hval : hexValue (hex4 v) = v := by
    simp only [hexValue, hex4, List.foldl, f1.2.1, f2.2.1, f3.2.1, f4.2.1]; omega
  have hne : hex4 v ≠ [] := by simp [hex4]
  have e1 : ¬ ((48 : Nat) ≤ (0x75 : UInt8).toNat ∧ (0x75 : UInt8).toNat ≤ 55) := by decide
  have e2 : ((0x75 : UInt8) = 0x78 ∨ (0x75 : UInt8) = 0x75 ∨ (0x75 : UInt8) = 0x55) :=
    Or.inr (Or.inl rfl)
  have e3 : ¬ ((0x75 : UInt8) = 0x78) := by decide
  have hl : (hex4 v).length = 4 := rfl
  rw [hl] at hr
  simp only [fmtEscape, simpleEscape_x.2.1, e1, e2, e3, ↓reduceIte, hr, hne, hval, true_or, or_true, false_or, or_false]

theorem fmtEscape_hex8 (v : Nat) (hv : v < 4294967296) (x : Bytes) :
    fmtEscape 0x55 (hex8 v ++ x) = (encodeRune v, x) := by
  have f1 := hexDigit_facts' (v / 268435456 % 16) (by omega)
  have f2 := hexDigit_facts' (v / 16777216 % 16) (by omega)
  have f3 := hexDigit_facts' (v / 1048576 % 16) (by omega)
  have f4 := hexDigit_facts' (v / 65536 % 16) (by omega)
  have f5 := hexDigit_facts' (v / 4096 % 16) (by omega)
  have f6 := hexDigit_facts' (v / 256 % 16) (by omega)
  have f7 := hexDigit_facts' (v / 16 % 16) (by omega)
  have f8 := hexDigit_facts' (v % 16) (by omega)
  have hr := readDigits_hex (hex8 v) x (by
    intro d m; simp only [hex8, List.mem_cons, List.not_mem_nil, or_false] at m
    rcases m with rfl | rfl | rfl | rfl | rfl | rfl | rfl | rfl
    · exact f1.1
    · exact f2.1
    · exact f3.1
    · exact f4.1
    · exact f5.1
    · exact f6.1
    · exact f7.1
    · exact f8.1)
  have hval : hexValue (hex8 v) = v := by
    simp only [hexValue, hex8, List.foldl, f1.2.1, f2.2.1, f3.2.1, f4.2.1, f5.2.1, f6.2.1, f7.2.1,
      f8.2.1]; omega
  have hne : hex8 v ≠ [] := by simp [hex8]
  have e1 : ¬ ((48 : Nat) ≤ (0x55 : UInt8).toNat ∧ (0x55 : UInt8).toNat ≤ 55) := by decide
  have e2 : ((0x55 : UInt8) = 0x78 ∨ (0x55 : UInt8) = 0x75 ∨ (0x55 : UInt8) = 0x55) :=
    Or.inr (Or.inr rfl)
  have e3 : ¬ ((0x55 : UInt8) = 0x78) := by decide
  have e4 : ¬ ((0x55 : UInt8) = 0x75) := by decide
  have hl : (hex8 v).length = 8 := rfl
  rw [hl] at hr
  simp only [fmtEscape, simpleEscape_x.2.2.1, e1, e2, e3, e4, ↓reduceIte, hr, hne, hval, true_or, or_true, false_or, or_false]


theorem ctlLetter_spec {r : Nat} {c : UInt8} (h : ctlLetter r = some c) :
    r < 0x80 ∧ r ≠ 0 ∧ simpleEscape c = some (UInt8.ofNat r) ∧ c ≠ 0x5c ∧ c ≠ 0x27 ∧
      c.toNat < 0x80 ∧ c.toNat ≠ 0 ∧ c.toNat ≠ 0x0a ∧ c.toNat ≠ 0x0d := by
  unfold ctlLetter at h
  repeat' (split at h)
  all_goals first | (cases h; subst_vars; decide) | cases h

theorem clean_ascii : ∀ (e : Bytes),
    (∀ b ∈ e, b.toNat < 0x80 ∧ b.toNat ≠ 0 ∧ b.toNat ≠ 0x0a ∧ b.toNat ≠ 0x0d) → Clean e := by
  intro e
  induction e with
  | nil => intro _; exact .nil
  | cons b e ih =>
    intro h
    obtain ⟨a1, a2, a3, a4⟩ := h b (List.mem_cons_self ..)
    exact Clean.byte a1 a2 a3 a4 (ih fun b' m => h b' (List.mem_cons_of_mem _ m))

theorem tok_ascii {t : Tok} (h : TokOK t) (hr : t.r < 0x80) : ∃ b : UInt8, t.raw = [b] ∧ b.toNat = t.r := by
  rcases h with ⟨h1, _⟩ | ⟨hv, _⟩
  · rw [h1] at hr; unfold runeError at hr; omega
  · exact valid_ascii hv hr

theorem clean_valid {p : Bytes} {r : Nat} (hv : ValidEnc p r) (h0 : r ≠ 0) (h1 : r ≠ 0x0a)
    (h2 : r ≠ 0x0d) : Clean p := by
  have := Clean.cons hv h0 h1 h2 .nil
  simpa using this

theorem print_not_ctl {r : Nat} (hp : isPrint r = true) : r ≠ 0 ∧ r ≠ 0x0a ∧ r ≠ 0x0d ∧ r ≠ 0x09 := by
  by_cases h : r < 0x80
  · have := isPrint_ascii' h hp; omega
  · omega

/-- Every successful iteration of the `$'…'` loop writes, possibly after the re-quoting `'$'`, a
    self-delimiting piece that `formatInto` turns back into the bytes of the rune. -/
theorem piece_closed {l : Lang} {last : Bool} {t : Tok} {p : Bytes} {nxt : Bool}
    (hok : TokOK t) (hp : piece l last t = .ok (p, nxt)) :
    ∃ e, (p = e ∨ p = [0x27, 0x24, 0x27] ++ e) ∧ Closed e t.raw ∧ Clean e := by
  have hs := piece_spec l last t
  rw [hp] at hs
  generalize hres : (Except.ok (p, nxt) : Except ErrKind (Bytes × Bool)) = res at hs
  cases hs with
  | bsq c =>
    cases hres
    obtain ⟨b, hb, hbr⟩ := tok_ascii hok (by omega)
    have henc : encodeRune t.r = [b] := by
      have : ValidEnc [b] t.r := Or.inl ⟨b, rfl, by omega, hbr.symm⟩
      exact encode_valid this
    have hb' : b = 0x27 ∨ b = 0x5c := by
      rcases c with c | c
      · left; apply UInt8.toNat_inj.mp; rw [hbr, c]; rfl
      · right; apply UInt8.toNat_inj.mp; rw [hbr, c]; rfl
    refine ⟨[0x5c, b], Or.inl (by rw [henc]), ?_, ?_⟩
    · rw [hb]
      refine Closed.esc (tail := []) ?_ (by simp)
      intro x
      rcases hb' with rfl | rfl
      · simp [fmtStep, fmtEscape, simpleEscape_x.2.2.2.1]
      · simp [fmtStep, fmtEscape, simpleEscape_x.2.2.2.2]
    · apply clean_ascii
      intro b' m
      simp only [List.mem_cons, List.not_mem_nil, or_false] at m
      rcases m with rfl | rfl
      · decide
      · rcases hb' with rfl | rfl <;> decide
  | printable c1 c2 c3 =>
    cases hres
    have hv : ValidEnc t.raw t.r := by
      rcases hok with ⟨h1, _⟩ | ⟨hv, _⟩
      · exact absurd h1 c3
      · exact hv
    have henc := encode_valid hv
    obtain ⟨n0, n1, n2, _⟩ := print_not_ctl c2
    refine ⟨t.raw, ?_, ?_, clean_valid hv n0 n1 n2⟩
    · rw [henc]; by_cases hq : (last && isHexRune t.r) = true
      · right; simp [hq]
      · left; simp [hq]
    · apply Closed.plainList
      intro c m
      constructor
      · intro e; subst e; exact valid_bytes_not hv 0x5c (by decide) (by intro e; exact c1 (Or.inr e)) m
      · intro e; subst e; exact valid_bytes_not hv 0x27 (by decide) (by intro e; exact c1 (Or.inl e)) m
  | ctl c c1 c2 =>
    cases hres
    obtain ⟨a1, a2, a3, a4, a5, a6, a7, a8, a9⟩ := ctlLetter_spec c2
    obtain ⟨b, hb, hbr⟩ := tok_ascii hok a1
    have hbo : UInt8.ofNat t.r = b := by rw [← hbr]; exact ofNat_toNat b
    refine ⟨[0x5c, c], Or.inl rfl, ?_, ?_⟩
    · rw [hb]
      refine Closed.esc (tail := []) ?_ (by simp)
      intro x
      simp [fmtStep, fmtEscape, a3, hbo]
    · apply clean_ascii
      intro b' m
      simp only [List.mem_cons, List.not_mem_nil, or_false] at m
      rcases m with rfl | rfl
      · decide
      · exact ⟨a6, a7, a8, a9⟩
  | hexByte c1 c2 c3 c4 =>
    cases hres
    have hraw : ∃ b : UInt8, t.raw = [b] := by
      rcases c4 with c4 | ⟨c4, c5⟩
      · obtain ⟨b, hb, _⟩ := tok_ascii hok c4; exact ⟨b, hb⟩
      · rcases hok with ⟨_, _, b, hb, _⟩ | ⟨hv, hsz⟩
        · exact ⟨b, hb⟩
        · have := valid_len1 hv (by omega); rw [c4] at this; unfold runeError at this; omega
    obtain ⟨b, hb⟩ := hraw
    have hlt := toNat_lt b
    have f1 := hexDigit_facts' (b.toNat / 16 % 16) (by omega)
    have f2 := hexDigit_facts' (b.toNat % 16) (by omega)
    refine ⟨[0x5c, 0x78] ++ hex2 b.toNat, Or.inl (by rw [hb]; rfl), ?_, ?_⟩
    · rw [hb]
      refine Closed.esc (d := 0x78) (tail := hex2 b.toNat) ?_ ?_
      · intro x
        simp only [fmtStep, ↓reduceIte, fmtEscape_hex2 b.toNat hlt x, ofNat_toNat]
      · intro c m
        simp only [hex2, List.mem_cons, List.not_mem_nil, or_false] at m
        rcases m with rfl | rfl
        · exact ⟨f1.2.2.1, f1.2.2.2.1⟩
        · exact ⟨f2.2.2.1, f2.2.2.2.1⟩
    · apply clean_ascii
      intro b' m
      simp only [hex2, List.cons_append, List.nil_append, List.mem_cons, List.not_mem_nil,
        or_false] at m
      rcases m with rfl | rfl | rfl | rfl
      · decide
      · decide
      · exact f1.2.2.2.2
      · exact f2.2.2.2.2
  | range c => cases hres
  | mksh c1 c2 c3 => cases hres
  | u4 c1 c2 c3 c4 =>
    cases hres
    have hv : ValidEnc t.raw t.r := by
      rcases hok with ⟨h1, h2, _⟩ | ⟨hv, _⟩
      · exact absurd (Or.inr ⟨h1, h2⟩) c2
      · exact hv
    have henc := encode_valid hv
    have f1 := hexDigit_facts' (t.r / 4096 % 16) (by omega)
    have f2 := hexDigit_facts' (t.r / 256 % 16) (by omega)
    have f3 := hexDigit_facts' (t.r / 16 % 16) (by omega)
    have f4 := hexDigit_facts' (t.r % 16) (by omega)
    refine ⟨[0x5c, 0x75] ++ hex4 t.r, Or.inl rfl, ?_, ?_⟩
    · refine Closed.esc (d := 0x75) (tail := hex4 t.r) ?_ ?_
      · intro x
        simp only [fmtStep, ↓reduceIte, fmtEscape_hex4 t.r c4 x, henc]
      · intro c m
        simp only [hex4, List.mem_cons, List.not_mem_nil, or_false] at m
        rcases m with rfl | rfl | rfl | rfl
        · exact ⟨f1.2.2.1, f1.2.2.2.1⟩
        · exact ⟨f2.2.2.1, f2.2.2.2.1⟩
        · exact ⟨f3.2.2.1, f3.2.2.2.1⟩
        · exact ⟨f4.2.2.1, f4.2.2.2.1⟩
    · apply clean_ascii
      intro b' m
      simp only [hex4, List.cons_append, List.nil_append, List.mem_cons, List.not_mem_nil,
        or_false] at m
      rcases m with rfl | rfl | rfl | rfl | rfl | rfl
      · decide
      · decide
      · exact f1.2.2.2.2
      · exact f2.2.2.2.2
      · exact f3.2.2.2.2
      · exact f4.2.2.2.2
  | u8 c1 c2 c3 c4 =>
    cases hres
    have hm := tok_le_maxRune hok
    unfold maxRune at hm c2
    have hv : ValidEnc t.raw t.r := by
      rcases hok with ⟨h1, h2, _⟩ | ⟨hv, _⟩
      · rw [h1] at c4; unfold runeError at c4; omega
      · exact hv
    have henc := encode_valid hv
    have f1 := hexDigit_facts' (t.r / 268435456 % 16) (by omega)
    have f2 := hexDigit_facts' (t.r / 16777216 % 16) (by omega)
    have f3 := hexDigit_facts' (t.r / 1048576 % 16) (by omega)
    have f4 := hexDigit_facts' (t.r / 65536 % 16) (by omega)
    have f5 := hexDigit_facts' (t.r / 4096 % 16) (by omega)
    have f6 := hexDigit_facts' (t.r / 256 % 16) (by omega)
    have f7 := hexDigit_facts' (t.r / 16 % 16) (by omega)
    have f8 := hexDigit_facts' (t.r % 16) (by omega)
    refine ⟨[0x5c, 0x55] ++ hex8 t.r, Or.inl rfl, ?_, ?_⟩
    · refine Closed.esc (d := 0x55) (tail := hex8 t.r) ?_ ?_
      · intro x
        simp only [fmtStep, ↓reduceIte, fmtEscape_hex8 t.r (by omega) x, henc]
      · intro c m
        simp only [hex8, List.mem_cons, List.not_mem_nil, or_false] at m
        rcases m with rfl | rfl | rfl | rfl | rfl | rfl | rfl | rfl
        · exact ⟨f1.2.2.1, f1.2.2.2.1⟩
        · exact ⟨f2.2.2.1, f2.2.2.2.1⟩
        · exact ⟨f3.2.2.1, f3.2.2.2.1⟩
        · exact ⟨f4.2.2.1, f4.2.2.2.1⟩
        · exact ⟨f5.2.2.1, f5.2.2.2.1⟩
        · exact ⟨f6.2.2.1, f6.2.2.2.1⟩
        · exact ⟨f7.2.2.1, f7.2.2.2.1⟩
        · exact ⟨f8.2.2.1, f8.2.2.2.1⟩
    · apply clean_ascii
      intro b' m
      simp only [hex8, List.cons_append, List.nil_append, List.mem_cons, List.not_mem_nil,
        or_false] at m
      rcases m with rfl | rfl | rfl | rfl | rfl | rfl | rfl | rfl | rfl | rfl
      · decide
      · decide
      · exact f1.2.2.2.2
      · exact f2.2.2.2.2
      · exact f3.2.2.2.2
      · exact f4.2.2.2.2
      · exact f5.2.2.2.2
      · exact f6.2.2.2.2
      · exact f7.2.2.2.2
      · exact f8.2.2.2.2


/-! ## The lexer on `$'…'` words -/

theorem cutNul_id : ∀ (s : Bytes), (0 : UInt8) ∉ s → cutNul s = s := by
  intro s
  induction s with
  | nil => intro _; rfl
  | cons c s ih =>
    intro h
    have hc : c ≠ 0 := fun e => h (by simp [e])
    simp only [cutNul, hc, ↓reduceIte]
    rw [ih (fun m => h (List.mem_cons_of_mem _ m))]

theorem lexF_nil (l : Lang) (n : Nat) (cur : Word) (ws : List Word) :
    lexF l (n + 1) [] cur ws = .ok (finish ws cur) := rfl

theorem lexF_dollar (l : Lang) (hl : dollSglOK l = true) (n : Nat) (pre out rest : Bytes)
    (cur : Word) (ws : List Word) (hc : Closed pre out) :
    lexF l (n + 1) (0x24 :: 0x27 :: (pre ++ 0x27 :: rest)) cur ws =
      lexF l n rest (cur ++ [.sgl true pre]) ws := by
  have hs := hc.scan (0x27 :: rest)
  have e0 : scanDollarSgl (0x27 :: rest) = some ([], rest) := by
    rw [scanDollarSgl.eq_def]; simp
  rw [e0] at hs
  simp only [Option.map, List.append_nil] at hs
  have d1 : ¬ ((0x24 : UInt8) = 0x20 ∨ (0x24 : UInt8) = 0x09) := by decide
  have d2 : ¬ ((0x24 : UInt8) = 0x23) := by decide
  have d3 : ¬ ((0x24 : UInt8) = 0x27) := by decide
  have d4 : ¬ ((0x24 : UInt8) = 0x22) := by decide
  simp only [lexF, d1, d2, d3, d4, false_and, ↓reduceIte, hl, and_self, hs]

theorem finish_assoc (ws : List Word) (cur : Word) (p : Part) (parts : List Part) :
    finish ws ((cur ++ [p]) ++ parts) = finish ws (cur ++ p :: parts) := by
  simp

theorem dollar_lex (l lp : Lang) (hl : dollSglOK lp = true) :
    ∀ (ts : List Tok) (offs : Nat) (last : Bool) (body pre out : Bytes) (cur : Word)
      (ws : List Word) (n : Nat),
    (∀ t ∈ ts, TokOK t ∧ t.r ≠ 0) → dollarBody l ts offs last = .ok body → Closed pre out →
    (0 : UInt8) ∉ out → ts.length + 2 ≤ n →
    ∃ parts, lexF lp n (0x24 :: 0x27 :: (pre ++ body ++ [0x27])) cur ws =
        .ok (finish ws (cur ++ parts)) ∧
      parts ≠ [] ∧ (∀ p ∈ parts, ∃ v, p = Part.sgl true v) ∧
      expandParts false parts = .ok (out ++ ts.flatMap Tok.raw) := by
  intro ts
  induction ts with
  | nil =>
    intro offs last body pre out cur ws n _ hb hc hz hn
    simp only [dollarBody] at hb
    cases hb
    obtain ⟨m, rfl⟩ : ∃ m, n = m + 2 := ⟨n - 2, by simp at hn; omega⟩
    refine ⟨[.sgl true pre], ?_, by simp, ?_, ?_⟩
    · rw [List.append_nil, lexF_dollar lp hl (m + 1) pre out [] cur ws hc, lexF_nil]
    · intro p hp; simp at hp; exact ⟨pre, hp⟩
    · have hf := hc.fmt []
      rw [List.append_nil, fmtEsc_nil, List.append_nil] at hf
      simp only [expandParts, expandPart, hf, cutNul_id out hz, List.flatMap_nil, List.append_nil]
  | cons t ts ih =>
    intro offs last body pre out cur ws n hok hb hc hz hn
    obtain ⟨hokt, h0t⟩ := hok t (List.mem_cons_self ..)
    have hok' : ∀ t' ∈ ts, TokOK t' ∧ t'.r ≠ 0 := fun t' m => hok t' (List.mem_cons_of_mem _ m)
    simp only [dollarBody] at hb
    cases hp : piece l last t with
    | error k => rw [hp] at hb; simp only at hb; cases hb
    | ok r =>
      obtain ⟨p, nxt⟩ := r
      rw [hp] at hb; simp only at hb
      cases hd : dollarBody l ts (offs + t.size) nxt with
      | error e' => rw [hd] at hb; simp only at hb; cases hb
      | ok rest =>
        rw [hd] at hb; simp only at hb; cases hb
        obtain ⟨e, hpe, hce, _⟩ := piece_closed hokt hp
        have hzraw : (0 : UInt8) ∉ t.raw := fun m => h0t ((tok_zero_iff hokt).mpr m)
        simp only [List.length_cons] at hn
        rcases hpe with rfl | rfl
        · -- the piece continues the current $'…' part
          have hz' : (0 : UInt8) ∉ out ++ t.raw := by
            simp only [List.mem_append, not_or]; exact ⟨hz, hzraw⟩
          obtain ⟨parts, h1, h2, h3, h4⟩ :=
            ih (offs + t.size) nxt rest (pre ++ p) (out ++ t.raw) cur ws n hok' hd
              (Closed.append hc hce) hz' (by omega)
          refine ⟨parts, ?_, h2, h3, ?_⟩
          · rw [← h1]; simp only [List.append_assoc]
          · rw [h4]; simp only [List.flatMap_cons, List.append_assoc]
        · -- re-quoting: the current part is closed, `e` starts a new one
          obtain ⟨m, rfl⟩ : ∃ m, n = m + 1 := ⟨n - 1, by omega⟩
          obtain ⟨parts, h1, h2, h3, h4⟩ :=
            ih (offs + t.size) nxt rest e t.raw (cur ++ [.sgl true pre]) ws m hok' hd hce hzraw
              (by omega)
          refine ⟨.sgl true pre :: parts, ?_, by simp, ?_, ?_⟩
          · have : (0x24 : UInt8) :: 0x27 :: (pre ++ ([0x27, 0x24, 0x27] ++ e ++ rest) ++ [0x27]) =
                0x24 :: 0x27 :: (pre ++ 0x27 :: (0x24 :: 0x27 :: (e ++ rest ++ [0x27]))) := by
              simp
            rw [this, lexF_dollar lp hl m pre out _ cur ws hc, h1, finish_assoc]
          · intro q hq
            rcases List.mem_cons.mp hq with rfl | hq
            · exact ⟨pre, rfl⟩
            · exact h3 q hq
          · have hf := hc.fmt []
            rw [List.append_nil, fmtEsc_nil, List.append_nil] at hf
            simp only [expandParts, expandPart, hf, cutNul_id out hz, h4, List.flatMap_cons,
              List.append_assoc]

/-- Everything the `$'…'` loop writes stays inside the lexer fragment. -/
theorem dollar_clean (l : Lang) : ∀ (ts : List Tok) (offs : Nat) (last : Bool) (body : Bytes),
    (∀ t ∈ ts, TokOK t) → dollarBody l ts offs last = .ok body → Clean body := by
  intro ts
  induction ts with
  | nil => intro offs last body _ hb; simp only [dollarBody] at hb; cases hb; exact .nil
  | cons t ts ih =>
    intro offs last body hok hb
    simp only [dollarBody] at hb
    cases hp : piece l last t with
    | error k => rw [hp] at hb; simp only at hb; cases hb
    | ok r =>
      obtain ⟨p, nxt⟩ := r
      rw [hp] at hb; simp only at hb
      cases hd : dollarBody l ts (offs + t.size) nxt with
      | error e' => rw [hd] at hb; simp only at hb; cases hb
      | ok rest =>
        rw [hd] at hb; simp only at hb; cases hb
        obtain ⟨e, hpe, _, hcl⟩ := piece_closed (hok t (List.mem_cons_self ..)) hp
        have hrest := ih _ _ _ (fun t' m => hok t' (List.mem_cons_of_mem _ m)) hd
        rcases hpe with rfl | rfl
        · exact Clean.append hcl hrest
        · have : Clean ([0x27, 0x24, 0x27] : Bytes) := clean_ascii _ (by
            intro b m; simp only [List.mem_cons, List.not_mem_nil, or_false] at m
            rcases m with rfl | rfl | rfl <;> decide)
          exact Clean.append (Clean.append this hcl) hrest


/-! ## Printable runes: the bare, '…' and "…" shapes -/

/-- A decode step that produced a printable rune (so: a valid encoding). -/
def PTok (t : Tok) : Prop := ValidEnc t.raw t.r ∧ isPrint t.r = true ∧ t.r ≠ runeError

theorem ptok_of {t : Tok} (hok : TokOK t) (hn : nonPrint t.r = false) : PTok t := by
  simp only [nonPrint, Bool.or_eq_false_iff, beq_eq_false_iff_ne, Bool.not_eq_false'] at hn
  rcases hok with ⟨h1, _⟩ | ⟨hv, _⟩
  · exact absurd h1 hn.1
  · exact ⟨hv, hn.2, hn.1⟩

theorem clean_toks : ∀ ts : List Tok, (∀ t ∈ ts, PTok t) → Clean (ts.flatMap Tok.raw) := by
  intro ts
  induction ts with
  | nil => intro _; exact .nil
  | cons t ts ih =>
    intro h
    obtain ⟨hv, hp, _⟩ := h t (List.mem_cons_self ..)
    obtain ⟨n0, n1, n2, _⟩ := print_not_ctl hp
    rw [List.flatMap_cons]
    exact Clean.cons hv n0 n1 n2 (ih fun t' m => h t' (List.mem_cons_of_mem _ m))

theorem lexWords_clean (l : Lang) {q : Bytes} (h : Clean q) :
    lexWords l q = lexF l (q.length + 1) q [] [] := by
  obtain ⟨h1, h2⟩ := h.fragment
  simp [lexWords, h1, h2]

theorem no_zero_toks {ts : List Tok} (h : ∀ t ∈ ts, PTok t) : (0 : UInt8) ∉ ts.flatMap Tok.raw := by
  intro m
  obtain ⟨t, mt, m0⟩ := List.mem_flatMap.mp m
  obtain ⟨hv, hp, _⟩ := h t mt
  exact valid_bytes_not hv 0 (by decide) (by have := (print_not_ctl hp).1; simpa using this) m0

/-! ### bare -/

theorem bare_facts : ∀ b : UInt8, isBareByte b = true →
    b ≠ 0x20 ∧ b ≠ 0x09 ∧ b ≠ 0x27 ∧ b ≠ 0x22 ∧ b ≠ 0x24 := by
  apply byte_forall; decide +kernel

theorem spanBare_all : ∀ s : Bytes, (∀ b ∈ s, isBareByte b = true) → spanBare s = (s, []) := by
  intro s
  induction s with
  | nil => intro _; rfl
  | cons c s ih =>
    intro h
    have hc := h c (List.mem_cons_self ..)
    simp only [spanBare, hc, ↓reduceIte, ih fun b m => h b (List.mem_cons_of_mem _ m)]

theorem lexF_bare (l : Lang) (n : Nat) (c : UInt8) (rest : Bytes)
    (hb : ∀ b ∈ c :: rest, isBareByte b = true) (h23 : c ≠ 0x23) :
    lexF l (n + 2) (c :: rest) [] [] = .ok [[.lit (c :: rest)]] := by
  have hc := hb c (List.mem_cons_self ..)
  obtain ⟨a1, a2, a3, a4, a5⟩ := bare_facts c hc
  have hsp := spanBare_all rest fun b m => hb b (List.mem_cons_of_mem _ m)
  simp only [lexF, a1, a2, a3, a4, a5, h23, false_or, false_and, ↓reduceIte, hc, hsp,
    List.nil_append, finish]
  simp

theorem ptok_bare {t : Tok} (h : PTok t) (hs : isShellChar t.r = false) :
    ∀ b ∈ t.raw, isBareByte b = true ∧ b ≠ 0x23 ∧ b ≠ 0x7e ∧ b ≠ 0x3d ∧ b ≠ 0x7b := by
  obtain ⟨hv, hp, _⟩ := h
  intro b m
  by_cases hr : t.r < 0x80
  · obtain ⟨b', hb', hbr⟩ := valid_ascii hv hr
    rw [hb'] at m; simp at m; subst m
    obtain ⟨p1, p2⟩ := isPrint_ascii' hr hp
    have := bare_of_ascii b (by omega) (by omega) (by rw [hbr]; exact hs)
    exact ⟨this.1, this.2.1, this.2.2.1, this.2.2.2.2.2.2.2.2.1, this.2.2.2.2.2.2.2.2.2⟩
  · have hh := valid_high hv (by omega) b m
    refine ⟨bare_of_high b hh, ?_, ?_, ?_, ?_⟩ <;> (intro e; subst e; simp at hh)

/-! ### '…' -/

theorem scanSgl_plain : ∀ (s r : Bytes), (∀ b ∈ s, b ≠ 0x27) →
    scanSgl (s ++ 0x27 :: r) = some (s, r) := by
  intro s
  induction s with
  | nil => intro r _; simp [scanSgl]
  | cons c s ih =>
    intro r h
    have hc := h c (List.mem_cons_self ..)
    simp only [List.cons_append, scanSgl, hc, ↓reduceIte, ih r fun b m => h b (List.mem_cons_of_mem _ m)]

theorem lexF_sgl (l : Lang) (n : Nat) (s : Bytes) (h : ∀ b ∈ s, b ≠ 0x27) :
    lexF l (n + 2) (0x27 :: (s ++ [0x27])) [] [] = .ok [[.sgl false s]] := by
  have d1 : ¬ ((0x27 : UInt8) = 0x20 ∨ (0x27 : UInt8) = 0x09) := by decide
  have d2 : ¬ ((0x27 : UInt8) = 0x23) := by decide
  simp only [lexF, d1, d2, false_and, ↓reduceIte, scanSgl_plain s [] h, List.nil_append, finish]
  simp

/-! ### "…" -/

theorem scanDq_plain : ∀ (e x v r : Bytes), (∀ c ∈ e, c ≠ 0x22 ∧ c ≠ 0x24 ∧ c ≠ 0x60 ∧ c ≠ 0x5c) →
    scanDq x = .ok (v, r) → scanDq (e ++ x) = .ok (e ++ v, r) := by
  intro e
  induction e with
  | nil => intro x v r _ h; simpa using h
  | cons c e ih =>
    intro x v r h hx
    obtain ⟨a1, a2, a3, a4⟩ := h c (List.mem_cons_self ..)
    have := ih x v r (fun c' m => h c' (List.mem_cons_of_mem _ m)) hx
    rw [List.cons_append, scanDq.eq_def]
    simp only [a1, a2, a3, a4, or_self, ↓reduceIte, this, List.cons_append]

theorem scanDq_esc (d : UInt8) (x v r : Bytes) (hx : scanDq x = .ok (v, r)) :
    scanDq (0x5c :: d :: x) = .ok (0x5c :: d :: v, r) := by
  have d1 : ¬ ((0x5c : UInt8) = 0x22) := by decide
  have d2 : ¬ ((0x5c : UInt8) = 0x24 ∨ (0x5c : UInt8) = 0x60) := by decide
  rw [scanDq]
  simp only [d1, d2, ↓reduceIte, hx]

theorem dqUnescape_plain (c : UInt8) (x : Bytes) (h : c ≠ 0x5c) :
    dqUnescape (c :: x) = c :: dqUnescape x := by
  cases x with
  | nil => rfl
  | cons d x => simp only [dqUnescape, h, false_and, ↓reduceIte]

theorem dqUnescape_plainList : ∀ (e x : Bytes), (∀ c ∈ e, c ≠ 0x5c) →
    dqUnescape (e ++ x) = e ++ dqUnescape x := by
  intro e
  induction e with
  | nil => intro x _; rfl
  | cons c e ih =>
    intro x h
    rw [List.cons_append, dqUnescape_plain c _ (h c (List.mem_cons_self ..)),
      ih x fun c' m => h c' (List.mem_cons_of_mem _ m)]
    rfl

theorem dqUnescape_esc (d : UInt8) (x : Bytes) (h : d = 0x22 ∨ d = 0x5c ∨ d = 0x24 ∨ d = 0x60) :
    dqUnescape (0x5c :: d :: x) = d :: dqUnescape x := by
  simp only [dqUnescape, h, and_self, ↓reduceIte]

/-- What the double-quote loop writes for one printable rune. -/
theorem dq_piece {t : Tok} (h : PTok t) :
    (∃ b : UInt8, t.raw = [b] ∧ (b = 0x22 ∨ b = 0x5c ∨ b = 0x24 ∨ b = 0x60) ∧
      (if t.r = 0x22 ∨ t.r = 0x5c ∨ t.r = 0x60 ∨ t.r = 0x24 then [0x5c] else []) ++ encodeRune t.r
        = [0x5c, b]) ∨
    ((∀ c ∈ t.raw, c ≠ 0x22 ∧ c ≠ 0x24 ∧ c ≠ 0x60 ∧ c ≠ 0x5c) ∧
      (if t.r = 0x22 ∨ t.r = 0x5c ∨ t.r = 0x60 ∨ t.r = 0x24 then [0x5c] else []) ++ encodeRune t.r
        = t.raw) := by
  obtain ⟨hv, hp, _⟩ := h
  have henc := encode_valid hv
  by_cases hc : t.r = 0x22 ∨ t.r = 0x5c ∨ t.r = 0x60 ∨ t.r = 0x24
  · left
    obtain ⟨b, hb, hbr⟩ := valid_ascii hv (by omega)
    refine ⟨b, hb, ?_, ?_⟩
    · rcases hc with c | c | c | c
      · left; apply UInt8.toNat_inj.mp; rw [hbr, c]; rfl
      · right; left; apply UInt8.toNat_inj.mp; rw [hbr, c]; rfl
      · right; right; right; apply UInt8.toNat_inj.mp; rw [hbr, c]; rfl
      · right; right; left; apply UInt8.toNat_inj.mp; rw [hbr, c]; rfl
    · simp only [hc, ↓reduceIte, henc, hb]; rfl
  · right
    refine ⟨?_, by simp only [hc, ↓reduceIte, henc, List.nil_append]⟩
    intro c m
    refine ⟨?_, ?_, ?_, ?_⟩ <;> intro e <;> subst e
    · exact valid_bytes_not hv 0x22 (by decide) (by intro e; exact hc (Or.inl e)) m
    · exact valid_bytes_not hv 0x24 (by decide) (by intro e; exact hc (Or.inr (Or.inr (Or.inr e)))) m
    · exact valid_bytes_not hv 0x60 (by decide) (by intro e; exact hc (Or.inr (Or.inr (Or.inl e)))) m
    · exact valid_bytes_not hv 0x5c (by decide) (by intro e; exact hc (Or.inr (Or.inl e))) m

theorem dq_scan : ∀ (ts : List Tok) (r : Bytes), (∀ t ∈ ts, PTok t) →
    scanDq (dqBody ts ++ 0x22 :: r) = .ok (dqBody ts, r) := by
  intro ts
  induction ts with
  | nil => intro r _; simp only [dqBody, List.nil_append]; rw [scanDq.eq_def]; simp
  | cons t ts ih =>
    intro r h
    have iht := ih r fun t' m => h t' (List.mem_cons_of_mem _ m)
    simp only [dqBody]
    rcases dq_piece (h t (List.mem_cons_self ..)) with ⟨b, _, _, he⟩ | ⟨hpl, he⟩
    · rw [he]; exact scanDq_esc b _ _ _ iht
    · rw [he, List.append_assoc]; exact scanDq_plain _ _ _ _ hpl iht

theorem dq_unescape : ∀ (ts : List Tok), (∀ t ∈ ts, PTok t) →
    dqUnescape (dqBody ts) = ts.flatMap Tok.raw := by
  intro ts
  induction ts with
  | nil => intro _; rfl
  | cons t ts ih =>
    intro h
    have iht := ih fun t' m => h t' (List.mem_cons_of_mem _ m)
    simp only [dqBody, List.flatMap_cons]
    rcases dq_piece (h t (List.mem_cons_self ..)) with ⟨b, hb, hsp, he⟩ | ⟨hpl, he⟩
    · rw [he, hb]
      show dqUnescape (0x5c :: b :: dqBody ts) = _
      rw [dqUnescape_esc b _ hsp, iht]; rfl
    · rw [he, dqUnescape_plainList _ _ (fun c m => (hpl c m).2.2.2), iht]

theorem dq_clean : ∀ (ts : List Tok), (∀ t ∈ ts, PTok t) → Clean (dqBody ts) := by
  intro ts
  induction ts with
  | nil => intro _; exact .nil
  | cons t ts ih =>
    intro h
    have iht := ih fun t' m => h t' (List.mem_cons_of_mem _ m)
    have ht := h t (List.mem_cons_self ..)
    obtain ⟨n0, n1, n2, _⟩ := print_not_ctl ht.2.1
    have hraw : Clean t.raw := clean_valid ht.1 n0 n1 n2
    simp only [dqBody]
    rcases dq_piece ht with ⟨b, hb, _, he⟩ | ⟨_, he⟩
    · rw [he]
      have : Clean ([0x5c, b] : Bytes) := by
        have : ([0x5c, b] : Bytes) = [0x5c] ++ t.raw := by rw [hb]; rfl
        rw [this]
        exact Clean.append (clean_ascii _ (by intro b' m; simp at m; subst m; decide)) hraw
      exact Clean.append this iht
    · rw [he]; exact Clean.append hraw iht

theorem lexF_dq (l : Lang) (n : Nat) (body : Bytes) (h : scanDq (body ++ [0x22]) = .ok (body, [])) :
    lexF l (n + 2) (0x22 :: (body ++ [0x22])) [] [] = .ok [[.dbl body]] := by
  have d1 : ¬ ((0x22 : UInt8) = 0x20 ∨ (0x22 : UInt8) = 0x09) := by decide
  have d2 : ¬ ((0x22 : UInt8) = 0x23) := by decide
  have d3 : ¬ ((0x22 : UInt8) = 0x27) := by decide
  simp only [lexF, d1, d2, d3, false_and, ↓reduceIte, h, List.nil_append, finish]
  simp


/-! ## Assembly: the round trip -/

theorem dollSglOK_of {l : Lang} (hv : validLang l = true) (hp : langIn l langPOSIX = false) :
    dollSglOK (resolve l) = true := by
  simp only [validLang, Bool.or_eq_true, beq_iff_eq] at hv
  rcases hv with ((((rfl | rfl) | rfl) | rfl) | rfl) | rfl
  · revert hp; decide
  · decide
  · revert hp; decide
  · decide
  · decide
  · decide

theorem encodeRune_len (r : Nat) : 1 ≤ (encodeRune r).length := by
  unfold encodeRune
  repeat' split
  all_goals simp

theorem piece_len {l : Lang} {last : Bool} {t : Tok} {p : Bytes} {nxt : Bool}
    (hp : piece l last t = .ok (p, nxt)) : 1 ≤ p.length := by
  have hs := piece_spec l last t
  rw [hp] at hs
  generalize hres : (Except.ok (p, nxt) : Except ErrKind (Bytes × Bool)) = res at hs
  have := encodeRune_len t.r
  cases hs <;> cases hres <;> simp <;> omega

theorem dollar_len (l : Lang) : ∀ (ts : List Tok) (offs : Nat) (last : Bool) (body : Bytes),
    dollarBody l ts offs last = .ok body → ts.length ≤ body.length := by
  intro ts
  induction ts with
  | nil => intro offs last body _; simp
  | cons t ts ih =>
    intro offs last body hb
    simp only [dollarBody] at hb
    cases hp : piece l last t with
    | error k => rw [hp] at hb; simp only at hb; cases hb
    | ok r =>
      obtain ⟨p, nxt⟩ := r
      rw [hp] at hb; simp only at hb
      cases hd : dollarBody l ts (offs + t.size) nxt with
      | error e' => rw [hd] at hb; simp only at hb; cases hb
      | ok rest =>
        rw [hd] at hb; simp only at hb; cases hb
        have := piece_len hp
        have := ih _ _ _ hd
        simp only [List.length_cons, List.length_append]; omega

theorem expandParts_sgl_first : ∀ (parts : List Part), (∀ p ∈ parts, ∃ v, p = Part.sgl true v) →
    expandParts true parts = expandParts false parts := by
  intro parts h
  cases parts with
  | nil => rfl
  | cons p ps =>
    obtain ⟨v, rfl⟩ := h p (List.mem_cons_self ..)
    simp only [expandParts, expandPart]

theorem any_false_all {α : Type} {p : α → Bool} {l : List α} (h : l.any p = false) :
    ∀ x ∈ l, p x = false := by
  intro x m
  cases hx : p x
  · rfl
  · have : l.any p = true := List.any_eq_true.mpr ⟨x, m, hx⟩
    rw [h] at this; cases this

/-- The four word shapes: one literal, one '…', one "…", or one or more $'…' parts. -/
def WordShape (w : Word) : Prop :=
  (∃ v, w = [.lit v]) ∨ (∃ v, w = [.sgl false v]) ∨ (∃ v, w = [.dbl v]) ∨
  (w ≠ [] ∧ ∀ p ∈ w, ∃ v, p = Part.sgl true v)

/-- When the word starts with an unquoted literal, that literal is the whole word and the whole
    string, which then is no keyword and contains neither `=` nor `{`. -/
def FirstLit (s : Bytes) (w : Word) : Prop :=
  ∀ v rest, w = Part.lit v :: rest →
    rest = [] ∧ v = s ∧ isKeyword s = false ∧ (0x3d : UInt8) ∉ s ∧ (0x7b : UInt8) ∉ s

/-- Whenever Quote succeeds, its result is read back by the parser as exactly one word of one of
    the four shapes, and `expand.Literal` of that word is the original string. -/
theorem quote_roundtrip_main (l : Lang) (s q : Bytes) (hv : validLang l = true)
    (h : quoteCore l s = .ok q) :
    ∃ w, lexWords (resolve l) q = .ok [w] ∧ WordShape w ∧ expandLit w = .ok s ∧ FirstLit s w := by
  have hok := runes_ok s
  have hj := runes_join s
  have hq27 : Clean ([0x27] : Bytes) := clean_ascii _ (by intro b m; simp at m; subst m; decide)
  by_cases hs : s = []
  · subst hs
    simp only [quoteCore, ↓reduceIte] at h
    cases h
    refine ⟨[.sgl false []], ?_, Or.inr (Or.inl ⟨_, rfl⟩), rfl, by intro v r e; cases e⟩
    have hc : Clean ([0x27, 0x27] : Bytes) := Clean.append hq27 hq27
    rw [lexWords_clean _ hc]
    exact lexF_sgl _ 1 [] (by simp)
  unfold quoteCore at h
  simp only [hs, ↓reduceIte] at h
  cases hsc : scan l (runes s) 0 false false with
  | error e => rw [hsc] at h; cases h
  | ok r =>
    obtain ⟨sc, np⟩ := r
    rw [hsc] at h; simp only at h
    obtain ⟨i1, i2, i3⟩ := scan_ok l _ _ _ _ _ _ hsc
    simp only [Bool.false_or] at i2 i3
    by_cases hb : (!sc && !np && !isKeyword s) = true
    · -- bare
      simp only [hb, ↓reduceIte] at h; cases h
      simp only [Bool.and_eq_true, Bool.not_eq_true'] at hb
      obtain ⟨⟨hsc0, hnp0⟩, hkw⟩ := hb
      have hpt : ∀ t ∈ runes s, PTok t := fun t m =>
        ptok_of (hok t m) (any_false_all (by rw [← i3]; exact hnp0) t m)
      have hbare : ∀ b ∈ s, isBareByte b = true ∧ b ≠ 0x23 ∧ b ≠ 0x7e ∧ b ≠ 0x3d ∧ b ≠ 0x7b := by
        intro b m
        rw [← hj] at m
        obtain ⟨t, mt, mb⟩ := List.mem_flatMap.mp m
        exact ptok_bare (hpt t mt) (any_false_all (by rw [← i2]; exact hsc0) t mt) b mb
      have hcl : Clean s := by rw [← hj]; exact clean_toks _ hpt
      have hz : (0 : UInt8) ∉ s := by rw [← hj]; exact no_zero_toks hpt
      cases s with
      | nil => exact absurd rfl hs
      | cons c rest =>
        obtain ⟨_, c23, c7e, _, _⟩ := hbare c (List.mem_cons_self ..)
        refine ⟨[.lit (c :: rest)], ?_, Or.inl ⟨_, rfl⟩, ?_, ?_⟩
        rotate_left 2
        · intro v r e; cases e
          exact ⟨rfl, rfl, hkw, fun m => (hbare _ m).2.2.2.1 rfl, fun m => (hbare _ m).2.2.2.2 rfl⟩
        · rw [lexWords_clean _ hcl]
          have : (c :: rest).length + 1 = rest.length + 2 := by simp
          rw [this]
          exact lexF_bare _ _ c rest (fun b m => (hbare b m).1) c23
        · simp only [expandLit, expandParts, expandPart, List.head?_cons, Option.some.injEq, c7e,
            and_false, ↓reduceIte, cutNul_id _ hz, List.append_nil]
    · simp only [hb, Bool.false_eq_true, ↓reduceIte] at h
      cases hnp : np with
      | true =>
        -- $'…'
        rw [hnp] at h i3
        simp only [↓reduceIte] at h
        cases hd : dollarBody l (runes s) 0 false with
        | error e => rw [hd] at h; cases h
        | ok body =>
          rw [hd] at h; simp only at h; cases h
          obtain ⟨t0, m0, hn0⟩ := List.any_eq_true.mp i3.symm
          have hposix : langIn l langPOSIX = false := by
            cases hp : langIn l langPOSIX
            · rfl
            · have := (i1 t0 m0).2 hp; rw [this] at hn0; cases hn0
          have hl := dollSglOK_of hv hposix
          have hbody := dollar_clean l _ _ _ body hok hd
          have hd24 : Clean ([0x24, 0x27] : Bytes) :=
            clean_ascii _ (by intro b m; simp at m; rcases m with rfl | rfl <;> decide)
          have hcl : Clean ([0x24, 0x27] ++ body ++ [0x27]) :=
            Clean.append (Clean.append hd24 hbody) hq27
          have hlen := dollar_len l _ _ _ body hd
          obtain ⟨parts, h1, h2, h3, h4⟩ :=
            dollar_lex l (resolve l) hl (runes s) 0 false body [] [] [] []
              (([0x24, 0x27] ++ body ++ [0x27]).length + 1)
              (fun t m => ⟨hok t m, (i1 t m).1⟩) hd Closed.nil (by simp) (by simp; omega)
          refine ⟨parts, ?_, Or.inr (Or.inr (Or.inr ⟨h2, h3⟩)), ?_, ?_⟩
          rotate_left 2
          · intro v r e; subst e
            obtain ⟨v', hv'⟩ := h3 _ (List.mem_cons_self ..); cases hv'
          · rw [lexWords_clean _ hcl]
            simp only [List.nil_append, List.cons_append, finish, h2, ↓reduceIte] at h1 ⊢
            exact h1
          · rw [expandLit, expandParts_sgl_first parts h3, h4, hj]; rfl
      | false =>
        rw [hnp] at h i3
        simp only [Bool.false_eq_true, ↓reduceIte] at h
        have hpt : ∀ t ∈ runes s, PTok t := fun t m =>
          ptok_of (hok t m) (any_false_all i3.symm t m)
        have hcl : Clean s := by rw [← hj]; exact clean_toks _ hpt
        have hz : (0 : UInt8) ∉ s := by rw [← hj]; exact no_zero_toks hpt
        by_cases hq : (!s.contains 0x27) = true
        · -- '…'
          simp only [hq, ↓reduceIte] at h; cases h
          have hno : ∀ b ∈ s, b ≠ 0x27 := by
            intro b m e; subst e
            simp only [Bool.not_eq_true', List.contains_eq_mem, decide_eq_false_iff_not] at hq
            exact hq m
          refine ⟨[.sgl false s], ?_, Or.inr (Or.inl ⟨_, rfl⟩), ?_, by intro v r e; cases e⟩
          · rw [lexWords_clean _ (Clean.append (Clean.append hq27 hcl) hq27)]
            have : ([0x27] ++ s ++ [0x27] : Bytes).length + 1 = (s.length + 1) + 2 := by simp
            rw [this]
            exact lexF_sgl _ _ s hno
          · simp only [expandLit, expandParts, expandPart, List.append_nil]
        · -- "…"
          simp only [hq, Bool.false_eq_true, ↓reduceIte] at h; cases h
          have hq22 : Clean ([0x22] : Bytes) :=
            clean_ascii _ (by intro b m; simp at m; subst m; decide)
          refine ⟨[.dbl (dqBody (runes s))], ?_, Or.inr (Or.inr (Or.inl ⟨_, rfl⟩)), ?_, by intro v r e; cases e⟩
          · rw [lexWords_clean _ (Clean.append (Clean.append hq22 (dq_clean _ hpt)) hq22)]
            have : ([0x22] ++ dqBody (runes s) ++ [0x22] : Bytes).length + 1 =
                ((dqBody (runes s)).length + 1) + 2 := by simp
            rw [this]
            exact lexF_dq _ _ _ (dq_scan _ [] hpt)
          · have hz' : (0 : UInt8) ∉ dqUnescape (dqBody (runes s)) := by
              rw [dq_unescape _ hpt, hj]; exact hz
            rw [dq_unescape _ hpt, hj] at hz'
            simp only [expandLit, expandParts, expandPart, dq_unescape _ hpt, hj, cutNul_id _ hz',
              List.append_nil]


/-! ## `LangVariant.in` for non-zero bit sets -/

/-- For a non-zero bit set, `l.in(LangPOSIX)` / `l.in(LangMirBSDKorn)` is plain equality. -/
theorem langIn_eq_of_ne_zero (l m : Nat) (hm : m = 2 ∨ m = 4) (h : l ≠ 0) :
    langIn l m = (l == m) := by
  unfold langIn
  by_cases hle : l ≤ m
  · rcases hm with hm | hm <;> subst hm
    · have : l = 1 ∨ l = 2 := by omega
      rcases this with rfl | rfl <;> decide
    · have : l = 1 ∨ l = 2 ∨ l = 3 ∨ l = 4 := by omega
      rcases this with rfl | rfl | rfl | rfl <;> decide
  · have h1 : l &&& m ≤ m := Nat.and_le_right
    have h2 : (l &&& m) ≠ l := by omega
    have h3 : l ≠ m := by omega
    rw [beq_eq_false_iff_ne.mpr h2, beq_eq_false_iff_ne.mpr h3]


/-! ## Where the error points -/

/-- `t` is a rune at which Quote stops with error kind `k`. -/
def Offending (l : Lang) (k : ErrKind) (t : Tok) : Prop :=
  match k with
  | .null => t.r = 0
  | .posix => t.r ≠ 0 ∧ langIn l langPOSIX = true ∧ nonPrint t.r = true
  | .mksh => langIn l langMksh = true ∧ t.r > 0xFFFD ∧ isPrint t.r = false
  | .range => False

def sizes (ts : List Tok) : Nat := (ts.map Tok.size).sum

theorem sizes_raw : ∀ ts : List Tok, (∀ t ∈ ts, TokOK t) → sizes ts = (ts.flatMap Tok.raw).length := by
  intro ts
  induction ts with
  | nil => intro _; rfl
  | cons t ts ih =>
    intro h
    have ht : t.size = t.raw.length := by
      rcases h t (List.mem_cons_self ..) with ⟨_, h2, b, hb, _⟩ | ⟨_, h2⟩
      · rw [h2, hb]; rfl
      · exact h2
    have := ih fun t' m => h t' (List.mem_cons_of_mem _ m)
    simp only [sizes, List.map_cons, List.sum_cons, List.flatMap_cons, List.length_append] at this ⊢
    omega

theorem scan_error_at (l : Lang) : ∀ (ts : List Tok) (offs : Nat) (sc np : Bool) (e : QErr),
    scan l ts offs sc np = .error e →
    ∃ pre t post, ts = pre ++ t :: post ∧ e.offs = offs + sizes pre ∧ Offending l e.kind t ∧
      (∀ t' ∈ pre, ¬ Offending l .null t' ∧ ¬ Offending l .posix t') := by
  intro ts
  induction ts with
  | nil => intro offs sc np e h; simp only [scan] at h; cases h
  | cons t ts ih =>
    intro offs sc np e h
    have step : ∀ sc' np', t.r ≠ 0 → ¬(langIn l langPOSIX = true ∧ nonPrint t.r = true) →
        scan l ts (offs + t.size) sc' np' = .error e →
        ∃ pre t' post, t :: ts = pre ++ t' :: post ∧ e.offs = offs + sizes pre ∧
          Offending l e.kind t' ∧ (∀ t'' ∈ pre, ¬ Offending l .null t'' ∧ ¬ Offending l .posix t'') := by
      intro sc' np' h0 hnp hrec
      obtain ⟨pre, t', post, e1, e2, e3, e4⟩ := ih _ _ _ _ hrec
      refine ⟨t :: pre, t', post, by rw [e1]; rfl, ?_, e3, ?_⟩
      · rw [e2]; simp only [sizes, List.map_cons, List.sum_cons]; omega
      · intro t'' m
        rcases List.mem_cons.mp m with rfl | m
        · exact ⟨h0, fun ⟨_, a, b⟩ => hnp ⟨a, b⟩⟩
        · exact e4 t'' m
    by_cases c0 : t.r = 0
    · simp only [scan, c0, ↓reduceIte] at h; cases h
      exact ⟨[], t, ts, rfl, by simp [sizes], c0, by simp⟩
    by_cases c1 : nonPrint t.r = true
    · by_cases c2 : langIn l langPOSIX = true
      · simp only [scan, c0, c1, c2, ↓reduceIte] at h; cases h
        exact ⟨[], t, ts, rfl, by simp [sizes], ⟨c0, c2, c1⟩, by simp⟩
      · simp only [scan, c0, c1, c2, ↓reduceIte] at h
        exact step _ _ c0 (fun ⟨a, _⟩ => c2 a) h
    · simp only [scan, c0, c1, ↓reduceIte] at h
      exact step _ _ c0 (fun ⟨_, b⟩ => c1 b) h

theorem dollar_error_at (l : Lang) : ∀ (ts : List Tok) (offs : Nat) (last : Bool) (e : QErr),
    (∀ t ∈ ts, TokOK t) → dollarBody l ts offs last = .error e →
    ∃ pre t post, ts = pre ++ t :: post ∧ e.offs = offs + sizes pre ∧ e.kind = .mksh ∧
      Offending l .mksh t ∧ (∀ t' ∈ pre, ¬ Offending l .mksh t') := by
  intro ts
  induction ts with
  | nil => intro offs last e _ h; simp only [dollarBody] at h; cases h
  | cons t ts ih =>
    intro offs last e hok h
    simp only [dollarBody] at h
    cases hp : piece l last t with
    | error k =>
      rw [hp] at h; simp only at h; cases h
      obtain ⟨rfl, a, b, c⟩ := (piece_error_iff l last t k (hok t (List.mem_cons_self ..))).mp hp
      exact ⟨[], t, ts, rfl, by simp [sizes], rfl, ⟨a, b, c⟩, by simp⟩
    | ok r =>
      obtain ⟨p, nxt⟩ := r
      rw [hp] at h; simp only at h
      cases hd : dollarBody l ts (offs + t.size) nxt with
      | ok rest => rw [hd] at h; simp only at h; cases h
      | error e' =>
        rw [hd] at h; simp only at h; cases h
        obtain ⟨pre, t', post, e1, e2, e3, e4, e5⟩ :=
          ih _ _ _ (fun t' m => hok t' (List.mem_cons_of_mem _ m)) hd
        refine ⟨t :: pre, t', post, by rw [e1]; rfl, ?_, e3, e4, ?_⟩
        · rw [e2]; simp only [sizes, List.map_cons, List.sum_cons]; omega
        · intro t'' m
          rcases List.mem_cons.mp m with rfl | m
          · intro ⟨a, b, c⟩
            have := (piece_error_iff l last t'' .mksh (hok t'' (List.mem_cons_self ..))).mpr
              ⟨rfl, a, b, c⟩
            rw [hp] at this; cases this
          · exact e5 t'' m

/-- The reported byte offset is where the first offending rune (for the reported kind) starts:
    the decode steps split as `pre ++ t :: post`, `ByteOffset` is the total length of `pre`. -/
theorem quote_error_at (l : Lang) (s : Bytes) (e : QErr) (h : quoteCore l s = .error e) :
    ∃ pre t post, runes s = pre ++ t :: post ∧ e.offs = (pre.flatMap Tok.raw).length ∧
      Offending l e.kind t ∧ ∀ t' ∈ pre, ¬ Offending l e.kind t' := by
  have hok := runes_ok s
  have hsz : ∀ pre t post, runes s = pre ++ t :: post → sizes pre = (pre.flatMap Tok.raw).length := by
    intro pre t post hr
    exact sizes_raw pre fun t' m => hok t' (by rw [hr]; exact List.mem_append_left _ m)
  by_cases hs : s = []
  · subst hs; simp [quoteCore] at h
  unfold quoteCore at h
  simp only [hs, ↓reduceIte] at h
  cases hsc : scan l (runes s) 0 false false with
  | error e' =>
    rw [hsc] at h; cases h
    obtain ⟨pre, t, post, e1, e2, e3, e4⟩ := scan_error_at l _ _ _ _ e hsc
    refine ⟨pre, t, post, e1, by rw [e2, hsz pre t post e1]; simp, e3, ?_⟩
    intro t' m
    have := e4 t' m
    cases hk : e.kind <;> rw [hk] at e3
    · exact this.1
    · exact this.2
    · exact absurd e3 id
    · intro _
      rcases scan_error l _ _ _ _ e hsc with ⟨a, _⟩ | ⟨a, _⟩ <;> rw [hk] at a <;> cases a
  | ok r =>
    obtain ⟨sc, np⟩ := r
    rw [hsc] at h; simp only at h
    by_cases hb : (!sc && !np && !isKeyword s) = true
    · simp only [hb, ↓reduceIte] at h; cases h
    · simp only [hb, Bool.false_eq_true, ↓reduceIte] at h
      cases hnp : np with
      | false =>
        rw [hnp] at h; simp only [Bool.false_eq_true, ↓reduceIte] at h
        split at h <;> cases h
      | true =>
        rw [hnp] at h; simp only [↓reduceIte] at h
        cases hd : dollarBody l (runes s) 0 false with
        | ok body => rw [hd] at h; cases h
        | error e' =>
          rw [hd] at h; cases h
          obtain ⟨pre, t, post, e1, e2, e3, e4, e5⟩ := dollar_error_at l _ _ _ e hok hd
          refine ⟨pre, t, post, e1, by rw [e2, hsz pre t post e1]; simp, by rw [e3]; exact e4, ?_⟩
          rw [e3]; exact e5


/-! ## Error kinds of the body -/

theorem quoteCore_error_kind (l : Lang) (s : Bytes) (e : QErr) (h : quoteCore l s = .error e) :
    (e.kind = .null ∧ s.contains 0x00 = true) ∨
    (e.kind = .posix ∧ langIn l langPOSIX = true ∧ ∃ t ∈ runes s, nonPrint t.r = true) ∨
    (e.kind = .mksh ∧ langIn l langMksh = true ∧ langIn l langPOSIX = false ∧
      s.contains 0x00 = false ∧ ∃ t ∈ runes s, t.r > 0xFFFD ∧ isPrint t.r = false) := by
  have hok := runes_ok s
  by_cases hs : s = []
  · subst hs; simp [quoteCore] at h
  unfold quoteCore at h
  simp only [hs, ↓reduceIte] at h
  cases hsc : scan l (runes s) 0 false false with
  | error e' =>
    rw [hsc] at h; cases h
    rcases scan_error l _ _ _ _ e hsc with ⟨a, t, m, b⟩ | ⟨a, a', t, m, b⟩
    · exact Or.inl ⟨a, (contains_zero_iff s).mpr ⟨t, m, b⟩⟩
    · exact Or.inr (Or.inl ⟨a, a', t, m, b⟩)
  | ok r =>
    obtain ⟨sc, np⟩ := r
    rw [hsc] at h; simp only at h
    obtain ⟨i1, _, i3⟩ := scan_ok l _ _ _ _ _ _ hsc
    by_cases hb : (!sc && !np && !isKeyword s) = true
    · simp only [hb, ↓reduceIte] at h; cases h
    · simp only [hb, Bool.false_eq_true, ↓reduceIte] at h
      cases hnp : np with
      | false =>
        rw [hnp] at h; simp only [Bool.false_eq_true, ↓reduceIte] at h
        split at h <;> cases h
      | true =>
        rw [hnp] at h i3; simp only [↓reduceIte] at h
        cases hd : dollarBody l (runes s) 0 false with
        | ok body => rw [hd] at h; cases h
        | error e' =>
          rw [hd] at h; cases h
          obtain ⟨a, b, t, m, c⟩ := dollar_error l _ _ _ e hok hd
          simp only [Bool.false_or] at i3
          obtain ⟨t0, m0, hn0⟩ := List.any_eq_true.mp i3.symm
          have hposix : langIn l langPOSIX = false := by
            cases hp : langIn l langPOSIX
            · rfl
            · have := (i1 t0 m0).2 hp; rw [this] at hn0; cases hn0
          have hz : s.contains 0x00 = false := by
            cases hc : s.contains 0x00
            · rfl
            · obtain ⟨t', m', h'⟩ := (contains_zero_iff s).mp hc
              exact absurd h' (i1 t' m').1
          exact Or.inr (Or.inr ⟨a, b, hposix, hz, t, m, c⟩)


/-! ## The legacy zero value -/

theorem resolve_ne_zero (l : Nat) : resolve l ≠ 0 := by
  unfold resolve
  split
  · decide
  · assumption

theorem resolve_idem (l : Nat) : resolve (resolve l) = resolve l := by
  have h := resolve_ne_zero l
  generalize resolve l = r at h
  simp [resolve, h]

theorem validLang_resolve (l : Lang) (h : validLang l = true) : validLang (resolve l) = true := by
  unfold resolve; split
  · decide
  · exact h

/-! ## Command position helpers -/

theorem firstEq_none : ∀ v : Bytes, (0x3d : UInt8) ∉ v → firstEq v = none := by
  intro v
  induction v with
  | nil => intro _; rfl
  | cons c v ih =>
    intro h
    have hc : c ≠ 0x3d := fun e => h (by simp [e])
    simp only [firstEq, hc, ↓reduceIte, ih (fun m => h (List.mem_cons_of_mem _ m)), Option.map]

theorem stmtWord_false (l : Lang) (s : Bytes) (hk : isKeyword s = false)
    (hb : (0x7b : UInt8) ∉ s) (hc : clauseWord l s = false) : stmtWord l s = false := by
  have k1 : ∀ x ∈ ([[0x21], [0x63, 0x61, 0x73, 0x65], [0x64, 0x6f], [0x64, 0x6f, 0x6e, 0x65],
      [0x65, 0x73, 0x61, 0x63], [0x66, 0x69], [0x66, 0x6f, 0x72], [0x69, 0x66],
      [0x74, 0x68, 0x65, 0x6e], [0x75, 0x6e, 0x74, 0x69, 0x6c], [0x77, 0x68, 0x69, 0x6c, 0x65],
      [0x7b], [0x7d], elifWord] : List Bytes), isKeyword x = true := by decide
  have k2 : ∀ x ∈ ([[0x5b, 0x5b], [0x5d, 0x5d], [0x66, 0x75, 0x6e, 0x63, 0x74, 0x69, 0x6f, 0x6e],
      [0x73, 0x65, 0x6c, 0x65, 0x63, 0x74], [0x74, 0x69, 0x6d, 0x65]] : List Bytes),
      isKeyword x = true := by decide
  have k3 : isKeyword [0x63, 0x6f, 0x70, 0x72, 0x6f, 0x63] = true := by decide
  unfold stmtWord
  simp only [hc, Bool.or_false, Bool.or_eq_false_iff, Bool.and_eq_false_iff]
  refine ⟨⟨⟨?_, ?_⟩, ?_⟩, ?_⟩
  · cases hm : List.contains _ s with
    | false => rfl
    | true =>
      have e := k1 s (List.contains_iff_mem.mp hm); rw [hk] at e; cases e
  · right
    cases hm : List.contains _ s with
    | false => rfl
    | true => have e := k2 s (List.contains_iff_mem.mp hm); rw [hk] at e; cases e
  · right
    cases hm : (s == [0x63, 0x6f, 0x70, 0x72, 0x6f, 0x63]) with
    | false => rfl
    | true => rw [beq_iff_eq.mp hm, k3] at hk; cases hk
  · right
    cases hm : (s == [0x7b, 0x7d]) with
    | false => rfl
    | true => exact absurd (by rw [beq_iff_eq.mp hm]; simp) hb


end ShVerif.C13
