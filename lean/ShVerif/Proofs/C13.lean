import ShVerif.Model.C13
/-
  C13 — helper lemmas for the Quote theorems (Props/C13.lean).
  Sections: UTF-8 (decode/encode), the decode loop `runes`, the two Quote loops, the `$'…'`
  escape reader `fmtEsc`, the lexer on Quote's output shapes.
-/
namespace ShVerif.C13

/-! ## Bytes -/

theorem byte_eq_iff (b : UInt8) (n : Nat) (hn : n < 256) : b = UInt8.ofNat n ↔ b.toNat = n := by
  constructor
  · intro h; subst h; simp [UInt8.toNat_ofNat']; omega
  · intro h; subst h; simp

theorem ofNat_toNat (b : UInt8) : UInt8.ofNat b.toNat = b := UInt8.ofNat_toNat

theorem toNat_lt (b : UInt8) : b.toNat < 256 := UInt8.toNat_lt b

/-! ## UTF-8 -/

/-- `p` is the (canonical) UTF-8 encoding of the scalar value `r`. -/
def ValidEnc (p : Bytes) (r : Nat) : Prop :=
  (∃ b0 : UInt8, p = [b0] ∧ b0.toNat < 0x80 ∧ r = b0.toNat) ∨
  (∃ b0 b1 : UInt8, p = [b0, b1] ∧ 0xC2 ≤ b0.toNat ∧ b0.toNat < 0xE0 ∧
      0x80 ≤ b1.toNat ∧ b1.toNat ≤ 0xBF ∧
      r = (b0.toNat - 0xC0) * 64 + (b1.toNat - 0x80)) ∨
  (∃ b0 b1 b2 : UInt8, p = [b0, b1, b2] ∧ 0xE0 ≤ b0.toNat ∧ b0.toNat < 0xF0 ∧
      accLo b0.toNat ≤ b1.toNat ∧ b1.toNat ≤ accHi b0.toNat ∧
      0x80 ≤ b2.toNat ∧ b2.toNat ≤ 0xBF ∧
      r = (b0.toNat - 0xE0) * 4096 + (b1.toNat - 0x80) * 64 + (b2.toNat - 0x80)) ∨
  (∃ b0 b1 b2 b3 : UInt8, p = [b0, b1, b2, b3] ∧ 0xF0 ≤ b0.toNat ∧ b0.toNat < 0xF5 ∧
      accLo b0.toNat ≤ b1.toNat ∧ b1.toNat ≤ accHi b0.toNat ∧
      0x80 ≤ b2.toNat ∧ b2.toNat ≤ 0xBF ∧ 0x80 ≤ b3.toNat ∧ b3.toNat ≤ 0xBF ∧
      r = (b0.toNat - 0xF0) * 262144 + (b1.toNat - 0x80) * 4096 + (b2.toNat - 0x80) * 64 +
        (b3.toNat - 0x80))


theorem ValidEnc.cases {p : Bytes} {r : Nat} (h : ValidEnc p r) {C : Prop}
    (c1 : ∀ b0 : UInt8, p = [b0] → b0.toNat < 0x80 → r = b0.toNat → C)
    (c2 : ∀ b0 b1 : UInt8, p = [b0, b1] → 0xC2 ≤ b0.toNat → b0.toNat < 0xE0 →
      0x80 ≤ b1.toNat → b1.toNat ≤ 0xBF → r = (b0.toNat - 0xC0) * 64 + (b1.toNat - 0x80) → C)
    (c3 : ∀ b0 b1 b2 : UInt8, p = [b0, b1, b2] → 0xE0 ≤ b0.toNat → b0.toNat < 0xF0 →
      accLo b0.toNat ≤ b1.toNat → b1.toNat ≤ accHi b0.toNat →
      0x80 ≤ b2.toNat → b2.toNat ≤ 0xBF →
      r = (b0.toNat - 0xE0) * 4096 + (b1.toNat - 0x80) * 64 + (b2.toNat - 0x80) → C)
    (c4 : ∀ b0 b1 b2 b3 : UInt8, p = [b0, b1, b2, b3] → 0xF0 ≤ b0.toNat → b0.toNat < 0xF5 →
      accLo b0.toNat ≤ b1.toNat → b1.toNat ≤ accHi b0.toNat →
      0x80 ≤ b2.toNat → b2.toNat ≤ 0xBF → 0x80 ≤ b3.toNat → b3.toNat ≤ 0xBF →
      r = (b0.toNat - 0xF0) * 262144 + (b1.toNat - 0x80) * 4096 + (b2.toNat - 0x80) * 64 +
        (b3.toNat - 0x80) → C) : C := by
  unfold ValidEnc at h
  rcases h with h | h | h | h
  · obtain ⟨b0, a, b, c⟩ := h; exact c1 b0 a b c
  · obtain ⟨b0, b1, a, b, c, d, e, f⟩ := h; exact c2 b0 b1 a b c d e f
  · obtain ⟨b0, b1, b2, a, b, c, d, e, f, g, i⟩ := h; exact c3 b0 b1 b2 a b c d e f g i
  · obtain ⟨b0, b1, b2, b3, a, b, c, d, e, f, g, i, j, k⟩ := h
    exact c4 b0 b1 b2 b3 a b c d e f g i j k

/-- Every decode step either reports an invalid byte (≥ 0x80, width 1) or consumes a valid
    encoding of the rune it returns. -/
theorem decode_cases (s0 : UInt8) (rest : Bytes) :
    (decodeRune (s0 :: rest) = (runeError, 1) ∧ 0x80 ≤ s0.toNat) ∨
    ∃ p tl, s0 :: rest = p ++ tl ∧ ValidEnc p (decodeRune (s0 :: rest)).1 ∧
      (decodeRune (s0 :: rest)).2 = p.length := by
  unfold decodeRune
  simp only
  split
  · right; exact ⟨[s0], rest, rfl, Or.inl ⟨s0, rfl, by assumption, rfl⟩, rfl⟩
  · split
    · left; exact ⟨rfl, by omega⟩
    · split
      · split
        · rename_i s1 tl
          split
          · right
            refine ⟨[s0, s1], tl, rfl, Or.inr (Or.inl ⟨s0, s1, rfl, ?_⟩), rfl⟩
            omega
          · left; exact ⟨rfl, by omega⟩
        · left; exact ⟨rfl, by omega⟩
      · split
        · split
          · rename_i s1 s2 tl
            split
            · split
              · right
                refine ⟨[s0, s1, s2], tl, rfl, Or.inr (Or.inr (Or.inl ⟨s0, s1, s2, rfl, ?_⟩)), rfl⟩
                omega
              · left; exact ⟨rfl, by omega⟩
            · left; exact ⟨rfl, by omega⟩
          · left; exact ⟨rfl, by omega⟩
        · split
          · split
            · rename_i s1 s2 s3 tl
              split
              · split
                · split
                  · right
                    refine ⟨[s0, s1, s2, s3], tl, rfl,
                      Or.inr (Or.inr (Or.inr ⟨s0, s1, s2, s3, rfl, ?_⟩)), rfl⟩
                    omega
                  · left; exact ⟨rfl, by omega⟩
                · left; exact ⟨rfl, by omega⟩
              · left; exact ⟨rfl, by omega⟩
            · left; exact ⟨rfl, by omega⟩
          · left; exact ⟨rfl, by omega⟩

/-- Decoding depends only on the bytes of a valid encoding. -/
theorem decode_valid {p : Bytes} {r : Nat} (h : ValidEnc p r) (tl : Bytes) :
    decodeRune (p ++ tl) = (r, p.length) := by
  refine h.cases ?_ ?_ ?_ ?_
  · intro b0 hp h1 er; subst hp
    simp [decodeRune, h1, er]
  · intro b0 b1 hp h1 h2 h3 h4 er; subst hp
    have a1 : ¬ b0.toNat < 0x80 := by omega
    have a2 : ¬ b0.toNat < 0xC2 := by omega
    simp [decodeRune, a1, a2, h2, h3, h4, er]
  · intro b0 b1 b2 hp h1 h2 h3 h4 h5 h6 er; subst hp
    have a1 : ¬ b0.toNat < 0x80 := by omega
    have a2 : ¬ b0.toNat < 0xC2 := by omega
    have a3 : ¬ b0.toNat < 0xE0 := by omega
    simp [decodeRune, a1, a2, a3, h2, h3, h4, h5, h6, er]
  · intro b0 b1 b2 b3 hp h1 h2 h3 h4 h5 h6 h7 h8 er; subst hp
    have a1 : ¬ b0.toNat < 0x80 := by omega
    have a2 : ¬ b0.toNat < 0xC2 := by omega
    have a3 : ¬ b0.toNat < 0xE0 := by omega
    have a4 : ¬ b0.toNat < 0xF0 := by omega
    simp [decodeRune, a1, a2, a3, a4, h2, h3, h4, h5, h6, h7, h8, er]

theorem accLo_ge (b : Nat) : 0x80 ≤ accLo b := by
  unfold accLo; split
  · omega
  · split <;> omega
theorem accHi_le (b : Nat) : accHi b ≤ 0xBF := by
  unfold accHi; split
  · omega
  · split <;> omega

/-- `WriteRune` of a decoded rune gives back the bytes it was decoded from. -/
theorem encode_valid {p : Bytes} {r : Nat} (h : ValidEnc p r) : encodeRune r = p := by
  refine h.cases ?_ ?_ ?_ ?_
  · intro b0 hp h1 er; subst hp
    simp [encodeRune, h1, er]
  · intro b0 b1 hp h1 h2 h3 h4 er; subst hp
    have e1 : ¬ r < 0x80 := by omega
    have e2 : r < 0x800 := by omega
    have e3 : 0xC0 + r / 64 = b0.toNat := by omega
    have e4 : 0x80 + r % 64 = b1.toNat := by omega
    simp only [encodeRune, e1, e2, if_true, if_false, e3, e4, ofNat_toNat]
  · intro b0 b1 b2 hp h1 h2 h3 h4 h5 h6 er; subst hp
    have l1 := accLo_ge b0.toNat
    have l2 := accHi_le b0.toNat
    have l3 : b0.toNat = 0xE0 → 0xA0 ≤ b1.toNat := by intro e; simp [accLo, e] at h3; exact h3
    have l4 : b0.toNat = 0xED → b1.toNat ≤ 0x9F := by intro e; simp [accHi, e] at h4; exact h4
    have e1 : ¬ r < 0x80 := by omega
    have e2 : ¬ r < 0x800 := by omega
    have e3 : ¬ (r > maxRune ∨ (0xD800 ≤ r ∧ r ≤ 0xDFFF)) := by unfold maxRune; omega
    have e4 : r < 0x10000 := by omega
    have e5 : 0xE0 + r / 4096 = b0.toNat := by omega
    have e6 : 0x80 + r / 64 % 64 = b1.toNat := by omega
    have e7 : 0x80 + r % 64 = b2.toNat := by omega
    simp only [encodeRune, e1, e2, e3, e4, if_true, if_false, e5, e6, e7, ofNat_toNat]
  · intro b0 b1 b2 b3 hp h1 h2 h3 h4 h5 h6 h7 h8 er; subst hp
    have l1 := accLo_ge b0.toNat
    have l2 := accHi_le b0.toNat
    have l3 : b0.toNat = 0xF0 → 0x90 ≤ b1.toNat := by intro e; simp [accLo, e] at h3; exact h3
    have l4 : b0.toNat = 0xF4 → b1.toNat ≤ 0x8F := by intro e; simp [accHi, e] at h4; exact h4
    have e1 : ¬ r < 0x80 := by omega
    have e2 : ¬ r < 0x800 := by omega
    have e3 : ¬ (r > maxRune ∨ (0xD800 ≤ r ∧ r ≤ 0xDFFF)) := by unfold maxRune; omega
    have e4 : ¬ r < 0x10000 := by omega
    have e5 : 0xF0 + r / 262144 = b0.toNat := by omega
    have e6 : 0x80 + r / 4096 % 64 = b1.toNat := by omega
    have e7 : 0x80 + r / 64 % 64 = b2.toNat := by omega
    have e8 : 0x80 + r % 64 = b3.toNat := by omega
    simp only [encodeRune, e1, e2, e3, e4, if_false, e5, e6, e7, e8, ofNat_toNat]

theorem valid_le_maxRune {p : Bytes} {r : Nat} (h : ValidEnc p r) : r ≤ maxRune := by
  unfold maxRune
  refine h.cases ?_ ?_ ?_ ?_
  · intro b0 hp h1 er; subst hp
    omega
  · intro b0 b1 hp h1 h2 h3 h4 er; subst hp
    omega
  · intro b0 b1 b2 hp h1 h2 h3 h4 h5 h6 er; subst hp
    have l2 := accHi_le b0.toNat; omega
  · intro b0 b1 b2 b3 hp h1 h2 h3 h4 h5 h6 h7 h8 er; subst hp
    have l2 := accHi_le b0.toNat
    have l4 : b0.toNat = 0xF4 → b1.toNat ≤ 0x8F := by intro e; simp [accHi, e] at h4; exact h4
    omega

/-- ASCII runes are one byte; all bytes of a longer encoding are ≥ 0x80. -/
theorem valid_ascii {p : Bytes} {r : Nat} (h : ValidEnc p r) (hr : r < 0x80) :
    ∃ b : UInt8, p = [b] ∧ b.toNat = r := by
  refine h.cases ?_ ?_ ?_ ?_
  · intro b0 hp h1 er; subst hp
    exact ⟨b0, rfl, er.symm⟩
  · intro b0 b1 hp h1 h2 h3 h4 er; subst hp
    omega
  · intro b0 b1 b2 hp h1 h2 h3 h4 h5 h6 er; subst hp
    have l1 := accLo_ge b0.toNat
    have l3 : b0.toNat = 0xE0 → 0xA0 ≤ b1.toNat := by intro e; simp [accLo, e] at h3; exact h3
    omega
  · intro b0 b1 b2 b3 hp h1 h2 h3 h4 h5 h6 h7 h8 er; subst hp
    have l1 := accLo_ge b0.toNat
    have l3 : b0.toNat = 0xF0 → 0x90 ≤ b1.toNat := by intro e; simp [accLo, e] at h3; exact h3
    omega

theorem valid_high {p : Bytes} {r : Nat} (h : ValidEnc p r) (hr : 0x80 ≤ r) :
    ∀ b ∈ p, 0x80 ≤ b.toNat := by
  have l1 := fun b => accLo_ge b
  refine h.cases ?_ ?_ ?_ ?_
  · intro b0 hp h1 er; subst hp
    omega
  · intro b0 b1 hp h1 h2 h3 h4 er; subst hp
    intro b hb; simp at hb; rcases hb with rfl | rfl <;> omega
  · intro b0 b1 b2 hp h1 h2 h3 h4 h5 h6 er; subst hp
    intro b hb; simp at hb; have := l1 b0.toNat; rcases hb with rfl | rfl | rfl <;> omega
  · intro b0 b1 b2 b3 hp h1 h2 h3 h4 h5 h6 h7 h8 er; subst hp
    intro b hb; simp at hb; have := l1 b0.toNat; rcases hb with rfl | rfl | rfl | rfl <;> omega

theorem valid_ne_nil {p : Bytes} {r : Nat} (h : ValidEnc p r) : p ≠ [] := by
  refine h.cases ?_ ?_ ?_ ?_ <;> (intros; subst_vars; simp)

/-! ## The decode loop -/

theorem decode_size (s0 : UInt8) (rest : Bytes) :
    1 ≤ (decodeRune (s0 :: rest)).2 ∧ (decodeRune (s0 :: rest)).2 ≤ rest.length + 1 := by
  rcases decode_cases s0 rest with ⟨h, _⟩ | ⟨p, tl, hs, hv, hl⟩
  · rw [h]; simp
  · have hne := valid_ne_nil hv
    have : (s0 :: rest).length = p.length + tl.length := by rw [hs]; simp
    simp at this
    rw [hl]
    cases p with
    | nil => exact absurd rfl hne
    | cons a p' => simp at this ⊢; omega

theorem runesF_fuel2 : ∀ (n m : Nat) (s : Bytes), s.length ≤ n → s.length ≤ m →
    runesF n s = runesF m s := by
  intro n
  induction n with
  | zero => intro m s h _; cases s with
    | nil => cases m <;> rfl
    | cons a t => simp at h
  | succ n ih =>
    intro m s h hm
    cases s with
    | nil => cases m <;> rfl
    | cons s0 rest =>
      cases m with
      | zero => simp at hm
      | succ m =>
        have hd := decode_size s0 rest
        have hlen : ((s0 :: rest).drop (decodeRune (s0 :: rest)).2).length ≤ rest.length := by
          simp only [List.length_drop, List.length_cons]; omega
        simp only [runesF]
        simp only [List.length_cons] at h hm
        rw [ih m _ (by omega) (by omega)]

theorem runesF_fuel (n : Nat) (s : Bytes) (h : s.length ≤ n) : runesF n s = runesF s.length s :=
  runesF_fuel2 n s.length s h (Nat.le_refl _)

theorem runes_nil : runes [] = [] := rfl

theorem runes_cons (s0 : UInt8) (rest : Bytes) :
    runes (s0 :: rest) =
      ⟨(decodeRune (s0 :: rest)).1, (decodeRune (s0 :: rest)).2,
        (s0 :: rest).take (decodeRune (s0 :: rest)).2⟩ ::
        runes ((s0 :: rest).drop (decodeRune (s0 :: rest)).2) := by
  have hd := decode_size s0 rest
  have hlen : ((s0 :: rest).drop (decodeRune (s0 :: rest)).2).length ≤ rest.length := by
    simp only [List.length_drop, List.length_cons]; omega
  unfold runes
  simp only [List.length_cons, runesF]
  rw [runesF_fuel _ _ hlen]

/-- What one decode step yields: an invalid byte, or a valid encoding. -/
def TokOK (t : Tok) : Prop :=
  (t.r = runeError ∧ t.size = 1 ∧ ∃ b : UInt8, t.raw = [b] ∧ 0x80 ≤ b.toNat) ∨
  (ValidEnc t.raw t.r ∧ t.size = t.raw.length)

theorem runes_valid_append {p : Bytes} {r : Nat} (h : ValidEnc p r) (tl : Bytes) :
    runes (p ++ tl) = ⟨r, p.length, p⟩ :: runes tl := by
  have hne := valid_ne_nil h
  cases p with
  | nil => exact absurd rfl hne
  | cons a p' =>
    have hd := decode_valid h tl
    rw [List.cons_append] at hd ⊢
    rw [runes_cons, hd]
    simp

theorem runes_invalid {s0 : UInt8} {rest : Bytes}
    (h : decodeRune (s0 :: rest) = (runeError, 1)) :
    runes (s0 :: rest) = ⟨runeError, 1, [s0]⟩ :: runes rest := by
  rw [runes_cons, h]; simp

/-- The decode loop partitions the string into well-formed steps. -/
theorem runes_spec : ∀ (n : Nat) (s : Bytes), s.length ≤ n →
    (∀ t ∈ runes s, TokOK t) ∧ (runes s).flatMap Tok.raw = s := by
  intro n
  induction n with
  | zero => intro s h; cases s with
    | nil => simp [runes_nil]
    | cons a t => simp at h
  | succ n ih =>
    intro s h
    cases s with
    | nil => simp [runes_nil]
    | cons s0 rest =>
      rcases decode_cases s0 rest with ⟨hd, hb⟩ | ⟨p, tl, hs, hv, hl⟩
      · rw [runes_invalid hd]
        obtain ⟨i1, i2⟩ := ih rest (by simp at h; omega)
        refine ⟨?_, ?_⟩
        · intro t ht
          rcases List.mem_cons.mp ht with rfl | ht
          · exact Or.inl ⟨rfl, rfl, s0, rfl, hb⟩
          · exact i1 t ht
        · simp [i2]
      · generalize (decodeRune (s0 :: rest)).1 = r at hv
        have hne := valid_ne_nil hv
        have hlen : tl.length ≤ n := by
          have : (s0 :: rest).length = p.length + tl.length := by rw [hs]; simp
          cases p with
          | nil => exact absurd rfl hne
          | cons a p' => simp at this h; omega
        obtain ⟨i1, i2⟩ := ih tl hlen
        rw [hs, runes_valid_append hv tl]
        refine ⟨?_, ?_⟩
        · intro t ht
          rcases List.mem_cons.mp ht with rfl | ht
          · exact Or.inr ⟨hv, rfl⟩
          · exact i1 t ht
        · simp [i2]

theorem runes_ok (s : Bytes) : ∀ t ∈ runes s, TokOK t := (runes_spec s.length s (Nat.le_refl _)).1
theorem runes_join (s : Bytes) : (runes s).flatMap Tok.raw = s :=
  (runes_spec s.length s (Nat.le_refl _)).2

/-! ## The loops of Quote -/

theorem tok_le_maxRune {t : Tok} (h : TokOK t) : t.r ≤ maxRune := by
  rcases h with ⟨h, _⟩ | ⟨h, _⟩
  · rw [h]; decide
  · exact valid_le_maxRune h

/-- Which arm of the `$'…'` loop body ran, with the conditions that led there. -/
inductive PieceSpec (l : Lang) (last : Bool) (t : Tok) : Except ErrKind (Bytes × Bool) → Prop
  | bsq : (t.r = 0x27 ∨ t.r = 0x5c) → PieceSpec l last t (.ok (0x5c :: encodeRune t.r, false))
  | printable : ¬(t.r = 0x27 ∨ t.r = 0x5c) → isPrint t.r = true → t.r ≠ runeError →
      PieceSpec l last t (.ok ((if last && isHexRune t.r then [0x27, 0x24, 0x27] else []) ++
        encodeRune t.r, false))
  | ctl (c : UInt8) : ¬(isPrint t.r = true ∧ t.r ≠ runeError) → ctlLetter t.r = some c →
      PieceSpec l last t (.ok ([0x5c, c], false))
  | hexByte : ¬(t.r = 0x27 ∨ t.r = 0x5c) → ¬(isPrint t.r = true ∧ t.r ≠ runeError) →
      ctlLetter t.r = none → (t.r < 0x80 ∨ (t.r = runeError ∧ t.size = 1)) →
      PieceSpec l last t (.ok ([0x5c, 0x78] ++ hex2 (t.raw.headD 0).toNat, langIn l langMksh))
  | range : t.r > maxRune → PieceSpec l last t (.error .range)
  | mksh : ¬(isPrint t.r = true ∧ t.r ≠ runeError) → langIn l langMksh = true → t.r > 0xFFFD →
      PieceSpec l last t (.error .mksh)
  | u4 : ¬(isPrint t.r = true ∧ t.r ≠ runeError) → ¬(t.r < 0x80 ∨ (t.r = runeError ∧ t.size = 1)) →
      ¬(langIn l langMksh = true ∧ t.r > 0xFFFD) → t.r < 0x10000 →
      PieceSpec l last t (.ok ([0x5c, 0x75] ++ hex4 t.r, false))
  | u8 : ¬(isPrint t.r = true ∧ t.r ≠ runeError) → ¬ t.r > maxRune →
      ¬(langIn l langMksh = true ∧ t.r > 0xFFFD) → ¬ t.r < 0x10000 →
      PieceSpec l last t (.ok ([0x5c, 0x55] ++ hex8 t.r, false))

theorem piece_spec (l : Lang) (last : Bool) (t : Tok) : PieceSpec l last t (piece l last t) := by
  unfold piece
  split
  · exact .bsq ‹_›
  · split
    · rename_i h; exact .printable ‹_› h.1 h.2
    · split
      · exact .ctl _ ‹_› ‹_›
      · split
        · exact .hexByte ‹_› ‹_› ‹_› ‹_›
        · split
          · exact .range ‹_›
          · split
            · rename_i h; exact .mksh ‹_› h.1 h.2
            · split
              · exact .u4 ‹_› ‹_› ‹_› ‹_›
              · exact .u8 ‹_› ‹_› ‹_› ‹_›

theorem piece_error_iff (l : Lang) (last : Bool) (t : Tok) (k : ErrKind) (h : TokOK t) :
    piece l last t = .error k ↔
      (k = .mksh ∧ langIn l langMksh = true ∧ t.r > 0xFFFD ∧ isPrint t.r = false) := by
  have hm := tok_le_maxRune h
  have hs := piece_spec l last t
  generalize piece l last t = res at hs
  cases hs with
  | bsq c => constructor
             · intro e; cases e
             · rintro ⟨_, _, h3, _⟩; omega
  | printable c1 c2 c3 => constructor
                          · intro e; cases e
                          · rintro ⟨_, _, _, h4⟩; rw [c2] at h4; cases h4
  | ctl c c1 c2 => constructor
                   · intro e; cases e
                   · rintro ⟨_, _, h3, _⟩
                     unfold ctlLetter at c2
                     repeat' (split at c2)
                     all_goals first | omega | cases c2
  | hexByte c1 c2 c3 c4 => constructor
                           · intro e; cases e
                           · rintro ⟨_, _, h3, _⟩; unfold runeError at c4; omega
  | range c => omega
  | mksh c1 c2 c3 =>
    constructor
    · intro e; cases e
      refine ⟨rfl, c2, c3, ?_⟩
      have : t.r ≠ runeError := by unfold runeError; omega
      cases hq : isPrint t.r
      · rfl
      · exact absurd ⟨hq, this⟩ c1
    · rintro ⟨rfl, _⟩; rfl
  | u4 c1 c2 c3 c4 => constructor
                      · intro e; cases e
                      · rintro ⟨_, h2, h3, _⟩; exact absurd ⟨h2, h3⟩ c3
  | u8 c1 c2 c3 c4 => constructor
                      · intro e; cases e
                      · rintro ⟨_, h2, h3, _⟩; exact absurd ⟨h2, h3⟩ c3

theorem scan_ok (l : Lang) : ∀ (ts : List Tok) (offs : Nat) (sc np sc' np' : Bool),
    scan l ts offs sc np = .ok (sc', np') →
    (∀ t ∈ ts, t.r ≠ 0 ∧ (langIn l langPOSIX = true → nonPrint t.r = false)) ∧
    sc' = (sc || ts.any fun t => isShellChar t.r) ∧
    np' = (np || ts.any fun t => nonPrint t.r) := by
  intro ts
  induction ts with
  | nil => intro offs sc np sc' np' h; simp only [scan] at h; cases h; simp
  | cons t ts ih =>
    intro offs sc np sc' np' h
    by_cases c0 : t.r = 0
    · simp only [scan, c0, ↓reduceIte] at h; cases h
    by_cases c1 : nonPrint t.r = true
    · by_cases c2 : langIn l langPOSIX = true
      · simp only [scan, c0, c1, c2, ↓reduceIte] at h; cases h
      · simp only [scan, c0, c1, c2, ↓reduceIte] at h
        obtain ⟨i1, i2, i3⟩ := ih _ _ _ _ _ h
        refine ⟨?_, ?_, ?_⟩
        · intro t' ht'
          rcases List.mem_cons.mp ht' with rfl | ht'
          · exact ⟨c0, fun hp => absurd hp c2⟩
          · exact i1 t' ht'
        · rw [i2]; simp [Bool.or_assoc]
        · rw [i3]; simp [c1]
    · simp only [scan, c0, c1, ↓reduceIte] at h
      obtain ⟨i1, i2, i3⟩ := ih _ _ _ _ _ h
      refine ⟨?_, ?_, ?_⟩
      · intro t' ht'
        rcases List.mem_cons.mp ht' with rfl | ht'
        · exact ⟨c0, fun _ => by simpa using c1⟩
        · exact i1 t' ht'
      · rw [i2]; simp [Bool.or_assoc]
      · rw [i3]; have : nonPrint t.r = false := by simpa using c1
        simp [this]

theorem scan_error (l : Lang) : ∀ (ts : List Tok) (offs : Nat) (sc np : Bool) (e : QErr),
    scan l ts offs sc np = .error e →
    (e.kind = .null ∧ ∃ t ∈ ts, t.r = 0) ∨
    (e.kind = .posix ∧ langIn l langPOSIX = true ∧ ∃ t ∈ ts, nonPrint t.r = true) := by
  intro ts
  induction ts with
  | nil => intro offs sc np e h; simp only [scan] at h; cases h
  | cons t ts ih =>
    intro offs sc np e h
    by_cases c0 : t.r = 0
    · simp only [scan, c0, ↓reduceIte] at h; cases h
      exact Or.inl ⟨rfl, t, List.mem_cons_self .., c0⟩
    have lift : ((e.kind = .null ∧ ∃ t ∈ ts, t.r = 0) ∨
        (e.kind = .posix ∧ langIn l langPOSIX = true ∧ ∃ t ∈ ts, nonPrint t.r = true)) →
        ((e.kind = .null ∧ ∃ t' ∈ t :: ts, t'.r = 0) ∨
        (e.kind = .posix ∧ langIn l langPOSIX = true ∧ ∃ t' ∈ t :: ts, nonPrint t'.r = true)) := by
      rintro (⟨a, t', m, b⟩ | ⟨a, a', t', m, b⟩)
      · exact Or.inl ⟨a, t', List.mem_cons_of_mem _ m, b⟩
      · exact Or.inr ⟨a, a', t', List.mem_cons_of_mem _ m, b⟩
    by_cases c1 : nonPrint t.r = true
    · by_cases c2 : langIn l langPOSIX = true
      · simp only [scan, c0, c1, c2, ↓reduceIte] at h; cases h
        exact Or.inr ⟨rfl, c2, t, List.mem_cons_self .., c1⟩
      · simp only [scan, c0, c1, c2, ↓reduceIte] at h
        exact lift (ih _ _ _ _ h)
    · simp only [scan, c0, c1, ↓reduceIte] at h
      exact lift (ih _ _ _ _ h)

/-- A failing first loop ⇔ some rune is NUL, or (POSIX) non-printable. -/
theorem scan_error_iff (l : Lang) (ts : List Tok) (offs : Nat) (sc np : Bool) :
    (∃ e, scan l ts offs sc np = .error e) ↔
      ∃ t ∈ ts, t.r = 0 ∨ (langIn l langPOSIX = true ∧ nonPrint t.r = true) := by
  constructor
  · rintro ⟨e, h⟩
    rcases scan_error l ts offs sc np e h with ⟨_, t, m, b⟩ | ⟨_, a, t, m, b⟩
    · exact ⟨t, m, Or.inl b⟩
    · exact ⟨t, m, Or.inr ⟨a, b⟩⟩
  · rintro ⟨t, m, ht⟩
    cases hres : scan l ts offs sc np with
    | error e => exact ⟨e, rfl⟩
    | ok r =>
      obtain ⟨sc', np'⟩ := r
      obtain ⟨i1, _, _⟩ := scan_ok l ts offs sc np sc' np' hres
      obtain ⟨j1, j2⟩ := i1 t m
      rcases ht with h0 | ⟨hp, hn⟩
      · exact absurd h0 j1
      · rw [j2 hp] at hn; cases hn

theorem dollar_error (l : Lang) : ∀ (ts : List Tok) (offs : Nat) (last : Bool) (e : QErr),
    (∀ t ∈ ts, TokOK t) → dollarBody l ts offs last = .error e →
    e.kind = .mksh ∧ langIn l langMksh = true ∧ ∃ t ∈ ts, t.r > 0xFFFD ∧ isPrint t.r = false := by
  intro ts
  induction ts with
  | nil => intro offs last e _ h; simp only [dollarBody] at h; cases h
  | cons t ts ih =>
    intro offs last e hok h
    simp only [dollarBody] at h
    cases hp : piece l last t with
    | error k =>
      rw [hp] at h; simp only at h; cases h
      obtain ⟨rfl, a, b, c⟩ := (piece_error_iff l last t k (hok t (List.mem_cons_self ..))).mp hp
      exact ⟨rfl, a, t, List.mem_cons_self .., b, c⟩
    | ok r =>
      obtain ⟨p, nxt⟩ := r
      rw [hp] at h; simp only at h
      cases hd : dollarBody l ts (offs + t.size) nxt with
      | error e' =>
        rw [hd] at h; simp only at h; cases h
        obtain ⟨a, b, t', m, c⟩ := ih _ _ _ (fun t' m => hok t' (List.mem_cons_of_mem _ m)) hd
        exact ⟨a, b, t', List.mem_cons_of_mem _ m, c⟩
      | ok rest => rw [hd] at h; simp only at h; cases h

theorem dollar_ok (l : Lang) : ∀ (ts : List Tok) (offs : Nat) (last : Bool) (body : Bytes),
    (∀ t ∈ ts, TokOK t) → dollarBody l ts offs last = .ok body →
    ∀ t ∈ ts, ¬(langIn l langMksh = true ∧ t.r > 0xFFFD ∧ isPrint t.r = false) := by
  intro ts
  induction ts with
  | nil => intro offs last body _ _ t m; cases m
  | cons t ts ih =>
    intro offs last body hok h
    simp only [dollarBody] at h
    cases hp : piece l last t with
    | error k => rw [hp] at h; simp only at h; cases h
    | ok r =>
      obtain ⟨p, nxt⟩ := r
      rw [hp] at h; simp only at h
      cases hd : dollarBody l ts (offs + t.size) nxt with
      | error e' => rw [hd] at h; simp only at h; cases h
      | ok rest =>
        intro t' m
        rcases List.mem_cons.mp m with rfl | m
        · intro ⟨a, b, c⟩
          have := (piece_error_iff l last t' .mksh (hok t' (List.mem_cons_self ..))).mpr ⟨rfl, a, b, c⟩
          rw [hp] at this; cases this
        · exact ih _ _ _ (fun t' m => hok t' (List.mem_cons_of_mem _ m)) hd t' m

theorem tok_zero_iff {t : Tok} (h : TokOK t) : t.r = 0 ↔ (0 : UInt8) ∈ t.raw := by
  rcases h with ⟨h1, _, b, h3, h4⟩ | ⟨hv, _⟩
  · rw [h1, h3]
    constructor
    · intro e; cases e
    · intro m; simp at m; subst m; simp at h4
  · by_cases hr : t.r < 0x80
    · obtain ⟨b, hb, hbr⟩ := valid_ascii hv hr
      rw [hb]
      constructor
      · intro e; rw [e] at hbr
        have : b = 0 := by apply UInt8.toNat_inj.mp; simpa using hbr
        simp [this]
      · intro m; simp at m; subst m; simpa using hbr.symm
    · constructor
      · intro e; omega
      · intro m; have := valid_high hv (by omega) 0 m; simp at this

theorem contains_zero_iff (s : Bytes) : s.contains 0 = true ↔ ∃ t ∈ runes s, t.r = 0 := by
  have hj := runes_join s
  have hok := runes_ok s
  rw [List.contains_iff_mem]
  constructor
  · intro m
    rw [← hj] at m
    obtain ⟨t, mt, m0⟩ := List.mem_flatMap.mp m
    exact ⟨t, mt, (tok_zero_iff (hok t mt)).mpr m0⟩
  · rintro ⟨t, mt, h0⟩
    rw [← hj]
    exact List.mem_flatMap.mpr ⟨t, mt, (tok_zero_iff (hok t mt)).mp h0⟩

/-- Quote fails exactly on the strings described by `codeFails`. -/
theorem quote_fails_iff_codeFails (l : Lang) (s : Bytes) :
    (∃ e, quote l s = .error e) ↔ codeFails l s = true := by
  have hok := runes_ok s
  have hz := contains_zero_iff s
  simp only [codeFails, Bool.or_eq_true, Bool.and_eq_true, List.any_eq_true, decide_eq_true_eq,
    Bool.not_eq_true', gt_iff_lt]
  by_cases hs : s = []
  · subst hs; simp [quote, runes_nil]
  unfold quote
  simp only [hs, ↓reduceIte]
  cases hsc : scan l (runes s) 0 false false with
  | error e =>
    simp only
    constructor
    · intro _
      rcases scan_error l _ _ _ _ e hsc with ⟨_, t, m, b⟩ | ⟨_, a, t, m, b⟩
      · exact Or.inl (Or.inl (hz.mpr ⟨t, m, b⟩))
      · exact Or.inl (Or.inr ⟨a, t, m, b⟩)
    · intro _; exact ⟨e, rfl⟩
  | ok r =>
    obtain ⟨sc, np⟩ := r
    obtain ⟨i1, i2, i3⟩ := scan_ok l _ _ _ _ _ _ hsc
    simp only [Bool.false_or] at i2 i3
    have nz : ¬ (s.contains 0 = true) := by
      rw [hz]; rintro ⟨t, m, h0⟩; exact (i1 t m).1 h0
    have nposix : ¬ (langIn l langPOSIX = true ∧ ∃ x ∈ runes s, nonPrint x.r = true) := by
      rintro ⟨a, t, m, b⟩; rw [(i1 t m).2 a] at b; cases b
    have npany : np = false → ¬ ∃ x ∈ runes s, 0xFFFD < x.r ∧ isPrint x.r = false := by
      intro hnp
      rintro ⟨t, m, a, b⟩
      have : nonPrint t.r = true := by simp [nonPrint, b]
      have : (runes s).any (fun t => nonPrint t.r) = true := List.any_eq_true.mpr ⟨t, m, this⟩
      rw [← i3, hnp] at this; cases this
    simp only
    by_cases hb : (!sc && !np && !isKeyword s) = true
    · simp only [hb, ↓reduceIte]
      have hnp : np = false := by
        cases np
        · rfl
        · simp at hb
      constructor
      · rintro ⟨e, h⟩; cases h
      · rintro ((h | h) | ⟨_, h⟩)
        · exact absurd h nz
        · exact absurd h nposix
        · exact absurd h (npany hnp)
    · simp only [hb, Bool.false_eq_true, ↓reduceIte]
      cases hnp : np with
      | true =>
        simp only [↓reduceIte]
        cases hd : dollarBody l (runes s) 0 false with
        | error e =>
          simp only
          obtain ⟨_, a, t, m, b, c⟩ := dollar_error l _ _ _ e hok hd
          exact ⟨fun _ => Or.inr ⟨a, t, m, b, c⟩, fun _ => ⟨e, rfl⟩⟩
        | ok body =>
          simp only
          have := dollar_ok l _ _ _ body hok hd
          constructor
          · rintro ⟨e, h⟩; cases h
          · rintro ((h | h) | ⟨a, t, m, b, c⟩)
            · exact absurd h nz
            · exact absurd h nposix
            · exact absurd ⟨a, b, c⟩ (this t m)
      | false =>
        simp only [Bool.false_eq_true, ↓reduceIte]
        constructor
        · intro ⟨e, h⟩; split at h <;> cases h
        · rintro ((h | h) | ⟨_, h⟩)
          · exact absurd h nz
          · exact absurd h nposix
          · exact absurd h (npany hnp)

/-! ## Facts about single bytes, by enumeration -/

theorem byte_forall {P : UInt8 → Prop} (h : ∀ n : Fin 256, P (UInt8.ofNat n.val)) (b : UInt8) :
    P b := by
  have := h ⟨b.toNat, toNat_lt b⟩
  simpa [ofNat_toNat] using this

theorem isPrint_ascii : ∀ r : Fin 128, isPrint r.val = (decide (0x20 ≤ r.val) && decide (r.val ≤ 0x7e)) := by
  decide +kernel

theorem isPrint_ascii' {r : Nat} (h : r < 0x80) (hp : isPrint r = true) : 0x20 ≤ r ∧ r ≤ 0x7e := by
  have := isPrint_ascii ⟨r, h⟩
  simp only [hp] at this
  simpa using this.symm

theorem bare_of_high : ∀ b : UInt8, 0x80 ≤ b.toNat → isBareByte b = true := by
  apply byte_forall; decide +kernel

theorem bare_of_ascii : ∀ b : UInt8, 0x20 ≤ b.toNat → b.toNat ≤ 0x7e → isShellChar b.toNat = false →
    isBareByte b = true ∧ b ≠ 0x23 ∧ b ≠ 0x7e ∧ b ≠ 0x20 ∧ b ≠ 0x09 ∧ b ≠ 0x27 ∧ b ≠ 0x22 ∧ b ≠ 0x24 := by
  apply byte_forall; decide +kernel


/-! ## Clean byte strings: what the lexer fragment accepts -/

/-- A concatenation of valid encodings of runes other than NUL, LF, CR. -/
inductive Clean : Bytes → Prop
  | nil : Clean []
  | cons {p : Bytes} {r : Nat} {rest : Bytes} : ValidEnc p r → r ≠ 0 → r ≠ 0x0a → r ≠ 0x0d →
      Clean rest → Clean (p ++ rest)

theorem Clean.append {a b : Bytes} (ha : Clean a) (hb : Clean b) : Clean (a ++ b) := by
  induction ha with
  | nil => simpa using hb
  | cons hv h0 h1 h2 _ ih => rw [List.append_assoc]; exact .cons hv h0 h1 h2 ih

theorem Clean.byte {b : UInt8} {rest : Bytes} (h : b.toNat < 0x80) (h0 : b.toNat ≠ 0)
    (h1 : b.toNat ≠ 0x0a) (h2 : b.toNat ≠ 0x0d) (hr : Clean rest) : Clean (b :: rest) :=
  Clean.cons (p := [b]) (Or.inl ⟨b, rfl, h, rfl⟩) h0 h1 h2 hr

theorem valid_len1 {p : Bytes} {r : Nat} (h : ValidEnc p r) (hl : p.length = 1) : r < 0x80 := by
  refine h.cases ?_ ?_ ?_ ?_
  · intro b0 hp h1 er; omega
  · intro b0 b1 hp; subst hp; simp at hl
  · intro b0 b1 b2 hp; subst hp; simp at hl
  · intro b0 b1 b2 b3 hp; subst hp; simp at hl

theorem valid_bytes_not {p : Bytes} {r : Nat} (h : ValidEnc p r) (c : UInt8) (hc : c.toNat < 0x80)
    (hne : r ≠ c.toNat) : c ∉ p := by
  intro m
  by_cases hr : r < 0x80
  · obtain ⟨b, hb, hbr⟩ := valid_ascii h hr
    rw [hb] at m; simp at m; subst m; exact hne hbr.symm
  · have := valid_high h (by omega) c m; omega

theorem Clean.fragment {q : Bytes} (h : Clean q) : inFragment q = true ∧ validUTF8 q = true := by
  induction h with
  | nil => exact ⟨rfl, rfl⟩
  | @cons p r rest hv h0 h1 h2 _ ih =>
    obtain ⟨i1, i2⟩ := ih
    constructor
    · have n0 := valid_bytes_not hv 0 (by decide) (by simpa using h0)
      have n1 := valid_bytes_not hv 0x0a (by decide) (by simpa using h1)
      have n2 := valid_bytes_not hv 0x0d (by decide) (by simpa using h2)
      simp only [inFragment, Bool.not_eq_true', Bool.or_eq_false_iff, List.contains_eq_mem,
        decide_eq_false_iff_not, List.mem_append, not_or] at i1 ⊢
      exact ⟨⟨⟨n0, i1.1.1⟩, ⟨n1, i1.1.2⟩⟩, ⟨n2, i1.2⟩⟩
    · unfold validUTF8 at i2 ⊢
      rw [runes_valid_append hv, List.all_cons, i2]
      have : ¬ (r = runeError ∧ p.length = 1) := by
        rintro ⟨a, b⟩; have := valid_len1 hv b; rw [a] at this; unfold runeError at this; omega
      simp only [Bool.and_true, Bool.not_eq_true', Bool.and_eq_false_iff, beq_eq_false_iff_ne]
      by_cases hr : r = runeError
      · right; intro hl; exact this ⟨hr, hl⟩
      · left; exact hr


end ShVerif.C13
