import ShVerif.Model.C13
/-
  C13 — helper lemmas for the Quote theorems (Props/C13.lean).
  Sections: UTF-8 (decode/encode), the decode loop `runes`, the two Quote loops, the `$'…'`
  escape reader `fmtEsc`, the lexer on Quote's output shapes.
-/
namespace ShVerif.C13

/-! ## Bytes -/

theorem byte_eq_iff (b : UInt8) (n : Nat) (hn : n < 256) : b = UInt8.ofNat n ↔ b.toNat = n := by
  constructor
  · intro h; subst h; simp [UInt8.toNat_ofNat']; omega
  · intro h; subst h; simp

theorem ofNat_toNat (b : UInt8) : UInt8.ofNat b.toNat = b := UInt8.ofNat_toNat

theorem toNat_lt (b : UInt8) : b.toNat < 256 := UInt8.toNat_lt b

/-! ## UTF-8 -/

/-- `p` is the (canonical) UTF-8 encoding of the scalar value `r`. -/
def ValidEnc (p : Bytes) (r : Nat) : Prop :=
  (∃ b0 : UInt8, p = [b0] ∧ b0.toNat < 0x80 ∧ r = b0.toNat) ∨
  (∃ b0 b1 : UInt8, p = [b0, b1] ∧ 0xC2 ≤ b0.toNat ∧ b0.toNat < 0xE0 ∧
      0x80 ≤ b1.toNat ∧ b1.toNat ≤ 0xBF ∧
      r = (b0.toNat - 0xC0) * 64 + (b1.toNat - 0x80)) ∨
  (∃ b0 b1 b2 : UInt8, p = [b0, b1, b2] ∧ 0xE0 ≤ b0.toNat ∧ b0.toNat < 0xF0 ∧
      accLo b0.toNat ≤ b1.toNat ∧ b1.toNat ≤ accHi b0.toNat ∧
      0x80 ≤ b2.toNat ∧ b2.toNat ≤ 0xBF ∧
      r = (b0.toNat - 0xE0) * 4096 + (b1.toNat - 0x80) * 64 + (b2.toNat - 0x80)) ∨
  (∃ b0 b1 b2 b3 : UInt8, p = [b0, b1, b2, b3] ∧ 0xF0 ≤ b0.toNat ∧ b0.toNat < 0xF5 ∧
      accLo b0.toNat ≤ b1.toNat ∧ b1.toNat ≤ accHi b0.toNat ∧
      0x80 ≤ b2.toNat ∧ b2.toNat ≤ 0xBF ∧ 0x80 ≤ b3.toNat ∧ b3.toNat ≤ 0xBF ∧
      r = (b0.toNat - 0xF0) * 262144 + (b1.toNat - 0x80) * 4096 + (b2.toNat - 0x80) * 64 +
        (b3.toNat - 0x80))


theorem ValidEnc.cases {p : Bytes} {r : Nat} (h : ValidEnc p r) {C : Prop}
    (c1 : ∀ b0 : UInt8, p = [b0] → b0.toNat < 0x80 → r = b0.toNat → C)
    (c2 : ∀ b0 b1 : UInt8, p = [b0, b1] → 0xC2 ≤ b0.toNat → b0.toNat < 0xE0 →
      0x80 ≤ b1.toNat → b1.toNat ≤ 0xBF → r = (b0.toNat - 0xC0) * 64 + (b1.toNat - 0x80) → C)
    (c3 : ∀ b0 b1 b2 : UInt8, p = [b0, b1, b2] → 0xE0 ≤ b0.toNat → b0.toNat < 0xF0 →
      accLo b0.toNat ≤ b1.toNat → b1.toNat ≤ accHi b0.toNat →
      0x80 ≤ b2.toNat → b2.toNat ≤ 0xBF →
      r = (b0.toNat - 0xE0) * 4096 + (b1.toNat - 0x80) * 64 + (b2.toNat - 0x80) → C)
    (c4 : ∀ b0 b1 b2 b3 : UInt8, p = [b0, b1, b2, b3] → 0xF0 ≤ b0.toNat → b0.toNat < 0xF5 →
      accLo b0.toNat ≤ b1.toNat → b1.toNat ≤ accHi b0.toNat →
      0x80 ≤ b2.toNat → b2.toNat ≤ 0xBF → 0x80 ≤ b3.toNat → b3.toNat ≤ 0xBF →
      r = (b0.toNat - 0xF0) * 262144 + (b1.toNat - 0x80) * 4096 + (b2.toNat - 0x80) * 64 +
        (b3.toNat - 0x80) → C) : C := by
  unfold ValidEnc at h
  rcases h with h | h | h | h
  · obtain ⟨b0, a, b, c⟩ := h; exact c1 b0 a b c
  · obtain ⟨b0, b1, a, b, c, d, e, f⟩ := h; exact c2 b0 b1 a b c d e f
  · obtain ⟨b0, b1, b2, a, b, c, d, e, f, g, i⟩ := h; exact c3 b0 b1 b2 a b c d e f g i
  · obtain ⟨b0, b1, b2, b3, a, b, c, d, e, f, g, i, j, k⟩ := h
    exact c4 b0 b1 b2 b3 a b c d e f g i j k

/-- Every decode step either reports an invalid byte (≥ 0x80, width 1) or consumes a valid
    encoding of the rune it returns. -/
theorem decode_cases (s0 : UInt8) (rest : Bytes) :
    (decodeRune (s0 :: rest) = (runeError, 1) ∧ 0x80 ≤ s0.toNat) ∨
    ∃ p tl, s0 :: rest = p ++ tl ∧ ValidEnc p (decodeRune (s0 :: rest)).1 ∧
      (decodeRune (s0 :: rest)).2 = p.length := by
  unfold decodeRune
  simp only
  split
  · right; exact ⟨[s0], rest, rfl, Or.inl ⟨s0, rfl, by assumption, rfl⟩, rfl⟩
  · split
    · left; exact ⟨rfl, by omega⟩
    · split
      · split
        · rename_i s1 tl
          split
          · right
            refine ⟨[s0, s1], tl, rfl, Or.inr (Or.inl ⟨s0, s1, rfl, ?_⟩), rfl⟩
            omega
          · left; exact ⟨rfl, by omega⟩
        · left; exact ⟨rfl, by omega⟩
      · split
        · split
          · rename_i s1 s2 tl
            split
            · split
              · right
                refine ⟨[s0, s1, s2], tl, rfl, Or.inr (Or.inr (Or.inl ⟨s0, s1, s2, rfl, ?_⟩)), rfl⟩
                omega
              · left; exact ⟨rfl, by omega⟩
            · left; exact ⟨rfl, by omega⟩
          · left; exact ⟨rfl, by omega⟩
        · split
          · split
            · rename_i s1 s2 s3 tl
              split
              · split
                · split
                  · right
                    refine ⟨[s0, s1, s2, s3], tl, rfl,
                      Or.inr (Or.inr (Or.inr ⟨s0, s1, s2, s3, rfl, ?_⟩)), rfl⟩
                    omega
                  · left; exact ⟨rfl, by omega⟩
                · left; exact ⟨rfl, by omega⟩
              · left; exact ⟨rfl, by omega⟩
            · left; exact ⟨rfl, by omega⟩
          · left; exact ⟨rfl, by omega⟩

/-- Decoding depends only on the bytes of a valid encoding. -/
theorem decode_valid {p : Bytes} {r : Nat} (h : ValidEnc p r) (tl : Bytes) :
    decodeRune (p ++ tl) = (r, p.length) := by
  refine h.cases ?_ ?_ ?_ ?_
  · intro b0 hp h1 er; subst hp
    simp [decodeRune, h1, er]
  · intro b0 b1 hp h1 h2 h3 h4 er; subst hp
    have a1 : ¬ b0.toNat < 0x80 := by omega
    have a2 : ¬ b0.toNat < 0xC2 := by omega
    simp [decodeRune, a1, a2, h2, h3, h4, er]
  · intro b0 b1 b2 hp h1 h2 h3 h4 h5 h6 er; subst hp
    have a1 : ¬ b0.toNat < 0x80 := by omega
    have a2 : ¬ b0.toNat < 0xC2 := by omega
    have a3 : ¬ b0.toNat < 0xE0 := by omega
    simp [decodeRune, a1, a2, a3, h2, h3, h4, h5, h6, er]
  · intro b0 b1 b2 b3 hp h1 h2 h3 h4 h5 h6 h7 h8 er; subst hp
    have a1 : ¬ b0.toNat < 0x80 := by omega
    have a2 : ¬ b0.toNat < 0xC2 := by omega
    have a3 : ¬ b0.toNat < 0xE0 := by omega
    have a4 : ¬ b0.toNat < 0xF0 := by omega
    simp [decodeRune, a1, a2, a3, a4, h2, h3, h4, h5, h6, h7, h8, er]

theorem accLo_ge (b : Nat) : 0x80 ≤ accLo b := by
  unfold accLo; split
  · omega
  · split <;> omega
theorem accHi_le (b : Nat) : accHi b ≤ 0xBF := by
  unfold accHi; split
  · omega
  · split <;> omega

/-- `WriteRune` of a decoded rune gives back the bytes it was decoded from. -/
theorem encode_valid {p : Bytes} {r : Nat} (h : ValidEnc p r) : encodeRune r = p := by
  refine h.cases ?_ ?_ ?_ ?_
  · intro b0 hp h1 er; subst hp
    simp [encodeRune, h1, er]
  · intro b0 b1 hp h1 h2 h3 h4 er; subst hp
    have e1 : ¬ r < 0x80 := by omega
    have e2 : r < 0x800 := by omega
    have e3 : 0xC0 + r / 64 = b0.toNat := by omega
    have e4 : 0x80 + r % 64 = b1.toNat := by omega
    simp only [encodeRune, e1, e2, if_true, if_false, e3, e4, ofNat_toNat]
  · intro b0 b1 b2 hp h1 h2 h3 h4 h5 h6 er; subst hp
    have l1 := accLo_ge b0.toNat
    have l2 := accHi_le b0.toNat
    have l3 : b0.toNat = 0xE0 → 0xA0 ≤ b1.toNat := by intro e; simp [accLo, e] at h3; exact h3
    have l4 : b0.toNat = 0xED → b1.toNat ≤ 0x9F := by intro e; simp [accHi, e] at h4; exact h4
    have e1 : ¬ r < 0x80 := by omega
    have e2 : ¬ r < 0x800 := by omega
    have e3 : ¬ (r > maxRune ∨ (0xD800 ≤ r ∧ r ≤ 0xDFFF)) := by unfold maxRune; omega
    have e4 : r < 0x10000 := by omega
    have e5 : 0xE0 + r / 4096 = b0.toNat := by omega
    have e6 : 0x80 + r / 64 % 64 = b1.toNat := by omega
    have e7 : 0x80 + r % 64 = b2.toNat := by omega
    simp only [encodeRune, e1, e2, e3, e4, if_true, if_false, e5, e6, e7, ofNat_toNat]
  · intro b0 b1 b2 b3 hp h1 h2 h3 h4 h5 h6 h7 h8 er; subst hp
    have l1 := accLo_ge b0.toNat
    have l2 := accHi_le b0.toNat
    have l3 : b0.toNat = 0xF0 → 0x90 ≤ b1.toNat := by intro e; simp [accLo, e] at h3; exact h3
    have l4 : b0.toNat = 0xF4 → b1.toNat ≤ 0x8F := by intro e; simp [accHi, e] at h4; exact h4
    have e1 : ¬ r < 0x80 := by omega
    have e2 : ¬ r < 0x800 := by omega
    have e3 : ¬ (r > maxRune ∨ (0xD800 ≤ r ∧ r ≤ 0xDFFF)) := by unfold maxRune; omega
    have e4 : ¬ r < 0x10000 := by omega
    have e5 : 0xF0 + r / 262144 = b0.toNat := by omega
    have e6 : 0x80 + r / 4096 % 64 = b1.toNat := by omega
    have e7 : 0x80 + r / 64 % 64 = b2.toNat := by omega
    have e8 : 0x80 + r % 64 = b3.toNat := by omega
    simp only [encodeRune, e1, e2, e3, e4, if_true, if_false, e5, e6, e7, e8, ofNat_toNat]

theorem valid_le_maxRune {p : Bytes} {r : Nat} (h : ValidEnc p r) : r ≤ maxRune := by
  unfold maxRune
  refine h.cases ?_ ?_ ?_ ?_
  · intro b0 hp h1 er; subst hp
    omega
  · intro b0 b1 hp h1 h2 h3 h4 er; subst hp
    omega
  · intro b0 b1 b2 hp h1 h2 h3 h4 h5 h6 er; subst hp
    have l2 := accHi_le b0.toNat; omega
  · intro b0 b1 b2 b3 hp h1 h2 h3 h4 h5 h6 h7 h8 er; subst hp
    have l2 := accHi_le b0.toNat
    have l4 : b0.toNat = 0xF4 → b1.toNat ≤ 0x8F := by intro e; simp [accHi, e] at h4; exact h4
    omega

/-- ASCII runes are one byte; all bytes of a longer encoding are ≥ 0x80. -/
theorem valid_ascii {p : Bytes} {r : Nat} (h : ValidEnc p r) (hr : r < 0x80) :
    ∃ b : UInt8, p = [b] ∧ b.toNat = r := by
  refine h.cases ?_ ?_ ?_ ?_
  · intro b0 hp h1 er; subst hp
    exact ⟨b0, rfl, rfl⟩
  · intro b0 b1 hp h1 h2 h3 h4 er; subst hp
    omega
  · intro b0 b1 b2 hp h1 h2 h3 h4 h5 h6 er; subst hp
    have l1 := accLo_ge b0.toNat
    have l3 : b0.toNat = 0xE0 → 0xA0 ≤ b1.toNat := by intro e; simp [accLo, e] at h3; exact h3
    omega
  · intro b0 b1 b2 b3 hp h1 h2 h3 h4 h5 h6 h7 h8 er; subst hp
    have l1 := accLo_ge b0.toNat
    have l3 : b0.toNat = 0xF0 → 0x90 ≤ b1.toNat := by intro e; simp [accLo, e] at h3; exact h3
    omega

theorem valid_high {p : Bytes} {r : Nat} (h : ValidEnc p r) (hr : 0x80 ≤ r) :
    ∀ b ∈ p, 0x80 ≤ b.toNat := by
  have l1 := fun b => accLo_ge b
  refine h.cases ?_ ?_ ?_ ?_
  · intro b0 hp h1 er; subst hp
    omega
  · intro b0 b1 hp h1 h2 h3 h4 er; subst hp
    intro b hb; simp at hb; rcases hb with rfl | rfl <;> omega
  · intro b0 b1 b2 hp h1 h2 h3 h4 h5 h6 er; subst hp
    intro b hb; simp at hb; have := l1 b0.toNat; rcases hb with rfl | rfl | rfl <;> omega
  · intro b0 b1 b2 b3 hp h1 h2 h3 h4 h5 h6 h7 h8 er; subst hp
    intro b hb; simp at hb; have := l1 b0.toNat; rcases hb with rfl | rfl | rfl | rfl <;> omega

theorem valid_ne_nil {p : Bytes} {r : Nat} (h : ValidEnc p r) : p ≠ [] := by
  refine h.cases ?_ ?_ ?_ ?_ <;> (intros; subst_vars; simp)

end ShVerif.C13
