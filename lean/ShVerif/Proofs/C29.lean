import ShVerif.Model.C29
import ShVerif.Proofs.L1Heap
/-
  C29 — helper lemmas.

  Part A: the shape invariant of overlay chains (`ChainOK`: a parent overlay is older than its
  child, and a `funcScope` overlay's parent is an overlay), `overlayEnviron.Set` never reaches the
  root under it, every Runner step preserves it.

  Part B: frame lemmas for `SplitBraces`, `bracesSeqRec` and the small sites on the L1 heap.
-/
namespace ShVerif.C29
open ShVerif ShVerif.L1

/-! ## Part A -/

/-- parent and funcScope of every overlay: what `Set` never changes -/
def shape (h : EnvHeap) : List (PRef × Bool) := h.scopes.map fun s => (s.parent, s.funcScope)

def ChainOK (h : EnvHeap) : Prop :=
  ∀ (o : Nat) (s : Scope), h.scopes[o]? = some s →
    (∀ p, s.parent = .ov p → p < o) ∧ (s.funcScope = true → ∃ p, s.parent = .ov p)

theorem chainOK_of_shape {h h' : EnvHeap} (e : shape h' = shape h) (ok : ChainOK h) : ChainOK h' := by
  intro o s hs
  have h1 : (shape h')[o]? = some (s.parent, s.funcScope) := by
    simp only [shape, List.getElem?_map, hs, Option.map_some]
  rw [e] at h1
  simp only [shape, List.getElem?_map] at h1
  cases hh : h.scopes[o]? with
  | none => rw [hh] at h1; cases h1
  | some s0 =>
    rw [hh] at h1
    simp only [Option.map_some, Option.some.injEq, Prod.mk.injEq] at h1
    have := ok o s0 hh
    rw [h1.1, h1.2] at this
    exact this

theorem shape_setScopeValues (h : EnvHeap) (o : Nat) (vs : List (Bytes × Var)) :
    shape (setScopeValues h o vs) = shape h := by
  unfold shape setScopeValues
  simp only
  apply List.ext_getElem?
  intro i
  simp only [List.getElem?_map, List.getElem?_set]
  by_cases hi : o = i
  · subst hi
    by_cases hl : o < h.scopes.length
    · simp only [hl, if_true, Option.map_some]
      have : h.scopes[o]? = some h.scopes[o] := List.getElem?_eq_getElem hl
      simp only [scopeAt, this, Option.getD_some, Option.map_some]
    · simp only [hl, if_false]
      rw [List.getElem?_eq_none (by omega)]
      rfl
  · simp only [hi, if_false]

theorem rootSets_setScopeValues (h : EnvHeap) (o : Nat) (vs) : (setScopeValues h o vs).rootSets = h.rootSets := rfl
theorem base_setScopeValues (h : EnvHeap) (o : Nat) (vs) : (setScopeValues h o vs).base = h.base := rfl

theorem length_shape (h : EnvHeap) : (shape h).length = h.scopes.length := by simp [shape]

theorem length_eq_of_shape {h h' : EnvHeap} (e : shape h' = shape h) : h'.scopes.length = h.scopes.length := by
  rw [← length_shape, ← length_shape, e]

/-- what a completed `Set` leaves alone -/
def SameRoot (h h' : EnvHeap) : Prop := shape h' = shape h ∧ h'.rootSets = h.rootSets ∧ h'.base = h.base

theorem SameRoot.refl (h : EnvHeap) : SameRoot h h := ⟨rfl, rfl, rfl⟩
theorem SameRoot.trans {a b c : EnvHeap} (x : SameRoot a b) (y : SameRoot b c) : SameRoot a c :=
  ⟨y.1.trans x.1, y.2.1.trans x.2.1, y.2.2.trans x.2.2⟩

theorem sameRoot_set (h : EnvHeap) (o : Nat) (vs) : SameRoot h (setScopeValues h o vs) :=
  ⟨shape_setScopeValues h o vs, rfl, rfl⟩

/-- a `Set` outcome that did not panic and did not touch the root -/
def SetFine (h : EnvHeap) : SetRes → Prop
  | .ok h' => SameRoot h h'
  | .err h' => SameRoot h h'
  | .panic => False

theorem scopeAt_funcScope {h : EnvHeap} {o : Nat} (hf : (scopeAt h o).funcScope = true) :
    h.scopes[o]? = some (scopeAt h o) := by
  unfold scopeAt at *
  cases hh : h.scopes[o]? with
  | none => rw [hh] at hf; simp at hf
  | some s => simp

theorem envSetLocal_fine (h : EnvHeap) (o : Nat) (name : Bytes) (vr prev : Var) :
    SetFine h (envSetLocal h o name vr prev) := by
  unfold envSetLocal
  simp only
  repeat' split
  all_goals first
    | exact sameRoot_set _ _ _
    | exact (sameRoot_set _ _ _).trans (sameRoot_set _ _ _)

/-- Under `ChainOK`, `overlayEnviron.Set` terminates without a type-assertion panic and the root
    Environ receives nothing, whether or not it is a WriteEnviron. -/
theorem envSet_fine (rw : Bool) : ∀ (fuel : Nat) (h : EnvHeap) (o : Nat) (name : Bytes) (vr : Var),
    ChainOK h → 0 < fuel → (o < h.scopes.length → o < fuel) → SetFine h (envSet rw fuel h o name vr) := by
  intro fuel
  induction fuel with
  | zero => intro h o name vr _ hf; omega
  | succ fuel ih =>
    intro h o name vr ok _ hlt
    unfold envSet
    simp only
    split
    · next hfwd =>
      simp only [Bool.and_eq_true] at hfwd
      have hs := scopeAt_funcScope hfwd.1.1
      have ho : o < h.scopes.length := by
        have := List.getElem?_eq_some_iff.mp hs
        exact this.1
      obtain ⟨hpar, hfs⟩ := ok o _ hs
      obtain ⟨p, hp⟩ := hfs hfwd.1.1
      have hpo := hpar p hp
      rw [hp]
      simp only
      have hof := hlt ho
      exact ih h p name vr ok (by omega) (by intro _; omega)
    · exact envSetLocal_fine h o name vr _

theorem envSetTop_fine (rw : Bool) (h : EnvHeap) (o : Nat) (name : Bytes) (vr : Var) (ok : ChainOK h) :
    SetFine h (envSetTop rw h o name vr) :=
  envSet_fine rw _ h o name vr ok (by omega) (by intro hh; omega)

theorem bgCopy_fine (o : Nat) : ∀ (vars : List (Bytes × Var)) (h : EnvHeap), ChainOK h →
    ∃ h', bgCopy o h vars = some h' ∧ SameRoot h h' := by
  intro vars
  induction vars with
  | nil => intro h _; exact ⟨h, rfl, SameRoot.refl h⟩
  | cons nv rest ih =>
    intro h ok
    obtain ⟨n, v⟩ := nv
    have hf := envSetTop_fine false h o n v ok
    unfold bgCopy
    cases hr : envSetTop false h o n v with
    | ok h1 =>
      rw [hr] at hf
      simp only
      obtain ⟨h2, e2, s2⟩ := ih h1 (chainOK_of_shape hf.1 ok)
      exact ⟨h2, e2, hf.trans s2⟩
    | err h1 =>
      rw [hr] at hf
      simp only
      obtain ⟨h2, e2, s2⟩ := ih h1 (chainOK_of_shape hf.1 ok)
      exact ⟨h2, e2, hf.trans s2⟩
    | panic => rw [hr] at hf; exact hf.elim

/-- allocation of an overlay whose parent is the root, nil, or an existing overlay, and that is a
    funcScope only over an overlay -/
theorem chainOK_alloc {h : EnvHeap} (ok : ChainOK h) (s : Scope)
    (hp : ∀ p, s.parent = .ov p → p < h.scopes.length) (hf : s.funcScope = true → ∃ p, s.parent = .ov p) :
    ChainOK (allocScope h s).1 := by
  intro o s' hs
  simp only [allocScope] at hs
  by_cases ho : o < h.scopes.length
  · rw [List.getElem?_append_left ho] at hs
    exact ok o s' hs
  · have ho' : h.scopes.length ≤ o := by omega
    rw [List.getElem?_append_right ho'] at hs
    cases hk : o - h.scopes.length with
    | zero =>
      rw [hk] at hs
      simp only [List.getElem?_cons_zero, Option.some.injEq] at hs
      subst hs
      exact ⟨fun p e => by have := hp p e; omega, hf⟩
    | succ k => rw [hk] at hs; simp at hs

theorem alloc_root (h : EnvHeap) (s : Scope) : (allocScope h s).1.rootSets = h.rootSets ∧ (allocScope h s).1.base = h.base :=
  ⟨rfl, rfl⟩

theorem alloc_length (h : EnvHeap) (s : Scope) : (allocScope h s).1.scopes.length = h.scopes.length + 1 := by
  simp [allocScope]

/-- ids held by the Runner states are existing overlays -/
structure IdsOK (st : EState) : Prop where
  cur : st.cur.writeEnv < st.h.scopes.length
  saved : ∀ w ∈ st.cur.saved, w < st.h.scopes.length
  outer : ∀ r ∈ st.outer, r.writeEnv < st.h.scopes.length ∧ ∀ w ∈ r.saved, w < st.h.scopes.length
  handler : ∀ o, st.handler = some o → o < st.h.scopes.length

/-- the invariant of a run: chains well shaped, ids valid, root untouched -/
def StOK (base : List (Bytes × Var)) (st : EState) : Prop :=
  ChainOK st.h ∧ IdsOK st ∧ st.h.rootSets = [] ∧ st.h.base = base

theorem idsOK_mono {st : EState} {h' : EnvHeap} (ids : IdsOK st) (hl : st.h.scopes.length ≤ h'.scopes.length) :
    IdsOK { st with h := h' } := by
  obtain ⟨a, b, c, d⟩ := ids
  refine ⟨by simp only; omega, fun w hw => by have := b w hw; simp only; omega, fun r hr => ?_, fun o ho => by have := d o ho; simp only; omega⟩
  have := c r hr
  exact ⟨by simp only; omega, fun w hw => by have := this.2 w hw; simp only; omega⟩

theorem stOK_afterSet {base} {st : EState} (ok : StOK base st) {r : SetRes} (hf : SetFine st.h r) :
    ∃ st', afterSet st r = some st' ∧ StOK base st' := by
  obtain ⟨c, ids, rs, bs⟩ := ok
  cases r with
  | ok h' =>
    refine ⟨{ st with h := h' }, rfl, chainOK_of_shape hf.1 c, idsOK_mono ids (by rw [length_eq_of_shape hf.1]; exact Nat.le_refl _), ?_, ?_⟩
    · exact hf.2.1.trans rs
    · exact hf.2.2.trans bs
  | err h' =>
    refine ⟨{ st with h := h' }, rfl, chainOK_of_shape hf.1 c, idsOK_mono ids (by rw [length_eq_of_shape hf.1]; exact Nat.le_refl _), ?_, ?_⟩
    · exact hf.2.1.trans rs
    · exact hf.2.2.trans bs
  | panic => exact hf.elim

theorem estep_ok (rw : Bool) {base} {st : EState} (ok : StOK base st) (op : EOp) :
    ∃ st', estep rw st op = some st' ∧ StOK base st' := by
  obtain ⟨c, ids, rs, bs⟩ := ok
  have ids' := ids
  obtain ⟨iw, isv, iout, ihd⟩ := ids
  cases op with
  | reset =>
    refine ⟨_, rfl, chainOK_alloc c _ (by intro p e; cases e) (by intro e; cases e), ?_, rs, bs⟩
    refine ⟨by simp [allocScope], (by intro w hw; cases hw), ?_, ?_⟩
    · intro r hr
      have := iout r hr
      simp only [allocScope, List.length_append, List.length_singleton]
      exact ⟨by omega, fun w hw => by have := this.2 w hw; omega⟩
    · intro o ho
      have := ihd o ho
      simp only [allocScope, List.length_append, List.length_singleton]
      omega
  | call =>
    refine ⟨_, rfl, chainOK_alloc c _ (by intro p e; cases e; exact iw) (by intro _; exact ⟨_, rfl⟩), ?_, rs, bs⟩
    refine ⟨by simp [allocScope], ?_, ?_, ?_⟩
    · intro w hw
      simp only [allocScope, List.length_append, List.length_singleton]
      simp only [List.mem_cons] at hw
      rcases hw with rfl | hw
      · omega
      · have := isv w hw; omega
    · intro r hr
      have := iout r hr
      simp only [allocScope, List.length_append, List.length_singleton]
      exact ⟨by omega, fun w hw => by have := this.2 w hw; omega⟩
    · intro o ho
      have := ihd o ho
      simp only [allocScope, List.length_append, List.length_singleton]
      omega
  | ret =>
    unfold estep
    cases hsv : st.cur.saved with
    | nil => exact ⟨st, rfl, c, ids', rs, bs⟩
    | cons w rest =>
      refine ⟨_, rfl, c, ⟨?_, ?_, iout, ihd⟩, rs, bs⟩
      · exact isv w (by rw [hsv]; exact List.mem_cons_self)
      · intro w' hw'
        exact isv w' (by rw [hsv]; exact List.mem_cons_of_mem _ hw')
  | subshell bg =>
    unfold estep newOverlay
    cases bg with
    | false =>
      simp only [Bool.not_false, if_true]
      refine ⟨_, rfl, chainOK_alloc c _ (by intro p e; cases e; exact iw) (by intro e; cases e), ?_, rs, bs⟩
      refine ⟨by simp [allocScope], (by intro w hw; cases hw), ?_, ?_⟩
      · intro r hr
        simp only [List.mem_cons] at hr
        simp only [allocScope, List.length_append, List.length_singleton]
        rcases hr with rfl | hr
        · exact ⟨by omega, fun w hw => by have := isv w hw; omega⟩
        · have := iout r hr
          exact ⟨by omega, fun w hw => by have := this.2 w hw; omega⟩
      · intro o ho
        have := ihd o ho
        simp only [allocScope, List.length_append, List.length_singleton]
        omega
    | true =>
      simp only [Bool.not_true, Bool.false_eq_true, if_false]
      have hne : (PRef.ov st.cur.writeEnv = PRef.nil) = False := by simp
      simp only [hne, if_false]
      have c1 : ChainOK (allocScope st.h {}).1 := chainOK_alloc c _ (by intro p e; cases e) (by intro e; cases e)
      obtain ⟨h2, e2, s2⟩ := bgCopy_fine st.h.scopes.length (envEachRef st.h (st.h.scopes.length + 1) (.ov st.cur.writeEnv)) _ c1
      have e2' : bgCopy (allocScope st.h {}).2 (allocScope st.h {}).1
          (envEachRef st.h (st.h.scopes.length + 1) (.ov st.cur.writeEnv)) = some h2 := e2
      simp only [e2', Option.map_some]
      have hl : h2.scopes.length = st.h.scopes.length + 1 := by
        rw [length_eq_of_shape s2.1]; exact alloc_length _ _
      refine ⟨_, rfl, chainOK_of_shape s2.1 c1, ?_, ?_, ?_⟩
      · refine ⟨by simp only [allocScope]; omega, (by intro w hw; cases hw), ?_, ?_⟩
        · intro r hr
          simp only [List.mem_cons] at hr
          simp only
          rcases hr with rfl | hr
          · exact ⟨by omega, fun w hw => by have := isv w hw; omega⟩
          · have := iout r hr
            exact ⟨by omega, fun w hw => by have := this.2 w hw; omega⟩
        · intro o ho
          have := ihd o ho
          simp only
          omega
      · exact s2.2.1.trans rs
      · exact s2.2.2.trans bs
  | subEnd =>
    unfold estep
    cases hout : st.outer with
    | nil => exact ⟨st, rfl, c, ids', rs, bs⟩
    | cons p rest =>
      have hp := iout p (by rw [hout]; exact List.mem_cons_self)
      refine ⟨_, rfl, c, ⟨hp.1, hp.2, ?_, ihd⟩, rs, bs⟩
      intro r hr
      exact iout r (by rw [hout]; exact List.mem_cons_of_mem _ hr)
  | handler =>
    refine ⟨_, rfl, chainOK_alloc c _ (by intro p e; cases e; exact iw) (by intro e; cases e), ?_, rs, bs⟩
    refine ⟨by simp only [allocScope, List.length_append, List.length_singleton]; omega, ?_, ?_, ?_⟩
    · intro w hw
      have := isv w hw
      simp only [allocScope, List.length_append, List.length_singleton]; omega
    · intro r hr
      have := iout r hr
      simp only [allocScope, List.length_append, List.length_singleton]
      exact ⟨by omega, fun w hw => by have := this.2 w hw; omega⟩
    · intro o ho
      simp only [Option.some.injEq] at ho
      subst ho
      simp [allocScope]
  | hset name v =>
    unfold estep
    cases hh : st.handler with
    | none => exact ⟨st, rfl, c, ids', rs, bs⟩
    | some o => exact stOK_afterSet ⟨c, ids', rs, bs⟩ (envSetTop_fine rw st.h o name v c)
  | set name v =>
    exact stOK_afterSet ⟨c, ids', rs, bs⟩ (envSetTop_fine rw st.h st.cur.writeEnv name v c)

theorem erun_ok (rw : Bool) {base} : ∀ (ops : List EOp) (st : EState), StOK base st →
    ∃ st', erun rw st ops = some st' ∧ StOK base st' := by
  intro ops
  induction ops with
  | nil => intro st ok; exact ⟨st, rfl, ok⟩
  | cons op ops ih =>
    intro st ok
    obtain ⟨st1, e1, ok1⟩ := estep_ok rw ok op
    obtain ⟨st2, e2, ok2⟩ := ih st1 ok1
    exact ⟨st2, by simp only [erun, e1]; exact e2, ok2⟩

theorem einit_ok (base : List (Bytes × Var)) : StOK base (einit base) := by
  refine ⟨?_, ?_, rfl, rfl⟩
  · intro o s hs
    simp only [einit, allocScope, List.nil_append] at hs
    cases o with
    | zero =>
      simp only [List.getElem?_cons_zero, Option.some.injEq] at hs
      subst hs
      exact ⟨by intro p e; cases e, by intro e; cases e⟩
    | succ k => simp at hs
  · refine ⟨by simp [einit, allocScope], (by intro w hw; cases hw), (by intro r hr; cases hr), by intro o ho; cases ho⟩

end ShVerif.C29
