import ShVerif.Model.C29
import ShVerif.Proofs.L1Heap
/-
  C29 — helper lemmas.

  Part A: the shape invariant of overlay chains (`ChainOK`: a parent overlay is older than its
  child, and a `funcScope` overlay's parent is an overlay), `overlayEnviron.Set` never reaches the
  root under it, every Runner step preserves it.

  Part B: frame lemmas for `SplitBraces`, `bracesSeqRec` and the small sites on the L1 heap.
-/
namespace ShVerif.C29
open ShVerif ShVerif.L1

/-! ## Part A -/

/-- parent and funcScope of every overlay: what `Set` never changes -/
def shape (h : EnvHeap) : List (PRef × Bool) := h.scopes.map fun s => (s.parent, s.funcScope)

def ChainOK (h : EnvHeap) : Prop :=
  ∀ (o : Nat) (s : Scope), h.scopes[o]? = some s →
    (∀ p, s.parent = .ov p → p < o) ∧ (s.funcScope = true → ∃ p, s.parent = .ov p)

theorem chainOK_of_shape {h h' : EnvHeap} (e : shape h' = shape h) (ok : ChainOK h) : ChainOK h' := by
  intro o s hs
  have h1 : (shape h')[o]? = some (s.parent, s.funcScope) := by
    simp only [shape, List.getElem?_map, hs, Option.map_some]
  rw [e] at h1
  simp only [shape, List.getElem?_map] at h1
  cases hh : h.scopes[o]? with
  | none => rw [hh] at h1; cases h1
  | some s0 =>
    rw [hh] at h1
    simp only [Option.map_some, Option.some.injEq, Prod.mk.injEq] at h1
    have := ok o s0 hh
    rw [h1.1, h1.2] at this
    exact this

theorem shape_setScopeValues (h : EnvHeap) (o : Nat) (vs : List (Bytes × Var)) :
    shape (setScopeValues h o vs) = shape h := by
  unfold shape setScopeValues
  simp only
  apply List.ext_getElem?
  intro i
  simp only [List.getElem?_map, List.getElem?_set]
  by_cases hi : o = i
  · subst hi
    by_cases hl : o < h.scopes.length
    · simp only [hl, if_true, Option.map_some]
      have : h.scopes[o]? = some h.scopes[o] := List.getElem?_eq_getElem hl
      simp only [scopeAt, this, Option.getD_some, Option.map_some]
    · simp only [hl, if_false]
      rw [List.getElem?_eq_none (by omega)]
      rfl
  · simp only [hi, if_false]

theorem rootSets_setScopeValues (h : EnvHeap) (o : Nat) (vs) : (setScopeValues h o vs).rootSets = h.rootSets := rfl
theorem base_setScopeValues (h : EnvHeap) (o : Nat) (vs) : (setScopeValues h o vs).base = h.base := rfl

theorem length_shape (h : EnvHeap) : (shape h).length = h.scopes.length := by simp [shape]

theorem length_eq_of_shape {h h' : EnvHeap} (e : shape h' = shape h) : h'.scopes.length = h.scopes.length := by
  rw [← length_shape, ← length_shape, e]

/-- what a completed `Set` leaves alone -/
def SameRoot (h h' : EnvHeap) : Prop := shape h' = shape h ∧ h'.rootSets = h.rootSets ∧ h'.base = h.base

theorem SameRoot.refl (h : EnvHeap) : SameRoot h h := ⟨rfl, rfl, rfl⟩
theorem SameRoot.trans {a b c : EnvHeap} (x : SameRoot a b) (y : SameRoot b c) : SameRoot a c :=
  ⟨y.1.trans x.1, y.2.1.trans x.2.1, y.2.2.trans x.2.2⟩

theorem sameRoot_set (h : EnvHeap) (o : Nat) (vs) : SameRoot h (setScopeValues h o vs) :=
  ⟨shape_setScopeValues h o vs, rfl, rfl⟩

/-- a `Set` outcome that did not panic and did not touch the root -/
def SetFine (h : EnvHeap) : SetRes → Prop
  | .ok h' => SameRoot h h'
  | .err h' => SameRoot h h'
  | .panic => False

theorem scopeAt_funcScope {h : EnvHeap} {o : Nat} (hf : (scopeAt h o).funcScope = true) :
    h.scopes[o]? = some (scopeAt h o) := by
  unfold scopeAt at *
  cases hh : h.scopes[o]? with
  | none => rw [hh] at hf; simp at hf
  | some s => simp

theorem envSetLocal_fine (h : EnvHeap) (o : Nat) (name : Bytes) (vr prev : Var) :
    SetFine h (envSetLocal h o name vr prev) := by
  unfold envSetLocal
  simp only
  repeat' split
  all_goals first
    | exact sameRoot_set _ _ _
    | exact (sameRoot_set _ _ _).trans (sameRoot_set _ _ _)

/-- Under `ChainOK`, `overlayEnviron.Set` terminates without a type-assertion panic and the root
    Environ receives nothing, whether or not it is a WriteEnviron. -/
theorem envSet_fine (rw : Bool) : ∀ (fuel : Nat) (h : EnvHeap) (o : Nat) (name : Bytes) (vr : Var),
    ChainOK h → 0 < fuel → (o < h.scopes.length → o < fuel) → SetFine h (envSet rw fuel h o name vr) := by
  intro fuel
  induction fuel with
  | zero => intro h o name vr _ hf; omega
  | succ fuel ih =>
    intro h o name vr ok _ hlt
    unfold envSet
    simp only
    split
    · next hfwd =>
      simp only [Bool.and_eq_true] at hfwd
      have hs := scopeAt_funcScope hfwd.1.1
      have ho : o < h.scopes.length := by
        have := List.getElem?_eq_some_iff.mp hs
        exact this.1
      obtain ⟨hpar, hfs⟩ := ok o _ hs
      obtain ⟨p, hp⟩ := hfs hfwd.1.1
      have hpo := hpar p hp
      rw [hp]
      simp only
      have hof := hlt ho
      exact ih h p name vr ok (by omega) (by intro _; omega)
    · exact envSetLocal_fine h o name vr _

theorem envSetTop_fine (rw : Bool) (h : EnvHeap) (o : Nat) (name : Bytes) (vr : Var) (ok : ChainOK h) :
    SetFine h (envSetTop rw h o name vr) :=
  envSet_fine rw _ h o name vr ok (by omega) (by intro hh; omega)

theorem bgCopy_fine (o : Nat) : ∀ (vars : List (Bytes × Var)) (h : EnvHeap), ChainOK h →
    ∃ h', bgCopy o h vars = some h' ∧ SameRoot h h' := by
  intro vars
  induction vars with
  | nil => intro h _; exact ⟨h, rfl, SameRoot.refl h⟩
  | cons nv rest ih =>
    intro h ok
    obtain ⟨n, v⟩ := nv
    have hf := envSetTop_fine false h o n v ok
    unfold bgCopy
    cases hr : envSetTop false h o n v with
    | ok h1 =>
      rw [hr] at hf
      simp only
      obtain ⟨h2, e2, s2⟩ := ih h1 (chainOK_of_shape hf.1 ok)
      exact ⟨h2, e2, hf.trans s2⟩
    | err h1 =>
      rw [hr] at hf
      simp only
      obtain ⟨h2, e2, s2⟩ := ih h1 (chainOK_of_shape hf.1 ok)
      exact ⟨h2, e2, hf.trans s2⟩
    | panic => rw [hr] at hf; exact hf.elim

/-- allocation of an overlay whose parent is the root, nil, or an existing overlay, and that is a
    funcScope only over an overlay -/
theorem chainOK_alloc {h : EnvHeap} (ok : ChainOK h) (s : Scope)
    (hp : ∀ p, s.parent = .ov p → p < h.scopes.length) (hf : s.funcScope = true → ∃ p, s.parent = .ov p) :
    ChainOK (allocScope h s).1 := by
  intro o s' hs
  simp only [allocScope] at hs
  by_cases ho : o < h.scopes.length
  · rw [List.getElem?_append_left ho] at hs
    exact ok o s' hs
  · have ho' : h.scopes.length ≤ o := by omega
    rw [List.getElem?_append_right ho'] at hs
    cases hk : o - h.scopes.length with
    | zero =>
      rw [hk] at hs
      simp only [List.getElem?_cons_zero, Option.some.injEq] at hs
      subst hs
      exact ⟨fun p e => by have := hp p e; omega, hf⟩
    | succ k => rw [hk] at hs; simp at hs

theorem alloc_root (h : EnvHeap) (s : Scope) : (allocScope h s).1.rootSets = h.rootSets ∧ (allocScope h s).1.base = h.base :=
  ⟨rfl, rfl⟩

theorem alloc_length (h : EnvHeap) (s : Scope) : (allocScope h s).1.scopes.length = h.scopes.length + 1 := by
  simp [allocScope]

/-- ids held by the Runner states are existing overlays -/
structure IdsOK (st : EState) : Prop where
  cur : st.cur.writeEnv < st.h.scopes.length
  saved : ∀ w ∈ st.cur.saved, w < st.h.scopes.length
  outer : ∀ r ∈ st.outer, r.writeEnv < st.h.scopes.length ∧ ∀ w ∈ r.saved, w < st.h.scopes.length
  handler : ∀ o, st.handler = some o → o < st.h.scopes.length

/-- the invariant of a run: chains well shaped, ids valid, root untouched -/
def StOK (base : List (Bytes × Var)) (st : EState) : Prop :=
  ChainOK st.h ∧ IdsOK st ∧ st.h.rootSets = [] ∧ st.h.base = base

theorem idsOK_mono {st : EState} {h' : EnvHeap} (ids : IdsOK st) (hl : st.h.scopes.length ≤ h'.scopes.length) :
    IdsOK { st with h := h' } := by
  obtain ⟨a, b, c, d⟩ := ids
  refine ⟨by simp only; omega, fun w hw => by have := b w hw; simp only; omega, fun r hr => ?_, fun o ho => by have := d o ho; simp only; omega⟩
  have := c r hr
  exact ⟨by simp only; omega, fun w hw => by have := this.2 w hw; simp only; omega⟩

theorem stOK_afterSet {base} {st : EState} (ok : StOK base st) {r : SetRes} (hf : SetFine st.h r) :
    ∃ st', afterSet st r = some st' ∧ StOK base st' := by
  obtain ⟨c, ids, rs, bs⟩ := ok
  cases r with
  | ok h' =>
    refine ⟨{ st with h := h' }, rfl, chainOK_of_shape hf.1 c, idsOK_mono ids (by rw [length_eq_of_shape hf.1]; exact Nat.le_refl _), ?_, ?_⟩
    · exact hf.2.1.trans rs
    · exact hf.2.2.trans bs
  | err h' =>
    refine ⟨{ st with h := h' }, rfl, chainOK_of_shape hf.1 c, idsOK_mono ids (by rw [length_eq_of_shape hf.1]; exact Nat.le_refl _), ?_, ?_⟩
    · exact hf.2.1.trans rs
    · exact hf.2.2.trans bs
  | panic => exact hf.elim

theorem estep_ok (rw : Bool) {base} {st : EState} (ok : StOK base st) (op : EOp) :
    ∃ st', estep rw st op = some st' ∧ StOK base st' := by
  obtain ⟨c, ids, rs, bs⟩ := ok
  have ids' := ids
  obtain ⟨iw, isv, iout, ihd⟩ := ids
  cases op with
  | reset =>
    refine ⟨_, rfl, chainOK_alloc c _ (by intro p e; cases e) (by intro e; cases e), ?_, rs, bs⟩
    refine ⟨by simp [allocScope], (by intro w hw; cases hw), ?_, ?_⟩
    · intro r hr
      have := iout r hr
      simp only [allocScope, List.length_append, List.length_singleton]
      exact ⟨by omega, fun w hw => by have := this.2 w hw; omega⟩
    · intro o ho
      have := ihd o ho
      simp only [allocScope, List.length_append, List.length_singleton]
      omega
  | call =>
    refine ⟨_, rfl, chainOK_alloc c _ (by intro p e; cases e; exact iw) (by intro _; exact ⟨_, rfl⟩), ?_, rs, bs⟩
    refine ⟨by simp [allocScope], ?_, ?_, ?_⟩
    · intro w hw
      simp only [allocScope, List.length_append, List.length_singleton]
      simp only [List.mem_cons] at hw
      rcases hw with rfl | hw
      · omega
      · have := isv w hw; omega
    · intro r hr
      have := iout r hr
      simp only [allocScope, List.length_append, List.length_singleton]
      exact ⟨by omega, fun w hw => by have := this.2 w hw; omega⟩
    · intro o ho
      have := ihd o ho
      simp only [allocScope, List.length_append, List.length_singleton]
      omega
  | ret =>
    unfold estep
    cases hsv : st.cur.saved with
    | nil => exact ⟨st, rfl, c, ids', rs, bs⟩
    | cons w rest =>
      refine ⟨_, rfl, c, ⟨?_, ?_, iout, ihd⟩, rs, bs⟩
      · exact isv w (by rw [hsv]; exact List.mem_cons_self)
      · intro w' hw'
        exact isv w' (by rw [hsv]; exact List.mem_cons_of_mem _ hw')
  | subshell bg =>
    unfold estep newOverlay
    cases bg with
    | false =>
      simp only [Bool.not_false, if_true]
      refine ⟨_, rfl, chainOK_alloc c _ (by intro p e; cases e; exact iw) (by intro e; cases e), ?_, rs, bs⟩
      refine ⟨by simp [allocScope], (by intro w hw; cases hw), ?_, ?_⟩
      · intro r hr
        simp only [List.mem_cons] at hr
        simp only [allocScope, List.length_append, List.length_singleton]
        rcases hr with rfl | hr
        · exact ⟨by omega, fun w hw => by have := isv w hw; omega⟩
        · have := iout r hr
          exact ⟨by omega, fun w hw => by have := this.2 w hw; omega⟩
      · intro o ho
        have := ihd o ho
        simp only [allocScope, List.length_append, List.length_singleton]
        omega
    | true =>
      simp only [Bool.not_true, Bool.false_eq_true, if_false]
      have hne : (PRef.ov st.cur.writeEnv = PRef.nil) = False := by simp
      simp only [hne, if_false]
      have c1 : ChainOK (allocScope st.h {}).1 := chainOK_alloc c _ (by intro p e; cases e) (by intro e; cases e)
      obtain ⟨h2, e2, s2⟩ := bgCopy_fine st.h.scopes.length (envEachRef st.h (st.h.scopes.length + 1) (.ov st.cur.writeEnv)) _ c1
      have e2' : bgCopy (allocScope st.h {}).2 (allocScope st.h {}).1
          (envEachRef st.h (st.h.scopes.length + 1) (.ov st.cur.writeEnv)) = some h2 := e2
      simp only [e2', Option.map_some]
      have hl : h2.scopes.length = st.h.scopes.length + 1 := by
        rw [length_eq_of_shape s2.1]; exact alloc_length _ _
      refine ⟨_, rfl, chainOK_of_shape s2.1 c1, ?_, ?_, ?_⟩
      · refine ⟨by simp only [allocScope]; omega, (by intro w hw; cases hw), ?_, ?_⟩
        · intro r hr
          simp only [List.mem_cons] at hr
          simp only
          rcases hr with rfl | hr
          · exact ⟨by omega, fun w hw => by have := isv w hw; omega⟩
          · have := iout r hr
            exact ⟨by omega, fun w hw => by have := this.2 w hw; omega⟩
        · intro o ho
          have := ihd o ho
          simp only
          omega
      · exact s2.2.1.trans rs
      · exact s2.2.2.trans bs
  | subEnd =>
    unfold estep
    cases hout : st.outer with
    | nil => exact ⟨st, rfl, c, ids', rs, bs⟩
    | cons p rest =>
      have hp := iout p (by rw [hout]; exact List.mem_cons_self)
      refine ⟨_, rfl, c, ⟨hp.1, hp.2, ?_, ihd⟩, rs, bs⟩
      intro r hr
      exact iout r (by rw [hout]; exact List.mem_cons_of_mem _ hr)
  | handler =>
    refine ⟨_, rfl, chainOK_alloc c _ (by intro p e; cases e; exact iw) (by intro e; cases e), ?_, rs, bs⟩
    refine ⟨by simp only [allocScope, List.length_append, List.length_singleton]; omega, ?_, ?_, ?_⟩
    · intro w hw
      have := isv w hw
      simp only [allocScope, List.length_append, List.length_singleton]; omega
    · intro r hr
      have := iout r hr
      simp only [allocScope, List.length_append, List.length_singleton]
      exact ⟨by omega, fun w hw => by have := this.2 w hw; omega⟩
    · intro o ho
      simp only [Option.some.injEq] at ho
      subst ho
      simp [allocScope]
  | hset name v =>
    unfold estep
    cases hh : st.handler with
    | none => exact ⟨st, rfl, c, ids', rs, bs⟩
    | some o => exact stOK_afterSet ⟨c, ids', rs, bs⟩ (envSetTop_fine rw st.h o name v c)
  | set name v =>
    exact stOK_afterSet ⟨c, ids', rs, bs⟩ (envSetTop_fine rw st.h st.cur.writeEnv name v c)

theorem erun_ok (rw : Bool) {base} : ∀ (ops : List EOp) (st : EState), StOK base st →
    ∃ st', erun rw st ops = some st' ∧ StOK base st' := by
  intro ops
  induction ops with
  | nil => intro st ok; exact ⟨st, rfl, ok⟩
  | cons op ops ih =>
    intro st ok
    obtain ⟨st1, e1, ok1⟩ := estep_ok rw ok op
    obtain ⟨st2, e2, ok2⟩ := ih st1 ok1
    exact ⟨st2, by simp only [erun, e1]; exact e2, ok2⟩

theorem einit_ok (base : List (Bytes × Var)) : StOK base (einit base) := by
  refine ⟨?_, ?_, rfl, rfl⟩
  · intro o s hs
    simp only [einit, allocScope, List.nil_append] at hs
    cases o with
    | zero =>
      simp only [List.getElem?_cons_zero, Option.some.injEq] at hs
      subst hs
      exact ⟨(by intro p e; cases e), (by intro e; cases e)⟩
    | succ k => simp at hs
  · refine ⟨by simp [einit, allocScope], (by intro w hw; cases hw), (by intro r hr; cases hr), by intro o ho; cases ho⟩

/-! ## Part B — frames on the word heap -/

/-- sizes of the three heap components at the moment a function is entered -/
structure Sizes where
  w : Nat
  b : Nat
  a : Nat

def sizesOf (h : Heap) : Sizes := ⟨h.words.length, h.braces.length, h.parr.length⟩

/-- frame: the first `n.*` words, braces and arrays are untouched -/
structure HFr (n : Sizes) (h h' : Heap) : Prop where
  words : ListFr n.w h.words h'.words
  braces : ListFr n.b h.braces h'.braces
  parr : ListFr n.a h.parr h'.parr

/-- objects created since entry hold only storage allocated since entry, and braces created since
    entry only list words created since entry -/
structure HInv (n : Sizes) (h : Heap) : Prop where
  owned : ∀ w, n.w ≤ w → Owned n.a (wordAt h w)
  elems : ∀ b, n.b ≤ b → ∀ x ∈ (braceAt h b).elems, n.w ≤ x

theorem HFr.refl {n : Sizes} {h : Heap} (hw : n.w ≤ h.words.length) (hb : n.b ≤ h.braces.length)
    (ha : n.a ≤ h.parr.length) : HFr n h h := ⟨ListFr.refl hw, ListFr.refl hb, ListFr.refl ha⟩

theorem HFr.trans {n : Sizes} {a b c : Heap} (x : HFr n a b) (y : HFr n b c) : HFr n a c :=
  ⟨x.words.trans y.words, x.braces.trans y.braces, x.parr.trans y.parr⟩

structure Good (n : Sizes) (h0 h : Heap) : Prop where
  fr : HFr n h0 h
  inv : HInv n h

theorem Good.lw {n h0 h} (g : Good n h0 h) : n.w ≤ h.words.length := g.fr.words.1
theorem Good.lb {n h0 h} (g : Good n h0 h) : n.b ≤ h.braces.length := g.fr.braces.1
theorem Good.la {n h0 h} (g : Good n h0 h) : n.a ≤ h.parr.length := g.fr.parr.1

theorem wordAt_setWord (h : Heap) (w w' : Nat) (s : Slice) :
    wordAt (setWord h w s) w' = if w' = w ∧ w < h.words.length then s else wordAt h w' := by
  unfold wordAt setWord
  simp only [List.getElem?_set]
  by_cases e : w = w'
  · subst e
    by_cases hl : w < h.words.length
    · simp [hl]
    · simp [hl]
  · have e' : ¬ w' = w := fun x => e x.symm
    simp [e, e']

theorem braceAt_setWord (h : Heap) (w : Nat) (s : Slice) (b : Nat) : braceAt (setWord h w s) b = braceAt h b := rfl

theorem braceAt_setBrace (h : Heap) (b b' : Nat) (o : BraceObj) :
    braceAt (setBrace h b o) b' = if b' = b ∧ b < h.braces.length then o else braceAt h b' := by
  unfold braceAt setBrace
  simp only [List.getElem?_set]
  by_cases e : b = b'
  · subst e
    by_cases hl : b < h.braces.length
    · simp [hl]
    · simp [hl]
  · have e' : ¬ b' = b := fun x => e x.symm
    simp [e, e']

theorem good_setWord {n h0 h} (g : Good n h0 h) {w : Nat} {s : Slice} (hw : n.w ≤ w) (ho : Owned n.a s) :
    Good n h0 (setWord h w s) := by
  refine ⟨⟨g.fr.words.trans (listFr_set _ _ g.lw hw), g.fr.braces, g.fr.parr⟩, ⟨?_, ?_⟩⟩
  · intro w' hw'
    rw [wordAt_setWord]
    split
    · exact ho
    · exact g.inv.owned w' hw'
  · intro b hb x hx
    exact g.inv.elems b hb x hx

theorem good_setBrace {n h0 h} (g : Good n h0 h) {b : Nat} {o : BraceObj} (hb : n.b ≤ b) (ho : ∀ x ∈ o.elems, n.w ≤ x) :
    Good n h0 (setBrace h b o) := by
  refine ⟨⟨g.fr.words, g.fr.braces.trans (listFr_set _ _ g.lb hb), g.fr.parr⟩, ⟨?_, ?_⟩⟩
  · intro w hw
    exact g.inv.owned w hw
  · intro b' hb' x hx
    rw [braceAt_setBrace] at hx
    split at hx
    · exact ho x hx
    · exact g.inv.elems b' hb' x hx

theorem wordAt_newWord (h : Heap) (s : Slice) (w : Nat) :
    wordAt (newWord h s).1 w = if w = h.words.length then s else wordAt h w := by
  unfold wordAt newWord
  simp only
  by_cases hl : w < h.words.length
  · rw [List.getElem?_append_left hl]
    have : ¬ w = h.words.length := by omega
    simp [this]
  · rw [List.getElem?_append_right (by omega)]
    by_cases e : w = h.words.length
    · subst e; simp
    · have : w - h.words.length ≠ 0 := by omega
      cases hk : w - h.words.length with
      | zero => exact absurd hk this
      | succ k =>
        simp only [List.getElem?_cons_succ, List.getElem?_nil, Option.getD_none, e, if_false]
        rw [List.getElem?_eq_none (by omega)]
        rfl

theorem good_newWord {n h0 h} (g : Good n h0 h) {s : Slice} (ho : Owned n.a s) :
    Good n h0 (newWord h s).1 ∧ n.w ≤ (newWord h s).2 := by
  refine ⟨⟨⟨g.fr.words.trans (listFr_append _ _ g.lw), g.fr.braces, g.fr.parr⟩, ⟨?_, ?_⟩⟩, g.lw⟩
  · intro w hw
    rw [wordAt_newWord]
    split
    · exact ho
    · exact g.inv.owned w hw
  · intro b hb x hx
    exact g.inv.elems b hb x hx

theorem braceAt_newBrace (h : Heap) (es : List Nat) (b : Nat) :
    braceAt (newBrace h es).1 b = if b = h.braces.length then { elems := es } else braceAt h b := by
  unfold braceAt newBrace
  simp only
  by_cases hl : b < h.braces.length
  · rw [List.getElem?_append_left hl]
    have : ¬ b = h.braces.length := by omega
    simp [this]
  · rw [List.getElem?_append_right (by omega)]
    by_cases e : b = h.braces.length
    · subst e; simp
    · cases hk : b - h.braces.length with
      | zero => omega
      | succ k =>
        simp only [List.getElem?_cons_succ, List.getElem?_nil, Option.getD_none, e, if_false]
        rw [List.getElem?_eq_none (by omega)]
        rfl

theorem good_newBrace {n h0 h} (g : Good n h0 h) {es : List Nat} (he : ∀ x ∈ es, n.w ≤ x) :
    Good n h0 (newBrace h es).1 ∧ n.b ≤ (newBrace h es).2 := by
  refine ⟨⟨⟨g.fr.words, g.fr.braces.trans (listFr_append _ _ g.lb), g.fr.parr⟩, ⟨?_, ?_⟩⟩, g.lb⟩
  · intro w hw
    exact g.inv.owned w hw
  · intro b hb x hx
    rw [braceAt_newBrace] at hx
    split at hx
    · exact he x hx
    · exact g.inv.elems b hb x hx

/-- replacing the array heap by a framed one keeps everything (Owned only looks at headers) -/
theorem good_parr {n h0 h} (g : Good n h0 h) {parr' : ArrHeap Part} (fr : ListFr n.a h.parr parr') :
    Good n h0 { h with parr := parr' } :=
  ⟨⟨g.fr.words, g.fr.braces, g.fr.parr.trans fr⟩, ⟨fun w hw => g.inv.owned w hw, fun b hb x hx => g.inv.elems b hb x hx⟩⟩

theorem good_appendPart {n h0 h} (gr : Grow) (g : Good n h0 h) {w : Nat} (p : Part) (hw : n.w ≤ w) :
    Good n h0 (appendPart gr h w p) := by
  unfold appendPart
  have h1 := sliceAppend_fr gr h.parr (wordAt h w) p g.la (g.inv.owned w hw)
  exact good_setWord (good_parr g h1.1) hw h1.2

theorem good_appendParts {n h0 h} (gr : Grow) (g : Good n h0 h) {w : Nat} (ps : List Part) (hw : n.w ≤ w) :
    Good n h0 (appendParts gr h w ps) := by
  unfold appendParts
  have h1 := sliceAppendMany_fr gr h.parr (wordAt h w) ps g.la (g.inv.owned w hw)
  exact good_setWord (good_parr g h1.1) hw h1.2

/-- invariant of the local state of `SplitBraces` -/
structure SBInv (n : Sizes) (h0 : Heap) (st : SB) : Prop where
  good : Good n h0 st.h
  top : n.w ≤ st.top
  acc : n.w ≤ st.acc
  opn : ∀ b ∈ st.opn, n.b ≤ b

theorem sb_addLit {n h0 st} (g : Grow) (i : SBInv n h0 st) (p : Part) : SBInv n h0 (addLit g st p) :=
  ⟨good_appendPart g i.good p i.acc, i.top, i.acc, i.opn⟩

theorem sb_addLitIdx {n h0 st} (g : Grow) (i : SBInv n h0 st) (v : Bytes) (last j : Nat) :
    SBInv n h0 (addLitIdx g st v last j) := by
  unfold addLitIdx
  split
  · exact i
  · exact sb_addLit g i _

theorem sb_pop {n h0 st} (i : SBInv n h0 st) {st' : SB} {old : Nat} (e : pop st = some (st', old)) :
    SBInv n h0 st' ∧ n.b ≤ old := by
  unfold pop at e
  split at e
  · cases e
  · next old' hop =>
    simp only [Option.some.injEq, Prod.mk.injEq] at e
    obtain ⟨e1, e2⟩ := e
    subst e1 e2
    exact ⟨⟨i.good, i.top, i.top, by intro b hb; cases hb⟩, i.opn _ (by rw [hop]; exact List.mem_cons_self)⟩
  · next old' b rest hop =>
    split at e
    · cases e
    · next w hw =>
      simp only [Option.some.injEq, Prod.mk.injEq] at e
      obtain ⟨e1, e2⟩ := e
      subst e1 e2
      have hb : n.b ≤ b := i.opn b (by rw [hop]; exact List.mem_cons_of_mem _ List.mem_cons_self)
      have hwm : w ∈ (braceAt st.h b).elems := List.mem_of_getLast? hw
      refine ⟨⟨i.good, i.top, i.good.inv.elems b hb w hwm, ?_⟩, i.opn _ (by rw [hop]; exact List.mem_cons_self)⟩
      intro b' hb'
      exact i.opn b' (by rw [hop]; exact List.mem_cons_of_mem _ hb')

theorem sb_addSep {n h0 st} (g : Grow) (sep : Option Part) (i : SBInv n h0 st) (first : Bool) :
    SBInv n h0 (addSep g sep st first) := by
  unfold addSep
  split
  · exact i
  · split
    · exact sb_addLit g i _
    · exact i

theorem sb_spliceElems {n h0} (g : Grow) (sep : Option Part) : ∀ (es : List Nat) (st : SB) (first : Bool),
    SBInv n h0 st → SBInv n h0 (spliceElems g sep st es first) := by
  intro es
  induction es with
  | nil => intro st first i; exact i
  | cons e es ih =>
    intro st first i
    unfold spliceElems
    simp only
    apply ih
    have i1 := sb_addSep g sep i first
    exact ⟨good_appendParts g i1.good _ i1.acc, i1.top, i1.acc, i1.opn⟩

theorem good_mergeSeq {n h0 h} (g : Grow) (gd : Good n h0 h) {b : Nat} (hb : n.b ≤ b) {h' : Heap}
    (e : mergeSeq g h b = some h') : Good n h0 h' := by
  unfold mergeSeq at e
  split at e
  · cases e
  · next merged rest hel =>
    simp only [Option.some.injEq] at e
    subst e
    have hm : n.w ≤ merged := gd.inv.elems b hb merged (by rw [hel]; exact List.mem_cons_self)
    have hfold : ∀ (l : List Nat) (h1 : Heap), Good n h0 h1 →
        Good n h0 (l.foldl (fun h e => appendParts g (appendPart g h merged litDots) merged (partsOf h e)) h1) := by
      intro l
      induction l with
      | nil => intro h1 g1; exact g1
      | cons x xs ih =>
        intro h1 g1
        simp only [List.foldl_cons]
        exact ih _ (good_appendParts g (good_appendPart g g1 _ hm) _ hm)
    refine good_setBrace (hfold rest h gd) hb ?_
    intro x hx
    simp only [List.mem_singleton] at hx
    subst hx
    exact hm

theorem sb_unbrace {n h0 st} (g : Grow) (i : SBInv n h0 st) (elems : List Nat) (sep : Option Part) :
    SBInv n h0 (unbrace g st elems sep) :=
  sb_addLit g (sb_spliceElems g sep elems _ true (sb_addLit g i _)) _

theorem sb_closeBrace {n h0 st} (g : Grow) (i : SBInv n h0 st) {br : Nat} (_hbr : n.b ≤ br) :
    SBInv n h0 (closeBrace g st br) := by
  unfold closeBrace
  simp only
  split
  · exact sb_unbrace g i _ _
  · split
    · exact sb_addLit g i _
    · split
      · exact sb_addLit g i _
      · exact sb_unbrace g i _ _

theorem sb_lexLit {n h0} (g : Grow) (v : Bytes) : ∀ (fuel j last : Nat) (st : SB) (st' : SB) (last' : Nat),
    SBInv n h0 st → lexLit g v fuel j last st = some (st', last') → SBInv n h0 st' := by
  intro fuel
  induction fuel with
  | zero =>
    intro j last st st' last' i e
    simp only [lexLit, Option.some.injEq, Prod.mk.injEq] at e
    rw [← e.1]; exact i
  | succ fuel ih =>
    intro j last st st' last' i e
    unfold lexLit at e
    simp only at e
    split at e
    · simp only [Option.some.injEq, Prod.mk.injEq] at e
      rw [← e.1]; exact i
    · split at e
      · exact ih _ _ _ _ _ i e
      · split at e
        · -- '{'
          have i1 := sb_addLitIdx g i v last j
          have w1 := good_newWord i1.good (Owned.nil n.a)
          have b1 := good_newBrace w1.1 (es := [(newWord (addLitIdx g st v last j).h).2])
            (by intro x hx; simp only [List.mem_singleton] at hx; subst hx; exact w1.2)
          refine ih _ _ _ _ _ ?_ e
          refine ⟨b1.1, i1.top, w1.2, ?_⟩
          intro b hb
          simp only [List.mem_cons] at hb
          rcases hb with rfl | hb
          · exact b1.2
          · exact i1.opn b hb
        · split at e
          · -- ','
            split at e
            · exact ih _ _ _ _ _ i e
            · next b hcur =>
              have hbm : b ∈ st.opn := by
                unfold SB.cur at hcur
                cases hop : st.opn with
                | nil => rw [hop] at hcur; cases hcur
                | cons x xs => rw [hop] at hcur; simp only [List.head?_cons, Option.some.injEq] at hcur; subst hcur; exact List.mem_cons_self
              have i1 := sb_addLitIdx g i v last j
              have hb : n.b ≤ b := i.opn b hbm
              split at e
              · cases e
              · next h1 hm =>
                have g1 : Good n h0 h1 := by
                  split at hm
                  · exact good_mergeSeq g i1.good hb hm
                  · simp only [Option.some.injEq] at hm; subst hm; exact i1.good
                have w1 := good_newWord g1 (Owned.nil n.a)
                refine ih _ _ _ _ _ ?_ e
                refine ⟨good_setBrace w1.1 hb ?_, i1.top, w1.2, i1.opn⟩
                intro x hx
                simp only [List.mem_append, List.mem_singleton] at hx
                rcases hx with hx | rfl
                · exact w1.1.inv.elems b hb x hx
                · exact w1.2
          · split at e
            · -- '.'
              split at e
              · exact ih _ _ _ _ _ i e
              · next b hcur =>
                have hbm : b ∈ st.opn := by
                  unfold SB.cur at hcur
                  cases hop : st.opn with
                  | nil => rw [hop] at hcur; cases hcur
                  | cons x xs => rw [hop] at hcur; simp only [List.head?_cons, Option.some.injEq] at hcur; subst hcur; exact List.mem_cons_self
                have hb : n.b ≤ b := i.opn b hbm
                split at e
                · exact ih _ _ _ _ _ i e
                · split at e
                  · exact ih _ _ _ _ _ i e
                  · have i1 := sb_addLitIdx g i v last j
                    have w1 := good_newWord i1.good (Owned.nil n.a)
                    refine ih _ _ _ _ _ ?_ e
                    refine ⟨good_setBrace w1.1 hb ?_, i1.top, w1.2, i1.opn⟩
                    intro x hx
                    simp only [List.mem_append, List.mem_singleton] at hx
                    rcases hx with hx | rfl
                    · exact w1.1.inv.elems b hb x hx
                    · exact w1.2
            · split at e
              · -- '}'
                split at e
                · exact ih _ _ _ _ _ i e
                · have i1 := sb_addLitIdx g i v last j
                  split at e
                  · cases e
                  · next st2 br hp =>
                    have p := sb_pop i1 hp
                    exact ih _ _ _ _ _ (sb_closeBrace g p.1 p.2) e
              · exact ih _ _ _ _ _ i e

theorem sb_lexParts {n h0} (g : Grow) : ∀ (ps : List Part) (st st' : SB),
    SBInv n h0 st → lexParts g st ps = some st' → SBInv n h0 st' := by
  intro ps
  induction ps with
  | nil => intro st st' i e; simp only [lexParts, Option.some.injEq] at e; subst e; exact i
  | cons p ps ih =>
    intro st st' i e
    cases p with
    | lit v =>
      unfold lexParts at e
      split at e
      · cases e
      · next st1 last hl =>
        have i1 := sb_lexLit g v _ _ _ _ _ _ i hl
        refine ih _ _ ?_ e
        split
        · exact sb_addLit g i1 _
        · split
          · exact sb_addLit g i1 _
          · exact i1
    | nilp => exact ih _ _ (sb_addLit g i _) (by simpa only [lexParts] using e)
    | other t => exact ih _ _ (sb_addLit g i _) (by simpa only [lexParts] using e)
    | brace b => exact ih _ _ (sb_addLit g i _) (by simpa only [lexParts] using e)

theorem sb_closeOpen {n h0} (g : Grow) : ∀ (fuel : Nat) (st st' : SB),
    SBInv n h0 st → closeOpen g fuel st = some st' → SBInv n h0 st' := by
  intro fuel
  induction fuel with
  | zero =>
    intro st st' i e
    unfold closeOpen at e
    split at e
    · simp only [Option.some.injEq] at e; subst e; exact i
    · cases e
  | succ fuel ih =>
    intro st st' i e
    unfold closeOpen at e
    split at e
    · simp only [Option.some.injEq] at e; subst e; exact i
    · split at e
      · cases e
      · next st1 br hp =>
        have p := sb_pop i hp
        exact ih _ _ (sb_spliceElems g _ _ _ _ (sb_addLit g p.1 _)) e

/-- what `SplitBraces` may change of what existed: the one `Word` header it was given -/
structure FrExcept (h h' : Heap) (w : Nat) : Prop where
  words : ∀ i, i < h.words.length → i ≠ w → h'.words[i]? = h.words[i]?
  wordsLen : h.words.length ≤ h'.words.length
  braces : ListFr h.braces.length h.braces h'.braces
  parr : ListFr h.parr.length h.parr h'.parr

theorem splitBraces_good (g : Grow) (h : Heap) (w : Nat) {h' : Heap} {b : Bool}
    (e : splitBraces g h w = some (h', b)) :
    FrExcept h h' w ∧ (b = false → h'.words[w]? = h.words[w]? ∨ h.words.length ≤ w) := by
  unfold splitBraces at e
  simp only at e
  split at e
  · simp only [Option.some.injEq, Prod.mk.injEq] at e
    rw [← e.1]
    exact ⟨⟨fun _ _ _ => rfl, Nat.le_refl _, ListFr.refl (Nat.le_refl _), ListFr.refl (Nat.le_refl _)⟩, fun _ => Or.inl rfl⟩
  · split at e
    · cases e
    · next st hlex =>
      split at e
      · cases e
      · next st1 hclose =>
        have g0 : Good (sizesOf h) h h :=
          ⟨HFr.refl (Nat.le_refl _) (Nat.le_refl _) (Nat.le_refl _),
           ⟨fun w' hw' => by
              have : wordAt h w' = Slice.nil := by
                unfold wordAt
                rw [List.getElem?_eq_none (by simpa [sizesOf] using hw')]
                rfl
              rw [this]; exact Owned.nil _,
            fun b' hb' x hx => by
              have : braceAt h b' = {} := by
                unfold braceAt
                rw [List.getElem?_eq_none (by simpa [sizesOf] using hb')]
                rfl
              rw [this] at hx; cases hx⟩⟩
        have w1 := good_newWord g0 (Owned.nil _)
        have i0 : SBInv (sizesOf h) h { h := (newWord h).1, top := (newWord h).2, acc := (newWord h).2, opn := [] } :=
          ⟨w1.1, w1.2, w1.2, by intro b hb; cases hb⟩
        have i1 := sb_lexParts g _ _ _ i0 hlex
        have i2 := sb_closeOpen g _ _ _ i1 hclose
        split at e
        · -- no brace expression: nothing that existed is written, the word included
          simp only [Option.some.injEq, Prod.mk.injEq] at e
          rw [← e.1]
          refine ⟨⟨fun i hi _ => i2.good.fr.words.getElem? hi, i2.good.fr.words.1, i2.good.fr.braces, i2.good.fr.parr⟩, fun _ => ?_⟩
          by_cases hw : w < h.words.length
          · exact Or.inl (i2.good.fr.words.getElem? hw)
          · exact Or.inr (by omega)
        · simp only [Option.some.injEq, Prod.mk.injEq] at e
          rw [← e.1]
          refine ⟨⟨?_, ?_, i2.good.fr.braces, i2.good.fr.parr⟩, fun hb => by rw [← e.2] at hb; cases hb⟩
          · intro i hi hne
            simp only [setWord, List.getElem?_set]
            have hne' : ¬ w = i := fun x => hne x.symm
            simp only [hne', if_false]
            exact i2.good.fr.words.getElem? hi
          · simp only [setWord, List.length_set]
            exact i2.good.fr.words.1

/-! ### FieldsSeq's copy, bracesSeqRec -/

theorem listFr_of_pointwise {α : Type} {n : Nat} {l l' : List α} (hl : n ≤ l.length) (hl' : n ≤ l'.length)
    (hp : ∀ i, i < n → l'[i]? = l[i]?) : ListFr n l l' := by
  refine ⟨hl', ?_⟩
  apply List.ext_getElem?
  intro i
  simp only [List.getElem?_take]
  split
  · next hi => exact hp i hi
  · rfl

/-- everything that existed in `h` is still there and unchanged in `h'` -/
def AllFr (h h' : Heap) : Prop := HFr (sizesOf h) h h'

theorem good_self (h : Heap) : Good (sizesOf h) h h :=
  ⟨HFr.refl (Nat.le_refl _) (Nat.le_refl _) (Nat.le_refl _),
   ⟨fun w' hw' => by
      have : wordAt h w' = Slice.nil := by
        unfold wordAt
        rw [List.getElem?_eq_none (by simpa [sizesOf] using hw')]
        rfl
      rw [this]; exact Owned.nil _,
    fun b' hb' x hx => by
      have : braceAt h b' = {} := by
        unfold braceAt
        rw [List.getElem?_eq_none (by simpa [sizesOf] using hb')]
        rfl
      rw [this] at hx; cases hx⟩⟩

theorem fieldsSeqSplit_fr (g : Grow) (h : Heap) (w : Nat) {h' : Heap} {c : Nat} {b : Bool}
    (e : fieldsSeqSplit g h w = some (h', c, b)) : AllFr h h' ∧ c = h.words.length := by
  unfold fieldsSeqSplit at e
  simp only at e
  cases hs : splitBraces g (newWord h (wordAt h w)).1 (newWord h (wordAt h w)).2 with
  | none => rw [hs] at e; cases e
  | some r =>
    rw [hs] at e
    simp only [Option.map_some, Option.some.injEq, Prod.mk.injEq] at e
    obtain ⟨e1, e2, e3⟩ := e
    obtain ⟨r1, r2⟩ := r
    simp only at e1 e3
    subst e1 e2 e3
    have fx := (splitBraces_good g _ _ hs).1
    refine ⟨⟨?_, ?_, ?_⟩, rfl⟩
    · refine listFr_of_pointwise (Nat.le_refl _) ?_ ?_
      · have := fx.wordsLen
        simp only [newWord, List.length_append, List.length_singleton] at this
        simp only [sizesOf]; omega
      · intro i hi
        simp only [sizesOf] at hi
        have h1 := fx.words i (by simp only [newWord, List.length_append, List.length_singleton]; omega)
          (by simp only [newWord]; omega)
        rw [h1]
        simp only [newWord]
        exact List.getElem?_append_left hi
    · exact fx.braces
    · exact fx.parr

/-- what one alternative's `next.Parts = …` may do: allocate, and return an owned slice -/
def MkOK (n : Sizes) (mk : Heap → Heap × Slice) : Prop :=
  ∀ h, n.a ≤ h.parr.length →
    (mk h).1.words = h.words ∧ (mk h).1.braces = h.braces ∧ ListFr n.a h.parr (mk h).1.parr ∧ Owned n.a (mk h).2

theorem concatParts_ok (n : Sizes) (g : Grow) (h : Heap) (ps : List Part) (hn : n.a ≤ h.parr.length) :
    (concatParts g h ps).1.words = h.words ∧ (concatParts g h ps).1.braces = h.braces ∧
    ListFr n.a h.parr (concatParts g h ps).1.parr ∧ Owned n.a (concatParts g h ps).2 := by
  unfold concatParts
  split
  · exact ⟨rfl, rfl, ListFr.refl hn, Owned.nil _⟩
  · exact ⟨rfl, rfl, listFr_append _ _ hn, Or.inr hn⟩

theorem mkOK_concat (n : Sizes) (g : Grow) (ps : Heap → List Part) : MkOK n (fun h => concatParts g h (ps h)) :=
  fun h hn => concatParts_ok n g h (ps h) hn

theorem mkOK_seq (n : Sizes) (g : Grow) (v : Bytes) (rest : List Part) :
    MkOK n (fun h =>
      let r0 := sliceMake h.parr [Part.lit v] 1
      let r1 := sliceAppendMany g r0.1 r0.2 rest
      ({ h with parr := r1.1 }, r1.2)) := by
  intro h hn
  have h0 := sliceMake_fr (n := n.a) h.parr [Part.lit v] 1 hn
  have h1 := sliceAppendMany_fr g (sliceMake h.parr [Part.lit v] 1).1 (sliceMake h.parr [Part.lit v] 1).2 rest h0.1.1 h0.2
  exact ⟨rfl, rfl, h0.1.trans h1.1, h1.2⟩

theorem good_prependLeft {n h0} (g : Grow) (left : Slice) : ∀ (ws : List Nat) (h : Heap),
    Good n h0 h → (∀ x ∈ ws, n.w ≤ x) → Good n h0 (prependLeft g left h ws) := by
  intro ws
  induction ws with
  | nil => intro h gd _; exact gd
  | cons w ws ih =>
    intro h gd hws
    unfold prependLeft
    simp only
    apply ih
    · have mk := concatParts_ok n g h (cells h.parr left ++ partsOf h w) gd.la
      have g1 : Good n h0 (concatParts g h (cells h.parr left ++ partsOf h w)).1 :=
        ⟨⟨by rw [mk.1]; exact gd.fr.words, by rw [mk.2.1]; exact gd.fr.braces, gd.fr.parr.trans mk.2.2.1⟩,
         ⟨fun w' hw' => by
            have : wordAt (concatParts g h (cells h.parr left ++ partsOf h w)).1 w' = wordAt h w' := by
              unfold wordAt; rw [mk.1]
            rw [this]; exact gd.inv.owned w' hw',
          fun b hb x hx => by
            have : braceAt (concatParts g h (cells h.parr left ++ partsOf h w)).1 b = braceAt h b := by
              unfold braceAt; rw [mk.2.1]
            rw [this] at hx; exact gd.inv.elems b hb x hx⟩⟩
      exact good_setWord g1 (hws w List.mem_cons_self) mk.2.2.2
    · intro x hx
      exact hws x (List.mem_cons_of_mem _ hx)

/-- the induction hypothesis on the recursive call -/
def RecOK (n : Sizes) (h0 : Heap) (rec : Heap → Nat → Option (Heap × List Nat)) : Prop :=
  ∀ h w h' ws, Good n h0 h → rec h w = some (h', ws) → Good n h0 h' ∧ ∀ x ∈ ws, n.w ≤ x

theorem good_bracesAlt {n h0} (g : Grow) {rec} (hrec : RecOK n h0 rec) (word : Nat) (left : Slice)
    {h : Heap} (gd : Good n h0 h) {mk} (hmk : MkOK n mk) {h' : Heap} {ws : List Nat}
    (e : bracesAlt g rec word left h mk = some (h', ws)) : Good n h0 h' ∧ ∀ x ∈ ws, n.w ≤ x := by
  unfold bracesAlt at e
  simp only at e
  have m := hmk (newWord h (wordAt h word)).1 (by simp only [newWord]; exact gd.la)
  -- the heap after `next := *word; next.Parts = …`
  have g2 : Good n h0 (setWord (mk (newWord h (wordAt h word)).1).1 (newWord h (wordAt h word)).2 (mk (newWord h (wordAt h word)).1).2) := by
    generalize mk (newWord h (wordAt h word)).1 = r at m
    obtain ⟨⟨rw, rb, rp⟩, rs⟩ := r
    simp only [newWord] at m ⊢
    obtain ⟨m1, m2, m3, m4⟩ := m
    subst m1 m2
    have lw := gd.lw
    refine ⟨⟨?_, gd.fr.braces, gd.fr.parr.trans m3⟩, ⟨?_, ?_⟩⟩
    · simp only [setWord]
      exact (gd.fr.words.trans (listFr_append _ _ lw)).trans
        (listFr_set _ _ (by simp only [List.length_append, List.length_singleton]; omega) lw)
    · intro w' hw'
      unfold wordAt
      simp only [setWord, List.getElem?_set]
      split
      · next heq =>
        simp only [List.length_append, List.length_singleton, Nat.lt_succ_self, if_true, Option.getD_some]
        exact m4
      · next hne =>
        by_cases hl : w' < h.words.length
        · rw [List.getElem?_append_left hl]
          exact gd.inv.owned w' hw'
        · rw [List.getElem?_eq_none (by simp only [List.length_append, List.length_singleton]; omega)]
          exact Owned.nil _
    · intro b hb x hx
      exact gd.inv.elems b hb x hx
  split at e
  · cases e
  · next h3 ws3 hr =>
    simp only [Option.some.injEq, Prod.mk.injEq] at e
    obtain ⟨e1, e2⟩ := e
    subst e1 e2
    have r := hrec _ _ _ _ g2 hr
    exact ⟨good_prependLeft g left _ _ r.1 r.2, r.2⟩

theorem good_bracesAlts {n h0} (g : Grow) {rec} (hrec : RecOK n h0 rec) (word : Nat) (left : Slice) :
    ∀ (mks : List (Heap → Heap × Slice)) (h : Heap) (h' : Heap) (ws : List Nat), Good n h0 h → (∀ mk ∈ mks, MkOK n mk) →
    bracesAlts g rec word left h mks = some (h', ws) → Good n h0 h' ∧ ∀ x ∈ ws, n.w ≤ x := by
  intro mks
  induction mks with
  | nil =>
    intro h h' ws gd _ e
    simp only [bracesAlts, Option.some.injEq, Prod.mk.injEq] at e
    rw [← e.1, ← e.2]
    exact ⟨gd, by intro x hx; cases hx⟩
  | cons mk mks ih =>
    intro h h' ws gd hmks e
    unfold bracesAlts at e
    split at e
    · cases e
    · next h1 ws1 ha =>
      have a := good_bracesAlt g hrec word left gd (hmks mk List.mem_cons_self) ha
      split at e
      · cases e
      · next h2 ws2 hb =>
        simp only [Option.some.injEq, Prod.mk.injEq] at e
        rw [← e.1, ← e.2]
        have b := ih h1 h2 ws2 a.1 (fun m hm => hmks m (List.mem_cons_of_mem _ hm)) hb
        refine ⟨b.1, ?_⟩
        intro x hx
        simp only [List.mem_append] at hx
        rcases hx with hx | hx
        · exact a.2 x hx
        · exact b.2 x hx

theorem good_bracesScan {n h0} (g : Grow) {rec} (hrec : RecOK n h0 rec) (word : Nat) :
    ∀ (ps : List Part) (h : Heap) (left : Slice) (h' : Heap) (ws : List Nat), Good n h0 h → Owned n.a left →
    bracesScan g rec word h ps left = some (h', ws) → Good n h0 h' ∧ ∀ x ∈ ws, n.w ≤ x := by
  intro ps
  induction ps with
  | nil =>
    intro h left h' ws gd ho e
    simp only [bracesScan, Option.some.injEq, Prod.mk.injEq] at e
    have w1 := good_newWord gd ho
    rw [← e.1, ← e.2]
    refine ⟨w1.1, ?_⟩
    intro x hx
    simp only [List.mem_singleton] at hx
    subst hx
    exact w1.2
  | cons p rest ih =>
    intro h left h' ws gd ho e
    cases p with
    | brace b =>
      unfold bracesScan at e
      simp only at e
      split at e
      · split at e
        · cases e
        · next lits hl =>
          refine good_bracesAlts g hrec word left _ h h' ws gd ?_ e
          intro mk hmk
          simp only [List.mem_map] at hmk
          obtain ⟨v, _, rfl⟩ := hmk
          exact mkOK_seq n g v rest
      · refine good_bracesAlts g hrec word left _ h h' ws gd ?_ e
        intro mk hmk
        simp only [List.mem_map] at hmk
        obtain ⟨el, _, rfl⟩ := hmk
        exact mkOK_concat n g (fun h => partsOf h el ++ rest)
    | nilp =>
      simp only [bracesScan] at e
      have a := sliceAppend_fr g h.parr left Part.nilp gd.la ho
      exact ih _ _ _ _ (good_parr gd a.1) a.2 e
    | lit v =>
      simp only [bracesScan] at e
      have a := sliceAppend_fr g h.parr left (Part.lit v) gd.la ho
      exact ih _ _ _ _ (good_parr gd a.1) a.2 e
    | other t =>
      simp only [bracesScan] at e
      have a := sliceAppend_fr g h.parr left (Part.other t) gd.la ho
      exact ih _ _ _ _ (good_parr gd a.1) a.2 e

theorem good_bracesRec {n h0} (g : Grow) : ∀ (fuel : Nat), RecOK n h0 (bracesRec g fuel) := by
  intro fuel
  induction fuel with
  | zero => intro h w h' ws _ e; simp only [bracesRec] at e; cases e
  | succ fuel ih =>
    intro h w h' ws gd e
    simp only [bracesRec] at e
    exact good_bracesScan g ih w _ _ _ _ _ gd (Owned.nil _) e

/-! ### the small sites -/

theorem sliceConcat_fr (h : IdHeap) (ss : List Slice) : ListFr h.length h (sliceConcat h ss).1 := by
  unfold sliceConcat
  simp only
  split
  · exact ListFr.refl (Nat.le_refl _)
  · exact listFr_append _ _ (Nat.le_refl _)

theorem listFr_weaken {α : Type} {n m : Nat} {l l' : List α} (hnm : n ≤ m) (f : ListFr m l l') : ListFr n l l' := by
  refine ⟨by have := f.1; omega, ?_⟩
  have : (l'.take m).take n = (l.take m).take n := by rw [f.2]
  simpa [List.take_take, Nat.min_eq_left hnm] using this

theorem aliasSplice_fr {h : IdHeap} {args als : Slice} {i : Nat} {h1 : IdHeap} {a1 : Slice}
    (e : aliasSplice h args als i = some (h1, a1)) : ListFr h.length h h1 := by
  unfold aliasSplice at e
  split at e
  · next a b _ _ =>
    split at e
    · simp only [Option.some.injEq] at e
      have := sliceConcat_fr h [a, als, b]
      rw [e] at this
      exact this
    · cases e
  · cases e

theorem aliasLoop_fr (tbl : List (Nat × Slice × Bool)) {n : Nat} : ∀ (fuel : Nat) (h : IdHeap) (args : Slice) (i : Nat)
    (h' : IdHeap) (args' : Slice), n ≤ h.length → aliasLoop tbl fuel h args i = some (h', args') → ListFr n h h' := by
  intro fuel
  induction fuel with
  | zero =>
    intro h args i h' args' hn e
    simp only [aliasLoop, Option.some.injEq, Prod.mk.injEq] at e
    rw [← e.1]; exact ListFr.refl hn
  | succ fuel ih =>
    intro h args i h' args' hn e
    unfold aliasLoop at e
    split at e
    · simp only [Option.some.injEq, Prod.mk.injEq] at e
      rw [← e.1]; exact ListFr.refl hn
    · split at e
      · cases e
      · split at e
        · simp only [Option.some.injEq, Prod.mk.injEq] at e
          rw [← e.1]; exact ListFr.refl hn
        · split at e
          · cases e
          · next h1 args1 hsp =>
            have f1 : ListFr n h h1 := listFr_weaken hn (aliasSplice_fr hsp)
            split at e
            · simp only [Option.some.injEq, Prod.mk.injEq] at e
              rw [← e.1]; exact f1
            · exact f1.trans (ih _ _ _ _ _ f1.1 e)

theorem owned_len0 {n : Nat} {s : Slice} (ho : Owned n s) : Owned n { s with len := 0 } := by
  rcases ho with ⟨_, hc⟩ | ho
  · exact Or.inl ⟨rfl, hc⟩
  · exact Or.inr ho

theorem hdocLines_fr {n : Nat} (g : Grow) (tag : Nat) : ∀ (k : Nat) (h : IdHeap) (cur : Slice) (out : List (List Nat)) (j : Nat),
    n ≤ h.length → Owned n cur →
    ListFr n h (hdocLines g tag h cur out j k).1 ∧ Owned n (hdocLines g tag h cur out j k).2.1 := by
  intro k
  induction k with
  | zero => intro h cur out j hn ho; exact ⟨ListFr.refl hn, ho⟩
  | succ k ih =>
    intro h cur out j hn ho
    simp only [hdocLines]
    have a := sliceAppend_fr g h { cur with len := 0 } (tag + 1000 * j) hn (owned_len0 ho)
    have b := ih _ _ (out ++ [cells h cur]) (j + 1) a.1.1 a.2
    exact ⟨a.1.trans b.1, b.2⟩

theorem hdocSplit_fr {n : Nat} (g : Grow) : ∀ (parts : List (Nat × Nat)) (h : IdHeap) (cur : Slice) (out : List (List Nat)),
    n ≤ h.length → Owned n cur →
    ListFr n h (hdocSplit g h cur out parts).1 ∧ Owned n (hdocSplit g h cur out parts).2.1 := by
  intro parts
  induction parts with
  | nil => intro h cur out hn ho; exact ⟨ListFr.refl hn, ho⟩
  | cons p parts ih =>
    intro h cur out hn ho
    obtain ⟨tag, k⟩ := p
    simp only [hdocSplit]
    have a := sliceAppend_fr g h cur tag hn ho
    have b := hdocLines_fr g tag (k - 1) _ _ out 1 a.1.1 a.2
    have c := ih _ _ (hdocLines g tag (sliceAppend g h cur tag).1 (sliceAppend g h cur tag).2 out 1 (k - 1)).2.2 b.1.1 b.2
    exact ⟨(a.1.trans b.1).trans c.1, c.2⟩

theorem flattenField_fr (h : AHeap) (hasEq : Bool) :
    ListFr h.assigns.length h.assigns (flattenField h hasEq).1.assigns ∧ (flattenField h hasEq).2 = h.assigns.length := by
  unfold flattenField
  simp only
  have l1 : ListFr h.assigns.length h.assigns (h.assigns ++ [({} : AssignObj)]) := listFr_append _ _ (Nat.le_refl _)
  split
  · exact ⟨(l1.trans (listFr_set _ _ l1.1 (Nat.le_refl _))).trans (listFr_set _ _ (by simp) (Nat.le_refl _)), rfl⟩
  · exact ⟨(l1.trans (listFr_set _ _ l1.1 (Nat.le_refl _))).trans (listFr_set _ _ (by simp) (Nat.le_refl _)), rfl⟩

theorem flattenAssigns_fr (fields : Nat → List Bool) {n : Nat} : ∀ (args : List Nat) (h : AHeap), n ≤ h.assigns.length →
    ListFr n h.assigns (flattenAssigns fields h args).1.assigns ∧
    ∀ x ∈ (flattenAssigns fields h args).2, x ∈ args ∨ n ≤ x := by
  intro args
  induction args with
  | nil => intro h hn; exact ⟨ListFr.refl hn, by intro x hx; cases hx⟩
  | cons a rest ih =>
    intro h hn
    unfold flattenAssigns
    split
    · have r := ih h hn
      refine ⟨r.1, ?_⟩
      intro x hx
      simp only [List.mem_cons] at hx ⊢
      rcases hx with rfl | hx
      · exact Or.inl (Or.inl rfl)
      · rcases r.2 x hx with m | m
        · exact Or.inl (Or.inr m)
        · exact Or.inr m
    · -- the fold over the expanded fields
      have hfold : ∀ (fs : List Bool) (acc : AHeap × List Nat), n ≤ acc.1.assigns.length → (∀ x ∈ acc.2, n ≤ x) →
          ListFr n acc.1.assigns (fs.foldl (fun (acc : AHeap × List Nat) e => ((flattenField acc.1 e).1, acc.2 ++ [(flattenField acc.1 e).2])) acc).1.assigns ∧
          ∀ x ∈ (fs.foldl (fun (acc : AHeap × List Nat) e => ((flattenField acc.1 e).1, acc.2 ++ [(flattenField acc.1 e).2])) acc).2, n ≤ x := by
        intro fs
        induction fs with
        | nil => intro acc hl hx; exact ⟨ListFr.refl hl, hx⟩
        | cons f fs ihf =>
          intro acc hl hx
          simp only [List.foldl_cons]
          have ff := flattenField_fr acc.1 f
          have f1 : ListFr n acc.1.assigns (flattenField acc.1 f).1.assigns := listFr_weaken hl ff.1
          have r := ihf ((flattenField acc.1 f).1, acc.2 ++ [(flattenField acc.1 f).2]) f1.1 (by
            intro x hx'
            simp only [List.mem_append, List.mem_singleton] at hx'
            rcases hx' with hx' | rfl
            · exact hx x hx'
            · rw [ff.2]; exact hl)
          exact ⟨f1.trans r.1, r.2⟩
      simp only
      have s := hfold (fields a) (h, []) hn (by intro x hx; cases hx)
      have r := ih _ s.1.1
      refine ⟨s.1.trans r.1, ?_⟩
      intro x hx
      simp only [List.mem_append] at hx
      rcases hx with hx | hx
      · exact Or.inr (s.2 x hx)
      · rcases r.2 x hx with m | m
        · exact Or.inl (List.mem_cons_of_mem _ m)
        · exact Or.inr m

theorem bgStmtCopy_fr (h : List StmtObj) (st : Nat) :
    ListFr h.length h (bgStmtCopy h st).1 ∧ (bgStmtCopy h st).2 = h.length := by
  unfold bgStmtCopy
  have l1 : ListFr h.length h (h ++ [h.getD st {}]) := listFr_append _ _ (Nat.le_refl _)
  exact ⟨(l1.trans (listFr_set _ _ l1.1 (Nat.le_refl _))).trans (listFr_set _ _ (by simp) (Nat.le_refl _)), rfl⟩

end ShVerif.C29
