/-
  C07 — client programs with the two schedule-independent panics as outcomes.
-/
import ShVerif.Proofs.C07Ok
namespace ShVerif.C07
open ShVerif ShVerif.L2
set_option linter.unusedSimpArgs false

/-- `endLit` with fewer literal bytes than the current rune is wide panics under every schedule -/
theorem endLit_panics {s a} (h : R s a) (hr : (a.r == runeEOF || a.r == escNewl) = false)
    (hw : a.w > (a.lit.getD []).length) : ∃ f, s.endLit = .error f := by
  unfold St.endLit
  rw [← h.f_r, ← h.f_w, ← h.f_lit]
  simp only [hr, Bool.false_eq_true, if_false, hw, if_true]
  exact ⟨_, rfl⟩

/-- `zshNumRange` once the cursor is past the buffer panics under every schedule -/
theorem zshNum_panics {s a} (h : R s a) (hr : a.r = runeEOF) (hh : a.halted = false) :
    ∃ f, s.zshNum = .error f := by
  have hov : s.bsp > s.blen := by
    cases he : a.err with
    | some e => have := (h.dead (by simp [he])).2.2.1; omega
    | none => have := (h.eofR he (by rw [← h.f_r]; exact hr) hh).2.2; omega
  unfold St.zshNum St.zshLoop
  simp only [hov, if_true]
  exact ⟨_, rfl⟩

theorem specRunF_ok_le {α : Type} (p : Prog α) : ∀ (a : LSt), (specRunF p a).ok = true → a.ok = true := by
  induction p with
  | ret x => intro a h; exact h
  | rune k ih => intro a h; unfold specRunF at h; exact rune_ok_le a (ih _ _ h)
  | peek k ih => intro a h; unfold specRunF at h; exact peek_ok_le a (ih _ _ h)
  | peekTwo k ih => intro a h; unfold specRunF at h; exact peekTwo_ok_le a (ih _ _ _ h)
  | zshNum k ih =>
    intro a h; unfold specRunF at h
    split at h
    · exact h
    · exact zshNum_ok_le a (ih _ _ h)
  | stopAt r k ih => intro a h; unfold specRunF at h; exact stopAt_ok_le' a r (ih _ _ h)
  | newLit r k ih => intro a h; unfold specRunF at h; exact newLit_ok_le a r (ih _ h)
  | endLit k ih =>
    intro a h; unfold specRunF at h
    split at h
    · exact h
    · exact endLit_ok_le a (ih _ _ h)
  | pos k ih => intro a h; unfold specRunF at h; exact pos_ok_le a (ih _ _ _ _ h)
  | setBquotes o d k ih => intro a h; unfold specRunF at h; exact ih { a with openBq := o, openBqDbl := d } h
  | getRW k ih => intro a h; unfold specRunF at h; exact ih _ _ _ h
  | lastBq k ih => intro a h; unfold specRunF at h; exact ih _ _ h
  | litGet k ih => intro a h; unfold specRunF at h; exact ih _ _ h
  | litAppend bs k ih => intro a h; unfold specRunF at h; exact ih { a with lit := some (bs.reverse ++ a.lit.getD []) } h
  | litDrop k ih => intro a h; unfold specRunF at h; exact ih { a with lit := none } h
  | errPass k ih => intro a h; unfold specRunF at h; have := ih _ h; simpa using this
  | errGet k ih => intro a h; unfold specRunF at h; exact ih _ _ h

/-- what the chunked run must look like, given the outcome on the unchunked machine -/
def Agrees {α : Type} (x : M (α × St)) : Out α → Prop
  | .done v a => ∃ s', x = .ok (v, s') ∧ R s' a
  | .panic _ => ∃ f, x = .error f

theorem client_refinesF {α : Type} (p : Prog α) : ∀ {s : St} {a : LSt}, R s a →
    (specRunF p a).ok = true → Agrees (p.run s) (specRunF p a) := by
  induction p with
  | ret x => intro s a h _; exact ⟨s, rfl, h⟩
  | rune k ih =>
    intro s a h hok
    unfold specRunF at hok ⊢
    unfold Prog.run
    obtain ⟨s1, h1, hR1⟩ := rune_refines h (specRunF_ok_le _ _ hok)
    simp only [h1, bind_ok]
    exact ih _ hR1 hok
  | peek k ih =>
    intro s a h hok
    unfold specRunF at hok ⊢
    unfold Prog.run
    obtain ⟨s1, h1, hR1⟩ := peek_refines h (specRunF_ok_le _ _ hok)
    simp only [h1, bind_ok]
    exact ih _ hR1 hok
  | peekTwo k ih =>
    intro s a h hok
    unfold specRunF at hok ⊢
    unfold Prog.run
    obtain ⟨s1, h1, hR1⟩ := peekTwo_refines h (specRunF_ok_le _ _ hok)
    simp only [h1, bind_ok]
    exact ih _ _ hR1 hok
  | zshNum k ih =>
    intro s a h hok
    unfold specRunF at hok ⊢
    unfold Prog.run
    by_cases hc : (a.r == runeEOF && !a.halted) = true
    · simp only [hc, if_true] at hok ⊢
      simp at hc
      obtain ⟨f, hf⟩ := zshNum_panics h hc.1 hc.2
      simp only [hf, bind_error]
      exact ⟨f, rfl⟩
    · have hc' : (a.r == runeEOF && !a.halted) = false := by
        cases hx : (a.r == runeEOF && !a.halted) with
        | false => rfl
        | true => exact absurd hx hc
      simp only [hc', Bool.false_eq_true, if_false] at hok ⊢
      obtain ⟨s1, h1, hR1⟩ := zshNum_refines h (specRunF_ok_le _ _ hok)
      simp only [h1, bind_ok]
      exact ih _ hR1 hok
  | stopAt r k ih =>
    intro s a h hok
    unfold specRunF at hok ⊢
    unfold Prog.run
    obtain ⟨s1, h1, hR1⟩ := stopAt_refines h r (specRunF_ok_le _ _ hok)
    simp only [h1, bind_ok]
    exact ih _ hR1 hok
  | newLit r k ih =>
    intro s a h hok
    unfold specRunF at hok ⊢
    unfold Prog.run
    obtain ⟨s1, h1, hR1⟩ := newLit_refines h r
    simp only [h1, bind_ok]
    exact ih hR1 hok
  | endLit k ih =>
    intro s a h hok
    unfold specRunF at hok ⊢
    unfold Prog.run
    by_cases hc : (!(a.r == runeEOF || a.r == escNewl) && decide (a.w > (a.lit.getD []).length)) = true
    · simp only [hc, if_true] at hok ⊢
      have hc1 : (a.r == runeEOF || a.r == escNewl) = false := by
        cases hx : (a.r == runeEOF || a.r == escNewl) with
        | false => rfl
        | true => rw [hx] at hc; simp at hc
      have hc2 : a.w > (a.lit.getD []).length := by
        rw [hc1] at hc; simpa using hc
      obtain ⟨f, hf⟩ := endLit_panics h hc1 hc2
      simp only [hf, bind_error]
      exact ⟨f, rfl⟩
    · have hc' : (!(a.r == runeEOF || a.r == escNewl) && decide (a.w > (a.lit.getD []).length)) = false := by
        cases hx : (!(a.r == runeEOF || a.r == escNewl) && decide (a.w > (a.lit.getD []).length)) with
        | false => rfl
        | true => exact absurd hx hc
      simp only [hc', Bool.false_eq_true, if_false] at hok ⊢
      obtain ⟨s1, h1, hR1⟩ := endLit_refines h (specRunF_ok_le _ _ hok)
      simp only [h1, bind_ok]
      exact ih _ hR1 hok
  | pos k ih =>
    intro s a h hok
    unfold specRunF at hok ⊢
    unfold Prog.run
    obtain ⟨h1, hR1⟩ := pos_refines h (specRunF_ok_le _ _ hok)
    rw [h1]
    exact ih _ _ _ hR1 hok
  | setBquotes o d k ih =>
    intro s a h hok
    unfold specRunF at hok ⊢
    unfold Prog.run
    exact ih (h.setBq o d) hok
  | getRW k ih =>
    intro s a h hok
    unfold specRunF at hok ⊢
    unfold Prog.run
    rw [← h.f_r, ← h.f_w]
    exact ih _ _ h hok
  | lastBq k ih =>
    intro s a h hok
    unfold specRunF at hok ⊢
    unfold Prog.run
    rw [← h.f_lastBqEsc]
    exact ih _ h hok
  | litGet k ih =>
    intro s a h hok
    unfold specRunF at hok ⊢
    unfold Prog.run
    rw [← h.f_lit]
    exact ih _ h hok
  | litAppend bs k ih =>
    intro s a h hok
    unfold specRunF at hok ⊢
    unfold Prog.run
    rw [← h.f_lit]
    exact ih (h.setLit _) hok
  | litDrop k ih =>
    intro s a h hok
    unfold specRunF at hok ⊢
    unfold Prog.run
    exact ih (h.setLit none) hok
  | errPass k ih =>
    intro s a h hok
    unfold specRunF at hok ⊢
    unfold Prog.run
    exact ih (errPass_refines h .client) hok
  | errGet k ih =>
    intro s a h hok
    unfold specRunF at hok ⊢
    unfold Prog.run
    rw [← h.f_err]
    exact ih _ h hok

end ShVerif.C07
