/-
  C07 — `rune` of the chunked byte source refines `rune` of the unchunked one.
-/
import ShVerif.Proofs.C07
namespace ShVerif.C07
open ShVerif ShVerif.L2
set_option linter.unusedSimpArgs false

def LSt.Step.st : LSt.Step → LSt
  | .done a => a
  | .retry _ a => a

/-- related outcomes of one pass through the body of `rune` -/
def StepR : St.Step → LSt.Step → Prop
  | .done s, .done a => R s a
  | .retry bq s, .retry bq' a => bq = bq' ∧ R s a
  | _, _ => False

theorem advance_refines {s a b f} (h : R s a) (hb : a.behind = none) (hf : s.front = b :: f) :
    R s.advance a.consume ∧ s.advance.bsp = s.advance.back.length ∧ a.consume.err = none := by
  obtain ⟨hal, hrest⟩ := h.head hf
  have hl := h.look hal
  have hcur : s.bsp = s.back.length := by
    rcases h.cursor with hc | ⟨hc, _⟩
    · exact hc
    · simp [hf] at hc
  unfold St.advance LSt.consume
  simp only [hf, hrest]
  refine ⟨?_, by simp [hcur], by simpa using hal⟩
  have ha := h.alive hal
  destruct_R h
  constructor <;> simp_all <;> (try assumption) <;> (try omega)

theorem runeTail_refines {s a} (b : Byte) (bq : Nat) (h : R s a) (hal : a.err = none)
    (hcur : s.bsp = s.back.length) (hb7 : b.toNat < 0x80) :
    R (St.runeTail b bq s) (LSt.runeTail b bq a) := by
  have hne : b.toNat ≠ runeEOF := by simp [runeEOF]; omega
  unfold St.runeTail LSt.runeTail St.litPush LSt.litPush
  have ha := h.alive hal
  have hl := h.look hal
  have hlit := h.f_lit
  destruct_R h
  by_cases h96 : b = 96 <;> cases hsl : s.lit <;>
    (constructor <;> simp_all <;> (try assumption) <;> (try omega))

theorem R.setReadEOF {s a} (h : R s a) : R { s with readEOF := false } a := by
  destruct_R h
  constructor <;> simp_all <;> assumption

@[simp] theorem runeTail_ok (b : Byte) (bq : Nat) (a : LSt) : (LSt.runeTail b bq a).ok = a.ok := by
  unfold LSt.runeTail LSt.litPush
  by_cases h96 : b = 96 <;> cases hl : a.lit <;> simp [h96, hl]

theorem runeAfterEsc_ok (b : Byte) (bq : Nat) (a : LSt) :
    (LSt.runeAfterEsc b bq a).st.ok = a.ok := by
  unfold LSt.runeAfterEsc
  cases hr : a.rest with
  | nil => simp [LSt.Step.st]
  | cons c t =>
    simp only []
    split <;> simp [LSt.Step.st]

theorem R.setCol {s a} (h : R s a) (k : Nat) :
    R { s with col := s.col + k } { a with col := a.col + k } := by
  destruct_R h
  constructor <;> simp_all <;> assumption

theorem runeAfterEsc_refines {s a} (b : Byte) (bq : Nat) (h : R s a) (hal : a.err = none)
    (hcur : s.bsp = s.back.length) (hb7 : b.toNat < 0x80)
    (hlk : 1 ≤ a.look ∨ a.rest = []) :
    StepR (St.runeAfterEsc b bq s) (LSt.runeAfterEsc b bq a) := by
  have hobq := h.f_openBq
  have hobd := h.f_openBqDbl
  have hrest := (h.alive hal).1
  have hlook := h.look hal
  have h' := h.setReadEOF
  have hcur' : ({ s with readEOF := false } : St).bsp = ({ s with readEOF := false } : St).back.length := hcur
  unfold St.runeAfterEsc LSt.runeAfterEsc
  simp only []
  cases hf : s.front with
  | cons c f =>
    have hr : a.rest = c :: (f ++ s.pending) := by rw [hrest, hf]; rfl
    have ht := runeTail_refines b bq h' hal hcur' hb7
    have hc := h'.setCol 1
    simp only [hr, hobq, hobd]
    split
    · exact ⟨rfl, by simpa [hf, hr, hobq, hobd] using hc⟩
    · simpa [StepR, hf, hr, hobq, hobd] using ht
  | nil =>
    have hp : s.pending = [] := by
      rcases hlk with h1 | h1
      · rcases hlook with h2 | h2
        · simp [hf] at h2; omega
        · exact h2
      · exact h.pending_nil hal h1
    have hr : a.rest = [] := by rw [hrest, hf, hp]; rfl
    have ht := runeTail_refines b bq h' hal hcur' hb7
    simp only [hr]
    simpa [StepR, hf, hr, hp, hobq, hobd] using ht

/-! ### field facts of the spec-side effects -/

theorem peek_snd (a : LSt) : a.peek.2 = a.forget.peekEff0 := by rw [peek_eq]
theorem peekTwo_snd (a : LSt) : a.peekTwo.2.2 = a.forget.peekTwoEff0 := by rw [peekTwo_eq]
theorem peekTwo_1 (a : LSt) : a.peekTwo.1 = pk1 a.rest := by rw [peekTwo_eq]
theorem peekTwo_2 (a : LSt) : a.peekTwo.2.1 = pk2 a.rest := by rw [peekTwo_eq]

@[simp] theorem peekEff0_rest (a : LSt) : a.peekEff0.rest = a.rest := rfl
@[simp] theorem peekEff0_err (a : LSt) : a.peekEff0.err = a.err := rfl
@[simp] theorem peekEff0_r (a : LSt) : a.peekEff0.r = a.r := rfl
@[simp] theorem peekEff0_ok (a : LSt) : a.peekEff0.ok = a.ok := rfl
@[simp] theorem peekEff0_behind (a : LSt) : a.peekEff0.behind = a.behind := rfl
@[simp] theorem peekEff0_look (a : LSt) : a.peekEff0.look = max a.look 1 := rfl
@[simp] theorem peekEff0_halted (a : LSt) : a.peekEff0.halted = a.halted := rfl

@[simp] theorem peekTwoEff0_rest (a : LSt) : a.peekTwoEff0.rest = a.rest := rfl
@[simp] theorem peekTwoEff0_err (a : LSt) : a.peekTwoEff0.err = a.err := rfl
@[simp] theorem peekTwoEff0_r (a : LSt) : a.peekTwoEff0.r = a.r := rfl
@[simp] theorem peekTwoEff0_ok (a : LSt) : a.peekTwoEff0.ok = a.ok := rfl
@[simp] theorem peekTwoEff0_behind (a : LSt) : a.peekTwoEff0.behind = a.behind := rfl
@[simp] theorem peekTwoEff0_look (a : LSt) : a.peekTwoEff0.look = max a.look 2 := rfl
@[simp] theorem peekTwoEff0_halted (a : LSt) : a.peekTwoEff0.halted = a.halted := rfl

@[simp] theorem consume_ok (a : LSt) : a.consume.ok = a.ok := by
  unfold LSt.consume; split <;> rfl
@[simp] theorem consume_err (a : LSt) : a.consume.err = a.err := by
  unfold LSt.consume; split <;> rfl
@[simp] theorem consume_r (a : LSt) : a.consume.r = a.r := by
  unfold LSt.consume; split <;> rfl
@[simp] theorem consume_behind (a : LSt) : a.consume.behind = a.behind := by
  unfold LSt.consume; split <;> rfl
@[simp] theorem consume_openBq (a : LSt) : a.consume.openBq = a.openBq := by
  unfold LSt.consume; split <;> rfl
@[simp] theorem consume_halted (a : LSt) : a.consume.halted = a.halted := by
  unfold LSt.consume; split <;> rfl

theorem R.cursor_of_ne {s a} (h : R s a) (hr : a.r ≠ runeEOF) : s.bsp = s.back.length := by
  rcases h.cursor with hc | ⟨_, _, hc⟩
  · exact hc
  · rw [← h.f_r] at hc; exact absurd hc hr

/-- what the ghost `look` promises: the first `k ≤ look` unread bytes are in the buffer -/
theorem R.front_prefix {s a} (h : R s a) (hal : a.err = none) (k : Nat) (hk : k ≤ a.look)
    (hk2 : k ≤ a.rest.length) : k ≤ s.front.length := by
  rcases h.look hal with hl | hl
  · omega
  · have := (h.alive hal).1
    rw [hl, List.append_nil] at this
    rw [← this]; exact hk2

theorem R.setWR {s a} (h : R s a) (hal : a.err = none) (hcur : s.bsp = s.back.length)
    (w r : Nat) (hr : r ≠ runeEOF) : R { s with w := w, r := r } { a with w := w, r := r } := by
  have ha := h.alive hal
  have hl := h.look hal
  destruct_R h
  constructor <;> simp_all <;> (try assumption) <;> (try omega)

theorem advance_front {s : St} {b f} (hf : s.front = b :: f) : s.advance.front = f := by
  simp [St.advance, hf]

theorem R.front_cons {s a c t} (h : R s a) (hal : a.err = none) (hl : 1 ≤ a.look)
    (hr : a.rest = c :: t) : ∃ f, s.front = c :: f := by
  have := h.front_prefix hal 1 hl (by simp [hr])
  cases hf : s.front with
  | nil => simp [hf] at this
  | cons c' f =>
    have := (h.head hf).2
    rw [hr] at this
    injection this with h1 _
    exact ⟨f, by rw [h1]⟩

theorem R.front_cons2 {s a c d t} (h : R s a) (hal : a.err = none) (hl : 2 ≤ a.look)
    (hr : a.rest = c :: d :: t) : ∃ f, s.front = c :: d :: f := by
  have hlen := h.front_prefix hal 2 hl (by simp [hr])
  have := (h.alive hal).1
  rw [hr] at this
  rcases hf : s.front with _ | ⟨x, _ | ⟨y, f⟩⟩
  · simp [hf] at hlen
  · simp [hf] at hlen
  · rw [hf] at this
    simp only [List.cons_append] at this
    injection this with h1 h2
    injection h2 with h2 _
    exact ⟨f, by rw [h1, h2]⟩

@[simp] theorem consume_col (a : LSt) : a.consume.col = a.col := by
  unfold LSt.consume; split <;> rfl
@[simp] theorem advance_col (s : St) : s.advance.col = s.col := by
  unfold St.advance; split <;> rfl

theorem runeBackslash_refines {s a} (b : Byte) (bq : Nat) (h : R s a) (hal : a.err = none)
    (hr : a.r ≠ runeEOF) (hb7 : b.toNat < 0x80) (hh : a.halted = false) :
    ∃ st, St.runeBackslash b bq s = .ok st ∧ StepR st (LSt.runeBackslash b bq a) := by
  unfold LSt.runeBackslash
  unfold St.runeBackslash
  have hfr := h.f_r
  obtain ⟨s1, hp1, hR1⟩ := peek_step h hh
  rw [peek_eq]
  simp only
  have hal1 : a.forget.peekEff0.err = none := by simpa using hal
  have hr1 : a.forget.peekEff0.r ≠ runeEOF := by simpa using hr
  have hh1 : a.forget.peekEff0.halted = false := by simpa using hh
  have hb1 : a.forget.peekEff0.behind = none := by simp
  have hl1 : 1 ≤ a.forget.peekEff0.look := by simp; omega
  have hrest1 : a.forget.peekEff0.rest = a.rest := by simp
  generalize a.forget.peekEff0 = a1 at hR1 hal1 hr1 hh1 hb1 hl1 hrest1 ⊢
  by_cases h92 : a.r = 92
  · have h92' : s.r = 92 := by rw [← hfr]; exact h92
    simp only [h92, h92', beq_self_eq_true, if_true, hp1, bind_ok]
    exact ⟨_, rfl, runeAfterEsc_refines b bq hR1 hal1 (hR1.cursor_of_ne hr1) hb7 (Or.inl hl1)⟩
  · have h92' : ¬ s.r = 92 := by rw [← hfr]; exact h92
    have e1 : (a.r == 92) = false := by simp [h92]
    have e2 : (s.r == 92) = false := by simp [h92']
    simp only [e1, e2, Bool.false_eq_true, if_false, hp1, bind_ok]
    by_cases h10 : pk1 a.rest = 10
    · simp only [h10, beq_self_eq_true, if_true]
      obtain ⟨c, t, hrest, hc⟩ : ∃ c t, a.rest = c :: t ∧ c.toNat = 10 := by
        cases hrr : a.rest with
        | nil => rw [hrr] at h10; simp [pk1, runeSelf] at h10
        | cons c t => rw [hrr] at h10; exact ⟨c, t, rfl, by simpa [pk1] using h10⟩
      obtain ⟨f, hf⟩ := hR1.front_cons hal1 hl1 (by rw [hrest1]; exact hrest)
      obtain ⟨hRa, hcur, hala⟩ := advance_refines hR1 hb1 hf
      have := hRa.setWR hala hcur 1 escNewl (by simp [escNewl, runeEOF])
      exact ⟨_, rfl, by simpa [StepR] using this⟩
    · have e3 : (pk1 a.rest == 10) = false := by simp [h10]
      simp only [e3, Bool.false_eq_true, if_false]
      obtain ⟨s2, hp2, hR2⟩ := peekTwo_step hR1 hh1
      rw [peekTwo_eq]
      simp only [hp2, bind_ok]
      have hal2 : a1.forget.peekTwoEff0.err = none := by simpa using hal1
      have hr2 : a1.forget.peekTwoEff0.r ≠ runeEOF := by simpa using hr1
      have hb2 : a1.forget.peekTwoEff0.behind = none := by simp
      have hl2 : 2 ≤ a1.forget.peekTwoEff0.look := by simp; omega
      have hrest2 : a1.forget.peekTwoEff0.rest = a1.rest := by simp
      generalize a1.forget.peekTwoEff0 = a2 at hR2 hal2 hr2 hb2 hl2 hrest2 ⊢
      by_cases hcr : (pk1 a1.rest == 13 && pk2 a1.rest == 10) = true
      · simp only [hcr, if_true]
        simp at hcr
        obtain ⟨c, d, t, hrest, hc, hd⟩ : ∃ c d t, a1.rest = c :: d :: t ∧ c.toNat = 13 ∧ d.toNat = 10 := by
          rcases hrr : a1.rest with _ | ⟨c, _ | ⟨d, t⟩⟩
          · rw [hrr] at hcr; simp [pk1, runeSelf] at hcr
          · rw [hrr] at hcr; simp [pk2, runeSelf] at hcr
          · rw [hrr] at hcr
            exact ⟨c, d, t, rfl, by simpa [pk1] using hcr.1, by simpa [pk2] using hcr.2⟩
        obtain ⟨f, hf⟩ := hR2.front_cons2 hal2 hl2 (by rw [hrest2]; exact hrest)
        obtain ⟨hRa, _, hala⟩ := advance_refines hR2 hb2 hf
        obtain ⟨hRb, hcurb, halb⟩ := advance_refines hRa (by simpa using hb2) (advance_front hf)
        have := (hRb.setCol 1).setWR halb hcurb 2 escNewl (by simp [escNewl, runeEOF])
        exact ⟨_, rfl, by simpa [StepR, St.advanceN, LSt.consumeN] using this⟩
      · have hcr' : (pk1 a1.rest == 13 && pk2 a1.rest == 10) = false := by simpa using hcr
        simp only [hcr', Bool.false_eq_true, if_false]
        exact ⟨_, rfl, runeAfterEsc_refines b bq hR2 hal2 (hR2.cursor_of_ne hr2) hb7 (Or.inl (by omega))⟩

end ShVerif.C07
