import ShVerif.Model.C30
/-
  Helper lemmas for C30.
  Part A: symbolic interpretation of a Reset table (`resetSym`) and the congruence lemma that makes
          "the result only mentions stable fields" mean "the result only depends on stable fields".
  Part B: whole-file run vs one Run per statement.
-/
namespace ShVerif.C30

/-! ## Part A — symbolic Reset -/

/-- symbolic values over the fields of the pre-state -/
inductive Sym where
  | zero
  | inp (f : String)                     -- the pre-state's field f
  | empty (backing : Sym)                -- own store, emptied
  | built (tag : String) (args : List Sym)
  deriving Repr

mutual
  def Sym.eval (s : AState) : Sym → AVal
    | .zero => .zero
    | .inp f => s f
    | .empty b => .empty (Sym.eval s b)
    | .built t as => .built t (Sym.evalList s as)
  def Sym.evalList (s : AState) : List Sym → List AVal
    | [] => []
    | a :: r => Sym.eval s a :: Sym.evalList s r
end

mutual
  /-- observable part: the backing store of an emptied value is dropped -/
  def Sym.obs : Sym → Sym
    | .zero => .zero
    | .inp f => .inp f
    | .empty _ => .empty .zero
    | .built t as => .built t (Sym.obsList as)
  def Sym.obsList : List Sym → List Sym
    | [] => []
    | a :: r => Sym.obs a :: Sym.obsList r
end

mutual
  def Sym.inputs : Sym → List String
    | .zero => []
    | .inp f => [f]
    | .empty b => Sym.inputs b
    | .built _ as => Sym.inputsList as
  def Sym.inputsList : List Sym → List String
    | [] => []
    | a :: r => Sym.inputs a ++ Sym.inputsList r
end

mutual
  theorem Sym.eval_congr (s1 s2 : AState) : ∀ e : Sym, (∀ f ∈ e.inputs, s1 f = s2 f) → e.eval s1 = e.eval s2
    | .zero, _ => rfl
    | .inp f, h => by simpa [Sym.eval] using h f (by simp [Sym.inputs])
    | .empty b, h => by
        have := Sym.eval_congr s1 s2 b (by simpa [Sym.inputs] using h)
        simp [Sym.eval, this]
    | .built t as, h => by
        have := Sym.evalList_congr s1 s2 as (by simpa [Sym.inputs] using h)
        simp [Sym.eval, this]
  theorem Sym.evalList_congr (s1 s2 : AState) : ∀ es : List Sym, (∀ f ∈ Sym.inputsList es, s1 f = s2 f) → Sym.evalList s1 es = Sym.evalList s2 es
    | [], _ => rfl
    | a :: r, h => by
        have h1 := Sym.eval_congr s1 s2 a (fun f hf => h f (by simp [Sym.inputsList, hf]))
        have h2 := Sym.evalList_congr s1 s2 r (fun f hf => h f (by simp [Sym.inputsList, hf]))
        simp [Sym.evalList, h1, h2]
end

/-- value shapes of the extractor, read against a pre-state `pre` (for the literal: the state
    before Reset; for later writes: the state at that point) -/
def symOfVal (cur : String → Sym) (f : String) (v : Val) : Sym :=
  if v.kind = "self" then cur v.field
  else if v.kind = "self0" then .empty (cur v.field)
  else if v.kind = "const" then .built ("const:" ++ v.field) []
  else if v.kind = "make" then .empty .zero
  else if v.kind = "clear" then .empty (cur f)
  else if v.kind = "fresh" then .built "fresh" (v.deps.map cur)
  else if v.kind = "appendSelf" then .built "append" (cur v.field :: v.deps.map cur)
  else .built "other" (v.deps.map cur)

def symLiteral (t : ResetTable) : String → Sym := fun f =>
  match lookup f t.literal with
  | some v => symOfVal .inp f v
  | none => .zero

def symPost (cur : String → Sym) : List Write → String → Sym
  | [] => cur
  | w :: r =>
    let v := symOfVal cur w.field w.val
    symPost (fun g => if g = w.field then v else cur g) r

/-- the symbolic state after `Reset` (guards of post-literal writes are ignored: the checked
    shapes make/clear under isNil/notNil give the same observable value on both branches) -/
def resetSym (t : ResetTable) : String → Sym := symPost (symLiteral t) t.post

/-- a field's observable value after Reset mentions only fields accepted by `stable` -/
def dependsOnlyOn (t : ResetTable) (stable : String → Bool) (f : String) : Bool :=
  ((resetSym t f).obs.inputs).all stable

theorem reset_congr (t : ResetTable) (stable : String → Bool) (f : String)
    (h : dependsOnlyOn t stable f = true) (s1 s2 : AState)
    (hs : ∀ g, stable g = true → s1 g = s2 g) :
    ((resetSym t f).obs).eval s1 = ((resetSym t f).obs).eval s2 := by
  apply Sym.eval_congr
  intro g hg
  apply hs
  unfold dependsOnlyOn at h
  exact (List.all_eq_true.mp h) g hg

/-! ## Part B — whole file vs statement at a time -/

/-- forget the file name -/
def nf (s : St) : St := { s with filename := "" }

theorem run_file_eq (name : String) (ss : List Stmt) (s : St) :
    runFile name ss s = trapCallback (fixLast (stmts (pro name s) ss)) := by
  simp [runFile, run]

theorem run_stmt_eq (c : Stmt) (s : St) :
    run s none [c] = (if (fixLast (stmt (pro "" s) c)).exit.exiting then trapCallback (fixLast (stmt (pro "" s) c)) else fixLast (stmt (pro "" s) c)) := by
  simp [run, stmts]

/-! ### what the pieces of a statement leave alone -/

theorem cmdSimple_handlingTrap (s : St) (c : Simple) : (cmdSimple s c).handlingTrap = s.handlingTrap := by
  cases c <;> rfl
theorem cmdSimple_trap (s : St) (c : Simple) : (cmdSimple s c).trap = s.trap := by
  cases c <;> rfl
theorem cmdSimple_filename (s : St) (c : Simple) : (cmdSimple s c).filename = s.filename := by
  cases c <;> rfl

theorem errx_handlingTrap (s : St) : (errx s).handlingTrap = s.handlingTrap := by
  unfold errx; split <;> rfl
theorem errx_trap (s : St) : (errx s).trap = s.trap := by
  unfold errx; split <;> rfl
theorem errx_filename (s : St) : (errx s).filename = s.filename := by
  unfold errx; split <;> rfl
theorem errx_noexec (s : St) : (errx s).noexec = s.noexec := by
  unfold errx; split <;> rfl

/-- the statement wrapper, when it is not skipped -/
def wrap (s : St) (c : Simple) : St := fixLast (errx (cmdSimple (zeroExit s) c))

theorem stmtSimple_run {s : St} (h : stop s = false) (c : Simple) : stmtSimple s c = wrap s c := by
  simp [stmtSimple, wrap, h]

theorem stmtSimple_skip {s : St} (h : stop s = true) (c : Simple) : stmtSimple s c = s := by
  simp [stmtSimple, h]

theorem wrap_handlingTrap (s : St) (c : Simple) : (wrap s c).handlingTrap = s.handlingTrap := by
  show (errx (cmdSimple (zeroExit s) c)).handlingTrap = _
  rw [errx_handlingTrap, cmdSimple_handlingTrap]; rfl
theorem wrap_trap (s : St) (c : Simple) : (wrap s c).trap = s.trap := by
  show (errx (cmdSimple (zeroExit s) c)).trap = _
  rw [errx_trap, cmdSimple_trap]; rfl
theorem wrap_filename (s : St) (c : Simple) : (wrap s c).filename = s.filename := by
  show (errx (cmdSimple (zeroExit s) c)).filename = _
  rw [errx_filename, cmdSimple_filename]; rfl
theorem wrap_last (s : St) (c : Simple) : (wrap s c).lastExit = (wrap s c).exit := rfl

theorem errx_zero {s : St} (h : s.exit = .zero) : (errx s).exit = .zero := by
  unfold errx
  have hc : s.exit.code = 0 := by rw [h]; rfl
  have hn : ¬ ((s.exit.code ≠ 0 && s.errexit) = true) := by simp [hc]
  rw [if_neg hn, h]

theorem wrap_noexec (s : St) (c : Simple) (hn : s.noexec = false) :
    (wrap s c).noexec = true → (wrap s c).exit = .zero := by
  show (errx (cmdSimple (zeroExit s) c)).noexec = true → (errx (cmdSimple (zeroExit s) c)).exit = .zero
  rw [errx_noexec]
  cases c <;> simp [cmdSimple, zeroExit, hn]
  exact errx_zero rfl

theorem stmtSimple_handlingTrap (s : St) (c : Simple) : (stmtSimple s c).handlingTrap = s.handlingTrap := by
  cases h : stop s
  · rw [stmtSimple_run h, wrap_handlingTrap]
  · rw [stmtSimple_skip h]
theorem stmtSimple_trap (s : St) (c : Simple) : (stmtSimple s c).trap = s.trap := by
  cases h : stop s
  · rw [stmtSimple_run h, wrap_trap]
  · rw [stmtSimple_skip h]
theorem stmtSimple_filename (s : St) (c : Simple) : (stmtSimple s c).filename = s.filename := by
  cases h : stop s
  · rw [stmtSimple_run h, wrap_filename]
  · rw [stmtSimple_skip h]

theorem stmt_trap_run {s : St} (h : stop s = false) (b : List Simple) :
    stmt s (.trapExit b) = fixLast (setTrap (zeroExit s) b) := by
  simp [stmt, h]

theorem stmt_skip {s : St} (h : stop s = true) (c : Stmt) : stmt s c = s := by
  cases c <;> simp [stmt, stmtSimple, h]

theorem stmt_filename (s : St) (c : Stmt) : (stmt s c).filename = s.filename := by
  cases h : stop s
  · cases c with
    | simple c => simp only [stmt]; exact stmtSimple_filename s c
    | trapExit b => rw [stmt_trap_run h]; rfl
  · rw [stmt_skip h]

/-- between top-level statements of a run that has not exited -/
structure Inv (s : St) : Prop where
  noTrap : s.handlingTrap = false
  last : s.lastExit = s.exit
  notExiting : s.exit.exiting = false
  noexecZero : s.noexec = true → s.exit = .zero

theorem stop_of_inv {s : St} (h : Inv s) : stop s = s.noexec := by
  simp [stop, h.noTrap, h.notExiting]

theorem pro_eq_of_zero {s : St} (hz : s.exit = .zero) : pro s.filename s = s := by
  cases s; simp_all [pro]

theorem zeroExit_pro (s : St) : zeroExit (pro s.filename s) = zeroExit s := by
  cases s; rfl

/-- the prologue of Run changes nothing a statement can see -/
theorem stmt_pro {s : St} (h : Inv s) (c : Stmt) : stmt (pro s.filename s) c = stmt s c := by
  cases hn : s.noexec with
  | true => rw [pro_eq_of_zero (h.noexecZero hn)]
  | false =>
    have hs : stop s = false := by rw [stop_of_inv h, hn]
    have hs' : stop (pro s.filename s) = false := by
      simp [stop, pro, Exit.zero, hn]
    cases c with
    | simple c => simp only [stmt]; rw [stmtSimple_run hs, stmtSimple_run hs', wrap, wrap, zeroExit_pro]
    | trapExit b => rw [stmt_trap_run hs, stmt_trap_run hs', zeroExit_pro]

/-- after a statement: still outside a trap, `lastExit = exit`, and noexec only with status 0 -/
theorem stmt_post {s : St} (h : Inv s) (c : Stmt) :
    (stmt s c).handlingTrap = false ∧ (stmt s c).lastExit = (stmt s c).exit
      ∧ ((stmt s c).noexec = true → (stmt s c).exit = .zero) := by
  cases hn : s.noexec with
  | true =>
    have hs : stop s = true := by rw [stop_of_inv h, hn]
    rw [stmt_skip hs]; exact ⟨h.noTrap, h.last, h.noexecZero⟩
  | false =>
    have hs : stop s = false := by rw [stop_of_inv h, hn]
    cases c with
    | trapExit b =>
      rw [stmt_trap_run hs]
      exact ⟨h.noTrap, rfl, fun _ => rfl⟩
    | simple c =>
      simp only [stmt]; rw [stmtSimple_run hs]
      exact ⟨by rw [wrap_handlingTrap, h.noTrap], wrap_last s c, wrap_noexec s c hn⟩

theorem fixLast_of_last {s : St} (h : s.lastExit = s.exit) : fixLast s = s := by
  cases s; simp_all [fixLast]

/-- once the shell is exiting (outside a trap) the remaining statements are skipped -/
theorem stmt_exiting {s : St} (ht : s.handlingTrap = false) (he : s.exit.exiting = true) (c : Stmt) :
    stmt s c = s :=
  stmt_skip (by simp [stop, ht, he]) c

theorem stmts_exiting {s : St} (ht : s.handlingTrap = false) (he : s.exit.exiting = true) (ss : List Stmt) :
    stmts s ss = s := by
  induction ss with
  | nil => rfl
  | cons c r ih => simp only [stmts]; rw [stmt_exiting ht he, ih]

theorem trapCallback_exit (s : St) : (trapCallback s).exit = s.exit := by
  unfold trapCallback
  split
  · rfl
  · split <;> rfl

/-- Core: with an unnamed file the statement-at-a-time states are exactly the whole-file loop's. -/
theorem incr_core (ss : List Stmt) : ∀ s : St, Inv s → s.filename = "" →
    ((runIncr ss s).exit.exiting = true → trapCallback (fixLast (stmts s ss)) = runIncr ss s)
    ∧ ((runIncr ss s).exit.exiting = false → runIncr ss s = stmts s ss ∧ Inv (stmts s ss)) := by
  induction ss with
  | nil =>
    intro s h _
    refine ⟨fun he => ?_, fun _ => ⟨rfl, h⟩⟩
    simp [runIncr, h.notExiting] at he
  | cons c r ih =>
    intro s h hf
    have hpro : stmt (pro "" s) c = stmt s c := by
      have := stmt_pro h c
      rwa [hf] at this
    obtain ⟨p1, p2, p3⟩ := stmt_post h c
    have hfix : fixLast (stmt s c) = stmt s c := fixLast_of_last p2
    have hfn : (stmt s c).filename = "" := by rw [stmt_filename, hf]
    have hrun : run s none [c] = (if (stmt s c).exit.exiting then trapCallback (stmt s c) else stmt s c) := by
      rw [run_stmt_eq, hpro, hfix]
    cases he : (stmt s c).exit.exiting with
    | true =>
      have hr : run s none [c] = trapCallback (stmt s c) := by rw [hrun, he]; rfl
      have hte : (trapCallback (stmt s c)).exit.exiting = true := by rw [trapCallback_exit, he]
      have hi : runIncr (c :: r) s = trapCallback (stmt s c) := by
        simp only [runIncr, hr, hte, if_true]
      rw [hi]
      refine ⟨fun _ => ?_, fun hne => ?_⟩
      · simp only [stmts]; rw [stmts_exiting p1 he r, hfix]
      · rw [hte] at hne; cases hne
    | false =>
      have hr : run s none [c] = stmt s c := by rw [hrun, he]; rfl
      have hi : runIncr (c :: r) s = runIncr r (stmt s c) := by
        simp only [runIncr, hr, he]; rfl
      rw [hi]
      simp only [stmts]
      exact ih (stmt s c) ⟨p1, p2, he, p3⟩ hfn

/-! ### the file name is irrelevant when nobody reads `$0` -/

def simpleOk (c : Simple) : Bool := !usesArg0Simple c
def trapOk (s : St) : Bool := s.trap.all simpleOk

theorem nf_stop (s : St) : stop (nf s) = stop s := rfl

theorem cmdSimple_nf (s : St) (c : Simple) (h : simpleOk c = true) : cmdSimple (nf s) c = nf (cmdSimple s c) := by
  cases c <;> first | rfl | (simp [simpleOk, usesArg0Simple] at h)

theorem errx_nf (s : St) : errx (nf s) = nf (errx s) := by
  unfold errx
  by_cases h : (s.exit.code ≠ 0 && s.errexit) = true
  · have h' : ((nf s).exit.code ≠ 0 && (nf s).errexit) = true := h
    rw [if_pos h, if_pos h']; rfl
  · have h' : ¬ ((nf s).exit.code ≠ 0 && (nf s).errexit) = true := h
    rw [if_neg h, if_neg h']

theorem wrap_nf (s : St) (c : Simple) (h : simpleOk c = true) : wrap (nf s) c = nf (wrap s c) := by
  have e : zeroExit (nf s) = nf (zeroExit s) := rfl
  unfold wrap
  rw [e, cmdSimple_nf _ c h, errx_nf]; rfl

theorem stmtSimple_nf (s : St) (c : Simple) (h : simpleOk c = true) : stmtSimple (nf s) c = nf (stmtSimple s c) := by
  cases hs : stop s
  · rw [stmtSimple_run hs, stmtSimple_run (by rw [nf_stop, hs]), wrap_nf s c h]
  · rw [stmtSimple_skip hs, stmtSimple_skip (by rw [nf_stop, hs])]

theorem stmtsSimple_nf (b : List Simple) : ∀ s : St, b.all simpleOk = true → stmtsSimple (nf s) b = nf (stmtsSimple s b) := by
  induction b with
  | nil => intro s _; rfl
  | cons c r ih =>
    intro s h
    simp only [List.all_cons, Bool.and_eq_true] at h
    simp only [stmtsSimple, stmtSimple_nf s c h.1, ih _ h.2]

theorem stmt_nf (s : St) (c : Stmt) (h : usesArg0 c = false) : stmt (nf s) c = nf (stmt s c) := by
  cases c with
  | simple c =>
    simp only [stmt]
    exact stmtSimple_nf s c (by simpa [simpleOk, usesArg0] using h)
  | trapExit b =>
    cases hs : stop s
    · rw [stmt_trap_run hs, stmt_trap_run (by rw [nf_stop, hs])]; rfl
    · rw [stmt_skip hs, stmt_skip (by rw [nf_stop, hs])]

theorem stmt_trapOk (s : St) (c : Stmt) (h : usesArg0 c = false) (ht : trapOk s = true) : trapOk (stmt s c) = true := by
  cases c with
  | simple c => simp only [stmt, trapOk, stmtSimple_trap]; exact ht
  | trapExit b =>
    cases hs : stop s
    · rw [stmt_trap_run hs]
      show b.all simpleOk = true
      simp only [usesArg0] at h
      rw [List.all_eq_true]
      intro x hx
      have := List.any_eq_false.mp h x hx
      simpa [simpleOk] using this
    · rw [stmt_skip hs]; exact ht

theorem stmts_nf (ss : List Stmt) : ∀ s : St, ss.all (fun c => !usesArg0 c) = true → trapOk s = true →
    stmts (nf s) ss = nf (stmts s ss) ∧ trapOk (stmts s ss) = true := by
  induction ss with
  | nil => intro s _ ht; exact ⟨rfl, ht⟩
  | cons c r ih =>
    intro s h ht
    simp only [List.all_cons, Bool.and_eq_true, Bool.not_eq_true'] at h
    simp only [stmts, stmt_nf s c h.1]
    exact ih _ (by simpa using h.2) (stmt_trapOk s c h.1 ht)

theorem trapCallback_nf (s : St) (ht : trapOk s = true) : trapCallback (nf s) = nf (trapCallback s) := by
  unfold trapCallback
  have e1 : (nf s).trap = s.trap := rfl
  have e2 : (nf s).handlingTrap = s.handlingTrap := rfl
  have e3 : enterTrap (nf s) = nf (enterTrap s) := rfl
  rw [e1, e2, e3, stmtsSimple_nf s.trap _ ht]
  split
  · rfl
  · split <;> rfl

theorem obs_nf (s : St) : (nf s).obs = s.obs := rfl

/-- a named whole-file run is the unnamed one up to the file name, when `$0` is never read -/
theorem runFile_nf (name : String) (ss : List Stmt) (s : St)
    (h : ss.all (fun c => !usesArg0 c) = true) (ht : trapOk s = true) :
    nf (runFile name ss s) = runFile "" ss s := by
  rw [run_file_eq, run_file_eq]
  have e0 : pro "" s = nf (pro name s) := rfl
  have htp : trapOk (pro name s) = true := ht
  obtain ⟨e1, t1⟩ := stmts_nf ss (pro name s) h htp
  rw [e0, e1]
  have e2 : fixLast (nf (stmts (pro name s) ss)) = nf (fixLast (stmts (pro name s) ss)) := rfl
  rw [e2, trapCallback_nf _ (by simpa [trapOk, fixLast] using t1)]

/-- a runner state as `New`/`Reset` leave it (`exit`, `lastExit`, `handlingTrap`, `filename` are
    classified `zeroed` in Part A) -/
def Fresh (s : St) : Prop :=
  s.exit = .zero ∧ s.lastExit = .zero ∧ s.handlingTrap = false ∧ s.filename = ""

theorem fresh_inv {s0 : St} (h : Fresh s0) : Inv s0 ∧ s0.filename = "" ∧ pro "" s0 = s0 := by
  obtain ⟨h1, h2, h3, h4⟩ := h
  refine ⟨⟨h3, by rw [h1, h2], by rw [h1]; rfl, fun _ => h1⟩, h4, ?_⟩
  cases s0; simp_all [pro]

end ShVerif.C30
