import ShVerif.Proofs.C26a
/-
  C26 — simulation: simple commands (`Runner.call` → builtins) against `BashSem`.
-/
namespace ShVerif.C26
open ShVerif.L5 ShVerif.L5.Bash

theorem Dyn.congr {K : SCtx} {k : Ctx} {sub : Bool} {s s' : St} (h : Dyn K k sub s)
    (h1 : s'.callbackErr = s.callbackErr) (h2 : s'.callbackExit = s.callbackExit)
    (h3 : s'.funcs = s.funcs) (h4 : s'.handlingTrap = s.handlingTrap)
    (h5 : s'.noErrExit = s.noErrExit) (h6 : s'.errexit = s.errexit)
    (h7 : s'.inFunc = s.inFunc) (h8 : s'.inLoop = s.inLoop) :
    Dyn K k sub s' :=
  ⟨h1 ▸ h.cerr, ⟨fun hs => h2 ▸ h.csub.1 hs, h2 ▸ h.csub.2⟩, h3 ▸ h.fok, h4 ▸ h.ht, h5 ▸ h.eign, h6 ▸ h.noe, h7 ▸ h.sfn,
   h8 ▸ h.inl⟩

/-- Commands after which the runner may already be `exiting` while `BashSem` still has to make
    its errexit test: a function call that ended in `return n` under `set -e`, a pipeline whose
    last stage (run in the runner itself) failed under `set -e`. -/
def softCmd : Cmd → Bool
  | .call _ => true
  | .pipe _ _ => true
  | _ => false

/-- "The runner is exiting because of errexit; `BashSem` completed the command normally with a
    non-zero status and will exit at its errexit test." -/
def Pending (K : SCtx) (k : Ctx) (sub : Bool) (c : Cmd) (s s' : St) (fl : Flow) (e' : Env) : Prop :=
  fl = .norm ∧ softCmd c = true ∧ e' = absEnvC s' ∧ Dyn K k sub s' ∧ Frame s s' ∧ NoPending s' ∧
    s'.exit.returning = false ∧ s'.exit.exiting = true ∧ s'.errexit = true ∧
    s'.noErrExit = false ∧ s'.exit.code ≠ 0

/-- The relation for commands. -/
def PostC (K : SCtx) (k : Ctx) (sub : Bool) (c : Cmd) (s s' : St) (fl : Flow) (e' : Env) : Prop :=
  Post K k sub False (isChecked c = false ∧ tailOkC c = true) s s' fl e' ∨ Pending K k sub c s s' fl e'

/-- The statement of the simulation for commands at fuel `n`. -/
def SimC (n : Nat) : Prop :=
  ∀ (K : SCtx) (k : Ctx) (sub : Bool) (c : Cmd) (s : St),
    Stat K k sub → supCmd K c = true → Dyn K k sub s → LastOk s → NoPending s → s.exit = {} →
    Rel (PostC K k sub c s) (run n (.cmd c) s) (sem n k (.cmd c) (absEnv s))

/-- … for statements. -/
def SimS (n : Nat) : Prop :=
  ∀ (K : SCtx) (k : Ctx) (sub : Bool) (st : Stmt) (s : St),
    Stat K k sub → supStmt K st = true → Dyn K k sub s → LastOk s → NoFlags s → NoPending s →
    Rel (Post K k sub True (tailOkS st = true) s)
      (run n (.stmt st) s) (sem n k (.stmt st) (absEnv s))

/-- closes goals that hold by computation on explicit states -/
macro "triv" : tactic => `(tactic| first | rfl | trivial | (simp; done))

section atoms
variable {n : Nat} {K : SCtx} {k : Ctx} {sub : Bool} {s : St}

theorem stop_false_of_exit (hx : s.exit = {}) : stop s = false := by simp [stop, hx]

theorem sim_tru (hd : Dyn K k sub s) (hp : NoPending s) (hx : s.exit = {}) (q : Prop) :
    Rel (Post K k sub False q s) (run (n+1) (.cmd .tru) s) (sem (n+1) k (.cmd .tru) (absEnv s)) := by
  simp only [run, sem, stop_false_of_exit hx, Rel, Post]
  refine ⟨?_, hd.congr rfl rfl rfl rfl rfl rfl rfl rfl, ⟨rfl, rfl, rfl⟩, ⟨rfl, rfl⟩, hp, ?_, ?_⟩
  · simp [absEnv, absEnvC]
  · intro h; exact h.elim
  · intro _ h; simp at h

theorem sim_fls (hd : Dyn K k sub s) (hp : NoPending s) (hx : s.exit = {}) (q : Prop) (hq : ¬ q) :
    Rel (Post K k sub False q s)
      (run (n+1) (.cmd .fls) s) (sem (n+1) k (.cmd .fls) (absEnv s)) := by
  simp only [run, sem, stop_false_of_exit hx, Rel, Post]
  refine ⟨?_, hd.congr rfl rfl rfl rfl rfl rfl rfl rfl, ⟨rfl, rfl, rfl⟩, ⟨rfl, rfl⟩, hp, ?_, ?_⟩
  · simp [absEnv, absEnvC]
  · intro h; exact h.elim
  · intro h; exact absurd h hq

theorem sim_echo (w : Word) (hd : Dyn K k sub s) (hp : NoPending s) (hx : s.exit = {}) (q : Prop) :
    Rel (Post K k sub False q s) (run (n+1) (.cmd (.echo w)) s)
      (sem (n+1) k (.cmd (.echo w)) (absEnv s)) := by
  simp only [run, sem, stop_false_of_exit hx, Rel, Post]
  refine ⟨?_, hd.congr rfl rfl rfl rfl rfl rfl rfl rfl, ⟨rfl, rfl, rfl⟩, ⟨rfl, rfl⟩, hp, ?_, ?_⟩
  · simp [absEnv, absEnvC]
  · intro h; exact h.elim
  · intro _ h; simp at h

theorem sim_test (x : Str) (neg : Bool) (v : Str) (hd : Dyn K k sub s) (hp : NoPending s)
    (hx : s.exit = {}) (q : Prop) (hq : ¬ q) :
    Rel (Post K k sub False q s)
      (run (n+1) (.cmd (.test x neg v)) s) (sem (n+1) k (.cmd (.test x neg v)) (absEnv s)) := by
  simp only [run, sem, stop_false_of_exit hx, Rel, Post]
  refine ⟨?_, hd.congr rfl rfl rfl rfl rfl rfl rfl rfl, ⟨rfl, rfl, rfl⟩, ⟨rfl, rfl⟩, hp, ?_, ?_⟩
  · simp [absEnv, absEnvC]
  · intro h; exact h.elim
  · intro h; exact absurd h hq

theorem sim_assign (x : Str) (w : Word) (hd : Dyn K k sub s) (hp : NoPending s)
    (hx : s.exit = {}) (q : Prop) :
    Rel (Post K k sub False q s) (run (n+1) (.cmd (.assign x w)) s)
      (sem (n+1) k (.cmd (.assign x w)) (absEnv s)) := by
  simp only [run, sem, stop_false_of_exit hx, Rel, Post]
  refine ⟨?_, hd.congr rfl rfl rfl rfl rfl rfl rfl rfl, ⟨rfl, rfl, rfl⟩, ⟨rfl, rfl⟩, hp, ?_, ?_⟩
  · simp [absEnv, absEnvC]
  · intro h; exact h.elim
  · intro _ h; simp at h

theorem sim_setPF (on : Bool) (hd : Dyn K k sub s) (hp : NoPending s) (hx : s.exit = {}) (q : Prop) :
    Rel (Post K k sub False q s) (run (n+1) (.cmd (.setPF on)) s)
      (sem (n+1) k (.cmd (.setPF on)) (absEnv s)) := by
  simp only [run, sem, stop_false_of_exit hx, Rel, Post]
  refine ⟨?_, hd.congr rfl rfl rfl rfl rfl rfl rfl rfl, ⟨rfl, rfl, rfl⟩, ⟨rfl, rfl⟩, hp, ?_, ?_⟩
  · simp [absEnv, absEnvC]
  · intro h; exact h.elim
  · intro _ h; simp at h

theorem sim_setE (on : Bool) (hs : supCmd K (.setE on) = true) (hd : Dyn K k sub s)
    (hp : NoPending s) (hx : s.exit = {}) (q : Prop) :
    Rel (Post K k sub False q s) (run (n+1) (.cmd (.setE on)) s)
      (sem (n+1) k (.cmd (.setE on)) (absEnv s)) := by
  simp only [run, sem, stop_false_of_exit hx, Rel, Post]
  refine ⟨?_, ⟨hd.cerr, hd.csub, hd.fok, hd.ht, hd.eign, ?_, hd.sfn, hd.inl⟩,
    ⟨rfl, rfl, rfl⟩, ⟨rfl, rfl⟩, hp, ?_, ?_⟩
  · simp [absEnv, absEnvC]
  · intro he
    simp [supCmd, he] at hs
    simpa using hs
  · intro h; exact h.elim
  · intro _ h; simp at h

theorem sim_trapErr (b : Prog) (hs : supCmd K (.trapErr b) = true) (hd : Dyn K k sub s)
    (hp : NoPending s) (hx : s.exit = {}) (q : Prop) :
    Rel (Post K k sub False q s) (run (n+1) (.cmd (.trapErr b)) s)
      (sem (n+1) k (.cmd (.trapErr b)) (absEnv s)) := by
  have hb : b = .nil := by
    cases b with
    | nil => rfl
    | cons _ _ => simp [supCmd, Prog.isNil] at hs
  subst hb
  simp only [run, sem, stop_false_of_exit hx, Rel, Post]
  refine ⟨?_, ⟨rfl, hd.csub, hd.fok, hd.ht, hd.eign, hd.noe, hd.sfn, hd.inl⟩,
    ⟨rfl, rfl, rfl⟩, ⟨rfl, rfl⟩, hp, ?_, ?_⟩
  · simp [absEnv, absEnvC]
  · intro h; exact h.elim
  · intro _ h; simp at h

theorem sim_trapExit (b : Prog) (hst : Stat K k sub) (hs : supCmd K (.trapExit b) = true)
    (hd : Dyn K k sub s) (hp : NoPending s) (hx : s.exit = {}) (q : Prop) :
    Rel (Post K k sub False q s) (run (n+1) (.cmd (.trapExit b)) s)
      (sem (n+1) k (.cmd (.trapExit b)) (absEnv s)) := by
  have htop : K.top = true := by
    simp [supCmd] at hs; exact hs.1
  have hsimple : simpleTrap b = true := by
    simp [supCmd] at hs; exact hs.2
  have hsub : sub = false := hst.top htop
  simp only [run, sem, stop_false_of_exit hx, Rel, Post]
  refine ⟨?_, ⟨hd.cerr, ?_, hd.fok, hd.ht, hd.eign, hd.noe, hd.sfn, hd.inl⟩,
    ⟨rfl, rfl, rfl⟩, ⟨rfl, rfl⟩, hp, ?_, ?_⟩
  · simp [absEnv, absEnvC]
  · exact ⟨fun h => by simp [hsub] at h, hsimple⟩
  · intro h; exact h.elim
  · intro _ h; simp at h

theorem sim_exit (m : Option Nat) (hst : Stat K k sub) (hd : Dyn K k sub s) (hl : LastOk s)
    (hp : NoPending s) (hx : s.exit = {}) (le q : Prop) :
    Rel (Post K k sub le q s) (run (n+1) (.cmd (.exit m)) s)
      (sem (n+1) k (.cmd (.exit m)) (absEnv s)) := by
  cases m with
  | none =>
    simp only [run, sem, stop_false_of_exit hx, Rel, Post, builtinExit, hst.kt.1, hst.kt.2, Bool.or_self]
    refine ⟨rfl, hl.1, ?_, rfl, rfl, hd.csub, hd.ht, hd.cerr, hp, rfl⟩
    simp [absEnv]
  | some v =>
    simp only [run, sem, stop_false_of_exit hx, Rel, Post, builtinExit]
    refine ⟨rfl, rfl, ?_, rfl, rfl, hd.csub, hd.ht, hd.cerr, hp, rfl⟩
    simp [uint8, status256]

theorem sim_ret (m : Option Nat) (hst : Stat K k sub) (hs : supCmd K (.ret m) = true)
    (hd : Dyn K k sub s) (hp : NoPending s) (hx : s.exit = {}) (q : Prop) :
    Rel (Post K k sub False q s) (run (n+1) (.cmd (.ret m)) s)
      (sem (n+1) k (.cmd (.ret m)) (absEnv s)) := by
  simp [supCmd] at hs
  obtain ⟨hm, hfn⟩ := hs
  cases m with
  | none => simp at hm
  | some v =>
    have h1 : s.inFunc = true := hd.sfn hfn
    have h2 : k.inFunc = true := hst.kfn hfn
    have hrun : run (n+1) (.cmd (.ret (some v))) s =
        some { s with lastExpandExit := {}, exit := { code := uint8 v, returning := true } } := by
      simp [run, stop_false_of_exit hx, builtinRet, h1]
    have hsem : sem (n+1) k (.cmd (.ret (some v))) (absEnv s) =
        some (.ret, { absEnv s with status := status256 v }) := by
      simp [sem, h2]
    rw [hrun, hsem]
    simp only [Rel, Post]
    refine ⟨?_, hd.congr rfl rfl rfl rfl rfl rfl rfl rfl, ⟨rfl, rfl, rfl⟩, hp, by triv, hfn, ?_, ?_⟩
    · simp [absEnv, absEnvC, uint8, status256]
    · intro h; exact h.elim
    · intro h; simp at h

theorem levelsOk_iff (tl : List Bool) (m : Option Int) (h : levelsOk tl m = true) :
    1 ≤ optInt m ∧ (optInt m).toNat ≤ tl.length ∧ (tl.take (optInt m).toNat).all id = true := by
  unfold levelsOk at h
  simp only [Bool.and_eq_true, decide_eq_true_eq] at h
  exact ⟨h.1.1, h.1.2, h.2⟩

theorem sim_brk (m : Option Int) (hst : Stat K k sub) (hs : supCmd K (.brk m) = true)
    (hd : Dyn K k sub s) (hp : NoPending s) (hx : s.exit = {}) (q : Prop) :
    Rel (Post K k sub False q s) (run (n+1) (.cmd (.brk m)) s)
      (sem (n+1) k (.cmd (.brk m)) (absEnv s)) := by
  obtain ⟨h1, h2, h3⟩ := levelsOk_iff K.tl m (by simpa [supCmd] using hs)
  have hne : K.tl ≠ [] := by
    intro h; rw [h] at h2; simp at h2; omega
  have hil : s.inLoop = true := hd.inl hne
  have hlen : 1 ≤ K.tl.length := by
    cases hk : K.tl with
    | nil => exact absurd hk hne
    | cons _ _ => simp
  have hdep : k.depth ≠ 0 := by have := hst.depth; omega
  have hlt : ¬ (optInt m < 1) := by omega
  have hmin : min (optInt m).toNat k.depth = (optInt m).toNat := by
    have := hst.depth; omega
  have hrun : run (n+1) (.cmd (.brk m)) s =
      some { s with lastExpandExit := {}, exit := {}, breakEnclosing := optInt m } := by
    simp [run, stop_false_of_exit hx, hil]
  have hsem : sem (n+1) k (.cmd (.brk m)) (absEnv s) =
      some (.brk (optInt m).toNat, { absEnv s with status := 0 }) := by
    simp [sem, hdep, hlt, hmin]
  rw [hrun, hsem]
  simp only [Rel, Post]
  refine ⟨?_, hd.congr rfl rfl rfl rfl rfl rfl rfl rfl, ⟨rfl, rfl, rfl⟩, ⟨by triv, by triv⟩, ?_, hp.2,
    ⟨by omega, h2, h3⟩, by triv, ?_⟩
  · simp [absEnv, absEnvC]
  · show optInt m = ((optInt m).toNat : Int)
    omega
  · intro h; exact h.elim

theorem sim_cont (m : Option Int) (hst : Stat K k sub) (hs : supCmd K (.cont m) = true)
    (hd : Dyn K k sub s) (hp : NoPending s) (hx : s.exit = {}) (q : Prop) :
    Rel (Post K k sub False q s) (run (n+1) (.cmd (.cont m)) s)
      (sem (n+1) k (.cmd (.cont m)) (absEnv s)) := by
  obtain ⟨h1, h2, h3⟩ := levelsOk_iff K.tl m (by simpa [supCmd] using hs)
  have hne : K.tl ≠ [] := by
    intro h; rw [h] at h2; simp at h2; omega
  have hil : s.inLoop = true := hd.inl hne
  have hlen : 1 ≤ K.tl.length := by
    cases hk : K.tl with
    | nil => exact absurd hk hne
    | cons _ _ => simp
  have hdep : k.depth ≠ 0 := by have := hst.depth; omega
  have hlt : ¬ (optInt m < 1) := by omega
  have hmin : min (optInt m).toNat k.depth = (optInt m).toNat := by
    have := hst.depth; omega
  have hrun : run (n+1) (.cmd (.cont m)) s =
      some { s with lastExpandExit := {}, exit := {}, contnEnclosing := optInt m } := by
    simp [run, stop_false_of_exit hx, hil]
  have hsem : sem (n+1) k (.cmd (.cont m)) (absEnv s) =
      some (.cont (optInt m).toNat, { absEnv s with status := 0 }) := by
    simp [sem, hdep, hlt, hmin]
  rw [hrun, hsem]
  simp only [Rel, Post]
  refine ⟨?_, hd.congr rfl rfl rfl rfl rfl rfl rfl rfl, ⟨rfl, rfl, rfl⟩, ⟨by triv, by triv⟩, ?_, hp.1,
    ⟨by omega, h2, h3⟩, by triv, ?_⟩
  · simp [absEnv, absEnvC]
  · show optInt m = ((optInt m).toNat : Int)
    omega
  · intro h; exact h.elim

theorem sim_fn (f : Str) (b : Stmt) (hs : supCmd K (.fn f b) = true) (hd : Dyn K k sub s)
    (hp : NoPending s) (hx : s.exit = {}) (q : Prop) :
    Rel (Post K k sub False q s) (run (n+1) (.cmd (.fn f b)) s)
      (sem (n+1) k (.cmd (.fn f b)) (absEnv s)) := by
  have hb : supStmt (fnK K.e) b = true := by
    cases b with
    | mk neg c =>
      cases neg with
      | true => simp [supCmd] at hs
      | false =>
        cases c <;> first | (simp [supCmd] at hs; done) | skip
        case block p => simpa [supStmt, supCmd, fnCtx_eq] using hs
  simp only [run, sem, stop_false_of_exit hx, Rel, Post]
  refine ⟨?_, ⟨hd.cerr, hd.csub, ?_, hd.ht, hd.eign, hd.noe, hd.sfn, hd.inl⟩,
    ⟨rfl, rfl, rfl⟩, ?_, hp, ?_, ?_⟩
  · simp [absEnv, absEnvC, hx]
  · intro g b' hg
    simp only [lookupFn] at hg
    split at hg
    · cases hg; exact hb
    · exact hd.fok g b' hg
  · simp [NoFlags, hx]
  · intro h; exact h.elim
  · intro _ h; simp [hx] at h

theorem sim_call_none (f : Str) (hf : lookupFn s.funcs f = none) (hd : Dyn K k sub s)
    (hp : NoPending s) (hx : s.exit = {}) (q : Prop) (hq : ¬ q) :
    Rel (Post K k sub False q s)
      (run (n+1) (.cmd (.call f)) s) (sem (n+1) k (.cmd (.call f)) (absEnv s)) := by
  have hf' : lookupFn (absEnv s).funcs f = none := hf
  simp only [run, sem, stop_false_of_exit hx, Rel, hf, hf', Post]
  refine ⟨?_, hd.congr rfl rfl rfl rfl rfl rfl rfl rfl, ⟨rfl, rfl, rfl⟩, ⟨rfl, rfl⟩, hp, ?_, ?_⟩
  · simp [absEnv, absEnvC]
  · intro h; exact h.elim
  · intro h; exact absurd h hq

end atoms

end ShVerif.C26
