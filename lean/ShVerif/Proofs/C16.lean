import ShVerif.Model.C16
/-
  C16 — helper lemmas.
-/
set_option linter.unusedSimpArgs false
set_option linter.unusedVariables false
namespace ShVerif.C16

/-! ## Rendering -/

@[simp] theorem render_nil : render [] = [] := by simp [render]
@[simp] theorem render_cons (p : Part) (ps : List Part) :
    render (p :: ps) = renderPart p ++ render ps := by simp [render]
@[simp] theorem renderPart_lit (v : Bytes) : renderPart (.lit v) = v := by simp [renderPart]
@[simp] theorem renderElems_nil : renderElems [] = [] := by simp [renderElems]
@[simp] theorem renderElems_cons (e : List Part) (es : List (List Part)) :
    renderElems (e :: es) = render e :: renderElems es := by simp [renderElems]

theorem render_append (a b : List Part) : render (a ++ b) = render a ++ render b := by
  induction a with
  | nil => simp
  | cons p ps ih => simp [ih]

theorem renderElems_append (a b : List (List Part)) :
    renderElems (a ++ b) = renderElems a ++ renderElems b := by
  induction a with
  | nil => simp
  | cons p ps ih => simp [ih]

theorem joinSep_append_last (sep : Bytes) (xs : List Bytes) (y z : Bytes) :
    joinSep sep (xs ++ [y ++ z]) = joinSep sep (xs ++ [y]) ++ z := by
  induction xs with
  | nil => simp [joinSep]
  | cons x xs ih =>
    cases xs with
    | nil => simp [joinSep]
    | cons x' xs' =>
      simp only [List.cons_append, joinSep] at ih ⊢
      rw [ih]; simp

theorem joinSep_snoc (sep : Bytes) (xs : List Bytes) (x y : Bytes) :
    joinSep sep ((x :: xs) ++ [y]) = joinSep sep (x :: xs) ++ sep ++ y := by
  induction xs generalizing x with
  | nil => simp [joinSep]
  | cons x' xs' ih =>
    have := ih x'
    simp only [List.cons_append, joinSep] at this ⊢
    rw [this]; simp

/-! ## Rendering of the machine state of `SplitBraces` -/

def sepOf (seq : Bool) : Bytes := if seq then dots else [cComma]

/-- The text of an open frame: `{` and its elems so far (no closing brace). -/
def renderFrame (f : Frame) : Bytes := cLB :: joinSep (sepOf f.seq) (renderElems f.elems)

/-- Outermost frame first (the stack is innermost first). -/
def renderStack : List Frame → Bytes
  | [] => []
  | f :: fs => renderStack fs ++ renderFrame f

def renderSt (st : St) : Bytes := render st.top ++ renderStack st.stack

theorem renderPart_brace (seq : Bool) (elems : List (List Part)) :
    renderPart (.brace seq elems) = cLB :: (joinSep (sepOf seq) (renderElems elems) ++ [cRB]) := by
  simp [renderPart, sepOf]

theorem renderSt_addParts (st : St) (ps : List Part) :
    renderSt (st.addParts ps) = renderSt st ++ render ps := by
  unfold St.addParts renderSt
  cases h : st.stack with
  | nil => simp [renderStack, render_append]
  | cons f fs =>
    simp only [renderStack, renderFrame, Frame.elems, renderElems_append, renderElems_cons,
      renderElems_nil, render_append]
    rw [joinSep_append_last]
    simp

theorem renderSt_add (st : St) (p : Part) : renderSt (st.add p) = renderSt st ++ renderPart p := by
  simp [St.add, renderSt_addParts]

theorem renderSt_flush (st : St) (pend : Bytes) : renderSt (st.flush pend) = renderSt st ++ pend := by
  unfold St.flush
  split
  · simp [*]
  · simp [renderSt_add]

theorem renderSt_openBrace (st : St) : renderSt st.openBrace = renderSt st ++ [cLB] := by
  simp [St.openBrace, renderSt, renderStack, renderFrame, Frame.elems, joinSep]

theorem render_mergeDots (elems : List Word) :
    render (mergeDots elems) = joinSep dots (renderElems elems) := by
  cases elems with
  | nil => simp [mergeDots, joinSep]
  | cons e es =>
    induction es generalizing e with
    | nil => simp [mergeDots, joinSep]
    | cons e' es' ih =>
      have := ih e'
      simp only [mergeDots, List.map_cons, List.flatten_cons, render_append, render_cons,
        renderPart_lit, renderElems_cons, joinSep] at this ⊢
      rw [← this]; simp

theorem render_joinParts (sep : Bytes) (elems : List Word) :
    render (joinParts (.lit sep) elems) = joinSep sep (renderElems elems) := by
  cases elems with
  | nil => simp [joinParts, joinSep]
  | cons e es =>
    induction es generalizing e with
    | nil => simp [joinParts, joinSep]
    | cons e' es' ih =>
      have := ih e'
      simp only [joinParts, render_append, render_cons, renderPart_lit, renderElems_cons,
        joinSep] at this ⊢
      rw [this]; simp

theorem frame_elems_ne_nil (f : Frame) : f.elems ≠ [] := by simp [Frame.elems]

theorem joinSep_elems_snoc_nil (sep : Bytes) (f : Frame) :
    joinSep sep (renderElems (f.elems ++ [[]])) = joinSep sep (renderElems f.elems) ++ sep := by
  rw [renderElems_append]
  cases h : renderElems f.elems with
  | nil =>
    exfalso
    have := frame_elems_ne_nil f
    cases h2 : f.elems with
    | nil => exact this h2
    | cons a b => rw [h2] at h; simp at h
  | cons x xs =>
    simp only [renderElems_cons, renderElems_nil, render_nil]
    rw [joinSep_snoc]; simp

theorem renderSt_commaStep (st : St) (h : st.stack ≠ []) :
    renderSt st.commaStep = renderSt st ++ [cComma] := by
  unfold St.commaStep renderSt
  cases hs : st.stack with
  | nil => exact absurd hs h
  | cons f fs =>
    simp only
    split
    · rename_i hseq
      simp only [renderStack, renderFrame, sepOf, hseq, Frame.elems, List.nil_append,
        renderElems_cons, renderElems_nil, render_nil, joinSep, render_mergeDots]
      simp [joinSep, render_mergeDots]
    · rename_i hseq
      have hseq' : f.seq = false := by simpa using hseq
      simp only [renderStack, renderFrame, sepOf, hseq']
      have := joinSep_elems_snoc_nil [cComma] f
      simp only [Frame.elems, List.append_assoc, List.cons_append, List.nil_append] at this ⊢
      simp [this]

theorem renderSt_dotsStep (st : St) (f : Frame) (fs : List Frame) (hs : st.stack = f :: fs)
    (hok : f.seq = true ∨ f.done = []) : renderSt st.dotsStep = renderSt st ++ dots := by
  unfold St.dotsStep renderSt
  rw [hs]
  simp only [renderStack, renderFrame, sepOf]
  have := joinSep_elems_snoc_nil dots f
  simp only [Frame.elems, if_true] at this ⊢
  rw [this]
  rcases hok with h | h
  · simp [h]
  · simp [h, joinSep]

theorem renderSt_closeStep (st : St) (h : st.stack ≠ []) :
    renderSt st.closeStep = renderSt st ++ [cRB] := by
  unfold St.closeStep
  cases hs : st.stack with
  | nil => exact absurd hs h
  | cons f fs =>
    simp only
    have base : renderSt { top := st.top, stack := fs } = render st.top ++ renderStack fs := rfl
    cases hd : f.done with
    | nil =>
      simp only [renderSt_add, renderSt_addParts, renderPart_lit, base]
      simp [renderSt, hs, renderStack, renderFrame, Frame.elems, hd, joinSep]
    | cons d ds =>
      simp only
      split
      · simp only [renderSt_add, renderPart_brace, base]
        rename_i hseq
        have hseq' : f.seq = false := by simpa using hseq
        simp [renderSt, hs, renderStack, renderFrame, hseq']
      · rename_i hseq
        have hseq' : f.seq = true := by simpa using hseq
        split
        · simp only [renderSt_add, renderPart_brace, base]
          simp [renderSt, hs, renderStack, renderFrame, hseq']
        · simp only [renderSt_add, renderSt_addParts, renderPart_lit, base, render_joinParts]
          simp [renderSt, hs, renderStack, renderFrame, hseq', sepOf]

/-! ## `split_render` -/

/-- What the text consumed so far looks like, per loop mode. -/
def ScanInv (w : Bytes) (st : St) (mode : Mode) (pend rest : Bytes) : Prop :=
  match mode with
  | .skip => ∃ r, rest = cDot :: r ∧ renderSt st ++ r = w
  | _ => renderSt st ++ pend ++ rest = w

theorem scan_render (w : Bytes) (rest : Bytes) :
    ∀ (st : St) (mode : Mode) (pend : Bytes), ScanInv w st mode pend rest →
      renderSt (scan st mode pend rest).1 ++ (scan st mode pend rest).2 = w := by
  induction rest with
  | nil =>
    intro st mode pend h
    cases mode <;> simp [ScanInv] at h <;> simp [scan, h]
  | cons c rest ih =>
    intro st mode pend h
    cases mode with
    | esc =>
      simp only [scan]
      apply ih
      simp only [ScanInv] at h ⊢
      simpa using h
    | skip =>
      simp only [scan]
      apply ih
      simp only [ScanInv] at h ⊢
      obtain ⟨r, hr, hw⟩ := h
      cases hr
      simpa using hw
    | normal =>
      simp only [ScanInv] at h
      simp only [scan]
      split
      · -- backslash
        apply ih; simp only [ScanInv]; simpa using h
      · split
        · -- {
          rename_i hc
          apply ih; simp only [ScanInv, renderSt_openBrace, renderSt_flush]
          subst hc; simpa using h
        · split
          · -- ,
            rename_i hc
            split
            · apply ih; simp only [ScanInv]; simpa using h
            · rename_i f fs hs
              apply ih
              have hne : (st.flush pend).stack ≠ [] := by
                unfold St.flush; split
                · simp [hs]
                · simp [St.add, St.addParts, hs]
              simp only [ScanInv, renderSt_commaStep _ hne, renderSt_flush]
              subst hc; simpa using h
          · split
            · -- .
              rename_i hc
              split
              · apply ih; simp only [ScanInv]; simpa using h
              · rename_i f fs hs
                split
                · rename_i hnext
                  split
                  · apply ih; simp only [ScanInv]; simpa using h
                  · rename_i hcond
                    apply ih
                    -- the flushed state has the same top frame shape
                    cases rest with
                    | nil => simp at hnext
                    | cons d r =>
                      simp only [List.head?_cons, Option.some.injEq] at hnext
                      subst hnext
                      have hok : f.seq = true ∨ f.done = [] := by
                        cases hseq : f.seq with
                        | true => exact Or.inl rfl
                        | false =>
                          right
                          cases hd : f.done with
                          | nil => rfl
                          | cons a b => simp [hseq, hd] at hcond
                      have hfl : ∃ f' , (st.flush pend).stack = f' :: fs ∧ f'.seq = f.seq ∧ f'.done = f.done := by
                        unfold St.flush; split
                        · exact ⟨f, hs, rfl, rfl⟩
                        · simp [St.add, St.addParts, hs]
                      obtain ⟨f', hs', hseq', hdone'⟩ := hfl
                      have := renderSt_dotsStep (st.flush pend) f' fs hs' (by rw [hseq', hdone']; exact hok)
                      simp only [ScanInv]
                      refine ⟨r, rfl, ?_⟩
                      rw [this, renderSt_flush]
                      subst hc
                      simpa [dots] using h
                · apply ih; simp only [ScanInv]; simpa using h
            · split
              · -- }
                rename_i hc
                split
                · apply ih; simp only [ScanInv]; simpa using h
                · rename_i f fs hs
                  apply ih
                  have hne : (st.flush pend).stack ≠ [] := by
                    unfold St.flush; split
                    · simp [hs]
                    · simp [St.add, St.addParts, hs]
                  simp only [ScanInv, renderSt_closeStep _ hne, renderSt_flush]
                  subst hc; simpa using h
              · apply ih; simp only [ScanInv]; simpa using h

theorem render_unwind (stack : List Frame) : ∀ (carry : List Part) (top : Word),
    render (unwind stack carry top) = render top ++ renderStack stack ++ render carry := by
  induction stack with
  | nil => intro carry top; simp [unwind, renderStack, render_append]
  | cons f fs ih =>
    intro carry top
    simp only [unwind, ih, renderStack, renderFrame, render_cons, renderPart_lit]
    have hsep : render (joinParts (if f.seq = true then Part.lit dots else Part.lit [cComma])
        (f.done ++ [f.cur ++ carry])) =
        joinSep (sepOf f.seq) (renderElems (f.done ++ [f.cur ++ carry])) := by
      cases f.seq <;> simp [sepOf, render_joinParts]
    rw [hsep]
    simp only [Frame.elems, renderElems_append, renderElems_cons, renderElems_nil, render_append]
    rw [joinSep_append_last]
    simp

theorem split_render_aux (w : Bytes) : render (splitBraces w).1 = w := by
  unfold splitBraces
  split
  · simp
  · simp only
    have h := scan_render w w { top := [], stack := [] } .normal [] (by simp [ScanInv, renderSt, renderStack])
    generalize scan { top := [], stack := [] } Mode.normal [] w = res at h
    obtain ⟨st, pend⟩ := res
    simp only at h ⊢
    split
    · simp only
      rw [render_unwind]
      have := renderSt_flush st pend
      simp only [renderSt] at this h
      simp [this, h]
    · simp

/-! ## `seq_exact` -/

theorem arith_take (a d : Int) (n k : Nat) : (arith a d n).take k = arith a d (min k n) := by
  induction n generalizing a k with
  | zero => simp [arith]
  | succ n ih =>
    cases k with
    | zero => simp [arith]
    | succ k =>
      have : min (k + 1) (n + 1) = min k n + 1 := by omega
      simp [arith, ih, this]

theorem idealStep_pos (inc : Int) : 0 < idealStep inc := by
  unfold idealStep; split <;> omega

theorem goStep_eq (inc : Int) (h1 : minI64 ≤ inc) (h2 : inc ≤ maxI64) :
    goStep inc = idealStep inc := by
  simp only [goStep, idealStep, u64, minI64, maxI64] at *
  by_cases hneg : inc < 0
  · have h0 : inc ≠ 0 := by omega
    simp only [hneg, if_true, h0, if_false]
    omega
  · simp only [hneg, if_false]
    by_cases hpos : inc > 0
    · have h0 : inc ≠ 0 := by omega
      simp only [hpos, if_true, h0, if_false]
      omega
    · have h0 : inc = 0 := by omega
      simp [h0]

theorem seqVals_up (sp : SeqParams) (hup : sp.upward = true) (hs : 0 < sp.step)
    (hto : sp.to ≤ maxI64) :
    ∀ (k d : Nat) (n : Int), n = sp.to - d → minI64 ≤ n →
      seqVals sp k n = arith n sp.step (min k (d / sp.step + 1)) := by
  intro k
  induction k with
  | zero => intro d n _ _; simp [seqVals, arith]
  | succ k ih =>
    intro d n hn hmin
    have hrem : u64 (u64 sp.to - u64 n) = (d : Int) := by
      simp only [u64, minI64, maxI64] at *; omega
    simp only [seqVals, hup, if_true, hrem]
    by_cases hds : sp.step ≤ d
    · have hlt : ¬ ((d : Int) < (sp.step : Int)) := by omega
      rw [if_neg hlt]
      obtain ⟨d', hd'⟩ : ∃ d', d = d' + sp.step := ⟨d - sp.step, by omega⟩
      have hnext : i64 (u64 n + sp.step) = n + sp.step := by
        simp only [u64, i64, minI64, maxI64] at *; omega
      have h2 : (d' + sp.step) / sp.step = d' / sp.step + 1 := Nat.add_div_right d' hs
      rw [hnext, ih d' (n + sp.step) (by omega) (by omega), hd', h2]
      have : min (k + 1) (d' / sp.step + 1 + 1) = min k (d' / sp.step + 1) + 1 := by omega
      rw [this]; simp [arith]
    · have hlt : (d : Int) < (sp.step : Int) := by omega
      rw [if_pos hlt]
      have h2 : d / sp.step = 0 := Nat.div_eq_of_lt (by omega)
      rw [h2]
      have : min (k + 1) (0 + 1) = 1 := by omega
      rw [this]; simp [arith]

theorem seqVals_down (sp : SeqParams) (hup : sp.upward = false) (hs : 0 < sp.step)
    (hto : minI64 ≤ sp.to) :
    ∀ (k d : Nat) (n : Int), n = sp.to + d → n ≤ maxI64 →
      seqVals sp k n = arith n (-(sp.step : Int)) (min k (d / sp.step + 1)) := by
  intro k
  induction k with
  | zero => intro d n _ _; simp [seqVals, arith]
  | succ k ih =>
    intro d n hn hmax
    have hrem : u64 (u64 n - u64 sp.to) = (d : Int) := by
      simp only [u64, minI64, maxI64] at *; omega
    simp only [seqVals, hup, Bool.false_eq_true, if_false, hrem]
    by_cases hds : sp.step ≤ d
    · have hlt : ¬ ((d : Int) < (sp.step : Int)) := by omega
      rw [if_neg hlt]
      obtain ⟨d', hd'⟩ : ∃ d', d = d' + sp.step := ⟨d - sp.step, by omega⟩
      have hnext : i64 (u64 n - sp.step) = n + -(sp.step : Int) := by
        simp only [u64, i64, minI64, maxI64] at *; omega
      have h2 : (d' + sp.step) / sp.step = d' / sp.step + 1 := Nat.add_div_right d' hs
      rw [hnext, ih d' (n + -(sp.step : Int)) (by omega) (by omega), hd', h2]
      have : min (k + 1) (d' / sp.step + 1 + 1) = min k (d' / sp.step + 1) + 1 := by omega
      rw [this]; simp [arith]
    · have hlt : (d : Int) < (sp.step : Int) := by omega
      rw [if_pos hlt]
      have h2 : d / sp.step = 0 := Nat.div_eq_of_lt (by omega)
      rw [h2]
      have : min (k + 1) (0 + 1) = 1 := by omega
      rw [this]; simp [arith]

theorem seq_exact_core (sp : SeqParams) (fr to inc : Int)
    (hfr1 : minI64 ≤ fr) (hfr2 : fr ≤ maxI64) (hto1 : minI64 ≤ to) (hto2 : to ≤ maxI64)
    (hinc1 : minI64 ≤ inc) (hinc2 : inc ≤ maxI64)
    (hto : sp.to = to) (hup : sp.upward = decide (fr ≤ to)) (hstep : sp.step = goStep inc)
    (k : Nat) :
    seqVals sp k fr = (idealSeq fr to (idealStep inc)).take k := by
  have hs := idealStep_pos inc
  rw [goStep_eq inc hinc1 hinc2] at hstep
  unfold idealSeq
  rw [arith_take, ← hstep]
  by_cases hle : fr ≤ to
  · simp only [hle, if_true]
    have hup' : sp.upward = true := by simp [hup, hle]
    exact seqVals_up sp hup' (by omega) (by omega) k (to - fr).natAbs fr (by omega) hfr1
  · simp only [hle, if_false]
    have hup' : sp.upward = false := by simp [hup, hle]
    have habs : (to - fr).natAbs = (fr - to).natAbs := by omega
    rw [habs]
    exact seqVals_down sp hup' (by omega) (by omega) k (fr - to).natAbs fr (by omega) hfr2

/-! ## Well-formedness of the output of `SplitBraces` -/

@[simp] theorem wf_nil : wf [] = true := by simp [wf]
@[simp] theorem wf_cons (p : Part) (ps : List Part) : wf (p :: ps) = (wfPart p && wf ps) := by
  simp [wf]
@[simp] theorem wfPart_lit (v : Bytes) : wfPart (.lit v) = true := by simp [wfPart]
@[simp] theorem wfElems_nil : wfElems [] = true := by simp [wfElems]
@[simp] theorem wfElems_cons (e : List Part) (es : List (List Part)) :
    wfElems (e :: es) = (wf e && wfElems es) := by simp [wfElems]

theorem wf_append (a b : List Part) : wf (a ++ b) = (wf a && wf b) := by
  induction a with
  | nil => simp
  | cons p ps ih => simp [ih, Bool.and_assoc]

theorem wfElems_append (a b : List (List Part)) :
    wfElems (a ++ b) = (wfElems a && wfElems b) := by
  induction a with
  | nil => simp
  | cons p ps ih => simp [ih, Bool.and_assoc]

theorem wf_joinParts (sep : Bytes) (elems : List Word) :
    wf (joinParts (.lit sep) elems) = wfElems elems := by
  cases elems with
  | nil => simp [joinParts]
  | cons e es =>
    induction es generalizing e with
    | nil => simp [joinParts]
    | cons e' es' ih =>
      have := ih e'
      simp only [joinParts, wf_append, wf_cons, wfPart_lit, wfElems_cons, Bool.true_and] at this ⊢
      rw [this]

theorem wf_mergeDots (elems : List Word) : wf (mergeDots elems) = wfElems elems := by
  cases elems with
  | nil => simp [mergeDots]
  | cons e es =>
    simp only [mergeDots, wf_append, wfElems_cons]
    congr 1
    induction es with
    | nil => simp
    | cons e' es' ih => simp only [dots] at ih ⊢; simp [wf_append, ih]

def FrameWf (f : Frame) : Prop := wfElems f.done = true ∧ wf f.cur = true

def StWf (st : St) : Prop := wf st.top = true ∧ ∀ f ∈ st.stack, FrameWf f

theorem frameWf_elems (f : Frame) (h : FrameWf f) : wfElems f.elems = true := by
  simp [Frame.elems, wfElems_append, h.1, h.2]

theorem stWf_addParts (st : St) (ps : List Part) (h : StWf st) (hp : wf ps = true) :
    StWf (st.addParts ps) := by
  unfold St.addParts
  cases hs : st.stack with
  | nil => exact ⟨by simp [wf_append, h.1, hp], by simp⟩
  | cons f fs =>
    refine ⟨h.1, ?_⟩
    intro g hg
    simp only [List.mem_cons] at hg
    rcases hg with rfl | hg
    · have := h.2 f (by simp [hs])
      exact ⟨this.1, by simp [wf_append, this.2, hp]⟩
    · exact h.2 g (by simp [hs, hg])

theorem stWf_add (st : St) (p : Part) (h : StWf st) (hp : wfPart p = true) : StWf (st.add p) :=
  stWf_addParts st [p] h (by simp [hp])

theorem stWf_flush (st : St) (pend : Bytes) (h : StWf st) : StWf (st.flush pend) := by
  unfold St.flush; split
  · exact h
  · exact stWf_add st _ h (by simp)

theorem stWf_openBrace (st : St) (h : StWf st) : StWf st.openBrace := by
  refine ⟨h.1, ?_⟩
  intro g hg
  simp only [St.openBrace, List.mem_cons] at hg
  rcases hg with rfl | hg
  · exact ⟨by simp, by simp⟩
  · exact h.2 g hg

theorem stWf_commaStep (st : St) (h : StWf st) : StWf st.commaStep := by
  unfold St.commaStep
  cases hs : st.stack with
  | nil => simpa [hs] using h
  | cons f fs =>
    have hf := h.2 f (by simp [hs])
    have hrest : ∀ g ∈ fs, FrameWf g := fun g hg => h.2 g (by simp [hs, hg])
    simp only
    split
    · refine ⟨h.1, ?_⟩
      intro g hg
      simp only [List.mem_cons] at hg
      rcases hg with rfl | hg
      · exact ⟨by simp [wf_mergeDots, frameWf_elems f hf], by simp⟩
      · exact hrest g hg
    · refine ⟨h.1, ?_⟩
      intro g hg
      simp only [List.mem_cons] at hg
      rcases hg with rfl | hg
      · exact ⟨frameWf_elems f hf, by simp⟩
      · exact hrest g hg

theorem stWf_dotsStep (st : St) (h : StWf st) : StWf st.dotsStep := by
  unfold St.dotsStep
  cases hs : st.stack with
  | nil => simpa [hs] using h
  | cons f fs =>
    have hf := h.2 f (by simp [hs])
    refine ⟨h.1, ?_⟩
    intro g hg
    simp only [List.mem_cons] at hg
    rcases hg with rfl | hg
    · exact ⟨frameWf_elems f hf, by simp⟩
    · exact h.2 g (by simp [hs, hg])

theorem stWf_closeStep (st : St) (h : StWf st) : StWf st.closeStep := by
  unfold St.closeStep
  cases hs : st.stack with
  | nil => simpa [hs] using h
  | cons f fs =>
    have hf := h.2 f (by simp [hs])
    have hel := frameWf_elems f hf
    have hst' : StWf { top := st.top, stack := fs } :=
      ⟨h.1, fun g hg => h.2 g (by simp [hs, hg])⟩
    simp only
    cases hd : f.done with
    | nil =>
      simp only
      exact stWf_add _ _ (stWf_addParts _ _ (stWf_add _ _ hst' (by simp)) hf.2) (by simp)
    | cons d ds =>
      simp only
      split
      · apply stWf_add _ _ hst'
        rename_i hseq
        have : f.seq = false := by simpa using hseq
        have hel' := hel
        simp only [Frame.elems] at hel'
        simp [wfPart, this, hel', Frame.elems]
      · rename_i hseq
        have hseq' : f.seq = true := by simpa using hseq
        split
        · rename_i hv
          apply stWf_add _ _ hst'
          simp [wfPart, hv, hel]
        · exact stWf_add _ _ (stWf_addParts _ _ (stWf_add _ _ hst' (by simp))
            (by rw [wf_joinParts]; exact hel)) (by simp)

theorem stWf_scan (rest : Bytes) : ∀ (st : St) (mode : Mode) (pend : Bytes), StWf st →
    StWf (scan st mode pend rest).1 := by
  induction rest with
  | nil => intro st mode pend h; simpa [scan] using h
  | cons c rest ih =>
    intro st mode pend h
    cases mode with
    | esc => simp only [scan]; exact ih _ _ _ h
    | skip => simp only [scan]; exact ih _ _ _ h
    | normal =>
      simp only [scan]
      split
      · exact ih _ _ _ h
      · split
        · exact ih _ _ _ (stWf_openBrace _ (stWf_flush _ _ h))
        · split
          · split
            · exact ih _ _ _ h
            · exact ih _ _ _ (stWf_commaStep _ (stWf_flush _ _ h))
          · split
            · split
              · exact ih _ _ _ h
              · split
                · split
                  · exact ih _ _ _ h
                  · exact ih _ _ _ (stWf_dotsStep _ (stWf_flush _ _ h))
                · exact ih _ _ _ h
            · split
              · split
                · exact ih _ _ _ h
                · exact ih _ _ _ (stWf_closeStep _ (stWf_flush _ _ h))
              · exact ih _ _ _ h

theorem wf_unwind (stack : List Frame) : ∀ (carry : List Part) (top : Word),
    wf top = true → (∀ f ∈ stack, FrameWf f) → wf carry = true →
    wf (unwind stack carry top) = true := by
  induction stack with
  | nil => intro carry top ht _ hc; simp [unwind, wf_append, ht, hc]
  | cons f fs ih =>
    intro carry top ht hfs hc
    simp only [unwind]
    apply ih _ _ ht (fun g hg => hfs g (by simp [hg]))
    have hf := hfs f (by simp)
    have : wf (joinParts (if f.seq = true then Part.lit dots else Part.lit [cComma])
        (f.done ++ [f.cur ++ carry])) = true := by
      have h2 : wfElems (f.done ++ [f.cur ++ carry]) = true := by
        simp [wfElems_append, wf_append, hf.1, hf.2, hc]
      cases f.seq <;> simp [wf_joinParts, h2]
    simp [this]

theorem wf_split (w : Bytes) : wf (splitBraces w).1 = true := by
  unfold splitBraces
  split
  · simp
  · simp only
    have h := stWf_scan w { top := [], stack := [] } .normal [] ⟨by simp, by simp⟩
    generalize scan { top := [], stack := [] } Mode.normal [] w = res at h
    obtain ⟨st, pend⟩ := res
    simp only at h ⊢
    have h2 := stWf_flush st pend h
    split
    · exact wf_unwind _ _ _ h2.1 h2.2 (by simp)
    · simp

/-! ## `bracesSeqRec`: shape lemmas -/

theorem splitAtBrace_none (w left : List Part) (h : splitAtBrace w = (left, none)) :
    left = w ∧ w.all Part.isLit = true := by
  induction w generalizing left with
  | nil => simp [splitAtBrace] at h; simp [h]
  | cons p ps ih =>
    cases p with
    | lit v =>
      simp only [splitAtBrace] at h
      cases hr : splitAtBrace ps with
      | mk l r =>
        rw [hr] at h
        simp only [Prod.mk.injEq] at h
        obtain ⟨h1, h2⟩ := h
        subst h2
        have := ih l hr
        simp [← h1, this.1, this.2, Part.isLit]
    | brace seq elems => simp [splitAtBrace] at h

theorem splitAtBrace_some (w left : List Part) (seq : Bool) (elems : List Word) (rest : List Part)
    (h : splitAtBrace w = (left, some (seq, elems, rest))) :
    w = left ++ .brace seq elems :: rest ∧ left.all Part.isLit = true := by
  induction w generalizing left with
  | nil => simp [splitAtBrace] at h
  | cons p ps ih =>
    cases p with
    | lit v =>
      simp only [splitAtBrace] at h
      cases hr : splitAtBrace ps with
      | mk l r =>
        rw [hr] at h
        simp only [Prod.mk.injEq] at h
        obtain ⟨h1, h2⟩ := h
        subst h2
        have := ih l hr
        rw [← h1]
        simp [this.2, Part.isLit]
        exact this.1
    | brace seq' elems' =>
      simp only [splitAtBrace, Prod.mk.injEq, Option.some.injEq] at h
      obtain ⟨h1, h2, h3, h4⟩ := h
      subst h1 h2 h3 h4
      simp

@[simp] theorem bracesIn_nil : bracesIn [] = 0 := by simp [bracesIn]
@[simp] theorem bracesIn_cons (p : Part) (ps : List Part) :
    bracesIn (p :: ps) = bracesInPart p + bracesIn ps := by simp [bracesIn]
@[simp] theorem bracesInPart_lit (v : Bytes) : bracesInPart (.lit v) = 0 := by simp [bracesInPart]
@[simp] theorem bracesInPart_brace (seq : Bool) (elems : List Word) :
    bracesInPart (.brace seq elems) = 1 + bracesInElems elems := by simp [bracesInPart]
@[simp] theorem bracesInElems_nil : bracesInElems [] = 0 := by simp [bracesInElems]
@[simp] theorem bracesInElems_cons (e : Word) (es : List Word) :
    bracesInElems (e :: es) = bracesIn e + bracesInElems es := by simp [bracesInElems]

theorem bracesIn_append (a b : List Part) : bracesIn (a ++ b) = bracesIn a + bracesIn b := by
  induction a with
  | nil => simp
  | cons p ps ih => simp [ih]; omega

theorem bracesIn_le_elems (elems : List Word) (e : Word) (h : e ∈ elems) :
    bracesIn e ≤ bracesInElems elems := by
  induction elems with
  | nil => cases h
  | cons x xs ih =>
    simp only [List.mem_cons] at h
    rcases h with rfl | h
    · simp
    · have := ih h; simp; omega

theorem wf_of_mem_elems (elems : List Word) (e : Word) (h : e ∈ elems)
    (hw : wfElems elems = true) : wf e = true := by
  induction elems with
  | nil => cases h
  | cons x xs ih =>
    simp only [wfElems_cons, Bool.and_eq_true] at hw
    simp only [List.mem_cons] at h
    rcases h with rfl | h
    · exact hw.1
    · exact ih h hw.2

theorem endpointKind_some (e : Word) (k : Bool) (h : endpointKind e = some k) :
    (k = false ∧ (parseInt (litOf e)).2 = true) ∨
    (k = true ∧ (parseInt (litOf e)).2 = false ∧ ∃ c, litOf e = [c] ∧ asciiLetter c = true) := by
  unfold endpointKind at h
  by_cases p : (parseInt (litOf e)).2 = true
  · simp only [p, if_true, Option.some.injEq] at h
    exact Or.inl ⟨h.symm, p⟩
  · simp only [p] at h
    right
    have p' : (parseInt (litOf e)).2 = false := by simpa using p
    simp only [Bool.false_eq_true, if_false] at h
    cases hl : litOf e with
    | nil => rw [hl] at h; simp at h
    | cons c t =>
      cases t with
      | cons d t' => rw [hl] at h; simp at h
      | nil =>
        rw [hl] at h
        simp only at h
        by_cases hc : asciiLetter c = true
        · simp only [hc, if_true, Option.some.injEq] at h
          exact ⟨h.symm, by rw [← hl]; exact p', c, rfl, hc⟩
        · simp [hc] at h

theorem seqParams_of_valid (elems : List Word) (h : seqValid elems = true) :
    ∃ sp, seqParams elems = some sp := by
  unfold seqValid at h
  match elems, h with
  | e0 :: e1 :: more, h =>
    simp only [seqParams]
    cases hk0 : endpointKind e0 with
    | none => simp [hk0] at h
    | some k0 =>
      cases hk1 : endpointKind e1 with
      | none => simp [hk0, hk1] at h
      | some k1 =>
        simp only [hk0, hk1, Bool.and_eq_true, beq_iff_eq] at h
        obtain ⟨_, hk⟩ := h
        subst hk
        rcases endpointKind_some e0 k0 hk0 with ⟨_, p0⟩ | ⟨hk, p0, a, ha, _⟩
        · rcases endpointKind_some e1 k0 hk1 with ⟨_, p1⟩ | ⟨hk', _⟩
          · simp [p0, p1]
          · simp_all
        · rcases endpointKind_some e1 k0 hk1 with ⟨hk', _⟩ | ⟨_, p1, b, hb, _⟩
          · simp_all
          · rw [ha] at p0; rw [hb] at p1
            simp [p0, p1, ha, hb]

theorem altLoop_total (f : Nat → Word → Option (List Word)) (rest : List Part) (elems : List Word)
    (hf : ∀ e ∈ elems, ∀ b, ∃ r, f b (e ++ rest) = some r) :
    ∀ budget, ∃ r, altLoop f rest elems budget = some r := by
  induction elems with
  | nil => intro b; simp [altLoop]
  | cons e es ih =>
    intro b
    simp only [altLoop]
    split
    · exact ⟨_, rfl⟩
    · obtain ⟨r, hr⟩ := hf e (by simp) b
      obtain ⟨r', hr'⟩ := ih (fun e' he' => hf e' (by simp [he'])) (b - r.length)
      simp [hr, hr']

theorem bracesRec_total : ∀ (fuel budget : Nat) (w : Word), wf w = true → bracesIn w < fuel →
    ∃ r, bracesRec fuel budget w = some r := by
  intro fuel
  induction fuel with
  | zero => intro _ _ _ h; omega
  | succ fuel ih =>
    intro budget w hw hfuel
    simp only [bracesRec]
    cases hsp : splitAtBrace w with
    | mk left o =>
      cases o with
      | none => simp
      | some t =>
        obtain ⟨seq, elems, rest⟩ := t
        obtain ⟨hweq, hleft⟩ := splitAtBrace_some w left seq elems rest hsp
        subst hweq
        simp only [wf_append, wf_cons, Bool.and_eq_true] at hw
        obtain ⟨_, hbr, hrest⟩ := hw
        simp only [bracesIn_append, bracesIn_cons, bracesInPart_brace] at hfuel
        simp only [wfPart, Bool.and_eq_true] at hbr
        obtain ⟨hshape, helems⟩ := hbr
        simp only
        cases seq with
        | false =>
          simp only [Bool.false_eq_true, if_false]
          obtain ⟨r, hr⟩ := altLoop_total (bracesRec fuel) rest elems (by
            intro e he b
            apply ih
            · simp [wf_append, wf_of_mem_elems elems e he helems, hrest]
            · have := bracesIn_le_elems elems e he
              simp only [bracesIn_append]; omega) budget
          simp [hr]
        | true =>
          simp only [if_true] at hshape ⊢
          obtain ⟨sp, hsp'⟩ := seqParams_of_valid elems hshape
          simp only [hsp']
          obtain ⟨r, hr⟩ := altLoop_total (bracesRec fuel) rest
            ((seqVals sp budget sp.from).map fun n => [Part.lit (fmtSeq sp n)]) (by
            intro e he b
            simp only [List.mem_map] at he
            obtain ⟨n, _, rfl⟩ := he
            apply ih
            · simp [hrest]
            · simp; omega) budget
          simp [hr]

/-! ## Denotation lemmas -/

@[simp] theorem denot_nil : denot [] = [[]] := by simp [denot]
@[simp] theorem denot_cons (p : Part) (ps : List Part) :
    denot (p :: ps) = cross (denotPart p) (denot ps) := by simp [denot]
@[simp] theorem denotPart_lit (v : Bytes) : denotPart (.lit v) = [v] := by simp [denotPart]
@[simp] theorem denotElems_nil : denotElems [] = [] := by simp [denotElems]
@[simp] theorem denotElems_cons (e : Word) (es : List Word) :
    denotElems (e :: es) = denot e ++ denotElems es := by simp [denotElems]

@[simp] theorem cross_nil_left (b : List Bytes) : cross [] b = [] := by simp [cross]
theorem cross_cons_left (x : Bytes) (a b : List Bytes) :
    cross (x :: a) b = b.map (x ++ ·) ++ cross a b := by simp [cross]
theorem cross_append_left (a a' b : List Bytes) : cross (a ++ a') b = cross a b ++ cross a' b := by
  simp [cross]
theorem cross_single_left (x : Bytes) (b : List Bytes) : cross [x] b = b.map (x ++ ·) := by
  simp [cross]
@[simp] theorem cross_unit_right (a : List Bytes) : cross a [[]] = a := by
  induction a with
  | nil => simp
  | cons x xs ih => simp [cross_cons_left, ih]
theorem cross_unit_left (b : List Bytes) : cross [[]] b = b := by
  simp [cross]

theorem cross_map_left (x : Bytes) (a b : List Bytes) :
    cross (a.map (x ++ ·)) b = (cross a b).map (x ++ ·) := by
  induction a with
  | nil => simp
  | cons y ys ih =>
    simp only [List.map_cons, cross_cons_left, List.map_append, ih, List.map_map]
    congr 1
    apply List.map_congr_left
    intro z _
    simp

theorem cross_assoc (a b c : List Bytes) : cross (cross a b) c = cross a (cross b c) := by
  induction a with
  | nil => simp
  | cons x xs ih =>
    simp only [cross_cons_left, cross_append_left, ih, cross_map_left]

theorem denot_append (a b : List Part) : denot (a ++ b) = cross (denot a) (denot b) := by
  induction a with
  | nil => simp [cross_unit_left]
  | cons p ps ih => simp [ih, cross_assoc]

theorem denot_allLit (a : List Part) (h : a.all Part.isLit = true) : denot a = [render a] := by
  induction a with
  | nil => simp
  | cons p ps ih =>
    simp only [List.all_cons, Bool.and_eq_true] at h
    cases p with
    | lit v => simp [ih h.2, cross_single_left]
    | brace s e => have := h.1; simp [Part.isLit] at this

theorem cross_length (a b : List Bytes) : (cross a b).length = a.length * b.length := by
  induction a with
  | nil => simp
  | cons x xs ih => simp [cross_cons_left, ih, Nat.succ_mul]; omega

theorem arith_length (a d : Int) (n : Nat) : (arith a d n).length = n := by
  induction n generalizing a with
  | zero => simp [arith]
  | succ n ih => simp [arith, ih]

theorem seqTexts_length (elems : List Word) : (seqTexts elems).length = seqCount elems := by
  unfold seqTexts seqCount
  cases seqParams elems with
  | none => simp
  | some sp => simp [idealSeq, arith_length]

mutual
theorem denotPart_length : ∀ p : Part, (denotPart p).length = countPart p
  | .lit v => by simp [countPart]
  | .brace seq elems => by
    cases seq with
    | true => simp [denotPart, countPart, seqTexts_length]
    | false => simp [denotPart, countPart, denotElems_length elems]
theorem denot_length : ∀ w : List Part, (denot w).length = count w
  | [] => by simp [count]
  | p :: ps => by simp [count, cross_length, denotPart_length p, denot_length ps]
theorem denotElems_length : ∀ es : List (List Part), (denotElems es).length = countElems es
  | [] => by simp [countElems]
  | e :: es => by simp [countElems, denot_length e, denotElems_length es]
end

/-! ## `bracesSeqRec` refines the denotation -/

theorem parseDigits_in64 (neg : Bool) (ds : Bytes) :
    minI64 ≤ (parseDigits neg ds).1 ∧ (parseDigits neg ds).1 ≤ maxI64 := by
  unfold parseDigits
  by_cases h1 : ds = []
  · simp [h1, minI64, maxI64]
  · by_cases h2 : (!ds.all isDigit) = true
    · simp [h1, h2, minI64, maxI64]
    · simp only [h1, h2, if_false]
      generalize (if neg = true then -(digitsVal ds : Int) else (digitsVal ds : Int)) = v
      simp only [minI64, maxI64, Bool.false_eq_true, if_false]
      by_cases h3 : v > 9223372036854775807
      · simp [h3]
      · by_cases h4 : v < -9223372036854775808
        · simp [h3, h4]
        · simp only [h3, h4, if_false]; omega

theorem byte_in64 (a : UInt8) : minI64 ≤ (a.toNat : Int) ∧ (a.toNat : Int) ≤ maxI64 := by
  have := a.toNat_lt
  simp only [minI64, maxI64]
  constructor <;> omega

theorem parseInt_in64 (s : Bytes) : minI64 ≤ (parseInt s).1 ∧ (parseInt s).1 ≤ maxI64 := by
  unfold parseInt
  split
  · simp [minI64, maxI64]
  · split
    · exact parseDigits_in64 _ _
    · split <;> exact parseDigits_in64 _ _

theorem seqRaw_in64 (elems : List Word) : minI64 ≤ seqRaw elems ∧ seqRaw elems ≤ maxI64 := by
  unfold seqRaw
  split
  · exact parseInt_in64 _
  · simp [minI64, maxI64]

theorem seqParams_facts (elems : List Word) (sp : SeqParams) (h : seqParams elems = some sp) :
    sp.upward = decide (sp.from ≤ sp.to) ∧ sp.step = goStep (seqRaw elems) ∧
    minI64 ≤ sp.from ∧ sp.from ≤ maxI64 ∧ minI64 ≤ sp.to ∧ sp.to ≤ maxI64 := by
  unfold seqParams at h
  match elems, h with
  | e0 :: e1 :: more, h =>
    simp only at h
    split at h
    · simp at h
    · rename_i chars fr to hends
      simp only [Option.some.injEq] at h
      subst h
      refine ⟨rfl, rfl, ?_⟩
      simp only
      split at hends
      · simp only [Option.some.injEq, Prod.mk.injEq] at hends
        obtain ⟨_, h1, h2⟩ := hends
        rw [← h1, ← h2]
        exact ⟨(parseInt_in64 _).1, (parseInt_in64 _).2, (parseInt_in64 _).1, (parseInt_in64 _).2⟩
      · split at hends
        · simp only [Option.some.injEq, Prod.mk.injEq] at hends
          obtain ⟨_, h1, h2⟩ := hends
          rw [← h1, ← h2]
          exact ⟨(byte_in64 _).1, (byte_in64 _).2, (byte_in64 _).1, (byte_in64 _).2⟩
        · simp at hends

theorem flatMap_take_take {α β : Type} (g : α → List β) (hg : ∀ x, g x ≠ []) :
    ∀ (l : List α) (n j : Nat), j ≤ n → ((l.take n).flatMap g).take j = (l.flatMap g).take j := by
  intro l
  induction l with
  | nil => intro n j _; simp
  | cons x xs ih =>
    intro n j hj
    cases n with
    | zero =>
      have : j = 0 := by omega
      subst this; simp
    | succ m =>
      simp only [List.take_succ_cons, List.flatMap_cons, List.take_append]
      congr 1
      have hlen : 1 ≤ (g x).length := by
        cases hgx : g x with
        | nil => exact absurd hgx (hg x)
        | cons a b => simp
      exact ih m (j - (g x).length) (by omega)

theorem altLoop_spec (f : Nat → Word → Option (List Word)) (rest : List Part) (elems : List Word)
    (hf : ∀ e ∈ elems, ∀ b, 0 < b → ∃ r, f b (e ++ rest) = some r ∧
      r.map render = (denot (e ++ rest)).take b) :
    ∀ budget, ∃ r, altLoop f rest elems budget = some r ∧
      r.map render = (elems.flatMap fun e => denot (e ++ rest)).take budget := by
  induction elems with
  | nil => intro b; simp [altLoop]
  | cons e es ih =>
    intro b
    simp only [altLoop]
    split
    · rename_i hb; subst hb; simp
    · rename_i hb
      obtain ⟨r, hr, hrr⟩ := hf e (by simp) b (by omega)
      obtain ⟨r', hr', hrr'⟩ := ih (fun e' he' => hf e' (by simp [he'])) (b - r.length)
      refine ⟨r ++ r', by simp [hr, hr'], ?_⟩
      simp only [List.map_append, hrr, hrr', List.flatMap_cons, List.take_append]
      congr 1
      have hlen : r.length = ((denot (e ++ rest)).take b).length := by
        rw [← hrr]; simp
      rw [hlen, List.length_take]
      by_cases hle : (denot (e ++ rest)).length ≤ b
      · rw [Nat.min_eq_right hle]
      · have h1 : min b (denot (e ++ rest)).length = b := by omega
        have h2 : b - (denot (e ++ rest)).length = 0 := by omega
        rw [h1, h2]; simp

theorem cross_ne_nil (a b : List Bytes) (ha : a ≠ []) (hb : b ≠ []) : cross a b ≠ [] := by
  intro h
  have := cross_length a b
  rw [h] at this
  simp only [List.length_nil] at this
  have h1 : 0 < a.length := List.length_pos_iff.mpr ha
  have h2 : 0 < b.length := List.length_pos_iff.mpr hb
  have := Nat.mul_pos h1 h2
  omega

theorem seqTexts_ne_nil (elems : List Word) (h : seqValid elems = true) : seqTexts elems ≠ [] := by
  obtain ⟨sp, hsp⟩ := seqParams_of_valid elems h
  simp [seqTexts, hsp, idealSeq, arith]

mutual
theorem denotPart_ne_nil : ∀ p : Part, wfPart p = true → denotPart p ≠ []
  | .lit v, _ => by simp
  | .brace seq elems, h => by
    simp only [wfPart, Bool.and_eq_true] at h
    cases seq with
    | true =>
      simp only [if_true] at h
      simp only [denotPart, if_true]
      exact seqTexts_ne_nil elems h.1
    | false =>
      simp only [Bool.false_eq_true, if_false] at h
      simp only [denotPart, Bool.false_eq_true, if_false]
      match elems, h with
      | e :: es, h =>
        simp only [wfElems_cons, Bool.and_eq_true] at h
        simp only [denotElems_cons]
        intro hcontra
        have := denot_ne_nil e h.2.1
        simp_all
theorem denot_ne_nil : ∀ w : List Part, wf w = true → denot w ≠ []
  | [], _ => by simp
  | p :: ps, h => by
    simp only [wf_cons, Bool.and_eq_true] at h
    simp only [denot_cons]
    exact cross_ne_nil _ _ (denotPart_ne_nil p h.1) (denot_ne_nil ps h.2)
end

theorem flatMap_denot_elems (elems : List Word) (rest : List Part) :
    (elems.flatMap fun e => denot (e ++ rest)) = cross (denotElems elems) (denot rest) := by
  induction elems with
  | nil => simp
  | cons e es ihe => simp [denot_append, cross_append_left, ← ihe]

theorem bracesRec_spec : ∀ (fuel budget : Nat) (w : Word), wf w = true →
    bracesIn w < fuel → 0 < budget →
    ∃ r, bracesRec fuel budget w = some r ∧ r.map render = (denot w).take budget := by
  intro fuel
  induction fuel with
  | zero => intro _ _ _ h; omega
  | succ fuel ih =>
    intro budget w hw hfuel hbud
    simp only [bracesRec]
    cases hsp : splitAtBrace w with
    | mk left o =>
      cases o with
      | none =>
        obtain ⟨hl, hall⟩ := splitAtBrace_none w left hsp
        subst hl
        refine ⟨[left], rfl, ?_⟩
        rw [denot_allLit left hall]
        cases budget with
        | zero => omega
        | succ b => simp
      | some t =>
        obtain ⟨seq, elems, rest⟩ := t
        obtain ⟨hweq, hleft⟩ := splitAtBrace_some w left seq elems rest hsp
        subst hweq
        simp only [wf_append, wf_cons, Bool.and_eq_true] at hw
        obtain ⟨_, hbr, hrest⟩ := hw
        simp only [bracesIn_append, bracesIn_cons, bracesInPart_brace] at hfuel
        simp only [wfPart, Bool.and_eq_true] at hbr
        obtain ⟨hshape, helems⟩ := hbr
        have hden : denot (left ++ Part.brace seq elems :: rest) =
            (cross (denotPart (.brace seq elems)) (denot rest)).map (render left ++ ·) := by
          rw [denot_append, denot_allLit left hleft, cross_single_left, denot_cons]
        simp only
        cases seq with
        | false =>
          simp only [Bool.false_eq_true, if_false]
          obtain ⟨r, hr, hrr⟩ := altLoop_spec (bracesRec fuel) rest elems (by
            intro e he b hb
            apply ih
            · simp [wf_append, wf_of_mem_elems elems e he helems, hrest]
            · have := bracesIn_le_elems elems e he
              simp only [bracesIn_append]; omega
            · exact hb) budget
          refine ⟨r.map (left ++ ·), by simp [hr], ?_⟩
          have : (render ∘ fun x => left ++ x) = (fun t => render left ++ t) ∘ render := by
            funext x; simp [render_append]
          rw [hden, ← List.map_take, List.map_map, this, ← List.map_map, hrr]
          congr 2
          simp only [denotPart, Bool.false_eq_true, if_false]
          exact flatMap_denot_elems elems rest
        | true =>
          simp only [if_true] at hshape ⊢
          obtain ⟨sp, hsp'⟩ := seqParams_of_valid elems hshape
          simp only [hsp']
          obtain ⟨hup, hstep, hf1, hf2, ht1, ht2⟩ := seqParams_facts elems sp hsp'
          have hraw := seqRaw_in64 elems
          have hvals := seq_exact_core sp sp.from sp.to (seqRaw elems) hf1 hf2 ht1 ht2
            hraw.1 hraw.2 rfl hup hstep budget
          obtain ⟨r, hr, hrr⟩ := altLoop_spec (bracesRec fuel) rest
            ((seqVals sp budget sp.from).map fun n => [Part.lit (fmtSeq sp n)]) (by
            intro e he b hb
            simp only [List.mem_map] at he
            obtain ⟨n, _, rfl⟩ := he
            apply ih
            · simp [hrest]
            · simp; omega
            · exact hb) budget
          refine ⟨r.map (left ++ ·), by simp [hr], ?_⟩
          have : (render ∘ fun x => left ++ x) = (fun t => render left ++ t) ∘ render := by
            funext x; simp [render_append]
          rw [hden, ← List.map_take, List.map_map, this, ← List.map_map, hrr]
          congr 1
          rw [hvals, List.flatMap_map]
          have hne : ∀ n : Int, (denot ([Part.lit (fmtSeq sp n)] ++ rest)) ≠ [] := by
            intro n
            apply denot_ne_nil
            simp [hrest]
          rw [flatMap_take_take _ hne _ budget budget (Nat.le_refl _)]
          congr 1
          simp only [denotPart, if_true, seqTexts, hsp', cross, List.flatMap_map]
          simp [cross]

end ShVerif.C16
