import ShVerif.Model.C16
/-
  C16 — helper lemmas.
-/
set_option linter.unusedSimpArgs false
set_option linter.unusedVariables false
namespace ShVerif.C16

/-! ## Rendering -/

@[simp] theorem render_nil : render [] = [] := by simp [render]
@[simp] theorem render_cons (p : Part) (ps : List Part) :
    render (p :: ps) = renderPart p ++ render ps := by simp [render]
@[simp] theorem renderPart_lit (v : Bytes) : renderPart (.lit v) = v := by simp [renderPart]
@[simp] theorem renderElems_nil : renderElems [] = [] := by simp [renderElems]
@[simp] theorem renderElems_cons (e : List Part) (es : List (List Part)) :
    renderElems (e :: es) = render e :: renderElems es := by simp [renderElems]

theorem render_append (a b : List Part) : render (a ++ b) = render a ++ render b := by
  induction a with
  | nil => simp
  | cons p ps ih => simp [ih]

theorem renderElems_append (a b : List (List Part)) :
    renderElems (a ++ b) = renderElems a ++ renderElems b := by
  induction a with
  | nil => simp
  | cons p ps ih => simp [ih]

theorem joinSep_append_last (sep : Bytes) (xs : List Bytes) (y z : Bytes) :
    joinSep sep (xs ++ [y ++ z]) = joinSep sep (xs ++ [y]) ++ z := by
  induction xs with
  | nil => simp [joinSep]
  | cons x xs ih =>
    cases xs with
    | nil => simp [joinSep]
    | cons x' xs' =>
      simp only [List.cons_append, joinSep] at ih ⊢
      rw [ih]; simp

theorem joinSep_snoc (sep : Bytes) (xs : List Bytes) (x y : Bytes) :
    joinSep sep ((x :: xs) ++ [y]) = joinSep sep (x :: xs) ++ sep ++ y := by
  induction xs generalizing x with
  | nil => simp [joinSep]
  | cons x' xs' ih =>
    have := ih x'
    simp only [List.cons_append, joinSep] at this ⊢
    rw [this]; simp

/-! ## Rendering of the machine state of `SplitBraces` -/

def sepOf (seq : Bool) : Bytes := if seq then dots else [cComma]

/-- The text of an open frame: `{` and its elems so far (no closing brace). -/
def renderFrame (f : Frame) : Bytes := cLB :: joinSep (sepOf f.seq) (renderElems f.elems)

/-- Outermost frame first (the stack is innermost first). -/
def renderStack : List Frame → Bytes
  | [] => []
  | f :: fs => renderStack fs ++ renderFrame f

def renderSt (st : St) : Bytes := render st.top ++ renderStack st.stack

theorem renderPart_brace (seq : Bool) (elems : List (List Part)) :
    renderPart (.brace seq elems) = cLB :: (joinSep (sepOf seq) (renderElems elems) ++ [cRB]) := by
  simp [renderPart, sepOf]

theorem renderSt_addParts (st : St) (ps : List Part) :
    renderSt (st.addParts ps) = renderSt st ++ render ps := by
  unfold St.addParts renderSt
  cases h : st.stack with
  | nil => simp [renderStack, render_append]
  | cons f fs =>
    simp only [renderStack, renderFrame, Frame.elems, renderElems_append, renderElems_cons,
      renderElems_nil, render_append]
    rw [joinSep_append_last]
    simp

theorem renderSt_add (st : St) (p : Part) : renderSt (st.add p) = renderSt st ++ renderPart p := by
  simp [St.add, renderSt_addParts]

theorem renderSt_flush (st : St) (pend : Bytes) : renderSt (st.flush pend) = renderSt st ++ pend := by
  unfold St.flush
  split
  · simp [*]
  · simp [renderSt_add]

theorem renderSt_openBrace (st : St) : renderSt st.openBrace = renderSt st ++ [cLB] := by
  simp [St.openBrace, renderSt, renderStack, renderFrame, Frame.elems, joinSep]

theorem render_mergeDots (elems : List Word) :
    render (mergeDots elems) = joinSep dots (renderElems elems) := by
  cases elems with
  | nil => simp [mergeDots, joinSep]
  | cons e es =>
    induction es generalizing e with
    | nil => simp [mergeDots, joinSep]
    | cons e' es' ih =>
      have := ih e'
      simp only [mergeDots, List.map_cons, List.flatten_cons, render_append, render_cons,
        renderPart_lit, renderElems_cons, joinSep] at this ⊢
      rw [← this]; simp

theorem render_joinParts (sep : Bytes) (elems : List Word) :
    render (joinParts (.lit sep) elems) = joinSep sep (renderElems elems) := by
  cases elems with
  | nil => simp [joinParts, joinSep]
  | cons e es =>
    induction es generalizing e with
    | nil => simp [joinParts, joinSep]
    | cons e' es' ih =>
      have := ih e'
      simp only [joinParts, render_append, render_cons, renderPart_lit, renderElems_cons,
        joinSep] at this ⊢
      rw [this]; simp

theorem frame_elems_ne_nil (f : Frame) : f.elems ≠ [] := by simp [Frame.elems]

theorem joinSep_elems_snoc_nil (sep : Bytes) (f : Frame) :
    joinSep sep (renderElems (f.elems ++ [[]])) = joinSep sep (renderElems f.elems) ++ sep := by
  rw [renderElems_append]
  cases h : renderElems f.elems with
  | nil =>
    exfalso
    have := frame_elems_ne_nil f
    cases h2 : f.elems with
    | nil => exact this h2
    | cons a b => rw [h2] at h; simp at h
  | cons x xs =>
    simp only [renderElems_cons, renderElems_nil, render_nil]
    rw [joinSep_snoc]; simp

theorem renderSt_commaStep (st : St) (h : st.stack ≠ []) :
    renderSt st.commaStep = renderSt st ++ [cComma] := by
  unfold St.commaStep renderSt
  cases hs : st.stack with
  | nil => exact absurd hs h
  | cons f fs =>
    simp only
    split
    · rename_i hseq
      simp only [renderStack, renderFrame, sepOf, hseq, Frame.elems, List.nil_append,
        renderElems_cons, renderElems_nil, render_nil, joinSep, render_mergeDots]
      simp [joinSep, render_mergeDots]
    · rename_i hseq
      have hseq' : f.seq = false := by simpa using hseq
      simp only [renderStack, renderFrame, sepOf, hseq']
      have := joinSep_elems_snoc_nil [cComma] f
      simp only [Frame.elems, List.append_assoc, List.cons_append, List.nil_append] at this ⊢
      simp [this]

theorem renderSt_dotsStep (st : St) (f : Frame) (fs : List Frame) (hs : st.stack = f :: fs)
    (hok : f.seq = true ∨ f.done = []) : renderSt st.dotsStep = renderSt st ++ dots := by
  unfold St.dotsStep renderSt
  rw [hs]
  simp only [renderStack, renderFrame, sepOf]
  have := joinSep_elems_snoc_nil dots f
  simp only [Frame.elems, if_true] at this ⊢
  rw [this]
  rcases hok with h | h
  · simp [h]
  · simp [h, joinSep]

theorem renderSt_closeStep (st : St) (h : st.stack ≠ []) :
    renderSt st.closeStep = renderSt st ++ [cRB] := by
  unfold St.closeStep
  cases hs : st.stack with
  | nil => exact absurd hs h
  | cons f fs =>
    simp only
    have base : renderSt { top := st.top, stack := fs } = render st.top ++ renderStack fs := rfl
    cases hd : f.done with
    | nil =>
      simp only [renderSt_add, renderSt_addParts, renderPart_lit, base]
      simp [renderSt, hs, renderStack, renderFrame, Frame.elems, hd, joinSep]
    | cons d ds =>
      simp only
      split
      · simp only [renderSt_add, renderPart_brace, base]
        rename_i hseq
        have hseq' : f.seq = false := by simpa using hseq
        simp [renderSt, hs, renderStack, renderFrame, hseq']
      · rename_i hseq
        have hseq' : f.seq = true := by simpa using hseq
        split
        · simp only [renderSt_add, renderPart_brace, base]
          simp [renderSt, hs, renderStack, renderFrame, hseq']
        · simp only [renderSt_add, renderSt_addParts, renderPart_lit, base, render_joinParts]
          simp [renderSt, hs, renderStack, renderFrame, hseq', sepOf]

/-! ## `split_render` -/

/-- What the text consumed so far looks like, per loop mode. -/
def ScanInv (w : Bytes) (st : St) (mode : Mode) (pend rest : Bytes) : Prop :=
  match mode with
  | .skip => ∃ r, rest = cDot :: r ∧ renderSt st ++ r = w
  | _ => renderSt st ++ pend ++ rest = w

theorem scan_render (w : Bytes) (rest : Bytes) :
    ∀ (st : St) (mode : Mode) (pend : Bytes), ScanInv w st mode pend rest →
      renderSt (scan st mode pend rest).1 ++ (scan st mode pend rest).2 = w := by
  induction rest with
  | nil =>
    intro st mode pend h
    cases mode <;> simp [ScanInv] at h <;> simp [scan, h]
  | cons c rest ih =>
    intro st mode pend h
    cases mode with
    | esc =>
      simp only [scan]
      apply ih
      simp only [ScanInv] at h ⊢
      simpa using h
    | skip =>
      simp only [scan]
      apply ih
      simp only [ScanInv] at h ⊢
      obtain ⟨r, hr, hw⟩ := h
      cases hr
      simpa using hw
    | normal =>
      simp only [ScanInv] at h
      simp only [scan]
      split
      · -- backslash
        apply ih; simp only [ScanInv]; simpa using h
      · split
        · -- {
          rename_i hc
          apply ih; simp only [ScanInv, renderSt_openBrace, renderSt_flush]
          subst hc; simpa using h
        · split
          · -- ,
            rename_i hc
            split
            · apply ih; simp only [ScanInv]; simpa using h
            · rename_i f fs hs
              apply ih
              have hne : (st.flush pend).stack ≠ [] := by
                unfold St.flush; split
                · simp [hs]
                · simp [St.add, St.addParts, hs]
              simp only [ScanInv, renderSt_commaStep _ hne, renderSt_flush]
              subst hc; simpa using h
          · split
            · -- .
              rename_i hc
              split
              · apply ih; simp only [ScanInv]; simpa using h
              · rename_i f fs hs
                split
                · rename_i hnext
                  split
                  · apply ih; simp only [ScanInv]; simpa using h
                  · rename_i hcond
                    apply ih
                    -- the flushed state has the same top frame shape
                    cases rest with
                    | nil => simp at hnext
                    | cons d r =>
                      simp only [List.head?_cons, Option.some.injEq] at hnext
                      subst hnext
                      have hok : f.seq = true ∨ f.done = [] := by
                        cases hseq : f.seq with
                        | true => exact Or.inl rfl
                        | false =>
                          right
                          cases hd : f.done with
                          | nil => rfl
                          | cons a b => simp [hseq, hd] at hcond
                      have hfl : ∃ f' , (st.flush pend).stack = f' :: fs ∧ f'.seq = f.seq ∧ f'.done = f.done := by
                        unfold St.flush; split
                        · exact ⟨f, hs, rfl, rfl⟩
                        · simp [St.add, St.addParts, hs]
                      obtain ⟨f', hs', hseq', hdone'⟩ := hfl
                      have := renderSt_dotsStep (st.flush pend) f' fs hs' (by rw [hseq', hdone']; exact hok)
                      simp only [ScanInv]
                      refine ⟨r, rfl, ?_⟩
                      rw [this, renderSt_flush]
                      subst hc
                      simpa [dots] using h
                · apply ih; simp only [ScanInv]; simpa using h
            · split
              · -- }
                rename_i hc
                split
                · apply ih; simp only [ScanInv]; simpa using h
                · rename_i f fs hs
                  apply ih
                  have hne : (st.flush pend).stack ≠ [] := by
                    unfold St.flush; split
                    · simp [hs]
                    · simp [St.add, St.addParts, hs]
                  simp only [ScanInv, renderSt_closeStep _ hne, renderSt_flush]
                  subst hc; simpa using h
              · apply ih; simp only [ScanInv]; simpa using h

theorem render_unwind (stack : List Frame) : ∀ (carry : List Part) (top : Word),
    render (unwind stack carry top) = render top ++ renderStack stack ++ render carry := by
  induction stack with
  | nil => intro carry top; simp [unwind, renderStack, render_append]
  | cons f fs ih =>
    intro carry top
    simp only [unwind, ih, renderStack, renderFrame, render_cons, renderPart_lit]
    have hsep : render (joinParts (if f.seq = true then Part.lit dots else Part.lit [cComma])
        (f.done ++ [f.cur ++ carry])) =
        joinSep (sepOf f.seq) (renderElems (f.done ++ [f.cur ++ carry])) := by
      cases f.seq <;> simp [sepOf, render_joinParts]
    rw [hsep]
    simp only [Frame.elems, renderElems_append, renderElems_cons, renderElems_nil, render_append]
    rw [joinSep_append_last]
    simp

theorem split_render_aux (w : Bytes) : render (splitBraces w).1 = w := by
  unfold splitBraces
  split
  · simp
  · simp only
    have h := scan_render w w { top := [], stack := [] } .normal [] (by simp [ScanInv, renderSt, renderStack])
    generalize scan { top := [], stack := [] } Mode.normal [] w = res at h
    obtain ⟨st, pend⟩ := res
    simp only at h ⊢
    rw [render_unwind]
    have := renderSt_add st (.lit pend)
    simp only [renderSt, renderPart_lit] at this h
    simp [this, h]

/-! ## `seq_exact` -/

theorem arith_take (a d : Int) (n k : Nat) : (arith a d n).take k = arith a d (min k n) := by
  induction n generalizing a k with
  | zero => simp [arith]
  | succ n ih =>
    cases k with
    | zero => simp [arith]
    | succ k =>
      have : min (k + 1) (n + 1) = min k n + 1 := by omega
      simp [arith, ih, this]

theorem seqVals_stop (sp : SeqParams) (k : Nat) (n : Int) (h : seqCond sp n = false) :
    seqVals sp k n = [] := by
  cases k <;> simp [seqVals, h]

theorem seqVals_up (sp : SeqParams) (s : Nat) (hs : 0 < s) (hup : sp.upward = true)
    (hincr : sp.incr = (s : Int)) :
    ∀ (k d : Nat) (n : Int), n = sp.to - d → sp.to - ((d % s : Nat) : Int) + s ≤ maxI64 →
      minI64 ≤ n → seqVals sp k n = arith n s (min k (d / s + 1)) := by
  intro k
  induction k with
  | zero => intro d n _ _ _; simp [seqVals, arith]
  | succ k ih =>
    intro d n hn hov hmin
    have hcond : seqCond sp n = true := by
      simp only [seqCond, hup]; simp; omega
    have hmod : d % s ≤ d := Nat.mod_le d s
    have hwrap : wrap64 (n + sp.incr) = n + s := by
      simp only [wrap64, hincr, maxI64, minI64] at *
      split
      · omega
      · split
        · omega
        · rfl
    simp only [seqVals, hcond, if_true, hwrap]
    by_cases hds : s ≤ d
    · obtain ⟨d', rfl⟩ : ∃ d', d = d' + s := ⟨d - s, by omega⟩
      have h1 : (d' + s) % s = d' % s := Nat.add_mod_right d' s
      have h2 : (d' + s) / s = d' / s + 1 := Nat.add_div_right d' hs
      rw [h1] at hov
      have := ih d' (n + s) (by push_cast at hn ⊢; omega) hov (by omega)
      rw [this, h2]
      have : min (k + 1) (d' / s + 1 + 1) = min k (d' / s + 1) + 1 := by omega
      rw [this]; simp [arith]
    · have h2 : d / s = 0 := Nat.div_eq_of_lt (by omega)
      have hstop : seqCond sp (n + s) = false := by
        simp only [seqCond, hup]; simp; omega
      rw [seqVals_stop _ _ _ hstop, h2]
      have : min (k + 1) (0 + 1) = 1 := by omega
      rw [this]; simp [arith]

theorem seqVals_down (sp : SeqParams) (s : Nat) (hs : 0 < s) (hup : sp.upward = false)
    (hincr : sp.incr = -(s : Int)) :
    ∀ (k d : Nat) (n : Int), n = sp.to + d → minI64 ≤ sp.to + ((d % s : Nat) : Int) - s →
      n ≤ maxI64 → seqVals sp k n = arith n (-(s : Int)) (min k (d / s + 1)) := by
  intro k
  induction k with
  | zero => intro d n _ _ _; simp [seqVals, arith]
  | succ k ih =>
    intro d n hn hov hmax
    have hcond : seqCond sp n = true := by
      simp only [seqCond, hup]; simp; omega
    have hmod : d % s ≤ d := Nat.mod_le d s
    have hwrap : wrap64 (n + sp.incr) = n + -(s : Int) := by
      simp only [wrap64, hincr, maxI64, minI64] at *
      split
      · omega
      · split
        · omega
        · rfl
    simp only [seqVals, hcond, if_true, hwrap]
    by_cases hds : s ≤ d
    · obtain ⟨d', rfl⟩ : ∃ d', d = d' + s := ⟨d - s, by omega⟩
      have h1 : (d' + s) % s = d' % s := Nat.add_mod_right d' s
      have h2 : (d' + s) / s = d' / s + 1 := Nat.add_div_right d' hs
      rw [h1] at hov
      have := ih d' (n + -(s : Int)) (by push_cast at hn ⊢; omega) hov (by omega)
      rw [this, h2]
      have : min (k + 1) (d' / s + 1 + 1) = min k (d' / s + 1) + 1 := by omega
      rw [this]; simp [arith]
    · have h2 : d / s = 0 := Nat.div_eq_of_lt (by omega)
      have hstop : seqCond sp (n + -(s : Int)) = false := by
        simp only [seqCond, hup]; simp; omega
      rw [seqVals_stop _ _ _ hstop, h2]
      have : min (k + 1) (0 + 1) = 1 := by omega
      rw [this]; simp [arith]

theorem wrap64_id (x : Int) (h1 : minI64 ≤ x) (h2 : x ≤ maxI64) : wrap64 x = x := by
  unfold wrap64
  rw [if_neg (by omega), if_neg (by omega)]

theorem idealStep_pos (inc : Int) : 0 < idealStep inc := by
  unfold idealStep; split <;> omega

theorem goIncr_up (inc : Int) (h1 : minI64 < inc) (h2 : inc ≤ maxI64) :
    goIncr inc true = (idealStep inc : Int) := by
  simp only [goIncr, idealStep, wrap64, maxI64, minI64] at *
  by_cases hneg : inc < 0
  · simp only [hneg, if_true]
    have : ¬ (-inc > 9223372036854775807) := by omega
    have h' : ¬ (-inc < -9223372036854775808) := by omega
    simp only [this, h', if_false]
    have : -inc ≠ 0 := by omega
    have hi : inc ≠ 0 := by omega
    simp [this, hi]; omega
  · simp only [hneg, if_false]
    by_cases h0 : inc = 0
    · simp [h0]
    · simp [h0]; omega

theorem goIncr_down (inc : Int) (h1 : minI64 < inc) (h2 : inc ≤ maxI64) :
    goIncr inc false = -(idealStep inc : Int) := by
  have hup := goIncr_up inc h1 h2
  have hpos := idealStep_pos inc
  have hle : (idealStep inc : Int) ≤ maxI64 := by
    simp only [idealStep, maxI64, minI64] at *; split <;> omega
  simp only [goIncr] at hup ⊢
  simp only [Bool.not_true, Bool.false_eq_true, if_false] at hup
  simp only [Bool.not_false, if_true]
  rw [hup]
  apply wrap64_id
  · simp only [maxI64, minI64] at *; omega
  · simp only [maxI64, minI64] at *; omega

theorem seq_exact_core (sp : SeqParams) (fr to inc : Int)
    (hfr1 : minI64 ≤ fr) (hfr2 : fr ≤ maxI64)
    (hinc1 : minI64 < inc) (hinc2 : inc ≤ maxI64)
    (hto : sp.to = to) (hup : sp.upward = decide (fr ≤ to)) (hincr : sp.incr = goIncr inc sp.upward)
    (hno : SeqNoOverflow fr to (idealStep inc)) (k : Nat) :
    seqVals sp k fr = (idealSeq fr to (idealStep inc)).take k := by
  have hs := idealStep_pos inc
  unfold idealSeq
  rw [arith_take]
  unfold SeqNoOverflow at hno
  by_cases hle : fr ≤ to
  · simp only [hle, if_true] at hno ⊢
    have hup' : sp.upward = true := by simp [hup, hle]
    rw [hup', goIncr_up inc hinc1 hinc2] at hincr
    have := seqVals_up sp (idealStep inc) hs hup' hincr k (to - fr).natAbs fr
      (by rw [hto]; omega) (by rw [hto]; exact hno) hfr1
    rw [this]
  · simp only [hle, if_false] at hno ⊢
    have hup' : sp.upward = false := by simp [hup, hle]
    rw [hup', goIncr_down inc hinc1 hinc2] at hincr
    have habs : (to - fr).natAbs = (fr - to).natAbs := by omega
    have := seqVals_down sp (idealStep inc) hs hup' hincr k (fr - to).natAbs fr
      (by rw [hto]; omega) (by rw [hto]; exact hno) hfr2
    rw [this, habs]

end ShVerif.C16
