/-
  L4 printer lemmas, part 2: the printer half of the round trip for all of fragment F0, i.e. also
  for subshells `( )` and blocks `{ }`, under the hypothesis that line numbers never decrease in
  source order (`posMono`, which is what a parser assigns).

  Part A bounds the printer's line counter, part B adds the summary steps for `(` `)` `{` `}`,
  part C the printer segments around nested lists, part D the mutual induction.
-/
import ShVerif.Proofs.L4Print
namespace ShVerif.L4

/-! ## A. The line counter never overtakes the source -/

theorem line_spacePad (p : P) : p.spacePad.line = p.line := by
  unfold P.spacePad; split <;> rfl

theorem line_indent (p : P) : p.indent.line = p.line := by
  unfold P.indent
  split
  · rfl
  · dsimp only
    split
    · rfl
    · split <;> rfl

theorem line_incLevel (p : P) : p.incLevel.line = p.line := by
  unfold P.incLevel
  split
  · rfl
  · split <;> rfl

theorem line_decLevel (p : P) : p.decLevel.line = p.line := by
  unfold P.decLevel; split <;> rfl

theorem line_bslashNewl (p : P) : p.bslashNewl.line = p.line + 1 := by
  unfold P.bslashNewl
  dsimp only
  rw [line_indent]
  split <;> rfl

theorem line_spacedString (p : P) (s : Bytes) : (p.spacedString s).line = p.line := by
  unfold P.spacedString
  exact line_spacePad p

theorem line_spacedToken (p : P) (s : Bytes) : (p.spacedToken s).line = p.line := by
  unfold P.spacedToken
  split
  · rfl
  · exact line_spacePad p

theorem line_advanceLine (p : P) (l : Nat) : (p.advanceLine l).line = max p.line l := rfl

theorem le_advanceLine {p : P} {M l : Nat} (h : p.line ≤ M) (hl : l ≤ M) : (p.advanceLine l).line ≤ M := by
  rw [line_advanceLine]; exact Nat.max_le.mpr ⟨h, hl⟩

theorem le_newline {p : P} {M l : Nat} (h : p.line ≤ M) (hl : l ≤ M) : (p.newline l).line ≤ M := by
  unfold P.newline
  exact le_advanceLine (p := { p.gapw [10] with wantSpace := .written, wantNewline := false, mustNewline := false }) h hl

theorem le_newlines {p : P} {M l : Nat} (h : p.line ≤ M) (hl : l ≤ M) : (p.newlines l).line ≤ M := by
  unfold P.newlines
  split
  · exact h
  · split
    · exact h
    · dsimp only
      rw [line_indent]
      apply le_advanceLine _ hl
      split <;> exact h

theorem le_rightParen {p : P} {M l : Nat} (h : p.line ≤ M) (hl : l ≤ M) : (p.rightParen l).line ≤ M := by
  unfold P.rightParen
  dsimp only
  split
  · exact le_newlines h hl
  · exact h

theorem le_semiRsrv {p : P} {M l : Nat} (s : Bytes) (h : p.line ≤ M) (hl : l ≤ M) : (p.semiRsrv s l).line ≤ M := by
  unfold P.semiRsrv
  dsimp only
  have key : ∀ q : P, q.line ≤ M → ((if (!q.o.minify) = true then q.spacePad else q).tok s).line ≤ M := by
    intro q hq
    split
    · show q.spacePad.line ≤ M
      rw [line_spacePad]; exact hq
    · exact hq
  split
  · exact le_newlines h hl
  · split
    · exact key (p.tok [59]) h
    · exact key p h

theorem partLines_stop (wp : WordPart) : wp.pos.line ∈ partLines wp ∧ wp.stop.line ∈ partLines wp := by
  cases wp with
  | lit a e v => simp [partLines, WordPart.pos, WordPart.stop]
  | sgl l r v =>
    simp only [partLines, WordPart.pos, WordPart.stop]
    split <;> simp

theorem le_wordPart {p : P} {M : Nat} (wp : WordPart) (h : p.line ≤ M) (hl : ∀ l ∈ partLines wp, l ≤ M) :
    (p.wordPart wp).line ≤ M := by
  cases wp with
  | lit a e v => exact le_advanceLine h (hl _ (by simp [partLines]))
  | sgl l r v =>
    unfold P.wordPart
    exact le_advanceLine (le_advanceLine h (hl _ (by simp [partLines]))) (hl _ (partLines_stop (.sgl l r v)).2)

theorem le_wordPartsLoop {M : Nat} : ∀ (wps : List WordPart) (p : P), p.line ≤ M →
    (∀ l ∈ wps.flatMap partLines, l ≤ M) → (p.wordPartsLoop wps).line ≤ M
  | [], p, h, _ => by unfold P.wordPartsLoop; exact h
  | wp :: rest, p, h, hl => by
    unfold P.wordPartsLoop
    apply le_wordPartsLoop rest
    · exact le_wordPart wp h (fun l hm => hl l (by simp [hm]))
    · exact fun l hm => hl l (by simp only [List.flatMap_cons, List.mem_append]; exact Or.inr hm)

theorem le_word {p : P} {M : Nat} (w : Word) (h : p.line ≤ M) (hl : ∀ l ∈ w.parts.flatMap partLines, l ≤ M) :
    (p.word w).line ≤ M := by
  unfold P.word P.wordParts
  cases hp : w.parts with
  | nil => exact h
  | cons wp rest =>
    dsimp only
    rw [hp] at hl
    apply le_wordPartsLoop (wp :: rest) _ _ hl
    have hpos : wp.pos.line ≤ M := hl _ (by simp [(partLines_stop wp).1])
    split
    · rename_i hg
      simp only [Bool.and_eq_true, Bool.not_eq_true', decide_eq_true_eq] at hg
      show p.bslashNewl.line ≤ M
      rw [line_bslashNewl]
      omega
    · exact h

theorem Word.pos_line_mem {w : Word} {pos : Pos} (h : w.pos? = some pos) : pos.line ∈ w.parts.flatMap partLines := by
  unfold Word.pos? at h
  cases hp : w.parts with
  | nil => simp [hp] at h
  | cons wp rest =>
    simp only [hp, List.head?_cons, Option.map_some, Option.some.injEq] at h
    subst h
    simp [(partLines_stop wp).1]

theorem le_wordJoinLoop {M : Nat} : ∀ (ws : List Word) (p : P) (any : Bool), p.line ≤ M →
    (∀ l ∈ ws.flatMap (fun w => w.parts.flatMap partLines), l ≤ M) → (p.wordJoinLoop any ws).1.line ≤ M
  | [], p, any, h, _ => by unfold P.wordJoinLoop; exact h
  | w :: rest, p, any, h, hl => by
    unfold P.wordJoinLoop
    have hw : ∀ l ∈ w.parts.flatMap partLines, l ≤ M := fun l hm => hl l (by simp [hm])
    have hr : ∀ l ∈ rest.flatMap (fun w => w.parts.flatMap partLines), l ≤ M :=
      fun l hm => hl l (by simp only [List.flatMap_cons, List.mem_append]; exact Or.inr hm)
    cases hpos : w.pos? with
    | none => exact h
    | some pos =>
      dsimp only
      have hpl : pos.line ≤ M := hw _ (Word.pos_line_mem hpos)
      split
      · rename_i hg
        simp only [Bool.and_eq_true, Bool.not_eq_true', decide_eq_true_eq] at hg
        apply le_wordJoinLoop rest _ _ _ hr
        apply le_word w _ hw
        rw [line_spacePad, line_bslashNewl]
        split
        · rw [line_incLevel]; omega
        · omega
      · apply le_wordJoinLoop rest _ _ _ hr
        apply le_word w _ hw
        rw [line_spacePad]
        exact h

theorem le_wordJoin {p : P} {M : Nat} (ws : List Word) (h : p.line ≤ M)
    (hl : ∀ l ∈ ws.flatMap (fun w => w.parts.flatMap partLines), l ≤ M) : (p.wordJoin ws).line ≤ M := by
  unfold P.wordJoin
  have := le_wordJoinLoop ws p false h hl
  split
  rename_i q any heq
  rw [heq] at this
  split
  · rw [line_decLevel]; exact this
  · exact this

theorem le_stmtPre {p : P} {M : Nat} (neg : Bool) (h : p.line ≤ M) : (p.stmtPre neg).line ≤ M := by
  unfold P.stmtPre
  dsimp only
  split
  · rw [line_spacedString]; exact h
  · exact h

theorem le_stmtEnd {p : P} {M : Nat} (semi : Pos) (bg : Bool) (h : p.line ≤ M) (hs : semi.valid = true → semi.line ≤ M) :
    (p.stmtEnd semi bg).line ≤ M := by
  unfold P.stmtEnd
  dsimp only
  rw [line_decLevel]
  split
  · show (if _ then _ else _ : P).line ≤ M
    by_cases hsep : (semi.valid && decide (semi.line > p.incLevel.line) && !p.incLevel.o.singleLine) = true
    · have hl : (if bg = true then (if (semi.valid && decide (semi.line > p.incLevel.line) && !p.incLevel.o.singleLine) = true
          then p.incLevel.bslashNewl else if (!p.incLevel.o.minify) = true then p.incLevel.space else p.incLevel).tok [38]
          else (if (semi.valid && decide (semi.line > p.incLevel.line) && !p.incLevel.o.singleLine) = true
          then p.incLevel.bslashNewl else if (!p.incLevel.o.minify) = true then p.incLevel.space else p.incLevel).tok [59]).line =
          p.incLevel.bslashNewl.line := by
        rw [if_pos hsep]
        split <;> rfl
      show (if bg = true then _ else _ : P).line ≤ M
      rw [hl, line_bslashNewl, line_incLevel]
      simp only [Bool.and_eq_true, decide_eq_true_eq, Bool.not_eq_true'] at hsep
      have := hs hsep.1.1
      rw [line_incLevel] at hsep
      omega
    · have hl : (if bg = true then (if (semi.valid && decide (semi.line > p.incLevel.line) && !p.incLevel.o.singleLine) = true
          then p.incLevel.bslashNewl else if (!p.incLevel.o.minify) = true then p.incLevel.space else p.incLevel).tok [38]
          else (if (semi.valid && decide (semi.line > p.incLevel.line) && !p.incLevel.o.singleLine) = true
          then p.incLevel.bslashNewl else if (!p.incLevel.o.minify) = true then p.incLevel.space else p.incLevel).tok [59]).line =
          p.incLevel.line := by
        rw [if_neg hsep]
        split <;> split <;> rfl
      show (if bg = true then _ else _ : P).line ≤ M
      rw [hl, line_incLevel]
      exact h
  · show p.incLevel.line ≤ M
    rw [line_incLevel]; exact h

theorem le_binaryOp {p : P} {M : Nat} (opPos : Pos) (op : BinOp) (yl : Nat) (yb : Bool) (h : p.line ≤ M)
    (ho : opPos.line ≤ M) (hy : yl ≤ M) : (p.binaryOp opPos op yl yb).1.line ≤ M := by
  unfold P.binaryOp
  split
  · exact le_advanceLine (by rw [line_spacedToken]; exact h) hy
  · rename_i hc
    simp only [Bool.or_eq_true, decide_eq_true_eq, not_or, Nat.not_le] at hc
    dsimp only
    apply le_advanceLine _ hy
    have h0 : (if (!p.nestedBinary) = true then p.incLevel else p).line = p.line := by
      split
      · exact line_incLevel p
      · rfl
    obtain ⟨q, hq, hql⟩ : ∃ q : P, q = (if (!p.nestedBinary) = true then p.incLevel else p) ∧ q.line = p.line :=
      ⟨_, rfl, h0⟩
    rw [← hq]
    split
    · rw [line_spacedToken, line_bslashNewl, hql]
      omega
    · rw [line_indent]
      apply le_newline _ (Nat.zero_le M)
      apply le_advanceLine _ ho
      rw [line_spacedToken, hql]
      exact h

theorem line_binaryEnd (p : P) (i m : Bool) : (p.binaryEnd i m).line = p.line := by
  unfold P.binaryEnd
  split
  · dsimp only
    split
    · exact line_decLevel p
    · rfl
  · rfl

theorem le_stmtSep {p : P} {M : Nat} (first : Bool) (l : Nat) (h : p.line ≤ M) (hl : l ≤ M) :
    (p.stmtSep first l).line ≤ M := by
  unfold P.stmtSep
  dsimp only
  apply le_advanceLine _ hl
  obtain ⟨q, hq, hql⟩ : ∃ q : P, q = (if (!first && p.o.singleLine && p.wantNewline && !p.wroteSemi) = true
      then ({ (p.tok [59]) with wantSpace := .required } : P) else p) ∧ q.line = p.line :=
    ⟨_, rfl, by split <;> rfl⟩
  rw [← hq]
  split
  · apply le_newlines _ hl
    rw [hql]; exact h
  · rw [hql]; exact h

theorem line_subshellOpen (p : P) (lp : Pos) (ss : Stmts) : (p.subshellOpen lp ss).line = p.line := by
  unfold P.subshellOpen
  dsimp only
  rw [line_spacePad]
  (repeat' split) <;> rfl

theorem line_closingParenSpace (p : P) (ss : Stmts) (a b : Nat) : (p.closingParenSpace ss a b).line = p.line := by
  unfold P.closingParenSpace
  dsimp only
  rw [line_spacePad]
  (repeat' split) <;> rfl

theorem le_nestedStmtsWith {p : P} {M : Nat} (ss : Stmts) (closing : Pos) (loop : P → P)
    (hloop : ∀ q : P, q.line ≤ M → (loop q).line ≤ M) (h : p.line ≤ M) :
    (p.nestedStmtsWith ss closing loop).line ≤ M := by
  unfold P.nestedStmtsWith
  dsimp only
  rw [line_decLevel]
  unfold P.stmtListWith
  dsimp only
  have h1 : ∀ q : P, q.line ≤ M → (match ss with
      | .cons _ .nil => if (!(q.wantNewline || (match ss with | .nil => false | .cons s _ => decide (s.pos.line > q.line)))) = true
          then ({ (loop q) with wantNewline := false } : P) else loop q
      | _ => loop q).line ≤ M := by
    intro q hq
    (repeat' split) <;> exact hloop q hq
  apply h1
  split
  · rw [line_incLevel]; exact h
  · split
    · rw [line_incLevel]; exact h
    · rw [line_incLevel]; exact h

mutual
theorem le_stmt : ∀ (s : Stmt) (M : Nat) (p : P), p.line ≤ M → (∀ l ∈ s.lines, l ≤ M) → (p.stmt s).line ≤ M
  | .mk pos semi neg bg cmd, M, p, h, hl => by
    unfold P.stmt
    apply le_stmtEnd
    · apply le_cmd cmd M _ (le_stmtPre neg h)
      intro l hm
      exact hl l (by simp [Stmt.lines, hm])
    · intro hv
      exact hl _ (by simp [Stmt.lines, hv])
theorem le_cmd : ∀ (c : Cmd) (M : Nat) (p : P), p.line ≤ M → (∀ l ∈ c.lines, l ≤ M) → (p.command c).line ≤ M
  | .call args, M, p, h, hl => by
    unfold P.command
    cases args with
    | nil => exact h
    | cons w rest =>
      dsimp only
      cases hpos : w.pos? with
      | none => exact h
      | some pos =>
        dsimp only
        have hw : ∀ l ∈ w.parts.flatMap partLines, l ≤ M := fun l hm => hl l (by simp [Cmd.lines, hm])
        have hr : ∀ l ∈ rest.flatMap (fun w => w.parts.flatMap partLines), l ≤ M :=
          fun l hm => hl l (by simp only [Cmd.lines, List.flatMap_cons, List.mem_append]; exact Or.inr hm)
        have h0 : ((p.advanceLine pos.line).spacePad.incLevel.decLevel).line ≤ M := by
          rw [line_decLevel, line_incLevel, line_spacePad]
          exact le_advanceLine h (hw _ (Word.pos_line_mem hpos))
        have h1 : (((p.advanceLine pos.line).spacePad.incLevel.decLevel).wordJoin [w]).line ≤ M :=
          le_wordJoin [w] h0 (by simpa using hw)
        split
        · exact h1
        · exact le_wordJoin rest h1 hr
  | .block lb rb ss, M, p, h, hl => by
    unfold P.command
    dsimp only
    apply le_semiRsrv _ _ (hl _ (by simp [Cmd.lines]))
    have hn : (P.nestedStmtsWith
        { ((p.advanceLine lb.line).spacePad.tok [123]) with
          wroteSemi := true, wantSpace := .required,
          wantNewline := ((p.advanceLine lb.line).spacePad.tok [123]).wantNewline ||
            ((p.advanceLine lb.line).spacePad.tok [123]).o.funcNextLine }
        ss rb (fun q => q.stmtListLoop true ss)).line ≤ M := by
      apply le_nestedStmtsWith
      · intro q hq
        exact le_loop ss M q true hq (fun l hm => hl l (by simp [Cmd.lines, hm]))
      · show ((p.advanceLine lb.line).spacePad).line ≤ M
        rw [line_spacePad]
        exact le_advanceLine h (hl _ (by simp [Cmd.lines]))
    split
    · exact hn
    · exact hn
  | .subshell lp rp ss, M, p, h, hl => by
    unfold P.command
    dsimp only
    apply le_rightParen _ (hl _ (by simp [Cmd.lines]))
    rw [line_closingParenSpace]
    apply le_nestedStmtsWith
    · intro q hq
      exact le_loop ss M q true hq (fun l hm => hl l (by simp [Cmd.lines, hm]))
    · rw [line_subshellOpen, line_spacePad]
      exact le_advanceLine h (hl _ (by simp [Cmd.lines]))
  | .binary opPos op x y, M, p, h, hl => by
    unfold P.command
    dsimp only
    rw [line_binaryEnd]
    have hx : ∀ l ∈ x.lines, l ≤ M := fun l hm => hl l (by simp [Cmd.lines, hm])
    have hy : ∀ l ∈ y.lines, l ≤ M := fun l hm => hl l (by simp [Cmd.lines, hm])
    have hxp : x.pos.line ≤ M := hx _ (by cases x; simp [Stmt.lines, Stmt.pos])
    have hyp : y.pos.line ≤ M := hy _ (by cases y; simp [Stmt.lines, Stmt.pos])
    apply le_stmt y M _ _ hy
    apply le_binaryOp _ _ _ _ _ (hl _ (by simp [Cmd.lines])) hyp
    apply le_stmt x M _ _ hx
    rw [line_spacePad]
    exact le_advanceLine h hxp
theorem le_loop : ∀ (ss : Stmts) (M : Nat) (p : P) (first : Bool), p.line ≤ M → (∀ l ∈ ss.lines, l ≤ M) →
    (p.stmtListLoop first ss).line ≤ M
  | .nil, M, p, first, h, _ => by unfold P.stmtListLoop; exact h
  | .cons s rest, M, p, first, h, hl => by
    unfold P.stmtListLoop
    dsimp only
    have hs : ∀ l ∈ s.lines, l ≤ M := fun l hm => hl l (by simp [Stmts.lines, hm])
    have hsp : s.pos.line ≤ M := hs _ (by cases s; simp [Stmt.lines, Stmt.pos])
    apply le_loop rest M _ false _ (fun l hm => hl l (by simp [Stmts.lines, hm]))
    exact le_stmt s M _ (le_stmtSep first _ h hsp) hs
end

/-! ## B. More summary steps: `(` `)` `{` `}`, and operators after `)` / `}` -/

theorem step_lparen (a : Sum) (h : ∀ l, a.last = some l → needsGap l = false ∧ l ≠ .op [40]) :
    a.step (.op [40]) = { last := some (.op [40]), sk := false, toks := a.toks ++ [.lparen], ok := a.ok } := by
  have key : ∀ l : Piece, needsGap l = false → l ≠ .op [40] → followOK l (some 40) = true := by
    intro l hn hne
    cases l with
    | word _ => simp [needsGap] at hn
    | gap _ => rfl
    | op b =>
      simp only [needsGap, Bool.or_eq_false_iff, beq_eq_false_iff_ne, ne_eq] at hn
      obtain ⟨⟨⟨h1, h2⟩, h3⟩, h4⟩ := hn
      have h5 : b ≠ [40] := fun e => hne (by rw [e])
      simp only [followOK, optAll, h4, h1, h2, h3, h5, or_self, ↓reduceIte]
      repeat' split
      all_goals first | rfl | decide
  simp only [Sum.step, pieceSk, pieceToks, Piece.shapeOK, Piece.first?, Piece.bytes, List.head?_cons,
    show opTok [40] = some ATok.lparen from by decide, Option.isSome_some, Bool.and_true]
  cases hl : a.last with
  | none => simp
  | some l => simp [key l (h l hl).1 (h l hl).2]

theorem step_rparen (a : Sum) (h : ∀ l, a.last = some l → l ≠ .op [40]) :
    a.step (.op [41]) = { last := some (.op [41]), sk := false, toks := a.toks ++ [.rparen], ok := a.ok } := by
  have key : ∀ l : Piece, l ≠ .op [40] → followOK l (some 41) = true := by
    intro l hne
    cases l with
    | word _ => rfl
    | gap _ => rfl
    | op b =>
      have h5 : b ≠ [40] := fun e => hne (by rw [e])
      simp only [followOK, optAll, h5, ↓reduceIte]
      repeat' split
      all_goals first | rfl | decide
  simp only [Sum.step, pieceSk, pieceToks, Piece.shapeOK, Piece.first?, Piece.bytes, List.head?_cons,
    show opTok [41] = some ATok.rparen from by decide, Option.isSome_some, Bool.and_true]
  cases hl : a.last with
  | none => simp
  | some l => simp [key l (h l hl)]

theorem step_lbrace (a : Sum) (h : ∀ l, a.last = some l → needsGap l = false) :
    a.step (.op [123]) = { last := some (.op [123]), sk := false, toks := a.toks ++ [.lbrace], ok := a.ok } := by
  have key : ∀ l : Piece, needsGap l = false → followOK l (some 123) = true := by
    intro l hn
    cases l with
    | word _ => simp [needsGap] at hn
    | gap _ => rfl
    | op b =>
      simp only [needsGap, Bool.or_eq_false_iff, beq_eq_false_iff_ne, ne_eq] at hn
      obtain ⟨⟨⟨h1, h2⟩, h3⟩, h4⟩ := hn
      simp only [followOK, optAll, h4, h1, h2, h3, or_self, ↓reduceIte]
      repeat' split
      all_goals first | rfl | decide
  simp only [Sum.step, pieceSk, pieceToks, Piece.shapeOK, Piece.first?, Piece.bytes, List.head?_cons,
    show opTok [123] = some ATok.lbrace from by decide, Option.isSome_some, Bool.and_true]
  cases hl : a.last with
  | none => simp
  | some l => simp [key l (h l hl)]

/-- `}` after layout or directly after `;` / `&` -/
theorem step_rbrace (a : Sum)
    (h : ∀ l, a.last = some l → (match l with | .gap _ => True | .op b => b = [59] ∨ b = [38] | .word _ => False)) :
    a.step (.op [125]) = { last := some (.op [125]), sk := false, toks := a.toks ++ [.rbrace], ok := a.ok } := by
  have key : ∀ l : Piece, (match l with | .gap _ => True | .op b => b = [59] ∨ b = [38] | .word _ => False) →
      followOK l (some 125) = true := by
    intro l hl
    cases l with
    | word _ => exact absurd hl (by simp)
    | gap _ => rfl
    | op b =>
      rcases hl with rfl | rfl <;> decide
  simp only [Sum.step, pieceSk, pieceToks, Piece.shapeOK, Piece.first?, Piece.bytes, List.head?_cons,
    show opTok [125] = some ATok.rbrace from by decide, Option.isSome_some, Bool.and_true]
  cases hl : a.last with
  | none => simp
  | some l => simp [key l (h l hl)]

/-- a piece that ends a command: a word, `)` or `}` -/
def Closed : Piece → Prop
  | .word _ => True
  | .op b => b = [41] ∨ b = [125]
  | .gap _ => False

/-- the last piece ends a command or is layout -/
def LastCG (p : P) : Prop := ∀ l, p.sum.last = some l → (match l with | .op b => b = [41] ∨ b = [125] | _ => True)

theorem LastCG.of_quiet {p q : P} (h : LastCG p) (hq : Quiet p q) : LastCG q := by
  intro l hl
  rcases hq.last with e | ⟨g, e⟩
  · exact h l (e ▸ hl)
  · rw [e] at hl; cases hl; trivial

theorem LastCG.of_closed {p : P} (h : ∃ l, p.sum.last = some l ∧ Closed l) : LastCG p := by
  intro l hl
  obtain ⟨l', e, hc⟩ := h
  rw [e] at hl; cases hl
  cases l with
  | word _ => trivial
  | op b => exact hc
  | gap _ => trivial

/-- `&&`, `||`, `|` after a word, `)`, `}` or layout -/
theorem step_binop' (a : Sum) (op : BinOp)
    (h : ∀ l, a.last = some l → (match l with | .op b => b = [41] ∨ b = [125] | _ => True)) :
    a.step (.op op.str) = { last := some (.op op.str), sk := false, toks := a.toks ++ [opA op], ok := a.ok } := by
  have key : ∀ l : Piece, (match l with | .op b => b = [41] ∨ b = [125] | _ => True) →
      followOK l (some 38) = true ∧ followOK l (some 124) = true := by
    intro l hl
    cases l with
    | word _ => exact ⟨rfl, rfl⟩
    | gap _ => exact ⟨rfl, rfl⟩
    | op x => rcases hl with rfl | rfl <;> exact ⟨by decide, by decide⟩
  cases op with
  | andStmt =>
    simp only [Sum.step, pieceSk, pieceToks, Piece.shapeOK, Piece.first?, Piece.bytes, BinOp.str, List.head?_cons,
      show opTok [38, 38] = some ATok.andAnd from by decide, Option.isSome_some, Bool.and_true, opA]
    cases hl : a.last with
    | none => simp
    | some l => simp [(key l (h l hl)).1]
  | orStmt =>
    simp only [Sum.step, pieceSk, pieceToks, Piece.shapeOK, Piece.first?, Piece.bytes, BinOp.str, List.head?_cons,
      show opTok [124, 124] = some ATok.orOr from by decide, Option.isSome_some, Bool.and_true, opA]
    cases hl : a.last with
    | none => simp
    | some l => simp [(key l (h l hl)).2]
  | pipe =>
    simp only [Sum.step, pieceSk, pieceToks, Piece.shapeOK, Piece.first?, Piece.bytes, BinOp.str, List.head?_cons,
      show opTok [124] = some ATok.pipe from by decide, Option.isSome_some, Bool.and_true, opA]
    cases hl : a.last with
    | none => simp
    | some l => simp [(key l (h l hl)).2]

/-! ## C. Printer segments around nested lists -/

/-- the last piece is not `(` -/
def NotLp (p : P) : Prop := p.sum.last ≠ some (.op [40])

theorem NotLp.of_quiet {p q : P} (h : NotLp p) (hq : Quiet p q) : NotLp q := by
  intro e
  rcases hq.last with e' | ⟨g, e'⟩
  · exact h (e' ▸ e)
  · rw [e'] at e; cases e

theorem NotLp.of_closed {p : P} (h : ∃ l, p.sum.last = some l ∧ Closed l) : NotLp p := by
  intro e
  obtain ⟨l, e', hc⟩ := h
  rw [e] at e'; cases e'
  rcases hc with hc | hc <;> cases hc

/-- what `newlines` establishes when it writes -/
structure NlOut (p p' : P) : Prop where
  toks : p'.sum.toks = p.sum.toks ++ (if p.sum.sk then [] else [.newl])
  w : W p'
  sk : p'.sum.sk = true
  o : p'.o = p.o
  must : p'.mustNewline = false
  first : p'.firstLine = false
  ws : p'.wantSpace ≠ .required
  last : ∃ g, p'.sum.last = some (.gap g)
  wsemi : p'.wroteSemi = p.wroteSemi

theorem NlOut.advance {p p' : P} (h : NlOut p p') (l : Nat) : NlOut p (p'.advanceLine l) :=
  ⟨h.toks, ⟨h.w.ok, h.w.gap⟩, h.sk, h.o, h.must, h.first, h.ws, h.last, h.wsemi⟩

/-- `newlines` once the first line is over -/
theorem newlines_gen (p : P) (hok : p.sum.ok = true) (hf : p.firstLine = false) (l : Nat) :
    (p.wantsNewline l false = false → p.newlines l = p) ∧
    (p.wantsNewline l false = true → NlOut p (p.newlines l)) := by
  constructor
  · intro h
    unfold P.newlines
    simp [hf, h]
  · intro hwn
    unfold P.newlines
    simp only [hf, Bool.false_eq_true, ↓reduceIte, hwn, Bool.not_true]
    let q1 : P := { (p.gapw [10]) with wantSpace := .written, wantNewline := false, mustNewline := false }
    have hs1 : q1.sum = p.sum.step (.gap [10]) := P.sum_push p _ _ rfl
    have hw1 : W q1 := ⟨by rw [hs1, step_nl]; exact hok, by
      intro x hx hn
      rw [hs1, step_nl] at hx
      simp only [Option.some.injEq] at hx
      subst hx
      simp [needsGap] at hn⟩
    have h2 : ∃ q2 : P, q2 = (if (decide (l > q1.line + 1) && !q1.o.minify) = true then q1.gapw [10] else q1) ∧
        q2.sum.toks = q1.sum.toks ∧ q2.sum.sk = true ∧ W q2 ∧ q2.o = p.o ∧ q2.mustNewline = false ∧
        q2.firstLine = false ∧ q2.wantSpace = .written ∧ (∃ g, q2.sum.last = some (.gap g)) ∧
        q2.wroteSemi = p.wroteSemi := by
      refine ⟨_, rfl, ?_⟩
      split
      · have hs2 : (q1.gapw [10]).sum = q1.sum.step (.gap [10]) := P.sum_push q1 _ _ rfl
        have hsk1 : q1.sum.sk = true := by rw [hs1, step_nl]
        refine ⟨by rw [hs2, step_nl, hsk1]; simp, by rw [hs2, step_nl], ⟨by rw [hs2, step_nl]; exact hw1.ok, ?_⟩, rfl, rfl, hf,
          rfl, ⟨[10], by rw [hs2, step_nl]⟩, rfl⟩
        intro x hx hn
        rw [hs2, step_nl] at hx
        simp only [Option.some.injEq] at hx
        subst hx
        simp [needsGap] at hn
      · exact ⟨rfl, by rw [hs1, step_nl], hw1, rfl, rfl, hf, rfl, ⟨[10], by rw [hs1, step_nl]⟩, rfl⟩
    obtain ⟨q2, hq2, t2, k2, w2, o2, m2, f2, ws2, l2, ws2'⟩ := h2
    show NlOut p ((if (decide (l > q1.line + 1) && !q1.o.minify) = true then q1.gapw [10] else q1).advanceLine l).indent
    rw [← hq2]
    have qa := Quiet.advanceLine w2 l
    obtain ⟨qi, hiw⟩ := Quiet.indent qa.w
    have q := qa.trans qi
    refine ⟨?_, q.w, by rw [q.sk, k2], by rw [q.same.o, o2], by rw [q.same.must, m2], by rw [q.same.first, f2], ?_, ?_,
      by rw [q.same.wsemi, ws2']⟩
    · rw [q.toks, t2, hs1, step_nl]
    · rw [hiw]
      show q2.wantSpace ≠ .required
      rw [ws2]; simp
    · rcases q.last with e | e
      · obtain ⟨g, hg⟩ := l2
        exact ⟨g, e.trans hg⟩
      · exact e

/-- the separator before the first statement of a list: the condition under which `newlines` runs -/
def P.sepCond (p : P) : Bool := p.mustNewline || !p.o.minify || decide (p.wantSpace = .required)

theorem stmtSep_first_eq (p : P) (l : Nat) :
    p.stmtSep true l = (if p.sepCond then p.newlines l else p).advanceLine l := by
  unfold P.stmtSep P.sepCond
  simp

/-- `( … )` up to and including the layout after `(` -/
structure OpenOut (p r : P) (lp : Pos) (s : Stmt) (restLen : Nat) : Prop where
  toks : r.sum.toks = p.sum.toks ++ [.lparen]
  w : W r
  o : r.o = p.o
  first : r.firstLine = p.firstLine
  sk : r.sum.sk = false
  wsemi : r.wroteSemi = p.wroteSemi
  line : r.line = max p.line lp.line
  must : p.mustNewline = false → r.mustNewline = true → r.o.minify = true
  notWord : ∀ l, r.sum.last = some l → needsGap l = false
  wnl : r.wantNewline = p.wantNewline
  opened : s.startsWithLparen = true → (∃ g, r.sum.last = some (.gap g)) ∨
    (r.o.singleLine = false ∧ (lp.line ≠ s.pos.line ∨ restLen > 0) ∧ (r.o.minify = true → r.mustNewline = true))

theorem spacePad_notLp (p : P) (_hw : W p) (hlp : p.sum.last = some (.op [40]) → p.wantSpace = .required) :
    NotLp p.spacePad := by
  unfold P.spacePad
  split
  · intro e
    have hsum : (P.sum { p.gapw [32] with wantSpace := .written }) = p.sum.step (.gap [32]) := P.sum_push p _ _ rfl
    rw [hsum, step_space] at e
    cases e
  · rename_i h
    intro e
    exact h (hlp e)

theorem subshellOpen_out (p : P) (hw : W p) (hlp : p.sum.last = some (.op [40]) → p.wantSpace = .required)
    (lp : Pos) (s : Stmt) (rest : Stmts) :
    OpenOut p ((p.advanceLine lp.line).spacePad.subshellOpen lp (.cons s rest)) lp s rest.length := by
  have qa := Quiet.advanceLine hw lp.line
  obtain ⟨qs, hqs⟩ := Quiet.spacePad qa.w
  have hnl : NotLp (p.advanceLine lp.line).spacePad := spacePad_notLp _ qa.w hlp
  have hfree := qs.w.free hqs
  let q0 : P := (p.advanceLine lp.line).spacePad
  let q1 : P := q0.tok [40]
  have hs1 : q1.sum = q0.sum.step (.op [40]) := P.sum_push q0 _ _ rfl
  have hst := step_lparen q0.sum (fun l hl => ⟨hfree l hl, fun e => hnl (by rw [hl, e])⟩)
  have hq0 := qa.trans qs
  have hline : q0.line = max p.line lp.line := by
    show (p.advanceLine lp.line).spacePad.line = _
    rw [line_spacePad]; rfl
  -- the state after `(` with any `wantSpace` and `mustNewline` that is not padded
  have hplain : ∀ (ws : WS) (mn : Bool), ws ≠ .required →
      ∀ r : P, r = ({ q1 with wantSpace := ws, mustNewline := mn } : P).spacePad →
      r.sum.toks = p.sum.toks ++ [.lparen] ∧ W r ∧ r.o = p.o ∧ r.firstLine = p.firstLine ∧ r.sum.sk = false ∧
      r.wroteSemi = p.wroteSemi ∧ r.line = max p.line lp.line ∧ r.mustNewline = mn ∧
      r.sum.last = some (.op [40]) ∧ r.wantNewline = p.wantNewline := by
    intro ws mn hws r hr
    have hsp : ({ q1 with wantSpace := ws, mustNewline := mn } : P).spacePad = { q1 with wantSpace := ws, mustNewline := mn } := by
      unfold P.spacePad
      rw [if_neg hws]
    rw [hsp] at hr
    subst hr
    have hsum : (P.sum { q1 with wantSpace := ws, mustNewline := mn }) = q0.sum.step (.op [40]) := hs1
    refine ⟨by rw [hsum, hst, hq0.toks], ⟨by rw [hsum, hst]; exact hq0.w.ok, ?_⟩, hq0.same.o, hq0.same.first,
      by rw [hsum, hst], hq0.same.wsemi, hline, rfl, by rw [hsum, hst], hq0.same.wnl⟩
    intro l hl hn
    rw [hsum, hst] at hl
    simp only [Option.some.injEq] at hl
    subst hl
    simp [needsGap] at hn
  unfold P.subshellOpen
  dsimp only
  cases hsl : s.startsWithLparen with
  | false =>
    simp only [Bool.false_eq_true, ↓reduceIte]
    obtain ⟨t, w, o, f, k, ws, ln, mn, la, wn⟩ := hplain .notRequired q1.mustNewline (by simp) _ rfl
    refine ⟨t, w, o, f, k, ws, ln, ?_, ?_, wn, fun h => by simp [hsl] at h⟩
    · intro hm hr
      rw [mn] at hr
      have : q1.mustNewline = p.mustNewline := hq0.same.must
      rw [this, hm] at hr
      cases hr
    · intro l hl
      rw [la] at hl
      cases hl
      rfl
  | true =>
    simp only [↓reduceIte]
    by_cases hc : ((decide (lp.line ≠ s.pos.line) || decide (rest.length > 0)) && !q1.o.singleLine) = true
    · have hc' : ((lp.line != s.pos.line || decide (rest.length > 0)) && !q1.o.singleLine) = true := by
        simpa [bne_iff_ne] using hc
      rw [if_pos hc']
      have ho1 : q1.o = p.o := hq0.same.o
      simp only [Bool.and_eq_true, Bool.or_eq_true, decide_eq_true_eq, Bool.not_eq_true'] at hc
      cases hmin : q1.o.minify with
      | true =>
        simp only [↓reduceIte]
        obtain ⟨t, w, o, f, k, ws, ln, mn, la, wn⟩ := hplain .notRequired true (by simp) _ rfl
        refine ⟨t, w, o, f, k, ws, ln, fun _ _ => by rw [o, ← ho1]; exact hmin, ?_, wn, fun _ => Or.inr ⟨?_, hc.1, fun _ => mn⟩⟩
        · intro l hl
          rw [la] at hl; cases hl; rfl
        · rw [o, ← ho1]; exact hc.2
      | false =>
        simp only [Bool.false_eq_true, ↓reduceIte]
        obtain ⟨t, w, o, f, k, ws, ln, mn, la, wn⟩ := hplain .notRequired q1.mustNewline (by simp) _ rfl
        refine ⟨t, w, o, f, k, ws, ln, ?_, ?_, wn, fun _ => Or.inr ⟨?_, hc.1, ?_⟩⟩
        · intro hm hr
          rw [mn] at hr
          have : q1.mustNewline = p.mustNewline := hq0.same.must
          rw [this, hm] at hr
          cases hr
        · intro l hl
          rw [la] at hl; cases hl; rfl
        · rw [o, ← ho1]; exact hc.2
        · intro h
          rw [o, ← ho1, hmin] at h
          cases h
    · have hc' : ¬ ((lp.line != s.pos.line || decide (rest.length > 0)) && !q1.o.singleLine) = true := by
        simpa [bne_iff_ne] using hc
      rw [if_neg hc']
      -- a blank after `(`
      let q2 : P := { q1 with wantSpace := .required }
      have hq2 : (P.sum q2) = q0.sum.step (.op [40]) := hs1
      have hpad : q2.spacePad = { q2.gapw [32] with wantSpace := .written } := by
        unfold P.spacePad
        rw [if_pos rfl]
      show OpenOut p q2.spacePad lp s rest.length
      rw [hpad]
      have hsum : (P.sum { q2.gapw [32] with wantSpace := .written }) = (q0.sum.step (.op [40])).step (.gap [32]) := by
        rw [← hq2]
        exact P.sum_push q2 _ _ rfl
      refine ⟨by rw [hsum, step_space, hst, hq0.toks], ⟨by rw [hsum, step_space, hst]; exact hq0.w.ok, ?_⟩, hq0.same.o,
        hq0.same.first, by rw [hsum, step_space, hst], hq0.same.wsemi, hline, ?_, ?_, hq0.same.wnl,
        fun _ => Or.inl ⟨[32], by rw [hsum, step_space]⟩⟩
      · intro l hl hn
        rw [hsum, step_space] at hl
        simp only [Option.some.injEq] at hl
        subst hl
        simp [needsGap] at hn
      · intro hm hr
        have : q1.mustNewline = p.mustNewline := hq0.same.must
        have hr' : q1.mustNewline = true := hr
        rw [this, hm] at hr'
        cases hr'
      · intro l hl
        rw [hsum, step_space] at hl
        simp only [Option.some.injEq] at hl
        subst hl
        rfl

/-- fields a step leaves alone (everything the token bookkeeping reads, except `wantNewline`) -/
structure Flds (p q : P) : Prop where
  out : q.out = p.out
  ws : q.wantSpace = p.wantSpace
  o : q.o = p.o
  wsemi : q.wroteSemi = p.wroteSemi
  first : q.firstLine = p.firstLine
  must : q.mustNewline = p.mustNewline
  line : q.line = p.line

theorem Flds.rfl' (p : P) : Flds p p := ⟨rfl, rfl, rfl, rfl, rfl, rfl, rfl⟩
theorem Flds.trans {a b c : P} (h1 : Flds a b) (h2 : Flds b c) : Flds a c :=
  ⟨h2.out.trans h1.out, h2.ws.trans h1.ws, h2.o.trans h1.o, h2.wsemi.trans h1.wsemi, h2.first.trans h1.first,
    h2.must.trans h1.must, h2.line.trans h1.line⟩
theorem Flds.sum {p q : P} (h : Flds p q) : q.sum = p.sum := P.sum_same _ _ h.out
theorem Flds.w {p q : P} (h : Flds p q) (hw : W p) : W q :=
  ⟨by rw [h.sum]; exact hw.ok, by rw [h.sum, h.ws]; exact hw.gap⟩

theorem Flds.incLevel (p : P) : Flds p p.incLevel := by
  unfold P.incLevel
  (repeat' split) <;> exact ⟨rfl, rfl, rfl, rfl, rfl, rfl, rfl⟩

theorem Flds.decLevel (p : P) (h : p.levelIncs ≠ []) : Flds p p.decLevel := by
  unfold P.decLevel
  split
  · rename_i e; exact absurd e h
  · exact ⟨rfl, rfl, rfl, rfl, rfl, rfl, rfl⟩

/-- `decLevel` apart from the panic flag -/
theorem Flds.decLevel' (p : P) : Flds p p.decLevel := by
  unfold P.decLevel
  split <;> exact ⟨rfl, rfl, rfl, rfl, rfl, rfl, rfl⟩

/-- the state in which `nestedStmts` starts its statement loop -/
def P.nestedStart (p : P) (ss : Stmts) (closing : Pos) : P :=
  if ss.length > 1 then { p.incLevel with wantNewline := true }
  else if closing.line > p.incLevel.line && ss.length > 0 && ss.endLine < closing.line then
    { p.incLevel with wantNewline := true }
  else p.incLevel

theorem nestedStmtsWith_eq (p : P) (ss : Stmts) (closing : Pos) (loop : P → P) :
    p.nestedStmtsWith ss closing loop = ((p.nestedStart ss closing).stmtListWith ss loop).decLevel := rfl

theorem nestedStart_flds (p : P) (ss : Stmts) (closing : Pos) :
    Flds p (p.nestedStart ss closing) ∧ (ss.length > 1 → (p.nestedStart ss closing).wantNewline = true) ∧
      (p.wantNewline = true → (p.nestedStart ss closing).wantNewline = true) := by
  have hi := Flds.incLevel p
  have hwn : p.incLevel.wantNewline = p.wantNewline := by
    unfold P.incLevel
    (repeat' split) <;> rfl
  unfold P.nestedStart
  split
  · exact ⟨⟨hi.out, hi.ws, hi.o, hi.wsemi, hi.first, hi.must, hi.line⟩, fun _ => rfl, fun _ => rfl⟩
  · rename_i h1
    split
    · exact ⟨⟨hi.out, hi.ws, hi.o, hi.wsemi, hi.first, hi.must, hi.line⟩, fun _ => rfl, fun _ => rfl⟩
    · exact ⟨hi, fun h => absurd h h1, fun h => by rw [hwn]; exact h⟩

theorem stmtListWith_flds (q : P) (ss : Stmts) (loop : P → P) : Flds (loop q) (q.stmtListWith ss loop) := by
  unfold P.stmtListWith
  dsimp only
  (repeat' split) <;> exact ⟨rfl, rfl, rfl, rfl, rfl, rfl, rfl⟩

/-- `nestedStmts` is its statement loop as far as the written pieces and the flags we track go -/
theorem nested_flds (p : P) (ss : Stmts) (closing : Pos) (loop : P → P) :
    Flds (loop (p.nestedStart ss closing)) (p.nestedStmtsWith ss closing loop) := by
  rw [nestedStmtsWith_eq]
  exact (stmtListWith_flds _ ss loop).trans (Flds.decLevel' _)

/-- a blank (or none) before a closing token, whatever `wantSpace` is set to -/
structure PadOut (p q : P) : Prop where
  ok : q.sum.ok = true
  toks : q.sum.toks = p.sum.toks
  sk : q.sum.sk = p.sum.sk
  last : q.sum.last = p.sum.last ∨ ∃ g, q.sum.last = some (.gap g)
  o : q.o = p.o
  first : q.firstLine = p.firstLine
  must : q.mustNewline = p.mustNewline
  wsemi : q.wroteSemi = p.wroteSemi
  wnl : q.wantNewline = p.wantNewline
  line : q.line = p.line

theorem pad_any (p : P) (hok : p.sum.ok = true) (ws : WS) : PadOut p ({ p with wantSpace := ws } : P).spacePad := by
  unfold P.spacePad
  split
  · have hsum : (P.sum { (P.gapw { p with wantSpace := ws } [32]) with wantSpace := .written }) = p.sum.step (.gap [32]) :=
      P.sum_push p _ _ rfl
    exact ⟨by rw [hsum, step_space]; exact hok, by rw [hsum, step_space], by rw [hsum, step_space],
      Or.inr ⟨[32], by rw [hsum, step_space]⟩, rfl, rfl, rfl, rfl, rfl, rfl⟩
  · exact ⟨hok, rfl, rfl, Or.inl rfl, rfl, rfl, rfl, rfl, rfl, rfl⟩

theorem PadOut.notLp {p q : P} (h : PadOut p q) (hn : NotLp p) : NotLp q := by
  intro e
  rcases h.last with e' | ⟨g, e'⟩
  · exact hn (e' ▸ e)
  · rw [e'] at e; cases e

/-- what writing a closing token (`)` or `}`) with its layout establishes -/
structure CloseOut (p r : P) (ts : List ATok) (lastB : Bytes) : Prop where
  toks : r.sum.toks = p.sum.toks ++ ts
  w : W r
  ws : r.wantSpace = .required
  sk : r.sum.sk = false
  last : r.sum.last = some (.op lastB)
  o : r.o = p.o
  first : r.firstLine = false
  must : p.mustNewline = false → r.mustNewline = false

theorem closingParenSpace_eq (p : P) (ss : Stmts) (a b : Nat) :
    ∃ ws : WS, p.closingParenSpace ss a b = ({ p with wantSpace := ws } : P).spacePad := by
  unfold P.closingParenSpace
  dsimp only
  cases ss with
  | nil =>
    simp only [Bool.false_and, Bool.false_eq_true, ↓reduceIte]
    exact ⟨_, rfl⟩
  | cons s r =>
    cases r with
    | nil =>
      dsimp only
      split
      · exact ⟨.required, rfl⟩
      · exact ⟨_, rfl⟩
    | cons s2 r2 =>
      simp only [Bool.false_and, Bool.false_eq_true, ↓reduceIte]
      exact ⟨_, rfl⟩

/-- `closingParen`: the optional blank, the optional newline and `)` -/
theorem closeParen_out (p : P) (hw : W p) (hf : p.firstLine = false) (hsk : p.sum.sk = false) (hnl : NotLp p)
    (ss : Stmts) (a b rl : Nat) :
    ∃ nl : Bool, CloseOut p ((p.closingParenSpace ss a b).rightParen rl) (nlT nl ++ [.rparen]) [41] := by
  obtain ⟨ws, hws⟩ := closingParenSpace_eq p ss a b
  rw [hws]
  have hp := pad_any p hw.ok ws
  have hqn := hp.notLp hnl
  obtain ⟨q, hq⟩ : ∃ q : P, q = ({ p with wantSpace := ws } : P).spacePad := ⟨_, rfl⟩
  rw [← hq] at hp hqn ⊢
  unfold P.rightParen
  dsimp only
  have hqf : q.firstLine = false := by rw [hp.first]; exact hf
  obtain ⟨n0, n1⟩ := newlines_gen q hp.ok hqf rl
  -- `)` written directly after `q`
  have hdirect : ∀ r : P, r = ({ (q.tok [41]) with wantSpace := .required } : P) →
      CloseOut p r (nlT false ++ [.rparen]) [41] := by
    intro r hr
    subst hr
    have hsum : (P.sum { (q.tok [41]) with wantSpace := .required }) = q.sum.step (.op [41]) := P.sum_push q _ _ rfl
    have hst := step_rparen q.sum (fun l hl e => hqn (by rw [hl, e]))
    exact ⟨by rw [hsum, hst, hp.toks]; rfl, ⟨by rw [hsum, hst]; exact hp.ok, fun _ _ _ => rfl⟩, rfl, by rw [hsum, hst],
      by rw [hsum, hst], hp.o, hqf, fun h => by show q.mustNewline = false; rw [hp.must]; exact h⟩
  cases hmin : q.o.minify with
  | true =>
    simp only [Bool.not_true, Bool.false_eq_true, ↓reduceIte]
    exact ⟨false, hdirect _ rfl⟩
  | false =>
    simp only [Bool.not_false, ↓reduceIte]
    cases hwn : q.wantsNewline rl false with
    | false =>
      rw [n0 hwn]
      exact ⟨false, hdirect _ rfl⟩
    | true =>
      have hn := n1 hwn
      refine ⟨true, ?_⟩
      have hsum : (P.sum { ((q.newlines rl).tok [41]) with wantSpace := .required }) = (q.newlines rl).sum.step (.op [41]) :=
        P.sum_push _ _ _ rfl
      have hst := step_rparen (q.newlines rl).sum (fun l hl e => by
        obtain ⟨g, hg⟩ := hn.last
        rw [hg] at hl; cases hl; cases e)
      refine ⟨?_, ⟨by rw [hsum, hst]; exact hn.w.ok, fun _ _ _ => rfl⟩, rfl, by rw [hsum, hst], by rw [hsum, hst],
        hn.o.trans hp.o, hn.first, fun _ => hn.must⟩
      rw [hsum, hst, hn.toks, hp.sk, hsk, hp.toks]
      simp [nlT]

/-- `}` with the optional blank before it, directly after `;` / `&` -/
theorem brace_after (q : P) (hok : q.sum.ok = true) (hqws : q.wantSpace = .required)
    (hlast : q.sum.last = some (.op [59]) ∨ q.sum.last = some (.op [38])) :
    let r : P := { ((if (!q.o.minify) = true then q.spacePad else q).tok [125]) with wantSpace := .required }
    r.sum.toks = q.sum.toks ++ [.rbrace] ∧ r.sum.ok = true ∧ r.sum.sk = false ∧ r.sum.last = some (.op [125]) ∧
      r.o = q.o ∧ r.firstLine = q.firstLine ∧ r.mustNewline = q.mustNewline := by
  intro r
  cases hmin : q.o.minify with
  | true =>
    have hr : r = { (q.tok [125]) with wantSpace := .required } := by
      show ({ ((if (!q.o.minify) = true then q.spacePad else q).tok [125]) with wantSpace := .required } : P) = _
      simp [hmin]
    have hsum : r.sum = q.sum.step (.op [125]) := by rw [hr]; exact P.sum_push q _ _ rfl
    have hst := step_rbrace q.sum (fun l hl => by
      rcases hlast with e | e <;> (rw [e] at hl; cases hl; simp))
    refine ⟨by rw [hsum, hst], by rw [hsum, hst]; exact hok, by rw [hsum, hst], by rw [hsum, hst], ?_, ?_, ?_⟩ <;>
      (rw [hr]; rfl)
  | false =>
    have hpad : q.spacePad = { q.gapw [32] with wantSpace := .written } := by
      unfold P.spacePad
      rw [if_pos hqws]
    have hr : r = { (({ q.gapw [32] with wantSpace := .written } : P).tok [125]) with wantSpace := .required } := by
      show ({ ((if (!q.o.minify) = true then q.spacePad else q).tok [125]) with wantSpace := .required } : P) = _
      simp [hmin, hpad]
    have hs1 : (P.sum { q.gapw [32] with wantSpace := .written }) = q.sum.step (.gap [32]) := P.sum_push q _ _ rfl
    have hsum : r.sum = (q.sum.step (.gap [32])).step (.op [125]) := by
      rw [hr, ← hs1]
      exact P.sum_push _ _ _ rfl
    have hst := step_rbrace (q.sum.step (.gap [32])) (fun l hl => by
      rw [step_space] at hl
      cases hl
      trivial)
    refine ⟨by rw [hsum, hst, step_space], by rw [hsum, hst, step_space]; exact hok, by rw [hsum, hst], by rw [hsum, hst],
      ?_, ?_, ?_⟩ <;> (rw [hr]; rfl)

/-- `semiRsrv("}")` after a non-empty list -/
theorem closeBrace_out (p : P) (hw : W p) (hws : p.wantSpace = .required) (hf : p.firstLine = false)
    (hsk : p.sum.sk = false)
    (hl0 : p.wroteSemi = false → ∃ l, p.sum.last = some l ∧ Closed l)
    (hl1 : p.wroteSemi = true → p.sum.last = some (.op [59]) ∨ p.sum.last = some (.op [38]))
    (rl : Nat) :
    ∃ mid : List ATok, CloseOut p (p.semiRsrv [125] rl) (mid ++ [.rbrace]) [125] ∧
      (mid = [.newl] ∨ (mid = [.semi] ∧ p.wroteSemi = false) ∨ (mid = [] ∧ p.wroteSemi = true)) := by
  obtain ⟨n0, n1⟩ := newlines_gen p hw.ok hf rl
  unfold P.semiRsrv
  dsimp only
  cases hwn : p.wantsNewline rl false with
  | true =>
    simp only [↓reduceIte]
    have hn := n1 hwn
    have hsum : (P.sum { ((p.newlines rl).tok [125]) with wantSpace := .required }) = (p.newlines rl).sum.step (.op [125]) :=
      P.sum_push _ _ _ rfl
    have hst := step_rbrace (p.newlines rl).sum (fun l hl => by
      obtain ⟨g, hg⟩ := hn.last
      rw [hg] at hl; cases hl; trivial)
    refine ⟨[.newl], ⟨?_, ⟨by rw [hsum, hst]; exact hn.w.ok, fun _ _ _ => rfl⟩, rfl, by rw [hsum, hst], by rw [hsum, hst],
      hn.o, hn.first, fun _ => hn.must⟩, Or.inl rfl⟩
    rw [hsum, hst, hn.toks, hsk]
    simp
  | false =>
    simp only [Bool.false_eq_true, ↓reduceIte]
    cases hwsemi : p.wroteSemi with
    | false =>
      simp only [Bool.not_false, ↓reduceIte]
      obtain ⟨l, hl, hc⟩ := hl0 hwsemi
      have hs1 : (p.tok [59]).sum = p.sum.step (.op [59]) := P.sum_push p _ _ rfl
      have hst1 := step_term p.sum [59] (Or.inl rfl) (fun x hx => by
        rw [hl] at hx; cases hx
        cases l with
        | word _ => trivial
        | gap _ => trivial
        | op y => rcases hc with rfl | rfl <;> decide)
      have hb := brace_after (p.tok [59]) (by rw [hs1, hst1]; exact hw.ok) hws (Or.inl (by rw [hs1, hst1]))
      obtain ⟨b1, b2, b3, b4, b5, b6, b7⟩ := hb
      refine ⟨[.semi], ⟨?_, ⟨b2, fun _ _ _ => rfl⟩, rfl, b3, b4, b5, by rw [b6]; exact hf, fun h => by rw [b7]; exact h⟩,
        by simp⟩
      rw [b1, hs1, hst1]
      simp
    | true =>
      simp only [Bool.not_true, Bool.false_eq_true, ↓reduceIte]
      have hb := brace_after p hw.ok hws (hl1 hwsemi)
      obtain ⟨b1, b2, b3, b4, b5, b6, b7⟩ := hb
      refine ⟨[], ⟨by rw [b1]; simp, ⟨b2, fun _ _ _ => rfl⟩, rfl, b3, b4, b5, by rw [b6]; exact hf,
        fun h => by rw [b7]; exact h⟩, by simp⟩

/-- `{` with the flags the block case sets -/
structure BOpenOut (p r : P) (lb : Pos) : Prop where
  toks : r.sum.toks = p.sum.toks ++ [.lbrace]
  w : W r
  o : r.o = p.o
  first : r.firstLine = p.firstLine
  sk : r.sum.sk = false
  line : r.line = max p.line lb.line
  must : r.mustNewline = p.mustNewline
  ws : r.wantSpace = .required
  last : r.sum.last = some (.op [123])

theorem blockOpen_out (p : P) (hw : W p) (lb : Pos) (wn : Bool) :
    BOpenOut p { ((p.advanceLine lb.line).spacePad.tok [123]) with wroteSemi := true, wantSpace := .required, wantNewline := wn } lb := by
  have qa := Quiet.advanceLine hw lb.line
  obtain ⟨qs, hqs⟩ := Quiet.spacePad qa.w
  have hfree := qs.w.free hqs
  have hq0 := qa.trans qs
  have hsum : (P.sum { ((p.advanceLine lb.line).spacePad.tok [123]) with wroteSemi := true, wantSpace := .required, wantNewline := wn }) =
      (p.advanceLine lb.line).spacePad.sum.step (.op [123]) := P.sum_push _ _ _ rfl
  have hst := step_lbrace (p.advanceLine lb.line).spacePad.sum hfree
  refine ⟨by rw [hsum, hst, hq0.toks], ⟨by rw [hsum, hst]; exact hq0.w.ok, fun _ _ _ => rfl⟩, hq0.same.o, hq0.same.first,
    by rw [hsum, hst], ?_, hq0.same.must, rfl, by rw [hsum, hst]⟩
  show (p.advanceLine lb.line).spacePad.line = _
  rw [line_spacePad]; rfl

/-- the state after a command: a word, `)` or `}` was written last -/
structure AfterCmd (p : P) : Prop where
  ws : p.wantSpace = .required
  sk : p.sum.sk = false
  last : ∃ l, p.sum.last = some l ∧ Closed l

theorem AfterWord.toCmd {p : P} (h : AfterWord p) : AfterCmd p :=
  ⟨h.ws, h.sk, by obtain ⟨parts, e⟩ := h.last; exact ⟨_, e, trivial⟩⟩

/-- the terminator `stmtEnd` writes, if any, after any command -/
theorem stmtEnd_gen (p : P) (hw : W p) (ha : AfterCmd p) (semi : Pos) (bg : Bool) :
    ∃ term : Term, (p.stmtEnd semi bg).sum.toks = p.sum.toks ++ term.toks ∧ W (p.stmtEnd semi bg) ∧
      Same' p (p.stmtEnd semi bg) ∧ (p.stmtEnd semi bg).wantSpace = .required ∧ (p.stmtEnd semi bg).sum.sk = false ∧
      (p.stmtEnd semi bg).wroteSemi = (term != .none) ∧ (bg = true → term = .amp) ∧ (bg = false → term ≠ .amp) ∧
      (p.o.singleLine = true → bg = false → term = .none) ∧
      (term = .none → ∃ l, (p.stmtEnd semi bg).sum.last = some l ∧ Closed l) ∧
      (semi.valid = false → bg = false → term = .none) ∧
      (term ≠ .none → (p.stmtEnd semi bg).sum.last = some (.op [59]) ∨ (p.stmtEnd semi bg).sum.last = some (.op [38])) := by
  have hisum : p.incLevel.sum = p.sum := (Flds.incLevel p).sum
  obtain ⟨hi, hiw⟩ := Quiet.incLevel hw
  obtain ⟨l0, hl0, hc0⟩ := ha.last
  unfold P.stmtEnd
  dsimp only
  by_cases hc : (semi.valid && decide (semi.line > p.incLevel.line) && !p.incLevel.o.singleLine || bg) = true
  · rw [if_pos hc]
    have h2 : ∃ q : P, q = (if (semi.valid && decide (semi.line > p.incLevel.line) && !p.incLevel.o.singleLine) = true
          then p.incLevel.bslashNewl else if (!p.incLevel.o.minify) = true then p.incLevel.space else p.incLevel) ∧
        Quiet p.incLevel q := by
      refine ⟨_, rfl, ?_⟩
      split
      · exact (Quiet.bslashNewl hi.w).1
      · split
        · exact (Quiet.space hi.w).1
        · exact Quiet.rfl' hi.w
    obtain ⟨q, hq, hqq⟩ := h2
    rw [← hq]
    have hqlast : ∀ l, q.sum.last = some l →
        (match l with | .op x => x ≠ [59] ∧ x ≠ [38] ∧ x ≠ [124] ∧ x ≠ [40] | _ => True) := by
      intro l hl
      rcases hqq.last with h | ⟨g, h⟩
      · rw [h, hisum, hl0] at hl
        cases hl
        cases l0 with
        | word _ => trivial
        | gap _ => trivial
        | op x => rcases hc0 with rfl | rfl <;> decide
      · rw [h] at hl; cases hl; trivial
    let b : Bytes := if bg then [38] else [59]
    have hb : b = [59] ∨ b = [38] := by cases bg <;> simp [b]
    let q2 : P := { (q.tok b) with wroteSemi := true, wantSpace := .required }
    have hsum2 : q2.sum = q.sum.step (.op b) := P.sum_push q _ _ rfl
    have hst := step_term q.sum b hb hqlast
    have hw2 : W q2 := ⟨by rw [hsum2, hst]; exact hqq.w.ok, fun _ _ _ => rfl⟩
    obtain ⟨hd, hdw⟩ := Quiet.decLevel hw2
    have hdsum : q2.decLevel.sum = q2.sum := (Flds.decLevel' q2).sum
    have hgoal : (if bg = true then P.tok q [38] else P.tok q [59]) = q.tok b := by cases bg <;> rfl
    rw [hgoal]
    have hsame : Same' p q2.decLevel := by
      have s1 := hi.same.weak.trans hqq.same.weak
      exact s1.trans ((⟨rfl, rfl, rfl, rfl⟩ : Same' q q2).trans hd.same.weak)
    refine ⟨if bg then .amp else .semi, ?_, hd.w, hsame, by rw [hdw], ?_, ?_, ?_, ?_, ?_, ?_, ?_, ?_⟩
    · rw [hd.toks, hsum2, hst, hqq.toks, hi.toks]
      cases bg <;> simp [b, Term.toks]
    · rw [hd.sk, hsum2, hst]
    · rw [hd.same.wsemi]
      cases bg <;> rfl
    · intro h; simp [h]
    · intro h; simp [h]
    · intro hsl hbg
      subst hbg
      have ho : p.incLevel.o = p.o := hi.same.o
      simp [ho, hsl] at hc
    · intro h
      cases bg <;> simp at h
    · intro hsv hbg
      subst hbg
      simp [hsv] at hc
    · intro _
      show q2.decLevel.sum.last = _ ∨ q2.decLevel.sum.last = _
      rw [hdsum, hsum2, hst]
      rcases hb with e | e
      · exact Or.inl (by rw [e])
      · exact Or.inr (by rw [e])
  · rw [if_neg hc]
    have hbg : bg = false := by
      cases bg with
      | false => rfl
      | true => simp at hc
    let q0 : P := { p.incLevel with wroteSemi := false }
    have hw0 : W q0 := ⟨hi.w.ok, hi.w.gap⟩
    have hs0 : q0.sum = p.incLevel.sum := P.sum_same _ _ rfl
    obtain ⟨hd, hdw⟩ := Quiet.decLevel hw0
    show ∃ term : Term, q0.decLevel.sum.toks = p.sum.toks ++ term.toks ∧ W q0.decLevel ∧
      Same' p q0.decLevel ∧ q0.decLevel.wantSpace = .required ∧ q0.decLevel.sum.sk = false ∧
      q0.decLevel.wroteSemi = (term != .none) ∧ (bg = true → term = .amp) ∧ (bg = false → term ≠ .amp) ∧
      (p.o.singleLine = true → bg = false → term = .none) ∧
      (term = .none → ∃ l, q0.decLevel.sum.last = some l ∧ Closed l) ∧
      (semi.valid = false → bg = false → term = .none) ∧
      (term ≠ .none → q0.decLevel.sum.last = some (.op [59]) ∨ q0.decLevel.sum.last = some (.op [38]))
    have hsame : Same' p q0.decLevel :=
      (hi.same.weak.trans (⟨rfl, rfl, rfl, rfl⟩ : Same' p.incLevel q0)).trans hd.same.weak
    refine ⟨.none, by rw [hd.toks, hs0, hi.toks]; simp [Term.toks], hd.w, hsame,
      by rw [hdw]; exact hiw.trans ha.ws,
      by rw [hd.sk, hs0, hi.sk]; exact ha.sk, by rw [hd.same.wsemi]; rfl, ?_, ?_, fun _ _ => rfl, fun _ => ?_,
      fun _ _ => rfl, fun h => absurd rfl h⟩
    · intro h; rw [hbg] at h; cases h
    · intro _; simp
    have e1 : q0.decLevel.sum = q0.sum := (Flds.decLevel' q0).sum
    exact ⟨l0, by rw [e1, hs0, hisum]; exact hl0, hc0⟩

/-- `p.spacedToken(op)` after a command -/
theorem Adv.spacedToken' (p : P) (hw : W p) (hl : LastCG p) (op : BinOp) :
    Adv p (p.spacedToken op.str) [opA op] ∧ (p.spacedToken op.str).sum.sk = false ∧
      (p.spacedToken op.str).sum.last = some (.op op.str) := by
  unfold P.spacedToken
  split
  · let q : P := { (p.tok op.str) with wantSpace := .notRequired }
    have hs : q.sum = p.sum.step (.op op.str) := P.sum_push p _ _ rfl
    have hst := step_binop' p.sum op hl
    refine ⟨⟨rfl, fun h => h, rfl, by show q.sum.toks = _; rw [hs, hst], ⟨by show q.sum.ok = true; rw [hs, hst]; exact hw.ok, ?_⟩⟩,
      by show q.sum.sk = false; rw [hs, hst], by show q.sum.last = _; rw [hs, hst]⟩
    intro l hl' hn
    have : q.sum.last = some l := hl'
    rw [hs, hst] at this
    simp only [Option.some.injEq] at this
    subst this
    rw [needsGap_binop] at hn
    cases hn
  · obtain ⟨hq, _⟩ := Quiet.spacePad hw
    have hl2 := hl.of_quiet hq
    let q : P := { (p.spacePad.tok op.str) with wantSpace := .required }
    have hs : q.sum = p.spacePad.sum.step (.op op.str) := P.sum_push _ _ _ rfl
    have hst := step_binop' p.spacePad.sum op hl2
    refine ⟨⟨hq.same.o, fun h => by show p.spacePad.mustNewline = false; rw [hq.same.must]; exact h, hq.same.first,
      by show q.sum.toks = _; rw [hs, hst, hq.toks], ⟨by show q.sum.ok = true; rw [hs, hst]; exact hq.w.ok, fun _ _ _ => rfl⟩⟩,
      by show q.sum.sk = false; rw [hs, hst], by show q.sum.last = _; rw [hs, hst]⟩

theorem newline_last (p : P) (l : Nat) : (p.newline l).sum.last = some (.gap [10]) := by
  have hs : (p.newline l).sum = p.sum.step (.gap [10]) := P.sum_push p _ _ rfl
  rw [hs, step_nl]

theorem binop_notLp (op : BinOp) {q : P} (h : q.sum.last = some (.op op.str)) : NotLp q := by
  intro e
  rw [h] at e
  cases op <;> cases e

/-- the operator of a binary command with the layout around it, after any command -/
theorem Adv.binaryOp' (p : P) (hw : W p) (hl : LastCG p) (opPos : Pos) (op : BinOp) (yl : Nat) (yb : Bool) :
    ∃ nl : Bool, Adv p (p.binaryOp opPos op yl yb).1 (opA op :: nlT nl) ∧ (p.binaryOp opPos op yl yb).1.sum.sk = nl ∧
      NotLp (p.binaryOp opPos op yl yb).1 := by
  unfold P.binaryOp
  split
  · obtain ⟨h1, h2, h3⟩ := Adv.spacedToken' p hw hl op
    have qa := Quiet.advanceLine h1.w yl
    exact ⟨false, by simpa [nlT] using h1.trans (Adv.of_quiet qa), by rw [qa.sk, h2], (binop_notLp op h3).of_quiet qa⟩
  · dsimp only
    have h0 : ∃ q : P, q = (if (!p.nestedBinary) = true then p.incLevel else p) ∧ Quiet p q := by
      refine ⟨_, rfl, ?_⟩
      split
      · exact (Quiet.incLevel hw).1
      · exact Quiet.rfl' hw
    obtain ⟨q, hq, hqq⟩ := h0
    rw [← hq]
    have hlq := hl.of_quiet hqq
    split
    · obtain ⟨hb, _⟩ := Quiet.bslashNewl hqq.w
      obtain ⟨h1, h2, h3⟩ := Adv.spacedToken' q.bslashNewl hb.w (hlq.of_quiet hb) op
      have qa := Quiet.advanceLine h1.w yl
      have hfin : Quiet (q.bslashNewl.spacedToken op.str |>.advanceLine yl)
          { (q.bslashNewl.spacedToken op.str |>.advanceLine yl) with nestedBinary := yb } :=
        Quiet.of_out qa.w rfl ⟨rfl, rfl, rfl, rfl, rfl⟩ rfl
      refine ⟨false, ?_, ?_, ?_⟩
      · have := ((Adv.of_quiet (hqq.trans hb)).trans h1).trans (Adv.of_quiet (qa.trans hfin))
        simpa [nlT] using this
      · show (P.sum { (q.bslashNewl.spacedToken op.str |>.advanceLine yl) with nestedBinary := yb }).sk = false
        rw [hfin.sk, qa.sk, h2]
      · exact (binop_notLp op h3).of_quiet (qa.trans hfin)
    · obtain ⟨h1, h2, h3⟩ := Adv.spacedToken' q hqq.w hlq op
      have qa := Quiet.advanceLine h1.w opPos.line
      obtain ⟨hn, hnsk⟩ := Adv.newline _ qa.w 0
      obtain ⟨hi, _⟩ := Quiet.indent hn.w
      have qb := Quiet.advanceLine hi.w yl
      have hfin : Quiet ((((q.spacedToken op.str).advanceLine opPos.line).newline 0).indent.advanceLine yl)
          { ((((q.spacedToken op.str).advanceLine opPos.line).newline 0).indent.advanceLine yl) with nestedBinary := yb } :=
        Quiet.of_out qb.w rfl ⟨rfl, rfl, rfl, rfl, rfl⟩ rfl
      refine ⟨true, ?_, ?_, ?_⟩
      · have hskq : ((q.spacedToken op.str).advanceLine opPos.line).sum.sk = false := by rw [qa.sk, h2]
        rw [hskq] at hn
        have := (((Adv.of_quiet hqq).trans h1).trans (Adv.of_quiet qa)).trans
          (hn.trans (Adv.of_quiet (hi.trans (qb.trans hfin))))
        simpa [nlT] using this
      · show (P.sum { ((((q.spacedToken op.str).advanceLine opPos.line).newline 0).indent.advanceLine yl) with nestedBinary := yb }).sk = true
        rw [hfin.sk, qb.sk, hi.sk, hnsk]
      · -- a newline was written after the operator
        intro e
        have hlastnl := newline_last ((q.spacedToken op.str).advanceLine opPos.line) 0
        have hq3 := hi.trans (qb.trans hfin)
        rcases hq3.last with e' | ⟨g, e'⟩
        · rw [e', hlastnl] at e; cases e
        · rw [e'] at e; cases e

/-! ## D. Statements, commands and lists in general -/

def LStmts.finalTerm : LStmts → Term
  | .one s _ => s.term
  | .cons _ _ r => r.finalTerm

/-- the layout with `;` after its last statement -/
def LStmts.withFinalSemi : LStmts → LStmts
  | .one s nl => .one (s.withTerm .semi) nl
  | .cons s nl r => .cons s nl r.withFinalSemi

theorem LStmts.withFinalSemi_facts : ∀ (lt : LStmts), lt.finalTerm = .none → lt.finalNl = false →
    lt.withFinalSemi.toks = lt.toks ++ [.semi] ∧ lt.withFinalSemi.valid = lt.valid ∧
    lt.withFinalSemi.norm = lt.norm ∧ lt.withFinalSemi.closable = true
  | .one s nl, ht, hn => by
    simp only [LStmts.finalNl] at hn
    subst hn
    obtain ⟨a1, a2, a3, a4⟩ := LStmt.withTerm_semi s ht
    refine ⟨by simp [LStmts.withFinalSemi, LStmts.toks, nlT, a1], by simp [LStmts.withFinalSemi, LStmts.valid, a2],
      by simp [LStmts.withFinalSemi, LStmts.norm, a3], ?_⟩
    obtain ⟨n, c, t⟩ := s
    simp [LStmts.withFinalSemi, LStmts.closable, LStmt.withTerm, LStmt.endsInWord]
  | .cons s nl r, ht, hn => by
    obtain ⟨h1, h2, h3, h4⟩ := LStmts.withFinalSemi_facts r (by simpa [LStmts.finalTerm] using ht)
      (by simpa [LStmts.finalNl] using hn)
    simp [LStmts.withFinalSemi, LStmts.toks, LStmts.valid, LStmts.norm, LStmts.closable, h1, h2, h3, h4,
      List.append_assoc]

theorem LStmts.withFinalNl_closable : ∀ (lt : LStmts), lt.withFinalNl.closable = true
  | .one s nl => by simp [LStmts.withFinalNl, LStmts.closable]
  | .cons s nl r => by simpa [LStmts.withFinalNl, LStmts.closable] using LStmts.withFinalNl_closable r

theorem LStmts.closable_of_term : ∀ (lt : LStmts), lt.finalTerm ≠ .none → lt.closable = true
  | .one s nl, h => by
    obtain ⟨n, c, t⟩ := s
    simp only [LStmts.finalTerm, LStmt.term] at h
    cases t <;> simp [LStmts.closable, LStmt.endsInWord] at h ⊢
  | .cons s nl r, h => by
    simpa [LStmts.closable] using LStmts.closable_of_term r (by simpa [LStmts.finalTerm] using h)

/-- positions as a parser assigns them, seen from the printer state: the remaining line numbers
    are sorted and none is behind the printer's line counter -/
def Pre (p : P) (lines : List Nat) : Prop := lines.Pairwise (· ≤ ·) ∧ ∀ l ∈ lines, p.line ≤ l

theorem Pre.left {p : P} {X Y : List Nat} (h : Pre p (X ++ Y)) : Pre p X :=
  ⟨(List.pairwise_append.mp h.1).1, fun l hl => h.2 l (List.mem_append_left _ hl)⟩

theorem Pre.right {p : P} {X Y : List Nat} (h : Pre p (X ++ Y)) : Pre p Y :=
  ⟨(List.pairwise_append.mp h.1).2.1, fun l hl => h.2 l (List.mem_append_right _ hl)⟩

/-- after printing what carries the lines `X`, the rest `Y` is still ahead -/
theorem Pre.next {p p' : P} {X Y : List Nat} (h : Pre p (X ++ Y))
    (hb : ∀ M, p.line ≤ M → (∀ l ∈ X, l ≤ M) → p'.line ≤ M) : Pre p' Y := by
  obtain ⟨h1, h2, h3⟩ := List.pairwise_append.mp h.1
  exact ⟨h2, fun l hl => hb l (h.2 l (List.mem_append_right _ hl)) (fun x hx => h3 x hx l hl)⟩

/-- the same when the step may also move the counter to the head of the rest -/
theorem Pre.next' {p p' : P} {X Y : List Nat} (h : Pre p (X ++ Y))
    (hb : ∀ M, p.line ≤ M → (∀ l ∈ X, l ≤ M) → (∀ a, Y.head? = some a → a ≤ M) → p'.line ≤ M) : Pre p' Y := by
  obtain ⟨h1, h2, h3⟩ := List.pairwise_append.mp h.1
  refine ⟨h2, fun l hl => hb l (h.2 l (List.mem_append_right _ hl)) (fun x hx => h3 x hx l hl) ?_⟩
  intro a ha
  cases Y with
  | nil => cases ha
  | cons b t =>
    simp only [List.head?_cons, Option.some.injEq] at ha
    subst ha
    rcases List.mem_cons.mp hl with rfl | hl'
    · exact Nat.le_refl _
    · exact (List.pairwise_cons.mp h2).1 l hl'

theorem Pre.mono {p p' : P} {X : List Nat} (h : Pre p X) (hl : p'.line ≤ p.line) : Pre p' X :=
  ⟨h.1, fun l hm => Nat.le_trans hl (h.2 l hm)⟩

theorem Pre.head_le {p : P} {a : Nat} {X : List Nat} (h : Pre p (a :: X)) : ∀ l ∈ a :: X, a ≤ l := by
  intro l hl
  rcases List.mem_cons.mp hl with rfl | hl
  · exact Nat.le_refl _
  · exact (List.pairwise_cons.mp h.1).1 l hl

theorem Pre.tail {p : P} {a : Nat} {X : List Nat} (h : Pre p (a :: X)) : Pre p X :=
  ⟨(List.pairwise_cons.mp h.1).2, fun l hl => h.2 l (List.mem_cons_of_mem _ hl)⟩

theorem Stmt.lines_head (s : Stmt) : ∃ t, s.lines = s.pos.line :: t := by
  obtain ⟨pos, semi, neg, bg, cmd⟩ := s
  exact ⟨_, rfl⟩

/-- a step that moves the line counter at most to the head of the remaining lines -/
theorem Pre.step {p p' : P} {X : List Nat} (h : Pre p X) (hb : ∀ M, p.line ≤ M → (∀ a, X.head? = some a → a ≤ M) → p'.line ≤ M) :
    Pre p' X := by
  refine ⟨h.1, fun l hl => hb l (h.2 l hl) ?_⟩
  intro a ha
  cases X with
  | nil => cases ha
  | cons b t =>
    simp only [List.head?_cons, Option.some.injEq] at ha
    subst ha
    exact Pre.head_le h l hl

/-- the state right after a statement of a list (and `p.wantNewline = true` set by the loop) -/
structure PostG (p : P) : Prop where
  w : W p
  ws : p.wantSpace = .required
  wnl : p.wantNewline = true
  must : p.mustNewline = false
  first : p.firstLine = false
  sk : p.sum.sk = false
  last : p.wroteSemi = false → ∃ l, p.sum.last = some l ∧ Closed l
  notLp : NotLp p
  notRefused : refuse p.o = false

theorem stmtSep_postG (p : P) (hp : PostG p) (l : Nat) :
    ∃ pre, (p.stmtSep false l).sum.toks = p.sum.toks ++ pre ∧ W (p.stmtSep false l) ∧ (p.stmtSep false l).o = p.o ∧
      (p.stmtSep false l).mustNewline = false ∧ (p.stmtSep false l).firstLine = false ∧ NotLp (p.stmtSep false l) ∧
      ((p.o.singleLine = false ∧ pre = [.newl]) ∨
       (p.o.singleLine = true ∧ pre = (if p.wroteSemi then [] else [ATok.semi]))) := by
  cases hsl : p.o.singleLine with
  | false =>
    have hsep : p.stmtSep false l = (p.newlines l).advanceLine l := by
      unfold P.stmtSep
      simp [hsl, hp.ws]
    rw [hsep]
    have hwn : p.wantsNewline l false = true := by
      simp [P.wantsNewline, hp.must, hsl, hp.wnl]
    have hn := ((newlines_gen p hp.w.ok hp.first l).2 hwn).advance l
    refine ⟨[.newl], by rw [hn.toks, hp.sk]; rfl, hn.w, hn.o, hn.must, hn.first, ?_, Or.inl ⟨rfl, rfl⟩⟩
    intro e
    obtain ⟨g, hg⟩ := hn.last
    rw [hg] at e; cases e
  | true =>
    have hmin : p.o.minify = false := by
      have := hp.notRefused
      simp only [refuse, hsl, Bool.and_true] at this
      exact this
    cases hws : p.wroteSemi with
    | true =>
      have hnl : p.newlines l = p := by
        unfold P.newlines
        simp [hp.first, P.wantsNewline, hp.must, hsl]
      have hsep : p.stmtSep false l = p.advanceLine l := by
        unfold P.stmtSep
        simp [hsl, hws, hmin, hnl]
      rw [hsep]
      have qa := Quiet.advanceLine hp.w l
      exact ⟨[], by simp [qa.toks], qa.w, qa.same.o, by rw [qa.same.must, hp.must], by rw [qa.same.first, hp.first],
        hp.notLp.of_quiet qa, Or.inr ⟨rfl, by simp⟩⟩
    | false =>
      let q1 : P := { (p.tok [59]) with wantSpace := .required }
      have hs1 : q1.sum = p.sum.step (.op [59]) := P.sum_push p _ _ rfl
      have hlast : ∀ x, p.sum.last = some x →
          (match x with | .op y => y ≠ [59] ∧ y ≠ [38] ∧ y ≠ [124] ∧ y ≠ [40] | _ => True) := by
        intro x hx
        obtain ⟨l0, hl, hc⟩ := hp.last hws
        rw [hl] at hx
        cases hx
        cases x with
        | word _ => trivial
        | gap _ => trivial
        | op y => rcases hc with rfl | rfl <;> decide
      have hst := step_term p.sum [59] (Or.inl rfl) hlast
      have hw1 : W q1 := ⟨by rw [hs1, hst]; exact hp.w.ok, fun _ _ _ => rfl⟩
      have hnl : q1.newlines l = q1 := by
        unfold P.newlines
        have h1 : q1.firstLine = false := hp.first
        have h2 : q1.wantsNewline l false = false := by
          show (if p.mustNewline = true then true else if p.o.singleLine = true then false else _) = false
          simp [hp.must, hsl]
        simp [h1, h2]
      have hsep : p.stmtSep false l = q1.advanceLine l := by
        unfold P.stmtSep
        have hc : (!false && p.o.singleLine && p.wantNewline && !p.wroteSemi) = true := by
          simp [hsl, hp.wnl, hws]
        simp only [hc, ↓reduceIte]
        have hcond : (q1.mustNewline || !q1.o.minify || decide (q1.wantSpace = .required)) = true := by
          show (p.mustNewline || !p.o.minify || decide (WS.required = WS.required)) = true
          simp
        show (if (q1.mustNewline || !q1.o.minify || decide (q1.wantSpace = .required)) = true then q1.newlines l else q1).advanceLine l = _
        rw [if_pos hcond, hnl]
      rw [hsep]
      have qa := Quiet.advanceLine hw1 l
      refine ⟨[.semi], ?_, qa.w, by rw [qa.same.o]; rfl, by rw [qa.same.must]; exact hp.must,
        by rw [qa.same.first]; exact hp.first, ?_, Or.inr ⟨rfl, by simp⟩⟩
      · rw [qa.toks, hs1, hst]
        simp
      · have : NotLp q1 := by
          intro e
          rw [hs1, hst] at e
          cases e
        exact this.of_quiet qa

/-- the separator before the first statement of a nested list: a newline or nothing -/
theorem firstSep (p : P) (hw : W p) (hf : p.firstLine = false) (l : Nat) :
    ((p.sepCond && p.wantsNewline l false) = true ∧ NlOut p (p.stmtSep true l)) ∨
    ((p.sepCond && p.wantsNewline l false) = false ∧ p.stmtSep true l = p.advanceLine l) := by
  rw [stmtSep_first_eq]
  obtain ⟨n0, n1⟩ := newlines_gen p hw.ok hf l
  cases hc : p.sepCond with
  | false => exact Or.inr ⟨by simp, by simp⟩
  | true =>
    cases hwn : p.wantsNewline l false with
    | false => exact Or.inr ⟨by simp, by simp [n0 hwn]⟩
    | true => exact Or.inl ⟨by simp, by simpa using (n1 hwn).advance l⟩

theorem line_stmtPre (p : P) (neg : Bool) : (p.stmtPre neg).line = p.line := by
  unfold P.stmtPre
  dsimp only
  split
  · rw [line_spacedString]
  · rfl

/-- what printing a command establishes -/
structure CmdOutG (p p' : P) (c : Cmd) (lc : LCmd) : Prop where
  adv : Adv p p' lc.toks
  valid : lc.valid = true
  norm : lc.norm = c.norm
  ao : lc.isAndOr = c.isAndOr
  bin : lc.isBinary = c.isBinary
  after : AfterCmd p'

/-- what printing a statement establishes -/
structure StmtOutG (p p' : P) (s : Stmt) (ls : LStmt) : Prop where
  adv : Adv p p' ls.toks
  valid : ls.valid = true
  norm : ls.norm = s.norm
  neg : ls.neg = s.negated
  ao : ls.cmd.isAndOr = s.cmd.isAndOr
  bin : ls.cmd.isBinary = s.cmd.isBinary
  ws : p'.wantSpace = .required
  sk : p'.sum.sk = false
  wsemi : p'.wroteSemi = (ls.term != .none)
  bare : s.bare = true → ls.term = .none
  single : p.o.singleLine = true → s.bg = false → ls.term = .none
  amp : (ls.term == .amp) = s.bg
  last : ls.term = .none → ∃ l, p'.sum.last = some l ∧ Closed l
  lastT : ls.term ≠ .none → p'.sum.last = some (.op [59]) ∨ p'.sum.last = some (.op [38])

/-- what the statement loop establishes: tokens `pre ++ lt.toks`, and the state after the last
    statement -/
structure ListOut (p p' : P) (ss : Stmts) (pre : List ATok) (lt : LStmts) : Prop where
  toks : p'.sum.toks = p.sum.toks ++ (pre ++ lt.toks)
  valid : lt.valid = true
  norm : lt.norm = ss.norm
  fnl : lt.finalNl = false
  w : W p'
  sk : p'.sum.sk = false
  o : p'.o = p.o
  ws : p'.wantSpace = .required
  first : p'.firstLine = false
  must : p'.mustNewline = false
  wsemi : p'.wroteSemi = (lt.finalTerm != .none)
  last : lt.finalTerm = .none → ∃ l, p'.sum.last = some l ∧ Closed l
  lastT : lt.finalTerm ≠ .none → p'.sum.last = some (.op [59]) ∨ p'.sum.last = some (.op [38])

theorem ListOut.notLp {p p' : P} {ss : Stmts} {pre : List ATok} {lt : LStmts} (h : ListOut p p' ss pre lt) : NotLp p' := by
  cases ht : lt.finalTerm with
  | none => exact NotLp.of_closed (h.last ht)
  | semi =>
    intro e
    rcases h.lastT (by rw [ht]; simp) with e' | e' <;> (rw [e'] at e; cases e)
  | amp =>
    intro e
    rcases h.lastT (by rw [ht]; simp) with e' | e' <;> (rw [e'] at e; cases e)

/-- the separator the loop writes before a further statement -/
def SepOK (p : P) (pre : List ATok) : Prop :=
  (p.o.singleLine = false ∧ pre = [.newl]) ∨
  (p.o.singleLine = true ∧ pre = (if p.wroteSemi then [] else [ATok.semi]))

/-- the state after a statement, as the loop leaves it -/
theorem postG_of_stmtOut {q : P} {s : Stmt} {ls : LStmt} (hs : StmtOutG q (q.stmt s) s ls)
    (hm : q.mustNewline = false) (hf : q.firstLine = false) (hr : refuse q.o = false) :
    PostG { (q.stmt s) with wantNewline := true } := by
  refine ⟨⟨hs.adv.w.ok, hs.adv.w.gap⟩, hs.ws, rfl, hs.adv.must hm, by show (q.stmt s).firstLine = false; rw [hs.adv.first, hf],
    hs.sk, ?_, ?_, by show refuse (q.stmt s).o = false; rw [hs.adv.o]; exact hr⟩
  · intro h
    have h' : (q.stmt s).wroteSemi = false := h
    rw [hs.wsemi] at h'
    have : ls.term = .none := by
      cases ht : ls.term <;> simp [ht] at h' ⊢
    exact hs.last this
  · show NotLp (q.stmt s)
    cases ht : ls.term with
    | none => exact NotLp.of_closed (hs.last ht)
    | semi =>
      intro e
      rcases hs.lastT (by rw [ht]; simp) with e' | e' <;> (rw [e'] at e; cases e)
    | amp =>
      intro e
      rcases hs.lastT (by rw [ht]; simp) with e' | e' <;> (rw [e'] at e; cases e)

/-- a statement followed by the rest of its list -/
theorem list_assemble {q : P} {s : Stmt} {ls : LStmt} (hs : StmtOutG q (q.stmt s) s ls)
    (hm : q.mustNewline = false) (hf : q.firstLine = false) (rest : Stmts)
    (ih : rest ≠ .nil → ∃ pre lt, ListOut { (q.stmt s) with wantNewline := true }
        (P.stmtListLoop { (q.stmt s) with wantNewline := true } false rest) rest pre lt ∧
        SepOK { (q.stmt s) with wantNewline := true } pre) :
    ∃ lt, ListOut q (P.stmtListLoop { (q.stmt s) with wantNewline := true } false rest) (.cons s rest) [] lt := by
  have htoks : (P.sum { (q.stmt s) with wantNewline := true }).toks = q.sum.toks ++ ls.toks := hs.adv.toks
  have hwsemi : (({ (q.stmt s) with wantNewline := true } : P)).wroteSemi = (ls.term != .none) := hs.wsemi
  have hso : (({ (q.stmt s) with wantNewline := true } : P)).o = q.o := hs.adv.o
  cases rest with
  | nil =>
    rw [P.stmtListLoop]
    refine ⟨.one ls false, ?_, by simpa [LStmts.valid] using hs.valid, by simp [LStmts.norm, Stmts.norm, hs.norm], rfl,
      ⟨hs.adv.w.ok, hs.adv.w.gap⟩, hs.sk, hso, hs.ws, by show (q.stmt s).firstLine = false; rw [hs.adv.first, hf],
      hs.adv.must hm, hs.wsemi, hs.last, hs.lastT⟩
    rw [htoks]
    simp [LStmts.toks, nlT]
  | cons s2 rest2 =>
    obtain ⟨pre2, lt2, hl, hsep⟩ := ih (by simp)
    rcases hsep with ⟨_, rfl⟩ | ⟨_, rfl⟩
    · refine ⟨.cons ls true lt2, ?_, by simp [LStmts.valid, hs.valid, hl.valid],
        by simp [LStmts.norm, Stmts.norm, hs.norm, hl.norm], hl.fnl, hl.w, hl.sk, hl.o.trans hso, hl.ws, hl.first, hl.must,
        hl.wsemi, hl.last, hl.lastT⟩
      rw [hl.toks, htoks]
      simp [LStmts.toks, nlT, List.append_assoc]
    · have htk := hl.toks
      rw [hwsemi] at htk
      cases hterm : ls.term with
      | none =>
        obtain ⟨a1, a2, a3, a4⟩ := LStmt.withTerm_semi ls hterm
        refine ⟨.cons (ls.withTerm .semi) false lt2, ?_, ?_, by simp [LStmts.norm, Stmts.norm, a3, hs.norm, hl.norm],
          hl.fnl, hl.w, hl.sk, hl.o.trans hso, hl.ws, hl.first, hl.must, hl.wsemi, hl.last, hl.lastT⟩
        · rw [htk, htoks, hterm]
          simp [LStmts.toks, nlT, a1, List.append_assoc]
        · simp only [LStmts.valid, a2, hs.valid, a4, hl.valid]
          rfl
      | semi =>
        refine ⟨.cons ls false lt2, ?_, ?_, by simp [LStmts.norm, Stmts.norm, hs.norm, hl.norm],
          hl.fnl, hl.w, hl.sk, hl.o.trans hso, hl.ws, hl.first, hl.must, hl.wsemi, hl.last, hl.lastT⟩
        · rw [htk, htoks, hterm]
          simp [LStmts.toks, nlT, List.append_assoc]
        · simp only [LStmts.valid, hs.valid, hterm, hl.valid]
          rfl
      | amp =>
        refine ⟨.cons ls false lt2, ?_, ?_, by simp [LStmts.norm, Stmts.norm, hs.norm, hl.norm],
          hl.fnl, hl.w, hl.sk, hl.o.trans hso, hl.ws, hl.first, hl.must, hl.wsemi, hl.last, hl.lastT⟩
        · rw [htk, htoks, hterm]
          simp [LStmts.toks, nlT, List.append_assoc]
        · simp only [LStmts.valid, hs.valid, hterm, hl.valid]
          rfl

theorem Stmt.pos_le_lines {p : P} {s : Stmt} {Y : List Nat} (h : Pre p (s.lines ++ Y)) : ∀ l ∈ s.lines, s.pos.line ≤ l := by
  obtain ⟨t, ht⟩ := Stmt.lines_head s
  intro l hl
  have h' := Pre.left h
  rw [ht] at h' hl
  exact Pre.head_le h' l hl

theorem Stmt.pos_mem_lines (s : Stmt) : s.pos.line ∈ s.lines := by
  obtain ⟨t, ht⟩ := Stmt.lines_head s
  rw [ht]; simp

/-- A nested statement list, from the state after the opening token: an optional newline and a
    valid layout of the list.  The statements themselves are handled by the hypotheses `ihs`,
    `ihr` (the induction hypotheses of the callers). -/
theorem nested_list (r1 : P) (s : Stmt) (rest : Stmts) (hw1 : W r1) (hf : r1.firstLine = false)
    (hsk : r1.sum.sk = false) (hr : refuse r1.o = false) (hpre : Pre r1 (s.lines ++ rest.lines))
    (hopen : s.startsWithLparen = true → r1.sum.last = some (.op [40]) →
      r1.wantSpace = .required ∨ (r1.sepCond && r1.wantsNewline s.pos.line false) = true)
    (ihs : ∀ q : P, W q → q.firstLine = false → q.mustNewline = false → refuse q.o = false → Pre q s.lines →
      (s.startsWithLparen = true → q.sum.last = some (.op [40]) → q.wantSpace = .required) →
      ∃ ls, StmtOutG q (q.stmt s) s ls)
    (ihr : rest ≠ .nil → ∀ q : P, PostG q → Pre q rest.lines →
      ∃ pre lt, ListOut q (q.stmtListLoop false rest) rest pre lt ∧ SepOK q pre) :
    ∃ (nl : Bool) (lt : LStmts), ListOut r1 (r1.stmtListLoop true (.cons s rest)) (.cons s rest) (nlT nl) lt := by
  have hunf : r1.stmtListLoop true (.cons s rest) =
      P.stmtListLoop { ((r1.stmtSep true s.pos.line).stmt s) with wantNewline := true } false rest := by
    rw [P.stmtListLoop]
  rw [hunf]
  have hposle := Stmt.pos_le_lines hpre
  have hpq : Pre (r1.stmtSep true s.pos.line) s.lines :=
    ⟨(Pre.left hpre).1, fun l hl => le_stmtSep true _ ((Pre.left hpre).2 l hl) (hposle l hl)⟩
  have hprest : Pre ({ ((r1.stmtSep true s.pos.line).stmt s) with wantNewline := true } : P) rest.lines :=
    Pre.next hpre (fun M h1 h2 => le_stmt s M _ (le_stmtSep true _ h1 (h2 _ (Stmt.pos_mem_lines s))) h2)
  -- the common part, given what the separator did
  have hcommon : ∀ (nl : Bool), W (r1.stmtSep true s.pos.line) → (r1.stmtSep true s.pos.line).firstLine = false →
      (r1.stmtSep true s.pos.line).mustNewline = false → (r1.stmtSep true s.pos.line).o = r1.o →
      (r1.stmtSep true s.pos.line).sum.toks = r1.sum.toks ++ nlT nl →
      (s.startsWithLparen = true → (r1.stmtSep true s.pos.line).sum.last = some (.op [40]) →
        (r1.stmtSep true s.pos.line).wantSpace = .required) →
      ∃ lt, ListOut r1 (P.stmtListLoop { ((r1.stmtSep true s.pos.line).stmt s) with wantNewline := true } false rest)
        (.cons s rest) (nlT nl) lt := by
    intro nl hwq hfq hmq hoq htq hlpq
    have hrq : refuse (r1.stmtSep true s.pos.line).o = false := by rw [hoq]; exact hr
    obtain ⟨ls, hs⟩ := ihs _ hwq hfq hmq hrq hpq hlpq
    obtain ⟨lt, hl⟩ := list_assemble hs hmq hfq rest (fun hne => ihr hne _ (postG_of_stmtOut hs hmq hfq hrq) hprest)
    refine ⟨lt, ?_, hl.valid, hl.norm, hl.fnl, hl.w, hl.sk, hl.o.trans hoq, hl.ws, hl.first, hl.must, hl.wsemi, hl.last,
      hl.lastT⟩
    rw [hl.toks, htq]
    simp [List.append_assoc]
  rcases firstSep r1 hw1 hf s.pos.line with ⟨_, hn⟩ | ⟨hc, heq⟩
  · obtain ⟨lt, hl⟩ := hcommon true hn.w hn.first hn.must hn.o (by rw [hn.toks, hsk]; rfl) (fun _ e => by
      obtain ⟨g, hg⟩ := hn.last
      rw [hg] at e; cases e)
    exact ⟨true, lt, hl⟩
  · have qa := Quiet.advanceLine hw1 s.pos.line
    have hmust : r1.mustNewline = false := by
      cases hmn : r1.mustNewline with
      | false => rfl
      | true =>
        have : (r1.sepCond && r1.wantsNewline s.pos.line false) = true := by
          simp [P.sepCond, P.wantsNewline, hmn]
        rw [this] at hc
        cases hc
    rw [heq] at hcommon ⊢
    obtain ⟨lt, hl⟩ := hcommon false qa.w (by rw [qa.same.first]; exact hf) (by rw [qa.same.must]; exact hmust) qa.same.o
      (by rw [qa.toks]; simp [nlT]) (fun hs e => by
        have hsum : (r1.advanceLine s.pos.line).sum = r1.sum := P.sum_same _ _ rfl
        rw [hsum] at e
        rcases hopen hs e with h | h
        · exact h
        · rw [h] at hc; cases hc)
    exact ⟨false, lt, hl⟩

theorem LStmts.withFinalNl_finalTerm : ∀ (lt : LStmts), lt.withFinalNl.finalTerm = lt.finalTerm
  | .one s nl => rfl
  | .cons s nl r => by simpa [LStmts.withFinalNl, LStmts.finalTerm] using LStmts.withFinalNl_finalTerm r

/-- `( … )`, given the induction hypotheses for the statements inside -/
theorem subshell_out (p : P) (lp rp : Pos) (s : Stmt) (rest : Stmts) (hw : W p) (hf : p.firstLine = false)
    (_hm : p.mustNewline = false) (hr : refuse p.o = false)
    (hpre : Pre p (Cmd.subshell lp rp (.cons s rest)).lines)
    (hlp : p.sum.last = some (.op [40]) → p.wantSpace = .required)
    (ihs : ∀ q : P, W q → q.firstLine = false → q.mustNewline = false → refuse q.o = false → Pre q s.lines →
      (s.startsWithLparen = true → q.sum.last = some (.op [40]) → q.wantSpace = .required) →
      ∃ ls, StmtOutG q (q.stmt s) s ls)
    (ihr : rest ≠ .nil → ∀ q : P, PostG q → Pre q rest.lines →
      ∃ pre lt, ListOut q (q.stmtListLoop false rest) rest pre lt ∧ SepOK q pre) :
    ∃ lc, CmdOutG p (p.command (.subshell lp rp (.cons s rest))) (.subshell lp rp (.cons s rest)) lc := by
  have hop := subshellOpen_out p hw hlp lp s rest
  obtain ⟨r0, hr0⟩ : ∃ r0, r0 = (p.advanceLine lp.line).spacePad.subshellOpen lp (.cons s rest) := ⟨_, rfl⟩
  rw [← hr0] at hop
  obtain ⟨fl1, wn1, _⟩ := nestedStart_flds r0 (.cons s rest) rp
  obtain ⟨r1, hr1⟩ : ∃ r1, r1 = r0.nestedStart (.cons s rest) rp := ⟨_, rfl⟩
  rw [← hr1] at fl1 wn1
  have hw1 : W r1 := fl1.w hop.w
  have hf1 : r1.firstLine = false := by rw [fl1.first, hop.first]; exact hf
  have hsk1 : r1.sum.sk = false := by rw [fl1.sum]; exact hop.sk
  have hr1o : refuse r1.o = false := by rw [fl1.o, hop.o]; exact hr
  have hlines : (Cmd.subshell lp rp (.cons s rest)).lines = lp.line :: ((s.lines ++ rest.lines) ++ [rp.line]) := by
    simp [Cmd.lines, Stmts.lines]
  rw [hlines] at hpre
  have hplp : p.line ≤ lp.line := hpre.2 _ (by simp)
  have hr1line : r1.line = lp.line := by rw [fl1.line, hop.line]; exact Nat.max_eq_right hplp
  have hpre1 : Pre r1 (s.lines ++ rest.lines) := by
    have h' := Pre.left (Pre.tail hpre)
    refine ⟨h'.1, fun l hl => ?_⟩
    rw [hr1line]
    exact Pre.head_le hpre l (List.mem_cons_of_mem _ (List.mem_append_left _ hl))
  have hopen : s.startsWithLparen = true → r1.sum.last = some (.op [40]) →
      r1.wantSpace = .required ∨ (r1.sepCond && r1.wantsNewline s.pos.line false) = true := by
    intro hs e
    rw [fl1.sum] at e
    rcases hop.opened hs with ⟨g, hg⟩ | ⟨h1, h2, h3⟩
    · rw [hg] at e; cases e
    · right
      have ho : r1.o = r0.o := fl1.o
      cases hmin : r0.o.minify with
      | true =>
        have hmn : r1.mustNewline = true := by rw [fl1.must]; exact h3 hmin
        simp [P.sepCond, P.wantsNewline, hmn]
      | false =>
        have hsl : r1.o.singleLine = false := by rw [ho]; exact h1
        have hmin1 : r1.o.minify = false := by rw [ho]; exact hmin
        have hwnl : (r1.wantNewline || decide (s.pos.line > r1.line)) = true := by
          rcases h2 with h2 | h2
          · have hle : lp.line ≤ s.pos.line :=
              Pre.head_le hpre _ (List.mem_cons_of_mem _ (List.mem_append_left _ (List.mem_append_left _ (Stmt.pos_mem_lines s))))
            rw [hr1line]
            simp only [Bool.or_eq_true, decide_eq_true_eq]
            right; omega
          · have : r1.wantNewline = true := wn1 (by simp only [Stmts.length]; omega)
            simp [this]
        simp only [P.sepCond, P.wantsNewline, hmin1, hsl, Bool.and_false, Bool.false_eq_true, ↓reduceIte, hwnl]
        cases r1.mustNewline <;> simp
  obtain ⟨nl, lt, hl⟩ := nested_list r1 s rest hw1 hf1 hsk1 hr1o hpre1 hopen ihs ihr
  have fl2 := nested_flds r0 (.cons s rest) rp (fun q => q.stmtListLoop true (.cons s rest))
  rw [← hr1] at fl2
  obtain ⟨r2, hr2⟩ : ∃ r2, r2 = r0.nestedStmtsWith (.cons s rest) rp (fun q => q.stmtListLoop true (.cons s rest)) := ⟨_, rfl⟩
  rw [← hr2] at fl2
  have hsum2 : r2.sum = (r1.stmtListLoop true (.cons s rest)).sum := fl2.sum
  have hw2 : W r2 := fl2.w hl.w
  have hnl2 : NotLp r2 := by
    intro e
    rw [hsum2] at e
    exact hl.notLp e
  obtain ⟨nl2, hcl⟩ := closeParen_out r2 hw2 (by rw [fl2.first]; exact hl.first) (by rw [hsum2]; exact hl.sk) hnl2
    (.cons s rest) lp.line rp.line rp.line
  have hfin : p.command (.subshell lp rp (.cons s rest)) = (r2.closingParenSpace (.cons s rest) lp.line rp.line).rightParen rp.line := by
    rw [hr2, hr0, P.command]
  rw [hfin]
  obtain ⟨f1, f2, f3⟩ := LStmts.withFinalNl_facts lt hl.fnl
  have htoks : ((r2.closingParenSpace (.cons s rest) lp.line rp.line).rightParen rp.line).sum.toks =
      p.sum.toks ++ (.lparen :: (nlT nl ++ (lt.toks ++ (nlT nl2 ++ [.rparen])))) := by
    rw [hcl.toks, hsum2, hl.toks, fl1.sum, hop.toks]
    simp [List.append_assoc]
  have ho : ((r2.closingParenSpace (.cons s rest) lp.line rp.line).rightParen rp.line).o = p.o := by
    rw [hcl.o, fl2.o, hl.o, fl1.o, hop.o]
  have hadv : ∀ ts, p.sum.toks ++ (.lparen :: (nlT nl ++ (lt.toks ++ (nlT nl2 ++ [.rparen])))) = p.sum.toks ++ ts →
      Adv p ((r2.closingParenSpace (.cons s rest) lp.line rp.line).rightParen rp.line) ts := by
    intro ts hts
    exact ⟨ho, fun _ => hcl.must (by rw [fl2.must]; exact hl.must), by rw [hcl.first, hf], by rw [htoks, hts], hcl.w⟩
  have hafter : AfterCmd ((r2.closingParenSpace (.cons s rest) lp.line rp.line).rightParen rp.line) :=
    ⟨hcl.ws, hcl.sk, ⟨_, hcl.last, Or.inl rfl⟩⟩
  cases nl2 with
  | false =>
    refine ⟨.subshell nl lt, hadv _ (by simp [LCmd.toks, nlT]), by simpa [LCmd.valid] using hl.valid,
      by simp [LCmd.norm, Cmd.norm, hl.norm], rfl, rfl, hafter⟩
  | true =>
    refine ⟨.subshell nl lt.withFinalNl, hadv _ (by simp [LCmd.toks, nlT, f1, List.append_assoc]),
      by simpa [LCmd.valid, f2] using hl.valid, by simp [LCmd.norm, Cmd.norm, f3, hl.norm], rfl, rfl, hafter⟩

/-- `{ …; }`, given the induction hypotheses for the statements inside -/
theorem block_out (p : P) (lb rb : Pos) (s : Stmt) (rest : Stmts) (hw : W p) (hf : p.firstLine = false)
    (_hm : p.mustNewline = false) (hr : refuse p.o = false)
    (hpre : Pre p (Cmd.block lb rb (.cons s rest)).lines)
    (ihs : ∀ q : P, W q → q.firstLine = false → q.mustNewline = false → refuse q.o = false → Pre q s.lines →
      (s.startsWithLparen = true → q.sum.last = some (.op [40]) → q.wantSpace = .required) →
      ∃ ls, StmtOutG q (q.stmt s) s ls)
    (ihr : rest ≠ .nil → ∀ q : P, PostG q → Pre q rest.lines →
      ∃ pre lt, ListOut q (q.stmtListLoop false rest) rest pre lt ∧ SepOK q pre) :
    ∃ lc, CmdOutG p (p.command (.block lb rb (.cons s rest))) (.block lb rb (.cons s rest)) lc := by
  obtain ⟨r0, hr0⟩ : ∃ r0 : P, r0 = { ((p.advanceLine lb.line).spacePad.tok [123]) with
      wroteSemi := true, wantSpace := .required,
      wantNewline := ((p.advanceLine lb.line).spacePad.tok [123]).wantNewline ||
        ((p.advanceLine lb.line).spacePad.tok [123]).o.funcNextLine } := ⟨_, rfl⟩
  have hop : BOpenOut p r0 lb := by rw [hr0]; exact blockOpen_out p hw lb _
  obtain ⟨fl1, _, _⟩ := nestedStart_flds r0 (.cons s rest) rb
  obtain ⟨r1, hr1⟩ : ∃ r1, r1 = r0.nestedStart (.cons s rest) rb := ⟨_, rfl⟩
  rw [← hr1] at fl1
  have hw1 : W r1 := fl1.w hop.w
  have hf1 : r1.firstLine = false := by rw [fl1.first, hop.first]; exact hf
  have hsk1 : r1.sum.sk = false := by rw [fl1.sum]; exact hop.sk
  have hr1o : refuse r1.o = false := by rw [fl1.o, hop.o]; exact hr
  have hlines : (Cmd.block lb rb (.cons s rest)).lines = lb.line :: ((s.lines ++ rest.lines) ++ [rb.line]) := by
    simp [Cmd.lines, Stmts.lines]
  rw [hlines] at hpre
  have hplb : p.line ≤ lb.line := hpre.2 _ (by simp)
  have hr1line : r1.line = lb.line := by rw [fl1.line, hop.line]; exact Nat.max_eq_right hplb
  have hpre1 : Pre r1 (s.lines ++ rest.lines) := by
    have h' := Pre.left (Pre.tail hpre)
    refine ⟨h'.1, fun l hl => ?_⟩
    rw [hr1line]
    exact Pre.head_le hpre l (List.mem_cons_of_mem _ (List.mem_append_left _ hl))
  have hopen : s.startsWithLparen = true → r1.sum.last = some (.op [40]) →
      r1.wantSpace = .required ∨ (r1.sepCond && r1.wantsNewline s.pos.line false) = true := by
    intro _ e
    rw [fl1.sum, hop.last] at e
    cases e
  obtain ⟨nl, lt, hl⟩ := nested_list r1 s rest hw1 hf1 hsk1 hr1o hpre1 hopen ihs ihr
  have fl2 := nested_flds r0 (.cons s rest) rb (fun q => q.stmtListLoop true (.cons s rest))
  rw [← hr1] at fl2
  obtain ⟨r2, hr2⟩ : ∃ r2, r2 = r0.nestedStmtsWith (.cons s rest) rb (fun q => q.stmtListLoop true (.cons s rest)) := ⟨_, rfl⟩
  rw [← hr2] at fl2
  have hsum2 : r2.sum = (r1.stmtListLoop true (.cons s rest)).sum := fl2.sum
  have hw2 : W r2 := fl2.w hl.w
  have hwsemi2 : r2.wroteSemi = (lt.finalTerm != .none) := by rw [fl2.wsemi]; exact hl.wsemi
  obtain ⟨mid, hcl, hmid⟩ := closeBrace_out r2 hw2 (by rw [fl2.ws]; exact hl.ws) (by rw [fl2.first]; exact hl.first)
    (by rw [hsum2]; exact hl.sk)
    (fun h => by
      rw [hwsemi2] at h
      have : lt.finalTerm = .none := by cases ht : lt.finalTerm <;> simp [ht] at h ⊢
      rw [hsum2]; exact hl.last this)
    (fun h => by
      rw [hwsemi2] at h
      have : lt.finalTerm ≠ .none := by cases ht : lt.finalTerm <;> simp [ht] at h ⊢
      rw [hsum2]; exact hl.lastT this)
    rb.line
  have hfin : p.command (.block lb rb (.cons s rest)) = r2.semiRsrv [125] rb.line := by
    rw [hr2, hr0, P.command]
    have : ((Stmts.cons s rest).length == 0) = false := by simp [Stmts.length]
    simp only [this, Bool.and_false, Bool.false_eq_true, ↓reduceIte]
  rw [hfin]
  have htoks : (r2.semiRsrv [125] rb.line).sum.toks =
      p.sum.toks ++ (.lbrace :: (nlT nl ++ (lt.toks ++ (mid ++ [.rbrace])))) := by
    rw [hcl.toks, hsum2, hl.toks, fl1.sum, hop.toks]
    simp [List.append_assoc]
  have ho : (r2.semiRsrv [125] rb.line).o = p.o := by
    rw [hcl.o, fl2.o, hl.o, fl1.o, hop.o]
  have hadv : ∀ ts, p.sum.toks ++ (.lbrace :: (nlT nl ++ (lt.toks ++ (mid ++ [.rbrace])))) = p.sum.toks ++ ts →
      Adv p (r2.semiRsrv [125] rb.line) ts := by
    intro ts hts
    exact ⟨ho, fun _ => hcl.must (by rw [fl2.must]; exact hl.must), by rw [hcl.first, hf], by rw [htoks, hts], hcl.w⟩
  have hafter : AfterCmd (r2.semiRsrv [125] rb.line) := ⟨hcl.ws, hcl.sk, ⟨_, hcl.last, Or.inr rfl⟩⟩
  rcases hmid with rfl | ⟨rfl, hws0⟩ | ⟨rfl, hws1⟩
  · obtain ⟨f1, f2, f3⟩ := LStmts.withFinalNl_facts lt hl.fnl
    refine ⟨.block nl lt.withFinalNl, hadv _ (by simp [LCmd.toks, nlT, f1, List.append_assoc]), ?_,
      by simp [LCmd.norm, Cmd.norm, f3, hl.norm], rfl, rfl, hafter⟩
    simp [LCmd.valid, f2, hl.valid, LStmts.withFinalNl_closable]
  · have hft : lt.finalTerm = .none := by
      rw [hwsemi2] at hws0
      cases ht : lt.finalTerm <;> simp [ht] at hws0 ⊢
    obtain ⟨g1, g2, g3, g4⟩ := LStmts.withFinalSemi_facts lt hft hl.fnl
    refine ⟨.block nl lt.withFinalSemi, hadv _ (by simp [LCmd.toks, nlT, g1, List.append_assoc]), ?_,
      by simp [LCmd.norm, Cmd.norm, g3, hl.norm], rfl, rfl, hafter⟩
    simp [LCmd.valid, g2, hl.valid, g4]
  · have hft : lt.finalTerm ≠ .none := by
      rw [hwsemi2] at hws1
      cases ht : lt.finalTerm <;> simp [ht] at hws1 ⊢
    refine ⟨.block nl lt, hadv _ (by simp [LCmd.toks, nlT]), ?_, by simp [LCmd.norm, Cmd.norm, hl.norm], rfl, rfl, hafter⟩
    simp [LCmd.valid, hl.valid, LStmts.closable_of_term lt hft]

/-! ### The mutual induction -/

mutual
theorem gen_stmt : ∀ (s : Stmt), s.wf = true → ∀ (p : P), W p → p.firstLine = false → p.mustNewline = false →
    refuse p.o = false → Pre p s.lines →
    (s.startsWithLparen = true → p.sum.last = some (.op [40]) → p.wantSpace = .required) →
    ∃ ls, StmtOutG p (p.stmt s) s ls
  | .mk pos semi neg bg cmd, hwf, p, hw, hf, hm, hr, hpre, hlp => by
    simp only [Stmt.wf, Bool.and_eq_true, Bool.not_eq_true'] at hwf
    obtain ⟨hcwf, hnao⟩ := hwf
    obtain ⟨h1, h2, h3, h4⟩ := Emits.stmtPre p hw neg
    have hprec : Pre (p.stmtPre neg) cmd.lines := by
      have h' : Pre p (cmd.lines ++ (if semi.valid then [semi.line] else [])) := Pre.tail hpre
      exact (Pre.left h').mono (Nat.le_of_eq (line_stmtPre p neg))
    have hlpc : cmd.startsWithLparen = true → (p.stmtPre neg).sum.last = some (.op [40]) →
        (p.stmtPre neg).wantSpace = .required := by
      intro hc
      cases neg with
      | false =>
        obtain ⟨a, b⟩ := h4 rfl
        rw [b, a]
        exact hlp (by simpa [Stmt.startsWithLparen] using hc)
      | true =>
        intro _
        unfold P.stmtPre P.spacedString
        rfl
    obtain ⟨lc, hc⟩ := gen_cmd cmd hcwf (p.stmtPre neg) h2 (by rw [h3.first]; exact hf) (by rw [h3.must]; exact hm)
      (by rw [h3.o]; exact hr) hprec hlpc
    obtain ⟨term, e1, e2, e3, e4, e5, e6, e7, e8, e9, e10, e11, e12⟩ := stmtEnd_gen _ hc.adv.w hc.after semi bg
    refine ⟨.mk neg lc term, ?_⟩
    have hamp : (term == Term.amp) = bg := by
      cases bg with
      | true => rw [e7 rfl]; rfl
      | false =>
        have := e8 rfl
        cases term <;> simp at this ⊢
    unfold P.stmt
    refine ⟨⟨?_, ?_, ?_, ?_, e2⟩, ?_, ?_, rfl, ?_, ?_, e4, e5, e6, ?_, ?_, hamp, e10, e12⟩
    · rw [e3.o, hc.adv.o, h3.o]
    · intro hm'
      rw [e3.must]
      exact hc.adv.must (by rw [h3.must]; exact hm')
    · rw [e3.first, hc.adv.first, h3.first]
    · rw [e1, hc.adv.toks, h1]
      simp [LStmt.toks, List.append_assoc]
    · simp only [LStmt.valid, hc.valid, Bool.true_and, Bool.not_eq_true', hc.ao]
      exact hnao
    · simp [LStmt.norm, Stmt.norm, hc.norm, hamp]
    · simpa [LStmt.cmd, Stmt.cmd] using hc.ao
    · simpa [LStmt.cmd, Stmt.cmd] using hc.bin
    · intro hb
      simp only [Stmt.bare, Stmt.bg, Stmt.semi, Bool.and_eq_true, Bool.not_eq_true'] at hb
      exact e11 hb.2 hb.1
    · intro hsl hbg
      apply e9 _ hbg
      rw [hc.adv.o, h3.o]
      exact hsl
theorem gen_cmd : ∀ (c : Cmd), c.wf = true → ∀ (p : P), W p → p.firstLine = false → p.mustNewline = false →
    refuse p.o = false → Pre p c.lines →
    (c.startsWithLparen = true → p.sum.last = some (.op [40]) → p.wantSpace = .required) →
    ∃ lc, CmdOutG p (p.command c) c lc
  | .call args, hwf, p, hw, _, _, _, _, _ => by
    obtain ⟨hane, hawf⟩ := call_wf_args hwf
    obtain ⟨c1, c2⟩ := Emits.command_call args hane hawf p hw
    refine ⟨.call (args.map Word.norm), ⟨?_, ?_, ?_, rfl, rfl, c2.toCmd⟩⟩
    · have := Adv.of_emits c1
      simpa [LCmd.toks, List.map_map, Function.comp_def] using this
    · have := mkL_valid false args .none hwf
      simpa [mkL, LStmt.valid, LCmd.isAndOr] using this
    · simp [LCmd.norm, Cmd.norm]
  | .subshell lp rp ss, hwf, p, hw, hf, hm, hr, hpre, hlp => by
    simp only [Cmd.wf, Bool.and_eq_true, decide_eq_true_eq] at hwf
    obtain ⟨hlen, hsswf⟩ := hwf
    cases ss with
    | nil => simp [Stmts.length] at hlen
    | cons s rest =>
      obtain ⟨hswf, hrwf⟩ := Stmts.wf_cons hsswf
      exact subshell_out p lp rp s rest hw hf hm hr hpre (hlp (by simp [Cmd.startsWithLparen]))
        (fun q => gen_stmt s hswf q) (fun hne q => gen_loop rest hrwf hne q)
  | .block lb rb ss, hwf, p, hw, hf, hm, hr, hpre, _ => by
    simp only [Cmd.wf, Bool.and_eq_true, decide_eq_true_eq] at hwf
    obtain ⟨hlen, hsswf⟩ := hwf
    cases ss with
    | nil => simp [Stmts.length] at hlen
    | cons s rest =>
      obtain ⟨hswf, hrwf⟩ := Stmts.wf_cons hsswf
      exact block_out p lb rb s rest hw hf hm hr hpre
        (fun q => gen_stmt s hswf q) (fun hne q => gen_loop rest hrwf hne q)
  | .binary opPos op x y, hwf, p, hw, hf, hm, hr, hpre, hlp => by
    simp only [Cmd.wf, Bool.and_eq_true] at hwf
    obtain ⟨⟨⟨⟨hxwf, hywf⟩, hxb⟩, hyb⟩, hshape⟩ := hwf
    have hlines : (Cmd.binary opPos op x y).lines = x.lines ++ (opPos.line :: y.lines) := by simp [Cmd.lines]
    rw [hlines] at hpre
    have q1 := Quiet.advanceLine hw x.pos.line
    obtain ⟨q2, _⟩ := Quiet.spacePad q1.w
    have q12 := q1.trans q2
    have hxposle := Stmt.pos_le_lines hpre
    have hprex : Pre (p.advanceLine x.pos.line).spacePad x.lines := by
      refine ⟨(Pre.left hpre).1, fun l hl => ?_⟩
      rw [line_spacePad]
      exact le_advanceLine ((Pre.left hpre).2 l hl) (hxposle l hl)
    have hlpx : x.startsWithLparen = true → (p.advanceLine x.pos.line).spacePad.sum.last = some (.op [40]) →
        (p.advanceLine x.pos.line).spacePad.wantSpace = .required := by
      intro hx e
      have hlp' : (p.advanceLine x.pos.line).sum.last = some (.op [40]) → (p.advanceLine x.pos.line).wantSpace = .required := by
        intro e'
        have hsum : (p.advanceLine x.pos.line).sum = p.sum := P.sum_same _ _ rfl
        rw [hsum] at e'
        exact hlp (by simpa [Cmd.startsWithLparen] using hx) e'
      exact absurd e (spacePad_notLp _ q1.w hlp')
    obtain ⟨lsx, hx⟩ := gen_stmt x hxwf _ q12.w (by rw [q12.same.first]; exact hf) (by rw [q12.same.must]; exact hm)
      (by rw [q12.same.o]; exact hr) hprex hlpx
    have hxt := hx.bare hxb
    have hlast : LastCG (((p.advanceLine x.pos.line).spacePad).stmt x) := LastCG.of_closed (hx.last hxt)
    obtain ⟨nl, hb, hbsk, hbnlp⟩ := Adv.binaryOp' _ hx.adv.w hlast opPos op y.pos.line y.isBinaryCmd
    have hprey : Pre ((((p.advanceLine x.pos.line).spacePad).stmt x).binaryOp opPos op y.pos.line y.isBinaryCmd).1 y.lines := by
      have h'' : Pre p ((x.lines ++ [opPos.line]) ++ y.lines) := by simpa [List.append_assoc] using hpre
      refine Pre.next' h'' (fun M h1 h2 h3 => ?_)
      obtain ⟨t, ht⟩ := Stmt.lines_head y
      apply le_binaryOp _ _ _ _ _ (h2 _ (by simp)) (h3 _ (by rw [ht]; rfl))
      apply le_stmt x M _ _ (fun l hl => h2 l (by simp [hl]))
      rw [line_spacePad]
      exact le_advanceLine h1 (h2 _ (by simp [Stmt.pos_mem_lines]))
    obtain ⟨lsy, hy⟩ := gen_stmt y hywf _ hb.w (by rw [hb.first, hx.adv.first, q12.same.first]; exact hf)
      (hb.must (hx.adv.must (by rw [q12.same.must]; exact hm)))
      (by rw [hb.o, hx.adv.o, q12.same.o]; exact hr) hprey (fun _ e => absurd e hbnlp)
    have hyt := hy.bare hyb
    obtain ⟨qe, qews, qesum⟩ := Quiet.binaryEnd _ hy.adv.w
      (((p.advanceLine x.pos.line).spacePad.stmt x).binaryOp opPos op y.pos.line y.isBinaryCmd).2.1
      (((p.advanceLine x.pos.line).spacePad.stmt x).binaryOp opPos op y.pos.line y.isBinaryCmd).2.2
    refine ⟨.binary op nl lsx lsy, ?_⟩
    unfold P.command
    dsimp only
    refine ⟨?_, ?_, ?_, ?_, rfl, ?_⟩
    · have := (((Adv.of_quiet q12).trans hx.adv).trans hb).trans (hy.adv.trans (Adv.of_quiet qe))
      simpa [LCmd.toks, List.append_assoc] using this
    · simp only [LCmd.valid, hx.valid, hy.valid, hxt, hyt, beq_self_eq_true, Bool.and_self, Bool.true_and]
      cases op with
      | pipe =>
        simp only [Bool.and_eq_true, Bool.not_eq_true'] at hshape ⊢
        obtain ⟨⟨⟨s1, s2⟩, s3⟩, s4⟩ := hshape
        exact ⟨⟨⟨by rw [hx.neg]; exact s1, by rw [hy.neg]; exact s2⟩, by rw [hx.ao]; exact s3⟩, by rw [hy.bin]; exact s4⟩
      | andStmt => simpa [hy.ao] using hshape
      | orStmt => simpa [hy.ao] using hshape
    · simp [LCmd.norm, Cmd.norm, hx.norm, hy.norm]
    · cases op <;> rfl
    · refine ⟨by rw [qews]; exact hy.ws, by rw [qesum]; exact hy.sk, ?_⟩
      obtain ⟨l, e, hcl⟩ := hy.last hyt
      exact ⟨l, by rw [qesum]; exact e, hcl⟩
theorem gen_loop : ∀ (ss : Stmts), ss.wf = true → ss ≠ .nil → ∀ (p : P), PostG p → Pre p ss.lines →
    ∃ pre lt, ListOut p (p.stmtListLoop false ss) ss pre lt ∧ SepOK p pre
  | .nil, _, hne, _, _, _ => absurd rfl hne
  | .cons s rest, hwf, _, p, hp, hpre => by
    obtain ⟨hswf, hrwf⟩ := Stmts.wf_cons hwf
    have hlines : (Stmts.cons s rest).lines = s.lines ++ rest.lines := by simp [Stmts.lines]
    rw [hlines] at hpre
    obtain ⟨pre, t1, w1, o1, m1, f1, nlp, hsep⟩ := stmtSep_postG p hp s.pos.line
    have hposle := Stmt.pos_le_lines hpre
    have hpq : Pre (p.stmtSep false s.pos.line) s.lines :=
      ⟨(Pre.left hpre).1, fun l hl => le_stmtSep false _ ((Pre.left hpre).2 l hl) (hposle l hl)⟩
    have hprest : Pre ({ ((p.stmtSep false s.pos.line).stmt s) with wantNewline := true } : P) rest.lines :=
      Pre.next hpre (fun M h1 h2 => le_stmt s M _ (le_stmtSep false _ h1 (h2 _ (Stmt.pos_mem_lines s))) h2)
    have hrq : refuse (p.stmtSep false s.pos.line).o = false := by rw [o1]; exact hp.notRefused
    obtain ⟨ls, hs⟩ := gen_stmt s hswf _ w1 f1 m1 hrq hpq (fun _ e => absurd e nlp)
    obtain ⟨lt, hl⟩ := list_assemble hs m1 f1 rest
      (fun hne => gen_loop rest hrwf hne _ (postG_of_stmtOut hs m1 f1 hrq) hprest)
    have hunf : p.stmtListLoop false (.cons s rest) =
        P.stmtListLoop { ((p.stmtSep false s.pos.line).stmt s) with wantNewline := true } false rest := by
      rw [P.stmtListLoop]
    rw [hunf]
    refine ⟨pre, lt, ⟨?_, hl.valid, hl.norm, hl.fnl, hl.w, hl.sk, hl.o.trans o1, hl.ws, hl.first, hl.must, hl.wsemi,
      hl.last, hl.lastT⟩, hsep⟩
    rw [hl.toks, t1]
    simp [List.append_assoc]
end

/-! ### The whole file -/

/-- The printer half of the round trip for all of fragment F0 (simple commands, `!`, `&`, `;`,
    `&&`, `||`, `|`, subshells and blocks): for every option set, and every assignment of
    positions whose line numbers never decrease in source order, the bytes printed are a concrete
    syntax of the tree. -/
theorem print_in_Prints_gen (o : Opts) (f : File) (b : Bytes) (hwf : f.wf = true) (hmono : posMono f)
    (hne : f.stmts ≠ .nil) (hp : printFile o f = .ok b) :
    ∃ (ps : List Piece) (lt : LStmts), b = render ps ∧ lexChain ps = true ∧ lt.valid = true ∧
      expect false ps = nlT false ++ (lt.toks ++ [.eof]) ∧ lt.norm = f.norm := by
  unfold printFile at hp
  split at hp
  · cases hp
  · rename_i href
    have href' : refuse o = false := by simpa using href
    have hinv := ((Inv.init o).stmtList f.stmts hwf).newline 0
    rw [hinv.finish] at hp
    simp only [Except.ok.injEq] at hp
    subst hp
    obtain ⟨ss⟩ := f
    simp only at hwf hne
    unfold posMono at hmono
    simp only at hmono
    cases ss with
    | nil => exact absurd rfl hne
    | cons s rest =>
      obtain ⟨hswf, hrwf⟩ := Stmts.wf_cons hwf
      have hpre0 : Pre (P.init o) (s.lines ++ rest.lines) := by
        refine ⟨by simpa [Stmts.lines] using hmono, fun l _ => ?_⟩
        show 0 ≤ l
        exact Nat.zero_le l
      obtain ⟨s1, s2, s3, s4⟩ := stmtSep_first o s.pos.line
      have hw0 : W ((P.init o).stmtSep true s.pos.line) :=
        ⟨by simp [P.sum, s1, summarize], fun l hl _ => by simp [P.sum, s1, summarize] at hl⟩
      have hsum0 : ((P.init o).stmtSep true s.pos.line).sum.toks = [] := by simp [P.sum, s1, summarize]
      have hposle := Stmt.pos_le_lines hpre0
      have hpq : Pre ((P.init o).stmtSep true s.pos.line) s.lines :=
        ⟨(Pre.left hpre0).1, fun l hl => le_stmtSep true _ ((Pre.left hpre0).2 l hl) (hposle l hl)⟩
      have hprest : Pre ({ (((P.init o).stmtSep true s.pos.line).stmt s) with wantNewline := true } : P) rest.lines :=
        Pre.next hpre0 (fun M h1 h2 => le_stmt s M _ (le_stmtSep true _ h1 (h2 _ (Stmt.pos_mem_lines s))) h2)
      have hrq : refuse ((P.init o).stmtSep true s.pos.line).o = false := by rw [s4]; exact href'
      obtain ⟨ls, hs⟩ := gen_stmt s hswf _ hw0 s2 s3 hrq hpq (fun _ e => by simp [P.sum, s1, summarize] at e)
      obtain ⟨lt, hl⟩ := list_assemble hs s3 s2 rest
        (fun hne => gen_loop rest hrwf hne _ (postG_of_stmtOut hs s3 s2 hrq) hprest)
      have hunf : (P.init o).stmtListLoop true (.cons s rest) =
          P.stmtListLoop { (((P.init o).stmtSep true s.pos.line).stmt s) with wantNewline := true } false rest := by
        rw [P.stmtListLoop]
      rw [← hunf] at hl
      obtain ⟨pf, hpf⟩ : ∃ pf, pf = (P.init o).stmtListLoop true (.cons s rest) := ⟨_, rfl⟩
      rw [← hpf] at hl
      have ht : pf.sum.toks = lt.toks := by
        rw [hl.toks, hsum0]
        simp
      obtain ⟨f1, f2, f3⟩ := LStmts.withFinalNl_facts lt hl.fnl
      have hout : (((P.init o).stmtList (.cons s rest)).newline 0).out = .gap [10] :: pf.out := by
        have := (P.stmtListWith_out (P.init o) (.cons s rest) (fun q => q.stmtListLoop true (.cons s rest))).1
        unfold P.stmtList
        show Piece.gap [10] :: _ = _
        rw [this, hpf]
      refine ⟨_, lt.withFinalNl, rfl, ?_⟩
      have hsumF : summarize {} ((((P.init o).stmtList (.cons s rest)).newline 0).out.reverse) =
          pf.sum.step (.gap [10]) := by
        rw [hout]
        simp [P.sum, summarize, List.foldl_append]
      obtain ⟨c1, c2⟩ := lexChain_expect_init _ (by rw [hsumF, step_nl]; exact hl.w.ok) (by rw [hsumF, step_nl]; rfl)
      refine ⟨c1, by rw [f2]; exact hl.valid, ?_, by rw [f3, hl.norm]; rfl⟩
      rw [c2, hsumF, step_nl, hl.sk, ht, f1]
      simp [nlT]

/-- Both halves together: on all of F0, with monotone positions, printing and parsing again gives
    a tree with the same norm (every option set, every variant). -/
theorem roundtrip_gen (o : Opts) (l : Lang) (f : File) (b : Bytes) (hwf : f.wf = true) (hmono : posMono f)
    (hne : f.stmts ≠ .nil) (hp : printFile o f = .ok b) : ∃ f', parse l b = .ok f' ∧ f'.norm = f.norm := by
  obtain ⟨ps, lt, rfl, hc, hv, he, hn⟩ := print_in_Prints_gen o f b hwf hmono hne hp
  have hm := lexAll_pieces ps hc
  rw [he] at hm
  obtain ⟨f', h1, h2⟩ := parseToks_layout lt hv false (lexAll (render ps)) (lexAll_line _) hm
  exact ⟨f', h1, by rw [h2, hn]⟩

end ShVerif.L4
