/-
  L4 printer lemmas, part 2: the printer half of the round trip for all of fragment F0, i.e. also
  for subshells `( )` and blocks `{ }`, under the hypothesis that line numbers never decrease in
  source order (`posMono`, which is what a parser assigns).

  Part A bounds the printer's line counter, part B adds the summary steps for `(` `)` `{` `}`,
  part C the printer segments around nested lists, part D the mutual induction.
-/
import ShVerif.Proofs.L4Print
namespace ShVerif.L4

/-! ## A. The line counter never overtakes the source -/

theorem line_spacePad (p : P) : p.spacePad.line = p.line := by
  unfold P.spacePad; split <;> rfl

theorem line_indent (p : P) : p.indent.line = p.line := by
  unfold P.indent
  split
  · rfl
  · dsimp only
    split
    · rfl
    · split <;> rfl

theorem line_incLevel (p : P) : p.incLevel.line = p.line := by
  unfold P.incLevel
  split
  · rfl
  · split <;> rfl

theorem line_decLevel (p : P) : p.decLevel.line = p.line := by
  unfold P.decLevel; split <;> rfl

theorem line_bslashNewl (p : P) : p.bslashNewl.line = p.line + 1 := by
  unfold P.bslashNewl
  dsimp only
  rw [line_indent]
  split <;> rfl

theorem line_spacedString (p : P) (s : Bytes) : (p.spacedString s).line = p.line := by
  unfold P.spacedString
  exact line_spacePad p

theorem line_spacedToken (p : P) (s : Bytes) : (p.spacedToken s).line = p.line := by
  unfold P.spacedToken
  split
  · rfl
  · exact line_spacePad p

theorem line_advanceLine (p : P) (l : Nat) : (p.advanceLine l).line = max p.line l := rfl

theorem le_advanceLine {p : P} {M l : Nat} (h : p.line ≤ M) (hl : l ≤ M) : (p.advanceLine l).line ≤ M := by
  rw [line_advanceLine]; exact Nat.max_le.mpr ⟨h, hl⟩

theorem le_newline {p : P} {M l : Nat} (h : p.line ≤ M) (hl : l ≤ M) : (p.newline l).line ≤ M := by
  unfold P.newline
  exact le_advanceLine (p := { p.gapw [10] with wantSpace := .written, wantNewline := false, mustNewline := false }) h hl

theorem le_newlines {p : P} {M l : Nat} (h : p.line ≤ M) (hl : l ≤ M) : (p.newlines l).line ≤ M := by
  unfold P.newlines
  split
  · exact h
  · split
    · exact h
    · dsimp only
      rw [line_indent]
      apply le_advanceLine _ hl
      split <;> exact h

theorem le_rightParen {p : P} {M l : Nat} (h : p.line ≤ M) (hl : l ≤ M) : (p.rightParen l).line ≤ M := by
  unfold P.rightParen
  dsimp only
  split
  · exact le_newlines h hl
  · exact h

theorem le_semiRsrv {p : P} {M l : Nat} (s : Bytes) (h : p.line ≤ M) (hl : l ≤ M) : (p.semiRsrv s l).line ≤ M := by
  unfold P.semiRsrv
  dsimp only
  have key : ∀ q : P, q.line ≤ M → ((if (!q.o.minify) = true then q.spacePad else q).tok s).line ≤ M := by
    intro q hq
    split
    · show q.spacePad.line ≤ M
      rw [line_spacePad]; exact hq
    · exact hq
  split
  · exact le_newlines h hl
  · split
    · exact key (p.tok [59]) h
    · exact key p h

theorem partLines_stop (wp : WordPart) : wp.pos.line ∈ partLines wp ∧ wp.stop.line ∈ partLines wp := by
  cases wp with
  | lit a e v => simp [partLines, WordPart.pos, WordPart.stop]
  | sgl l r v =>
    simp only [partLines, WordPart.pos, WordPart.stop]
    split <;> simp

theorem le_wordPart {p : P} {M : Nat} (wp : WordPart) (h : p.line ≤ M) (hl : ∀ l ∈ partLines wp, l ≤ M) :
    (p.wordPart wp).line ≤ M := by
  cases wp with
  | lit a e v => exact le_advanceLine h (hl _ (by simp [partLines]))
  | sgl l r v =>
    unfold P.wordPart
    exact le_advanceLine (le_advanceLine h (hl _ (by simp [partLines]))) (hl _ (partLines_stop (.sgl l r v)).2)

theorem le_wordPartsLoop {M : Nat} : ∀ (wps : List WordPart) (p : P), p.line ≤ M →
    (∀ l ∈ wps.flatMap partLines, l ≤ M) → (p.wordPartsLoop wps).line ≤ M
  | [], p, h, _ => by unfold P.wordPartsLoop; exact h
  | wp :: rest, p, h, hl => by
    unfold P.wordPartsLoop
    apply le_wordPartsLoop rest
    · exact le_wordPart wp h (fun l hm => hl l (by simp [hm]))
    · exact fun l hm => hl l (by simp only [List.flatMap_cons, List.mem_append]; exact Or.inr hm)

theorem le_word {p : P} {M : Nat} (w : Word) (h : p.line ≤ M) (hl : ∀ l ∈ w.parts.flatMap partLines, l ≤ M) :
    (p.word w).line ≤ M := by
  unfold P.word P.wordParts
  cases hp : w.parts with
  | nil => exact h
  | cons wp rest =>
    dsimp only
    rw [hp] at hl
    apply le_wordPartsLoop (wp :: rest) _ _ hl
    have hpos : wp.pos.line ≤ M := hl _ (by simp [(partLines_stop wp).1])
    split
    · rename_i hg
      simp only [Bool.and_eq_true, Bool.not_eq_true', decide_eq_true_eq] at hg
      show p.bslashNewl.line ≤ M
      rw [line_bslashNewl]
      omega
    · exact h

theorem Word.pos_line_mem {w : Word} {pos : Pos} (h : w.pos? = some pos) : pos.line ∈ w.parts.flatMap partLines := by
  unfold Word.pos? at h
  cases hp : w.parts with
  | nil => simp [hp] at h
  | cons wp rest =>
    simp only [hp, List.head?_cons, Option.map_some, Option.some.injEq] at h
    subst h
    simp [(partLines_stop wp).1]

theorem le_wordJoinLoop {M : Nat} : ∀ (ws : List Word) (p : P) (any : Bool), p.line ≤ M →
    (∀ l ∈ ws.flatMap (fun w => w.parts.flatMap partLines), l ≤ M) → (p.wordJoinLoop any ws).1.line ≤ M
  | [], p, any, h, _ => by unfold P.wordJoinLoop; exact h
  | w :: rest, p, any, h, hl => by
    unfold P.wordJoinLoop
    have hw : ∀ l ∈ w.parts.flatMap partLines, l ≤ M := fun l hm => hl l (by simp [hm])
    have hr : ∀ l ∈ rest.flatMap (fun w => w.parts.flatMap partLines), l ≤ M :=
      fun l hm => hl l (by simp only [List.flatMap_cons, List.mem_append]; exact Or.inr hm)
    cases hpos : w.pos? with
    | none => exact h
    | some pos =>
      dsimp only
      have hpl : pos.line ≤ M := hw _ (Word.pos_line_mem hpos)
      split
      · rename_i hg
        simp only [Bool.and_eq_true, Bool.not_eq_true', decide_eq_true_eq] at hg
        apply le_wordJoinLoop rest _ _ _ hr
        apply le_word w _ hw
        rw [line_spacePad, line_bslashNewl]
        split
        · rw [line_incLevel]; omega
        · omega
      · apply le_wordJoinLoop rest _ _ _ hr
        apply le_word w _ hw
        rw [line_spacePad]
        exact h

theorem le_wordJoin {p : P} {M : Nat} (ws : List Word) (h : p.line ≤ M)
    (hl : ∀ l ∈ ws.flatMap (fun w => w.parts.flatMap partLines), l ≤ M) : (p.wordJoin ws).line ≤ M := by
  unfold P.wordJoin
  have := le_wordJoinLoop ws p false h hl
  split
  rename_i q any heq
  rw [heq] at this
  split
  · rw [line_decLevel]; exact this
  · exact this

theorem le_stmtPre {p : P} {M : Nat} (neg : Bool) (h : p.line ≤ M) : (p.stmtPre neg).line ≤ M := by
  unfold P.stmtPre
  dsimp only
  split
  · rw [line_spacedString]; exact h
  · exact h

theorem le_stmtEnd {p : P} {M : Nat} (semi : Pos) (bg : Bool) (h : p.line ≤ M) (hs : semi.valid = true → semi.line ≤ M) :
    (p.stmtEnd semi bg).line ≤ M := by
  unfold P.stmtEnd
  dsimp only
  rw [line_decLevel]
  split
  · show (if _ then _ else _ : P).line ≤ M
    by_cases hsep : (semi.valid && decide (semi.line > p.incLevel.line) && !p.incLevel.o.singleLine) = true
    · have hl : (if bg = true then (if (semi.valid && decide (semi.line > p.incLevel.line) && !p.incLevel.o.singleLine) = true
          then p.incLevel.bslashNewl else if (!p.incLevel.o.minify) = true then p.incLevel.space else p.incLevel).tok [38]
          else (if (semi.valid && decide (semi.line > p.incLevel.line) && !p.incLevel.o.singleLine) = true
          then p.incLevel.bslashNewl else if (!p.incLevel.o.minify) = true then p.incLevel.space else p.incLevel).tok [59]).line =
          p.incLevel.bslashNewl.line := by
        rw [if_pos hsep]
        split <;> rfl
      show (if bg = true then _ else _ : P).line ≤ M
      rw [hl, line_bslashNewl, line_incLevel]
      simp only [Bool.and_eq_true, decide_eq_true_eq, Bool.not_eq_true'] at hsep
      have := hs hsep.1.1
      rw [line_incLevel] at hsep
      omega
    · have hl : (if bg = true then (if (semi.valid && decide (semi.line > p.incLevel.line) && !p.incLevel.o.singleLine) = true
          then p.incLevel.bslashNewl else if (!p.incLevel.o.minify) = true then p.incLevel.space else p.incLevel).tok [38]
          else (if (semi.valid && decide (semi.line > p.incLevel.line) && !p.incLevel.o.singleLine) = true
          then p.incLevel.bslashNewl else if (!p.incLevel.o.minify) = true then p.incLevel.space else p.incLevel).tok [59]).line =
          p.incLevel.line := by
        rw [if_neg hsep]
        split <;> split <;> rfl
      show (if bg = true then _ else _ : P).line ≤ M
      rw [hl, line_incLevel]
      exact h
  · show p.incLevel.line ≤ M
    rw [line_incLevel]; exact h

theorem le_binaryOp {p : P} {M : Nat} (opPos : Pos) (op : BinOp) (yl : Nat) (yb : Bool) (h : p.line ≤ M)
    (ho : opPos.line ≤ M) (hy : yl ≤ M) : (p.binaryOp opPos op yl yb).1.line ≤ M := by
  unfold P.binaryOp
  split
  · exact le_advanceLine (by rw [line_spacedToken]; exact h) hy
  · rename_i hc
    simp only [Bool.or_eq_true, decide_eq_true_eq, not_or, Nat.not_le] at hc
    dsimp only
    apply le_advanceLine _ hy
    have h0 : (if (!p.nestedBinary) = true then p.incLevel else p).line = p.line := by
      split
      · exact line_incLevel p
      · rfl
    obtain ⟨q, hq, hql⟩ : ∃ q : P, q = (if (!p.nestedBinary) = true then p.incLevel else p) ∧ q.line = p.line :=
      ⟨_, rfl, h0⟩
    rw [← hq]
    split
    · rw [line_spacedToken, line_bslashNewl, hql]
      omega
    · rw [line_indent]
      apply le_newline _ (Nat.zero_le M)
      apply le_advanceLine _ ho
      rw [line_spacedToken, hql]
      exact h

theorem line_binaryEnd (p : P) (i m : Bool) : (p.binaryEnd i m).line = p.line := by
  unfold P.binaryEnd
  split
  · dsimp only
    split
    · exact line_decLevel p
    · rfl
  · rfl

theorem le_stmtSep {p : P} {M : Nat} (first : Bool) (l : Nat) (h : p.line ≤ M) (hl : l ≤ M) :
    (p.stmtSep first l).line ≤ M := by
  unfold P.stmtSep
  dsimp only
  apply le_advanceLine _ hl
  obtain ⟨q, hq, hql⟩ : ∃ q : P, q = (if (!first && p.o.singleLine && p.wantNewline && !p.wroteSemi) = true
      then ({ (p.tok [59]) with wantSpace := .required } : P) else p) ∧ q.line = p.line :=
    ⟨_, rfl, by split <;> rfl⟩
  rw [← hq]
  split
  · apply le_newlines _ hl
    rw [hql]; exact h
  · rw [hql]; exact h

theorem line_subshellOpen (p : P) (lp : Pos) (ss : Stmts) : (p.subshellOpen lp ss).line = p.line := by
  unfold P.subshellOpen
  dsimp only
  rw [line_spacePad]
  (repeat' split) <;> rfl

theorem line_closingParenSpace (p : P) (ss : Stmts) (a b : Nat) : (p.closingParenSpace ss a b).line = p.line := by
  unfold P.closingParenSpace
  dsimp only
  rw [line_spacePad]
  (repeat' split) <;> rfl

theorem le_nestedStmtsWith {p : P} {M : Nat} (ss : Stmts) (closing : Pos) (loop : P → P)
    (hloop : ∀ q : P, q.line ≤ M → (loop q).line ≤ M) (h : p.line ≤ M) :
    (p.nestedStmtsWith ss closing loop).line ≤ M := by
  unfold P.nestedStmtsWith
  dsimp only
  rw [line_decLevel]
  unfold P.stmtListWith
  dsimp only
  have h1 : ∀ q : P, q.line ≤ M → (match ss with
      | .cons _ .nil => if (!(q.wantNewline || (match ss with | .nil => false | .cons s _ => decide (s.pos.line > q.line)))) = true
          then ({ (loop q) with wantNewline := false } : P) else loop q
      | _ => loop q).line ≤ M := by
    intro q hq
    (repeat' split) <;> exact hloop q hq
  apply h1
  split
  · rw [line_incLevel]; exact h
  · split
    · rw [line_incLevel]; exact h
    · rw [line_incLevel]; exact h

mutual
theorem le_stmt : ∀ (s : Stmt) (M : Nat) (p : P), p.line ≤ M → (∀ l ∈ s.lines, l ≤ M) → (p.stmt s).line ≤ M
  | .mk pos semi neg bg cmd, M, p, h, hl => by
    unfold P.stmt
    apply le_stmtEnd
    · apply le_cmd cmd M _ (le_stmtPre neg h)
      intro l hm
      exact hl l (by simp [Stmt.lines, hm])
    · intro hv
      exact hl _ (by simp [Stmt.lines, hv])
theorem le_cmd : ∀ (c : Cmd) (M : Nat) (p : P), p.line ≤ M → (∀ l ∈ c.lines, l ≤ M) → (p.command c).line ≤ M
  | .call args, M, p, h, hl => by
    unfold P.command
    cases args with
    | nil => exact h
    | cons w rest =>
      dsimp only
      cases hpos : w.pos? with
      | none => exact h
      | some pos =>
        dsimp only
        have hw : ∀ l ∈ w.parts.flatMap partLines, l ≤ M := fun l hm => hl l (by simp [Cmd.lines, hm])
        have hr : ∀ l ∈ rest.flatMap (fun w => w.parts.flatMap partLines), l ≤ M :=
          fun l hm => hl l (by simp only [Cmd.lines, List.flatMap_cons, List.mem_append]; exact Or.inr hm)
        have h0 : ((p.advanceLine pos.line).spacePad.incLevel.decLevel).line ≤ M := by
          rw [line_decLevel, line_incLevel, line_spacePad]
          exact le_advanceLine h (hw _ (Word.pos_line_mem hpos))
        have h1 : (((p.advanceLine pos.line).spacePad.incLevel.decLevel).wordJoin [w]).line ≤ M :=
          le_wordJoin [w] h0 (by simpa using hw)
        split
        · exact h1
        · exact le_wordJoin rest h1 hr
  | .block lb rb ss, M, p, h, hl => by
    unfold P.command
    dsimp only
    apply le_semiRsrv _ _ (hl _ (by simp [Cmd.lines]))
    have hn : (P.nestedStmtsWith
        { ((p.advanceLine lb.line).spacePad.tok [123]) with
          wroteSemi := true, wantSpace := .required,
          wantNewline := ((p.advanceLine lb.line).spacePad.tok [123]).wantNewline ||
            ((p.advanceLine lb.line).spacePad.tok [123]).o.funcNextLine }
        ss rb (fun q => q.stmtListLoop true ss)).line ≤ M := by
      apply le_nestedStmtsWith
      · intro q hq
        exact le_loop ss M q true hq (fun l hm => hl l (by simp [Cmd.lines, hm]))
      · show ((p.advanceLine lb.line).spacePad).line ≤ M
        rw [line_spacePad]
        exact le_advanceLine h (hl _ (by simp [Cmd.lines]))
    split
    · exact hn
    · exact hn
  | .subshell lp rp ss, M, p, h, hl => by
    unfold P.command
    dsimp only
    apply le_rightParen _ (hl _ (by simp [Cmd.lines]))
    rw [line_closingParenSpace]
    apply le_nestedStmtsWith
    · intro q hq
      exact le_loop ss M q true hq (fun l hm => hl l (by simp [Cmd.lines, hm]))
    · rw [line_subshellOpen, line_spacePad]
      exact le_advanceLine h (hl _ (by simp [Cmd.lines]))
  | .binary opPos op x y, M, p, h, hl => by
    unfold P.command
    dsimp only
    rw [line_binaryEnd]
    have hx : ∀ l ∈ x.lines, l ≤ M := fun l hm => hl l (by simp [Cmd.lines, hm])
    have hy : ∀ l ∈ y.lines, l ≤ M := fun l hm => hl l (by simp [Cmd.lines, hm])
    have hxp : x.pos.line ≤ M := hx _ (by cases x; simp [Stmt.lines, Stmt.pos])
    have hyp : y.pos.line ≤ M := hy _ (by cases y; simp [Stmt.lines, Stmt.pos])
    apply le_stmt y M _ _ hy
    apply le_binaryOp _ _ _ _ _ (hl _ (by simp [Cmd.lines])) hyp
    apply le_stmt x M _ _ hx
    rw [line_spacePad]
    exact le_advanceLine h hxp
theorem le_loop : ∀ (ss : Stmts) (M : Nat) (p : P) (first : Bool), p.line ≤ M → (∀ l ∈ ss.lines, l ≤ M) →
    (p.stmtListLoop first ss).line ≤ M
  | .nil, M, p, first, h, _ => by unfold P.stmtListLoop; exact h
  | .cons s rest, M, p, first, h, hl => by
    unfold P.stmtListLoop
    dsimp only
    have hs : ∀ l ∈ s.lines, l ≤ M := fun l hm => hl l (by simp [Stmts.lines, hm])
    have hsp : s.pos.line ≤ M := hs _ (by cases s; simp [Stmt.lines, Stmt.pos])
    apply le_loop rest M _ false _ (fun l hm => hl l (by simp [Stmts.lines, hm]))
    exact le_stmt s M _ (le_stmtSep first _ h hsp) hs
end

/-! ## B. More summary steps: `(` `)` `{` `}`, and operators after `)` / `}` -/

theorem step_lparen (a : Sum) (h : ∀ l, a.last = some l → needsGap l = false ∧ l ≠ .op [40]) :
    a.step (.op [40]) = { last := some (.op [40]), sk := false, toks := a.toks ++ [.lparen], ok := a.ok } := by
  have key : ∀ l : Piece, needsGap l = false → l ≠ .op [40] → followOK l (some 40) = true := by
    intro l hn hne
    cases l with
    | word _ => simp [needsGap] at hn
    | gap _ => rfl
    | op b =>
      simp only [needsGap, Bool.or_eq_false_iff, beq_eq_false_iff_ne, ne_eq] at hn
      obtain ⟨⟨⟨h1, h2⟩, h3⟩, h4⟩ := hn
      have h5 : b ≠ [40] := fun e => hne (by rw [e])
      simp only [followOK, optAll, h4, h1, h2, h3, h5, or_self, ↓reduceIte]
      repeat' split
      all_goals first | rfl | decide
  simp only [Sum.step, pieceSk, pieceToks, Piece.shapeOK, Piece.first?, Piece.bytes, List.head?_cons,
    show opTok [40] = some ATok.lparen from by decide, Option.isSome_some, Bool.and_true]
  cases hl : a.last with
  | none => simp
  | some l => simp [key l (h l hl).1 (h l hl).2]

theorem step_rparen (a : Sum) (h : ∀ l, a.last = some l → l ≠ .op [40]) :
    a.step (.op [41]) = { last := some (.op [41]), sk := false, toks := a.toks ++ [.rparen], ok := a.ok } := by
  have key : ∀ l : Piece, l ≠ .op [40] → followOK l (some 41) = true := by
    intro l hne
    cases l with
    | word _ => rfl
    | gap _ => rfl
    | op b =>
      have h5 : b ≠ [40] := fun e => hne (by rw [e])
      simp only [followOK, optAll, h5, ↓reduceIte]
      repeat' split
      all_goals first | rfl | decide
  simp only [Sum.step, pieceSk, pieceToks, Piece.shapeOK, Piece.first?, Piece.bytes, List.head?_cons,
    show opTok [41] = some ATok.rparen from by decide, Option.isSome_some, Bool.and_true]
  cases hl : a.last with
  | none => simp
  | some l => simp [key l (h l hl)]

theorem step_lbrace (a : Sum) (h : ∀ l, a.last = some l → needsGap l = false) :
    a.step (.op [123]) = { last := some (.op [123]), sk := false, toks := a.toks ++ [.lbrace], ok := a.ok } := by
  have key : ∀ l : Piece, needsGap l = false → followOK l (some 123) = true := by
    intro l hn
    cases l with
    | word _ => simp [needsGap] at hn
    | gap _ => rfl
    | op b =>
      simp only [needsGap, Bool.or_eq_false_iff, beq_eq_false_iff_ne, ne_eq] at hn
      obtain ⟨⟨⟨h1, h2⟩, h3⟩, h4⟩ := hn
      simp only [followOK, optAll, h4, h1, h2, h3, or_self, ↓reduceIte]
      repeat' split
      all_goals first | rfl | decide
  simp only [Sum.step, pieceSk, pieceToks, Piece.shapeOK, Piece.first?, Piece.bytes, List.head?_cons,
    show opTok [123] = some ATok.lbrace from by decide, Option.isSome_some, Bool.and_true]
  cases hl : a.last with
  | none => simp
  | some l => simp [key l (h l hl)]

/-- `}` after layout or directly after `;` / `&` -/
theorem step_rbrace (a : Sum)
    (h : ∀ l, a.last = some l → (match l with | .gap _ => True | .op b => b = [59] ∨ b = [38] | .word _ => False)) :
    a.step (.op [125]) = { last := some (.op [125]), sk := false, toks := a.toks ++ [.rbrace], ok := a.ok } := by
  have key : ∀ l : Piece, (match l with | .gap _ => True | .op b => b = [59] ∨ b = [38] | .word _ => False) →
      followOK l (some 125) = true := by
    intro l hl
    cases l with
    | word _ => exact absurd hl (by simp)
    | gap _ => rfl
    | op b =>
      rcases hl with rfl | rfl <;> decide
  simp only [Sum.step, pieceSk, pieceToks, Piece.shapeOK, Piece.first?, Piece.bytes, List.head?_cons,
    show opTok [125] = some ATok.rbrace from by decide, Option.isSome_some, Bool.and_true]
  cases hl : a.last with
  | none => simp
  | some l => simp [key l (h l hl)]

/-- a piece that ends a command: a word, `)` or `}` -/
def Closed : Piece → Prop
  | .word _ => True
  | .op b => b = [41] ∨ b = [125]
  | .gap _ => False

/-- the last piece ends a command or is layout -/
def LastCG (p : P) : Prop := ∀ l, p.sum.last = some l → (match l with | .op b => b = [41] ∨ b = [125] | _ => True)

theorem LastCG.of_quiet {p q : P} (h : LastCG p) (hq : Quiet p q) : LastCG q := by
  intro l hl
  rcases hq.last with e | ⟨g, e⟩
  · exact h l (e ▸ hl)
  · rw [e] at hl; cases hl; trivial

theorem LastCG.of_closed {p : P} (h : ∃ l, p.sum.last = some l ∧ Closed l) : LastCG p := by
  intro l hl
  obtain ⟨l', e, hc⟩ := h
  rw [e] at hl; cases hl
  cases l with
  | word _ => trivial
  | op b => exact hc
  | gap _ => trivial

/-- `&&`, `||`, `|` after a word, `)`, `}` or layout -/
theorem step_binop' (a : Sum) (op : BinOp)
    (h : ∀ l, a.last = some l → (match l with | .op b => b = [41] ∨ b = [125] | _ => True)) :
    a.step (.op op.str) = { last := some (.op op.str), sk := false, toks := a.toks ++ [opA op], ok := a.ok } := by
  have key : ∀ l : Piece, (match l with | .op b => b = [41] ∨ b = [125] | _ => True) →
      followOK l (some 38) = true ∧ followOK l (some 124) = true := by
    intro l hl
    cases l with
    | word _ => exact ⟨rfl, rfl⟩
    | gap _ => exact ⟨rfl, rfl⟩
    | op x => rcases hl with rfl | rfl <;> exact ⟨by decide, by decide⟩
  cases op with
  | andStmt =>
    simp only [Sum.step, pieceSk, pieceToks, Piece.shapeOK, Piece.first?, Piece.bytes, BinOp.str, List.head?_cons,
      show opTok [38, 38] = some ATok.andAnd from by decide, Option.isSome_some, Bool.and_true, opA]
    cases hl : a.last with
    | none => simp
    | some l => simp [(key l (h l hl)).1]
  | orStmt =>
    simp only [Sum.step, pieceSk, pieceToks, Piece.shapeOK, Piece.first?, Piece.bytes, BinOp.str, List.head?_cons,
      show opTok [124, 124] = some ATok.orOr from by decide, Option.isSome_some, Bool.and_true, opA]
    cases hl : a.last with
    | none => simp
    | some l => simp [(key l (h l hl)).2]
  | pipe =>
    simp only [Sum.step, pieceSk, pieceToks, Piece.shapeOK, Piece.first?, Piece.bytes, BinOp.str, List.head?_cons,
      show opTok [124] = some ATok.pipe from by decide, Option.isSome_some, Bool.and_true, opA]
    cases hl : a.last with
    | none => simp
    | some l => simp [(key l (h l hl)).2]

/-! ## C. Printer segments around nested lists -/

/-- the last piece is not `(` -/
def NotLp (p : P) : Prop := p.sum.last ≠ some (.op [40])

theorem NotLp.of_quiet {p q : P} (h : NotLp p) (hq : Quiet p q) : NotLp q := by
  intro e
  rcases hq.last with e' | ⟨g, e'⟩
  · exact h (e' ▸ e)
  · rw [e'] at e; cases e

theorem NotLp.of_closed {p : P} (h : ∃ l, p.sum.last = some l ∧ Closed l) : NotLp p := by
  intro e
  obtain ⟨l, e', hc⟩ := h
  rw [e] at e'; cases e'
  rcases hc with hc | hc <;> cases hc

/-- what `newlines` establishes when it writes -/
structure NlOut (p p' : P) : Prop where
  toks : p'.sum.toks = p.sum.toks ++ (if p.sum.sk then [] else [.newl])
  w : W p'
  sk : p'.sum.sk = true
  o : p'.o = p.o
  must : p'.mustNewline = false
  first : p'.firstLine = false
  ws : p'.wantSpace ≠ .required
  last : ∃ g, p'.sum.last = some (.gap g)
  wsemi : p'.wroteSemi = p.wroteSemi

theorem NlOut.advance {p p' : P} (h : NlOut p p') (l : Nat) : NlOut p (p'.advanceLine l) :=
  ⟨h.toks, ⟨h.w.ok, h.w.gap⟩, h.sk, h.o, h.must, h.first, h.ws, h.last, h.wsemi⟩

/-- `newlines` once the first line is over -/
theorem newlines_gen (p : P) (hok : p.sum.ok = true) (hf : p.firstLine = false) (l : Nat) :
    (p.wantsNewline l false = false → p.newlines l = p) ∧
    (p.wantsNewline l false = true → NlOut p (p.newlines l)) := by
  constructor
  · intro h
    unfold P.newlines
    simp [hf, h]
  · intro hwn
    unfold P.newlines
    simp only [hf, Bool.false_eq_true, ↓reduceIte, hwn, Bool.not_true]
    let q1 : P := { (p.gapw [10]) with wantSpace := .written, wantNewline := false, mustNewline := false }
    have hs1 : q1.sum = p.sum.step (.gap [10]) := P.sum_push p _ _ rfl
    have hw1 : W q1 := ⟨by rw [hs1, step_nl]; exact hok, by
      intro x hx hn
      rw [hs1, step_nl] at hx
      simp only [Option.some.injEq] at hx
      subst hx
      simp [needsGap] at hn⟩
    have h2 : ∃ q2 : P, q2 = (if (decide (l > q1.line + 1) && !q1.o.minify) = true then q1.gapw [10] else q1) ∧
        q2.sum.toks = q1.sum.toks ∧ q2.sum.sk = true ∧ W q2 ∧ q2.o = p.o ∧ q2.mustNewline = false ∧
        q2.firstLine = false ∧ q2.wantSpace = .written ∧ (∃ g, q2.sum.last = some (.gap g)) ∧
        q2.wroteSemi = p.wroteSemi := by
      refine ⟨_, rfl, ?_⟩
      split
      · have hs2 : (q1.gapw [10]).sum = q1.sum.step (.gap [10]) := P.sum_push q1 _ _ rfl
        have hsk1 : q1.sum.sk = true := by rw [hs1, step_nl]
        refine ⟨by rw [hs2, step_nl, hsk1]; simp, by rw [hs2, step_nl], ⟨by rw [hs2, step_nl]; exact hw1.ok, ?_⟩, rfl, rfl, hf,
          rfl, ⟨[10], by rw [hs2, step_nl]⟩, rfl⟩
        intro x hx hn
        rw [hs2, step_nl] at hx
        simp only [Option.some.injEq] at hx
        subst hx
        simp [needsGap] at hn
      · exact ⟨rfl, by rw [hs1, step_nl], hw1, rfl, rfl, hf, rfl, ⟨[10], by rw [hs1, step_nl]⟩, rfl⟩
    obtain ⟨q2, hq2, t2, k2, w2, o2, m2, f2, ws2, l2, ws2'⟩ := h2
    show NlOut p ((if (decide (l > q1.line + 1) && !q1.o.minify) = true then q1.gapw [10] else q1).advanceLine l).indent
    rw [← hq2]
    have qa := Quiet.advanceLine w2 l
    obtain ⟨qi, hiw⟩ := Quiet.indent qa.w
    have q := qa.trans qi
    refine ⟨?_, q.w, by rw [q.sk, k2], by rw [q.same.o, o2], by rw [q.same.must, m2], by rw [q.same.first, f2], ?_, ?_,
      by rw [q.same.wsemi, ws2']⟩
    · rw [q.toks, t2, hs1, step_nl]
    · rw [hiw]
      show q2.wantSpace ≠ .required
      rw [ws2]; simp
    · rcases q.last with e | e
      · obtain ⟨g, hg⟩ := l2
        exact ⟨g, e.trans hg⟩
      · exact e

/-- the separator before the first statement of a list: the condition under which `newlines` runs -/
def P.sepCond (p : P) : Bool := p.mustNewline || !p.o.minify || decide (p.wantSpace = .required)

theorem stmtSep_first_eq (p : P) (l : Nat) :
    p.stmtSep true l = (if p.sepCond then p.newlines l else p).advanceLine l := by
  unfold P.stmtSep P.sepCond
  simp

/-- `( … )` up to and including the layout after `(` -/
structure OpenOut (p r : P) (lp : Pos) (s : Stmt) (restLen : Nat) : Prop where
  toks : r.sum.toks = p.sum.toks ++ [.lparen]
  w : W r
  o : r.o = p.o
  first : r.firstLine = p.firstLine
  sk : r.sum.sk = false
  wsemi : r.wroteSemi = p.wroteSemi
  line : r.line = max p.line lp.line
  must : p.mustNewline = false → r.mustNewline = true → r.o.minify = true
  notWord : ∀ l, r.sum.last = some l → needsGap l = false
  wnl : r.wantNewline = p.wantNewline
  opened : s.startsWithLparen = true → (∃ g, r.sum.last = some (.gap g)) ∨
    (r.o.singleLine = false ∧ (lp.line ≠ s.pos.line ∨ restLen > 0) ∧ (r.o.minify = true → r.mustNewline = true))

theorem spacePad_notLp (p : P) (_hw : W p) (hlp : p.sum.last = some (.op [40]) → p.wantSpace = .required) :
    NotLp p.spacePad := by
  unfold P.spacePad
  split
  · intro e
    have hsum : (P.sum { p.gapw [32] with wantSpace := .written }) = p.sum.step (.gap [32]) := P.sum_push p _ _ rfl
    rw [hsum, step_space] at e
    cases e
  · rename_i h
    intro e
    exact h (hlp e)

theorem subshellOpen_out (p : P) (hw : W p) (hlp : p.sum.last = some (.op [40]) → p.wantSpace = .required)
    (lp : Pos) (s : Stmt) (rest : Stmts) :
    OpenOut p ((p.advanceLine lp.line).spacePad.subshellOpen lp (.cons s rest)) lp s rest.length := by
  have qa := Quiet.advanceLine hw lp.line
  obtain ⟨qs, hqs⟩ := Quiet.spacePad qa.w
  have hnl : NotLp (p.advanceLine lp.line).spacePad := spacePad_notLp _ qa.w hlp
  have hfree := qs.w.free hqs
  let q0 : P := (p.advanceLine lp.line).spacePad
  let q1 : P := q0.tok [40]
  have hs1 : q1.sum = q0.sum.step (.op [40]) := P.sum_push q0 _ _ rfl
  have hst := step_lparen q0.sum (fun l hl => ⟨hfree l hl, fun e => hnl (by rw [hl, e])⟩)
  have hq0 := qa.trans qs
  have hline : q0.line = max p.line lp.line := by
    show (p.advanceLine lp.line).spacePad.line = _
    rw [line_spacePad]; rfl
  -- the state after `(` with any `wantSpace` and `mustNewline` that is not padded
  have hplain : ∀ (ws : WS) (mn : Bool), ws ≠ .required →
      ∀ r : P, r = ({ q1 with wantSpace := ws, mustNewline := mn } : P).spacePad →
      r.sum.toks = p.sum.toks ++ [.lparen] ∧ W r ∧ r.o = p.o ∧ r.firstLine = p.firstLine ∧ r.sum.sk = false ∧
      r.wroteSemi = p.wroteSemi ∧ r.line = max p.line lp.line ∧ r.mustNewline = mn ∧
      r.sum.last = some (.op [40]) ∧ r.wantNewline = p.wantNewline := by
    intro ws mn hws r hr
    have hsp : ({ q1 with wantSpace := ws, mustNewline := mn } : P).spacePad = { q1 with wantSpace := ws, mustNewline := mn } := by
      unfold P.spacePad
      rw [if_neg hws]
    rw [hsp] at hr
    subst hr
    have hsum : (P.sum { q1 with wantSpace := ws, mustNewline := mn }) = q0.sum.step (.op [40]) := hs1
    refine ⟨by rw [hsum, hst, hq0.toks], ⟨by rw [hsum, hst]; exact hq0.w.ok, ?_⟩, hq0.same.o, hq0.same.first,
      by rw [hsum, hst], hq0.same.wsemi, hline, rfl, by rw [hsum, hst], hq0.same.wnl⟩
    intro l hl hn
    rw [hsum, hst] at hl
    simp only [Option.some.injEq] at hl
    subst hl
    simp [needsGap] at hn
  unfold P.subshellOpen
  dsimp only
  cases hsl : s.startsWithLparen with
  | false =>
    simp only [Bool.false_eq_true, ↓reduceIte]
    obtain ⟨t, w, o, f, k, ws, ln, mn, la, wn⟩ := hplain .notRequired q1.mustNewline (by simp) _ rfl
    refine ⟨t, w, o, f, k, ws, ln, ?_, ?_, wn, fun h => by simp [hsl] at h⟩
    · intro hm hr
      rw [mn] at hr
      have : q1.mustNewline = p.mustNewline := hq0.same.must
      rw [this, hm] at hr
      cases hr
    · intro l hl
      rw [la] at hl
      cases hl
      rfl
  | true =>
    simp only [↓reduceIte]
    by_cases hc : ((decide (lp.line ≠ s.pos.line) || decide (rest.length > 0)) && !q1.o.singleLine) = true
    · have hc' : ((lp.line != s.pos.line || decide (rest.length > 0)) && !q1.o.singleLine) = true := by
        simpa [bne_iff_ne] using hc
      rw [if_pos hc']
      have ho1 : q1.o = p.o := hq0.same.o
      simp only [Bool.and_eq_true, Bool.or_eq_true, decide_eq_true_eq, Bool.not_eq_true'] at hc
      cases hmin : q1.o.minify with
      | true =>
        simp only [↓reduceIte]
        obtain ⟨t, w, o, f, k, ws, ln, mn, la, wn⟩ := hplain .notRequired true (by simp) _ rfl
        refine ⟨t, w, o, f, k, ws, ln, fun _ _ => by rw [o, ← ho1]; exact hmin, ?_, wn, fun _ => Or.inr ⟨?_, hc.1, fun _ => mn⟩⟩
        · intro l hl
          rw [la] at hl; cases hl; rfl
        · rw [o, ← ho1]; exact hc.2
      | false =>
        simp only [Bool.false_eq_true, ↓reduceIte]
        obtain ⟨t, w, o, f, k, ws, ln, mn, la, wn⟩ := hplain .notRequired q1.mustNewline (by simp) _ rfl
        refine ⟨t, w, o, f, k, ws, ln, ?_, ?_, wn, fun _ => Or.inr ⟨?_, hc.1, ?_⟩⟩
        · intro hm hr
          rw [mn] at hr
          have : q1.mustNewline = p.mustNewline := hq0.same.must
          rw [this, hm] at hr
          cases hr
        · intro l hl
          rw [la] at hl; cases hl; rfl
        · rw [o, ← ho1]; exact hc.2
        · intro h
          rw [o, ← ho1, hmin] at h
          cases h
    · have hc' : ¬ ((lp.line != s.pos.line || decide (rest.length > 0)) && !q1.o.singleLine) = true := by
        simpa [bne_iff_ne] using hc
      rw [if_neg hc']
      -- a blank after `(`
      let q2 : P := { q1 with wantSpace := .required }
      have hq2 : (P.sum q2) = q0.sum.step (.op [40]) := hs1
      have hpad : q2.spacePad = { q2.gapw [32] with wantSpace := .written } := by
        unfold P.spacePad
        rw [if_pos rfl]
      show OpenOut p q2.spacePad lp s rest.length
      rw [hpad]
      have hsum : (P.sum { q2.gapw [32] with wantSpace := .written }) = (q0.sum.step (.op [40])).step (.gap [32]) := by
        rw [← hq2]
        exact P.sum_push q2 _ _ rfl
      refine ⟨by rw [hsum, step_space, hst, hq0.toks], ⟨by rw [hsum, step_space, hst]; exact hq0.w.ok, ?_⟩, hq0.same.o,
        hq0.same.first, by rw [hsum, step_space, hst], hq0.same.wsemi, hline, ?_, ?_, hq0.same.wnl,
        fun _ => Or.inl ⟨[32], by rw [hsum, step_space]⟩⟩
      · intro l hl hn
        rw [hsum, step_space] at hl
        simp only [Option.some.injEq] at hl
        subst hl
        simp [needsGap] at hn
      · intro hm hr
        have : q1.mustNewline = p.mustNewline := hq0.same.must
        have hr' : q1.mustNewline = true := hr
        rw [this, hm] at hr'
        cases hr'
      · intro l hl
        rw [hsum, step_space] at hl
        simp only [Option.some.injEq] at hl
        subst hl
        rfl

end ShVerif.L4
