import ShVerif.Model.C15
/-
  Helper lemmas for C15 (typed JSON).
-/
namespace ShVerif.C15

/-! ### positions -/

theorem pack_unpack (lc : Nat) (h : lc < 4294967296) :
    u32 (u32 (lc >>> 14) <<< 14) ||| u32 (lc &&& 16383) = lc := by
  have h1 : lc >>> 14 = lc / 16384 := by rw [Nat.shiftRight_eq_div_pow]
  have h2 : lc &&& 16383 = lc % 16384 := by
    have := Nat.and_two_pow_sub_one_eq_mod lc 14
    simpa using this
  have h3 : u32 (lc / 16384) = lc / 16384 := by unfold u32; omega
  have h4 : (lc / 16384) <<< 14 = lc / 16384 * 16384 := by rw [Nat.shiftLeft_eq]
  have h5 : u32 (lc / 16384 * 16384) = lc / 16384 * 16384 := by unfold u32; omega
  have h6 : u32 (lc % 16384) = lc % 16384 := by unfold u32; omega
  rw [h1, h2, h3, h4, h5, h6]
  have := Nat.shiftLeft_add_eq_or_of_lt (a := lc / 16384) (b := lc % 16384) (i := 14) (by omega)
  rw [Nat.shiftLeft_eq] at this
  rw [← this]
  omega

theorem line_le (lc : Nat) (h : lc < 4294967296) : lc >>> 14 ≤ 262143 := by
  rw [Nat.shiftRight_eq_div_pow]; omega

theorem col_le (lc : Nat) : lc &&& 16383 ≤ 16383 := by
  have := Nat.and_two_pow_sub_one_eq_mod lc 14
  have h2 : lc &&& 16383 = lc % 16384 := by simpa using this
  rw [h2]; omega

theorem consts_eval : offsetMax = 4294967284 ∧ offsetRecovered = 4294967285 ∧ lineMax = 262143 ∧
    colMax = 16383 ∧ colBitSize = 14 ∧ colBitMask = 16383 ∧ maxUint32 = 4294967295 := by decide

/-- `NewPos(p.Offset(), p.Line(), p.Col()) = p` for every position whose offset is not one of the
    reserved invalid ones. -/
theorem newPos_parts (p : Pos) (hr : p.inRange = true) (ho : p.offs ≤ offsetMax) :
    newPos p.offset p.line p.col = p := by
  obtain ⟨c1, c2, c3, c4, c5, c6, c7⟩ := consts_eval
  cases p with
  | mk offs lc =>
    simp only [Pos.inRange, Bool.and_eq_true, decide_eq_true_eq] at hr
    simp only at ho
    have hl := line_le lc hr.2
    have hc := col_le lc
    simp only [newPos, Pos.offset, Pos.line, Pos.col, c1, c3, c4, c5, c6] at *
    have e1 : ¬ offs > 4294967284 := by omega
    have e2 : ¬ lc >>> 14 > 262143 := by omega
    have e3 : ¬ lc &&& 16383 > 16383 := by omega
    simp only [e1, e2, e3, if_false]
    have e4 : min offs 4294967284 = offs := by omega
    have e5 : u32 offs = offs := by unfold u32; omega
    rw [e4, e5, pack_unpack lc hr.2]

theorem jsonUint_ofNat (n : Nat) (h : n ≤ 4294967295) : jsonUint (.num (n : Int)) = some n := by
  have c : maxUint32 = 4294967295 := by decide
  simp only [jsonUint, c]
  have : ¬ ((n : Int) < 0 ∨ (n : Int) > ((4294967295 : Nat) : Int)) := by omega
  simp only [this, if_false, Int.toNat_natCast]

theorem posField_num (kvs : List (String × J)) (name : String) (n : Nat) (h : n ≤ 4294967295)
    (hk : kvs.lookup name = some (.num (n : Int))) : posField kvs name = .ok n := by
  simp only [posField, hk, jsonUint_ofNat n h]

/-- `decodePos` inverts `encodePos` on valid positions. -/
theorem decodePos_encPos (p : Pos) (hr : p.inRange = true) (hv : p.isValid = true) :
    ∃ j, encPos p = some j ∧ decodePos j = .ok p := by
  obtain ⟨c1, c2, c3, c4, c5, c6, c7⟩ := consts_eval
  have ho : p.offs ≤ offsetMax := by
    simp only [Pos.isValid, Bool.and_eq_true, decide_eq_true_eq] at hv; exact hv.1
  refine ⟨.obj [("Offset", .num p.offset), ("Line", .num p.line), ("Col", .num p.col)], by simp only [encPos, hv, if_true], ?_⟩
  have hr' := hr
  simp only [Pos.inRange, Bool.and_eq_true, decide_eq_true_eq] at hr'
  have b1 : p.offset ≤ 4294967295 := by
    simp only [Pos.offset]; split <;> omega
  have b2 : p.line ≤ 4294967295 := by
    have := line_le p.lineCol hr'.2
    simp only [Pos.line, c5]; omega
  have b3 : p.col ≤ 4294967295 := by
    have := col_le p.lineCol
    simp only [Pos.col, c6]; omega
  have l1 := posField_num [("Offset", J.num p.offset), ("Line", J.num p.line), ("Col", J.num p.col)] "Offset" p.offset b1 (by rfl)
  have l2 := posField_num [("Offset", J.num p.offset), ("Line", J.num p.line), ("Col", J.num p.col)] "Line" p.line b2 (by rfl)
  have l3 := posField_num [("Offset", J.num p.offset), ("Line", J.num p.line), ("Col", J.num p.col)] "Col" p.col b3 (by rfl)
  simp only [decodePos, l1, l2, l3, posFieldNames, List.length_cons, List.length_nil, ne_eq, not_true_eq_false, if_false]
  rw [newPos_parts p hr ho]

/-! ### Decode never reaches a panicking reflect call -/

theorem posField_no_panic (kvs : List (String × J)) (name : String) : posField kvs name ≠ .panic := by
  unfold posField
  split
  · simp
  · split <;> simp
  · simp
  · simp

theorem decodePos_no_panic (j : J) : decodePos j ≠ .panic := by
  unfold decodePos
  split
  · split
    · simp
    · have h1 := posField_no_panic ‹_› "Offset"
      have h2 := posField_no_panic ‹_› "Line"
      have h3 := posField_no_panic ‹_› "Col"
      split
      · split
        · split
          · simp
          · simp
          · contradiction
        · simp
        · contradiction
      · simp
      · contradiction
  · simp

mutual
  theorem decodeValue_no_panic (σ : Schema) : ∀ (j : J) (τ : GoType), decodeValue σ true τ j ≠ .panic
    | .obj kvs, τ => by
      unfold decodeValue
      split
      · simp
      · have := decodeFields_no_panic σ kvs ‹_› (zeroFields ‹_›)
        split
        · simp
        · simp
        · contradiction
    | .arr xs, τ => by
      unfold decodeValue
      split
      · have := decodeElems_no_panic σ xs ‹_›
        split
        · simp
        · simp
        · simp
        · contradiction
      · simp
    | .str s, τ => by
      unfold decodeValue
      split
      · simp
      · simp only [if_true]; split <;> simp
      · simp
    | .num n, τ => by
      unfold decodeValue
      split
      · split
        · simp only [if_true]
          split
          · simp
          · split
            · split <;> simp
            · simp
        · simp
      · simp
    | .frac, τ => by
      unfold decodeValue
      split
      · split
        · simp only [if_true]; split <;> simp
        · simp
      · simp
    | .bool b, τ => by
      unfold decodeValue
      split <;> simp
    | .null, τ => by
      unfold decodeValue
      simp
  theorem decodeFields_no_panic (σ : Schema) : ∀ (kvs : List (String × J)) (ftys : List (String × GoType))
      (acc : List (String × Val)), decodeFields σ ftys kvs acc ≠ .panic
    | [], ftys, acc => by unfold decodeFields; simp
    | (k, jv) :: rest, ftys, acc => by
      unfold decodeFields
      split
      · exact decodeFields_no_panic σ rest ftys acc
      · split
        · simp
        · have := decodePos_no_panic jv
          split
          · exact decodeFields_no_panic σ rest ftys _
          · simp
          · contradiction
        · have := decodeValue_no_panic σ jv ‹_›
          split
          · exact decodeFields_no_panic σ rest ftys _
          · simp
          · contradiction
  theorem decodeElems_no_panic (σ : Schema) : ∀ (xs : List J) (ε : GoType), decodeElems σ ε xs ≠ .panic
    | [], ε => by unfold decodeElems; simp
    | x :: rest, ε => by
      unfold decodeElems
      have h1 := decodeValue_no_panic σ x ε
      have h2 := decodeElems_no_panic σ rest ε
      split
      · split
        · simp
        · simp
        · contradiction
      · simp
      · contradiction
end

theorem decodeRoot_no_panic (σ : Schema) (j : J) : decodeRoot σ j ≠ .panic := by
  unfold decodeRoot
  have := decodeValue_no_panic σ j (.iface "Node")
  split
  · simp
  · assumption

end ShVerif.C15
