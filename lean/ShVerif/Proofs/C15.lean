import ShVerif.Model.C15
/-
  Helper lemmas for C15 (typed JSON).
-/
namespace ShVerif.C15

/-! ### positions -/

theorem pack_unpack (lc : Nat) (h : lc < 4294967296) :
    u32 (u32 (lc >>> 14) <<< 14) ||| u32 (lc &&& 16383) = lc := by
  have h1 : lc >>> 14 = lc / 16384 := by rw [Nat.shiftRight_eq_div_pow]
  have h2 : lc &&& 16383 = lc % 16384 := by
    have := Nat.and_two_pow_sub_one_eq_mod lc 14
    simpa using this
  have h3 : u32 (lc / 16384) = lc / 16384 := by unfold u32; omega
  have h4 : (lc / 16384) <<< 14 = lc / 16384 * 16384 := by rw [Nat.shiftLeft_eq]
  have h5 : u32 (lc / 16384 * 16384) = lc / 16384 * 16384 := by unfold u32; omega
  have h6 : u32 (lc % 16384) = lc % 16384 := by unfold u32; omega
  rw [h1, h2, h3, h4, h5, h6]
  have := Nat.shiftLeft_add_eq_or_of_lt (a := lc / 16384) (b := lc % 16384) (i := 14) (by omega)
  rw [Nat.shiftLeft_eq] at this
  rw [← this]
  omega

theorem line_le (lc : Nat) (h : lc < 4294967296) : lc >>> 14 ≤ 262143 := by
  rw [Nat.shiftRight_eq_div_pow]; omega

theorem col_le (lc : Nat) : lc &&& 16383 ≤ 16383 := by
  have := Nat.and_two_pow_sub_one_eq_mod lc 14
  have h2 : lc &&& 16383 = lc % 16384 := by simpa using this
  rw [h2]; omega

theorem consts_eval : offsetMax = 4294967284 ∧ offsetRecovered = 4294967285 ∧ lineMax = 262143 ∧
    colMax = 16383 ∧ colBitSize = 14 ∧ colBitMask = 16383 ∧ maxUint32 = 4294967295 := by decide

/-- `NewPos(p.Offset(), p.Line(), p.Col()) = p` for every position whose offset is not one of the
    reserved invalid ones. -/
theorem newPos_parts (p : Pos) (hr : p.inRange = true) (ho : p.offs ≤ offsetMax) :
    newPos p.offset p.line p.col = p := by
  obtain ⟨c1, c2, c3, c4, c5, c6, c7⟩ := consts_eval
  cases p with
  | mk offs lc =>
    simp only [Pos.inRange, Bool.and_eq_true, decide_eq_true_eq] at hr
    simp only at ho
    have hl := line_le lc hr.2
    have hc := col_le lc
    simp only [newPos, Pos.offset, Pos.line, Pos.col, c1, c3, c4, c5, c6] at *
    have e1 : ¬ offs > 4294967284 := by omega
    have e2 : ¬ lc >>> 14 > 262143 := by omega
    have e3 : ¬ lc &&& 16383 > 16383 := by omega
    simp only [e1, e2, e3, if_false]
    have e4 : min offs 4294967284 = offs := by omega
    have e5 : u32 offs = offs := by unfold u32; omega
    rw [e4, e5, pack_unpack lc hr.2]

theorem jsonUint_ofNat (n : Nat) (h : n ≤ 4294967295) : jsonUint (.num (n : Int)) = some n := by
  have c : maxUint32 = 4294967295 := by decide
  simp only [jsonUint, c]
  have : ¬ ((n : Int) < 0 ∨ (n : Int) > ((4294967295 : Nat) : Int)) := by omega
  simp only [this, if_false, Int.toNat_natCast]

theorem posField_num (kvs : List (String × J)) (name : String) (n : Nat) (h : n ≤ 4294967295)
    (hk : kvs.lookup name = some (.num (n : Int))) : posField kvs name = .ok n := by
  simp only [posField, hk, jsonUint_ofNat n h]

/-- `decodePos` inverts `encodePos` on valid positions. -/
theorem decodePos_encPos (p : Pos) (hr : p.inRange = true) (hv : p.isValid = true) :
    ∃ j, encPos p = some j ∧ decodePos j = .ok p := by
  obtain ⟨c1, c2, c3, c4, c5, c6, c7⟩ := consts_eval
  have ho : p.offs ≤ offsetMax := by
    simp only [Pos.isValid, Bool.and_eq_true, decide_eq_true_eq] at hv; exact hv.1
  refine ⟨.obj [("Offset", .num p.offset), ("Line", .num p.line), ("Col", .num p.col)], by simp only [encPos, hv, if_true], ?_⟩
  have hr' := hr
  simp only [Pos.inRange, Bool.and_eq_true, decide_eq_true_eq] at hr'
  have b1 : p.offset ≤ 4294967295 := by
    simp only [Pos.offset]; split <;> omega
  have b2 : p.line ≤ 4294967295 := by
    have := line_le p.lineCol hr'.2
    simp only [Pos.line, c5]; omega
  have b3 : p.col ≤ 4294967295 := by
    have := col_le p.lineCol
    simp only [Pos.col, c6]; omega
  have l1 := posField_num [("Offset", J.num p.offset), ("Line", J.num p.line), ("Col", J.num p.col)] "Offset" p.offset b1 (by rfl)
  have l2 := posField_num [("Offset", J.num p.offset), ("Line", J.num p.line), ("Col", J.num p.col)] "Line" p.line b2 (by rfl)
  have l3 := posField_num [("Offset", J.num p.offset), ("Line", J.num p.line), ("Col", J.num p.col)] "Col" p.col b3 (by rfl)
  simp only [decodePos, l1, l2, l3, posFieldNames, List.length_cons, List.length_nil, ne_eq, not_true_eq_false, if_false]
  rw [newPos_parts p hr ho]

/-! ### Decode never reaches a panicking reflect call -/

theorem posField_no_panic (kvs : List (String × J)) (name : String) : posField kvs name ≠ .panic := by
  unfold posField
  split
  · simp
  · split <;> simp
  · simp
  · simp

theorem decodePos_no_panic (j : J) : decodePos j ≠ .panic := by
  unfold decodePos
  split
  · split
    · simp
    · have h1 := posField_no_panic ‹_› "Offset"
      have h2 := posField_no_panic ‹_› "Line"
      have h3 := posField_no_panic ‹_› "Col"
      split
      · split
        · split
          · simp
          · simp
          · contradiction
        · simp
        · contradiction
      · simp
      · contradiction
  · simp

mutual
  theorem decodeValue_no_panic (σ : Schema) : ∀ (j : J) (τ : GoType), decodeValue σ true τ j ≠ .panic
    | .obj kvs, τ => by
      unfold decodeValue
      split
      · simp
      · have := decodeFields_no_panic σ kvs ‹_› (zeroFields ‹_›)
        split
        · simp
        · simp
        · contradiction
    | .arr xs, τ => by
      unfold decodeValue
      split
      · have := decodeElems_no_panic σ xs ‹_›
        split
        · simp
        · simp
        · simp
        · contradiction
      · simp
    | .str s, τ => by
      unfold decodeValue
      split
      · simp
      · simp only [if_true]; split <;> simp
      · simp
    | .num n, τ => by
      unfold decodeValue
      split
      · split
        · simp only [if_true]
          split
          · simp
          · split
            · split <;> simp
            · simp
        · simp
      · simp
    | .frac, τ => by
      unfold decodeValue
      split
      · split
        · simp only [if_true]; split <;> simp
        · simp
      · simp
    | .bool b, τ => by
      unfold decodeValue
      split <;> simp
    | .null, τ => by
      unfold decodeValue
      simp
  theorem decodeFields_no_panic (σ : Schema) : ∀ (kvs : List (String × J)) (ftys : List (String × GoType))
      (acc : List (String × Val)), decodeFields σ ftys kvs acc ≠ .panic
    | [], ftys, acc => by unfold decodeFields; simp
    | (k, jv) :: rest, ftys, acc => by
      unfold decodeFields
      split
      · exact decodeFields_no_panic σ rest ftys acc
      · split
        · simp
        · have := decodePos_no_panic jv
          split
          · exact decodeFields_no_panic σ rest ftys _
          · simp
          · contradiction
        · have := decodeValue_no_panic σ jv ‹_›
          split
          · exact decodeFields_no_panic σ rest ftys _
          · simp
          · contradiction
  theorem decodeElems_no_panic (σ : Schema) : ∀ (xs : List J) (ε : GoType), decodeElems σ ε xs ≠ .panic
    | [], ε => by unfold decodeElems; simp
    | x :: rest, ε => by
      unfold decodeElems
      have h1 := decodeValue_no_panic σ x ε
      have h2 := decodeElems_no_panic σ rest ε
      split
      · split
        · simp
        · simp
        · contradiction
      · simp
      · contradiction
end

theorem decodeRoot_no_panic (σ : Schema) (j : J) : decodeRoot σ j ≠ .panic := by
  unfold decodeRoot
  have := decodeValue_no_panic σ j (.iface "Node")
  split
  · simp
  · assumption

/-! ### association-list lemmas -/

theorem lookup_mid {β : Type} (pre : List (String × β)) (k : String) (x : β) (post : List (String × β))
    (h : k ∉ pre.map (·.1)) : (pre ++ (k, x) :: post).lookup k = some x := by
  induction pre with
  | nil => simp
  | cons a t ih =>
    obtain ⟨k', y⟩ := a
    simp only [List.map_cons, List.mem_cons, not_or] at h
    have hne : (k == k') = false := by simp [h.1]
    simp only [List.cons_append, List.lookup, hne]
    exact ih h.2

theorem setField_mid (pre : List (String × Val)) (k : String) (x y : Val) (post : List (String × Val))
    (h : k ∉ pre.map (·.1)) : setField k x (pre ++ (k, y) :: post) = pre ++ (k, x) :: post := by
  induction pre with
  | nil => simp [setField]
  | cons a t ih =>
    obtain ⟨k', z⟩ := a
    simp only [List.map_cons, List.mem_cons, not_or] at h
    have hne : ¬ k' = k := fun e => h.1 e.symm
    simp only [List.cons_append, setField, hne, if_false]
    rw [ih h.2]

theorem namesOK_mid (pre : List String) (k : String) (post : List String)
    (h : namesOK (pre ++ k :: post) = true) :
    isExportedName k = true ∧ reservedKeys.contains k = false ∧ k ∉ pre := by
  simp only [namesOK, Bool.and_eq_true, List.all_eq_true, decide_eq_true_eq] at h
  obtain ⟨hall, hnd⟩ := h
  have hk := hall k (by simp)
  simp only [Bool.not_eq_true'] at hk
  refine ⟨hk.1, hk.2, ?_⟩
  intro hmem
  rw [List.nodup_append] at hnd
  exact hnd.2.2 k hmem k (by simp) rfl

/-! ### single steps of the field loop of `decodeValue` -/

theorem decodeFields_skip (σ : Schema) (ftys : List (String × GoType)) (k : String) (jv : J)
    (rest : List (String × J)) (acc : List (String × Val)) (h : reservedKeys.contains k = true) :
    decodeFields σ ftys ((k, jv) :: rest) acc = decodeFields σ ftys rest acc := by
  simp only [decodeFields, h, if_true]

theorem decodeFields_step_val (σ : Schema) (ftys : List (String × GoType)) (k : String) (jv : J)
    (rest : List (String × J)) (acc : List (String × Val)) (τ : GoType) (v : Val)
    (hr : reservedKeys.contains k = false) (he : isExportedName k = true) (hl : ftys.lookup k = some τ)
    (hτ : τ ≠ .pos) (hd : decodeValue σ true τ jv = .ok v) :
    decodeFields σ ftys ((k, jv) :: rest) acc = decodeFields σ ftys rest (setField k v acc) := by
  simp only [decodeFields, hr, he, hl, if_true, Bool.false_eq_true, if_false]
  cases τ <;> simp only [hd] <;> contradiction

theorem decodeFields_step_pos (σ : Schema) (ftys : List (String × GoType)) (k : String) (jv : J)
    (rest : List (String × J)) (acc : List (String × Val)) (p : Pos)
    (hr : reservedKeys.contains k = false) (he : isExportedName k = true) (hl : ftys.lookup k = some .pos)
    (hd : decodePos jv = .ok p) :
    decodeFields σ ftys ((k, jv) :: rest) acc = decodeFields σ ftys rest (setField k (.pos p) acc) := by
  simp only [decodeFields, hr, he, hl, if_true, Bool.false_eq_true, if_false, hd]

theorem decodeFields_peKvs (σ : Schema) (ftys : List (String × GoType)) (pe : Option (Pos × Pos))
    (kvs : List (String × J)) (acc : List (String × Val)) :
    decodeFields σ ftys (peKvs pe ++ kvs) acc = decodeFields σ ftys kvs acc := by
  cases pe with
  | none => simp [peKvs]
  | some pe =>
    obtain ⟨p, e⟩ := pe
    simp only [peKvs]
    cases hp : encPos p <;> cases he : encPos e <;>
      simp [optKv, decodeFields_skip, reservedKeys]

theorem wfFields_names (σ : Schema) (ftys : List (String × GoType)) (fs : List (String × Val))
    (h : wfFields σ ftys fs = true) : ftys.map (·.1) = fs.map (·.1) := by
  induction ftys generalizing fs with
  | nil => cases fs <;> simp [wfFields, wfFieldsWith] at h ⊢
  | cons a t ih =>
    cases fs with
    | nil => simp [wfFields, wfFieldsWith] at h
    | cons b s =>
      obtain ⟨k, τ⟩ := a
      obtain ⟨k', v⟩ := b
      simp [wfFields, wfFieldsWith] at h
      simp [h.1.1, ih s h.2]

/-! ### the round trip -/

/-- value level: `encodeValue` yields nothing and the zero value is the canonical form, or it
    yields a document that `decodeValue` turns into the canonical form -/
def RV (σ : Schema) (v : Val) (τ : GoType) : Prop :=
  (∃ tn, encodeValue σ v = .res none tn ∧ zero τ = canon v) ∨
  (∃ j tn, encodeValue σ v = .res (some j) tn ∧ decodeValue σ true τ j = .ok (canon v))

/-- field-loop level -/
def RF (σ : Schema) (fs : List (String × Val)) (ftys : List (String × GoType)) : Prop :=
  ∃ kvs, encodeFields σ fs = some kvs ∧ (∀ x ∈ kvs, x.1 ∈ ftys.map (·.1)) ∧
    ∀ (allF preT : List (String × GoType)) (preV : List (String × Val)) (rest : List (String × J)),
      allF = preT ++ ftys → preT.map (·.1) = preV.map (·.1) → namesOK (allF.map (·.1)) = true →
      decodeFields σ allF (kvs ++ rest) (preV ++ zeroFields ftys) =
        decodeFields σ allF rest (preV ++ canonF fs)

/-- slice-element level -/
def RE (σ : Schema) (vs : List Val) (ε : GoType) : Prop :=
  ∃ js, encodeElems σ vs = some js ∧ js.length = vs.length ∧ decodeElems σ ε js = .ok (canonL vs)

theorem typeName_none (kvs : List (String × J)) (h : kvs.lookup "Type" = none) : typeName kvs = "" := by
  simp only [typeName, h]

theorem lookup_none_of_keys {β : Type} (kvs : List (String × β)) (k : String)
    (h : ∀ x ∈ kvs, x.1 ≠ k) : kvs.lookup k = none := by
  induction kvs with
  | nil => rfl
  | cons a t ih =>
    obtain ⟨k', y⟩ := a
    have h1 : k' ≠ k := h (k', y) (by simp)
    have hne : (k == k') = false := by simp [Ne.symm h1]
    simp only [List.lookup, hne]
    exact ih (fun x hx => h x (by simp [hx]))

theorem peKvs_keys (pe : Option (Pos × Pos)) : ∀ x ∈ peKvs pe, x.1 = "Pos" ∨ x.1 = "End" := by
  intro x hx
  cases pe with
  | none => simp [peKvs] at hx
  | some pe =>
    obtain ⟨p, e⟩ := pe
    simp only [peKvs, List.mem_append] at hx
    rcases hx with hx | hx
    · cases hp : encPos p <;> simp [hp, optKv] at hx
      left; rw [hx]
    · cases he : encPos e <;> simp [he, optKv] at hx
      right; rw [hx]

/-- what the three struct-holding cases (by value, pointer, interface) share -/
theorem struct_round (σ : Schema) (name : String) (pe : Option (Pos × Pos)) (fs : List (String × Val))
    (ftys : List (String × GoType)) (hn : namesOK (ftys.map (·.1)) = true)
    (hw : wfFields σ ftys fs = true) (hF : RF σ fs ftys) :
    ∃ kvs, encodeValue σ (.struct name pe fs) = .res (some (.obj kvs)) name ∧ kvs.lookup "Type" = none ∧
      decodeFields σ ftys kvs (zeroFields ftys) = .ok (canonF fs) := by
  obtain ⟨kvs0, henc, hkeys, hdec⟩ := hF
  have hnames := wfFields_names σ ftys fs hw
  refine ⟨peKvs pe ++ kvs0, ?_, ?_, ?_⟩
  · have : namesOK (List.map (fun x => x.1) fs) = true := by rw [← hnames]; exact hn
    simp only [encodeValue, this, if_true, henc]
  · apply lookup_none_of_keys
    intro x hx
    simp only [List.mem_append] at hx
    rcases hx with hx | hx
    · rcases peKvs_keys pe x hx with h | h <;> rw [h] <;> decide
    · intro heq
      have hmem := hkeys x hx
      rw [heq] at hmem
      simp only [namesOK, Bool.and_eq_true, List.all_eq_true] at hn
      have := hn.1 "Type" hmem
      simp [reservedKeys] at this
  · rw [decodeFields_peKvs]
    have := hdec ftys [] [] [] (by simp) (by simp) hn
    simp only [List.append_nil, List.nil_append] at this
    rw [this]
    simp only [decodeFields]

/-! #### inversion of `wf` and of the object case of `decodeValue` -/

theorem wf_ptr_inv (σ : Schema) (τ : GoType) (u : Val) (h : wf σ τ (.ptr u) = true) :
    ∃ t pe fs, τ = .ptr t ∧ u = .struct t pe fs ∧ namesOK ((σ.fieldsOf t).map (·.1)) = true ∧
      wfFields σ (σ.fieldsOf t) fs = true := by
  cases τ <;> cases u <;> simp [wf, wfWith] at h
  rename_i t name pe fs
  exact ⟨t, pe, fs, rfl, by rw [h.1.1], h.1.2, h.2⟩

theorem wf_iface_inv (σ : Schema) (τ : GoType) (u : Val) (h : wf σ τ (.iface u) = true) :
    ∃ i name pe fs, τ = .iface i ∧ u = .ptr (.struct name pe fs) ∧ σ.nodeNames.contains name = true ∧
      σ.implements i name = true ∧ name ≠ "" ∧ nameOfBytes (bytesOfName name) = name ∧
      wf σ (.ptr name) u = true := by
  cases u with
  | ptr w =>
    cases w with
    | struct name pe fs =>
      cases τ <;> simp [wf, wfWith] at h
      rename_i i
      refine ⟨i, name, pe, fs, rfl, rfl, ?_, h.1.1.1.1.2, h.1.1.1.2, h.1.1.2, ?_⟩
      · simpa using h.1.1.1.1.1
      · simp [wf, wfWith, h.1.2, h.2]
    | _ => cases τ <;> simp [wf, wfWith] at h
  | _ => cases τ <;> simp [wf, wfWith] at h

theorem decode_ptr_obj_inv (σ : Schema) (t : String) (kvs : List (String × J)) (r : Val)
    (h : decodeValue σ true (.ptr t) (.obj kvs) = .ok r) :
    ∃ fs', decodeFields σ (σ.fieldsOf t) kvs (zeroFields (σ.fieldsOf t)) = .ok fs' ∧
      r = .ptr (.struct t none fs') := by
  simp only [decodeValue, resolve] at h
  split at h
  · contradiction
  · rename_i name ftys w hres
    have : name = t ∧ ftys = σ.fieldsOf t ∧ w = Wrap.ptr := by
      split at hres
      · split at hres
        · contradiction
        · split at hres
          · injection hres with hres
            simp only [Prod.mk.injEq] at hres
            rename_i heq
            exact ⟨by rw [← hres.1, heq], by rw [← hres.2.1, heq], hres.2.2.symm⟩
          · contradiction
      · injection hres with hres
        simp only [Prod.mk.injEq] at hres
        exact ⟨hres.1.symm, hres.2.1.symm, hres.2.2.symm⟩
    obtain ⟨h1, h2, h3⟩ := this
    subst h1 h2 h3
    split at h
    · rename_i fs' hd
      injection h with h
      exact ⟨fs', hd, by rw [← h]; rfl⟩
    · contradiction
    · contradiction

theorem dropPos_of_valid (p : Pos) (h : p.isValid = true) : dropPos p = p := by
  have : p ≠ Pos.recovered := by
    intro e; rw [e] at h; revert h; decide
  simp only [dropPos, this, if_false]

theorem dropPos_of_invalid (p : Pos) (hw : posWF p = true) (h : p.isValid = false) : dropPos p = Pos.zero := by
  simp only [posWF, h, Bool.false_or, Bool.and_eq_true, Bool.or_eq_true, decide_eq_true_eq] at hw
  rcases hw.2 with e | e <;> rw [e] <;> decide

theorem encode_struct_not_none (σ : Schema) (name : String) (pe : Option (Pos × Pos))
    (fs : List (String × Val)) (tn : String) : encodeValue σ (.struct name pe fs) ≠ .res none tn := by
  simp only [encodeValue]
  split
  · split <;> simp
  · simp

/-- a well-formed value that encodes to nothing is one of the zero-like values -/
theorem noValue_of_encode_none (σ : Schema) (τ : GoType) (v : Val) (tn : String)
    (hw : wf σ τ v = true) (he : encodeValue σ v = .res none tn) : isNoValue v = true := by
  cases v with
  | ptr u =>
    obtain ⟨t, pe, fs, _, hu, _, _⟩ := wf_ptr_inv σ τ u hw
    subst hu
    simp only [encodeValue] at he
    exact absurd he (by simpa only [encodeValue] using encode_struct_not_none σ t pe fs tn)
  | iface u =>
    simp only [encodeValue] at he
    split at he
    · split at he <;> simp at he
    · simp at he
  | struct name pe fs => exact absurd he (encode_struct_not_none σ name pe fs tn)
  | slice vs =>
    simp only [encodeValue] at he
    split at he
    · rename_i hemp; simpa [isNoValue] using hemp
    · split at he <;> simp at he
  | bool b => cases b <;> simp [encodeValue, isNoValue] at he ⊢
  | str s => cases s <;> simp [encodeValue, isNoValue] at he ⊢
  | uint bits op n =>
    simp only [encodeValue] at he
    split at he
    · split at he
      · simpa [isNoValue]
      · split at he <;> simp at he
    · simp at he
  | pos p => simp [encodeValue] at he
  | other => simp [encodeValue] at he
  | nil => rfl
  | inil => rfl
  | snil => rfl

mutual
  theorem roundV (σ : Schema) : ∀ (v : Val) (τ : GoType), wf σ τ v = true → (∀ p, v ≠ .pos p) → RV σ v τ
    | .pos p, _, _, hp => absurd rfl (hp p)
    | .other, τ, h, _ => by cases τ <;> simp [wf, wfWith] at h
    | .bool b, τ, h, _ => by
      cases τ <;> simp [wf, wfWith] at h
      cases b
      · left; exact ⟨"", by simp [encodeValue], by simp [zero, canon]⟩
      · right; exact ⟨.bool true, "", by simp [encodeValue], by simp [decodeValue, canon]⟩
    | .str s, τ, h, _ => by
      cases τ <;> simp [wf, wfWith] at h
      cases s with
      | nil => left; exact ⟨"", by simp [encodeValue], by simp [zero, canon]⟩
      | cons b t =>
        right
        refine ⟨.str (sanitize (b :: t)), "", by simp [encodeValue], ?_⟩
        rw [h]; simp [decodeValue, canon]
    | .uint bits op n, τ, h, _ => by
      cases τ <;> simp [wf, wfWith] at h
      rename_i b o
      obtain ⟨⟨⟨⟨hb, ho⟩, hbits⟩, hn⟩, hop⟩ := h
      subst hb ho
      by_cases hz : n = 0
      · left; subst hz
        exact ⟨"", by simp [encodeValue, hbits], by simp [zero, canon]⟩
      · right
        cases o with
        | none =>
          refine ⟨.num n, "", by simp [encodeValue, hbits, hz], ?_⟩
          have hle : n ≤ 4294967295 := by
            rcases hbits with e | e <;> rw [e] at hn <;> omega
          simp only [decodeValue, hbits, if_true, Option.isSome_none, Bool.false_eq_true, if_false,
            jsonUint_ofNat n hle, hn, canon]
        | some t =>
          simp only [hz, decide_false, Bool.false_or, decide_eq_true_eq] at hop
          refine ⟨.str (σ.tokStr n), "", by simp [encodeValue, hbits, hz], ?_⟩
          simp only [decodeValue, if_true, hop, canon]
    | .nil, τ, h, _ => by
      cases τ <;> simp [wf, wfWith] at h
      left; exact ⟨"", by simp [encodeValue], by simp [zero, canon]⟩
    | .inil, τ, h, _ => by
      cases τ <;> simp [wf, wfWith] at h
      left; exact ⟨"", by simp [encodeValue], by simp [zero, canon]⟩
    | .snil, τ, h, _ => by
      cases τ <;> simp [wf, wfWith] at h
      left; exact ⟨"", by simp [encodeValue], by simp [zero, canon]⟩
    | .struct name pe fs, τ, h, _ => by
      cases τ <;> simp [wf, wfWith] at h
      rename_i name' ftys
      obtain ⟨⟨hname, hn⟩, hw⟩ := h
      subst hname
      obtain ⟨kvs, henc, hty, hdec⟩ := struct_round σ name' pe fs ftys hn hw (roundF σ fs ftys hw)
      right
      refine ⟨.obj kvs, name', henc, ?_⟩
      simp only [decodeValue, typeName_none kvs hty, resolve, ne_eq, not_true_eq_false, if_false, hdec,
        wrapVal, canon]
    | .ptr u, τ, h, _ => by
      obtain ⟨t, pe, fs, hτ, hu, hn, hw⟩ := wf_ptr_inv σ τ u h
      have hwu : wf σ (.struct t (σ.fieldsOf t)) u = true := by rw [hu]; simp [wf, wfWith, hn, hw]
      have ih := roundV σ u (.struct t (σ.fieldsOf t)) hwu (by rw [hu]; intro p; simp)
      subst hτ
      rcases ih with ⟨tn, he, _⟩ | ⟨j, tn, he, hd⟩
      · rw [hu] at he; simp only [encodeValue] at he; split at he
        · split at he <;> simp at he
        · simp at he
      · right
        have hj : ∃ kvs, j = .obj kvs := by
          rw [hu] at he; simp only [encodeValue] at he; split at he
          · split at he
            · simp only [EncR.res.injEq, Option.some.injEq] at he; exact ⟨_, he.1.symm⟩
            · simp at he
          · simp at he
        obtain ⟨kvs, hj⟩ := hj
        subst hj
        refine ⟨.obj kvs, tn, by simp only [encodeValue, he], ?_⟩
        -- the by-value decoding succeeded, hence there is no "Type" key and the pointer decoding agrees
        simp only [decodeValue] at hd
        split at hd
        · contradiction
        · rename_i name ftys w hres
          have hty : typeName kvs = "" := by
            by_cases e : typeName kvs = ""
            · exact e
            · simp only [resolve, ne_eq, e, not_false_eq_true, if_true] at hres
              split at hres <;> simp at hres
          simp only [resolve, hty, ne_eq, not_true_eq_false, if_false] at hres
          injection hres with hres
          simp only [Prod.mk.injEq] at hres
          obtain ⟨h1, h2, h3⟩ := hres
          subst h1 h2 h3
          split at hd
          · rename_i fs' hdf
            injection hd with hd
            simp only [decodeValue, hty, resolve, ne_eq, not_true_eq_false, if_false, hdf, wrapVal, canon]
            simp only [wrapVal] at hd
            rw [hd]
          · contradiction
          · contradiction
    | .iface u, τ, h, _ => by
      obtain ⟨i, name, pe, fs, hτ, hu, hcont, himpl, hne, hrt, hwu⟩ := wf_iface_inv σ τ u h
      have ih := roundV σ u (.ptr name) hwu (by rw [hu]; intro p; simp)
      subst hτ
      rcases ih with ⟨tn, he, _⟩ | ⟨j, tn, he, hd⟩
      · rw [hu] at he; simp only [encodeValue] at he; split at he
        · split at he <;> simp at he
        · simp at he
      · right
        have hj : ∃ kvs, j = .obj kvs ∧ tn = name := by
          rw [hu] at he; simp only [encodeValue] at he; split at he
          · split at he
            · simp only [EncR.res.injEq, Option.some.injEq] at he; exact ⟨_, he.1.symm, he.2.symm⟩
            · simp at he
          · simp at he
        obtain ⟨kvs, hj, htn⟩ := hj
        subst hj htn
        obtain ⟨fs', hdf, hr⟩ := decode_ptr_obj_inv σ tn kvs _ hd
        refine ⟨.obj (("Type", .str (bytesOfName tn)) :: kvs), "", by simp only [encodeValue, he, hne, if_false], ?_⟩
        have hty : typeName (("Type", J.str (bytesOfName tn)) :: kvs) = tn := by
          simp [typeName, List.lookup, hrt]
        have hskip := decodeFields_skip σ (σ.fieldsOf tn) "Type" (.str (bytesOfName tn)) kvs
          (zeroFields (σ.fieldsOf tn)) (by decide)
        simp only [decodeValue, hty, resolve, ne_eq, hne, not_false_eq_true, if_true, hcont, Bool.not_true,
          Bool.false_eq_true, if_false, himpl, hskip, hdf, wrapVal]
        have hc : canon (Val.iface u) = .iface (canon u) := by simp [canon]
        rw [hc, hr]
    | .slice vs, τ, h, _ => by
      cases τ <;> simp [wf, wfWith] at h
      rename_i ε
      obtain ⟨js, henc, hlen, hdec⟩ := roundE σ vs ε h
      cases vs with
      | nil => left; exact ⟨"", by simp [encodeValue], by simp [zero, canon]⟩
      | cons e es =>
        right
        refine ⟨.arr js, "", by simp [encodeValue, henc], ?_⟩
        simp only [decodeValue, hdec, canonL, canon]
  theorem roundF (σ : Schema) : ∀ (fs : List (String × Val)) (ftys : List (String × GoType)),
      wfFields σ ftys fs = true → RF σ fs ftys
    | [], ftys, h => by
      cases ftys with
      | nil =>
        refine ⟨[], by simp [encodeFields], by simp, ?_⟩
        intro allF preT preV rest _ _ _
        simp [zeroFields, canonF]
      | cons a t => simp [wfFields, wfFieldsWith] at h
    | (k, v) :: fs', ftys, h => by
      cases ftys with
      | nil => simp [wfFields, wfFieldsWith] at h
      | cons a ftys' =>
        obtain ⟨k', τ⟩ := a
        simp only [wfFields, wfFieldsWith, Bool.and_eq_true, decide_eq_true_eq] at h
        obtain ⟨⟨hk, hwv⟩, hwf⟩ := h
        subst hk
        obtain ⟨kvs', henc', hkeys', hdec'⟩ := roundF σ fs' ftys' hwf
        -- what the remaining fields do once this field's slot holds `canon v`
        have tail : ∀ (allF preT : List (String × GoType)) (preV : List (String × Val)) (rest : List (String × J)),
            allF = preT ++ (k', τ) :: ftys' → preT.map (·.1) = preV.map (·.1) → namesOK (allF.map (·.1)) = true →
            decodeFields σ allF (kvs' ++ rest) (preV ++ (k', canon v) :: zeroFields ftys') =
              decodeFields σ allF rest (preV ++ (k', canon v) :: canonF fs') := by
          intro allF preT preV rest hall hpre hok
          have := hdec' allF (preT ++ [(k', τ)]) (preV ++ [(k', canon v)]) rest (by simp [hall]) (by simp [hpre]) hok
          simpa using this
        by_cases hpos : ∃ p, v = .pos p
        · obtain ⟨p, hv⟩ := hpos
          subst hv
          have hτ : τ = .pos := by cases τ <;> simp [wfWith] at hwv; rfl
          subst hτ
          simp only [wfWith] at hwv
          cases hval : p.isValid
          · -- omitted; the zero position is the canonical form
            have hnone : encPos p = none := by simp [encPos, hval]
            refine ⟨kvs', by simp [encodeFields, henc', hnone, optKv], ?_, ?_⟩
            · intro x hx; simp only [List.map_cons, List.mem_cons]; right; exact hkeys' x hx
            · intro allF preT preV rest hall hpre hok
              have hc : canon (.pos p) = .pos Pos.zero := by simp [canon, dropPos_of_invalid p hwv hval]
              have := tail allF preT preV rest hall hpre hok
              rw [hc] at this
              simpa [zeroFields, zero, canonF, hc] using this
          · have hr : p.inRange = true := by
              simp only [posWF, Bool.and_eq_true] at hwv; exact hwv.1
            obtain ⟨j, hj, hdj⟩ := decodePos_encPos p hr hval
            refine ⟨(k', j) :: kvs', by simp [encodeFields, henc', hj, optKv], ?_, ?_⟩
            · intro x hx
              simp only [List.mem_cons] at hx
              rcases hx with hx | hx
              · rw [hx]; simp
              · simp only [List.map_cons, List.mem_cons]; right; exact hkeys' x hx
            · intro allF preT preV rest hall hpre hok
              have hmid : namesOK (preT.map (·.1) ++ k' :: ftys'.map (·.1)) = true := by
                rw [hall] at hok; simpa using hok
              obtain ⟨hexp, hres, hnot⟩ := namesOK_mid _ _ _ hmid
              have hl : allF.lookup k' = some .pos := by rw [hall]; exact lookup_mid preT k' .pos ftys' hnot
              have hc : canon (.pos p) = .pos p := by simp [canon, dropPos_of_valid p hval]
              have hnotV : k' ∉ preV.map (·.1) := by rw [← hpre]; exact hnot
              simp only [List.cons_append, zeroFields, zero]
              rw [decodeFields_step_pos σ allF k' j (kvs' ++ rest) _ p hres hexp hl hdj,
                setField_mid preV k' (.pos p) (.pos Pos.zero) _ hnotV]
              have := tail allF preT preV rest hall hpre hok
              rw [hc] at this
              simpa [canonF, hc] using this
        · have hnp : ∀ p, v ≠ .pos p := fun p e => hpos ⟨p, e⟩
          have hτ : τ ≠ .pos := by
            intro e; subst e; cases v <;> simp [wfWith] at hwv
            exact hnp _ rfl
          have hencF : ∀ (r : EncR), encodeValue σ v = r →
              encodeFields σ ((k', v) :: fs') = (match r, encodeFields σ fs' with
                | .res (some j) _, some kvs => some ((k', j) :: kvs)
                | .res none _, some kvs => some kvs
                | _, _ => none) := by
            intro r hr
            subst hr
            cases v <;> first | (exact absurd rfl (hnp _)) | rfl | (simp only [encodeFields])
          rcases roundV σ v τ hwv hnp with ⟨tn, he, hz⟩ | ⟨j, tn, he, hd⟩
          · refine ⟨kvs', by rw [hencF _ he, henc'], ?_, ?_⟩
            · intro x hx; simp only [List.map_cons, List.mem_cons]; right; exact hkeys' x hx
            · intro allF preT preV rest hall hpre hok
              have := tail allF preT preV rest hall hpre hok
              simpa [zeroFields, canonF, hz] using this
          · refine ⟨(k', j) :: kvs', by rw [hencF _ he, henc'], ?_, ?_⟩
            · intro x hx
              simp only [List.mem_cons] at hx
              rcases hx with hx | hx
              · rw [hx]; simp
              · simp only [List.map_cons, List.mem_cons]; right; exact hkeys' x hx
            · intro allF preT preV rest hall hpre hok
              have hmid : namesOK (preT.map (·.1) ++ k' :: ftys'.map (·.1)) = true := by
                rw [hall] at hok; simpa using hok
              obtain ⟨hexp, hres, hnot⟩ := namesOK_mid _ _ _ hmid
              have hl : allF.lookup k' = some τ := by rw [hall]; exact lookup_mid preT k' τ ftys' hnot
              have hnotV : k' ∉ preV.map (·.1) := by rw [← hpre]; exact hnot
              simp only [List.cons_append, zeroFields]
              rw [decodeFields_step_val σ allF k' j (kvs' ++ rest) _ τ (canon v) hres hexp hl hτ hd,
                setField_mid preV k' (canon v) (zero τ) _ hnotV]
              have := tail allF preT preV rest hall hpre hok
              simpa [canonF] using this
  theorem roundE (σ : Schema) : ∀ (vs : List Val) (ε : GoType), wfElems σ ε vs = true → RE σ vs ε
    | [], ε, _ => ⟨[], by simp [encodeElems], rfl, by simp [decodeElems, canonL]⟩
    | v :: vs', ε, h => by
      simp only [wfElems, wfElemsWith, Bool.and_eq_true, Bool.not_eq_true'] at h
      obtain ⟨⟨⟨hwv, hnv⟩, hnp⟩, hwe⟩ := h
      obtain ⟨js', henc', hlen', hdec'⟩ := roundE σ vs' ε hwe
      have hnp' : ∀ p, v ≠ .pos p := by
        intro p e; subst e; simp [isPosVal] at hnp
      rcases roundV σ v ε hwv hnp' with ⟨tn, he, _⟩ | ⟨j, tn, he, hd⟩
      · -- a value that encodes to nothing is excluded from slices
        exfalso
        have := noValue_of_encode_none σ ε v tn hwv he
        rw [this] at hnv
        contradiction
      · refine ⟨j :: js', by simp [encodeElems, he, henc'], by simp [hlen'], ?_⟩
        simp only [decodeElems, hd, hdec', canonL]
end

/-! ### canonical form, annotations -/

mutual
  theorem canon_eq_dropRecovered : ∀ (v : Val), noEmptySlice v = true → canon v = dropRecovered v
    | .ptr v, h => by simp only [noEmptySlice] at h; simp only [canon, dropRecovered, canon_eq_dropRecovered v h]
    | .iface v, h => by simp only [noEmptySlice] at h; simp only [canon, dropRecovered, canon_eq_dropRecovered v h]
    | .slice [], h => by simp [noEmptySlice] at h
    | .slice (e :: es), h => by
      simp only [noEmptySlice, Bool.and_eq_true] at h
      simp only [canon, dropRecovered, dropRecoveredL, canon_eq_dropRecovered e h.1, canonL_eq_dropRecoveredL es h.2]
    | .struct name pe fs, h => by
      simp only [noEmptySlice] at h
      simp only [canon, dropRecovered, canonF_eq_dropRecoveredF fs h]
    | .pos p, _ => by simp only [canon, dropRecovered]
    | .bool _, _ => by simp only [canon, dropRecovered]
    | .str _, _ => by simp only [canon, dropRecovered]
    | .uint _ _ _, _ => by simp only [canon, dropRecovered]
    | .nil, _ => by simp only [canon, dropRecovered]
    | .inil, _ => by simp only [canon, dropRecovered]
    | .snil, _ => by simp only [canon, dropRecovered]
    | .other, _ => by simp only [canon, dropRecovered]
  theorem canonL_eq_dropRecoveredL : ∀ (vs : List Val), noEmptySliceL vs = true → canonL vs = dropRecoveredL vs
    | [], _ => by simp only [canonL, dropRecoveredL]
    | v :: vs, h => by
      simp only [noEmptySliceL, Bool.and_eq_true] at h
      simp only [canonL, dropRecoveredL, canon_eq_dropRecovered v h.1, canonL_eq_dropRecoveredL vs h.2]
  theorem canonF_eq_dropRecoveredF : ∀ (fs : List (String × Val)), noEmptySliceF fs = true →
      canonF fs = dropRecoveredF fs
    | [], _ => by simp only [canonF, dropRecoveredF]
    | (k, v) :: fs, h => by
      simp only [noEmptySliceF, Bool.and_eq_true] at h
      simp only [canonF, dropRecoveredF, canon_eq_dropRecovered v h.1, canonF_eq_dropRecoveredF fs h.2]
end

mutual
  theorem forget_canon : ∀ (v : Val), forget (canon v) = canon v
    | .ptr v => by simp only [canon, forget, forget_canon v]
    | .iface v => by simp only [canon, forget, forget_canon v]
    | .slice [] => by simp only [canon, forget]
    | .slice (e :: es) => by simp only [canon, forget, forgetL, forget_canon e, forgetL_canonL es]
    | .struct name pe fs => by simp only [canon, forget, forgetF_canonF fs]
    | .pos p => by simp only [canon, forget]
    | .bool _ => by simp only [canon, forget]
    | .str _ => by simp only [canon, forget]
    | .uint _ _ _ => by simp only [canon, forget]
    | .nil => by simp only [canon, forget]
    | .inil => by simp only [canon, forget]
    | .snil => by simp only [canon, forget]
    | .other => by simp only [canon, forget]
  theorem forgetL_canonL : ∀ (vs : List Val), forgetL (canonL vs) = canonL vs
    | [] => by simp only [canonL, forgetL]
    | v :: vs => by simp only [canonL, forgetL, forget_canon v, forgetL_canonL vs]
  theorem forgetF_canonF : ∀ (fs : List (String × Val)), forgetF (canonF fs) = canonF fs
    | [] => by simp only [canonF, forgetF]
    | (k, v) :: fs => by simp only [canonF, forgetF, forget_canon v, forgetF_canonF fs]
end

mutual
  theorem canon_annotate (ann : Ann) : ∀ (v : Val), canon (annotate ann v) = canon v
    | .ptr v => by simp only [canon, annotate, canon_annotate ann v]
    | .iface v => by simp only [canon, annotate, canon_annotate ann v]
    | .slice [] => by simp only [canon, annotate, annotateL]
    | .slice (e :: es) => by simp only [canon, annotate, annotateL, canon_annotate ann e, canonL_annotateL ann es]
    | .struct name pe fs => by simp only [canon, annotate, canonF_annotateF ann fs]
    | .pos p => by simp only [canon, annotate]
    | .bool _ => by simp only [canon, annotate]
    | .str _ => by simp only [canon, annotate]
    | .uint _ _ _ => by simp only [canon, annotate]
    | .nil => by simp only [canon, annotate]
    | .inil => by simp only [canon, annotate]
    | .snil => by simp only [canon, annotate]
    | .other => by simp only [canon, annotate]
  theorem canonL_annotateL (ann : Ann) : ∀ (vs : List Val), canonL (annotateL ann vs) = canonL vs
    | [] => by simp only [canonL, annotateL]
    | v :: vs => by simp only [canonL, annotateL, canon_annotate ann v, canonL_annotateL ann vs]
  theorem canonF_annotateF (ann : Ann) : ∀ (fs : List (String × Val)), canonF (annotateF ann fs) = canonF fs
    | [] => by simp only [canonF, annotateF]
    | (k, v) :: fs => by simp only [canonF, annotateF, canon_annotate ann v, canonF_annotateF ann fs]
end

theorem annotateF_names (ann : Ann) : ∀ (fs : List (String × Val)), (annotateF ann fs).map (·.1) = fs.map (·.1)
  | [] => by simp only [annotateF, List.map_nil]
  | (k, v) :: fs => by simp only [annotateF, List.map_cons, annotateF_names ann fs]

theorem canonF_names : ∀ (fs : List (String × Val)), (canonF fs).map (·.1) = fs.map (·.1)
  | [] => by simp only [canonF, List.map_nil]
  | (k, v) :: fs => by simp only [canonF, List.map_cons, canonF_names fs]

theorem encPos_of_posKey (p q : Pos) (h : posKey p = posKey q) : encPos p = encPos q := by
  simp only [posKey] at h
  simp only [encPos]
  cases hp : p.isValid <;> cases hq : q.isValid <;> simp [hp, hq] at h ⊢
  obtain ⟨h1, h2, h3⟩ := h
  rw [h1, h2, h3]; simp

theorem peKvs_of_peKey (a b : Option (Pos × Pos)) (h : peKey a = peKey b) : peKvs a = peKvs b := by
  cases a with
  | none => cases b with
    | none => rfl
    | some b => obtain ⟨p, e⟩ := b; simp [peKey] at h
  | some a =>
    obtain ⟨p, e⟩ := a
    cases b with
    | none => simp [peKey] at h
    | some b =>
      obtain ⟨p', e'⟩ := b
      simp only [peKey, Option.some.injEq, Prod.mk.injEq] at h
      simp only [peKvs, encPos_of_posKey p p' h.1, encPos_of_posKey e e' h.2]

theorem encPos_dropPos (p : Pos) : encPos (dropPos p) = encPos p := by
  simp only [dropPos]
  split
  · rename_i h
    have a : Pos.zero.isValid = false := by decide
    have b : Pos.recovered.isValid = false := by decide
    rw [h]; simp only [encPos, a, b]; rfl
  · rfl

mutual
  /-- Re-annotating the canonical form encodes like the annotated original. -/
  theorem encode_annotate_canon (σ : Schema) (ann : Ann) : ∀ (v : Val), peStable ann v →
      encodeValue σ (annotate ann (canon v)) = encodeValue σ (annotate ann v)
    | .ptr v, h => by
      simp only [peStable] at h
      simp only [canon, annotate, encodeValue, encode_annotate_canon σ ann v h]
    | .iface v, h => by
      simp only [peStable] at h
      simp only [canon, annotate, encodeValue, encode_annotate_canon σ ann v h]
    | .slice [], _ => by simp [canon, annotate, annotateL, encodeValue]
    | .slice (e :: es), h => by
      simp only [peStable, peStableL] at h
      simp only [canon, annotate, annotateL, encodeValue, List.isEmpty_cons, Bool.false_eq_true, if_false,
        encodeElems, encode_annotate_canon σ ann e h.1, encodeL_annotate_canon σ ann es h.2]
    | .struct name pe fs, h => by
      simp only [peStable] at h
      simp only [canon, annotate, encodeValue, forgetF_canonF, annotateF_names, canonF_names,
        encodeF_annotate_canon σ ann fs h.2, peKvs_of_peKey _ _ h.1]
    | .pos p, _ => by simp only [canon, annotate, encodeValue]
    | .bool _, _ => by simp only [canon, annotate]
    | .str _, _ => by simp only [canon, annotate]
    | .uint _ _ _, _ => by simp only [canon, annotate]
    | .nil, _ => by simp only [canon, annotate]
    | .inil, _ => by simp only [canon, annotate]
    | .snil, _ => by simp only [canon, annotate]
    | .other, _ => by simp only [canon, annotate]
  theorem encodeL_annotate_canon (σ : Schema) (ann : Ann) : ∀ (vs : List Val), peStableL ann vs →
      encodeElems σ (annotateL ann (canonL vs)) = encodeElems σ (annotateL ann vs)
    | [], _ => by simp only [canonL, annotateL]
    | v :: vs, h => by
      simp only [peStableL] at h
      simp only [canonL, annotateL, encodeElems, encode_annotate_canon σ ann v h.1,
        encodeL_annotate_canon σ ann vs h.2]
  theorem encodeF_annotate_canon (σ : Schema) (ann : Ann) : ∀ (fs : List (String × Val)), peStableF ann fs →
      encodeFields σ (annotateF ann (canonF fs)) = encodeFields σ (annotateF ann fs)
    | [], _ => by simp only [canonF, annotateF]
    | (k, v) :: fs, h => by
      simp only [peStableF] at h
      have ihv := encode_annotate_canon σ ann v h.1
      have ihf := encodeF_annotate_canon σ ann fs h.2
      cases v with
      | pos p => simp only [canonF, canon, annotateF, annotate, encodeFields, ihf, encPos_dropPos]
      | slice vs =>
        cases vs <;>
          (simp only [canon, annotate, annotateL] at ihv
           simp only [canonF, canon, annotateF, annotate, annotateL, encodeFields, ihf, ihv])
      | ptr u =>
        simp only [canon, annotate] at ihv
        simp only [canonF, canon, annotateF, annotate, encodeFields, ihf, ihv]
      | iface u =>
        simp only [canon, annotate] at ihv
        simp only [canonF, canon, annotateF, annotate, encodeFields, ihf, ihv]
      | struct name pe fs' =>
        simp only [canon, annotate] at ihv
        simp only [canonF, canon, annotateF, annotate, encodeFields, ihf, ihv]
      | _ => simp only [canonF, canon, annotateF, annotate, encodeFields, ihf]
end

/-! ### structural equality -/

mutual
  theorem beqVal_refl : ∀ (v : Val), beqVal v v = true
    | .pos _ => by simp [beqVal]
    | .bool _ => by simp [beqVal]
    | .str _ => by simp [beqVal]
    | .uint _ _ _ => by simp [beqVal]
    | .nil => by simp [beqVal]
    | .inil => by simp [beqVal]
    | .snil => by simp [beqVal]
    | .other => by simp [beqVal]
    | .ptr v => by simp only [beqVal, beqVal_refl v]
    | .iface v => by simp only [beqVal, beqVal_refl v]
    | .slice vs => by simp only [beqVal, beqValL_refl vs]
    | .struct _ _ fs => by simp [beqVal, beqValF_refl fs]
  theorem beqValL_refl : ∀ (vs : List Val), beqValL vs vs = true
    | [] => by simp [beqValL]
    | v :: vs => by simp [beqValL, beqVal_refl v, beqValL_refl vs]
  theorem beqValF_refl : ∀ (fs : List (String × Val)), beqValF fs fs = true
    | [] => by simp [beqValF]
    | (k, v) :: fs => by simp [beqValF, beqVal_refl v, beqValF_refl fs]
end

theorem ne_of_beqVal_false (a b : Val) (h : beqVal a b = false) : a ≠ b := by
  intro e; subst e; rw [beqVal_refl] at h; contradiction

/-! ### the root -/

theorem round_root (σ : Schema) (v : Val) (h : wf σ (.iface "Node") (.iface v) = true) :
    ∃ j, encodeRoot σ v = .val j ∧ decodeRoot σ j = .ok (canon (.iface v)) := by
  rcases roundV σ (.iface v) (.iface "Node") h (by intro p; simp) with ⟨tn, he, _⟩ | ⟨j, tn, he, hd⟩
  · have := noValue_of_encode_none σ (.iface "Node") (.iface v) tn h he
    simp [isNoValue] at this
  · refine ⟨j, by simp only [encodeRoot, he], ?_⟩
    simp only [decodeRoot, hd, canon]

theorem reencode_root (σ : Schema) (ann : Ann) (t : Val) (hs : peStable ann t) :
    encodeRoot σ (annotate ann (canon t)) = encodeRoot σ (annotate ann t) := by
  have := encode_annotate_canon σ ann (.iface t) (by simpa only [peStable] using hs)
  simp only [canon, annotate] at this
  simp only [encodeRoot, this]

theorem newPos_offs_le (o l c : Nat) : (newPos o l c).offs ≤ offsetMax := by
  obtain ⟨c1, _, _, _, _, _, _⟩ := consts_eval
  simp only [newPos, c1, u32]
  omega

theorem newPos_line_overflow (o l c : Nat) (h : lineMax < l) : (newPos o l c).line = 0 := by
  obtain ⟨c1, _, c3, c4, c5, _, _⟩ := consts_eval
  simp only [newPos, Pos.line, c3, c4, c5] at *
  have e : l > 262143 := h
  simp only [e, if_true]
  have z : u32 (u32 0 <<< 14) = 0 := by decide
  rw [z, Nat.zero_or, Nat.shiftRight_eq_div_pow]
  unfold u32
  split <;> omega

theorem newPos_col_overflow (o l c : Nat) (h : colMax < c) : (newPos o l c).col = 0 := by
  obtain ⟨c1, _, c3, c4, c5, c6, _⟩ := consts_eval
  simp only [newPos, Pos.col, c3, c4, c5, c6] at *
  have e : c > 16383 := h
  simp only [e, if_true]
  have z : u32 0 = 0 := by decide
  rw [z, Nat.or_zero]
  have hm := Nat.and_two_pow_sub_one_eq_mod (u32 (u32 (if l > 262143 then 0 else l) <<< 14)) 14
  have hm' : u32 (u32 (if l > 262143 then 0 else l) <<< 14) &&& 16383 =
      u32 (u32 (if l > 262143 then 0 else l) <<< 14) % 16384 := by simpa using hm
  rw [hm', Nat.shiftLeft_eq]
  unfold u32
  split <;> omega

mutual
  theorem beqJ_refl : ∀ (j : J), beqJ j j = true
    | .null => by simp [beqJ]
    | .bool _ => by simp [beqJ]
    | .num _ => by simp [beqJ]
    | .frac => by simp [beqJ]
    | .str _ => by simp [beqJ]
    | .arr xs => by simp only [beqJ, beqJL_refl xs]
    | .obj kvs => by simp only [beqJ, beqJK_refl kvs]
  theorem beqJL_refl : ∀ (xs : List J), beqJL xs xs = true
    | [] => by simp [beqJL]
    | x :: xs => by simp [beqJL, beqJ_refl x, beqJL_refl xs]
  theorem beqJK_refl : ∀ (kvs : List (String × J)), beqJK kvs kvs = true
    | [] => by simp [beqJK]
    | (k, x) :: kvs => by simp [beqJK, beqJ_refl x, beqJK_refl kvs]
end

theorem beqEnc_refl (e : Enc) : beqEnc e e = true := by
  cases e <;> simp [beqEnc, beqJ_refl]

/-! ### without recovered positions the round trip changes nothing `Pos()`/`End()` could see -/

mutual
  theorem canon_eq_forget : ∀ (v : Val), noRecovered v = true → noEmptySlice v = true → canon v = forget v
    | .pos p, hr, _ => by
      simp only [noRecovered, decide_eq_true_eq] at hr
      simp only [canon, forget, dropPos, hr, if_false]
    | .ptr v, hr, he => by
      simp only [noRecovered] at hr; simp only [noEmptySlice] at he
      simp only [canon, forget, canon_eq_forget v hr he]
    | .iface v, hr, he => by
      simp only [noRecovered] at hr; simp only [noEmptySlice] at he
      simp only [canon, forget, canon_eq_forget v hr he]
    | .slice [], _, he => by simp [noEmptySlice] at he
    | .slice (e :: es), hr, he => by
      simp only [noRecovered, noRecoveredL, Bool.and_eq_true] at hr
      simp only [noEmptySlice, Bool.and_eq_true] at he
      simp only [canon, forget, forgetL, canon_eq_forget e hr.1 he.1, canonL_eq_forgetL es hr.2 he.2]
    | .struct name pe fs, hr, he => by
      simp only [noRecovered] at hr; simp only [noEmptySlice] at he
      simp only [canon, forget, canonF_eq_forgetF fs hr he]
    | .bool _, _, _ => by simp only [canon, forget]
    | .str _, _, _ => by simp only [canon, forget]
    | .uint _ _ _, _, _ => by simp only [canon, forget]
    | .nil, _, _ => by simp only [canon, forget]
    | .inil, _, _ => by simp only [canon, forget]
    | .snil, _, _ => by simp only [canon, forget]
    | .other, _, _ => by simp only [canon, forget]
  theorem canonL_eq_forgetL : ∀ (vs : List Val), noRecoveredL vs = true → noEmptySliceL vs = true →
      canonL vs = forgetL vs
    | [], _, _ => by simp only [canonL, forgetL]
    | v :: vs, hr, he => by
      simp only [noRecoveredL, Bool.and_eq_true] at hr
      simp only [noEmptySliceL, Bool.and_eq_true] at he
      simp only [canonL, forgetL, canon_eq_forget v hr.1 he.1, canonL_eq_forgetL vs hr.2 he.2]
  theorem canonF_eq_forgetF : ∀ (fs : List (String × Val)), noRecoveredF fs = true → noEmptySliceF fs = true →
      canonF fs = forgetF fs
    | [], _, _ => by simp only [canonF, forgetF]
    | (k, v) :: fs, hr, he => by
      simp only [noRecoveredF, Bool.and_eq_true] at hr
      simp only [noEmptySliceF, Bool.and_eq_true] at he
      simp only [canonF, forgetF, canon_eq_forget v hr.1 he.1, canonF_eq_forgetF fs hr.2 he.2]
end

mutual
  /-- every `Pos()`/`End()` function is stable on a tree without recovered positions -/
  theorem peStable_of_noRecovered (ann : Ann) : ∀ (v : Val), noRecovered v = true → noEmptySlice v = true →
      peStable ann v
    | .ptr v, hr, he => by
      simp only [noRecovered] at hr; simp only [noEmptySlice] at he
      simp only [peStable]; exact peStable_of_noRecovered ann v hr he
    | .iface v, hr, he => by
      simp only [noRecovered] at hr; simp only [noEmptySlice] at he
      simp only [peStable]; exact peStable_of_noRecovered ann v hr he
    | .slice [], _, he => by simp [noEmptySlice] at he
    | .slice (e :: es), hr, he => by
      simp only [noRecovered, noRecoveredL, Bool.and_eq_true] at hr
      simp only [noEmptySlice, Bool.and_eq_true] at he
      simp only [peStable, peStableL]
      exact ⟨peStable_of_noRecovered ann e hr.1 he.1, peStableL_of_noRecovered ann es hr.2 he.2⟩
    | .struct name pe fs, hr, he => by
      simp only [noRecovered] at hr; simp only [noEmptySlice] at he
      simp only [peStable]
      exact ⟨by rw [canonF_eq_forgetF fs hr he], peStableF_of_noRecovered ann fs hr he⟩
    | .pos _, _, _ => by simp only [peStable]
    | .bool _, _, _ => by simp only [peStable]
    | .str _, _, _ => by simp only [peStable]
    | .uint _ _ _, _, _ => by simp only [peStable]
    | .nil, _, _ => by simp only [peStable]
    | .inil, _, _ => by simp only [peStable]
    | .snil, _, _ => by simp only [peStable]
    | .other, _, _ => by simp only [peStable]
  theorem peStableL_of_noRecovered (ann : Ann) : ∀ (vs : List Val), noRecoveredL vs = true →
      noEmptySliceL vs = true → peStableL ann vs
    | [], _, _ => by simp only [peStableL]
    | v :: vs, hr, he => by
      simp only [noRecoveredL, Bool.and_eq_true] at hr
      simp only [noEmptySliceL, Bool.and_eq_true] at he
      simp only [peStableL]
      exact ⟨peStable_of_noRecovered ann v hr.1 he.1, peStableL_of_noRecovered ann vs hr.2 he.2⟩
  theorem peStableF_of_noRecovered (ann : Ann) : ∀ (fs : List (String × Val)), noRecoveredF fs = true →
      noEmptySliceF fs = true → peStableF ann fs
    | [], _, _ => by simp only [peStableF]
    | (k, v) :: fs, hr, he => by
      simp only [noRecoveredF, Bool.and_eq_true] at hr
      simp only [noEmptySliceF, Bool.and_eq_true] at he
      simp only [peStableF]
      exact ⟨peStable_of_noRecovered ann v hr.1 he.1, peStableF_of_noRecovered ann fs hr.2 he.2⟩
end

mutual
  theorem canon_eq_nilEmpty : ∀ (v : Val), noRecovered v = true → canon v = nilEmpty v
    | .pos p, hr => by
      simp only [noRecovered, decide_eq_true_eq] at hr
      simp only [canon, nilEmpty, dropPos, hr, if_false]
    | .ptr v, hr => by
      simp only [noRecovered] at hr
      simp only [canon, nilEmpty, canon_eq_nilEmpty v hr]
    | .iface v, hr => by
      simp only [noRecovered] at hr
      simp only [canon, nilEmpty, canon_eq_nilEmpty v hr]
    | .slice [], _ => by simp only [canon, nilEmpty]
    | .slice (e :: es), hr => by
      simp only [noRecovered, noRecoveredL, Bool.and_eq_true] at hr
      simp only [canon, nilEmpty, canon_eq_nilEmpty e hr.1, canonL_eq_nilEmptyL es hr.2]
    | .struct name pe fs, hr => by
      simp only [noRecovered] at hr
      simp only [canon, nilEmpty, canonF_eq_nilEmptyF fs hr]
    | .bool _, _ => by simp only [canon, nilEmpty]
    | .str _, _ => by simp only [canon, nilEmpty]
    | .uint _ _ _, _ => by simp only [canon, nilEmpty]
    | .nil, _ => by simp only [canon, nilEmpty]
    | .inil, _ => by simp only [canon, nilEmpty]
    | .snil, _ => by simp only [canon, nilEmpty]
    | .other, _ => by simp only [canon, nilEmpty]
  theorem canonL_eq_nilEmptyL : ∀ (vs : List Val), noRecoveredL vs = true → canonL vs = nilEmptyL vs
    | [], _ => by simp only [canonL, nilEmptyL]
    | v :: vs, hr => by
      simp only [noRecoveredL, Bool.and_eq_true] at hr
      simp only [canonL, nilEmptyL, canon_eq_nilEmpty v hr.1, canonL_eq_nilEmptyL vs hr.2]
  theorem canonF_eq_nilEmptyF : ∀ (fs : List (String × Val)), noRecoveredF fs = true →
      canonF fs = nilEmptyF fs
    | [], _ => by simp only [canonF, nilEmptyF]
    | (k, v) :: fs, hr => by
      simp only [noRecoveredF, Bool.and_eq_true] at hr
      simp only [canonF, nilEmptyF, canon_eq_nilEmpty v hr.1, canonF_eq_nilEmptyF fs hr.2]
end

mutual
  /-- a slice-blind `Pos()`/`End()` function is stable on every tree without recovered positions -/
  theorem peStable_of_blind (ann : Ann) (hb : annSliceBlind ann) : ∀ (v : Val), noRecovered v = true →
      peStable ann v
    | .ptr v, hr => by
      simp only [noRecovered] at hr
      simp only [peStable]; exact peStable_of_blind ann hb v hr
    | .iface v, hr => by
      simp only [noRecovered] at hr
      simp only [peStable]; exact peStable_of_blind ann hb v hr
    | .slice vs, hr => by
      simp only [noRecovered] at hr
      simp only [peStable]; exact peStableL_of_blind ann hb vs hr
    | .struct name pe fs, hr => by
      simp only [noRecovered] at hr
      simp only [peStable]
      exact ⟨by rw [canonF_eq_nilEmptyF fs hr]; exact hb name fs, peStableF_of_blind ann hb fs hr⟩
    | .pos _, _ => by simp only [peStable]
    | .bool _, _ => by simp only [peStable]
    | .str _, _ => by simp only [peStable]
    | .uint _ _ _, _ => by simp only [peStable]
    | .nil, _ => by simp only [peStable]
    | .inil, _ => by simp only [peStable]
    | .snil, _ => by simp only [peStable]
    | .other, _ => by simp only [peStable]
  theorem peStableL_of_blind (ann : Ann) (hb : annSliceBlind ann) : ∀ (vs : List Val),
      noRecoveredL vs = true → peStableL ann vs
    | [], _ => by simp only [peStableL]
    | v :: vs, hr => by
      simp only [noRecoveredL, Bool.and_eq_true] at hr
      simp only [peStableL]
      exact ⟨peStable_of_blind ann hb v hr.1, peStableL_of_blind ann hb vs hr.2⟩
  theorem peStableF_of_blind (ann : Ann) (hb : annSliceBlind ann) : ∀ (fs : List (String × Val)),
      noRecoveredF fs = true → peStableF ann fs
    | [], _ => by simp only [peStableF]
    | (k, v) :: fs, hr => by
      simp only [noRecoveredF, Bool.and_eq_true] at hr
      simp only [peStableF]
      exact ⟨peStable_of_blind ann hb v hr.1, peStableF_of_blind ann hb fs hr.2⟩
end

end ShVerif.C15
