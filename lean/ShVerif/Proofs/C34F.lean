import ShVerif.Proofs.C34
/-
  C34 — the name-folding (`caseInsensitive = true`) copy of the code.

  Method: the folded code run on `pairs` behaves exactly like the case-sensitive code run on the
  pairs whose *name part* has been folded (`foldName`), so every theorem of Proofs/C34.lean is
  transported instead of being re-proved.  The only genuinely new fact is `getCmpF_key`: the
  comparison closure of `Get`, which folds the *whole* pair in its too-short branch and looks at the
  *raw* byte after the name otherwise, still only depends on the folded key.

  The first section holds the definitions used in the statements of Props/C34.lean.
-/
namespace ShVerif.C34

/-! ### Definitions used in the statements -/

/-- What the proofs need of a byte-wise folding `List.map f`: folding moves no byte across `=`
    (so `=` stays `=`, nothing else becomes `=`, and the raw comparison `pair[eqpos]` vs `=` in
    `Get` agrees with the folded order). -/
def EqPreserving (f : UInt8 → UInt8) : Prop :=
  ∀ c, (f c < eqByte ↔ c < eqByte) ∧ (eqByte < f c ↔ eqByte < c)

/-- The map built left to right, names compared after folding: the last value given for a name
    that folds to the same bytes as `name`. -/
def specGetF (fold : Bytes → Bytes) (pairs : List Bytes) (name : Bytes) : Option Bytes :=
  pairs.foldl (fun acc p =>
    match validPair p with
    | some (n, v) => if fold n = fold name then some v else acc
    | none => acc) none

/-- The byte map of `upperAscii`. -/
def upperByte (c : UInt8) : UInt8 := if 97 ≤ c && c ≤ 122 then c - 32 else c

theorem upperAscii_eq_map : upperAscii = List.map upperByte := rfl

theorem upperByte_eqPreserving : EqPreserving upperByte := by
  intro c
  unfold upperByte eqByte
  constructor <;> split <;> grind

theorem id_eqPreserving : EqPreserving id := fun _ => ⟨Iff.rfl, Iff.rfl⟩

theorem specGetCI_eq : specGetCI = specGetF upperAscii := rfl

/-! ### `fold = id` is the case-sensitive code -/

theorem leF_id : leF id = le := rfl

theorem insertF_id (x : Bytes) (l : List Bytes) : insertF id x l = C34.insert x l := by
  induction l with
  | nil => rfl
  | cons y ys ih => simp only [insertF, C34.insert, leF_id, ih]

theorem sortStableF_id (l : List Bytes) : sortStableF id l = sortStable l := by
  induction l with
  | nil => rfl
  | cons x l ih =>
    show insertF id x (sortStableF id l) = C34.insert x (sortStable l)
    rw [ih, insertF_id]

theorem dedupF_id (rest : List Bytes) : ∀ kept last, dedupF id kept last rest = dedup kept last rest := by
  induction rest with
  | nil => intro kept last; rfl
  | cons p rest ih =>
    intro kept last
    simp only [dedupF, dedup, cmpF, id, ih]

theorem listEnvironF_id_apply (pairs : List Bytes) : listEnvironF id pairs = listEnviron pairs := by
  simp only [listEnvironF, listEnviron, sortStableF_id, dedupF_id]

theorem getCmpF_id : getCmpF id = getCmp := rfl

theorem getF_id_apply (l : List Bytes) (name : Bytes) : getF id l name = get l name := rfl

/-! ### Folding the name part of a pair -/

/-- `name=value ↦ fold(name)=value`; pairs without `=` are left alone. -/
def foldName (f : UInt8 → UInt8) (p : Bytes) : Bytes :=
  match cut p with
  | some (n, v) => n.map f ++ eqByte :: v
  | none => p

section
variable {f : UInt8 → UInt8} (hf : EqPreserving f)
include hf

theorem f_eq_iff (c : UInt8) : f c = eqByte ↔ c = eqByte := by
  have := hf c
  grind

theorem not_mem_map {n : Bytes} (h : eqByte ∉ n) : eqByte ∉ n.map f := by
  intro hm
  obtain ⟨c, hc, e⟩ := List.mem_map.1 hm
  rw [f_eq_iff hf] at e
  subst e
  exact h hc

theorem cut_foldName {p n v : Bytes} (h : cut p = some (n, v)) :
    cut (foldName f p) = some (n.map f, v) := by
  simp only [foldName, h]
  exact cut_append v (not_mem_map hf (cut_some h).2)

omit hf in
theorem cut_foldName_none {p : Bytes} (h : cut p = none) : cut (foldName f p) = none := by
  simp only [foldName, h]

theorem cut_foldName_eq (p : Bytes) :
    cut (foldName f p) = (cut p).map fun nv => (nv.1.map f, nv.2) := by
  cases h : cut p with
  | none => simp [cut_foldName_none h]
  | some nv => obtain ⟨n, v⟩ := nv; simp [cut_foldName hf h]

theorem key_foldName (p : Bytes) : key (foldName f p) = (key p).map f := by
  unfold key
  rw [cut_foldName_eq hf]
  cases cut p with
  | none => rfl
  | some nv => simp [(f_eq_iff hf eqByte).2 rfl]

theorem validPair_foldName (p : Bytes) :
    validPair (foldName f p) = (validPair p).map fun nv => (nv.1.map f, nv.2) := by
  unfold validPair
  rw [cut_foldName_eq hf]
  cases cut p with
  | none => rfl
  | some nv =>
    obtain ⟨n, v⟩ := nv
    cases n <;> simp

theorem valid_of_foldName {p : Bytes} (h : Valid (foldName f p)) : Valid p := by
  obtain ⟨n, v, hc, hn⟩ := h
  rw [cut_foldName_eq hf] at hc
  cases hp : cut p with
  | none => rw [hp] at hc; cases hc
  | some nv =>
    obtain ⟨n', v'⟩ := nv
    rw [hp] at hc
    simp only [Option.map_some, Option.some.injEq, Prod.mk.injEq] at hc
    refine ⟨n', v', hp, ?_⟩
    rintro rfl
    exact hn hc.1.symm

/-! ### The folded sort and dedup loop are the plain ones on the name-folded pairs -/

theorem leF_eq (a b : Bytes) : leF (List.map f) a b = le (foldName f a) (foldName f b) := by
  simp only [leF, cmpF, le, key_foldName hf]

theorem map_insertF (x : Bytes) (l : List Bytes) :
    (insertF (List.map f) x l).map (foldName f) = C34.insert (foldName f x) (l.map (foldName f)) := by
  induction l with
  | nil => rfl
  | cons y ys ih =>
    simp only [insertF, List.map_cons, C34.insert, leF_eq hf]
    split
    · rfl
    · simp only [List.map_cons, ih]

theorem map_sortStableF (l : List Bytes) :
    (sortStableF (List.map f) l).map (foldName f) = sortStable (l.map (foldName f)) := by
  induction l with
  | nil => rfl
  | cons x l ih =>
    show (insertF (List.map f) x (sortStableF (List.map f) l)).map (foldName f)
      = C34.insert (foldName f x) (sortStable (l.map (foldName f)))
    rw [map_insertF hf, ih]

theorem map_dedupF (rest : List Bytes) : ∀ kept last,
    (dedupF (List.map f) kept last rest).map (List.map (foldName f))
      = dedup (kept.map (foldName f)) (last.map f) (rest.map (foldName f)) := by
  induction rest with
  | nil => intro kept last; simp [dedupF, dedup]
  | cons p rest ih =>
    intro kept last
    simp only [dedupF, List.map_cons, dedup]
    cases hc : cut p with
    | none => simp only [cut_foldName_none hc, ih]
    | some nv =>
      obtain ⟨name, v⟩ := nv
      simp only [cut_foldName hf hc, List.map_eq_nil_iff]
      by_cases hn : name = []
      · rw [if_pos hn, if_pos hn]
        exact ih _ _
      · rw [if_neg hn, if_neg hn]
        by_cases he : cmpF (List.map f) last name = .eq
        · have he' : cmpBytes (last.map f) (name.map f) = .eq := he
          rw [if_pos he, if_pos he']
          cases kept with
          | nil => rfl
          | cons q kept' => exact ih (p :: kept') last
        · have he' : ¬ cmpBytes (last.map f) (name.map f) = .eq := he
          rw [if_neg he, if_neg he']
          exact ih (p :: kept) name

theorem map_listEnvironF (pairs : List Bytes) :
    (listEnvironF (List.map f) pairs).map (List.map (foldName f))
      = listEnviron (pairs.map (foldName f)) := by
  simp only [listEnvironF, listEnviron, map_dedupF hf, map_sortStableF hf, List.map_nil]

/-- Everything needed about the output of the folded `listEnviron_`. -/
theorem listEnvironF_inv (pairs : List Bytes) :
    ∃ l, listEnvironF (List.map f) pairs = some l ∧
      listEnviron (pairs.map (foldName f)) = some (l.map (foldName f)) ∧
      (∀ p ∈ l, Valid p) := by
  obtain ⟨l', h1, hv, _, _⟩ := listEnviron_inv (pairs.map (foldName f))
  have hm := map_listEnvironF hf pairs
  rw [h1] at hm
  cases hl : listEnvironF (List.map f) pairs with
  | none => rw [hl] at hm; cases hm
  | some l =>
    rw [hl] at hm
    simp only [Option.map_some, Option.some.injEq] at hm
    subst hm
    refine ⟨l, rfl, h1, ?_⟩
    intro p hp
    exact valid_of_foldName hf (hv _ (List.mem_map_of_mem hp))

/-! ### The specification transports too -/

theorem specGetF_eq (pairs : List Bytes) (name : Bytes) :
    specGetF (List.map f) pairs name = specGet (pairs.map (foldName f)) (name.map f) := by
  rw [specGet_eq, List.foldl_map]
  unfold specGetF
  congr 1
  funext acc p
  simp only [step, validPair_foldName hf]
  cases validPair p with
  | none => rfl
  | some nv => rfl

theorem each_map (l : List Bytes) :
    each (l.map (foldName f)) = (each l).map (List.map fun nv => (nv.1.map f, nv.2)) := by
  induction l with
  | nil => rfl
  | cons p l ih =>
    simp only [List.map_cons, each, ih, cut_foldName_eq hf]
    cases cut p <;> cases each l <;> rfl

/-! ### `Get`: the folded comparison closure only depends on the folded key -/

omit hf in
theorem getCmpF_nil_cons (b : UInt8) (p : Bytes) :
    getCmpF (List.map f) [] (b :: p)
      = if b < eqByte then -1 else if b > eqByte then 1 else 0 := by
  simp [getCmpF, cmpF, cmpBytes, ordToInt]

omit hf in
theorem getCmpF_cons_cons (a : UInt8) (name : Bytes) (b : UInt8) (p : Bytes) :
    getCmpF (List.map f) (a :: name) (b :: p)
      = if f b < f a then -1 else if f a < f b then 1 else getCmpF (List.map f) name p := by
  simp only [getCmpF, cmpF, List.length_cons, Nat.add_lt_add_iff_right, List.map_cons, cmpBytes,
    List.take_succ_cons, List.getD_cons_succ]
  by_cases h1 : f b < f a
  · simp [h1, ordToInt]
  · by_cases h2 : f a < f b
    · simp [h1, h2, ordToInt]
    · simp [h1, h2]

/-- The key new fact of the case-insensitive mode.  In the too-short branch `compare` folds the
    whole pair, value included, but the value never decides: the pair's `=` lies within the first
    `|name|` bytes and `name` has none.  In the other branch the *raw* byte after the name prefix is
    compared with `=`, which agrees with the folded order because folding moves no byte across `=`. -/
theorem getCmpF_key (name n v : Bytes) (h1 : eqByte ∉ name) (h2 : eqByte ∉ n) :
    getCmpF (List.map f) name (n ++ eqByte :: v)
      = ordToInt (cmpBytes (n.map f ++ [eqByte]) (name.map f ++ [eqByte])) := by
  have hfe : f eqByte = eqByte := (f_eq_iff hf eqByte).2 rfl
  induction name generalizing n with
  | nil =>
    cases n with
    | nil => simp [getCmpF_nil_cons, cmpBytes, ordToInt]
    | cons b n =>
      simp only [List.mem_cons, not_or] at h2
      have hb : ¬ b = eqByte := fun e => h2.1 e.symm
      simp only [List.cons_append, List.nil_append, getCmpF_nil_cons, cmpBytes, List.map_cons,
        List.map_nil, (hf b).1, (hf b).2]
      by_cases c1 : b < eqByte
      · simp [c1, ordToInt]
      · by_cases c2 : eqByte < b
        · simp [c1, c2, ordToInt]
        · exact absurd (by grind) hb
  | cons a name ih =>
    simp only [List.mem_cons, not_or] at h1
    have ha : ¬ f a = eqByte := fun e => h1.1 ((f_eq_iff hf a).1 e).symm
    cases n with
    | nil =>
      simp only [List.cons_append, List.nil_append, getCmpF_cons_cons, cmpBytes, List.map_cons,
        List.map_nil, hfe]
      by_cases c1 : eqByte < f a
      · simp [c1, ordToInt]
      · by_cases c2 : f a < eqByte
        · simp [c1, c2, ordToInt]
        · exact absurd (by grind) ha
    | cons b n =>
      simp only [List.mem_cons, not_or] at h2
      simp only [List.cons_append, getCmpF_cons_cons, cmpBytes, List.map_cons]
      by_cases c1 : f b < f a
      · simp [c1, ordToInt]
      · by_cases c2 : f a < f b
        · simp [c1, c2, ordToInt]
        · simp only [c1, c2, if_false]
          exact ih n h1.2 h2.2

/-- On a pair with an `=`, the folded closure is the plain closure on the name-folded pair. -/
theorem getCmpF_eq (name p : Bytes) (h1 : eqByte ∉ name) {n v : Bytes} (hc : cut p = some (n, v)) :
    getCmpF (List.map f) name p = getCmp (name.map f) (foldName f p) := by
  obtain ⟨e, hn⟩ := cut_some hc
  have e2 : foldName f p = n.map f ++ eqByte :: v := by simp only [foldName, hc]
  rw [e2, getCmp_key _ _ _ (not_mem_map hf h1) (not_mem_map hf hn)]
  conv => lhs; rw [e]
  exact getCmpF_key hf name n v h1 hn

end

theorem drop_succ_append (a : Bytes) (c : UInt8) (v : Bytes) (k : Nat) (h : a.length = k) :
    List.drop (k + 1) (a ++ c :: v) = v := by
  subst h; simp

/-- `slices.BinarySearchFunc` only looks at the comparison results. -/
theorem bsearch_congr (c1 c2 : Bytes → Int) (x y : Array Bytes) (n : Nat)
    (h : ∀ k, k < n → c1 (x.getD k []) = c2 (y.getD k [])) :
    ∀ fuel i j, j ≤ n → bsearch c1 x fuel i j = bsearch c2 y fuel i j := by
  intro fuel
  induction fuel with
  | zero => intro i j _; rfl
  | succ fuel ih =>
    intro i j hj
    simp only [bsearch]
    split
    · next hij =>
      rw [h ((i + j) / 2) (by omega), ih _ _ hj, ih _ _ (by omega : (i + j) / 2 ≤ n)]
    · rfl

theorem getF_eq_get {f : UInt8 → UInt8} (hf : EqPreserving f) (l : List Bytes) (name : Bytes)
    (hv : ∀ p ∈ l, Valid p) (h1 : eqByte ∉ name) :
    getF (List.map f) l name = get (l.map (foldName f)) (name.map f) := by
  have h1' : eqByte ∉ name.map f := not_mem_map hf h1
  have hlen : (l.map (foldName f)).length = l.length := List.length_map _
  have hpt : ∀ k, k < l.length →
      getCmpF (List.map f) name (l.toArray.getD k [])
        = getCmp (name.map f) ((l.map (foldName f)).toArray.getD k []) := by
    intro k hk
    rw [toArray_getD l k hk, toArray_getD _ k (by omega), List.getElem_map]
    obtain ⟨n, v, hc, _⟩ := hv l[k] (List.getElem_mem hk)
    exact getCmpF_eq hf name _ h1 hc
  have hb := bsearch_congr _ _ _ _ l.length hpt (l.length + 1) 0 l.length (Nat.le_refl _)
  rw [get_unfold _ _ h1']
  have hunf : getF (List.map f) l name =
      if bsearch (getCmpF (List.map f) name) l.toArray (l.length + 1) 0 l.length < l.length ∧
          getCmpF (List.map f) name (l.toArray.getD
            (bsearch (getCmpF (List.map f) name) l.toArray (l.length + 1) 0 l.length) []) = 0 then
        if name.length + 1 ≤ (l.toArray.getD
            (bsearch (getCmpF (List.map f) name) l.toArray (l.length + 1) 0 l.length) []).length then
          .val ((l.toArray.getD
            (bsearch (getCmpF (List.map f) name) l.toArray (l.length + 1) 0 l.length) []).drop
              (name.length + 1))
        else .panic
      else .unset := by
    simp [getF, h1]
  rw [hunf, hlen, ← hb]
  generalize bsearch (getCmpF (List.map f) name) l.toArray (l.length + 1) 0 l.length = r
  by_cases hr : r < l.length
  · rw [hpt r hr]
    split
    · next hcond =>
      have hz := hcond.2
      rw [toArray_getD l r hr, toArray_getD _ r (by omega), List.getElem_map]
      rw [toArray_getD _ r (by omega), List.getElem_map] at hz
      obtain ⟨n, v, hc, _⟩ := hv l[r] (List.getElem_mem hr)
      obtain ⟨e, hn⟩ := cut_some hc
      have e2 : foldName f l[r] = n.map f ++ eqByte :: v := by simp only [foldName, hc]
      rw [e2, getCmp_key _ _ _ h1' (not_mem_map hf hn), ordToInt_zero_iff, cmpBytes_eq_iff] at hz
      have hnn : n.map f = name.map f := List.append_cancel_right hz
      have hl : n.length = name.length := by
        have := congrArg List.length hnn
        simpa using this
      rw [e2]
      conv => lhs; rw [e]
      rw [drop_succ_append _ eqByte v _ hl,
        drop_succ_append _ eqByte v _ (by simp [hl] : (n.map f).length = (name.map f).length)]
      simp [hl.symm]
    · rfl
  · have : ¬ (r < l.length ∧ getCmpF (List.map f) name (l.toArray.getD r []) = 0) := fun h => hr h.1
    have : ¬ (r < l.length ∧
        getCmp (name.map f) ((l.map (foldName f)).toArray.getD r []) = 0) := fun h => hr h.1
    simp [*]

end ShVerif.C34
