/-
  L4 printer lemmas: a running summary of the pieces written so far (last piece, tokens, whether
  the last token was a newline, whether no two pieces glue), how each printer primitive changes
  it, and — for programs made of simple commands — that the printer's output is a concrete syntax
  in the sense of `lexChain` / `expect` / layout trees.
-/
import ShVerif.Proofs.L4Parse
namespace ShVerif.L4

/-! ## Summaries of piece lists, computed left to right -/

def Piece.first? (p : Piece) : Option UInt8 := p.bytes.head?

/-- tokens a piece contributes, given whether the previous token was a newline -/
def pieceToks (sk : Bool) : Piece → List ATok
  | .word parts => [.word (mergeN (parts.map WordPart.erase))]
  | .op b => match opTok b with | some t => [t] | none => []
  | .gap b => match gapKind b with
    | some .newline => if sk then [] else [.newl]
    | _ => []

def pieceSk (sk : Bool) : Piece → Bool
  | .word _ => false
  | .op _ => false
  | .gap b => match gapKind b with
    | some .newline => true
    | _ => sk

structure Sum where
  last : Option Piece := none
  sk : Bool := false
  toks : List ATok := []
  ok : Bool := true

def Sum.step (a : Sum) (q : Piece) : Sum :=
  { last := some q
    sk := pieceSk a.sk q
    toks := a.toks ++ pieceToks a.sk q
    ok := a.ok && q.shapeOK && (match a.last with
      | none => true
      | some l => followOK l q.first?) }

def summarize (a : Sum) (ps : List Piece) : Sum := ps.foldl Sum.step a

theorem summarize_append (a : Sum) (ps qs : List Piece) : summarize a (ps ++ qs) = summarize (summarize a ps) qs := by
  simp [summarize, List.foldl_append]

/-- a piece of a printer shape has at least one byte -/
theorem Piece.shapeOK_first {q : Piece} (h : q.shapeOK = true) : ∃ b t, q.bytes = b :: t := by
  cases q with
  | word parts =>
    simp only [Piece.shapeOK, Bool.and_eq_true, Bool.not_eq_true', List.isEmpty_eq_false_iff, List.all_eq_true] at h
    obtain ⟨b, t, hb, _⟩ := wordBytes_head parts h.1 h.2
    exact ⟨b, t, hb⟩
  | op b =>
    cases b with
    | nil => simp [Piece.shapeOK, opTok] at h
    | cons x t => exact ⟨x, t, rfl⟩
  | gap b =>
    cases b with
    | nil => simp [Piece.shapeOK, gapKind] at h
    | cons x t => exact ⟨x, t, rfl⟩

theorem render_cons_head {q : Piece} (h : q.shapeOK = true) (rest : List Piece) :
    (render (q :: rest)).head? = q.first? := by
  obtain ⟨b, t, hb⟩ := Piece.shapeOK_first h
  simp [render, Piece.first?, hb]

/-- `lexChain` and `expect` from the summary: generalised over the pieces already seen -/
theorem lexChain_expect_of_sum : ∀ (ps : List Piece) (a : Sum) (l : Piece),
    a.last = some l → (summarize a ps).ok = true →
    (match (summarize a ps).last with | some z => followOK z none | none => true) = true →
    a.ok = true ∧ followOK l (render ps).head? = true ∧ lexChain ps = true ∧
      (summarize a ps).toks ++ [ATok.eof] = a.toks ++ expect a.sk ps := by
  intro ps
  induction ps with
  | nil =>
    intro a l hl hok hlast
    simp only [summarize, List.foldl_nil, hl] at hok hlast
    simp [summarize, render, lexChain, expect, hok, hlast]
  | cons q rest ih =>
    intro a l hl hok hlast
    have hstep : summarize a (q :: rest) = summarize (a.step q) rest := rfl
    rw [hstep] at hok hlast
    obtain ⟨h1, h2, h3, h4⟩ := ih (a.step q) q rfl hok hlast
    simp only [Sum.step, hl, Bool.and_eq_true] at h1
    obtain ⟨⟨ha, hq⟩, hf⟩ := h1
    refine ⟨ha, ?_, ?_, ?_⟩
    · rw [render_cons_head hq]; exact hf
    · simp only [lexChain, hq, h2, h3, Bool.and_self]
    · rw [hstep, h4]
      simp only [Sum.step, List.append_assoc]
      congr 1
      cases q with
      | word parts => simp [pieceToks, pieceSk, expect]
      | op b =>
        simp only [pieceToks, pieceSk, expect]
        cases opTok b <;> rfl
      | gap b =>
        simp only [pieceToks, pieceSk, expect]
        cases hg : gapKind b with
        | none => simp
        | some k =>
          cases k <;> simp
          cases a.sk <;> simp


/-- the whole output: from the empty summary -/
theorem lexChain_expect_init (ps : List Piece) (hok : (summarize {} ps).ok = true)
    (hlast : (match (summarize {} ps).last with | some z => followOK z none | none => true) = true) :
    lexChain ps = true ∧ expect false ps = (summarize {} ps).toks ++ [ATok.eof] := by
  cases ps with
  | nil => simp [lexChain, expect, summarize]
  | cons q rest =>
    have hstep : summarize {} (q :: rest) = summarize (Sum.step {} q) rest := rfl
    rw [hstep] at hok hlast ⊢
    obtain ⟨h1, h2, h3, h4⟩ := lexChain_expect_of_sum rest (Sum.step {} q) q rfl hok hlast
    simp only [Sum.step, Bool.true_and, Bool.and_true] at h1
    refine ⟨by simp only [lexChain, h1, h2, h3, Bool.and_self], ?_⟩
    rw [h4]
    cases q with
    | word parts => simp [Sum.step, pieceToks, pieceSk, expect]
    | op b => simp only [Sum.step, pieceToks, pieceSk, expect, List.nil_append]; cases opTok b <;> rfl
    | gap b =>
      simp only [Sum.step, pieceToks, pieceSk, expect, List.nil_append]
      cases hg : gapKind b with
      | none => simp
      | some k => cases k <;> simp

/-! ## The summary of the printer state -/

def P.sum (p : P) : Sum := summarize {} p.out.reverse

theorem P.sum_push (p : P) (q : Piece) (p' : P) (h : p'.out = q :: p.out) : p'.sum = p.sum.step q := by
  simp [P.sum, h, summarize, List.foldl_append]

theorem P.sum_same (p p' : P) (h : p'.out = p.out) : p'.sum = p.sum := by
  simp [P.sum, h]

/-- pieces after which a word, `!` or an escaped newline must not follow directly -/
def needsGap : Piece → Bool
  | .word _ => true
  | .gap _ => false
  | .op b => b == [123] || b == [125] || b == [33] || b == [38]

theorem followOK_blank (l : Piece) (c : UInt8) (hc : c = 32 ∨ c = 10 ∨ c = 9) : followOK l (some c) = true := by
  rcases hc with rfl | rfl | rfl <;> cases l <;> simp only [followOK, optAll] <;> (try rfl) <;>
    (repeat' split) <;> decide

/-- after a piece that needs no gap, a word byte, `!`, or a backslash may follow directly -/
theorem followOK_free (l : Piece) (c : UInt8) (hl : needsGap l = false)
    (hc : (c == 92 || c == 33 || isSafe c || c == 39) = true) : followOK l (some c) = true := by
  cases l with
  | word _ => simp [needsGap] at hl
  | gap _ => rfl
  | op b =>
    simp only [needsGap, Bool.or_eq_false_iff, beq_eq_false_iff_ne, ne_eq] at hl
    obtain ⟨⟨⟨h1, h2⟩, h3⟩, h4⟩ := hl
    have key : ∀ x : UInt8, (x == 92 || x == 33 || isSafe x || x == 39) = true →
        (x != 59 && x != 38 && x != 124) = true ∧ (x != 124 && x != 38) = true ∧ (x != 40 && x != 41) = true := by
      apply u8_forall; decide +kernel
    obtain ⟨k1, k2, k3⟩ := key c hc
    simp only [followOK, optAll, h4, h1, h2, h3, or_self, ↓reduceIte, k1, k2, k3]
    repeat' split
    all_goals rfl


/-! ## One more piece -/

theorem gapKind_replicate (n : Nat) (c : UInt8) (hn : n ≠ 0) (hc : c = 32 ∨ c = 9) :
    gapKind (List.replicate n c) = some .blanks := by
  cases n with
  | zero => exact absurd rfl hn
  | succ m =>
    rcases hc with rfl | rfl
    · unfold gapKind
      have h1 : List.replicate (m + 1) (32 : UInt8) ≠ [10] := by simp [List.replicate_succ]
      have h2 : List.replicate (m + 1) (32 : UInt8) ≠ [92, 10] := by simp [List.replicate_succ]
      simp [List.replicate_succ]
    · unfold gapKind
      have h1 : List.replicate (m + 1) (9 : UInt8) ≠ [10] := by simp [List.replicate_succ]
      have h2 : List.replicate (m + 1) (9 : UInt8) ≠ [92, 10] := by simp [List.replicate_succ]
      simp [List.replicate_succ]

/-- a run of blanks or tabs -/
theorem step_blanks (a : Sum) (n : Nat) (c : UInt8) (hn : n ≠ 0) (hc : c = 32 ∨ c = 9) :
    a.step (.gap (List.replicate n c)) =
      { last := some (.gap (List.replicate n c)), sk := a.sk, toks := a.toks, ok := a.ok } := by
  have hk := gapKind_replicate n c hn hc
  have hfirst : (Piece.gap (List.replicate n c)).first? = some c := by
    cases n with
    | zero => exact absurd rfl hn
    | succ m => simp [Piece.first?, Piece.bytes, List.replicate_succ]
  have hf : ∀ l, followOK l (some c) = true := fun l => followOK_blank l c (by rcases hc with h | h <;> simp [h])
  simp only [Sum.step, pieceSk, pieceToks, hk, Piece.shapeOK, Option.isSome_some, Bool.and_true, hfirst,
    List.append_nil]
  cases a.last <;> simp [hf]

theorem step_space (a : Sum) : a.step (.gap [32]) = { last := some (.gap [32]), sk := a.sk, toks := a.toks, ok := a.ok } :=
  step_blanks a 1 32 (by decide) (Or.inl rfl)

theorem step_nl (a : Sum) : a.step (.gap [10]) =
    { last := some (.gap [10]), sk := true, toks := a.toks ++ (if a.sk then [] else [.newl]), ok := a.ok } := by
  have hk : gapKind [10] = some .newline := by simp [gapKind]
  have hf : ∀ l, followOK l (some 10) = true := fun l => followOK_blank l 10 (by simp)
  simp only [Sum.step, pieceSk, pieceToks, hk, Piece.shapeOK, Option.isSome_some, Bool.and_true, Piece.first?,
    Piece.bytes, List.head?_cons]
  cases a.last <;> simp [hf]

theorem step_bsnl (a : Sum) (h : ∀ l, a.last = some l → needsGap l = false) :
    a.step (.gap [92, 10]) = { last := some (.gap [92, 10]), sk := a.sk, toks := a.toks, ok := a.ok } := by
  have hk : gapKind [92, 10] = some .bsnl := by simp [gapKind]
  simp only [Sum.step, pieceSk, pieceToks, hk, Piece.shapeOK, Option.isSome_some, Bool.and_true, Piece.first?,
    Piece.bytes, List.head?_cons, List.append_nil]
  cases hl : a.last with
  | none => simp
  | some l => simp [followOK_free l 92 (h l hl) (by decide)]

theorem step_word (a : Sum) (parts : List WordPart) (hne : parts ≠ []) (hw : ∀ p ∈ parts, p.wf = true)
    (h : ∀ l, a.last = some l → needsGap l = false) :
    a.step (.word parts) =
      { last := some (.word parts), sk := false, toks := a.toks ++ [.word (mergeN (parts.map WordPart.erase))], ok := a.ok } := by
  obtain ⟨b, t, hb, hsafe⟩ := wordBytes_head parts hne hw
  have hshape : (Piece.word parts).shapeOK = true := by
    simp only [Piece.shapeOK, Bool.and_eq_true, Bool.not_eq_true', List.isEmpty_eq_false_iff, List.all_eq_true]
    exact ⟨hne, hw⟩
  have hc : (b == 92 || b == 33 || isSafe b || b == 39) = true := by
    rcases hsafe with h | h <;> simp [h]
  simp only [Sum.step, pieceSk, pieceToks, hshape, Bool.and_true, Piece.first?, Piece.bytes, hb, List.head?_cons]
  cases hl : a.last with
  | none => simp
  | some l => simp [followOK_free l b (h l hl) hc]

/-- `;` or `&` directly after a word, after a blank, or after `}` / `)` -/
theorem step_term (a : Sum) (b : Bytes) (hb : b = [59] ∨ b = [38])
    (h : ∀ l, a.last = some l → (match l with | .op x => x ≠ [59] ∧ x ≠ [38] ∧ x ≠ [124] ∧ x ≠ [40] | _ => True)) :
    a.step (.op b) =
      { last := some (.op b), sk := false, toks := a.toks ++ [if b = [59] then ATok.semi else ATok.amp], ok := a.ok } := by
  have key : ∀ l : Piece, (match l with | .op x => x ≠ [59] ∧ x ≠ [38] ∧ x ≠ [124] ∧ x ≠ [40] | _ => True) →
      followOK l (some 59) = true ∧ followOK l (some 38) = true := by
    intro l hl
    cases l with
    | word _ => exact ⟨rfl, rfl⟩
    | gap _ => exact ⟨rfl, rfl⟩
    | op x =>
      obtain ⟨h1, h2, h3, h4⟩ := hl
      simp only [followOK, h1, h2, h3, h4, ↓reduceIte, optAll]
      constructor <;> (repeat' split) <;> rfl
  rcases hb with rfl | rfl
  · simp only [Sum.step, pieceSk, pieceToks, Piece.shapeOK, Piece.first?, Piece.bytes, List.head?_cons,
      show opTok [59] = some ATok.semi from by decide, Option.isSome_some, Bool.and_true, ↓reduceIte]
    cases hl : a.last with
    | none => simp
    | some l => simp [(key l (h l hl)).1]
  · simp only [Sum.step, pieceSk, pieceToks, Piece.shapeOK, Piece.first?, Piece.bytes, List.head?_cons,
      show opTok [38] = some ATok.amp from by decide, Option.isSome_some, Bool.and_true]
    cases hl : a.last with
    | none => simp
    | some l => simp [(key l (h l hl)).2]

/-- `!` after something that needs no gap -/
theorem step_bang (a : Sum) (h : ∀ l, a.last = some l → needsGap l = false) :
    a.step (.op [33]) = { last := some (.op [33]), sk := false, toks := a.toks ++ [.bang], ok := a.ok } := by
  simp only [Sum.step, pieceSk, pieceToks, Piece.shapeOK, Piece.first?, Piece.bytes, List.head?_cons,
    show opTok [33] = some ATok.bang from by decide, Option.isSome_some, Bool.and_true]
  cases hl : a.last with
  | none => simp
  | some l => simp [followOK_free l 33 (h l hl) (by decide)]


/-! ## The printer primitives on the summary -/

/-- no two pieces glue so far, and whatever needs a gap before a word is recorded in `wantSpace` -/
structure W (p : P) : Prop where
  ok : p.sum.ok = true
  gap : ∀ l, p.sum.last = some l → needsGap l = true → p.wantSpace = .required

theorem W.free {p : P} (h : W p) (hw : p.wantSpace ≠ .required) : ∀ l, p.sum.last = some l → needsGap l = false := by
  intro l hl
  cases hn : needsGap l with
  | false => rfl
  | true => exact absurd (h.gap l hl hn) hw

/-- fields no flat-printing step changes, except where stated -/
structure Same (p p' : P) : Prop where
  o : p'.o = p.o
  must : p'.mustNewline = p.mustNewline
  first : p'.firstLine = p.firstLine
  wnl : p'.wantNewline = p.wantNewline
  wsemi : p'.wroteSemi = p.wroteSemi

theorem Same.refl (p : P) : Same p p := ⟨rfl, rfl, rfl, rfl, rfl⟩
theorem Same.trans {a b c : P} (h1 : Same a b) (h2 : Same b c) : Same a c :=
  ⟨h2.o.trans h1.o, h2.must.trans h1.must, h2.first.trans h1.first, h2.wnl.trans h1.wnl, h2.wsemi.trans h1.wsemi⟩

/-- a step that writes layout only: no token, same newline state -/
structure Quiet (p p' : P) : Prop where
  same : Same p p'
  toks : p'.sum.toks = p.sum.toks
  sk : p'.sum.sk = p.sum.sk
  w : W p'
  last : p'.sum.last = p.sum.last ∨ ∃ g, p'.sum.last = some (.gap g)

theorem Quiet.trans {a b c : P} (h1 : Quiet a b) (h2 : Quiet b c) : Quiet a c :=
  ⟨h1.same.trans h2.same, h2.toks.trans h1.toks, h2.sk.trans h1.sk, h2.w, by
    rcases h2.last with h | h
    · rcases h1.last with h' | h'
      · exact Or.inl (h.trans h')
      · exact Or.inr (by obtain ⟨g, hg⟩ := h'; exact ⟨g, h.trans hg⟩)
    · exact Or.inr h⟩

theorem Quiet.rfl' {p : P} (hw : W p) : Quiet p p := ⟨Same.refl p, rfl, rfl, hw, Or.inl rfl⟩

theorem Quiet.of_out {p p' : P} (hw : W p) (hout : p'.out = p.out) (hs : Same p p') (hws : p'.wantSpace = p.wantSpace) :
    Quiet p p' := by
  have hsum := P.sum_same p p' hout
  exact ⟨hs, by rw [hsum], by rw [hsum], ⟨by rw [hsum]; exact hw.ok, by rw [hsum, hws]; exact hw.gap⟩, Or.inl (by rw [hsum])⟩

theorem Quiet.space {p : P} (hw : W p) : Quiet p p.space ∧ p.space.wantSpace = .written := by
  have hsum : p.space.sum = p.sum.step (.gap [32]) := P.sum_push p _ _ rfl
  refine ⟨⟨⟨rfl, rfl, rfl, rfl, rfl⟩, by rw [hsum, step_space], by rw [hsum, step_space], ?_,
    Or.inr ⟨[32], by rw [hsum, step_space]⟩⟩, rfl⟩
  refine ⟨by rw [hsum, step_space]; exact hw.ok, ?_⟩
  intro l hl hn
  rw [hsum, step_space] at hl
  simp only [Option.some.injEq] at hl
  subst hl
  simp [needsGap] at hn

theorem Quiet.spacePad {p : P} (hw : W p) : Quiet p p.spacePad ∧ p.spacePad.wantSpace ≠ .required := by
  unfold P.spacePad
  split
  · exact ⟨(Quiet.space hw).1, by simp⟩
  · rename_i h
    exact ⟨Quiet.rfl' hw, h⟩

theorem Quiet.advanceLine {p : P} (hw : W p) (l : Nat) : Quiet p (p.advanceLine l) :=
  Quiet.of_out hw rfl ⟨rfl, rfl, rfl, rfl, rfl⟩ rfl

theorem Quiet.indent {p : P} (hw : W p) : Quiet p p.indent ∧ p.indent.wantSpace = p.wantSpace := by
  unfold P.indent
  split
  · exact ⟨Quiet.rfl' hw, rfl⟩
  · dsimp only
    split
    · exact ⟨Quiet.of_out hw rfl ⟨rfl, rfl, rfl, rfl, rfl⟩ rfl, rfl⟩
    · rename_i hlev
      have hmk : ∀ (n : Nat) (c : UInt8), n ≠ 0 → (c = 32 ∨ c = 9) →
          Quiet p (P.gapw { p with lastLevel := p.level } (List.replicate n c)) ∧
            (P.gapw { p with lastLevel := p.level } (List.replicate n c)).wantSpace = p.wantSpace := by
        intro n c hn hc
        have hsum : (P.gapw { p with lastLevel := p.level } (List.replicate n c)).sum =
            p.sum.step (.gap (List.replicate n c)) := P.sum_push p _ _ rfl
        refine ⟨⟨⟨rfl, rfl, rfl, rfl, rfl⟩, by rw [hsum, step_blanks _ n c hn hc], by rw [hsum, step_blanks _ n c hn hc], ?_,
          Or.inr ⟨_, by rw [hsum, step_blanks _ n c hn hc]⟩⟩, rfl⟩
        refine ⟨by rw [hsum, step_blanks _ n c hn hc]; exact hw.ok, ?_⟩
        intro l hl hnn
        rw [hsum, step_blanks _ n c hn hc] at hl
        simp only [Option.some.injEq] at hl
        subst hl
        simp [needsGap] at hnn
      split
      · exact hmk p.level 9 hlev (Or.inr rfl)
      · rename_i hind
        exact hmk (p.o.indent * p.level) 32 (Nat.mul_ne_zero hind hlev) (Or.inl rfl)

theorem Quiet.incLevel {p : P} (hw : W p) : Quiet p p.incLevel ∧ p.incLevel.wantSpace = p.wantSpace := by
  unfold P.incLevel
  split
  · exact ⟨Quiet.of_out hw rfl ⟨rfl, rfl, rfl, rfl, rfl⟩ rfl, rfl⟩
  · split
    · exact ⟨Quiet.of_out hw rfl ⟨rfl, rfl, rfl, rfl, rfl⟩ rfl, rfl⟩
    · exact ⟨Quiet.of_out hw rfl ⟨rfl, rfl, rfl, rfl, rfl⟩ rfl, rfl⟩

theorem Quiet.decLevel {p : P} (hw : W p) : Quiet p p.decLevel ∧ p.decLevel.wantSpace = p.wantSpace := by
  unfold P.decLevel
  split
  · exact ⟨Quiet.of_out hw rfl ⟨rfl, rfl, rfl, rfl, rfl⟩ rfl, rfl⟩
  · exact ⟨Quiet.of_out hw rfl ⟨rfl, rfl, rfl, rfl, rfl⟩ rfl, rfl⟩

theorem Quiet.bslashNewl {p : P} (hw : W p) : Quiet p p.bslashNewl ∧ p.bslashNewl.wantSpace ≠ .required := by
  unfold P.bslashNewl
  dsimp only
  -- after the optional blank, nothing that needs a gap is last
  have h1 : ∃ q : P, q = (if p.wantSpace = .required then p.space else p) ∧ Quiet p q ∧ q.wantSpace ≠ .required := by
    refine ⟨_, rfl, ?_⟩
    split
    · exact ⟨(Quiet.space hw).1, by simp [(Quiet.space hw).2]⟩
    · rename_i h; exact ⟨Quiet.rfl' hw, h⟩
  obtain ⟨q, hq, hqq, hqw⟩ := h1
  rw [← hq]
  have hfree := hqq.w.free hqw
  let q2 : P := { (q.gapw [92, 10]) with line := (q.gapw [92, 10]).line + 1 }
  have hsum : q2.sum = q.sum.step (.gap [92, 10]) := P.sum_push q _ _ rfl
  have hq2 : Quiet q q2 := by
    refine ⟨⟨rfl, rfl, rfl, rfl, rfl⟩, by rw [hsum, step_bsnl _ hfree], by rw [hsum, step_bsnl _ hfree], ?_,
      Or.inr ⟨_, by rw [hsum, step_bsnl _ hfree]⟩⟩
    refine ⟨by rw [hsum, step_bsnl _ hfree]; exact hqq.w.ok, ?_⟩
    intro l hl hn
    rw [hsum, step_bsnl _ hfree] at hl
    simp only [Option.some.injEq] at hl
    subst hl
    simp [needsGap] at hn
  obtain ⟨hi, hiw⟩ := Quiet.indent hq2.w
  exact ⟨hqq.trans (hq2.trans hi), by rw [hiw]; exact hqw⟩


/-! ## Words and simple commands -/

theorem P.wordPartsLoop_out (q : P) (wps : List WordPart) :
    (q.wordPartsLoop wps).out = q.out ∧ Same q (q.wordPartsLoop wps) ∧ (q.wordPartsLoop wps).wantSpace = q.wantSpace := by
  induction wps generalizing q with
  | nil => exact ⟨rfl, Same.refl q, rfl⟩
  | cons x xs ih =>
    unfold P.wordPartsLoop
    obtain ⟨h1, h2, h3⟩ := ih (q.wordPart x)
    have hx : (q.wordPart x).out = q.out ∧ Same q (q.wordPart x) ∧ (q.wordPart x).wantSpace = q.wantSpace := by
      cases x <;> exact ⟨rfl, ⟨rfl, rfl, rfl, rfl, rfl⟩, rfl⟩
    exact ⟨h1.trans hx.1, hx.2.1.trans h2, h3.trans hx.2.2⟩

/-- what a step that writes one token `a` (after layout) establishes -/
structure Emits (p p' : P) (ts : List ATok) : Prop where
  same : Same p p'
  toks : p'.sum.toks = p.sum.toks ++ ts
  w : W p'

theorem Emits.of_quiet {a b : P} (h : Quiet a b) : Emits a b [] := ⟨h.same, by simp [h.toks], h.w⟩
theorem Emits.trans {a b c : P} {t1 t2 : List ATok} (h1 : Emits a b t1) (h2 : Emits b c t2) : Emits a c (t1 ++ t2) :=
  ⟨h1.same.trans h2.same, by rw [h2.toks, h1.toks, List.append_assoc], h2.w⟩

/-- `p.word(w)` when no blank is pending -/
theorem Emits.word {p : P} (hw : W p) (hws : p.wantSpace ≠ .required) (w : Word) (hwf : w.wf = true) :
    Emits p (p.word w) [.word w.norm] ∧ (p.word w).wantSpace = .required ∧ (p.word w).sum.sk = false ∧
      (p.word w).sum.last = some (.word w.parts) := by
  have hne := Word.wf_parts_ne hwf
  have hparts := Word.wf_parts hwf
  unfold P.word P.wordParts
  cases hp : w.parts with
  | nil => exact absurd hp hne
  | cons wp rest =>
    dsimp only
    -- the optional escaped newline
    have h1 : ∃ q : P, q = (if (!p.o.singleLine && decide (wp.pos.line > p.line)) = true then p.bslashNewl else p) ∧
        Quiet p q ∧ q.wantSpace ≠ .required := by
      refine ⟨_, rfl, ?_⟩
      split
      · exact Quiet.bslashNewl hw
      · exact ⟨Quiet.rfl' hw, hws⟩
    obtain ⟨q, hq, hqq, hqw⟩ := h1
    rw [← hq]
    have hfree := hqq.w.free hqw
    let q2 : P := { q with out := .word (wp :: rest) :: q.out }
    have hsum : q2.sum = q.sum.step (.word (wp :: rest)) := P.sum_push q _ _ rfl
    have hst := step_word q.sum (wp :: rest) (by simp) (by rw [← hp]; exact hparts) hfree
    obtain ⟨l1, l2, l3⟩ := P.wordPartsLoop_out q2 (wp :: rest)
    have hsum3 : (q2.wordPartsLoop (wp :: rest)).sum = q2.sum := P.sum_same _ _ l1
    have hnorm : mergeN ((wp :: rest).map WordPart.erase) = w.norm := by
      rw [Word.norm, normParts_eq, hp]
    have hr : (P.sum { (q2.wordPartsLoop (wp :: rest)) with wantSpace := .required }) =
        q.sum.step (.word (wp :: rest)) := by
      rw [← hsum, ← hsum3]
      exact P.sum_same _ _ rfl
    refine ⟨⟨?_, ?_, ?_⟩, rfl, ?_, ?_⟩
    · exact hqq.same.trans (Same.trans (⟨rfl, rfl, rfl, rfl, rfl⟩ : Same q q2)
        (Same.trans l2 ⟨rfl, rfl, rfl, rfl, rfl⟩))
    · change (P.sum { (q2.wordPartsLoop (wp :: rest)) with wantSpace := .required }).toks = _
      rw [hr, hst, hqq.toks, hnorm]
    · refine ⟨?_, fun _ _ _ => rfl⟩
      change (P.sum { (q2.wordPartsLoop (wp :: rest)) with wantSpace := .required }).ok = true
      rw [hr, hst]
      exact hqq.w.ok
    · change (P.sum { (q2.wordPartsLoop (wp :: rest)) with wantSpace := .required }).sk = false
      rw [hr, hst]
    · change (P.sum { (q2.wordPartsLoop (wp :: rest)) with wantSpace := .required }).last = _
      rw [hr, hst]

/-- the state after a non-empty sequence of words -/
structure AfterWord (p : P) : Prop where
  ws : p.wantSpace = .required
  sk : p.sum.sk = false
  last : ∃ parts, p.sum.last = some (.word parts)

theorem Emits.wordJoinLoop (ws : List Word) : ∀ (p : P) (any : Bool), W p → (∀ w ∈ ws, w.wf = true) →
    Emits p (p.wordJoinLoop any ws).1 (ws.map fun w => ATok.word w.norm) ∧
      (ws ≠ [] → AfterWord (p.wordJoinLoop any ws).1) ∧
      (ws = [] → (p.wordJoinLoop any ws).1 = p) := by
  induction ws with
  | nil =>
    intro p any hw _
    unfold P.wordJoinLoop
    exact ⟨⟨Same.refl p, by simp, hw⟩, fun h => absurd rfl h, fun _ => rfl⟩
  | cons w rest ih =>
    intro p any hw hwf
    have hw1 := hwf w (by simp)
    have hrest : ∀ x ∈ rest, x.wf = true := fun x hx => hwf x (by simp [hx])
    obtain ⟨pos, hpos⟩ := Word.wf_pos hw1
    unfold P.wordJoinLoop
    rw [hpos]
    dsimp only
    -- the optional line break
    have h1 : ∃ (q : P) (any' : Bool), (q, any') = (if (decide (pos.line > p.line) && !p.o.singleLine) = true then
          ((if (!any) = true then p.incLevel else p).bslashNewl, true) else (p, any)) ∧ Quiet p q := by
      by_cases hbr : (decide (pos.line > p.line) && !p.o.singleLine) = true
      · rw [if_pos hbr]
        cases any with
        | false =>
          refine ⟨p.incLevel.bslashNewl, true, rfl, ?_⟩
          exact (Quiet.incLevel hw).1.trans (Quiet.bslashNewl (Quiet.incLevel hw).1.w).1
        | true =>
          refine ⟨p.bslashNewl, true, rfl, ?_⟩
          exact (Quiet.bslashNewl hw).1
      · rw [if_neg hbr]
        exact ⟨p, any, rfl, Quiet.rfl' hw⟩
    obtain ⟨q, any', hq, hqq⟩ := h1
    rw [← hq]
    dsimp only
    obtain ⟨hpad, hpadw⟩ := Quiet.spacePad hqq.w
    obtain ⟨he, hews, hesk, helast⟩ := Emits.word hpad.w hpadw w hw1
    obtain ⟨ih1, ih2, ih3⟩ := ih (q.spacePad.word w) any' he.w hrest
    refine ⟨?_, fun _ => ?_, fun h => by simp at h⟩
    · have := ((Emits.of_quiet (hqq.trans hpad)).trans he).trans ih1
      simpa using this
    · cases rest with
      | nil =>
        rw [ih3 rfl]
        exact ⟨hews, hesk, ⟨_, helast⟩⟩
      | cons x xs => exact ih2 (by simp)

theorem Emits.wordJoin (ws : List Word) (p : P) (hw : W p) (hwf : ∀ w ∈ ws, w.wf = true) :
    Emits p (p.wordJoin ws) (ws.map fun w => ATok.word w.norm) ∧ (ws ≠ [] → AfterWord (p.wordJoin ws)) ∧
      (ws = [] → (p.wordJoin ws).wantSpace = p.wantSpace ∧ (p.wordJoin ws).sum = p.sum) := by
  obtain ⟨h1, h2, h3⟩ := Emits.wordJoinLoop ws p false hw hwf
  unfold P.wordJoin
  cases hres : p.wordJoinLoop false ws with
  | mk p' any =>
    rw [hres] at h1 h2 h3
    dsimp only at h1 h2 h3 ⊢
    cases any with
    | false =>
      simp only [Bool.false_eq_true, ↓reduceIte]
      refine ⟨h1, h2, fun h => ?_⟩
      rw [h3 h]
      exact ⟨rfl, rfl⟩
    | true =>
      simp only [↓reduceIte]
      obtain ⟨hd, hdw⟩ := Quiet.decLevel h1.w
      refine ⟨by simpa using h1.trans (Emits.of_quiet hd), fun h => ?_, fun h => ?_⟩
      · obtain ⟨a1, a2, a3⟩ := h2 h
        exact ⟨by rw [hdw]; exact a1, by rw [hd.sk]; exact a2, by
          obtain ⟨parts, hl⟩ := a3
          refine ⟨parts, ?_⟩
          have : p'.decLevel.sum = p'.sum := by
            unfold P.decLevel
            split <;> exact P.sum_same _ _ rfl
          rw [this]; exact hl⟩
      · rw [h3 h] at hdw ⊢
        refine ⟨hdw, ?_⟩
        unfold P.decLevel
        split <;> exact P.sum_same _ _ rfl


/-! ## Statements made of a simple command -/

/-- fields the statement-level steps keep (they do change `wroteSemi`) -/
structure Same' (p p' : P) : Prop where
  o : p'.o = p.o
  must : p'.mustNewline = p.mustNewline
  first : p'.firstLine = p.firstLine
  wnl : p'.wantNewline = p.wantNewline

theorem Same.weak {p p' : P} (h : Same p p') : Same' p p' := ⟨h.o, h.must, h.first, h.wnl⟩
theorem Same'.trans {a b c : P} (h1 : Same' a b) (h2 : Same' b c) : Same' a c :=
  ⟨h2.o.trans h1.o, h2.must.trans h1.must, h2.first.trans h1.first, h2.wnl.trans h1.wnl⟩

theorem Emits.command_call (args : List Word) (hne : args ≠ []) (hwf : ∀ w ∈ args, w.wf = true) (p : P) (hw : W p) :
    Emits p (p.command (.call args)) (args.map fun w => ATok.word w.norm) ∧ AfterWord (p.command (.call args)) := by
  cases args with
  | nil => exact absurd rfl hne
  | cons w rest =>
    obtain ⟨pos, hpos⟩ := Word.wf_pos (hwf w (by simp))
    unfold P.command
    simp only [hpos]
    have q1 := Quiet.advanceLine hw pos.line
    have q2 := (Quiet.spacePad q1.w).1
    have q3 := (Quiet.incLevel q2.w).1
    have q4 := (Quiet.decLevel q3.w).1
    have hq : Quiet p ((p.advanceLine pos.line).spacePad.incLevel.decLevel) := q1.trans (q2.trans (q3.trans q4))
    have hw1 : ∀ x ∈ [w], x.wf = true := by
      intro x hx
      simp only [List.mem_singleton] at hx
      exact hx ▸ hwf w (by simp)
    have hr : ∀ x ∈ rest, x.wf = true := fun x hx => hwf x (by simp [hx])
    obtain ⟨j1, j2, _⟩ := Emits.wordJoin [w] _ hq.w hw1
    split
    · rename_i hrest
      have : rest = [] := by simpa using hrest
      subst this
      exact ⟨by simpa using (Emits.of_quiet hq).trans j1, j2 (by simp)⟩
    · rename_i hrest
      have hrne : rest ≠ [] := by simpa using hrest
      obtain ⟨k1, k2, _⟩ := Emits.wordJoin rest _ j1.w hr
      exact ⟨by simpa using ((Emits.of_quiet hq).trans j1).trans k1, k2 hrne⟩

theorem W.setWroteSemi {p : P} (hw : W p) (b : Bool) : W { p with wroteSemi := b } :=
  ⟨hw.ok, hw.gap⟩

/-- `!` via `spacedString` -/
theorem Emits.stmtPre (p : P) (hw : W p) (neg : Bool) :
    (P.sum (p.stmtPre neg)).toks = p.sum.toks ++ (if neg then [ATok.bang] else []) ∧ W (p.stmtPre neg) ∧
      Same' p (p.stmtPre neg) ∧ (neg = false → (p.stmtPre neg).wantSpace = p.wantSpace ∧ (p.stmtPre neg).sum = p.sum) := by
  unfold P.stmtPre
  dsimp only
  have hw0 : W { p with wroteSemi := false } := hw.setWroteSemi false
  cases neg with
  | false =>
    refine ⟨?_, hw0, ⟨rfl, rfl, rfl, rfl⟩, fun _ => ⟨rfl, rfl⟩⟩
    show p.sum.toks = p.sum.toks ++ []
    simp
  | true =>
    simp only [↓reduceIte]
    unfold P.spacedString
    obtain ⟨hq, hqw⟩ := Quiet.spacePad hw0
    have hfree := hq.w.free hqw
    have hsum : (P.sum { (P.tok (P.spacePad { p with wroteSemi := false }) [33]) with wantSpace := .required }) =
        (P.spacePad { p with wroteSemi := false }).sum.step (.op [33]) := P.sum_push _ _ _ rfl
    refine ⟨?_, ⟨?_, fun _ _ _ => rfl⟩, ⟨hq.same.o, hq.same.must, hq.same.first, hq.same.wnl⟩, fun h => by cases h⟩
    · rw [hsum, step_bang _ hfree, hq.toks]
      rfl
    · rw [hsum, step_bang _ hfree]; exact hq.w.ok

end ShVerif.L4
